package main

// Retention part of the `key` engine (oracle C14): key material obtained from ONE message of a connection must
// stay equal to the original whatever travels on that connection afterwards.  A scenario registers a sequence
// of keys over one real client connection (binary TTLV, ttlv.Stream on both sides), the server keeps the
// objects it decoded from the Register requests, the client keeps the Get response payloads and the byte
// strings it extracted from them; after FURTHER exchanges on the same connection everything kept is compared
// again with the originals.  (Checking right after each Get, as the round-trip part does, cannot see material
// that aliases a buffer the transport reuses for the next message.)

import (
	"bytes"
	"context"
	"fmt"
	"strconv"
	"strings"
	"sync"
	"time"

	kmip "github.com/ovh/kmip-go"
	"github.com/ovh/kmip-go/kmipclient"
	"github.com/ovh/kmip-go/kmipserver"
	"github.com/ovh/kmip-go/payloads"
	"github.com/ovh/kmip-go/ttlv"
)

type keyRetainItem struct {
	b    keyBuilder
	kf   uint8
	orig *keyRtOrig
}

func (it keyRetainItem) name() string {
	return fmt.Sprintf("%s/%d/%s", it.b.name, it.kf, it.orig.label)
}

func keyBuilderNamed(bs []keyBuilder, name string) keyBuilder {
	for _, b := range bs {
		if b.name == name {
			return b
		}
	}
	panic("key: no builder " + name)
}

// keyRetainScenarios: named sequences of (builder, format mask, key).
func keyRetainScenarios(env *keyEnv) map[string][]keyRetainItem {
	rsaBy := map[string]*keyRSASample{}
	for _, s := range env.rsas {
		rsaBy[s.label] = s
	}
	ecBy := map[string]*keyECSample{}
	for _, s := range env.ecs {
		ecBy[s.label] = s
	}
	rsaItem := func(label, builder string, kf uint8) []keyRetainItem {
		s := rsaBy[label]
		if s == nil {
			return nil
		}
		return []keyRetainItem{{keyBuilderNamed(keyRSABuilders(s.key), builder), kf, &keyRtOrig{label: s.label, rsa: s.key, multi: s.multi}}}
	}
	ecItem := func(label, builder string, kf uint8) []keyRetainItem {
		s := ecBy[label]
		if s == nil {
			return nil
		}
		return []keyRetainItem{{keyBuilderNamed(keyECBuilders(s.key), builder), kf, &keyRtOrig{label: s.label, ec: s.key, ecCode: s.code}}}
	}
	bytesItem := func(label string, b []byte, builder string, kf uint8) []keyRetainItem {
		return []keyRetainItem{{keyBuilderNamed(keyBytesBuilders(b), builder), kf, &keyRtOrig{label: "b-" + label, bytes: b}}}
	}
	cat := func(parts ...[]keyRetainItem) []keyRetainItem {
		var out []keyRetainItem
		for _, p := range parts {
			out = append(out, p...)
		}
		return out
	}
	out := map[string][]keyRetainItem{}
	// same kind, same length: the next message has the same layout, so a reused buffer is overwritten in place
	out["sym3"] = cat(
		bytesItem("a1x32", keyBytesRepeat(0xA1, 32), "SymmetricKey", 0),
		bytesItem("b2x32", keyBytesRepeat(0xB2, 32), "SymmetricKey", 0),
		bytesItem("c3x32", keyBytesRepeat(0xC3, 32), "SymmetricKey", 0),
		bytesItem("d4x24", keyBytesRepeat(0xD4, 24), "SymmetricKey", 1),
		bytesItem("e5x32", keyBytesRepeat(0xE5, 32), "Secret", 0),
		bytesItem("f6x32", keyBytesRepeat(0xF6, 32), "Secret", 0),
	)
	// every kind of material: DER blobs, transparent byte strings (symmetric Key, EC Q-string), big integers, certificate
	mixed := cat(
		bytesItem("a1x32", keyBytesRepeat(0xA1, 32), "SymmetricKey", 0),
		ecItem("p256-rand", "EcdsaPrivateKey", 4),
		bytesItem("b2x32", keyBytesRepeat(0xB2, 32), "SymmetricKey", 0),
		ecItem("p256-rand", "EcdsaPrivateKey", 16),
		ecItem("p384-rand", "EcdsaPrivateKey", 16),
		ecItem("p256-rand", "EcdsaPublicKey", 2),
		ecItem("p521-rand", "EcdsaPublicKey", 2),
		ecItem("p224-rand", "EcdsaPublicKey", 1),
		ecItem("p256-d80", "EcdsaPublicKey", 1),
		ecItem("p256-rand", "EcdsaPrivateKey", 1),
		rsaItem("r512", "RsaPrivateKey", 8),
		rsaItem("r512", "RsaPrivateKey", 4),
		rsaItem("r512", "RsaPublicKey", 8),
		rsaItem("r512", "RsaPublicKey", 2),
		rsaItem("r512", "RsaPrivateKey", 1),
		rsaItem("r1024", "RsaPrivateKey", 8),
		rsaItem("r1024-n80", "RsaPrivateKey", 4),
		rsaItem("r1024", "RsaPublicKey", 2),
		rsaItem("r1024-n80", "RsaPrivateKey", 1),
		bytesItem("c3x32", keyBytesRepeat(0xC3, 32), "SymmetricKey", 1),
		bytesItem("d4x32", keyBytesRepeat(0xD4, 32), "SymmetricKey", 1),
		bytesItem("e5x16", keyBytesRepeat(0xE5, 16), "Secret", 0),
		bytesItem("f6x257", keyBytesRepeat(0xF6, 257), "Secret", 0),
		bytesItem("text", []byte("retained secret"), "SecretString", 0),
	)
	if env.blobs.cert != nil {
		mixed = append(mixed, keyRetainItem{keyBuilderNamed(keyCertBuilders(env.blobs.cert), "X509Certificate"), 0, &keyRtOrig{label: "cert", cert: env.blobs.cert}})
	}
	out["mixed"] = mixed
	// the same in the opposite order (large messages first: the receive buffer has its final size from the start)
	rev := make([]keyRetainItem, len(mixed))
	for i, it := range mixed {
		rev[len(mixed)-1-i] = it
	}
	out["mixed-rev"] = rev
	return out
}

var keyRetainOrder = []string{"sym3", "mixed", "mixed-rev"}

type keyRetainKept struct {
	item   keyRetainItem
	id     string
	what   string                       // name of the registered key format
	pl     *payloads.GetResponsePayload // kept by the client
	mat    []byte                       // byte string handed out by an accessor right after the Get (nil: none)
	matAcc string
	copy   []byte // its content at that time
}

// keyRetainCase runs one scenario at one protocol version on a fresh connection.
func keyRetainCase(env *keyEnv, ver kmip.ProtocolVersion, name string, items []keyRetainItem) {
	ctx := env.ctx
	line := fmt.Sprintf("#key.retain %s %s", verStr(ver), name)
	ctx.current = line
	ctx.Res.Count("retain." + name)
	outcome := "ok"
	defer func() { ctx.Add(line, outcome, true, "C14") }()
	var problems []string
	firstKey := ""
	fail := func(side string, it keyRetainItem, what, detail string) {
		outcome = "violation"
		if firstKey == "" {
			firstKey = "key:retain:" + side + ":" + it.b.kind + ":" + what
		}
		if len(problems) < 6 {
			problems = append(problems, side+" "+it.name()+": "+detail)
		}
	}
	defer func() {
		if firstKey != "" {
			keyViolate(ctx, "key-retained", firstKey,
				fmt.Sprintf("key material kept from one message of a connection changed (or became unusable) after later messages on that connection: %s [%s]", strings.Join(problems, "; "), line), line)
		}
	}()

	// the server: keeps the object decoded from each Register request (as it is), and an independent snapshot
	// of it taken inside the handler, from which Get answers
	var mu sync.Mutex
	retained := map[string]kmip.Object{}
	snap := map[string][]byte{}
	nextID := 0
	exec := kmipserver.NewBatchExecutor()
	exec.Route(kmip.OperationRegister, kmipserver.HandleFunc(func(_ context.Context, req *payloads.RegisterRequestPayload) (*payloads.RegisterResponsePayload, error) {
		mu.Lock()
		defer mu.Unlock()
		nextID++
		id := "ret-" + strconv.Itoa(nextID)
		retained[id] = req.Object
		snap[id] = ttlv.MarshalTTLV(req.Object)
		return &payloads.RegisterResponsePayload{UniqueIdentifier: id}, nil
	}))
	exec.Route(kmip.OperationGet, kmipserver.HandleFunc(func(_ context.Context, req *payloads.GetRequestPayload) (*payloads.GetResponsePayload, error) {
		mu.Lock()
		defer mu.Unlock()
		doc, ok := snap[req.UniqueIdentifier]
		if !ok {
			return nil, kmipserver.ErrItemNotFound
		}
		obj, err := kmip.NewObjectForType(retained[req.UniqueIdentifier].ObjectType())
		if err != nil {
			return nil, err
		}
		if err := ttlv.UnmarshalTTLV(append([]byte{}, doc...), obj); err != nil {
			return nil, err
		}
		return &payloads.GetResponsePayload{ObjectType: obj.ObjectType(), UniqueIdentifier: req.UniqueIdentifier, Object: obj}, nil
	}))
	ep := &cliEndpoint{}
	ep.setHandler(func(req *kmip.RequestMessage) *kmip.ResponseMessage {
		resp, p := guard("HandleRequest", func() *kmip.ResponseMessage { return exec.HandleRequest(context.Background(), req) })
		if p != "" {
			return nil
		}
		return resp
	})
	defer ep.shutdown(ctx)
	cl, err := kmipclient.Dial("pipe", kmipclient.WithDialerUnsafe(ep.dialer), kmipclient.EnforceVersion(ver))
	if err != nil {
		ctx.Res.Fail("key.retain: cannot create a client: " + err.Error())
		outcome = "harness-error"
		return
	}
	defer func() { _, _ = guard("Close", func() error { return cl.Close() }) }()
	deadline := func() (context.Context, context.CancelFunc) {
		return context.WithTimeout(context.Background(), 5*time.Second)
	}

	// 1. register everything
	var kept []*keyRetainKept
	for _, it := range items {
		it := it
		type rres struct {
			id   string
			what string
			err  error
		}
		r, p := guard("register", func() rres {
			ex := it.b.build(cl.Register().WithKeyFormat(kmipclient.KeyFormat(it.kf)))
			pl, err := ex.Build()
			if err != nil {
				return rres{err: err}
			}
			what := ""
			if rq, ok := pl.(*payloads.RegisterRequestPayload); ok && rq.Object != nil {
				if kb := keyKbOf(rq.Object); kb != nil {
					what = keyFmtName(uint32(kb.KeyFormatType))
				}
			}
			cctx, cancel := deadline()
			defer cancel()
			rr, err := ex.ExecContext(cctx)
			if err != nil {
				return rres{err: err}
			}
			return rres{id: rr.UniqueIdentifier, what: what}
		})
		if p != "" || r.err != nil {
			fail("client", it, "register-failed", fmt.Sprintf("Register failed: %v %s", r.err, p))
			return
		}
		kept = append(kept, &keyRetainKept{item: it, id: r.id, what: r.what})
	}
	// 2. get everything; keep the payloads and what the accessors hand out
	for _, k := range kept {
		k := k
		type gres struct {
			pl  *payloads.GetResponsePayload
			err error
		}
		r, p := guard("get", func() gres {
			cctx, cancel := deadline()
			defer cancel()
			g, err := cl.Get(k.id).ExecContext(cctx)
			return gres{g, err}
		})
		if p != "" || r.err != nil || r.pl == nil {
			fail("client", k.item, "get-failed", fmt.Sprintf("Get failed: %v %s", r.err, p))
			return
		}
		k.pl = r.pl
		keyVerifyPayload(k.pl, k.item.b.kind, k.item.orig, k.what, func(oracle, what, detail string) {
			fail("client", k.item, "immediate:"+what, "right after its Get: "+detail)
		})
		_, _ = guard("material", func() int {
			switch k.item.b.kind {
			case "sym":
				k.mat, _ = k.pl.SymmetricKey()
				k.matAcc = "SymmetricKey()"
			case "secret":
				k.mat, _ = k.pl.Secret()
				k.matAcc = "Secret()"
			default:
				if kb := keyKbOf(k.pl.Object); kb != nil {
					k.mat, _ = kb.GetBytes()
					k.matAcc = "KeyBlock.GetBytes()"
				} else if c, ok := k.pl.Object.(*kmip.Certificate); ok {
					k.mat = c.CertificateValue
					k.matAcc = "CertificateValue"
				}
			}
			return 0
		})
		if k.mat != nil {
			k.copy = bytes.Clone(k.mat)
		}
	}
	// 3. further exchanges on the same connection
	for i := 0; i < len(kept) && i < 3; i++ {
		k := kept[i]
		_, _ = guard("get again", func() error {
			cctx, cancel := deadline()
			defer cancel()
			_, err := cl.Get(k.id).ExecContext(cctx)
			return err
		})
	}
	// 4. everything kept must still be the original
	for _, k := range kept {
		k := k
		if k.mat != nil && !bytes.Equal(k.mat, k.copy) {
			fail("client", k.item, k.what+":bytes-changed",
				fmt.Sprintf("the bytes returned by %s were %s right after the Get and are %s after later exchanges", k.matAcc, keyHexAbbrev(k.copy), keyHexAbbrev(k.mat)))
		}
		if (k.item.b.kind == "sym" || k.item.b.kind == "secret") && k.mat != nil && !bytes.Equal(k.mat, k.item.orig.bytes) {
			fail("client", k.item, k.what+":bytes-differ",
				fmt.Sprintf("the bytes returned by %s are %s after later exchanges, the registered key is %s", k.matAcc, keyHexAbbrev(k.mat), keyHexAbbrev(k.item.orig.bytes)))
		}
		keyVerifyPayload(k.pl, k.item.b.kind, k.item.orig, k.what, func(oracle, what, detail string) {
			fail("client", k.item, "kept-payload:"+what, "Get response kept across later exchanges: "+detail)
		})
		mu.Lock()
		obj := retained[k.id]
		mu.Unlock()
		if obj == nil {
			fail("server", k.item, "no-object", "the server did not keep the registered object")
			continue
		}
		keyVerifyPayload(&payloads.GetResponsePayload{ObjectType: obj.ObjectType(), UniqueIdentifier: k.id, Object: obj}, k.item.b.kind, k.item.orig, k.what,
			func(oracle, what, detail string) {
				fail("server", k.item, "kept-object:"+what, "object kept by the server from its Register request, after later requests: "+detail)
			})
	}
	ctx.Res.Count(fmt.Sprintf("retain.items=%d", len(kept)))
}

func keyHexAbbrev(b []byte) string {
	if len(b) > 40 {
		return fmt.Sprintf("%s…(%d bytes)", hexUp(b[:40]), len(b))
	}
	return hexUp(b)
}

func keyRunRetainPart(env *keyEnv) {
	sc := keyRetainScenarios(env)
	for _, name := range keyRetainOrder {
		for _, ver := range keyVersions {
			keyRetainCase(env, ver, name, sc[name])
		}
	}
}
