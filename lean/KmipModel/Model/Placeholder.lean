/-
  ID placeholder — model of `kmipserver/context.go`
  (`batchData.idPlaceholder`, `newBatchContext`, `IdPlaceholder`, `SetIdPlaceholder`,
  `ClearIdPlaceholder`).

  A placeholder value is a Go `string`; it is abstracted to a `Nat` with `0` standing for `""`
  (so `SetIdPlaceholder(ctx, "")` and `ClearIdPlaceholder(ctx)` coincide, as in Go).

  Two levels:
  * one cell (`stepCell`, `runActs`, `solo`): the accesses one request makes to *its* holder;
  * the world (`World`, `stepWorld`, `runWorld`): a heap of holders shared by any number of
    requests. `begin` is `newBatchContext` (called first thing by `HandleRequest`): it allocates a
    NEW holder (`&batchData{…}` — a composite literal, so a fresh address) initialised to `""` and
    binds it in the request's context. Every accessor goes through the binding of the request that
    performs it (`ctx.Value(ctxBatch{}).(*batchData)`).
-/
namespace Kmip.Placeholder

abbrev Val := Nat

/-- one access to the placeholder: `IdPlaceholder` / `SetIdPlaceholder v` / `ClearIdPlaceholder`. -/
inductive PAct where
  | read
  | set (v : Val)
  | clear
  deriving Repr, DecidableEq, Inhabited

/-- effect of one accessor on the holder's field; a read returns the value observed. -/
def stepCell (c : Val) : PAct → Val × Option Val
  | .read => (c, some c)
  | .set v => (v, none)
  | .clear => (0, none)

/-- a sequence of accesses on one holder: final content and the values observed by the reads. -/
def runActs (c : Val) : List PAct → Val × List Val
  | [] => (c, [])
  | a :: as =>
    let (c', o) := stepCell c a
    let (c'', os) := runActs c' as
    (c'', o.toList ++ os)

/-- a request run alone: its holder is freshly allocated, hence `""`. -/
def solo (as : List PAct) : List Val := (runActs 0 as).2

/-- the values written by a sequence of accesses (`Clear` writes `""`). -/
def writes : List PAct → List Val
  | [] => []
  | .read :: as => writes as
  | .set v :: as => v :: writes as
  | .clear :: as => 0 :: writes as

/-- the last value written, `c` when nothing was written. -/
def lastWrite (c : Val) (as : List PAct) : Val := (writes as).getLast?.getD c

/-! ### the world: several requests, one heap of holders -/

/-- a step of a request as far as the placeholder is concerned. -/
inductive GStep where
  | begin              -- `newBatchContext`
  | act (a : PAct)
  deriving Repr, DecidableEq, Inhabited

/-- what a step lets its request observe. `SetIdPlaceholder` outside a batch context panics. -/
inductive Obs where
  | val (v : Val)
  | panic
  deriving Repr, DecidableEq, Inhabited

structure World where
  heap : List Val              -- every `batchData` ever allocated
  env  : Nat → Option Nat      -- request id ↦ address of the holder bound in its context

def World.init : World := { heap := [], env := fun _ => none }

/-- request `r` performs step `s`. -/
def stepWorld (w : World) (r : Nat) : GStep → World × Option Obs
  | .begin =>
    ({ heap := w.heap ++ [0], env := fun q => if q = r then some w.heap.length else w.env q }, none)
  | .act a =>
    match w.env r with
    | none =>            -- no batch context: `IdPlaceholder` = "", `Clear` is a no-op, `Set` panics
      (w, match a with | .read => some (.val 0) | .clear => none | .set _ => some .panic)
    | some addr =>
      let (c', o) := stepCell (w.heap.getD addr 0) a
      ({ w with heap := w.heap.set addr c' }, o.map .val)

/-- run a global schedule; the log records who observed what, in order. -/
def runWorld (w : World) : List (Nat × GStep) → World × List (Nat × Obs)
  | [] => (w, [])
  | (r, s) :: rest =>
    let (w', o) := stepWorld w r s
    let (w'', os) := runWorld w' rest
    (w'', o.toList.map (fun v => (r, v)) ++ os)

/-- the observations of request `r` in a log. -/
def obsOf (r : Nat) (log : List (Nat × Obs)) : List Obs :=
  (log.filter (fun e => e.1 == r)).map (·.2)

/-- the steps of one request: `HandleRequest` first creates the batch context. -/
def prog (as : List PAct) : List GStep := .begin :: as.map .act

/-- `Interleaving progs sched`: `sched` is a merge of the step sequences `progs` (request `i` runs
    `progs[i]`): it is built by repeatedly letting some request that is not finished perform its
    next step. -/
inductive Interleaving : List (List GStep) → List (Nat × GStep) → Prop where
  | done (progs : List (List GStep)) (h : ∀ p ∈ progs, p = []) : Interleaving progs []
  | step (progs : List (List GStep)) (i : Nat) (s : GStep) (rest : List GStep)
      (sched : List (Nat × GStep)) (h : progs[i]? = some (s :: rest))
      (tail : Interleaving (progs.set i rest) sched) : Interleaving progs ((i, s) :: sched)

/-- the projection of a schedule on one request. -/
def proj (r : Nat) (sched : List (Nat × GStep)) : List GStep :=
  (sched.filter (fun e => e.1 == r)).map (·.2)

/-- sequential composition (requests one after the other, e.g. on one connection). -/
def seqSched : Nat → List (List GStep) → List (Nat × GStep)
  | _, [] => []
  | i, p :: ps => p.map (fun s => (i, s)) ++ seqSched (i + 1) ps

/-- the merge selected by a list of request ids (who moves next); ids of finished or unknown
    requests are skipped, what is left at the end is run sequentially. Used by the driver. -/
def mergeBy : List Nat → List (List GStep) → List (Nat × GStep)
  | [], progs => seqSched 0 progs
  | i :: is, progs =>
    match progs[i]? with
    | some (s :: rest) => (i, s) :: mergeBy is (progs.set i rest)
    | _ => mergeBy is progs

end Kmip.Placeholder
