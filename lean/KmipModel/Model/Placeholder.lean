/-
  ID placeholder — model of `kmipserver/context.go`
  (`batchData.idPlaceholder`, `newBatchContext`, `IdPlaceholder`, `SetIdPlaceholder`,
  `ClearIdPlaceholder`).

  A placeholder value is a Go `string`; it is abstracted to a `Nat` with `0` standing for `""`
  (so `SetIdPlaceholder(ctx, "")` and `ClearIdPlaceholder(ctx)` coincide, as in Go).

  Two levels:
  * one cell (`stepCell`, `runActs`, `solo`): the accesses made to ONE holder;
  * the world (`World`, `stepWorld`, `runWorld`): ONE heap of holders (`batchData` objects) shared by
    any number of calls of `HandleRequest`, and the contexts through which they are reached.
    A context is the list of its `context.WithValue` layers; an accessor finds its holder through
    the innermost binding of `ctxBatch{}` in the context it is given (`holder`). A call of
    `HandleRequest` receives a parent context — the connection's (one object shared by all the
    requests of the connection) or the context held by a handler of another request (a forwarding
    handler) — and runs the message chain with it; every time a message middleware calls `next`
    the core handler `handleRequest` executes a message (a RUN): a retrying middleware causes
    several runs of one message, a substituting one runs other messages.
    WHERE a holder comes from and WHEN a batch context is made are parameters (`Impl`), because this
    is exactly what a faulty implementation gets wrong: the Go code of today is `Impl.go`
    (`newBatchContext` builds `&batchData{…}`, a new object; it is called by `HandleRequest` before
    the message chain — that context is what the message middlewares see — AND, since 4b5c841, by the
    core handler `handleRequest` for every message it executes — that one is what the operation
    handlers see); the code before 4b5c841 is `Impl.entryOnly` (only `HandleRequest` made one);
    pooled / connection-level / package-level holders are `Alloc.reuse`, `Alloc.global`.
    The engine `placemw` determines the parameters of the real code by probing it.
-/
namespace Kmip.Placeholder

abbrev Val := Nat

/-- one access to the placeholder: `IdPlaceholder` / `SetIdPlaceholder v` / `ClearIdPlaceholder`. -/
inductive PAct where
  | read
  | set (v : Val)
  | clear
  deriving Repr, DecidableEq, Inhabited

/-- effect of one accessor on the holder's field; a read returns the value observed. -/
def stepCell (c : Val) : PAct → Val × Option Val
  | .read => (c, some c)
  | .set v => (v, none)
  | .clear => (0, none)

/-- a sequence of accesses on one holder: final content and the values observed by the reads. -/
def runActs (c : Val) : List PAct → Val × List Val
  | [] => (c, [])
  | a :: as =>
    let (c', o) := stepCell c a
    let (c'', os) := runActs c' as
    (c'', o.toList ++ os)

/-- a request run alone: its holder is freshly allocated, hence `""`. -/
def solo (as : List PAct) : List Val := (runActs 0 as).2

/-- the values written by a sequence of accesses (`Clear` writes `""`). -/
def writes : List PAct → List Val
  | [] => []
  | .read :: as => writes as
  | .set v :: as => v :: writes as
  | .clear :: as => 0 :: writes as

/-- the last value written, `c` when nothing was written. -/
def lastWrite (c : Val) (as : List PAct) : Val := (writes as).getLast?.getD c

/-- `GetIdOrPlaceholder(ctx, reqId)` on a holder containing `ph`: the explicit id wins, then the
    placeholder; `none` is the error "ID Placeholder is empty". -/
def resolve (ph reqId : Val) : Option Val :=
  if reqId ≠ 0 then some reqId else if ph ≠ 0 then some ph else none

/-! ### contexts -/

/-- one `context.WithValue` (or `WithCancel`, `WithTimeout`, …) layer, as far as this property is
    concerned. -/
inductive Bind where
  | batch (a : Nat)    -- `context.WithValue(parent, ctxBatch{}, bdata)` with `bdata` at address `a`
  | other (k : Nat)    -- any other layer: `ctxConn{}`, user values, cancellation, deadlines
  deriving Repr, DecidableEq, Inhabited

/-- a `context.Context`: its layers, innermost first. -/
abbrev Ctx := List Bind

/-- `ctx.Value(ctxBatch{}).(*batchData)`: the innermost binding of the key (`none`: nil). -/
def holder : Ctx → Option Nat
  | [] => none
  | .batch a :: _ => some a
  | .other _ :: c => holder c

/-! ### the implementation parameters -/

/-- where `newBatchContext` takes the holder from. -/
inductive Alloc where
  | fresh    -- `bdata := &batchData{…}`: a new object on every call            (THE GO CODE)
  | reuse    -- the holder already bound in the parent context when there is one, else a new one
             --   (holder attached to the connection context / found by walking the parents)
  | global   -- one package-level holder (or a pool that always hands out the same object)
  deriving Repr, DecidableEq, Inhabited

structure Impl where
  alloc   : Alloc
  /-- a holder that is not new is reset to `""` by `newBatchContext` (a pool that clears on `Get`) -/
  reset   : Bool
  /-- `HandleRequest` makes a batch context before the message chain runs (router.go) -/
  atEntry : Bool
  /-- the core handler `handleRequest` makes a batch context for the message it is given -/
  atCore  : Bool
  deriving Repr, DecidableEq, Inhabited

/-- kmipserver/router.go at /repo HEAD (since 4b5c841): `HandleRequest` calls `newBatchContext` before
    `exec.nextFrom(0)(ctx, req)` (the context the message middlewares are given), and the core handler
    `handleRequest` calls it again, first thing, with the message it is given (the context the
    operation handlers are given). -/
def Impl.go : Impl := { alloc := .fresh, reset := false, atEntry := true, atCore := true }

/-- the code before 4b5c841: only `HandleRequest` made a batch context; all the runs of the core
    handler caused by one call shared it (finding `place:run-not-empty-at-start`, repaired). -/
def Impl.entryOnly : Impl := { alloc := .fresh, reset := false, atEntry := true, atCore := false }

/-- `newBatchContext(parent, hdr)`: the heap afterwards and the context returned. -/
def newBatchContext (impl : Impl) (heap : List Val) (parent : Ctx) : List Val × Ctx :=
  let a := match impl.alloc with
    | .fresh => heap.length
    | .reuse => (holder parent).getD heap.length
    | .global => 0
  if a < heap.length then ((if impl.reset then heap.set a 0 else heap), .batch a :: parent)
  else (heap ++ [0], .batch heap.length :: parent)

/-! ### the world: several calls of `HandleRequest`, one heap of holders -/

/-- the parent context a call of `HandleRequest` is given. -/
inductive Parent where
  | conn (c : Nat)      -- the context of connection `c` (the same object for all its requests)
  | inside (q : Nat)    -- the context request `q`'s handlers hold at that moment (forwarding)
  deriving Repr, DecidableEq, Inhabited

/-- a step of a request as far as the placeholder is concerned. -/
inductive GStep where
  | enter (p : Parent)  -- `HandleRequest(ctx, req)` is called with parent context `p`
  | wrap (k : Nat)      -- a message middleware derives a context from the one it holds
  | core                -- a message middleware calls `next`: `handleRequest` starts a run
  | act (a : PAct)      -- an accessor called by a handler (or by `handleBatchItemError`)
  deriving Repr, DecidableEq, Inhabited

/-- what a step lets its request observe. `SetIdPlaceholder` outside a batch context panics. -/
inductive Obs where
  | val (v : Val)
  | panic
  deriving Repr, DecidableEq, Inhabited

structure World where
  heap : List Val              -- the `idPlaceholder` field of every `batchData` ever allocated
  base : Nat → Option Ctx      -- request ↦ the context its message chain currently holds
  cur  : Nat → Option Ctx      -- request ↦ the context its handlers are given (current run)

def World.init : World := { heap := [], base := fun _ => none, cur := fun _ => none }

def upd (f : Nat → Option Ctx) (r : Nat) (c : Option Ctx) : Nat → Option Ctx :=
  fun q => if q = r then c else f q

/-- the parent context `p` denotes. -/
def parentCtx (w : World) : Parent → Ctx
  | .conn c => [.other c]
  | .inside q => (w.cur q).getD []

/-- request `r` performs step `s`. -/
def stepWorld (impl : Impl) (w : World) (r : Nat) : GStep → World × Option Obs
  | .enter p =>
    let parent : Ctx := parentCtx w p
    if impl.atEntry then
      let x := newBatchContext impl w.heap parent
      ({ heap := x.1, base := upd w.base r (some x.2), cur := upd w.cur r none }, none)
    else ({ w with base := upd w.base r (some parent), cur := upd w.cur r none }, none)
  | .wrap k =>
    match w.base r with
    | none => (w, none)
    | some b => ({ w with base := upd w.base r (some (.other k :: b)) }, none)
  | .core =>
    match w.base r with
    | none => (w, none)            -- `HandleRequest` was not called: nothing runs
    | some b =>
      if impl.atCore then
        let x := newBatchContext impl w.heap b
        ({ w with heap := x.1, cur := upd w.cur r (some x.2) }, none)
      else ({ w with cur := upd w.cur r (some b) }, none)
  | .act a =>
    match (w.cur r).bind holder with
    | none =>            -- no batch context: `IdPlaceholder` = "", `Clear` is a no-op, `Set` panics
      (w, match a with | .read => some (.val 0) | .clear => none | .set _ => some .panic)
    | some addr =>
      let (c', o) := stepCell (w.heap.getD addr 0) a
      ({ w with heap := w.heap.set addr c' }, o.map .val)

/-- run a global schedule; the log records who observed what, in order. -/
def runWorld (impl : Impl) (w : World) : List (Nat × GStep) → World × List (Nat × Obs)
  | [] => (w, [])
  | (r, s) :: rest =>
    let (w', o) := stepWorld impl w r s
    let (w'', os) := runWorld impl w' rest
    (w'', o.toList.map (fun v => (r, v)) ++ os)

/-- the observations of request `r` in a log. -/
def obsOf (r : Nat) (log : List (Nat × Obs)) : List Obs :=
  (log.filter (fun e => e.1 == r)).map (·.2)

/-- one run of the core handler: the context layers the middleware added before calling `next`,
    then the accesses of the run. -/
structure Run where
  wraps : List Nat
  acts  : List PAct
  deriving Repr, DecidableEq, Inhabited

def runSteps (rn : Run) : List GStep := rn.wraps.map .wrap ++ .core :: rn.acts.map .act

def runsSteps : List Run → List GStep
  | [] => []
  | rn :: rest => runSteps rn ++ runsSteps rest

/-- the steps of one call of `HandleRequest` with parent `p` whose message chain causes `runs`. -/
def prog (p : Parent) (runs : List Run) : List GStep := .enter p :: runsSteps runs

/-- the plain case: no message middleware, one run. -/
def prog1 (p : Parent) (as : List PAct) : List GStep := prog p [⟨[], as⟩]

/-- what the property demands of a request: every run observes what it observes on a holder that
    is `""` when the run starts. -/
def soloRuns (runs : List Run) : List Val := (runs.map fun rn => solo rn.acts).flatten

/-- what the code before 4b5c841 (`Impl.entryOnly`) gave instead: the runs of ONE call of
    `HandleRequest` share a holder (but nothing is shared with other calls). -/
def sharedRuns (runs : List Run) : List Val := solo (runs.map (·.acts)).flatten

/-- `Interleaving progs sched`: `sched` is a merge of the step sequences `progs` (request `i` runs
    `progs[i]`): it is built by repeatedly letting some request that is not finished perform its
    next step. -/
inductive Interleaving : List (List GStep) → List (Nat × GStep) → Prop where
  | done (progs : List (List GStep)) (h : ∀ p ∈ progs, p = []) : Interleaving progs []
  | step (progs : List (List GStep)) (i : Nat) (s : GStep) (rest : List GStep)
      (sched : List (Nat × GStep)) (h : progs[i]? = some (s :: rest))
      (tail : Interleaving (progs.set i rest) sched) : Interleaving progs ((i, s) :: sched)

/-- the projection of a schedule on one request. -/
def proj (r : Nat) (sched : List (Nat × GStep)) : List GStep :=
  (sched.filter (fun e => e.1 == r)).map (·.2)

/-- sequential composition (requests one after the other, e.g. on one connection). -/
def seqSched : Nat → List (List GStep) → List (Nat × GStep)
  | _, [] => []
  | i, p :: ps => p.map (fun s => (i, s)) ++ seqSched (i + 1) ps

/-- the merge selected by a list of request ids (who moves next); ids of finished or unknown
    requests are skipped, what is left at the end is run sequentially. Used by the driver. -/
def mergeBy : List Nat → List (List GStep) → List (Nat × GStep)
  | [], progs => seqSched 0 progs
  | i :: is, progs =>
    match progs[i]? with
    | some (s :: rest) => (i, s) :: mergeBy is (progs.set i rest)
    | _ => mergeBy is progs

end Kmip.Placeholder
