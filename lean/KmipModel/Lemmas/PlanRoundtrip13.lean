/-
  C01 — stage 3 (continued): the KeyValue member of a KeyBlock.
-/
import KmipModel.Lemmas.PlanRoundtrip12
namespace Kmip

/-- the side condition of `KeyBlock`'s decoder on the (normalised) KeyValue pointer: a plain key
    value carries the KeyMaterial member its key format selects. -/
def kvOk (fmt : Nat) (kv' : Val) : Bool :=
  match kv' with
  | .ptr none => true
  | .ptr (some kvs) =>
    (match kvs.field 0, kvs.field 1 with
     | .ptr (some _), .ptr none => true
     | .ptr none, .ptr (some pkvs) =>
       (match pkvs.field 0 with
        | .struct kms => (keyMaterialIndex fmt).isSome && keyMaterialIndex fmt == firstNonNil kms
        | _ => false)
     | _, _ => false)
  | _ => false

theorem customOk_keyBlock_kv {S : Schema} {v : Val} (h : customOk S Cust.keyBlock v = true) :
    ∃ fmt, v.field 0 = .int fmt ∧ kvOk fmt.toNat (v.field 2) = true := by
  rw [customOk_keyBlock] at h
  split at h
  · rename_i fmt h0 h2; exact ⟨fmt, h0, by rw [h2]; rfl⟩
  · rename_i fmt kv h0 h2; exact ⟨fmt, h0, by rw [h2]; exact h⟩
  · contradiction

theorem normSameTag_succ_of_some {S : Schema} {n : Nat} {ks : List Kind} {t : Nat} {xs : List Val}
    {ver : Option Ver} {r : List Val × Option Ver} (h : normSameTag S n ks t xs ver = some r) :
    ∃ m, n = m + 1 := by
  cases n with
  | zero => rw [normSameTag_zero] at h; contradiction
  | succ m => exact ⟨m, rfl⟩

theorem normCustom_succ_of_some {S : Schema} {n code t : Nat} {v : Val}
    {ver : Option Ver} {r : Val × Option Ver} (h : normCustom S n code t v ver = some r) :
    ∃ m, n = m + 1 := by
  cases n with
  | zero => rw [normCustom_zero] at h; contradiction
  | succ m => exact ⟨m, rfl⟩

theorem nilRest_nil_inv {n : Nat} {xs : List Val} (h : nilRest n [] xs = true) : xs = [] ∧ ∃ m, n = m + 1 := by
  cases n with
  | zero => simp [nilRest] at h
  | succ m =>
    cases xs with
    | nil => exact ⟨rfl, m, rfl⟩
    | cons x xs => simp [nilRest] at h

set_option maxHeartbeats 2000000 in
/-- the KeyValue step of `KeyBlock`'s decoder: `if tag == KeyValue { kv.decode(format) }`. -/
theorem kv_step (S : Schema) (n : Nat) (hK : ∀ m, m < n → PK S m) (kv pkv km : Nat) (g0 g1 : Field)
    (hkve : (S.structDef kv).encCustom = true) (hkvc : (S.structDef kv).custom = Cust.keyValue)
    (hkinds : customFieldKinds S Cust.keyValue = [.ptr .bytes, .ptr (.struct pkv)])
    (hec : (S.structDef pkv).encCustom = false) (hdc : (S.structDef pkv).decCustom = false)
    (hFp : (S.structDef pkv).fields = [g0, g1])
    (h0 : g0.plainWith T.keyMaterial = true) (h0k : g0.kind = .struct km)
    (hkme : (S.structDef km).encCustom = true) (hkmc : (S.structDef km).custom = Cust.keyMaterial)
    (hkmu : S.unionKindsOK (customFieldKinds S Cust.keyMaterial) = true)
    (h1 : g1.plainWith T.attr = true) (h1k : g1.kind = .slice (.struct (attributeId S)))
    (h1d : S.decodable (.struct (attributeId S)) = true)
    (v : Val) (ver : Option Ver) (v' : Val) (w : Option Ver) (a : List Item)
    (hn : normK S n (.ptr (.struct kv)) T.keyValue v ver = some (v', w))
    (he : encK S n (.ptr (.struct kv)) T.keyValue v ver = .ok (a, w))
    (fmt : Nat) (hok : kvOk fmt v' = true) :
    (∀ it ∈ a, it.tag = T.keyValue)
    ∧ (Item.AllInRange a → ∀ (f : Nat) (rs : List RawItem), htag rs ≠ T.keyValue → v.depth + 2 ≤ f →
        (if (Cur.of (a.map Item.raw ++ rs)).tag = T.keyValue then
            (decKeyValue S f fmt (Cur.of (a.map Item.raw ++ rs)) ver >>= fun p =>
              (pure (Val.ptr (some p.1), p.2) : Res (Val × DecSt)))
          else .ok (.ptr none, Cur.of (a.map Item.raw ++ rs), ver))
        = .ok (v', Cur.of rs, w)) := by
  obtain ⟨n1, rfl⟩ := normK_succ_of_some hn
  rw [normK_ptr] at hn
  split at hn
  · -- no key value
    obtain ⟨rfl, rfl⟩ := pair_eq (Option.some.inj hn)
    rw [encK_ptr_none] at he
    simp only [Res.ok.injEq, Prod.mk.injEq] at he
    obtain ⟨rfl, -⟩ := he
    refine ⟨(fun it hit => by cases hit), ?_⟩
    intro _ f rs hne _
    simp only [List.map_nil, List.nil_append, Cur.tag_of, hne, if_false]
  · rename_i kvv
    rw [encK_ptr_some] at he
    obtain ⟨_, hn⟩ := ite_eq_some hn
    cases hnk : normK S n1 (.struct kv) T.keyValue kvv ver with
    | none => simp only [hnk] at hn; contradiction
    | some p =>
    obtain ⟨kvv', w0⟩ := p
    simp only [hnk] at hn
    obtain ⟨rfl, rfl⟩ := pair_eq (Option.some.inj hn)
    obtain ⟨n2, rfl⟩ := normK_succ_of_some hnk
    rw [normK_struct] at hnk
    split at hnk
    · rename_i xs
      rw [encK_struct] at he
      simp only [hkve, if_true, hkvc] at hnk he
      obtain ⟨n3, rfl⟩ := normCustom_succ_of_some hnk
      rw [normCustom_union S n3 _ _ (Or.inr (Or.inl rfl))] at hnk
      rw [encCustom_union S n3 _ _ (Or.inr (Or.inl rfl))] at he
      simp only [hkinds] at hnk he
      cases hst : normSameTag S n3 [.ptr .bytes, .ptr (.struct pkv)] T.keyValue xs ver with
      | none => simp only [hst] at hnk; contradiction
      | some q =>
      obtain ⟨xs', w1⟩ := q
      simp only [hst] at hnk
      obtain ⟨rfl, rfl⟩ := pair_eq (Option.some.inj hnk)
      obtain ⟨n4, rfl⟩ := normSameTag_succ_of_some hst
      cases xs with
      | nil => rw [normSameTag_cons_nil] at hst; contradiction
      | cons x0 xs1 =>
      rw [normSameTag_cons] at hst
      rw [encSameTag_cons] at he
      simp only at hst
      split at hst
      · -- Wrapped is nil: the plain key value
        cases hst2 : normSameTag S n4 [.ptr (.struct pkv)] T.keyValue xs1 ver with
        | none => simp only [hst2] at hst; contradiction
        | some q =>
        obtain ⟨xs1', w2⟩ := q
        simp only [hst2] at hst
        obtain ⟨rfl, rfl⟩ := pair_eq (Option.some.inj hst)
        obtain ⟨n5, rfl⟩ := normSameTag_succ_of_some hst2
        rw [encK_ptr_none] at he
        simp only [Res.ok_bind] at he
        cases xs1 with
        | nil => rw [normSameTag_cons_nil] at hst2; contradiction
        | cons x1 xs2 =>
        rw [normSameTag_cons] at hst2
        rw [encSameTag_cons] at he
        simp only at hst2
        split at hst2
        · rw [normSameTag_nil] at hst2; contradiction
        · rename_i y
          obtain ⟨hnil, hst2⟩ := ite_eq_some hst2
          obtain ⟨rfl, n6, rfl⟩ := nilRest_nil_inv hnil
          cases hny : normK S (n6 + 1) (.ptr (.struct pkv)) T.keyValue (.ptr (some y)) ver with
          | none => simp only [hny] at hst2; contradiction
          | some q =>
          obtain ⟨x1', w3⟩ := q
          simp only [hny] at hst2
          obtain ⟨rfl, rfl⟩ := pair_eq (Option.some.inj hst2)
          rw [normK_ptr] at hny
          simp only at hny
          obtain ⟨_, hny⟩ := ite_eq_some hny
          cases hnp : normK S n6 (.struct pkv) T.keyValue y ver with
          | none => simp only [hnp] at hny; contradiction
          | some q =>
          obtain ⟨y', w4⟩ := q
          simp only [hnp] at hny
          obtain ⟨rfl, rfl⟩ := pair_eq (Option.some.inj hny)
          rw [encK_ptr_some] at he
          cases hep : encK S n6 (.struct pkv) T.keyValue y ver with
          | ok q =>
            obtain ⟨a1, w5⟩ := q
            simp only [hep, Res.ok_bind, encSameTag_nil, Res.pure_eq, Res.ok.injEq, Prod.mk.injEq,
              List.append_nil, List.nil_append] at he
            obtain ⟨rfl, rfl⟩ := he
            obtain ⟨kms', attrs', i, item, rfl, hfn, rfl, hit, hdec⟩ :=
              kv_plain_dec S n6 (fun m hm => hK m (by omega)) pkv km g0 g1 hec hdc hFp h0 h0k hkme hkmc hkmu
                h1 h1k h1d y ver y' w5 a1 hnp hep
            simp only [kvOk, Val.field, List.getD_cons_zero, List.getD_cons_succ, Bool.and_eq_true,
              beq_iff_eq] at hok
            have hidx : keyMaterialIndex fmt = some i := by rw [hok.2, hfn]
            refine ⟨(fun it hi => by rw [List.mem_singleton.1 hi]; exact hit), ?_⟩
            intro hr f rs _ hf
            have hct : (Cur.of ([item].map Item.raw ++ rs)).tag = T.keyValue := by
              rw [Cur.tag_of, htag_single, hit]
            rw [if_pos hct]
            simp only [Val.depth, Val.depthList] at hf
            have := hdec ((Item.allInRange_singleton item).1 hr) f rs fmt hidx (by omega)
            simp only [List.map_cons, List.map_nil, List.cons_append, List.nil_append] at this ⊢
            rw [this]
            rfl
          | err e => simp only [hep, Res.err_bind] at he; contradiction
          | panic m => simp only [hep, Res.panic_bind] at he; contradiction
        · contradiction
      · -- the wrapped key value: a byte string
        rename_i y
        obtain ⟨hnil, hst⟩ := ite_eq_some hst
        cases hny : normK S n4 (.ptr .bytes) T.keyValue (.ptr (some y)) ver with
        | none => simp only [hny] at hst; contradiction
        | some q =>
        obtain ⟨x0', w3⟩ := q
        simp only [hny] at hst
        obtain ⟨rfl, rfl⟩ := pair_eq (Option.some.inj hst)
        obtain ⟨n5, rfl⟩ := normK_succ_of_some hny
        rw [normK_ptr] at hny
        simp only at hny
        obtain ⟨_, hny⟩ := ite_eq_some hny
        cases hnb : normK S n5 .bytes T.keyValue y ver with
        | none => simp only [hnb] at hny; contradiction
        | some q =>
        obtain ⟨y', w4⟩ := q
        simp only [hnb] at hny
        obtain ⟨rfl, rfl⟩ := pair_eq (Option.some.inj hny)
        obtain ⟨b, rfl, rfl, rfl, heb⟩ := bytes_field S n5 _ y y' ver w4 hnb
        obtain ⟨hrep, henil⟩ := nilRest_spec S T.keyValue (n5 + 1) [.ptr (.struct pkv)] xs1 hnil
        rw [encK_ptr_some, heb] at he
        simp only [Res.ok_bind, henil, Res.pure_eq, Res.ok.injEq, Prod.mk.injEq, List.append_nil] at he
        obtain ⟨rfl, -⟩ := he
        simp only [List.length_cons, List.length_nil, List.replicate] at hrep
        subst hrep
        refine ⟨(fun it hi => by rw [List.mem_singleton.1 hi]; rfl), ?_⟩
        intro hr f rs _ hf
        have hct : (Cur.of ([Item.bytes T.keyValue (b.getD [])].map Item.raw ++ rs)).tag = T.keyValue := rfl
        rw [if_pos hct]
        obtain ⟨f1, rfl, -⟩ := fuel_succ (by omega : 0 + 1 ≤ f)
        rw [decKeyValue_succ]
        have hty : (Cur.of ([Item.bytes T.keyValue (b.getD [])].map Item.raw ++ rs)).ty = 8 := rfl
        rw [if_pos hty]
        simp only [List.map_cons, List.map_nil, List.cons_append, List.nil_append, Cur.of,
          Cur.byteString_raw, Res.ok_bind, Res.pure_eq]
      · contradiction
    · contradiction
  · contradiction

end Kmip
