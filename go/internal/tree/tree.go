// Package tree is the harness's own representation of generic TTLV trees together with an
// INDEPENDENT binary writer and strict parser written from the KMIP 1.4 specification §9.1.
// It shares no code with github.com/ovh/kmip-go/ttlv.
package tree

import (
	"encoding/hex"
	"fmt"
	"math/big"
	"strconv"
	"strings"
)

type Kind int

const (
	KStruct Kind = 1 + iota
	KInt
	KLong
	KBig
	KEnum
	KBool
	KText
	KBytes
	KDate
	KInterval
)

// Item is a TTLV tree node.
type Item struct {
	Kind     Kind
	Tag      int
	Children []*Item  // KStruct
	Int      int64    // KInt, KLong, KDate (secs), KEnum (uint32), KInterval (secs, uint32)
	Big      *big.Int // KBig
	Bool     bool
	Data     []byte // KText (raw bytes of the Go string), KBytes
}

var kindLetter = map[Kind]string{KStruct: "S", KInt: "I", KLong: "L", KBig: "B", KEnum: "E", KBool: "O", KText: "T", KBytes: "Y", KDate: "D", KInterval: "V"}
var letterKind = map[string]Kind{}

func init() {
	for k, l := range kindLetter {
		letterKind[l] = k
	}
}

func hx(b []byte) string {
	if len(b) == 0 {
		return "-"
	}
	return strings.ToUpper(hex.EncodeToString(b))
}

// Render prints the line-protocol syntax of the tree.
func (it *Item) Render() string {
	var sb strings.Builder
	it.render(&sb)
	return sb.String()
}

func (it *Item) render(sb *strings.Builder) {
	sb.WriteString("(")
	sb.WriteString(kindLetter[it.Kind])
	sb.WriteString(" ")
	sb.WriteString(strconv.Itoa(it.Tag))
	switch it.Kind {
	case KStruct:
		for _, c := range it.Children {
			sb.WriteString(" ")
			c.render(sb)
		}
	case KInt, KLong, KDate, KEnum, KInterval:
		sb.WriteString(" ")
		sb.WriteString(strconv.FormatInt(it.Int, 10))
	case KBig:
		sb.WriteString(" ")
		sb.WriteString(it.Big.String())
	case KBool:
		if it.Bool {
			sb.WriteString(" 1")
		} else {
			sb.WriteString(" 0")
		}
	case KText, KBytes:
		sb.WriteString(" ")
		sb.WriteString(hx(it.Data))
	}
	sb.WriteString(")")
}

// Parse reads the line-protocol syntax.
func Parse(s string) (*Item, error) {
	s = strings.ReplaceAll(s, "(", " ( ")
	s = strings.ReplaceAll(s, ")", " ) ")
	toks := strings.Fields(s)
	it, rest, err := parseItem(toks)
	if err != nil {
		return nil, err
	}
	if len(rest) != 0 {
		return nil, fmt.Errorf("trailing tokens")
	}
	return it, nil
}

func parseItem(t []string) (*Item, []string, error) {
	if len(t) < 4 || t[0] != "(" {
		return nil, nil, fmt.Errorf("syntax")
	}
	k, ok := letterKind[t[1]]
	if !ok {
		return nil, nil, fmt.Errorf("kind %q", t[1])
	}
	tag, err := strconv.Atoi(t[2])
	if err != nil {
		return nil, nil, err
	}
	it := &Item{Kind: k, Tag: tag}
	t = t[3:]
	if k == KStruct {
		for len(t) > 0 && t[0] != ")" {
			var c *Item
			c, t, err = parseItem(t)
			if err != nil {
				return nil, nil, err
			}
			it.Children = append(it.Children, c)
		}
		if len(t) == 0 {
			return nil, nil, fmt.Errorf("unclosed")
		}
		return it, t[1:], nil
	}
	if len(t) < 2 || t[1] != ")" {
		return nil, nil, fmt.Errorf("syntax")
	}
	v := t[0]
	switch k {
	case KInt, KLong, KDate, KEnum, KInterval:
		it.Int, err = strconv.ParseInt(v, 10, 64)
	case KBig:
		var ok bool
		it.Big, ok = new(big.Int).SetString(v, 10)
		if !ok {
			err = fmt.Errorf("bigint")
		}
	case KBool:
		it.Bool = v == "1"
	case KText, KBytes:
		if v == "-" {
			it.Data = []byte{}
		} else {
			it.Data, err = hex.DecodeString(v)
		}
	}
	return it, t[2:], err
}

// Equal compares two trees structurally (nil and empty byte strings are equal).
func Equal(a, b *Item) bool {
	if a == nil || b == nil {
		return a == b
	}
	return a.Render() == b.Render()
}

// ---------------------------------------------------------------------------------------------
// Independent writer (from the specification).

func be(n uint64, width int) []byte {
	out := make([]byte, width)
	for i := width - 1; i >= 0; i-- {
		out[i] = byte(n)
		n >>= 8
	}
	return out
}

// twosComplement returns the minimal two's complement big-endian encoding of v whose length is a
// positive multiple of 8.
func twosComplement(v *big.Int) []byte {
	n := 8
	for {
		// representable in n bytes iff -2^(8n-1) <= v < 2^(8n-1)
		lim := new(big.Int).Lsh(big.NewInt(1), uint(8*n-1))
		neg := new(big.Int).Neg(lim)
		if v.Cmp(neg) >= 0 && v.Cmp(lim) < 0 {
			break
		}
		n += 8
	}
	mod := new(big.Int).Lsh(big.NewInt(1), uint(8*n))
	u := new(big.Int).Mod(v, mod) // Euclidean, non-negative
	raw := u.Bytes()
	out := make([]byte, n)
	copy(out[n-len(raw):], raw)
	return out
}

// Encode is the independent TTLV writer.
func (it *Item) Encode() []byte {
	var val []byte
	switch it.Kind {
	case KStruct:
		for _, c := range it.Children {
			val = append(val, c.Encode()...)
		}
	case KInt:
		val = be(uint64(uint32(int32(it.Int))), 4)
	case KLong, KDate:
		val = be(uint64(it.Int), 8)
	case KBig:
		val = twosComplement(it.Big)
	case KEnum, KInterval:
		val = be(uint64(uint32(it.Int)), 4)
	case KBool:
		val = be(0, 8)
		if it.Bool {
			val[7] = 1
		}
	case KText, KBytes:
		val = append([]byte{}, it.Data...)
	}
	out := be(uint64(it.Tag), 3)
	out = append(out, byte(it.Kind))
	out = append(out, be(uint64(len(val)), 4)...)
	out = append(out, val...)
	for len(out)%8 != 0 {
		out = append(out, 0)
	}
	return out
}

// ---------------------------------------------------------------------------------------------
// Independent strict parser (from the specification).

// Decode parses exactly one item spanning the whole input; any deviation from the specification
// (bad type, wrong fixed length, non-zero padding, child overflowing its parent, trailing bytes,
// big integer whose length is not a positive multiple of 8, boolean other than 0/1) is an error.
func Decode(b []byte) (*Item, error) {
	it, rest, err := decodeOne(b, 0)
	if err != nil {
		return nil, err
	}
	if len(rest) != 0 {
		return nil, fmt.Errorf("trailing bytes")
	}
	return it, nil
}

func decodeOne(b []byte, depth int) (*Item, []byte, error) {
	if len(b) < 8 {
		return nil, nil, fmt.Errorf("short header")
	}
	tag := int(b[0])<<16 | int(b[1])<<8 | int(b[2])
	ty := Kind(b[3])
	l := int(b[4])<<24 | int(b[5])<<16 | int(b[6])<<8 | int(b[7])
	pl := (l + 7) / 8 * 8
	if len(b)-8 < pl {
		return nil, nil, fmt.Errorf("short value")
	}
	val := b[8 : 8+l]
	for _, p := range b[8+l : 8+pl] {
		if p != 0 {
			return nil, nil, fmt.Errorf("non-zero padding")
		}
	}
	rest := b[8+pl:]
	if tag == 0 {
		// tag 0 is reserved by the library's public API as the "no item" value; never a KMIP tag
		return nil, nil, fmt.Errorf("tag 0")
	}
	it := &Item{Kind: ty, Tag: tag}
	u := func() uint64 {
		var n uint64
		for _, x := range val {
			n = n<<8 | uint64(x)
		}
		return n
	}
	switch ty {
	case KStruct:
		for len(val) > 0 {
			c, r, err := decodeOne(val, depth+1)
			if err != nil {
				return nil, nil, err
			}
			it.Children = append(it.Children, c)
			val = r
		}
	case KInt:
		if l != 4 {
			return nil, nil, fmt.Errorf("bad length")
		}
		it.Int = int64(int32(uint32(u())))
	case KLong, KDate:
		if l != 8 {
			return nil, nil, fmt.Errorf("bad length")
		}
		it.Int = int64(u())
	case KBig:
		if l == 0 || l%8 != 0 {
			return nil, nil, fmt.Errorf("bad length")
		}
		v := new(big.Int).SetBytes(val)
		if val[0]&0x80 != 0 {
			v.Sub(v, new(big.Int).Lsh(big.NewInt(1), uint(8*l)))
		}
		it.Big = v
	case KEnum, KInterval:
		if l != 4 {
			return nil, nil, fmt.Errorf("bad length")
		}
		it.Int = int64(u())
	case KBool:
		if l != 8 || u() > 1 {
			return nil, nil, fmt.Errorf("bad boolean")
		}
		it.Bool = u() == 1
	case KText, KBytes:
		it.Data = append([]byte{}, val...)
	default:
		return nil, nil, fmt.Errorf("bad type")
	}
	return it, rest, nil
}
