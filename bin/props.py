"""Per-property configuration of bin/check.py: engines, proof module, level, required theorems."""

HOOK_COMMITS = ["cec8f7c", "0b12eac"]

NOT_CLAIMED = {}

PROPS = {
    "C03": {
        "level": "proof",
        "level_text": "Lean 4 theorems over the byte-level model of ttlvWriter: for every in-range generic TTLV tree (any depth, any sibling count, any big integer) the encoding is 8-aligned, big integers are minimal 8-aligned two's complement, and an independent strict specification parser reads the encoding back to the same tree; the model is tied to the code by byte-for-byte differential runs on generated trees, and the spec parser to an independent Go parser.",
        "level_note": "Trusted: Lean kernel; the model enc/bigIntToBytes (validated against ttlv.MarshalTTLV on every run by the wire/big engines); math/big modelled; the harness's independent writer/parser. Lengths >= 2^32 are outside the theorem (the 32-bit length field wraps).",
        "technique": "Lean 4 proof (structural induction over nested TTLV trees, two's-complement carry-loop invariants) + differential correspondence",
        "engines": ["wire", "big"],
        "required_theorems": [
            "padForLen_spec", "encodeBig_twos", "encodeBig_shape", "bytesToBigInt_eq_twos",
            "bytesToBigInt_encodeBig", "enc_len8", "specParse_enc", "specParseList_enc",
            "specDecode_enc", "encodeBig_minimal",
        ],
        "assumptions": [
            "math/big.Int.Bytes/SetBytes/Neg/Sign behave as documented (modelled by natToBytesBE / beVal)",
            "the Lean model `enc` is the behaviour of ttlv.MarshalTTLV on ttlv.Value trees: checked on this run by the `wire`/`big` engines (equality of bytes for every generated tree)",
            "the Lean specification parser agrees with the harness's independent Go parser (engine line `wire.spec`)",
        ],
    },
    "C07": {
        "level": "proof",
        "engines": ["stream"],
        "required_theorems": ["recv_exact", "recv_exact_data_with_err", "recvAll_exact", "recv_truncated", "recv_too_big", "recv_cap_bound"],
        "level_text": "Lean 4 theorems over the model of ttlv.Stream.Recv, by induction over the read schedule: for every sequence of complete TTLV frames and EVERY way the transport chunks them (any chunk sizes >= 1, data delivered together with an error on the frame-completing read, exhausted schedule) the receiver returns exactly the frames in order and leaves exactly the remaining bytes on the wire; a stream ending inside a frame never yields a message (any schedule); an announcement above the maximum is rejected having consumed at most the 8 header bytes with the 512-byte buffer never grown. The model is tied to the code by differential runs over a scripted io.ReadWriteCloser (positions after each Recv, outcome classes).",
        "level_note": "Trusted: Lean kernel; the model recvLoop (validated against ttlv.Stream.Recv by the stream engine on every run); io.Reader contract (n <= len(p)); the decoding of the received frame is covered by C02/C01.",
        "technique": "Lean 4 proof (induction over adversarial read schedules) + differential correspondence on a scripted transport",
        "assumptions": ["a Read never returns more bytes than requested (io.Reader contract)", "slices.Grow grows the capacity to at least the requested size"],
    },
    "C02": {
        "level": "proof",
        "engines": ["wire", "plan", "big", "stream"],
        "required_theorems": ["unmarshalValue_no_panic", "rawParse_within", "rawParse_extent", "unmarshal_enc"],
        "level_text": "Lean 4 theorems over a byte-level model of the binary reader in which every Go indexing/slicing primitive keeps its panic: for EVERY byte string the generic decoder returns ok or err, never panic (the guards precede the primitives), every value handed out is a contiguous part of the input inside its item's declared extent, and the items do not overlap; totality of the definitions (fuel = input length) is the termination argument; the model is a pure function (determinism, input unchanged). The model is tied to the code by differential runs on valid, mutated, truncated and random inputs, comparing ok-value/err/panic, with impl-side oracles for panic, input mutation, second-decode equality and dependence on bytes beyond the input.",
        "level_note": "Trusted: Lean kernel; the reader model (validated by the wire/plan engines); for XML/JSON the standard library tokenisers. Typed-layer and XML/JSON theorems are added as they are proved (see evidence.theorems for what is discharged on this run).",
        "technique": "Lean 4 proof (no-panic by case analysis on guarded primitives, extent lemmas by induction) + differential correspondence on malformed inputs",
        "assumptions": ["Go slices: reslicing within capacity does not panic (the nested reader clips capacity)", "encoding/xml and encoding/json tokenisers terminate and do not panic"],
    },
    "C09": {
        "level": "proof",
        "engines": ["batch"],
        "required_theorems": ["one_item_per_request_item", "echo", "echo_at", "header", "calls_in_order",
            "stop_semantics", "stop_none_successful_after", "stop_without_failure", "continue_semantics",
            "continue_all_executed", "rejected", "undo_rejected", "unsupported_version_rejected",
            "count_mismatch_rejected", "itemResult_failed"],
        "level_text": "Lean 4 theorems over a statement-by-statement model of BatchExecutor.HandleRequest/handleRequest/executeItem(WithMiddleware)/handleBatchItemError/handleMessageError in which handlers are arbitrary scripts (success, kmipserver.Error, other error, panic with either) and the executor configuration is arbitrary: for EVERY batch length, by induction over the item list, the response has one item per request item in order echoing operation and id, count and version are the request's, the handler call log is strictly increasing; under Stop, with k the first failed response item, exactly the dispatchable items <= k run and every later item is answered failed/canceled; under unset/Continue/unknown option exactly the dispatchable items run and each item gets its own result; Undo, unsupported version and count mismatch give exactly one failed item without operation/id, count 1, and an empty call log. Tied to the code by differential runs (response + real call log) exhaustive up to length 4/5 over the outcome alphabet x options x version x count x ids plus random batches up to 40 items, with the property checked directly on the real response and call log.",
        "level_note": "Trusted: Lean kernel; the model Batch.loop/executeItem (validated on every run by the batch engine); middlewares are not part of this model (C19). The DiscoverVersions built-in is modelled as 'success, no handler'.",
        "technique": "Lean 4 proof (induction over the item list with a generalised stopped flag/index) + differential correspondence with scripted handlers + impl-side oracle on response and call log",
        "assumptions": ["errors.As matches exactly the kmipserver.Error values in the error chain", "recover() returns a non-nil value for every panic (Go >= 1.21 semantics for panic(nil))", "no request or batch-item middleware is installed"],
    },
    "C15": {
        "level": "proof",
        "engines": ["place", "batch"],
        "required_theorems": ["obs_eq_solo", "starts_empty", "item_observes", "phBefore_zero", "phBefore_succ",
            "set_then_observe", "failure_then_observe", "noninterference_steps", "noninterference",
            "sequential", "never_foreign"],
        "level_text": "Lean 4 theorems: (i) the executor model threads the placeholder as the Go code does (created empty by newBatchContext, cleared by handleBatchItemError) and what item j's handler reads is its own accesses run on the last value written by earlier items of the same request (empty after a failed item), for every batch; (ii) over a world model with one heap of holders where `begin` allocates a fresh holder and every access goes through the request's own binding, for ANY number of requests and ANY interleaving (inductive Interleaving relation) every request observes exactly what it observes alone, hence only the empty value or values it stored itself; sequential histories are a special case. Tied to the code by scenarios on the real executor: sequential on one shared connection context, nested contexts, goroutine concurrency, and a deterministic scheduler enumerating all merges of small requests; each request's observations are compared with the model and with an independent solo prediction.",
        "level_note": "Trusted: Lean kernel; the world model's structural fact that newBatchContext allocates a new holder per HandleRequest (checked behaviourally by the place engine incl. shared-parent and nested-parent scenarios). Handler scripts are static access lists; data-race freedom is not claimed by this property's proof.",
        "technique": "Lean 4 proof (heap/binding invariant preserved by every step; induction over the schedule and over the Interleaving derivation) + differential correspondence under controlled and free interleavings + solo-equivalence oracle",
        "assumptions": ["context.WithValue lookups return the innermost binding of ctxBatch{}", "handlers access the placeholder only through IdPlaceholder/SetIdPlaceholder/ClearIdPlaceholder with the context they were given"],
    },
    "C19": {
        "level": "proof",
        "level_text": "Lean 4 theorem runImpl = runSpec for every chain length, every stage program (call next 0/1/n times, retry while failed, replace message/context, short-circuit, (nil,err), swallow/rewrite result) and every scripted handler, for the client chain, the server message chain and the server batch-item chain (one generic definition following nextFrom(i), three instances); corollaries: the trace is one well-nested execution in registration order in which each stage receives exactly what its predecessor passed and gets back exactly what its successor returned; the handler runs Prod k_i times under stages calling next k_i times; the pre-fix code (shared cursor, original request forwarded) is refuted by decide on 2-stage chains. The model is tied to the code by differential runs of real Client.Roundtrip / BatchExecutor.HandleRequest with the stage programs installed as real middlewares.",
        "level_note": "Trusted: Lean kernel; the stage-program interpreter and token markers of the harness (shared by the real adapters and the Go reference); concurrency is covered by the stateless-run argument plus concurrent runs of the engine, not by a Lean interleaving model. Middlewares that mutate the received message in place or panic are outside the alphabet.",
        "technique": "Lean 4 proof (induction on chain.length - i for nextFrom, on the chain and on the action list for the corollaries) + differential correspondence + reference-interpreter / trace-grammar oracles",
        "engines": ["mw"],
        "required_theorems": ["nextFrom_is_composition", "runImpl_eq_runSpec", "client_chain", "server_message_chain", "server_item_chain", "trace_wellNested", "pipeline_substitution", "core_runs_product", "chain_append"],
        "assumptions": [
            "runImpl (Kmip.Mw.nextFrom, coreResult, finish, hdrOf) is the behaviour of Client.nextFrom / BatchExecutor.nextFrom / biNextFrom and their entry points: checked on this run by engine `mw` (equal result and full trace on every generated chain)",
            "a run touches no state outside its arguments (c.middlewares / exec.middlewares are read-only after setup): supported by the concurrent phase of engine `mw`",
            "client kind: the innermost transport is scripted by a last middleware; the real doRountrip variant is compared by the impl-side oracle `real-transport`",
        ],
    },
}
