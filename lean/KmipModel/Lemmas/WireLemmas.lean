/-
  Helper lemmas about `KmipModel.Model.Wire`: header parsing, lengths of encodings, and the round
  trip of `enc` through the specification parser `specParse`. Core Lean only.
-/
import KmipModel.Lemmas.BigIntLemmas
import KmipModel.Model.Wire
namespace Kmip

theorem hdr_length (tag ty len : Nat) : (hdr tag ty len).length = 8 := rfl

/-- the type dispatch of `specParse`, as a separate function. -/
def specBody (fuel tag ty len : Nat) (val after : Bytes) : Option (Item × Bytes) :=
  match ty with
  | 1 => (specParseList fuel val).map fun cs => (Item.struct tag cs, after)
  | 2 => if len = 4 then some (.int tag (signedOfNat 32 (beVal val)), after) else none
  | 3 => if len = 8 then some (.long tag (signedOfNat 64 (beVal val)), after) else none
  | 4 => if len % 8 = 0 ∧ 0 < len then some (.big tag (twos val), after) else none
  | 5 => if len = 4 then some (.enum tag (beVal val), after) else none
  | 6 => if len = 8 then
           (if beVal val = 0 then some (.bool tag false, after)
            else if beVal val = 1 then some (.bool tag true, after) else none)
         else none
  | 7 => some (.text tag val, after)
  | 8 => some (.bytes tag val, after)
  | 9 => if len = 8 then some (.date tag (signedOfNat 64 (beVal val)), after) else none
  | 10 => if len = 4 then some (.interval tag (beVal val), after) else none
  | _ => none

theorem allZero_replicate (k : Nat) : allZero (List.replicate k 0) = true := by
  simp [allZero]

theorem specParse_succ (fuel : Nat) (bs : Bytes) :
    specParse (fuel + 1) bs =
      if bs.length < 8 then none else
      if (bs.drop 8).length < beVal ((bs.drop 4).take 4) + padForLen (beVal ((bs.drop 4).take 4)) 8
      then none else
      if !allZero (((bs.drop 8).drop (beVal ((bs.drop 4).take 4))).take
          (beVal ((bs.drop 4).take 4) + padForLen (beVal ((bs.drop 4).take 4)) 8
            - beVal ((bs.drop 4).take 4))) then none else
      if beVal (bs.take 3) = 0 then none else
      specBody fuel (beVal (bs.take 3)) (bs.getD 3 0).toNat (beVal ((bs.drop 4).take 4))
        ((bs.drop 8).take (beVal ((bs.drop 4).take 4)))
        ((bs.drop 8).drop
          (beVal ((bs.drop 4).take 4) + padForLen (beVal ((bs.drop 4).take 4)) 8)) := by
  rw [specParse]; rfl

theorem specParse_hdr (fuel tag ty len : Nat) (val rest : Bytes)
    (htag0 : 0 < tag) (htag : tag < 2 ^ 24) (hty : ty < 256) (hlen : len < 2 ^ 32)
    (hval : val.length = len) :
    specParse (fuel + 1) (hdr tag ty len ++ (val ++ (List.replicate (padForLen len 8) 0 ++ rest)))
      = specBody fuel tag ty len val rest := by
  generalize htl : val ++ (List.replicate (padForLen len 8) 0 ++ rest) = tl
  have e1 : (hdr tag ty len ++ tl).take 3 = tag3 tag := rfl
  have e2 : ((hdr tag ty len ++ tl).drop 4).take 4 = be32 len := rfl
  have e3 : (hdr tag ty len ++ tl).getD 3 0 = Nat.toUInt8 ty := rfl
  have e4 : (hdr tag ty len ++ tl).drop 8 = tl := rfl
  have e5 : ¬ (hdr tag ty len ++ tl).length < 8 := by
    rw [List.length_append, hdr_length]; omega
  have h3 : (Nat.toUInt8 ty).toNat = ty := by rw [toUInt8_toNat]; omega
  rw [specParse_succ, if_neg e5, e1, e2, e3, e4, beVal_tag3 tag htag, beVal_be32 len hlen, h3]
  subst htl
  have l1 : ¬ (val ++ (List.replicate (padForLen len 8) 0 ++ rest)).length < len + padForLen len 8 := by
    simp only [List.length_append, List.length_replicate]; omega
  have l2 : (val ++ (List.replicate (padForLen len 8) 0 ++ rest)).take len = val := by
    rw [← hval]; exact List.take_left' rfl
  have l3 : (val ++ (List.replicate (padForLen len 8) 0 ++ rest)).drop len
      = List.replicate (padForLen len 8) 0 ++ rest := by
    rw [← hval]; exact List.drop_left' rfl
  have l4 : (val ++ (List.replicate (padForLen len 8) 0 ++ rest)).drop (len + padForLen len 8)
      = rest := by
    rw [← List.drop_drop, l3]; exact List.drop_left' (by simp)
  have l5 : (List.replicate (padForLen len 8) (0 : UInt8) ++ rest).take (len + padForLen len 8 - len)
      = List.replicate (padForLen len 8) 0 := by
    rw [Nat.add_sub_cancel_left]; exact List.take_left' (by simp)
  rw [if_neg l1, l2, l3, l4, l5, allZero_replicate, if_neg (by omega : ¬ tag = 0)]
  rfl

/-! ### lengths -/

mutual
  theorem enc_length_mod : (t : Item) → (enc t).length % 8 = 0
    | .struct tag cs => by
      have := encList_length_mod cs
      rw [enc]; simp only [List.length_append, hdr_length]; omega
    | .int tag v => by rw [enc]; simp [hdr_length]
    | .long tag v => by rw [enc]; simp [hdr_length]
    | .big tag v => by
      have := encodeBig_length_mod v
      rw [enc]; simp only [List.length_append, hdr_length]; omega
    | .enum tag v => by rw [enc]; simp [hdr_length]
    | .bool tag b => by rw [enc]; simp [hdr_length]
    | .text tag s => by
      have := padForLen_mod s.length
      rw [enc]; simp only [List.length_append, hdr_length, List.length_replicate]; omega
    | .bytes tag s => by
      have := padForLen_mod s.length
      rw [enc]; simp only [List.length_append, hdr_length, List.length_replicate]; omega
    | .date tag v => by rw [enc]; simp [hdr_length]
    | .interval tag v => by rw [enc]; simp [hdr_length]
  theorem encList_length_mod : (ts : List Item) → (encList ts).length % 8 = 0
    | [] => by rw [encList]; rfl
    | x :: xs => by
      have := enc_length_mod x
      have := encList_length_mod xs
      rw [encList, List.length_append]; omega
end

theorem enc_length_ge (t : Item) : 8 ≤ (enc t).length := by
  cases t <;> rw [enc] <;> simp only [List.length_append, hdr_length] <;> omega

mutual
  theorem size_le_length_aux : (t : Item) → t.size + 1 ≤ (enc t).length
    | .struct tag cs => by
      have := sizeList_le_length_aux cs
      rw [enc, Item.size]; simp only [List.length_append, hdr_length]; omega
    | .int tag v => by have := enc_length_ge (.int tag v); simp only [Item.size]; omega
    | .long tag v => by have := enc_length_ge (.long tag v); simp only [Item.size]; omega
    | .big tag v => by have := enc_length_ge (.big tag v); simp only [Item.size]; omega
    | .enum tag v => by have := enc_length_ge (.enum tag v); simp only [Item.size]; omega
    | .bool tag v => by have := enc_length_ge (.bool tag v); simp only [Item.size]; omega
    | .text tag v => by have := enc_length_ge (.text tag v); simp only [Item.size]; omega
    | .bytes tag v => by have := enc_length_ge (.bytes tag v); simp only [Item.size]; omega
    | .date tag v => by have := enc_length_ge (.date tag v); simp only [Item.size]; omega
    | .interval tag v => by have := enc_length_ge (.interval tag v); simp only [Item.size]; omega
  theorem sizeList_le_length_aux : (ts : List Item) → Item.sizeList ts ≤ 1 + (encList ts).length
    | [] => by rw [Item.sizeList, encList]; simp
    | x :: xs => by
      have := size_le_length_aux x
      have := sizeList_le_length_aux xs
      rw [Item.sizeList, encList, List.length_append]; omega
end

/-! ### round trip through the specification parser -/

theorem signed_unsigned32_of_inInt (v : Int) (h : inInt 32 v) :
    signedOfNat 32 (unsignedOfInt 32 v) = v := by
  unfold inInt at h
  have e : (2 : Nat) ^ (32 - 1) = 2147483648 := by decide
  rw [e] at h
  exact signed_unsigned32 v (by omega) (by omega)

theorem signed_unsigned64_of_inInt (v : Int) (h : inInt 64 v) :
    signedOfNat 64 (unsignedOfInt 64 v) = v := by
  unfold inInt at h
  have e : (2 : Nat) ^ (64 - 1) = 9223372036854775808 := by decide
  rw [e] at h
  exact signed_unsigned64 v (by omega) (by omega)

theorem fuel_pos {n fuel : Nat} (h : n + 1 ≤ fuel) : ∃ f, fuel = f + 1 ∧ n ≤ f :=
  ⟨fuel - 1, by omega, by omega⟩

theorem encList_cons_ne_nil (x : Item) (xs : List Item) : (enc x ++ encList xs).isEmpty = false := by
  have := enc_length_ge x
  cases h : enc x ++ encList xs with
  | nil =>
    have hl := congrArg List.length h
    simp only [List.length_append, List.length_nil] at hl
    omega
  | cons a b => rfl

mutual
  theorem specParse_enc_aux : (t : Item) → t.InRange → (fuel : Nat) → t.size ≤ fuel →
      (rest : Bytes) → specParse fuel (enc t ++ rest) = some (t, rest)
    | .struct tag cs, h, fuel, hf, rest => by
      rw [Item.size] at hf
      obtain ⟨f, rfl, hf'⟩ := fuel_pos (by omega : Item.sizeList cs + 1 ≤ fuel)
      rw [Item.InRange] at h
      obtain ⟨ht0, ht, hl, hc⟩ := h
      have ih := specParseList_enc_aux cs hc f hf'
      have := specParse_hdr f tag 1 (encList cs).length (encList cs) rest ht0 ht (by decide) hl rfl
      rw [padForLen_eq_zero (encList_length_mod cs)] at this
      rw [enc]
      simp only [List.append_assoc]
      simp only [List.replicate_zero, List.nil_append] at this
      rw [this]
      simp [specBody, ih]
    | .int tag v, h, fuel, hf, rest => by
      simp only [Item.size] at hf
      obtain ⟨f, rfl, -⟩ := fuel_pos (by omega : 0 + 1 ≤ fuel)
      rw [Item.InRange] at h
      obtain ⟨ht0, ht, hv⟩ := h
      have := specParse_hdr f tag 2 4 (be32 (unsignedOfInt 32 v)) rest ht0 ht (by decide) (by decide) rfl
      rw [enc]
      simp only [List.append_assoc]
      rw [show ([0, 0, 0, 0] : Bytes) = List.replicate (padForLen 4 8) 0 from rfl, this]
      simp [specBody, beVal_be32 _ (unsignedOfInt32_lt v), signed_unsigned32_of_inInt v hv]
    | .long tag v, h, fuel, hf, rest => by
      simp only [Item.size] at hf
      obtain ⟨f, rfl, -⟩ := fuel_pos (by omega : 0 + 1 ≤ fuel)
      rw [Item.InRange] at h
      obtain ⟨ht0, ht, hv⟩ := h
      have := specParse_hdr f tag 3 8 (be64 (unsignedOfInt 64 v)) rest ht0 ht (by decide) (by decide) rfl
      rw [enc]
      simp only [List.append_assoc]
      rw [show padForLen 8 8 = 0 from rfl] at this
      simp only [List.replicate_zero, List.nil_append] at this
      rw [this]
      simp [specBody, beVal_be64 _ (unsignedOfInt64_lt v), signed_unsigned64_of_inInt v hv]
    | .big tag v, h, fuel, hf, rest => by
      simp only [Item.size] at hf
      obtain ⟨f, rfl, -⟩ := fuel_pos (by omega : 0 + 1 ≤ fuel)
      rw [Item.InRange] at h
      obtain ⟨ht0, ht, hl⟩ := h
      have := specParse_hdr f tag 4 (encodeBig v).length (encodeBig v) rest ht0 ht (by decide) hl rfl
      rw [padForLen_eq_zero (encodeBig_length_mod v)] at this
      simp only [List.replicate_zero, List.nil_append] at this
      rw [enc]
      simp only [List.append_assoc]
      rw [this]
      simp [specBody, encodeBig_length_mod v, encodeBig_length_pos v, twos_encodeBig v]
    | .enum tag v, h, fuel, hf, rest => by
      simp only [Item.size] at hf
      obtain ⟨f, rfl, -⟩ := fuel_pos (by omega : 0 + 1 ≤ fuel)
      rw [Item.InRange] at h
      obtain ⟨ht0, ht, hv⟩ := h
      have := specParse_hdr f tag 5 4 (be32 v) rest ht0 ht (by decide) (by decide) rfl
      rw [enc]
      simp only [List.append_assoc]
      rw [show ([0, 0, 0, 0] : Bytes) = List.replicate (padForLen 4 8) 0 from rfl, this]
      simp [specBody, beVal_be32 _ hv]
    | .bool tag b, h, fuel, hf, rest => by
      simp only [Item.size] at hf
      obtain ⟨f, rfl, -⟩ := fuel_pos (by omega : 0 + 1 ≤ fuel)
      rw [Item.InRange] at h
      have := specParse_hdr f tag 6 8 [0, 0, 0, 0, 0, 0, 0, if b then 1 else 0] rest h.1 h.2
        (by decide) (by decide) rfl
      rw [show padForLen 8 8 = 0 from rfl] at this
      simp only [List.replicate_zero, List.nil_append] at this
      rw [enc]
      simp only [List.append_assoc]
      rw [this]
      cases b <;> simp [specBody, beVal]
    | .text tag s, h, fuel, hf, rest => by
      simp only [Item.size] at hf
      obtain ⟨f, rfl, -⟩ := fuel_pos (by omega : 0 + 1 ≤ fuel)
      rw [Item.InRange] at h
      obtain ⟨ht0, ht, hl⟩ := h
      have := specParse_hdr f tag 7 s.length s rest ht0 ht (by decide) hl rfl
      rw [enc]
      simp only [List.append_assoc]
      rw [this]
      simp [specBody]
    | .bytes tag s, h, fuel, hf, rest => by
      simp only [Item.size] at hf
      obtain ⟨f, rfl, -⟩ := fuel_pos (by omega : 0 + 1 ≤ fuel)
      rw [Item.InRange] at h
      obtain ⟨ht0, ht, hl⟩ := h
      have := specParse_hdr f tag 8 s.length s rest ht0 ht (by decide) hl rfl
      rw [enc]
      simp only [List.append_assoc]
      rw [this]
      simp [specBody]
    | .date tag v, h, fuel, hf, rest => by
      simp only [Item.size] at hf
      obtain ⟨f, rfl, -⟩ := fuel_pos (by omega : 0 + 1 ≤ fuel)
      rw [Item.InRange] at h
      obtain ⟨ht0, ht, hv⟩ := h
      have := specParse_hdr f tag 9 8 (be64 (unsignedOfInt 64 v)) rest ht0 ht (by decide) (by decide) rfl
      rw [enc]
      simp only [List.append_assoc]
      rw [show padForLen 8 8 = 0 from rfl] at this
      simp only [List.replicate_zero, List.nil_append] at this
      rw [this]
      simp [specBody, beVal_be64 _ (unsignedOfInt64_lt v), signed_unsigned64_of_inInt v hv]
    | .interval tag v, h, fuel, hf, rest => by
      simp only [Item.size] at hf
      obtain ⟨f, rfl, -⟩ := fuel_pos (by omega : 0 + 1 ≤ fuel)
      rw [Item.InRange] at h
      obtain ⟨ht0, ht, hv⟩ := h
      have := specParse_hdr f tag 10 4 (be32 v) rest ht0 ht (by decide) (by decide) rfl
      rw [enc]
      simp only [List.append_assoc]
      rw [show ([0, 0, 0, 0] : Bytes) = List.replicate (padForLen 4 8) 0 from rfl, this]
      simp [specBody, beVal_be32 _ hv]
  theorem specParseList_enc_aux : (ts : List Item) → Item.AllInRange ts → (fuel : Nat) →
      Item.sizeList ts ≤ fuel → specParseList fuel (encList ts) = some ts
    | [], _, fuel, hf => by
      rw [Item.sizeList] at hf
      obtain ⟨f, rfl, -⟩ := fuel_pos (by omega : 0 + 1 ≤ fuel)
      rw [encList, specParseList]; rfl
    | x :: xs, h, fuel, hf => by
      rw [Item.sizeList] at hf
      obtain ⟨f, rfl, hf'⟩ := fuel_pos (by omega : (x.size + Item.sizeList xs) + 1 ≤ fuel)
      rw [Item.AllInRange] at h
      have ih1 := specParse_enc_aux x h.1 f (by omega) (encList xs)
      have ih2 := specParseList_enc_aux xs h.2 f (by omega)
      rw [encList, specParseList, encList_cons_ne_nil, ih1]
      simp [ih2]
end

end Kmip
