package main

// Engine `lts.cli` — properties C10 (a call only receives the response to its own request) and C11 (the
// client survives connection faults at every point of an exchange).
//
// Real code: kmipclient.Client over an in-memory fault-injecting transport (cli_net.go): the dialer
// given to kmipclient.WithDialerUnsafe returns a wrapper around one end of a net.Pipe() that can fail
// the k-th Read / Write of the n-th connection (io.EOF, net.ErrClosed, ECONNRESET, deadline exceeded, unexpected
// EOF, short write, partial message, server closes right after replying, a Write that fails while the read side
// stays healthy, a Write reported as failed after the request was delivered and answered) or the n-th dial
// (refused, or blocking until its context ends); the other end is served by a scripted server that ECHOES the
// identifier of each request (Activate(id) -> id), after a scripted delay (possibly out of order), or stays
// silent / closes. The verif yield points of kmipclient are driven by a director (end a caller's context by
// cancellation or by deadline, call Close(), hold a goroutine exactly there); the same is done from inside the
// transport's Write (the caller is in send's inner select) and while a caller is queued for the client.
//
// Oracles (no model involved): every call returns, within a time limit, an error or the response
// carrying ITS OWN identifier; a connection that carried an abandoned exchange carries no later
// exchange; no panic (scenarios run in a child process: a panic in one of the client's own goroutines
// kills the process); a call during which nothing fails, on an open client whose earlier faults have
// been processed, succeeds — also when it was waiting for the client while the fault hit the call before it
// (families flt/conc and win: the window closed by "terminate before reporting a write error", widened by
// delaying the cancellation of the connection context); at most 4 transmissions per call, counted as REQUEST
// MESSAGES on the wire (TTLV frames of the client's byte stream, attributed by the identifier they carry); the
// retry budget itself is OBSERVED (dry run) and handed to the model with every scenario; after Close calls fail
// without dialing or transmitting; Close is idempotent; after Close the goroutines STARTED BY the client package
// are gone (found by "created by <package>" in the goroutine dump, not by function names; positive control:
// they are seen while a connection is open); a call whose dial cannot complete returns when its context ends;
// no data race inside the library (cli_race.go: the Close/reconnect scenarios once more under the race detector).
//
// Time: every wait is a multiple of the duration of one exchange measured by the dry run, with a floor; waits are
// for events (with an upper bound), not fixed sleeps, wherever an event exists. Verdicts that rest on "did not
// happen in time", and outcomes the model does not have, are confirmed by re-runs before they are reported
// (lcConfirm); violations that state an event that did happen are reported at once.
//
// Correspondence: `lts.member cliconn current <spec> b<budget>;<scenario> <outcome>`; the model explores every
// interleaving of Kmip.CliConn under the scenario script (with the observed retry budget) and answers whether the
// observed outcome is possible (`ok in`). The dial count is part of the outcome only where the property speaks
// about dialing (closed clients, failed dials, negotiation); `lts.budget` compares the observed budget with the
// model's; `lts.unfused` has the model check its own step fusion by evaluation.

import (
	"bufio"
	"context"
	"encoding/json"
	"errors"
	"fmt"
	"io"
	"net"
	"os"
	"os/exec"
	"runtime"
	"strconv"
	"strings"
	"sync"
	"sync/atomic"
	"time"

	"github.com/ovh/kmip-go"
	"github.com/ovh/kmip-go/kmipclient"
	"github.com/ovh/kmip-go/payloads"

	"verifharness/internal/model"
	"verifharness/internal/report"
	"verifharness/internal/rng"
)

// ---------------------------------------------------------------------------------------------
// scenario specification (one token, no spaces): fam:n:pt:srv:faults:next:seed

type lcSpec struct {
	fam    string // c10 | flt | neg | cls | rty | win | dlk | api | dry
	entry  string // API entry point used for the calls of the scenario ("fam@entry"): "" = Activate(id).ExecContext ;
	// batch | then | rt | req (Batch, Executor.Then chain, Roundtrip, Request) ; mw | mwto (client with the library's
	// middlewares; mwto: a short TimeoutMiddleware ends the abandoned call) ; clone | clone2 (the scenario runs on a
	// Clone of the warmed-up client; clone2: the original stays open with an exchange pending) ; cluster (DialCluster)
	n      int    // c10: callers ; rty: number of connections the server drops ; cls: 0 sync / 1 async Close ; win: polling goroutines
	pt     string // yield point (short name), timeout | inWrite | queued | pre (c10; pre: the context has ended before the call), or "-"
	srv    string // c10: when the victim's request is answered: early | late | never ; rty: how the server drops: eof | closed
	faults []*lcFault
	next   string // flt: call | calls3 | close | cclose | conc ; c10: - | dl (deadline instead of cancel) | twice | dltwice,
	// optionally followed by ~<kind of the abandoned caller's context> (cli_ctx.go)
	seed   int    // > 0: random perturbation at the yield points
}

func (s *lcSpec) String() string {
	fs := "-"
	if len(s.faults) > 0 {
		parts := []string{}
		for _, f := range s.faults {
			parts = append(parts, f.String())
		}
		fs = strings.Join(parts, "+")
	}
	fam := s.fam
	if s.entry != "" {
		fam += "@" + s.entry
	}
	return fmt.Sprintf("%s:%d:%s:%s:%s:%s:%d", fam, s.n, s.pt, s.srv, fs, s.next, s.seed)
}

func lcParseFault(s string) (*lcFault, error) {
	f := &lcFault{}
	if i := strings.Index(s, "*"); i >= 0 {
		r, err := strconv.Atoi(s[i+1:])
		if err != nil {
			return nil, err
		}
		f.rep = r
		s = s[:i]
	}
	parts := strings.Split(s, ":")
	if len(parts) < 2 || len(parts[0]) < 4 {
		return nil, errors.New("bad fault")
	}
	f.dir = parts[0][0]
	ck := strings.Split(parts[0][1:], ".")
	if len(ck) != 2 {
		return nil, errors.New("bad fault")
	}
	var err error
	if f.conn, err = strconv.Atoi(ck[0]); err != nil {
		return nil, err
	}
	if f.k, err = strconv.Atoi(ck[1]); err != nil {
		return nil, err
	}
	f.kind = parts[1]
	if f.dir == 'r' {
		if len(parts) != 3 {
			return nil, errors.New("bad fault")
		}
		f.timing = parts[2]
	}
	return f, nil
}

func lcParseSpec(s string) (*lcSpec, error) {
	p := strings.Split(s, ":")
	// the fault list itself contains ':' — re-assemble: fam n pt srv <faults...> next seed
	if len(p) < 7 {
		return nil, errors.New("bad spec")
	}
	sp := &lcSpec{fam: p[0], pt: p[2], srv: p[3], next: p[len(p)-2]}
	if i := strings.Index(sp.fam, "@"); i >= 0 {
		sp.fam, sp.entry = sp.fam[:i], sp.fam[i+1:]
	}
	var err error
	if sp.n, err = strconv.Atoi(p[1]); err != nil {
		return nil, err
	}
	if sp.seed, err = strconv.Atoi(p[len(p)-1]); err != nil {
		return nil, err
	}
	fs := strings.Join(p[4:len(p)-2], ":")
	if fs != "-" {
		for _, x := range strings.Split(fs, "+") {
			f, err := lcParseFault(x)
			if err != nil {
				return nil, err
			}
			sp.faults = append(sp.faults, f)
		}
	}
	return sp, nil
}

var lcPoints = map[string]string{
	"loaded":          "cli.send.loaded",
	"afterSend":       "cli.roundtrip.afterSend",
	"beforeRx":        "cli.read.beforeRx",
	"beforeErr":       "cli.write.beforeErr",
	"reported":        "cli.write.reported",
	"afterCancel":     "cli.terminate.afterCancel",
	"beforeReconnect": "cli.beforeReconnect",
}

// ---------------------------------------------------------------------------------------------
// result of one scenario (child -> parent)

type lcViol struct {
	Property string `json:"p"`
	Oracle   string `json:"o"`
	Key      string `json:"k"`
	Detail   string `json:"d"`
}

type lcResult struct {
	Spec       string   `json:"spec"`
	Scenario   string   `json:"scen"`    // model scenario ("" = no model line)
	Outcome    string   `json:"outcome"` // canonical outcome
	Props      string   `json:"props"`
	Viol       []lcViol `json:"viol"`
	Counts     []string `json:"counts"`
	Nontrivial bool     `json:"nt"`
	Fail       string   `json:"fail"` // harness failure
	Notes      []string `json:"notes"` // for diagnosis only (error texts of the calls that failed)
	Millis     int64    `json:"ms"`
}

func (r *lcResult) violate(prop, oracle, key, detail string) {
	r.Viol = append(r.Viol, lcViol{prop, oracle, key, detail})
}

// ---------------------------------------------------------------------------------------------
// environment of one scenario

type lcPhase struct {
	acts                 string
	okP, errP, okX, errX int
}

type lcEnv struct {
	spec       *lcSpec
	net        *lcNet
	srv        *lcServer
	dir        *lcDirector
	cl         *kmipclient.Client
	orig       *kmipclient.Client // entry clone / clone2: the client the scenario's client was cloned from
	origCall   *lcCall            // clone2: the exchange pending on the original while the scenario runs on the clone
	dialOffset int                // dial attempts that are not the scenario client's (the Clone's own dial)
	res        *lcResult
	base       int // client goroutines before the scenario
	phases     []*lcPhase
	armed      map[*lcFault]int // fault -> phase in which it was armed
	nextID     int
	closed     atomic.Bool // Close() has returned
	closing    atomic.Bool // Close() has been called
	closeWG    sync.WaitGroup
	extra      map[int]string // additional fault letters per phase (faults not injected through lcFault)
	mu         sync.Mutex
	termObjs   map[string]bool // connections seen at cli.terminate.afterCancel
	exactDials bool            // the dial count is part of the canonical outcome
	noModel    bool            // the run is not comparable with the model (no membership line)
	r          *rng.R
}

// observed by the dry run (parent) and handed to the children through the environment:
// lcBudget = number of times one call transmits its request when every connection is dropped (0 = not known).
var lcBudget int

func newLcEnv(spec *lcSpec, res *lcResult) *lcEnv {
	e := &lcEnv{spec: spec, res: res, armed: map[*lcFault]int{}, termObjs: map[string]bool{}, extra: map[int]string{}}
	e.srv = newLcServer()
	e.dir = newLcDirector()
	e.net = &lcNet{srv: e.srv, dir: e.dir}
	if spec.seed > 0 {
		e.r = rng.New(uint64(spec.seed))
	}
	e.base = lcSettle(0, 200*time.Millisecond)
	lcCur.Store(e.dir)
	return e
}

// the yield hook calls d.at through lcYield; lcEnv adds its own observation by wrapping VerifYield once.
var lcEnvCur struct {
	sync.Mutex
	e *lcEnv
}

func lcYieldEnv(point string, obj any) {
	lcEnvCur.Lock()
	e := lcEnvCur.e
	lcEnvCur.Unlock()
	if e != nil {
		if point == "cli.terminate.afterCancel" {
			e.mu.Lock()
			e.termObjs[fmt.Sprintf("%p", obj)] = true
			e.mu.Unlock()
		}
		if e.r != nil {
			e.mu.Lock()
			x := e.r.Intn(8)
			e.mu.Unlock()
			switch x {
			case 0:
				runtime.Gosched()
			case 1:
				time.Sleep(time.Duration(20+x*30) * time.Microsecond)
			}
		}
	}
	lcYield(point, obj)
}

func (e *lcEnv) terminated() int {
	e.mu.Lock()
	defer e.mu.Unlock()
	return len(e.termObjs)
}

// settle waits until the client has closed the transport of every connection that has failed (the fault has been
// processed: terminate cancels the connection before it closes the stream); a failed connection that the client
// never closes is a violation. Nothing here depends on a verif hook.
func (e *lcEnv) settle() bool {
	if e.closed.Load() {
		return true
	}
	deadline := time.Now().Add(lcWaitEvent)
	for {
		e.net.mu.Lock()
		conns := append([]*lcConn(nil), e.net.conns...)
		e.net.mu.Unlock()
		broken, done := 0, 0
		for _, c := range conns {
			if c.broken() {
				broken++
				if c.cclosed.Load() {
					done++
				}
			}
		}
		if done >= broken {
			if broken > 0 {
				time.Sleep(lcPause / 4)
			}
			return true
		}
		if time.Now().After(deadline) {
			e.res.violate("C11", "fault-detected", "lts.cli:broken-connection-not-terminated",
				fmt.Sprintf("a connection failed by the transport was not closed by the client within %v (%d failed, %d closed)", lcWaitEvent, broken, done))
			return false
		}
		time.Sleep(100 * time.Microsecond)
	}
}

func (e *lcEnv) firedCount() int {
	e.net.mu.Lock()
	defer e.net.mu.Unlock()
	n := 0
	for _, f := range e.net.faults {
		n += len(f.fired)
	}
	return n
}

func (e *lcEnv) arm(fs ...*lcFault) {
	ph := len(e.phases) // armed for the phase about to begin
	e.net.mu.Lock()
	for _, f := range fs {
		e.net.faults = append(e.net.faults, f)
		e.armed[f] = ph
	}
	conns := append([]*lcConn(nil), e.net.conns...)
	e.net.mu.Unlock()
	// a "call"-timing fault on a Read that is already in progress: break the connection now
	for _, f := range fs {
		if f.dir == 'r' && f.timing == "call" && f.conn < len(conns) {
			c := conns[f.conn]
			if int(c.reads.Load()) == f.k+1 && c.dead.Load() == nil {
				e.net.phase.Store(int32(ph))
				e.net.fire(f)
				c.kill(lcErrFor(f.kind, false))
			}
		}
	}
}

func (e *lcEnv) disarm() {
	e.net.mu.Lock()
	e.net.faults = nil
	e.net.mu.Unlock()
}

func (e *lcEnv) begin(acts string) *lcPhase {
	p := &lcPhase{acts: acts}
	e.phases = append(e.phases, p)
	e.net.phase.Store(int32(len(e.phases) - 1))
	return p
}

func (e *lcEnv) id(prefix string) string {
	e.mu.Lock()
	defer e.mu.Unlock()
	e.nextID++
	return fmt.Sprintf("%s%d", prefix, e.nextID)
}

type lcCall struct {
	id      string
	outcome string // ok | err | foreign | hang | panic
	err     error
	tx      int   // complete request messages carrying this call's identifier that the client has written
	partial int64 // request frames started but not completed while the call was running (a writer that cuts a
	// message into several Writes and fails in between): attributed to the call when no other call is running
	fired   int // faults fired during the call
	firedAt int // total number of faults fired when the call returned
	conn    int // connection on which the server last saw the request (-1: never)
	done    chan struct{}
}

// lcBaseID: the identifiers of the items of one batch call are id, id#2, id#3, ...; the call is known by the first.
func lcBaseID(id string) string {
	if i := strings.Index(id, "#"); i >= 0 {
		return id[:i]
	}
	return id
}

// lcActivateIDs returns the identifiers echoed by the items of a batch result (position by position).
func lcActivateIDs(items []kmip.ResponseBatchItem) ([]string, error) {
	var got []string
	for i := range items {
		if err := items[i].Err(); err != nil {
			return nil, err
		}
		pl, ok := items[i].ResponsePayload.(*payloads.ActivateResponsePayload)
		if !ok {
			return nil, fmt.Errorf("item %d: unexpected payload %T", i, items[i].ResponsePayload)
		}
		got = append(got, pl.UniqueIdentifier)
	}
	return got, nil
}

// invoke performs one call through the API entry point of the scenario; it returns the identifiers the call asked
// for and the identifiers it was answered with, position by position.
func (e *lcEnv) invoke(cl *kmipclient.Client, ctx context.Context, id string) (want, got []string, err error) {
	act := func(x string) *payloads.ActivateRequestPayload {
		return &payloads.ActivateRequestPayload{UniqueIdentifier: x}
	}
	switch e.spec.entry {
	case "batch":
		want = []string{id, id + "#2", id + "#3"}
		res, err := cl.Batch(ctx, act(want[0]), act(want[1]), act(want[2]))
		if err != nil {
			return want, nil, err
		}
		got, err = lcActivateIDs(res)
		return want, got, err
	case "then":
		// two chains extending the same prefix; the first is executed after the second has been built
		want = []string{id, id + "#2", id + "#3", id + "#4"}
		base := cl.Activate(want[0]).
			Then(func(c *kmipclient.Client) kmipclient.PayloadBuilder { return c.Activate(want[1]) }).
			Then(func(c *kmipclient.Client) kmipclient.PayloadBuilder { return c.Activate(want[2]) })
		x := base.Then(func(c *kmipclient.Client) kmipclient.PayloadBuilder { return c.Activate(want[3]) })
		_ = base.Then(func(c *kmipclient.Client) kmipclient.PayloadBuilder { return c.Activate(id + "#other") })
		res, err := x.ExecContext(ctx)
		if err != nil {
			return want, nil, err
		}
		got, err = lcActivateIDs(res)
		return want, got, err
	case "rt":
		want = []string{id}
		msg := kmip.NewRequestMessage(cl.Version(), act(id))
		resp, err := cl.Roundtrip(ctx, &msg)
		if err != nil {
			return want, nil, err
		}
		if resp == nil {
			return want, nil, errors.New("nil response without error")
		}
		got, err = lcActivateIDs(resp.BatchItem)
		return want, got, err
	case "req":
		want = []string{id}
		pl, err := cl.Request(ctx, act(id))
		if err != nil {
			return want, nil, err
		}
		if a, ok := pl.(*payloads.ActivateResponsePayload); ok {
			return want, []string{a.UniqueIdentifier}, nil
		}
		return want, nil, fmt.Errorf("unexpected payload %T", pl)
	default:
		want = []string{id}
		resp, err := cl.Activate(id).ExecContext(ctx)
		if err != nil {
			return want, nil, err
		}
		return want, []string{resp.UniqueIdentifier}, nil
	}
}

// start issues one call carrying the identifier id (through the entry point of the scenario) in a goroutine.
func (e *lcEnv) start(ctx context.Context, id string) *lcCall {
	return e.startOn(e.cl, ctx, id)
}

func (e *lcEnv) startOn(cl *kmipclient.Client, ctx context.Context, id string) *lcCall {
	c := &lcCall{id: id, done: make(chan struct{})}
	w0 := e.net.frames.Load() - e.net.whole.Load()
	f0 := e.firedCount()
	go func() {
		defer close(c.done)
		type out struct {
			want, got []string
			err       error
		}
		r, p := guard("Activate", func() out {
			want, got, err := e.invoke(cl, ctx, id)
			return out{want, got, err}
		})
		c.partial = max(0, e.net.frames.Load()-e.net.whole.Load()-w0)
		c.tx = e.net.txOf(id)
		c.firedAt = e.firedCount()
		c.fired = c.firedAt - f0
		switch {
		case p != "":
			c.outcome = "panic"
			e.res.violate("C11", "no-panic", "lts.cli:panic "+panicKey(p), p)
		case r.err != nil:
			c.outcome, c.err = "err", r.err
			e.mu.Lock()
			if len(e.res.Notes) < 20 {
				e.res.Notes = append(e.res.Notes, fmt.Sprintf("%s: %v", id, r.err))
			}
			e.mu.Unlock()
		case fmt.Sprint(r.got) == fmt.Sprint(r.want):
			c.outcome = "ok"
		default:
			c.outcome = "foreign"
			e.res.violate("C10", "own-response", "lts.cli:foreign-response",
				fmt.Sprintf("call %q asked for %v and received the response to %v", id, r.want, r.got))
		}
	}()
	return c
}

func (e *lcEnv) wait(c *lcCall) {
	select {
	case <-c.done:
	case <-time.After(lcCallLimit):
		c.outcome = "hang"
		e.res.violate("C11", "returns-promptly", "lts.cli:call-hangs",
			fmt.Sprintf("call %q did not return within %v", c.id, lcCallLimit))
	}
	c.conn = e.srv.connOf(c.id)
	if c.outcome != "hang" && c.tx > lcMaxTransmissions {
		e.res.violate("C11", "transmissions", "lts.cli:more-than-4-transmissions",
			fmt.Sprintf("call %q: %d request messages carrying its identifier were put on the wire", c.id, c.tx))
	}
}

// the property: "a single call transmits its request at most four times".
const lcMaxTransmissions = 4

func (p *lcPhase) record(kind byte, c *lcCall) {
	ok := c.outcome == "ok"
	switch {
	case kind == 'p' && ok:
		p.okP++
	case kind == 'p':
		p.errP++
	case ok:
		p.okX++
	default:
		p.errX++
	}
}

// plain runs one plain call to completion and applies the per-call oracles.
// sequential: no other call is running (every request frame started during it is then one of its transmissions).
func (e *lcEnv) plain(p *lcPhase, mustSucceed bool) *lcCall {
	return e.plainOpt(p, mustSucceed, mustSucceed)
}

// settleFirst: wait until the read-side faults that fired while the client was idle have been processed (a call that
// overlaps the detection of a read error may legitimately fail with it). Not needed, and not done, after a WRITE
// error: the call that got it returns only once the connection has been terminated.
func (e *lcEnv) plainOpt(p *lcPhase, mustSucceed, settleFirst bool) *lcCall {
	// faults that fire while the client is idle are processed before the call starts; one that fires
	// between this check and the start of the call counts as occurring during the call
	f0 := e.firedCount()
	if settleFirst {
		e.settle()
	}
	dials0 := e.net.dialCount()
	wasClosed := e.closed.Load()
	c := e.start(context.Background(), e.id("p"))
	e.wait(c)
	c.fired = e.firedCount() - f0
	p.record('p', c)
	if sent := int64(c.tx) + c.partial; sent > lcMaxTransmissions {
		e.res.violate("C11", "transmissions", "lts.cli:more-than-4-transmissions",
			fmt.Sprintf("call %q: %d request messages carrying its identifier were put on the wire and %d more were started", c.id, c.tx, c.partial))
	}
	if wasClosed {
		if c.outcome == "ok" {
			e.res.violate("C11", "closed-stays-closed", "lts.cli:call-after-close-succeeds", "a call on a closed client returned a response")
		}
		if e.net.dialCount() != dials0 {
			e.res.violate("C11", "closed-stays-closed", "lts.cli:call-after-close-dials", "a call on a closed client dialed")
		}
		if c.tx != 0 {
			e.res.violate("C11", "closed-stays-closed", "lts.cli:call-after-close-transmits", "the request of a call on a closed client was put on the wire")
		}
	} else if mustSucceed && c.fired == 0 && c.outcome == "err" {
		e.res.violate("C11", "recovers", "lts.cli:call-fails-without-fault",
			fmt.Sprintf("call %q failed (%v) although no fault occurred during it and the earlier faults had been processed", c.id, c.err))
	}
	return c
}

func (e *lcEnv) closeClient() {
	e.closeWG.Add(1)
	defer e.closeWG.Done()
	e.closing.Store(true)
	_, p := guard("Close", func() error { return e.cl.Close() })
	if p != "" {
		e.res.violate("C11", "no-panic", "lts.cli:panic-in-close "+panicKey(p), p)
	}
	e.closed.Store(true)
}

// finish: Close if needed, idempotent Close, goroutine check, reuse check, outcome rendering, cleanup.
func (e *lcEnv) finish(abandoned map[string]bool) {
	if e.origCall != nil {
		// clone2: the exchange that has been pending on the original client all along gets its (own) response now,
		// whatever has happened to the clone
		e.srv.open(e.origCall.id)
		e.wait(e.origCall)
		if e.origCall.outcome == "err" {
			e.res.violate("C11", "recovers", "lts.cli:original-fails-because-of-clone",
				fmt.Sprintf("call %q pending on the original client failed (%v) although nothing happened to its connection: only its Clone was used, faulted or closed", e.origCall.id, e.origCall.err))
		}
	}
	if e.cl != nil && !e.closed.Load() {
		p := e.begin("K")
		_ = p
		e.closeClient()
	}
	if e.orig != nil {
		if e.origCall != nil {
			// closing the clone has not closed the original: it still serves a call, on the connection it had
			d0 := e.net.dialCount()
			c := e.startOn(e.orig, context.Background(), e.id("o"))
			e.wait(c)
			if c.outcome == "err" {
				e.res.violate("C11", "recovers", "lts.cli:original-fails-because-of-clone",
					fmt.Sprintf("call %q on the original client failed (%v) after its Clone had been closed", c.id, c.err))
			} else if c.outcome == "ok" && e.net.dialCount() != d0 {
				e.res.violate("C11", "recovers", "lts.cli:original-lost-its-connection",
					"the original client had to dial again after its Clone had been used and closed: they shared a connection")
			}
		}
		_, p := guard("Close", func() error { return e.orig.Close() })
		if p != "" {
			e.res.violate("C11", "no-panic", "lts.cli:panic-in-close "+panicKey(p), p)
		}
	}
	// one exchange at a time on a connection: no request reaches the server on a connection on which the reply to an
	// earlier request is still owed, unless the caller of that earlier request has given up (then the connection must
	// not be used at all: next oracle)
	for _, ov := range e.srv.overlapList() {
		if !abandoned[ov.owed] && lcBaseID(ov.owed) != lcBaseID(ov.new) {
			e.res.violate("C10", "one-exchange-at-a-time", "lts.cli:two-exchanges-on-one-connection",
				fmt.Sprintf("connection %d: request %q reached the server while the reply to %q, whose caller was still waiting, had not been sent", ov.conn, ov.new, ov.owed))
			break
		}
	}
	if e.cl != nil {
		if n := lcSettle(e.base, lcWaitEvent); n > e.base {
			e.res.violate("C11", "no-goroutine-left", "lts.cli:goroutines-after-close",
				fmt.Sprintf("%d goroutine(s) started by the client still running %v after Close: %s (yield log: %s)", n-e.base, lcWaitEvent, lcGoroutineDump(), strings.Join(e.dir.log, ",")))
		}
		// "idempotent close": closing again, from two goroutines, returns and does not panic (after the goroutine
		// check: a second Close must not be what cleans up behind the first)
		again := make(chan string, 2)
		for i := 0; i < 2; i++ {
			go func() {
				_, p := guard("Close", func() error { return e.cl.Close() })
				again <- p
			}()
		}
		for i := 0; i < 2; i++ {
			select {
			case p := <-again:
				if p != "" {
					e.res.violate("C11", "no-panic", "lts.cli:panic-in-second-close "+panicKey(p), p)
				}
			case <-time.After(lcCallLimit):
				e.res.violate("C11", "returns-promptly", "lts.cli:second-close-hangs", "a second Close() did not return")
				i = 2
			}
		}
	}
	// a connection that carried an abandoned exchange carries no later exchange (only the requests of the
	// harness's calls count: a farewell message of the client on the connection it gives up would not)
	for ci := 0; ci < e.net.connCount(); ci++ {
		ids := e.srv.seenOn(ci)
		for i, id := range ids {
			if !abandoned[id] {
				continue
			}
			for _, later := range ids[i+1:] {
				if later != "" && later != "?" && later != "discover" && later != id {
					e.res.violate("C10", "abandoned-conn-not-reused", "lts.cli:abandoned-connection-reused",
						fmt.Sprintf("connection %d received the request %q after the abandoned %q", ci, later, id))
					break
				}
			}
		}
	}
	e.render()
	lcEnvCur.Lock()
	lcEnvCur.e = nil
	lcEnvCur.Unlock()
	lcCur.Store(nil)
	e.net.shutdown()
	lcSettle(0, lcWaitEvent/2)
}

// render builds the model scenario and the canonical outcome.
func (e *lcEnv) render() {
	nph := len(e.phases)
	letters := make([][]byte, nph)
	e.net.mu.Lock()
	for f := range e.armed {
		for _, q := range f.fired {
			last := q
			if f.kind == "car" { // the client sees the end of stream some time later
				last = nph - 1
			}
			for i := q; i <= last && i < nph; i++ {
				letters[i] = append(letters[i], f.letter())
			}
		}
	}
	e.net.mu.Unlock()
	for i, x := range e.extra {
		if i < nph {
			letters[i] = append(letters[i], x...)
		}
	}
	var sc, out []string
	for i, p := range e.phases {
		s := p.acts
		if len(letters[i]) > 0 {
			// canonical order
			cnt := map[byte]int{}
			for _, l := range letters[i] {
				cnt[l]++
			}
			s += "/"
			for _, l := range []byte("erwfd") {
				for k := 0; k < cnt[l] && k < 7; k++ {
					s += string(l)
				}
			}
		}
		sc = append(sc, s)
		out = append(out, fmt.Sprintf("%d.%d.%d.%d", p.okP, p.errP, p.okX, p.errX))
	}
	e.res.Scenario = strings.Join(sc, ";")
	if lcBudget > 0 {
		// the retry budget the real code has been OBSERVED to have (re-transmissions after the first one)
		e.res.Scenario = fmt.Sprintf("b%d;", lcBudget-1) + e.res.Scenario
	}
	// the number of dial attempts is part of the outcome only where the property speaks about dialing
	// (closed clients, failed dials); elsewhere the model accepts any number.
	d := "*"
	if e.exactDials {
		d = strconv.Itoa(e.net.dialCount() - e.dialOffset)
	}
	e.res.Outcome = strings.Join(out, ";") + "|d" + d
	if e.noModel {
		e.res.Scenario = ""
	}
}

func (e *lcEnv) dial(enforce bool) error {
	lcEnvCur.Lock()
	lcEnvCur.e = e
	lcEnvCur.Unlock()
	opts := []kmipclient.Option{kmipclient.WithDialerUnsafe(e.net.dial)}
	if enforce {
		opts = append(opts, kmipclient.EnforceVersion(kmip.V1_4))
	}
	switch e.spec.entry {
	case "mw", "mwto":
		// the library's own middlewares, and one of the harness that only passes on
		to := time.Hour
		if e.spec.entry == "mwto" {
			to = lcMwTimeout()
		}
		var n atomic.Int64
		opts = append(opts, kmipclient.WithMiddlewares(
			kmipclient.CorrelationValueMiddleware(func() string { return fmt.Sprintf("corr-%d", n.Add(1)) }),
			kmipclient.DebugMiddleware(io.Discard, nil),
			func(next kmipclient.Next, ctx context.Context, msg *kmip.RequestMessage) (*kmip.ResponseMessage, error) {
				return next(ctx, msg)
			},
			kmipclient.TimeoutMiddleware(to),
		))
	}
	dialFn := func() (*kmipclient.Client, error) { return kmipclient.Dial("pipe", opts...) }
	if e.spec.entry == "cluster" {
		dialFn = func() (*kmipclient.Client, error) {
			return kmipclient.DialCluster([]string{"pipe", "pipe2"}, append(opts, kmipclient.WithRetryTimeout(time.Millisecond))...)
		}
	}
	type out struct {
		cl  *kmipclient.Client
		err error
	}
	done := make(chan out, 1)
	go func() {
		r, p := guard("Dial", func() out {
			cl, err := dialFn()
			return out{cl, err}
		})
		if p != "" {
			e.res.violate("C11", "no-panic", "lts.cli:panic-in-dial "+panicKey(p), p)
			r.err = errors.New("panic")
		}
		done <- r
	}()
	select {
	case r := <-done:
		e.cl = r.cl
		return r.err
	case <-time.After(lcCallLimit):
		e.res.violate("C11", "returns-promptly", "lts.cli:dial-hangs", "Dial did not return")
		return errors.New("hang")
	}
}

// ---------------------------------------------------------------------------------------------
// scenario families

func lcRun(spec *lcSpec) *lcResult {
	res := &lcResult{Spec: spec.String(), Props: "C11"}
	t0 := time.Now()
	defer func() { res.Millis = time.Since(t0).Milliseconds() }()
	e := newLcEnv(spec, res)
	switch spec.fam {
	case "c10":
		res.Props = "C10,C11"
		lcRunC10(e)
	case "flt":
		lcRunFlt(e)
	case "neg":
		lcRunNeg(e)
	case "cls":
		lcRunCls(e)
	case "rty":
		lcRunRty(e)
	case "dry":
		lcRunDry(e)
	case "dryneg":
		lcRunDryNeg(e)
	case "dryk":
		lcRunDryKind(e)
	case "win":
		lcRunWin(e)
	case "dlk":
		lcRunDlk(e)
	default:
		res.Fail = "unknown family"
	}
	res.Counts = append(res.Counts, "fam="+spec.fam, "outcome="+res.Outcome)
	return res
}

// warm-up: connect (version enforced) and perform one exchange.
func (e *lcEnv) warm() bool {
	if err := e.dial(true); err != nil {
		e.res.Fail = "initial Dial failed: " + err.Error()
		return false
	}
	p := e.begin("p")
	c := e.plain(p, true)
	if c.outcome != "ok" {
		e.res.Fail = "warm-up call failed: " + c.outcome
		return false
	}
	// positive control of the goroutine oracle: a client with an open connection has goroutines of its own
	if n := lcClientGoroutines(); n <= e.base {
		e.res.Fail = fmt.Sprintf("goroutine oracle is blind: no goroutine started by %s is visible while a connection is open (%d before Dial, %d now)", lcClientPkg, e.base, n)
		return false
	}
	if e.spec.entry == "clone" || e.spec.entry == "clone2" {
		return e.warmClone()
	}
	return true
}

// lcMwTimeout: the deadline the TimeoutMiddleware of entry mwto puts on every call (long against an exchange, so
// that only a call the server does not answer runs into it).
func lcMwTimeout() time.Duration { return max(60*time.Millisecond, 100*lcPause) }

// warmClone: the scenario runs on a Clone of the warmed-up client. clone: the original is closed at once (which must
// not affect the clone); clone2: the original stays open with an exchange pending on ITS connection (the reply is
// withheld until the end of the scenario). The clone performs one exchange of its own, so that its connection has
// the I/O history the fault indices of the scenario assume; the faults of the scenario are shifted to the clone's
// connection (index 1) and its dial attempts by one.
func (e *lcEnv) warmClone() bool {
	type out struct {
		cl  *kmipclient.Client
		err error
	}
	r, p := guard("Clone", func() out {
		cl, err := e.cl.CloneCtx(context.Background())
		return out{cl, err}
	})
	if p != "" {
		e.res.violate("C11", "no-panic", "lts.cli:panic-in-clone "+panicKey(p), p)
		e.res.Fail = "Clone panicked"
		return false
	}
	if r.err != nil || r.cl == nil {
		e.res.Fail = fmt.Sprintf("Clone failed: %v", r.err)
		return false
	}
	e.orig, e.cl = e.cl, r.cl
	e.dialOffset = e.net.dialCount() - 1
	if e.spec.entry == "clone" {
		if _, p := guard("Close", func() error { return e.orig.Close() }); p != "" {
			e.res.violate("C11", "no-panic", "lts.cli:panic-in-close "+panicKey(p), p)
		}
		e.orig = nil
	} else {
		hid := e.id("o")
		e.srv.gate(hid)
		e.origCall = e.startOn(e.orig, context.Background(), hid)
		dl := time.Now().Add(lcWaitEvent)
		for e.srv.seenCount(hid) == 0 && time.Now().Before(dl) {
			time.Sleep(50 * time.Microsecond)
		}
	}
	c := e.plain(e.begin("p"), true)
	if c.conn == 0 && e.spec.entry == "clone2" {
		e.res.violate("C10", "one-exchange-at-a-time", "lts.cli:clone-shares-connection",
			fmt.Sprintf("the Clone's call %q reached the server on the connection of the client it was cloned from, on which the reply to %q is owed", c.id, e.origCall.id))
		return false
	}
	if c.outcome != "ok" {
		e.res.Fail = "warm-up call of the clone failed: " + c.outcome
		return false
	}
	for _, f := range e.spec.faults {
		f.conn++
	}
	return true
}

// dry run: report the I/O operation counts after the warm-up and after one more exchange, the duration of an
// exchange (time scale of the harness), and the retry budget OBSERVED on the real code: the number of request
// messages one call puts on the wire when the server drops every connection on receipt of a request.
func lcRunDry(e *lcEnv) {
	if !e.warm() {
		e.finish(nil)
		return
	}
	// the read loop invokes its next Read right after handing a response over: wait for it
	stable := func() (reads, writes []int) {
		reads, writes = e.net.opCounts()
		for same := 0; same < 20; {
			time.Sleep(250 * time.Microsecond)
			r2, w2 := e.net.opCounts()
			if fmt.Sprint(r2, w2) == fmt.Sprint(reads, writes) {
				same++
			} else {
				same = 0
			}
			reads, writes = r2, w2
		}
		return
	}
	r0, w0 := stable()
	p := e.begin("p")
	t0 := time.Now()
	e.plain(p, true)
	exch := time.Since(t0)
	r1, w1 := stable()
	e.res.Counts = append(e.res.Counts, fmt.Sprintf("dry=%d,%d,%d,%d", r0[0], w0[0], r1[0], w1[0]), fmt.Sprintf("exch=%d", exch.Nanoseconds()))
	// retry budget
	drop := atomic.Bool{}
	drop.Store(true)
	e.srv.mu.Lock()
	e.srv.onRecv = func(id string, conn int) {
		if drop.Load() {
			e.net.mu.Lock()
			c := e.net.conns[conn]
			e.net.mu.Unlock()
			c.kill(io.EOF)
		}
	}
	e.srv.mu.Unlock()
	c := e.plainOpt(e.begin("p"), false, false)
	drop.Store(false)
	if c.outcome == "err" {
		e.res.Counts = append(e.res.Counts, fmt.Sprintf("budget=%d", int64(c.tx)+c.partial))
	}
	e.settle()
	e.plain(e.begin("p"), true)
	e.finish(nil)
	e.res.Scenario = ""
}

// dry run of one error kind: is the request transmitted again after it (the class of the kind for the model)?
func lcRunDryKind(e *lcEnv) {
	if !e.warm() || len(e.spec.faults) != 1 {
		e.finish(nil)
		return
	}
	f := e.spec.faults[0]
	e.arm(f)
	c := e.plainOpt(e.begin("p"), false, false)
	if len(f.fired) > 0 {
		e.res.Counts = append(e.res.Counts, fmt.Sprintf("retried=%c%s=%v", f.dir, f.kind, int64(c.tx)+c.partial >= 2))
	}
	e.settle()
	e.disarm()
	e.plain(e.begin("p"), true)
	e.finish(nil)
	e.res.Scenario = ""
}

// dry run of the version negotiation: the I/O operation counts of Dial.
func lcRunDryNeg(e *lcEnv) {
	e.begin("p")
	if err := e.dial(false); err != nil {
		e.res.Fail = "Dial failed: " + err.Error()
		e.finish(nil)
		return
	}
	for same, last := 0, ""; same < 20; {
		time.Sleep(250 * time.Microsecond)
		r, w := e.net.opCounts()
		if cur := fmt.Sprint(r, w); cur == last {
			same++
		} else {
			same, last = 0, cur
		}
	}
	r, w := e.net.opCounts()
	e.res.Counts = append(e.res.Counts, fmt.Sprintf("dryneg=%d,%d", r[0], w[0]))
	e.finish(nil)
	e.res.Scenario = ""
}

// C10: one caller's context ends (cancellation or deadline) exactly at a yield point, while its request is being
// written, while it is queued for the client, or by a timer, while N-1 others call concurrently; optionally after
// a retryable fault has made the call reconnect (the context ends in the retry), and optionally a second abandoned
// call follows the first; then a further call.
func lcRunC10(e *lcEnv) {
	if !e.warm() {
		e.finish(nil)
		return
	}
	spec := e.spec
	abandoned := map[string]bool{}
	// next = <base>[~<kind of the abandoned caller's context>] (cli_ctx.go)
	base, kind, _ := strings.Cut(spec.next, "~")
	if kind != "" && !lcCtxKindKnown(kind) {
		e.res.Fail = "unknown context kind " + kind
		e.finish(nil)
		return
	}
	deadline := strings.HasPrefix(base, "dl")
	rounds := 1
	if strings.HasSuffix(base, "twice") {
		rounds = 2
	}
	e.arm(spec.faults...)
	reached := true
	var outcomes []string
	for round := 0; round < rounds; round++ {
		ok, vo := e.c10Round(round, deadline, kind, abandoned)
		reached = reached && ok
		outcomes = append(outcomes, vo)
	}
	e.disarm()
	p2 := e.begin("p")
	e.plain(p2, true)
	e.res.Nontrivial = reached
	e.res.Counts = append(e.res.Counts, "c10.victim="+strings.Join(outcomes, "+"), "c10.point="+spec.pt, fmt.Sprintf("c10.reached=%v", reached))
	if kind != "" {
		e.res.Counts = append(e.res.Counts, "c10.ctx-kind="+kind)
	}
	if !reached {
		e.res.Counts = append(e.res.Counts, fmt.Sprintf("c10.unreached=%s/%s/%s/faults=%d", spec.pt, spec.srv, spec.next, len(spec.faults)))
	}
	e.finish(abandoned)
}

// c10Round: one abandoned call (and its concurrent callers). Returns whether the intended point was reached and
// the victim's outcome.
func (e *lcEnv) c10Round(round int, deadline bool, kind string, abandoned map[string]bool) (bool, string) {
	spec := e.spec
	n := spec.n
	// with faults armed (first round): the context ends in the attempt that FOLLOWS the fault, i.e. at the first
	// occurrence of the point after the fault has fired
	afterFault := false
	if round > 0 {
		n = 1 // the second victim is alone
	} else {
		afterFault = len(spec.faults) > 0
	}
	f0 := e.firedCount()
	due := func() bool { return !afterFault || e.firedCount() > f0 }
	vid := e.id("v")
	switch spec.srv {
	case "late":
		e.srv.gate(vid)
	case "never":
		e.srv.mu.Lock()
		e.srv.silent[vid] = true
		e.srv.mu.Unlock()
	}
	vctx := newLcVictim(kind, deadline, spec.pt == "pre")
	defer vctx.stop()
	var ctx context.Context = vctx.ctx
	// a context of a timer kind may end before the call has got to the point (a slow machine): the scenario is then
	// one of "the context ended at some instant", judged by the same oracles, but not counted as having hit the point
	// at: the director was at the point when it ended the context (the abandoned call may return before the director
	// has had the time to say so through `reached`)
	var early, at atomic.Bool
	fireAtPoint := func() {
		if vctx.ended() {
			early.Store(true)
		}
		at.Store(true)
		vctx.fire()
	}
	reached := make(chan struct{})
	release := make(chan struct{})
	var once sync.Once
	hit := func() { once.Do(func() { close(reached) }) }
	victimDone := make(chan struct{})
	followers := func(ph *lcPhase, k int) []*lcCall {
		var fl []*lcCall
		for i := 0; i < k; i++ {
			fl = append(fl, e.start(context.Background(), e.id("f")))
		}
		return fl
	}
	checkFollowers := func(ph *lcPhase, fl []*lcCall) {
		for _, c := range fl {
			e.wait(c)
			ph.record('p', c)
			if c.outcome == "err" && e.spec.entry == "mwto" && errors.Is(c.err, context.DeadlineExceeded) {
				// the follower itself ran into the TimeoutMiddleware's deadline (a slow machine): no verdict
				e.noModel = true
				e.res.Counts = append(e.res.Counts, "mwto.follower-timeout")
			} else if c.outcome == "err" {
				e.res.violate("C11", "recovers", "lts.cli:call-fails-without-fault",
					fmt.Sprintf("call %q failed (%v) although only another caller's context ended", c.id, c.err))
			}
		}
	}

	if spec.pt == "queued" {
		// H holds the client (its response is withheld), V is queued for the client when its context ends,
		// then the followers arrive, then H's response is released.
		hid := e.id("h")
		e.srv.gate(hid)
		ph := e.begin("px" + strings.Repeat("p", n-1))
		h := e.start(context.Background(), hid)
		dl := time.Now().Add(lcWaitEvent)
		for e.srv.seenCount(hid) == 0 && time.Now().Before(dl) {
			time.Sleep(50 * time.Microsecond)
		}
		ok := e.srv.seenCount(hid) > 0
		v := e.start(ctx, vid)
		time.Sleep(lcPause)
		fireAtPoint()
		time.Sleep(lcPause)
		fl := followers(ph, n-1)
		time.Sleep(2 * lcPause)
		e.srv.open(hid)
		e.wait(h)
		ph.record('p', h)
		if h.outcome == "err" {
			e.res.violate("C11", "recovers", "lts.cli:call-fails-without-fault",
				fmt.Sprintf("call %q failed (%v) although only another caller's context ended", h.id, h.err))
		}
		e.wait(v)
		ph.record('x', v)
		if v.outcome == "err" && v.tx > 0 {
			abandoned[vid] = true
		}
		checkFollowers(ph, fl)
		e.srv.open(vid)
		return ok && !early.Load(), v.outcome
	}

	switch spec.pt {
	case "pre":
		// the context has already ended (cancelled, or its deadline has passed) when the call is issued
		vctx.fire()
		at.Store(true)
		hit()
	case "timeout":
		if spec.entry == "mwto" {
			// the deadline is the one the library's TimeoutMiddleware puts on the call
			ctx = context.Background()
		} else if kind != "" {
			// a context of the given kind ends while the caller waits for the response: by its own timer, or, for the
			// kinds that are cancelled, some time after the request has reached the server
			go func() {
				dl := time.Now().Add(lcWaitEvent)
				for e.srv.seenCount(vid) == 0 && !vctx.ended() && time.Now().Before(dl) {
					time.Sleep(50 * time.Microsecond)
				}
				time.Sleep(2 * lcPause)
				vctx.fire()
			}()
		} else {
			c2, cancel := context.WithTimeout(context.Background(), max(15*time.Millisecond, 20*lcPause))
			defer cancel()
			ctx = c2
		}
		hit()
	case "inWrite":
		var mu sync.Mutex
		acted := false
		e.net.setInWrite(func(id string, c *lcConn) {
			if id != vid {
				return
			}
			mu.Lock()
			mine := !acted && due()
			if mine {
				acted = true
			}
			mu.Unlock()
			if !mine {
				return
			}
			// the write loop is inside Write, the caller waits in send for its outcome
			fireAtPoint()
			hit()
			select {
			case <-victimDone:
			case <-time.After(lcWaitEvent):
			}
		})
		defer e.net.setInWrite(nil)
	default:
		point := lcPoints[spec.pt]
		var mu sync.Mutex
		acted := false
		rx0 := e.dir.hitCount("cli.read.beforeRx")
		e.dir.onEvery(point, func(any) {
			mu.Lock()
			mine := !acted && due()
			if mine {
				acted = true
			}
			mu.Unlock()
			if !mine {
				return
			}
			if spec.pt == "afterSend" && spec.srv == "early" {
				// the response is to be at the reader before the context ends
				dl := time.Now().Add(lcWaitEvent / 2)
				for e.dir.hitCount("cli.read.beforeRx") == rx0 && time.Now().Before(dl) {
					time.Sleep(50 * time.Microsecond)
				}
			}
			fireAtPoint()
			hit()
			if spec.pt == "beforeRx" {
				// the reader is held until the abandoned caller has returned
				select {
				case <-victimDone:
				case <-time.After(lcWaitEvent):
				}
			}
			select {
			case <-release:
			case <-time.After(lcWaitEvent):
			}
		})
	}
	ph := e.begin("x" + strings.Repeat("p", n-1))
	v := e.start(ctx, vid)
	go func() { <-v.done; close(victimDone) }()
	ok := false
	select {
	case <-reached:
		ok = true
	case <-v.done: // the point was not reached (e.g. no response for beforeRx): the call ended otherwise
	case <-time.After(lcWaitEvent):
	}
	if spec.entry == "mwto" {
		// every call of this client carries the middleware's deadline from the moment it is issued: the followers are
		// issued once the abandoned call has returned (a caller queued behind it would use up its own deadline)
		select {
		case <-v.done:
		case <-time.After(lcCallLimit):
		}
	}
	fl := followers(ph, n-1)
	if spec.srv == "late" {
		// the late response is produced once a follower's request has reached the server
		e.srv.mu.Lock()
		e.srv.onRecv = func(id string, conn int) {
			if strings.HasPrefix(id, "f") {
				e.srv.open(vid)
			}
		}
		e.srv.mu.Unlock()
	}
	time.Sleep(lcPause)
	close(release)
	e.wait(v)
	ph.record('x', v)
	if v.outcome == "err" {
		abandoned[vid] = true
	}
	checkFollowers(ph, fl)
	e.srv.open(vid)
	e.srv.mu.Lock()
	e.srv.onRecv = nil
	e.srv.mu.Unlock()
	return (ok || at.Load()) && !early.Load(), v.outcome
}

// writeOnly: every armed fault is a failure of a Write (not "server closes after replying"). The call that gets a
// write error returns only after the connection has been terminated, so the call that follows needs no settling.
func lcWriteOnly(fs []*lcFault) bool {
	for _, f := range fs {
		if f.dir != 'w' || f.kind == "car" {
			return false
		}
	}
	return len(fs) > 0
}

// C11: faults on given operations of the exchange that follows the warm-up, then a next action.
func lcRunFlt(e *lcEnv) {
	if !e.warm() {
		e.finish(nil)
		return
	}
	spec := e.spec
	e.exactDials = spec.next == "close" || spec.next == "cclose"
	for _, f := range spec.faults {
		if f.dir == 'd' {
			e.exactDials = true
		}
	}
	e.arm(spec.faults...)
	e.settle()
	wonly := lcWriteOnly(spec.faults)
	if spec.next == "conc" || spec.next == "dconc" {
		lcFltConc(e, wonly)
		return
	}
	acts := "p"
	var once sync.Once
	var cwg sync.WaitGroup
	closeNow := func() {
		once.Do(func() {
			cwg.Add(1)
			go func() { defer cwg.Done(); e.closeClient() }()
		})
	}
	if spec.next == "cclose" {
		acts = "pk"
		// Close() as soon as the request has reached the server (the call is pending in recv),
		// or, if it never does, right after the call has returned
		e.srv.mu.Lock()
		e.srv.onRecv = func(id string, conn int) {
			if strings.HasPrefix(id, "p") {
				closeNow()
			}
		}
		e.srv.mu.Unlock()
	}
	ph := e.begin(acts)
	c1 := e.plain(ph, spec.next != "cclose")
	e.res.Counts = append(e.res.Counts, "flt.pending="+c1.outcome)
	if spec.next == "cclose" {
		closeNow()
		cwg.Wait()
	}
	if !wonly {
		e.settle()
	}
	switch spec.next {
	case "call":
		e.plainOpt(e.begin("p"), true, !wonly)
	case "calls3":
		p := e.begin("ppp")
		for i := 0; i < 3; i++ {
			e.plainOpt(p, true, !wonly)
		}
	case "close":
		e.begin("K")
		e.closeClient()
		e.plain(e.begin("p"), false)
	case "cclose":
		e.plain(e.begin("p"), false)
	}
	// whatever happened: once the injector is off and the faults are processed, a call succeeds
	if !e.closed.Load() {
		if !wonly {
			e.settle()
		}
		e.disarm()
		c := e.plainOpt(e.begin("p"), true, !wonly)
		if c.outcome == "ok" {
			for i, lc := range e.net.conns {
				if lc.broken() && c.conn <= i {
					e.res.violate("C11", "fresh-connection", "lts.cli:call-on-broken-connection",
						fmt.Sprintf("call %q was served on connection %d although connection %d had failed", c.id, c.conn, i))
				}
			}
		}
	}
	e.res.Nontrivial = true
	e.finish(nil)
}

// lcFltConc: the fault hits a call while a second caller is waiting for the client; the second call runs as soon
// as the first has returned ("at the latest the next call uses a fresh connection and succeeds").
func lcFltConc(e *lcEnv, wonly bool) {
	point := lcPoints["loaded"]
	var k2 *lcCall
	var k2mu sync.Mutex // K2 is issued once: by the director while K1 holds the client, or else after K1
	started := make(chan struct{})
	issue := func() bool {
		k2mu.Lock()
		defer k2mu.Unlock()
		if k2 != nil {
			return false // K1 never came here (it failed before): this is K2 itself
		}
		k2 = e.start(context.Background(), e.id("p"))
		close(started)
		return true
	}
	if e.spec.next == "dconc" {
		// K2 arrives while K1 is DIALING the replacement of the connection it has lost: K1 holds the client across
		// the dial, so K2 waits; a K2 that got in would dial as well and one of the two connections would be lost
		e.net.setInDial(func(idx int) {
			if issue() {
				k2mu.Lock()
				c := k2
				k2mu.Unlock()
				select {
				case <-c.done:
				case <-time.After(8 * lcPause):
				}
			}
		})
		defer e.net.setInDial(nil)
	} else {
		e.dir.on(point, e.dir.hitCount(point), func() {
			// K1 holds the client: issue K2 and give it the time to queue up
			if issue() {
				time.Sleep(lcPause)
			}
		})
	}
	ph := e.begin("pp")
	f0 := e.firedCount()
	k1 := e.start(context.Background(), e.id("p"))
	select {
	case <-started:
	case <-k1.done:
	case <-time.After(lcWaitEvent):
	}
	e.wait(k1)
	ph.record('p', k1)
	k2mu.Lock()
	queued := k2 != nil
	if k2 == nil {
		k2 = e.start(context.Background(), e.id("p"))
	}
	k2mu.Unlock()
	e.wait(k2)
	ph.record('p', k2)
	firedDuringK1 := k1.firedAt - f0
	firedLater := e.firedCount() - k1.firedAt
	e.res.Counts = append(e.res.Counts, "flt.conc.k1="+k1.outcome, "flt.conc.k2="+k2.outcome, fmt.Sprintf("flt.conc.queued=%v", queued))
	// K2 must succeed when nothing failed after K1 had returned and K1's failure has been processed: a write
	// error is reported only after the connection has been terminated; a call that failed through a read error
	// returned because the connection had been terminated.
	if k2.outcome == "err" && firedLater == 0 && firedDuringK1 > 0 && (wonly || k1.outcome == "err") {
		e.res.violate("C11", "recovers", "lts.cli:next-call-fails-after-fault",
			fmt.Sprintf("call %q (%s) was hit by the fault; call %q, which was waiting for the client and during which nothing failed, failed with: %v", k1.id, k1.outcome, k2.id, k2.err))
	}
	// the fault was over before K1 started (processed: lcRunFlt has settled) and nothing failed since: both succeed
	if firedDuringK1+firedLater == 0 {
		for _, c := range []*lcCall{k1, k2} {
			if c.outcome == "err" {
				e.res.violate("C11", "recovers", "lts.cli:call-fails-without-fault",
					fmt.Sprintf("call %q failed (%v) although no fault occurred during it and the earlier faults had been processed", c.id, c.err))
			}
		}
	}
	e.settle()
	e.disarm()
	e.plain(e.begin("p"), true)
	e.res.Nontrivial = queued
	e.finish(nil)
}

// C11: faults during the version negotiation of Dial.
func lcRunNeg(e *lcEnv) {
	spec := e.spec
	e.exactDials = true
	e.arm(spec.faults...)
	e.begin("n") // the dial of DialContext, its connection installed, then the negotiation call
	if spec.srv == "badver" {
		// nothing fails: the server's versions and the client's have nothing in common. Dial gives up a HEALTHY
		// connection, which it has to close (its goroutines end, the transport is closed). Not a run of the model.
		e.srv.noCommonVersion.Store(true)
		e.noModel = true
	}
	err := e.dial(false)
	ph := e.phases[0]
	if spec.srv == "badver" {
		if err == nil {
			e.res.Fail = "Dial succeeded although the server offered no version the client has"
		}
		e.res.Nontrivial = err != nil
	}
	if e.net.connCount() == 0 && err != nil {
		// the dialer itself failed: no client, no negotiation
		ph.errP++
		e.res.Counts = append(e.res.Counts, "neg=dial-failed")
		e.render()
		e.finish(nil)
		e.res.Scenario, e.res.Outcome = "p/d", "0.1.0.0|d1"
		if lcBudget > 0 {
			e.res.Scenario = fmt.Sprintf("b%d;", lcBudget-1) + e.res.Scenario
		}
		return
	}
	if err != nil {
		ph.errP++
		e.begin("K") // DialContext closes the client it gives up
		e.res.Counts = append(e.res.Counts, "neg=failed")
		if n := lcSettle(e.base, lcWaitEvent); n > e.base {
			e.res.violate("C11", "no-goroutine-left", "lts.cli:goroutines-after-failed-dial",
				fmt.Sprintf("%d goroutine(s) started by the client still running %v after Dial returned an error: %s", n-e.base, lcWaitEvent, lcGoroutineDump()))
		}
		// ... and the transport of every connection it had dialed has been closed by the client
		e.net.mu.Lock()
		conns := append([]*lcConn(nil), e.net.conns...)
		e.net.mu.Unlock()
		for _, c := range conns {
			dl := time.Now().Add(lcWaitEvent)
			for !c.cclosed.Load() && time.Now().Before(dl) {
				time.Sleep(100 * time.Microsecond)
			}
			if !c.cclosed.Load() {
				e.res.violate("C11", "no-goroutine-left", "lts.cli:connection-open-after-failed-dial",
					fmt.Sprintf("connection %d was not closed by the client within %v after Dial had returned an error", c.idx, lcWaitEvent))
				break
			}
		}
		e.render()
		lcEnvCur.Lock()
		lcEnvCur.e = nil
		lcEnvCur.Unlock()
		lcCur.Store(nil)
		e.net.shutdown()
		return
	}
	ph.okP++
	e.res.Counts = append(e.res.Counts, "neg=ok")
	e.settle()
	e.plain(e.begin("p"), true)
	e.settle()
	e.disarm()
	e.plain(e.begin("p"), true)
	e.res.Nontrivial = true
	e.finish(nil)
}

// C11: Close() at a yield point of a pending call.
func lcRunCls(e *lcEnv) {
	if !e.warm() {
		e.finish(nil)
		return
	}
	spec := e.spec
	e.exactDials = true
	e.arm(spec.faults...)
	e.settle()
	if spec.pt == "inClose" {
		lcClsInClose(e)
		return
	}
	point := lcPoints[spec.pt]
	var wg sync.WaitGroup
	e.dir.on(point, e.dir.hitCount(point), func() {
		if spec.n == 1 { // Close runs concurrently with the rest of the call
			wg.Add(1)
			go func() { defer wg.Done(); e.closeClient() }()
			runtime.Gosched()
		} else {
			e.closeClient()
		}
	})
	ph := e.begin("pk")
	c := e.plain(ph, false)
	wg.Wait()
	hit := e.closing.Load()
	e.closeWG.Wait()
	if !hit { // the point was not reached in this run
		e.closeClient()
		ph.acts = "pK"
	}
	e.res.Counts = append(e.res.Counts, "cls.pending="+c.outcome, fmt.Sprintf("cls.point=%s hit=%v", spec.pt, hit))
	e.plain(e.begin("p"), false)
	e.res.Nontrivial = hit
	e.finish(nil)
}

// C11: a call is issued while Close() is in the middle of closing the connection (at cli.terminate.afterCancel of
// Close's own terminate) and runs to its end before Close goes on. The client counts as closed from the moment
// Close() is called: the call fails, or at any rate leaves nothing behind (no connection installed that Close has
// not seen: the goroutine check of finish); afterwards calls fail without dialing.
func lcClsInClose(e *lcEnv) {
	pa := lcPoints["afterCancel"]
	var k *lcCall
	var kmu sync.Mutex
	e.dir.on(pa, e.dir.hitCount(pa), func() {
		if !e.closing.Load() {
			return
		}
		kmu.Lock()
		k = e.start(context.Background(), e.id("p"))
		c := k
		kmu.Unlock()
		select {
		case <-c.done:
		case <-time.After(20 * lcPause):
		}
	})
	ph := e.begin("pk")
	dials0 := e.net.dialCount()
	e.closeClient()
	kmu.Lock()
	c := k
	kmu.Unlock()
	hit := c != nil
	if c != nil {
		e.wait(c)
		ph.record('p', c)
		// (a call that gets through before Close() has returned is not a violation by itself: what it installs must
		// not outlive Close — the goroutine check of finish)
		e.res.Counts = append(e.res.Counts, fmt.Sprintf("cls.inClose call=%s dials=%d", c.outcome, e.net.dialCount()-dials0))
	} else {
		ph.acts = "K"
	}
	e.res.Counts = append(e.res.Counts, fmt.Sprintf("cls.point=inClose hit=%v", hit))
	e.plain(e.begin("p"), false)
	e.res.Nontrivial = hit
	e.finish(nil)
}

// C11: the server drops the connection on receipt of the next n requests — the client sees an end of stream
// (srv = eof) or, its own end having been closed under it, a closed connection (srv = closed). The call
// transmits n+1 times and succeeds, or uses up its budget and fails; the budget is the one OBSERVED by the dry
// run, and the property bounds it by four transmissions.
func lcRunRty(e *lcEnv) {
	if !e.warm() {
		e.finish(nil)
		return
	}
	n := e.spec.n
	left := n
	var mu sync.Mutex
	e.srv.mu.Lock()
	e.srv.onRecv = func(id string, conn int) {
		mu.Lock()
		drop := left > 0
		if drop {
			left--
		}
		mu.Unlock()
		if drop {
			e.net.mu.Lock()
			c := e.net.conns[conn]
			e.net.mu.Unlock()
			if e.spec.srv == "closed" {
				c.kill(&net.OpError{Op: "read", Net: "pipe", Err: net.ErrClosed})
			} else {
				c.kill(io.EOF)
			}
		}
	}
	e.srv.mu.Unlock()
	e.extra[len(e.phases)] = strings.Repeat("e", n)
	ph := e.begin("p")
	c := e.plainOpt(ph, false, false)
	budget := lcBudget
	if budget == 0 {
		budget = lcMaxTransmissions
	}
	want := "ok"
	wantTx := int64(n + 1)
	if n >= budget {
		want, wantTx = "err", int64(budget)
	}
	if sent := int64(c.tx) + c.partial; c.outcome != want || sent != wantTx {
		e.res.violate("C11", "retry-budget", "lts.cli:retry-budget",
			fmt.Sprintf("server dropped %d connection(s) (%s): call returned %s after %d transmission(s), expected %s after %d (observed budget %d)", n, e.spec.srv, c.outcome, int64(c.tx)+c.partial, want, wantTx, budget))
	}
	mu.Lock()
	left = 0
	mu.Unlock()
	e.settle()
	e.plain(e.begin("p"), true)
	e.res.Nontrivial = true
	e.finish(nil)
}

// C11, the window closed by "terminate before reporting a write error": the Write of call K1 fails (the read side of
// the connection stays healthy) while K2 is waiting for the client. K2 runs as soon as K1 has returned and must
// find the connection terminated.
//
//	n = 0 (the directed schedule): the write loop is HELD at the yield point cli.write.reported — right after it has
//	    reported the failure to K1 — until K2 has returned (bounded). On the code as it is the connection has been
//	    terminated before the report, K2 reconnects and succeeds while the write loop stands still. If the report comes
//	    first (2c3eae7 undone) the connection is still live at that point: K2 finds it usable, hands its request over to
//	    a write loop that will never take it, and fails with the old error once the write loop is let go.
//	n = 1 (fallback, for a variant in which no yield point lies between the report and the termination): the window is
//	    opened from outside — while the write loop is at cli.write.beforeErr the harness takes the mutex INSIDE the
//	    connection context (found by type, by reflection), which makes the write loop's cancel() wait, and gives it up
//	    at the moment a second contender arrives behind the write loop — K2 asking the context for Err(). Rests on
//	    cancelCtx taking its mutex in cancel() and Err() and on the layout of sync.Mutex (if either changes the
//	    window is merely not opened: counter win.window).
//	n > 1 (older statistical variant): n goroutines polling Err().
//
// `win.window` counts what happened (yield = held at cli.write.reported; second = opened for a second contender,
// late, nobody, polled, no-context, not-reached).
func lcRunWin(e *lcEnv) {
	if !e.warm() {
		e.finish(nil)
		return
	}
	spec := e.spec
	e.arm(spec.faults...)
	var k2 *lcCall
	var k2mu sync.Mutex // K2 is issued once: by the director while K1 holds the client, or else after K1
	started := make(chan struct{})
	pl := lcPoints["loaded"]
	e.dir.on(pl, e.dir.hitCount(pl), func() {
		k2mu.Lock()
		if k2 != nil {
			k2mu.Unlock()
			return
		}
		k2 = e.start(context.Background(), e.id("p"))
		k2mu.Unlock()
		close(started)
		time.Sleep(lcPause)
	})
	stop := make(chan struct{})
	var t0 atomic.Int64
	var delay atomic.Int64
	var wobj atomic.Value
	window := make(chan string, 1)
	pb := lcPoints["beforeErr"]
	e.dir.on(pb, e.dir.hitCount(pb), func() {
		if spec.n == 0 {
			return // the schedule is directed at cli.write.reported
		}
		obj := e.dir.lastObj(pb)
		cctx := lcConnCtx(obj)
		if cctx == nil {
			window <- "no-context"
			return
		}
		wobj.Store(fmt.Sprintf("%p", obj))
		if mu := lcCtxMutex(cctx); mu != nil && spec.n == 1 {
			// hold the context's mutex until the queued caller comes for it behind the write loop
			lcHoldCtx(mu, 8*lcPause, window)
		} else {
			// fallback: delay the cancellation by polling Err() from n goroutines
			lcHammer(cctx, max(2, spec.n), stop, lcWaitEvent/20)
			window <- "polled"
		}
		t0.Store(time.Now().UnixNano())
	})
	k2ret := make(chan struct{})
	if spec.n == 0 {
		pr := lcPoints["reported"]
		e.dir.on(pr, e.dir.hitCount(pr), func() {
			select {
			case window <- "yield":
			default:
			}
			// K1 has its error: the write loop stands still until K2 — which takes the client as soon as K1 lets go
			// of it — has returned
			select {
			case <-k2ret:
			case <-time.After(lcWaitEvent / 10):
			}
		})
	}
	pa := lcPoints["afterCancel"]
	e.dir.onEvery(pa, func(obj any) {
		if w, _ := wobj.Load().(string); w != "" && w == fmt.Sprintf("%p", obj) && t0.Load() != 0 && delay.Load() == 0 {
			delay.Store(time.Now().UnixNano() - t0.Load())
		}
	})
	ph := e.begin("pp")
	f0 := e.firedCount()
	k1 := e.start(context.Background(), e.id("p"))
	select {
	case <-started:
	case <-k1.done:
	case <-time.After(lcWaitEvent):
	}
	e.wait(k1)
	ph.record('p', k1)
	k2mu.Lock()
	queued := k2 != nil
	if k2 == nil {
		k2 = e.start(context.Background(), e.id("p"))
	}
	k2mu.Unlock()
	e.wait(k2)
	close(k2ret)
	close(stop)
	ph.record('p', k2)
	widened := "no"
	if d := time.Duration(delay.Load()); d >= 20*time.Microsecond {
		widened = ">=20us"
	}
	how := "not-reached"
	select {
	case how = <-window:
	case <-time.After(lcWaitEvent):
	}
	e.res.Counts = append(e.res.Counts, "win.k1="+k1.outcome, fmt.Sprintf("win.k2=%s pollers=%d", k2.outcome, spec.n), "win.cancel-delayed="+widened, "win.window="+how)
	if k2.outcome == "err" && e.firedCount() == k1.firedAt && k1.firedAt-f0 > 0 {
		e.res.violate("C11", "recovers", "lts.cli:next-call-fails-after-write-error",
			fmt.Sprintf("the Write of call %q failed (%v); call %q, which was waiting for the client and during which nothing failed, did not get a fresh connection and failed with: %v", k1.id, k1.err, k2.id, k2.err))
	}
	e.disarm()
	e.plainOpt(e.begin("p"), true, false)
	e.res.Nontrivial = queued && k1.outcome == "err"
	e.finish(nil)
}

// C11 "returns promptly": the connection has been lost, the server cannot be reached (the dial does not return
// until its context ends) and the caller's context ends: the call returns; afterwards the client recovers.
func lcRunDlk(e *lcEnv) {
	if !e.warm() {
		e.finish(nil)
		return
	}
	e.exactDials = true
	// the server drops the idle connection
	e.net.mu.Lock()
	c0 := e.net.conns[len(e.net.conns)-1] // the scenario client's connection (a Clone's is the last one dialed)
	e.net.mu.Unlock()
	c0.kill(io.EOF)
	e.settle()
	e.arm(&lcFault{dir: 'd', conn: e.net.dialCount(), k: 0, kind: "block"})
	e.extra[len(e.phases)] = "e"
	ph := e.begin("x")
	vctx := newLcCallerCtx(e.spec.next == "dl")
	v := e.start(vctx, e.id("v"))
	dl := time.Now().Add(lcWaitEvent)
	for e.net.blocked.Load() == 0 && time.Now().Before(dl) {
		select {
		case <-v.done:
			dl = time.Now()
		default:
			time.Sleep(50 * time.Microsecond)
		}
	}
	reached := e.net.blocked.Load() > 0
	time.Sleep(lcPause)
	vctx.fire()
	e.wait(v)
	ph.record('x', v)
	if v.outcome == "ok" {
		e.res.violate("C11", "returns-promptly", "lts.cli:call-succeeds-without-server", "a call returned a response although the server could not be reached")
	}
	e.disarm()
	e.plain(e.begin("p"), true)
	e.res.Nontrivial = reached
	e.res.Counts = append(e.res.Counts, fmt.Sprintf("dlk.reached=%v", reached))
	e.finish(nil)
}

// ---------------------------------------------------------------------------------------------
// child process: scenarios on stdin, one JSON result per scenario on stdout

const lcChildEnv = "VERIF_LCLI_CHILD"

func init() {
	if os.Getenv(lcChildEnv) == "" {
		return
	}
	cliQuiet()
	if v, err := strconv.ParseInt(os.Getenv(lcChildEnv+"_EXCH_NS"), 10, 64); err == nil {
		lcCalibrate(time.Duration(v))
	}
	if v, err := strconv.Atoi(os.Getenv(lcChildEnv + "_PATIENCE")); err == nil && v > 1 {
		// a re-run that is to confirm a "did not happen in time" observation waits v times longer
		lcWaitEvent *= time.Duration(v)
		lcCallLimit *= time.Duration(v)
	}
	if v, err := strconv.Atoi(os.Getenv(lcChildEnv + "_BUDGET")); err == nil {
		lcBudget = v
	}
	if v, ok := os.LookupEnv(lcChildEnv + "_RETRIED"); ok {
		lcRetried = map[string]bool{}
		for _, k := range strings.Split(v, ",") {
			if k != "" {
				lcRetried[k] = true
			}
		}
	}
	kmipclient.VerifYield = lcYieldEnv
	in := bufio.NewScanner(os.Stdin)
	in.Buffer(make([]byte, 1<<16), 1<<20)
	out := bufio.NewWriter(os.Stdout)
	for in.Scan() {
		line := strings.TrimSpace(in.Text())
		if line == "" {
			continue
		}
		fmt.Fprintf(out, "@@BEGIN %s\n", line)
		out.Flush()
		var res *lcResult
		spec, err := lcParseSpec(line)
		if err != nil {
			res = &lcResult{Spec: line, Fail: "bad spec: " + err.Error()}
		} else {
			res = lcRun(spec)
		}
		b, _ := json.Marshal(res)
		fmt.Fprintf(out, "@@RESULT %s\n", b)
		out.Flush()
	}
	os.Exit(0)
}

// what the dry run has measured, for the children.
var lcChildExtraEnv []string

// lcRunChild runs the specs in child processes; a crash is attributed to the scenario that was running.
func lcRunChild(ctx *Ctx, specs []string) []*lcResult {
	return lcRunChildEnv(ctx, specs, nil)
}

func lcRunChildEnv(ctx *Ctx, specs []string, extraEnv []string) []*lcResult {
	var results []*lcResult
	for len(specs) > 0 {
		limit := time.Duration(len(specs))*3*time.Second + 30*time.Second
		cctx, cancel := context.WithTimeout(context.Background(), limit)
		cmd := exec.CommandContext(cctx, os.Args[0])
		cmd.Env = append(append(append(os.Environ(), lcChildEnv+"=1"), lcChildExtraEnv...), extraEnv...)
		cmd.Stdin = strings.NewReader(strings.Join(specs, "\n") + "\n")
		var stderr strings.Builder
		cmd.Stderr = &stderr
		stdout, err := cmd.StdoutPipe()
		if err != nil {
			cancel()
			ctx.Res.Fail("lts.cli: " + err.Error())
			return results
		}
		if err := cmd.Start(); err != nil {
			cancel()
			ctx.Res.Fail("lts.cli: cannot start the child process: " + err.Error())
			return results
		}
		sc := bufio.NewScanner(stdout)
		sc.Buffer(make([]byte, 1<<16), 1<<24)
		running := ""
		done := 0
		for sc.Scan() {
			l := sc.Text()
			switch {
			case strings.HasPrefix(l, "@@BEGIN "):
				running = strings.TrimPrefix(l, "@@BEGIN ")
			case strings.HasPrefix(l, "@@RESULT "):
				r := &lcResult{}
				if err := json.Unmarshal([]byte(strings.TrimPrefix(l, "@@RESULT ")), r); err != nil {
					ctx.Res.Fail("lts.cli: bad result line: " + err.Error())
				} else {
					results = append(results, r)
				}
				done++
				running = ""
			}
		}
		werr := cmd.Wait()
		timedOut := cctx.Err() != nil
		cancel()
		if werr == nil && running == "" && done == len(specs) {
			return results
		}
		// the child died: attribute it to the running scenario and go on with the rest
		msg := stderr.String()
		if len(msg) > 1500 {
			msg = msg[:1500]
		}
		culprit := running
		if culprit == "" && done < len(specs) {
			culprit = specs[done]
		}
		r := &lcResult{Spec: culprit, Props: "C11"}
		switch {
		case timedOut:
			r.violate("C11", "returns-promptly", "lts.cli:process-hangs", "the child process running the scenario did not finish: "+msg)
		case strings.Contains(msg, "panic:") || strings.Contains(msg, "fatal error:"):
			first := msg
			if i := strings.Index(first, "\n"); i > 0 {
				first = first[:i]
			}
			r.violate("C11", "no-panic", "lts.cli:process-crash "+panicKey(first), msg)
		default:
			r.violate("C11", "no-panic", "lts.cli:process-exit", fmt.Sprintf("child process ended abnormally (%v): %s", werr, msg))
		}
		results = append(results, r)
		if done+1 >= len(specs) {
			return results
		}
		specs = specs[done+1:]
	}
	return results
}

// ---------------------------------------------------------------------------------------------
// generation

type lcDry struct {
	r0, w0, r1, w1 int // I/O operations of connection 0 after the warm-up / after one more exchange
	nr, nw         int // I/O operations of Dial with version negotiation
	budget         int // request messages one call transmits when every connection is dropped
}

func lcSpecs(ctx *Ctx, dry lcDry) []string {
	var out []string
	add := func(s *lcSpec) { out = append(out, s.String()) }
	reps := ctx.N(2, 8) // the same scenarios again under random perturbation of the yield points
	for rep := 0; rep < reps; rep++ {
		seed := 0
		if rep > 0 {
			seed = 1 + ctx.R.Intn(1<<30)
		}
		r0, w0, r1, w1 := dry.r0, dry.w0, dry.r1, dry.w1
		// (a) C10
		for _, n := range []int{2, 3, 4} {
			for _, pt := range []string{"loaded", "afterSend", "beforeRx", "timeout", "inWrite"} {
				for _, srv := range []string{"early", "late", "never"} {
					if pt == "beforeRx" && srv != "early" {
						continue // the reader holds a response only if the server answers
					}
					add(&lcSpec{fam: "c10", n: n, pt: pt, srv: srv, next: "-", seed: seed})
					if pt != "timeout" && n <= 3 {
						// the context ends by a deadline instead of a cancellation
						add(&lcSpec{fam: "c10", n: n, pt: pt, srv: srv, next: "dl", seed: seed})
					}
					if n == 2 && pt != "timeout" {
						// a second abandoned call follows the first
						add(&lcSpec{fam: "c10", n: n, pt: pt, srv: srv, next: "twice", seed: seed})
					}
				}
			}
			// the caller gives up while it is queued for the client, behind a call whose response is late
			add(&lcSpec{fam: "c10", n: n, pt: "queued", srv: "early", next: "-", seed: seed})
			add(&lcSpec{fam: "c10", n: n, pt: "queued", srv: "early", next: "dl", seed: seed})
		}
		// the context ends in the retry loop: the first attempt hits an end of stream, the second one is abandoned
		for _, pt := range []string{"loaded", "afterSend", "inWrite", "beforeReconnect"} {
			for _, next := range []string{"-", "dl", "twice"} {
				if pt == "beforeReconnect" && next == "twice" {
					continue // the second victim does not reconnect
				}
				add(&lcSpec{fam: "c10", n: 2, pt: pt, srv: "early", next: next, seed: seed,
					faults: []*lcFault{{dir: 'r', conn: 0, k: r0 - 1, kind: "eof", timing: "data"}}})
			}
		}
		// (a') the KIND of the abandoned caller's context (cli_ctx.go: WithCancel, WithTimeout, WithDeadline, the *Cause
		// variants with a caller-chosen cause, a cause inherited through WithValue / WithCancel links, WithoutCancel over an
		// ancestor that has ended, a caller's type embedding a context, a caller's implementation and a standard child of
		// it) x every point at which the director ends a context, and a context that has ended before the call
		{
			type ps struct{ pt, srv string }
			combos := []ps{{"loaded", "late"}, {"afterSend", "early"}, {"afterSend", "late"}, {"beforeRx", "early"},
				{"inWrite", "late"}, {"queued", "early"}, {"pre", "early"}, {"timeout", "never"}}
			retryPts := []string{"afterSend"}
			if ctx.Thor {
				combos = nil
				for _, pt := range []string{"loaded", "afterSend", "inWrite", "timeout"} {
					for _, srv := range []string{"early", "late", "never"} {
						combos = append(combos, ps{pt, srv})
					}
				}
				combos = append(combos, ps{"beforeRx", "early"}, ps{"queued", "early"}, ps{"pre", "early"})
				retryPts = []string{"loaded", "afterSend", "inWrite", "beforeReconnect"}
			}
			for _, kind := range lcCtxKinds {
				for _, c := range combos {
					add(&lcSpec{fam: "c10", n: 2, pt: c.pt, srv: c.srv, next: "-~" + kind, seed: seed})
				}
				// a second call abandoned the same way follows the first; three callers
				add(&lcSpec{fam: "c10", n: 2, pt: "afterSend", srv: "late", next: "twice~" + kind, seed: seed})
				if ctx.Thor {
					add(&lcSpec{fam: "c10", n: 2, pt: "inWrite", srv: "never", next: "twice~" + kind, seed: seed})
					add(&lcSpec{fam: "c10", n: 3, pt: "afterSend", srv: "late", next: "-~" + kind, seed: seed})
					add(&lcSpec{fam: "c10", n: 4, pt: "inWrite", srv: "late", next: "-~" + kind, seed: seed})
				}
				// in the retry that follows a reconnect
				for _, pt := range retryPts {
					add(&lcSpec{fam: "c10", n: 2, pt: pt, srv: "early", next: "-~" + kind, seed: seed,
						faults: []*lcFault{{dir: 'r', conn: 0, k: r0 - 1, kind: "eof", timing: "data"}}})
				}
			}
			// through the other entry points (the middlewares derive contexts of their own from the caller's)
			for _, entry := range []string{"batch", "then", "rt", "req", "mw", "clone2", "cluster"} {
				for _, kind := range []string{"cc", "tc", "pc", "emb"} {
					add(&lcSpec{fam: "c10", entry: entry, n: 2, pt: "afterSend", srv: "late", next: "-~" + kind, seed: seed})
					if ctx.Thor || entry == "mw" {
						add(&lcSpec{fam: "c10", entry: entry, n: 2, pt: "inWrite", srv: "late", next: "-~" + kind, seed: seed})
						add(&lcSpec{fam: "c10", entry: entry, n: 2, pt: "beforeRx", srv: "early", next: "-~" + kind, seed: seed})
					}
				}
			}
		}
		// (b) C11: every operation of the exchange x kind x next action
		var pts []*lcFault
		for k := w0; k < w1; k++ {
			for _, kind := range []string{"closed", "reset", "short", "eof", "car", "hreset", "hclosed", "late"} {
				pts = append(pts, &lcFault{dir: 'w', conn: 0, k: k, kind: kind})
			}
		}
		for k := r0 - 1; k < r1; k++ {
			for _, kind := range []string{"eof", "closed", "reset", "partial", "timeout", "ueof"} {
				for _, tm := range []string{"call", "data"} {
					if kind == "partial" && tm == "call" {
						continue
					}
					if k == r1-1 && tm == "data" {
						continue // no data ever arrives for the read that follows the exchange
					}
					pts = append(pts, &lcFault{dir: 'r', conn: 0, k: k, kind: kind, timing: tm})
				}
			}
		}
		for _, f := range pts {
			for _, next := range []string{"call", "calls3", "close", "cclose", "conc"} {
				cp := *f
				add(&lcSpec{fam: "flt", pt: "-", srv: "-", faults: []*lcFault{&cp}, next: next, seed: seed})
			}
		}
		// two faults: the first breaks connection 0, the second hits the reconnection
		for _, first := range []*lcFault{
			{dir: 'r', conn: 0, k: r0 - 1, kind: "eof", timing: "data"},
			{dir: 'r', conn: 0, k: r0 - 1, kind: "reset", timing: "call"},
			{dir: 'w', conn: 0, k: w0, kind: "closed"},
			{dir: 'w', conn: 0, k: w0, kind: "hclosed"},
		} {
			seconds := []*lcFault{
				{dir: 'd', conn: 1, k: 0, kind: "refused"},
				{dir: 'd', conn: 1, k: 0, kind: "refused", rep: 1},
				{dir: 'w', conn: 1, k: 0, kind: "reset"},
				{dir: 'w', conn: 1, k: 0, kind: "closed"},
				{dir: 'w', conn: 1, k: 0, kind: "hreset"},
				{dir: 'r', conn: 1, k: 0, kind: "eof", timing: "data"},
				{dir: 'r', conn: 1, k: 0, kind: "reset", timing: "data"},
				{dir: 'r', conn: 1, k: 1, kind: "partial", timing: "data"},
				{dir: 'r', conn: 1, k: 0, kind: "eof", timing: "data", rep: 1},
			}
			for _, second := range seconds {
				for _, next := range []string{"call", "close"} {
					a, b := *first, *second
					add(&lcSpec{fam: "flt", pt: "-", srv: "-", faults: []*lcFault{&a, &b}, next: next, seed: seed})
				}
			}
		}
		// (c) faults during the version negotiation of Dial: every I/O operation the dry run of Dial has seen
		add(&lcSpec{fam: "neg", pt: "-", srv: "-", next: "-", seed: seed})
		add(&lcSpec{fam: "neg", pt: "-", srv: "-", next: "-", seed: seed, faults: []*lcFault{{dir: 'd', conn: 0, k: 0, kind: "refused"}}})
		for k := 0; k < dry.nw; k++ {
			for _, kind := range []string{"closed", "reset", "short", "eof", "car", "hreset", "hclosed"} {
				add(&lcSpec{fam: "neg", pt: "-", srv: "-", next: "-", seed: seed, faults: []*lcFault{{dir: 'w', conn: 0, k: k, kind: kind}}})
			}
		}
		for k := 0; k < dry.nr; k++ {
			for _, kind := range []string{"eof", "closed", "reset", "partial"} {
				for _, tm := range []string{"call", "data"} {
					if (kind == "partial" && tm == "call") || (k == dry.nr-1 && tm == "data") {
						continue
					}
					add(&lcSpec{fam: "neg", pt: "-", srv: "-", next: "-", seed: seed, faults: []*lcFault{{dir: 'r', conn: 0, k: k, kind: kind, timing: tm}}})
					// ... and the retry of the negotiation fails as well
					add(&lcSpec{fam: "neg", pt: "-", srv: "-", next: "-", seed: seed, faults: []*lcFault{{dir: 'r', conn: 0, k: k, kind: kind, timing: tm, rep: 4}}})
				}
			}
		}
		// (d) Close() at the yield points of a pending call
		for _, async := range []int{0, 1} {
			for _, pt := range []string{"loaded", "afterSend", "beforeRx"} {
				add(&lcSpec{fam: "cls", n: async, pt: pt, srv: "-", next: "-", seed: seed})
			}
			add(&lcSpec{fam: "cls", n: async, pt: "beforeErr", srv: "-", next: "-", seed: seed, faults: []*lcFault{{dir: 'w', conn: 0, k: w0, kind: "reset"}}})
			add(&lcSpec{fam: "cls", n: async, pt: "beforeErr", srv: "-", next: "-", seed: seed, faults: []*lcFault{{dir: 'w', conn: 0, k: w0, kind: "closed"}}})
			add(&lcSpec{fam: "cls", n: async, pt: "beforeErr", srv: "-", next: "-", seed: seed, faults: []*lcFault{{dir: 'w', conn: 0, k: w0, kind: "hreset"}}})
			add(&lcSpec{fam: "cls", n: async, pt: "afterCancel", srv: "-", next: "-", seed: seed, faults: []*lcFault{{dir: 'r', conn: 0, k: r0 - 1, kind: "reset", timing: "data"}}})
			add(&lcSpec{fam: "cls", n: async, pt: "afterCancel", srv: "-", next: "-", seed: seed, faults: []*lcFault{{dir: 'r', conn: 0, k: r0 - 1, kind: "eof", timing: "data"}}})
			add(&lcSpec{fam: "cls", n: async, pt: "beforeReconnect", srv: "-", next: "-", seed: seed, faults: []*lcFault{{dir: 'r', conn: 0, k: r0 - 1, kind: "eof", timing: "data"}}})
			add(&lcSpec{fam: "cls", n: async, pt: "beforeReconnect", srv: "-", next: "-", seed: seed, faults: []*lcFault{{dir: 'w', conn: 0, k: w0, kind: "closed"}}})
		}
		// a call issued while Close() is closing the connection
		add(&lcSpec{fam: "cls", n: 0, pt: "inClose", srv: "-", next: "-", seed: seed})
		// a second caller arrives while the first is dialing the replacement of a lost connection
		for _, f := range []*lcFault{
			{dir: 'r', conn: 0, k: r0 - 1, kind: "eof", timing: "data"},
			{dir: 'r', conn: 0, k: r0 - 1, kind: "closed", timing: "call"},
			{dir: 'w', conn: 0, k: w0, kind: "closed"},
			{dir: 'w', conn: 0, k: w0, kind: "car"},
		} {
			add(&lcSpec{fam: "flt", pt: "-", srv: "-", faults: []*lcFault{f}, next: "dconc", seed: seed})
		}
		// (e) retry budget: up to one drop more than the observed budget (at least 5), both ways of losing a connection
		for n := 1; n <= max(5, dry.budget+1); n++ {
			for _, how := range []string{"eof", "closed"} {
				add(&lcSpec{fam: "rty", n: n, pt: "-", srv: how, next: "-", seed: seed})
			}
		}
		// (f) a write error while a second caller is waiting: the write loop held at cli.write.reported (n = 0, directed);
		// fallbacks that open the window from outside: the context's mutex held (n = 1), Err() polled (n > 1)
		for _, kind := range []string{"hreset", "late"} { // the read side stays healthy: only the write loop terminates
			for i := 0; i < 3; i++ {
				add(&lcSpec{fam: "win", n: 0, pt: "-", srv: "-", next: "-", seed: seed, faults: []*lcFault{{dir: 'w', conn: 0, k: w0, kind: kind}}})
			}
		}
		for i := 0; i < ctx.N(6, 10); i++ {
			for _, hammer := range []int{1, 1, 4} {
				for _, kind := range []string{"hreset", "short"} {
					add(&lcSpec{fam: "win", n: hammer, pt: "-", srv: "-", next: "-", seed: seed, faults: []*lcFault{{dir: 'w', conn: 0, k: w0, kind: kind}}})
				}
			}
		}
		// (g) unreachable server and a caller that gives up
		add(&lcSpec{fam: "dlk", pt: "-", srv: "-", next: "-", seed: seed})
		add(&lcSpec{fam: "dlk", pt: "-", srv: "-", next: "dl", seed: seed})
		// (h) the other entry points of the client: the calls of a scenario are made through Batch (three items),
		// an Executor.Then chain (four items, a sibling chain built from the same prefix), Roundtrip, Request; on a
		// client with the library's middlewares; on a Clone (original closed / original open with an exchange
		// pending on its own connection); on a client made by DialCluster. A selection of (a)-(g) for each.
		for _, entry := range []string{"batch", "then", "rt", "req", "mw", "clone", "clone2", "cluster"} {
			for _, pt := range []string{"loaded", "afterSend", "beforeRx", "inWrite", "queued"} {
				for _, srv := range []string{"early", "late"} {
					if (pt == "beforeRx" || pt == "queued") && srv != "early" {
						continue
					}
					next := "-"
					if srv == "late" {
						next = "dl"
					}
					add(&lcSpec{fam: "c10", entry: entry, n: 3, pt: pt, srv: srv, next: next, seed: seed})
				}
			}
			add(&lcSpec{fam: "c10", entry: entry, n: 2, pt: "afterSend", srv: "never", next: "twice", seed: seed})
			add(&lcSpec{fam: "c10", entry: entry, n: 2, pt: "afterSend", srv: "early", next: "-", seed: seed,
				faults: []*lcFault{{dir: 'r', conn: 0, k: r0 - 1, kind: "eof", timing: "data"}}})
			for _, f := range []*lcFault{
				{dir: 'w', conn: 0, k: w0, kind: "closed"},
				{dir: 'w', conn: 0, k: w0, kind: "hreset"},
				{dir: 'w', conn: 0, k: w0, kind: "short"},
				{dir: 'w', conn: 0, k: w0, kind: "car"},
				{dir: 'r', conn: 0, k: r0 - 1, kind: "eof", timing: "call"},
				{dir: 'r', conn: 0, k: r0 - 1, kind: "reset", timing: "data"},
				{dir: 'r', conn: 0, k: r0, kind: "partial", timing: "data"},
				{dir: 'r', conn: 0, k: r0, kind: "closed", timing: "data"},
			} {
				for _, next := range []string{"call", "close", "cclose", "conc"} {
					cp := *f
					add(&lcSpec{fam: "flt", entry: entry, pt: "-", srv: "-", faults: []*lcFault{&cp}, next: next, seed: seed})
				}
			}
			for _, second := range []*lcFault{
				{dir: 'd', conn: 1, k: 0, kind: "refused"},
				{dir: 'w', conn: 1, k: 0, kind: "closed"},
				{dir: 'r', conn: 1, k: 0, kind: "eof", timing: "data", rep: 1},
			} {
				a, b := lcFault{dir: 'r', conn: 0, k: r0 - 1, kind: "eof", timing: "data"}, *second
				add(&lcSpec{fam: "flt", entry: entry, pt: "-", srv: "-", faults: []*lcFault{&a, &b}, next: "call", seed: seed})
			}
			for _, pt := range []string{"loaded", "afterSend", "beforeRx"} {
				add(&lcSpec{fam: "cls", entry: entry, n: 1, pt: pt, srv: "-", next: "-", seed: seed})
			}
			add(&lcSpec{fam: "cls", entry: entry, n: 0, pt: "beforeReconnect", srv: "-", next: "-", seed: seed, faults: []*lcFault{{dir: 'r', conn: 0, k: r0 - 1, kind: "eof", timing: "data"}}})
			add(&lcSpec{fam: "cls", entry: entry, n: 1, pt: "beforeReconnect", srv: "-", next: "-", seed: seed, faults: []*lcFault{{dir: 'w', conn: 0, k: w0, kind: "closed"}}})
			for _, n := range []int{1, 3, 4, 5} {
				add(&lcSpec{fam: "rty", entry: entry, n: n, pt: "-", srv: "eof", next: "-", seed: seed})
			}
			add(&lcSpec{fam: "win", entry: entry, n: 0, pt: "-", srv: "-", next: "-", seed: seed, faults: []*lcFault{{dir: 'w', conn: 0, k: w0, kind: "hreset"}}})
			add(&lcSpec{fam: "dlk", entry: entry, pt: "-", srv: "-", next: "dl", seed: seed})
		}
		// the abandoned call is ended by the deadline of the library's TimeoutMiddleware
		for _, n := range []int{2, 3} {
			for _, srv := range []string{"late", "never"} {
				add(&lcSpec{fam: "c10", entry: "mwto", n: n, pt: "timeout", srv: srv, next: "-", seed: seed})
			}
		}
		add(&lcSpec{fam: "c10", entry: "mwto", n: 2, pt: "timeout", srv: "never", next: "twice", seed: seed})
		// Dial gives up a healthy connection (no common protocol version)
		for _, entry := range []string{"", "cluster", "mw"} {
			add(&lcSpec{fam: "neg", entry: entry, pt: "-", srv: "badver", next: "-", seed: seed})
		}
		// Dial's negotiation through DialCluster and with middlewares
		for _, entry := range []string{"cluster", "mw"} {
			add(&lcSpec{fam: "neg", entry: entry, pt: "-", srv: "-", next: "-", seed: seed})
			add(&lcSpec{fam: "neg", entry: entry, pt: "-", srv: "-", next: "-", seed: seed, faults: []*lcFault{{dir: 'd', conn: 0, k: 0, kind: "refused"}}})
			for k := 0; k < dry.nw; k++ {
				for _, kind := range []string{"reset", "short", "hclosed"} {
					add(&lcSpec{fam: "neg", entry: entry, pt: "-", srv: "-", next: "-", seed: seed, faults: []*lcFault{{dir: 'w', conn: 0, k: k, kind: kind}}})
				}
			}
			for k := 0; k < dry.nr; k++ {
				for _, kind := range []string{"eof", "reset", "partial"} {
					tm := "data"
					if k == dry.nr-1 {
						tm = "call"
					}
					if kind == "partial" && tm == "call" {
						continue
					}
					add(&lcSpec{fam: "neg", entry: entry, pt: "-", srv: "-", next: "-", seed: seed, faults: []*lcFault{{dir: 'r', conn: 0, k: k, kind: kind, timing: tm}}})
					add(&lcSpec{fam: "neg", entry: entry, pt: "-", srv: "-", next: "-", seed: seed, faults: []*lcFault{{dir: 'r', conn: 0, k: k, kind: kind, timing: tm, rep: 4}}})
				}
			}
		}
	}
	return out
}

func lcRegister(ctx *Ctx, r *lcResult) {
	line := "# lts.cli " + r.Spec
	if r.Fail != "" {
		// a scenario that could not be completed: the violations seen so far are reported; without any, it is a
		// failure of the harness
		for _, v := range r.Viol {
			ctx.Res.Violate(report.Violation{Property: v.Property, Oracle: v.Oracle, Key: v.Key, Detail: v.Detail, Line: line})
		}
		if len(r.Viol) == 0 {
			ctx.Res.Fail("lts.cli " + r.Spec + ": " + r.Fail)
		}
		return
	}
	if r.Scenario != "" && len(r.Viol) == 0 {
		line = fmt.Sprintf("lts.member cliconn current %s %s %s", r.Spec, r.Scenario, r.Outcome)
	}
	for _, v := range r.Viol {
		ctx.Res.Violate(report.Violation{Property: v.Property, Oracle: v.Oracle, Key: v.Key, Detail: v.Detail, Line: "# lts.cli " + r.Spec})
	}
	for _, c := range r.Counts {
		if strings.HasPrefix(c, "outcome=") || strings.HasPrefix(c, "dry=") {
			continue
		}
		ctx.Res.Count(c)
	}
	if r.Millis > 1000 {
		ctx.Res.Count("slow scenario (>1s): " + r.Spec)
	}
	ctx.Add(line, "ok in", r.Nontrivial, r.Props)
}

func runLtsCli(ctx *Ctx) {
	var specs, raceSpecs []string
	if len(ctx.Replay) > 0 {
		for _, l := range ctx.Replay {
			f := strings.Fields(l)
			switch {
			case len(f) >= 3 && f[0] == "#" && f[1] == "lts.cli":
				specs = append(specs, f[2])
			case len(f) >= 3 && f[0] == "#" && f[1] == "lts.cli.race":
				raceSpecs = append(raceSpecs, f[2])
			case len(f) >= 4 && f[0] == "lts.member" && f[1] == "cliconn":
				specs = append(specs, f[3])
			}
		}
	}
	// dry runs (always, also for a replay): operation counts, time scale, observed retry budget
	dry := lcDry{r0: 3, w0: 1, r1: 5, w1: 2, nr: 3, nw: 1}
	{
		dryRes := lcRunChild(ctx, []string{(&lcSpec{fam: "dry", pt: "-", srv: "-", next: "-"}).String(), (&lcSpec{fam: "dryneg", pt: "-", srv: "-", next: "-"}).String()})
		found, foundNeg := false, false
		exch := int64(0)
		for _, r := range dryRes {
			if r.Fail != "" {
				ctx.Res.Fail("lts.cli " + r.Spec + ": " + r.Fail)
			}
			for _, c := range r.Counts {
				switch {
				case strings.HasPrefix(c, "dry="):
					if _, err := fmt.Sscanf(c, "dry=%d,%d,%d,%d", &dry.r0, &dry.w0, &dry.r1, &dry.w1); err == nil {
						found = true
					}
				case strings.HasPrefix(c, "dryneg="):
					if _, err := fmt.Sscanf(c, "dryneg=%d,%d", &dry.nr, &dry.nw); err == nil {
						foundNeg = true
					}
				case strings.HasPrefix(c, "exch="):
					fmt.Sscanf(c, "exch=%d", &exch)
				case strings.HasPrefix(c, "budget="):
					fmt.Sscanf(c, "budget=%d", &dry.budget)
				}
			}
			for _, v := range r.Viol {
				ctx.Res.Violate(report.Violation{Property: v.Property, Oracle: v.Oracle, Key: v.Key, Detail: v.Detail, Line: "# lts.cli " + r.Spec})
			}
		}
		if !found || !foundNeg {
			ctx.Res.Fail("lts.cli: the dry runs did not report operation counts")
		}
		if dry.budget == 0 {
			ctx.Res.Fail("lts.cli: the dry run did not observe the retry budget (a call whose every connection is dropped did not fail)")
		}
		ctx.Res.Count(fmt.Sprintf("dry-run ops: reads %d->%d writes %d->%d; negotiation: %d reads %d writes; observed budget: %d transmissions", dry.r0, dry.r1, dry.w0, dry.w1, dry.nr, dry.nw, dry.budget))
		lcChildExtraEnv = []string{fmt.Sprintf("%s_EXCH_NS=%d", lcChildEnv, exch), fmt.Sprintf("%s_BUDGET=%d", lcChildEnv, dry.budget)}
		// the class (retried / not retried) of the error kinds that are neither an end of stream nor a closed connection
		{
			var kspecs []string
			for _, dk := range lcObservedKinds {
				f := &lcFault{dir: dk[0], conn: 0, kind: dk[1:]}
				if f.dir == 'r' {
					f.k, f.timing = dry.r0-1, "data"
				} else {
					f.k = dry.w0
				}
				kspecs = append(kspecs, (&lcSpec{fam: "dryk", pt: "-", srv: "-", next: "-", faults: []*lcFault{f}}).String())
			}
			var retried, seen []string
			for _, r := range lcRunChild(ctx, kspecs) {
				if r.Fail != "" {
					ctx.Res.Fail("lts.cli " + r.Spec + ": " + r.Fail)
				}
				for _, v := range r.Viol {
					ctx.Res.Violate(report.Violation{Property: v.Property, Oracle: v.Oracle, Key: v.Key, Detail: v.Detail, Line: "# lts.cli " + r.Spec})
				}
				for _, c := range r.Counts {
					if strings.HasPrefix(c, "retried=") {
						kv := strings.Split(strings.TrimPrefix(c, "retried="), "=")
						seen = append(seen, kv[0])
						if len(kv) == 2 && kv[1] == "true" {
							retried = append(retried, kv[0])
						}
					}
				}
			}
			if len(seen) != len(lcObservedKinds) {
				ctx.Res.Fail(fmt.Sprintf("lts.cli: the dry runs observed the retry class of %v only (wanted %v)", seen, lcObservedKinds))
			}
			ctx.Res.Count("dry-run retry classes: retried after [" + strings.Join(retried, " ") + "] of [" + strings.Join(lcObservedKinds, " ") + "]")
			lcChildExtraEnv = append(lcChildExtraEnv, fmt.Sprintf("%s_RETRIED=%s", lcChildEnv, strings.Join(retried, ",")))
		}
		// the budget the model has must be the one the code has
		ctx.Add("lts.budget cliconn current", fmt.Sprintf("ok %d", dry.budget), true, "C11")
		// the fusion of no-op steps in the model is checked by evaluation: the unfused system is explored, the
		// bad-state predicates are evaluated on all its states, and every state is mapped into the fused set
		ctx.Add("lts.unfused cliconn current", "ok clean", true, "C10,C11")
		if dry.budget > lcMaxTransmissions {
			ctx.Res.Violate(report.Violation{Property: "C11", Oracle: "transmissions", Key: "lts.cli:more-than-4-transmissions",
				Detail: fmt.Sprintf("a call whose every connection is dropped by the server on receipt of the request put %d request messages on the wire", dry.budget), Line: "# lts.cli dry:0:-:-:-:-:0"})
		}
	}
	if len(ctx.Replay) == 0 {
		specs = lcSpecs(ctx, dry)
		raceSpecs = lcRaceSpecs(dry)
	}
	// the race pass runs beside the scenarios
	raceDone := make(chan func(*Ctx), 1)
	go func() { raceDone <- lcRacePass(raceSpecs) }()
	// batches, so that a crash costs little and the children run in parallel
	const batch = 40
	nb := (len(specs) + batch - 1) / batch
	results := make([][]*lcResult, nb)
	par := 4
	sem := make(chan struct{}, par)
	var wg sync.WaitGroup
	for b := 0; b < nb; b++ {
		b := b
		lo, hi := b*batch, min((b+1)*batch, len(specs))
		wg.Add(1)
		sem <- struct{}{}
		go func() {
			defer wg.Done()
			defer func() { <-sem }()
			results[b] = lcRunChild(ctx, specs[lo:hi])
		}()
	}
	wg.Wait()
	var all []*lcResult
	for _, rs := range results {
		all = append(all, rs...)
	}
	(<-raceDone)(ctx)
	all = lcConfirm(ctx, all)
	for _, r := range all {
		lcRegister(ctx, r)
	}
}

// observations of the form "did not happen within the time limit": on a loaded machine they can be artefacts.
var lcTimingKeys = []string{"lts.cli:call-hangs", "lts.cli:dial-hangs", "lts.cli:second-close-hangs", "lts.cli:process-hangs",
	"lts.cli:goroutines-after-close", "lts.cli:goroutines-after-failed-dial", "lts.cli:broken-connection-not-terminated",
	"lts.cli:connection-open-after-failed-dial"}

func lcTimingOnly(r *lcResult) bool {
	if len(r.Viol) == 0 {
		return false
	}
	for _, v := range r.Viol {
		timing := false
		for _, k := range lcTimingKeys {
			if v.Key == k {
				timing = true
			}
		}
		if !timing {
			return false
		}
	}
	return true
}

// lcConfirm makes the verdicts robust against the load of the machine without hiding anything reproducible:
//
//	(1) a scenario whose only violations are "did not happen in time" observations is run again, alone, with four
//	    times the patience; the violation is reported if it shows again (a genuine hang or leak does), otherwise the
//	    re-run's result is used and the event is counted as information;
//	(2) a scenario whose observed outcome the model does not have is run again up to three times; the disagreement is
//	    reported if a non-member outcome shows again, otherwise the re-run's (member) outcome is used and the event
//	    is counted as information. Violations that state an event that DID happen (foreign response, panic, a clean
//	    call that failed, too many transmissions, ...) are never re-tried.
func lcConfirm(ctx *Ctx, all []*lcResult) []*lcResult {
	if len(ctx.Replay) > 0 {
		return all // a replay reports what it sees
	}
	confirmed, tried := 0, 0
	for i, r := range all {
		if r.Fail != "" || !lcTimingOnly(r) {
			continue
		}
		if tried >= 8 || confirmed >= 3 {
			break // this is not the load of the machine: report the rest as they are
		}
		tried++
		again := false
		var last *lcResult
		for try := 0; try < 2 && !again; try++ {
			rs := lcRunChildEnv(ctx, []string{r.Spec}, []string{lcChildEnv + "_PATIENCE=4"})
			if len(rs) == 0 {
				again = true
				break
			}
			last = rs[0]
			again = len(last.Viol) > 0
		}
		if again || last == nil {
			confirmed++
			continue
		}
		ctx.Res.Count("lts.cli: timing observation not reproduced with more patience (machine load?): " + r.Viol[0].Key + " " + r.Spec)
		all[i] = last
	}
	// membership pre-check on the distinct (scenario, outcome) pairs
	type key struct{ scen, out string }
	idx := map[key]int{}
	var lines []string
	for _, r := range all {
		if r.Fail != "" || r.Scenario == "" || len(r.Viol) > 0 {
			continue
		}
		k := key{r.Scenario, r.Outcome}
		if _, ok := idx[k]; !ok {
			idx[k] = len(lines)
			lines = append(lines, fmt.Sprintf("lts.member cliconn current - %s %s", r.Scenario, r.Outcome))
		}
	}
	if len(lines) == 0 {
		return all
	}
	answers, err := model.Run(lines)
	if err != nil {
		return all // the framework will report the model failure
	}
	member := func(r *lcResult) (bool, bool) {
		k, ok := idx[key{r.Scenario, r.Outcome}]
		if ok {
			return answers[k] == "ok in", true
		}
		a, err := model.Run([]string{fmt.Sprintf("lts.member cliconn current - %s %s", r.Scenario, r.Outcome)})
		if err != nil || len(a) != 1 {
			return false, false
		}
		return a[0] == "ok in", true
	}
	for i, r := range all {
		if r.Fail != "" || r.Scenario == "" || len(r.Viol) > 0 {
			continue
		}
		if in, ok := member(r); in || !ok {
			continue
		}
		reproduced := false
		var good *lcResult
		for try := 0; try < 3 && !reproduced; try++ {
			rs := lcRunChild(ctx, []string{r.Spec})
			if len(rs) == 0 || rs[0].Fail != "" || rs[0].Scenario == "" {
				continue
			}
			if len(rs[0].Viol) > 0 {
				// the re-run shows a violation: report that, with the non-member outcome
				good = nil
				reproduced = true
				all = append(all, rs[0])
				break
			}
			if in, ok := member(rs[0]); ok && !in {
				reproduced = true
			} else if ok && good == nil {
				good = rs[0]
			}
		}
		if !reproduced && good != nil {
			ctx.Res.Count(fmt.Sprintf("lts.cli: outcome outside the model's set not reproduced in 3 re-runs: %s %s %s", r.Spec, r.Scenario, r.Outcome))
			all[i] = good
		}
	}
	return all
}

func init() {
	register(&Engine{
		Name: "lts.cli",
		Rule: "real kmipclient.Client over an in-memory fault-injecting transport and a scripted echo server (answers possibly out of order), verif yield points driven by a director; I/O indices, time scale and retry budget measured by dry runs; (a) C10: N in {2,3,4} concurrent callers, one caller's context ended (cancellation / deadline) exactly at cli.send.loaded / cli.roundtrip.afterSend / cli.read.beforeRx, while its request is inside Write, while it is queued for the client behind a call whose response is late, or by a timer; its response early / late / never; the same in the retry that follows a reconnect (and at cli.beforeReconnect); a second abandoned call after the first; then a further call; the abandoned caller's context of every KIND (WithCancel, WithTimeout and WithDeadline ended by their timer or by their cancel function, WithCancelCause / WithTimeoutCause / WithDeadlineCause with a caller-chosen cause, a nil cause, a cause wrapping a transport error, a cause inherited through WithValue / WithCancel links, WithoutCancel over an ancestor that has ended, a caller's type embedding a context, a caller's own implementation of context.Context and a standard child of it) ended at each of those points, while the caller waits for the response, and before the call is issued, also in the retry after a reconnect, twice in a row and through the other entry points; (b) C11: after a warm-up exchange, every Read and Write index of the next exchange x {EOF, closed, reset, timeout, unexpected EOF, partial message, short write, server closes after replying, write-only reset/closed, failure reported after delivery} x {when invoked, when data arrives} x next action {call, 3 calls, Close, Close during the pending call, a second caller queued for the client}, pairs of faults hitting the reconnection (dial, write, read); (c) every I/O operation of Dial's version negotiation; (d) Close() at each yield point of a pending call (in line and concurrently); (e) server dropping 1..budget+1 successive connections (EOF and closed); (f) a write error with a queued caller while the write loop is held at cli.write.reported (window of 2c3eae7, directed; fallbacks: the connection context's mutex held / polled); (g) a dial that blocks until the caller's context ends; a second caller arriving during the re-dial; a call issued while Close() is closing the connection; Dial giving up a healthy connection; (h) a selection of (a)-(g) with the calls made through Batch, an Executor.Then chain, Roundtrip, Request, on a client with the library's middlewares (also: the abandoned call ended by TimeoutMiddleware), on a Clone (original closed / original open with an exchange pending), on a DialCluster client; server-side oracle: one exchange at a time on a connection; the retried error kinds are observed by dry runs; race pass: the Close/reconnect scenarios under the race detector; scenarios run in child processes (a crash is a violation) and are repeated under random perturbation at the yield points; timing-only verdicts and non-member outcomes are confirmed by re-runs; distinct = distinct scenario+outcome",
		Run:  runLtsCli,
	})
}
