/-
  Helper lemmas for the cross-encoding clause of C18 at the GENERIC layer: the tree a text reader returns
  (`XItem`, annotations erased) lies in the domain of the binary round trip as soon as its sizes fit the
  binary format, and the tree the binary decoder returns, lifted to an annotated tree for the generic text
  codecs (`noHints`), lies in the domain of the text round trips as soon as its dates can be written in
  RFC 3339. Hints are POSITIONAL (`Hints = List Nat → Int → Hint`): the text → binary lemmas hold for every
  `H` (the recursion passes `H.child` / `hintsTail` down, as the readers do); for the generic decoder the
  hints below any position are `noHints` again (`noHints_child`, `hintsTail_noHints`). Core Lean only.
-/
import KmipModel.Lemmas.FixpointLemmas
import KmipModel.Lemmas.LexLemmas
namespace Kmip
open Kmip.Lex

/-! ### what the binary format bounds and the text formats do not -/

mutual
  /-- every length fits the 32-bit length field; dates fit 64 bits. (The text readers bound neither the
      length of a string nor the size of a big integer, and leave the 64-bit range of a date to
      `Rfc3339.inYears`.) -/
  def Item.Fits : Item → Prop
    | .struct _ cs => (encList cs).length < 2 ^ 32 ∧ Item.AllFit cs
    | .big _ v => (encodeBig v).length < 2 ^ 32
    | .text _ s => s.length < 2 ^ 32
    | .bytes _ s => s.length < 2 ^ 32
    | .date _ v => inInt 64 v
    | .int _ _ => True
    | .long _ _ => True
    | .enum _ _ => True
    | .bool _ _ => True
    | .interval _ _ => True
  def Item.AllFit : List Item → Prop
    | [] => True
    | x :: xs => x.Fits ∧ Item.AllFit xs
end

theorem inInt32_of_ok {v : Int} (h : int32Ok v = true) : inInt 32 v := by
  have ⟨h1, h2⟩ := int32Ok_iff.mp h
  unfold inInt
  constructor
  · show -(((2 : Nat) ^ 31 : Nat) : Int) ≤ v
    have : (((2 : Nat) ^ 31 : Nat) : Int) = 2147483648 := by decide
    omega
  · show v < (((2 : Nat) ^ 31 : Nat) : Int)
    have : (((2 : Nat) ^ 31 : Nat) : Int) = 2147483648 := by decide
    omega

theorem inInt64_of_ok {v : Int} (h : int64Ok v = true) : inInt 64 v := by
  have ⟨h1, h2⟩ := int64Ok_iff.mp h
  unfold inInt
  constructor
  · show -(((2 : Nat) ^ 63 : Nat) : Int) ≤ v
    have : (((2 : Nat) ^ 63 : Nat) : Int) = 9223372036854775808 := by decide
    omega
  · show v < (((2 : Nat) ^ 63 : Nat) : Int)
    have : (((2 : Nat) ^ 63 : Nat) : Int) = 9223372036854775808 := by decide
    omega

theorem int32Ok_of_in {v : Int} (h : inInt 32 v) : int32Ok v = true := by
  unfold inInt at h
  have e : (((2 : Nat) ^ (32 - 1) : Nat) : Int) = 2147483648 := by decide
  rw [e] at h
  exact int32Ok_iff.mpr ⟨h.1, by omega⟩

theorem int64Ok_of_in {v : Int} (h : inInt 64 v) : int64Ok v = true := by
  unfold inInt at h
  have e : (((2 : Nat) ^ (64 - 1) : Nat) : Int) = 9223372036854775808 := by decide
  rw [e] at h
  exact int64Ok_iff.mpr ⟨h.1, by omega⟩

theorem toNat_tagOk {t : Int} (h : tagOk t = true) : 0 < t.toNat ∧ t.toNat < 2 ^ 24 := by
  have ⟨h1, h2⟩ := tagOk_iff.mp h
  constructor <;> omega

theorem toNat_tagOk0 {t : Int} (h : tagOk0 t = true) : t.toNat < 2 ^ 24 := by
  have ⟨h1, h2⟩ := tagOk0_iff.mp h
  omega

/-! ### text → binary -/

mutual
  /-- a tree of the text readers' output domain (non-root position), annotations erased, is in the domain
      of the binary round trip when its sizes fit. -/
  theorem XItem.erase_inRange {R : Rfc3339} : ∀ (t : XItem) (H : Hints),
      t.representableG false R H = true → t.erase.Fits → t.erase.InRange
    | .struct t cs, H, h, hf => by
      simp only [XItem.representableG, Bool.and_eq_true, rootTagOk] at h
      simp only [XItem.erase, Item.Fits] at hf
      have ht := toNat_tagOk (by simpa using h.1)
      simp only [XItem.erase, Item.InRange]
      exact ⟨ht.1, ht.2, hf.1, XItem.eraseList_allInRange cs H.child h.2 hf.2⟩
    | .int t v, _, h, _ => by
      simp only [XItem.representableG, Bool.and_eq_true, rootTagOk] at h
      have ht := toNat_tagOk (by simpa using h.1.1)
      simp only [XItem.erase, Item.InRange]
      exact ⟨ht.1, ht.2, inInt32_of_ok h.1.2⟩
    | .mask t m v, _, h, _ => by
      simp only [XItem.representableG, Bool.and_eq_true, rootTagOk] at h
      have ht := toNat_tagOk (by simpa using h.1.1)
      simp only [XItem.erase, Item.InRange]
      exact ⟨ht.1, ht.2, inInt32_of_ok h.1.2⟩
    | .long t v, _, h, _ => by
      simp only [XItem.representableG, Bool.and_eq_true, rootTagOk] at h
      have ht := toNat_tagOk (by simpa using h.1)
      simp only [XItem.erase, Item.InRange]
      exact ⟨ht.1, ht.2, inInt64_of_ok h.2⟩
    | .big t v, _, h, hf => by
      simp only [XItem.representableG, rootTagOk] at h
      have ht := toNat_tagOk (by simpa using h)
      simp only [XItem.erase, Item.Fits] at hf
      simp only [XItem.erase, Item.InRange]
      exact ⟨ht.1, ht.2, hf⟩
    | .enum t e v, _, h, _ => by
      simp only [XItem.representableG, Bool.and_eq_true, rootTagOk, decide_eq_true_eq] at h
      have ht := toNat_tagOk (by simpa using h.1.1)
      simp only [XItem.erase, Item.InRange]
      exact ⟨ht.1, ht.2, by have := h.1.2; omega⟩
    | .bool t b, _, h, _ => by
      simp only [XItem.representableG, rootTagOk] at h
      have ht := toNat_tagOk (by simpa using h)
      simp only [XItem.erase, Item.InRange]
      exact ⟨ht.1, ht.2⟩
    | .text t s, _, h, hf => by
      simp only [XItem.representableG, rootTagOk] at h
      have ht := toNat_tagOk (by simpa using h)
      simp only [XItem.erase, Item.Fits] at hf
      simp only [XItem.erase, Item.InRange]
      exact ⟨ht.1, ht.2, hf⟩
    | .bytes t s, _, h, hf => by
      simp only [XItem.representableG, rootTagOk] at h
      have ht := toNat_tagOk (by simpa using h)
      simp only [XItem.erase, Item.Fits] at hf
      simp only [XItem.erase, Item.InRange]
      exact ⟨ht.1, ht.2, hf⟩
    | .date t v, _, h, hf => by
      simp only [XItem.representableG, Bool.and_eq_true, rootTagOk] at h
      have ht := toNat_tagOk (by simpa using h.1)
      simp only [XItem.erase, Item.Fits] at hf
      simp only [XItem.erase, Item.InRange]
      exact ⟨ht.1, ht.2, hf⟩
    | .interval t v, _, h, _ => by
      simp only [XItem.representableG, Bool.and_eq_true, rootTagOk, decide_eq_true_eq] at h
      have ht := toNat_tagOk (by simpa using h.1)
      simp only [XItem.erase, Item.InRange]
      exact ⟨ht.1, ht.2, by have := h.2; omega⟩
  theorem XItem.eraseList_allInRange {R : Rfc3339} : ∀ (cs : List XItem) (Hs : Nat → Hints),
      XItem.representableList R Hs cs = true → Item.AllFit (XItem.eraseList cs) →
      Item.AllInRange (XItem.eraseList cs)
    | [], _, _, _ => by simp [XItem.eraseList, Item.AllInRange]
    | x :: xs, Hs, h, hf => by
      simp only [XItem.representableList, Bool.and_eq_true] at h
      simp only [XItem.eraseList, Item.AllFit] at hf
      simp only [XItem.eraseList, Item.AllInRange]
      exact ⟨XItem.erase_inRange x (Hs 0) h.1 hf.1, XItem.eraseList_allInRange xs (hintsTail Hs) h.2 hf.2⟩
end

/-- … and so is a tree of the ROOT domain (root tag possibly 0), for the tag-0-tolerant round trip. -/
theorem XItem.erase_inRange0 {R : Rfc3339} {H : Hints} (t : XItem)
    (h : t.representableG true R H = true) (hf : t.erase.Fits) : t.erase.InRange0 := by
  cases t with
  | struct t cs =>
    simp only [XItem.representableG, Bool.and_eq_true, rootTagOk] at h
    simp only [XItem.erase, Item.Fits] at hf
    simp only [XItem.erase, Item.InRange0]
    exact ⟨toNat_tagOk0 (by simpa using h.1), hf.1, XItem.eraseList_allInRange cs H.child h.2 hf.2⟩
  | int t v =>
    simp only [XItem.representableG, Bool.and_eq_true, rootTagOk] at h
    simp only [XItem.erase, Item.InRange0]
    exact ⟨toNat_tagOk0 (by simpa using h.1.1), inInt32_of_ok h.1.2⟩
  | mask t m v =>
    simp only [XItem.representableG, Bool.and_eq_true, rootTagOk] at h
    simp only [XItem.erase, Item.InRange0]
    exact ⟨toNat_tagOk0 (by simpa using h.1.1), inInt32_of_ok h.1.2⟩
  | long t v =>
    simp only [XItem.representableG, Bool.and_eq_true, rootTagOk] at h
    simp only [XItem.erase, Item.InRange0]
    exact ⟨toNat_tagOk0 (by simpa using h.1), inInt64_of_ok h.2⟩
  | big t v =>
    simp only [XItem.representableG, rootTagOk] at h
    simp only [XItem.erase, Item.Fits] at hf
    simp only [XItem.erase, Item.InRange0]
    exact ⟨toNat_tagOk0 (by simpa using h), hf⟩
  | enum t e v =>
    simp only [XItem.representableG, Bool.and_eq_true, rootTagOk, decide_eq_true_eq] at h
    simp only [XItem.erase, Item.InRange0]
    exact ⟨toNat_tagOk0 (by simpa using h.1.1), by have := h.1.2; omega⟩
  | bool t b =>
    simp only [XItem.representableG, rootTagOk] at h
    simp only [XItem.erase, Item.InRange0]
    exact toNat_tagOk0 (by simpa using h)
  | text t s =>
    simp only [XItem.representableG, rootTagOk] at h
    simp only [XItem.erase, Item.Fits] at hf
    simp only [XItem.erase, Item.InRange0]
    exact ⟨toNat_tagOk0 (by simpa using h), hf⟩
  | bytes t s =>
    simp only [XItem.representableG, rootTagOk] at h
    simp only [XItem.erase, Item.Fits] at hf
    simp only [XItem.erase, Item.InRange0]
    exact ⟨toNat_tagOk0 (by simpa using h), hf⟩
  | date t v =>
    simp only [XItem.representableG, Bool.and_eq_true, rootTagOk] at h
    simp only [XItem.erase, Item.Fits] at hf
    simp only [XItem.erase, Item.InRange0]
    exact ⟨toNat_tagOk0 (by simpa using h.1), hf⟩
  | interval t v =>
    simp only [XItem.representableG, Bool.and_eq_true, rootTagOk, decide_eq_true_eq] at h
    simp only [XItem.erase, Item.InRange0]
    exact ⟨toNat_tagOk0 (by simpa using h.1), by have := h.2; omega⟩

/-! ### binary → text -/

mutual
  /-- the annotated tree the GENERIC text codecs (`ttlv.Value`: `noHints`) work with. -/
  def Item.lift : Item → XItem
    | .struct t cs => .struct t (Item.liftList cs)
    | .int t v => .int t v
    | .long t v => .long t v
    | .big t v => .big t v
    | .enum t v => .enum t 0 v
    | .bool t b => .bool t b
    | .text t s => .text t s
    | .bytes t s => .bytes t s
    | .date t v => .date t v
    | .interval t v => .interval t v
  def Item.liftList : List Item → List XItem
    | [] => []
    | x :: xs => x.lift :: Item.liftList xs
end

mutual
  theorem Item.erase_lift : ∀ (t : Item), t.lift.erase = t
    | .struct t cs => by simp [Item.lift, XItem.erase, Item.eraseList_liftList cs]
    | .int t v => by simp [Item.lift, XItem.erase]
    | .long t v => by simp [Item.lift, XItem.erase]
    | .big t v => by simp [Item.lift, XItem.erase]
    | .enum t v => by simp [Item.lift, XItem.erase]
    | .bool t b => by simp [Item.lift, XItem.erase]
    | .text t s => by simp [Item.lift, XItem.erase]
    | .bytes t s => by simp [Item.lift, XItem.erase]
    | .date t v => by simp [Item.lift, XItem.erase]
    | .interval t v => by simp [Item.lift, XItem.erase]
  theorem Item.eraseList_liftList : ∀ (cs : List Item), XItem.eraseList (Item.liftList cs) = cs
    | [] => by simp [Item.liftList, XItem.eraseList]
    | x :: xs => by simp [Item.liftList, XItem.eraseList, Item.erase_lift x, Item.eraseList_liftList xs]
end

mutual
  /-- every date of the tree can be written in RFC 3339 (the property's "dates lie in years 1 to 9999";
      `R.inYears` is the readers' own test, local years 0..9999). -/
  def Item.DatesIn (R : Rfc3339) : Item → Prop
    | .struct _ cs => Item.AllDatesIn R cs
    | .date _ v => R.inYears v = true
    | .int _ _ => True
    | .long _ _ => True
    | .big _ _ => True
    | .enum _ _ => True
    | .bool _ _ => True
    | .text _ _ => True
    | .bytes _ _ => True
    | .interval _ _ => True
  def Item.AllDatesIn (R : Rfc3339) : List Item → Prop
    | [] => True
    | x :: xs => x.DatesIn R ∧ Item.AllDatesIn R xs
end

/-- the hints of the generic decoder for the children of an element: generic again, child by child … -/
theorem noHints_child : noHints.child = fun _ => noHints := rfl

/-- … and so are those for the children after the first. -/
theorem hintsTail_noHints : hintsTail (fun _ => noHints) = fun _ => noHints := rfl

theorem tagOk_ofNat {t : Nat} (h0 : 0 < t) (h : t < 2 ^ 24) : tagOk (t : Int) = true :=
  tagOk_iff.mpr ⟨by omega, by omega⟩

theorem tagOk0_ofNat {t : Nat} (h : t < 2 ^ 24) : tagOk0 (t : Int) = true :=
  tagOk0_iff.mpr ⟨by omega, by omega⟩

mutual
  theorem Item.lift_rep {R : Rfc3339} : ∀ (t : Item), t.InRange → t.DatesIn R →
      t.lift.representableG false R noHints = true
    | .struct t cs, h, hd => by
      simp only [Item.InRange] at h
      simp only [Item.DatesIn] at hd
      simp only [Item.lift, XItem.representableG, Bool.and_eq_true, rootTagOk, noHints_child]
      exact ⟨by simpa using tagOk_ofNat h.1 h.2.1, Item.liftList_rep cs h.2.2.2 hd⟩
    | .int t v, h, _ => by
      simp only [Item.InRange] at h
      simp only [Item.lift, XItem.representableG, Bool.and_eq_true, rootTagOk, decide_eq_true_eq]
      exact ⟨⟨by simpa using tagOk_ofNat h.1 h.2.1, int32Ok_of_in h.2.2⟩, rfl⟩
    | .long t v, h, _ => by
      simp only [Item.InRange] at h
      simp only [Item.lift, XItem.representableG, Bool.and_eq_true, rootTagOk]
      exact ⟨by simpa using tagOk_ofNat h.1 h.2.1, int64Ok_of_in h.2.2⟩
    | .big t v, h, _ => by
      simp only [Item.InRange] at h
      simp only [Item.lift, XItem.representableG, rootTagOk]
      simpa using tagOk_ofNat h.1 h.2.1
    | .enum t v, h, _ => by
      simp only [Item.InRange] at h
      simp only [Item.lift, XItem.representableG, Bool.and_eq_true, rootTagOk, decide_eq_true_eq]
      exact ⟨⟨by simpa using tagOk_ofNat h.1 h.2.1, by have := h.2.2; omega⟩, rfl⟩
    | .bool t b, h, _ => by
      simp only [Item.InRange] at h
      simp only [Item.lift, XItem.representableG, rootTagOk]
      simpa using tagOk_ofNat h.1 h.2
    | .text t s, h, _ => by
      simp only [Item.InRange] at h
      simp only [Item.lift, XItem.representableG, rootTagOk]
      simpa using tagOk_ofNat h.1 h.2.1
    | .bytes t s, h, _ => by
      simp only [Item.InRange] at h
      simp only [Item.lift, XItem.representableG, rootTagOk]
      simpa using tagOk_ofNat h.1 h.2.1
    | .date t v, h, hd => by
      simp only [Item.InRange] at h
      simp only [Item.DatesIn] at hd
      simp only [Item.lift, XItem.representableG, Bool.and_eq_true, rootTagOk]
      exact ⟨by simpa using tagOk_ofNat h.1 h.2.1, hd⟩
    | .interval t v, h, _ => by
      simp only [Item.InRange] at h
      simp only [Item.lift, XItem.representableG, Bool.and_eq_true, rootTagOk, decide_eq_true_eq]
      exact ⟨by simpa using tagOk_ofNat h.1 h.2.1, by have := h.2.2; omega⟩
  theorem Item.liftList_rep {R : Rfc3339} : ∀ (cs : List Item), Item.AllInRange cs →
      Item.AllDatesIn R cs → XItem.representableList R (fun _ => noHints) (Item.liftList cs) = true
    | [], _, _ => by simp [Item.liftList, XItem.representableList]
    | x :: xs, h, hd => by
      simp only [Item.AllInRange] at h
      simp only [Item.AllDatesIn] at hd
      simp only [Item.liftList, XItem.representableList, Bool.and_eq_true, hintsTail_noHints]
      exact ⟨Item.lift_rep x h.1 hd.1, Item.liftList_rep xs h.2 hd.2⟩
end

/-- the root version: what the binary decoder returns (root tag possibly 0). -/
theorem Item.lift_rep0 {R : Rfc3339} (t : Item) (h : t.InRange0) (hd : t.DatesIn R) :
    t.lift.Representable0 R noHints := by
  unfold XItem.Representable0 XItem.representable0
  cases t with
  | struct t cs =>
    simp only [Item.InRange0] at h
    simp only [Item.DatesIn] at hd
    simp only [Item.lift, XItem.representableG, Bool.and_eq_true, rootTagOk, noHints_child]
    exact ⟨by simpa using tagOk0_ofNat h.1, Item.liftList_rep cs h.2.2 hd⟩
  | int t v =>
    simp only [Item.InRange0] at h
    simp only [Item.lift, XItem.representableG, Bool.and_eq_true, rootTagOk, decide_eq_true_eq]
    exact ⟨⟨by simpa using tagOk0_ofNat h.1, int32Ok_of_in h.2⟩, rfl⟩
  | long t v =>
    simp only [Item.InRange0] at h
    simp only [Item.lift, XItem.representableG, Bool.and_eq_true, rootTagOk]
    exact ⟨by simpa using tagOk0_ofNat h.1, int64Ok_of_in h.2⟩
  | big t v =>
    simp only [Item.InRange0] at h
    simp only [Item.lift, XItem.representableG, rootTagOk]
    simpa using tagOk0_ofNat h.1
  | enum t v =>
    simp only [Item.InRange0] at h
    simp only [Item.lift, XItem.representableG, Bool.and_eq_true, rootTagOk, decide_eq_true_eq]
    exact ⟨⟨by simpa using tagOk0_ofNat h.1, by have := h.2; omega⟩, rfl⟩
  | bool t b =>
    simp only [Item.InRange0] at h
    simp only [Item.lift, XItem.representableG, rootTagOk]
    simpa using tagOk0_ofNat h
  | text t s =>
    simp only [Item.InRange0] at h
    simp only [Item.lift, XItem.representableG, rootTagOk]
    simpa using tagOk0_ofNat h.1
  | bytes t s =>
    simp only [Item.InRange0] at h
    simp only [Item.lift, XItem.representableG, rootTagOk]
    simpa using tagOk0_ofNat h.1
  | date t v =>
    simp only [Item.InRange0] at h
    simp only [Item.DatesIn] at hd
    simp only [Item.lift, XItem.representableG, Bool.and_eq_true, rootTagOk]
    exact ⟨by simpa using tagOk0_ofNat h.1, hd⟩
  | interval t v =>
    simp only [Item.InRange0] at h
    simp only [Item.lift, XItem.representableG, Bool.and_eq_true, rootTagOk, decide_eq_true_eq]
    exact ⟨by simpa using tagOk0_ofNat h.1, by have := h.2; omega⟩

/-! ### the generic text tree and the binary tree determine each other -/

theorem toNat_cast_of_tagOk0 {t : Int} (h : tagOk0 t = true) : ((t.toNat : Nat) : Int) = t := by
  have ⟨h1, _⟩ := tagOk0_iff.mp h
  omega

theorem tagOk0_of_rootTagOk {top : Bool} {t : Int} (h : rootTagOk top t = true) : tagOk0 t = true :=
  tagOk0_of_root h

mutual
  /-- for the generic codecs (`noHints`) nothing is lost by erasing the annotations: a tree of the text
      readers' output domain is the lift of its erasure. -/
  theorem XItem.lift_erase {R : Rfc3339} {top : Bool} : ∀ (t : XItem),
      t.representableG top R noHints = true → t.erase.lift = t
    | .struct t cs, h => by
      simp only [XItem.representableG, Bool.and_eq_true, noHints_child] at h
      simp only [XItem.erase, Item.lift, toNat_cast_of_tagOk0 (tagOk0_of_rootTagOk h.1),
        XItem.liftList_eraseList cs h.2]
    | .int t v, h => by
      simp only [XItem.representableG, Bool.and_eq_true] at h
      simp only [XItem.erase, Item.lift, toNat_cast_of_tagOk0 (tagOk0_of_rootTagOk h.1.1)]
    | .mask t m v, h => by
      simp [XItem.representableG, noHints] at h
    | .long t v, h => by
      simp only [XItem.representableG, Bool.and_eq_true] at h
      simp only [XItem.erase, Item.lift, toNat_cast_of_tagOk0 (tagOk0_of_rootTagOk h.1)]
    | .big t v, h => by
      simp only [XItem.representableG] at h
      simp only [XItem.erase, Item.lift, toNat_cast_of_tagOk0 (tagOk0_of_rootTagOk h)]
    | .enum t e v, h => by
      simp only [XItem.representableG, Bool.and_eq_true, decide_eq_true_eq] at h
      have he : e = 0 := by have := h.2; simpa [noHints] using this.symm
      subst he
      simp only [XItem.erase, Item.lift, toNat_cast_of_tagOk0 (tagOk0_of_rootTagOk h.1.1)]
    | .bool t b, h => by
      simp only [XItem.representableG] at h
      simp only [XItem.erase, Item.lift, toNat_cast_of_tagOk0 (tagOk0_of_rootTagOk h)]
    | .text t s, h => by
      simp only [XItem.representableG] at h
      simp only [XItem.erase, Item.lift, toNat_cast_of_tagOk0 (tagOk0_of_rootTagOk h)]
    | .bytes t s, h => by
      simp only [XItem.representableG] at h
      simp only [XItem.erase, Item.lift, toNat_cast_of_tagOk0 (tagOk0_of_rootTagOk h)]
    | .date t v, h => by
      simp only [XItem.representableG, Bool.and_eq_true] at h
      simp only [XItem.erase, Item.lift, toNat_cast_of_tagOk0 (tagOk0_of_rootTagOk h.1)]
    | .interval t v, h => by
      simp only [XItem.representableG, Bool.and_eq_true] at h
      simp only [XItem.erase, Item.lift, toNat_cast_of_tagOk0 (tagOk0_of_rootTagOk h.1)]
  theorem XItem.liftList_eraseList {R : Rfc3339} : ∀ (cs : List XItem),
      XItem.representableList R (fun _ => noHints) cs = true → Item.liftList (XItem.eraseList cs) = cs
    | [], _ => by simp [XItem.eraseList, Item.liftList]
    | x :: xs, h => by
      simp only [XItem.representableList, Bool.and_eq_true, hintsTail_noHints] at h
      simp only [XItem.eraseList, Item.liftList, XItem.lift_erase x h.1, XItem.liftList_eraseList xs h.2]
end

end Kmip
