package main

import (
	"bytes"
	"encoding/json"
	"encoding/xml"
	"fmt"
	"io"
	"reflect"
	"regexp"
	"strconv"
	"strings"
	"time"
	"unicode/utf8"

	kmip "github.com/ovh/kmip-go"
	"github.com/ovh/kmip-go/ttlv"

	"verifharness/internal/report"
	"verifharness/internal/rng"
	"verifharness/internal/schema"
)

// The `text` engine holds the impl-side oracles for the XML and JSON encodings (C04, C18, and the
// text half of C02). Its lines start with '#': they are not sent to the Lean model (the lexical
// model has its own engine); they document exactly what was evaluated and serve as replay.

type textCodec struct {
	name       string
	marshal    func(any) []byte
	unmarshal  func([]byte, any) error
	wellFormed func([]byte) error
}

func xmlWellFormed(b []byte) error {
	d := xml.NewDecoder(bytes.NewReader(b))
	d.Strict = true
	depth, roots := 0, 0
	for {
		tok, err := d.Token()
		if err == io.EOF {
			break
		}
		if err != nil {
			return err
		}
		switch tok.(type) {
		case xml.StartElement:
			if depth == 0 {
				roots++
			}
			depth++
		case xml.EndElement:
			depth--
		}
	}
	if depth != 0 || roots != 1 {
		return fmt.Errorf("not a single well-nested document (roots=%d)", roots)
	}
	return nil
}

func jsonWellFormed(b []byte) error {
	if !json.Valid(b) {
		var v any
		return json.Unmarshal(b, &v)
	}
	return nil
}

var textCodecs = []textCodec{
	{"xml", ttlv.MarshalXML, ttlv.UnmarshalXML, xmlWellFormed},
	{"json", ttlv.MarshalJSON, ttlv.UnmarshalJSON, jsonWellFormed},
}

func shortKey(doc []byte) string {
	s := string(doc)
	if len(s) > 60 {
		s = s[:60]
	}
	return s
}

// textRoundTrip applies the C04 oracle to one generated value.
func textRoundTrip(ctx *Ctx, s *schema.Schema, tg planTarget, x reflect.Value, codecs []textCodec) {
	val, err := s.Render(x, s.Dyns[tg.dyn].Kind)
	if err != nil {
		ctx.Res.Fail("render: " + err.Error())
		return
	}
	bin, p := guard("MarshalTTLV", func() []byte { return ttlv.MarshalTTLV(x.Interface()) })
	if p != "" {
		return // C01's business
	}
	for _, c := range codecs {
		line := fmt.Sprintf("#text.rt %s %d %s", c.name, tg.dyn, val)
		ctx.current = line
		doc, p := guard("Marshal", func() []byte { return c.marshal(x.Interface()) })
		if p != "" {
			ctx.Res.Violate(report.Violation{Property: "C04", Oracle: "encoder-total", Key: c.name + ":encoder-panic:" + panicKey(p), Detail: "encoder panicked: " + p, Line: line})
			ctx.Add(line, "panic", true, "")
			continue
		}
		if err := c.wellFormed(doc); err != nil {
			ctx.Res.Violate(report.Violation{Property: "C04", Oracle: "well-formed", Key: c.name + ":not-well-formed", Detail: "independent parser rejects the document: " + err.Error(), Line: line})
		} else if c.name == "xml" {
			if m := textNamesWritten(doc); m != "" {
				ctx.Res.Violate(report.Violation{Property: "C04", Oracle: "names-written", Key: "xml:registered-value-written-as-number", Detail: m, Line: line})
			}
		}
		fresh := reflect.New(tg.ty.Elem())
		derr, p := guard("Unmarshal", func() error { return c.unmarshal(doc, fresh.Interface()) })
		switch {
		case p != "":
			ctx.Res.Violate(report.Violation{Property: "C04", Oracle: "roundtrip", Key: c.name + ":decode-panic:" + panicKey(p), Detail: "decoding the library's own document panicked: " + p, Line: line})
		case derr != nil:
			ctx.Res.Violate(report.Violation{Property: "C04", Oracle: "roundtrip", Key: c.name + ":decode-error:" + errClass(derr), Detail: "the library cannot decode its own document: " + derr.Error(), Line: line})
		default:
			bin2, p := guard("MarshalTTLV", func() []byte { return ttlv.MarshalTTLV(fresh.Interface()) })
			if p != "" || !bytes.Equal(bin, bin2) {
				got, _ := s.Render(fresh, s.Dyns[tg.dyn].Kind)
				ctx.Res.Violate(report.Violation{Property: "C04", Oracle: "binary-identity", Key: c.name + ":binary-differs", Detail: "binary TTLV of the decoded message differs: " + firstDiff(normContent(val), normContent(got)), Line: line})
			}
			// C18 on the library's own output: a second hop is a fixed point
			doc2, _ := guard("Marshal", func() []byte { return c.marshal(fresh.Interface()) })
			if !bytes.Equal(doc, doc2) {
				ctx.Res.Violate(report.Violation{Property: "C18", Oracle: "fixed-point", Key: c.name + ":reencode-differs", Detail: "re-encoding the decoded document differs from the first encoding", Line: line})
			}
		}
		ctx.Add(line, "ok", true, "")
		ctx.Res.Count("text.rt." + c.name)
	}
}

var textRegistry *lexEnv

// textNamesWritten: in a document of a TYPED message every enumeration value and every mask bit the registry has a name
// for is written by that name (the hexadecimal fallback is for unregistered values only): another implementation reads
// names through its own tables, and a writer handed the wrong enumeration (the field's tag instead of the type's)
// still round-trips through this library. The enumeration / mask of an element is its own tag's, the one of the Go type
// of the field where they differ (reflected schema), or for an AttributeValue the one named by the attribute name.
func textNamesWritten(doc []byte) string {
	nodes, err := parseXMLNodes(doc)
	if err != nil || len(nodes) != 1 {
		return ""
	}
	if textRegistry == nil {
		textRegistry = lexNewEnv()
	}
	e := textRegistry
	msg := ""
	vecWalk(nodes[0], func(n, parent *xnode, loc vecLoc) {
		if msg != "" {
			return
		}
		ty, val := n.Attrs["type"], n.Attrs["value"]
		if ty != "Enumeration" && ty != "Integer" {
			return
		}
		tag := 0
		if n.Name == "TTLV" {
			return // unnamed (extension) tag: no table
		}
		tag, _ = vecTagOfName(n.Name)
		et := tag
		if n.Name == "AttributeValue" {
			et = vecAttrEnumTag(loc.attrName)
		} else if a, ok := enumAlias()[tag]; ok {
			et = a
		}
		if et == 0 {
			return
		}
		switch ty {
		case "Enumeration":
			if !strings.HasPrefix(val, "0x") {
				return
			}
			v, err := strconv.ParseUint(val[2:], 16, 32)
			if err != nil {
				return
			}
			for i, rv := range e.enumVals[et] {
				if uint64(rv) == v {
					msg = fmt.Sprintf("<%s> Enumeration %s is written as a number although %s names it %q", n.Name, val, ttlv.TagString(et), e.enumNames[et][i])
				}
			}
		case "Integer":
			names := e.maskNames[et]
			if len(names) == 0 {
				return
			}
			for _, part := range strings.Fields(val) {
				if !strings.HasPrefix(part, "0x") {
					continue
				}
				v, err := strconv.ParseUint(part[2:], 16, 32)
				if err != nil {
					continue
				}
				for bit := 0; bit < len(names) && bit < 32; bit++ {
					if v&(1<<uint(bit)) != 0 && names[bit] != "" {
						msg = fmt.Sprintf("<%s> bit mask %q carries bit %d as a number although %s names it %q", n.Name, val, bit, ttlv.TagString(et), names[bit])
					}
				}
			}
		}
	})
	return msg
}

var errNum = regexp.MustCompile(`[0-9]+|"[^"]*"|0x[0-9A-Fa-f]+`)

func errClass(err error) string {
	s := errNum.ReplaceAllString(err.Error(), "N")
	if len(s) > 80 {
		s = s[:80]
	}
	return s
}

// textDecodeCase: arbitrary (mutated) document into a typed target: C02 (no panic, deterministic) and
// C18 (accepted ⇒ re-encode, decode again, second re-encoding identical).
func textDecodeCase(ctx *Ctx, c textCodec, tg planTarget, doc []byte, origin string) {
	line := fmt.Sprintf("#text.dec %s %d %s", c.name, tg.dyn, hexUp(doc))
	ctx.current = line
	in := append([]byte{}, doc...)
	v1 := reflect.New(tg.ty.Elem())
	err1, p := guard("Unmarshal", func() error { return c.unmarshal(in, v1.Interface()) })
	outcome := "ok"
	switch {
	case p != "":
		outcome = "panic"
		ctx.Res.Violate(report.Violation{Property: "C02", Oracle: "no-panic", Key: c.name + ":decode-panic:" + panicKey(p), Detail: "decoder panicked: " + p + " on " + shortKey(doc), Line: line})
	case err1 != nil:
		outcome = "err"
	}
	if !bytes.Equal(in, doc) {
		ctx.Res.Violate(report.Violation{Property: "C02", Oracle: "input-unmodified", Key: c.name + ":input-modified", Detail: "decoder modified its input", Line: line})
	}
	if outcome == "ok" {
		// determinism
		v2 := reflect.New(tg.ty.Elem())
		err2, p2 := guard("Unmarshal", func() error { return c.unmarshal(in, v2.Interface()) })
		r1, _ := getSchema().Render(v1, getSchema().Dyns[tg.dyn].Kind)
		r2, _ := getSchema().Render(v2, getSchema().Dyns[tg.dyn].Kind)
		if p2 != "" || err2 != nil || r1 != r2 {
			ctx.Res.Violate(report.Violation{Property: "C02", Oracle: "deterministic", Key: c.name + ":second-decode-differs", Detail: "decoding the same document again gives a different result", Line: line})
		}
		// C18: accepted input re-encodes to a fixed point
		doc1, p := guard("Marshal", func() []byte { return c.marshal(v1.Interface()) })
		if p != "" {
			ctx.Res.Violate(report.Violation{Property: "C18", Oracle: "reencode-total", Key: c.name + ":accepted-but-unencodable:" + panicKey(p), Detail: "an accepted input cannot be re-encoded: " + p, Line: line})
		} else {
			v3 := reflect.New(tg.ty.Elem())
			err3, p3 := guard("Unmarshal", func() error { return c.unmarshal(doc1, v3.Interface()) })
			if p3 != "" || err3 != nil {
				ctx.Res.Violate(report.Violation{Property: "C18", Oracle: "redecode", Key: c.name + ":reencoded-not-accepted", Detail: fmt.Sprintf("re-encoding of an accepted input is rejected: %v %s", err3, p3), Line: line})
			} else {
				doc2, _ := guard("Marshal", func() []byte { return c.marshal(v3.Interface()) })
				if !bytes.Equal(doc1, doc2) {
					ctx.Res.Violate(report.Violation{Property: "C18", Oracle: "fixed-point", Key: c.name + ":second-reencode-differs", Detail: "second re-encoding differs from the first", Line: line})
				}
				// through the two other encodings in every order, with value comparison (fix.go)
				for e, fc := range fixCodecs {
					if fc.name == c.name {
						fixOracle(ctx, line, tg, getSchema().Dyns[tg.dyn].GoType, e, v1.Interface())
					}
				}
				// through binary as well
				b1, pb := guard("MarshalTTLV", func() []byte { return ttlv.MarshalTTLV(v1.Interface()) })
				if pb != "" {
					ctx.Res.Violate(report.Violation{Property: "C18", Oracle: "cross-encoding", Key: c.name + "->ttlv:unencodable:" + panicKey(pb), Detail: "accepted " + c.name + " input cannot be encoded in binary: " + pb, Line: line})
				} else {
					vb := reflect.New(tg.ty.Elem())
					if errb, pb := guard("UnmarshalTTLV", func() error { return ttlv.UnmarshalTTLV(b1, vb.Interface()) }); pb != "" || errb != nil {
						ctx.Res.Violate(report.Violation{Property: "C18", Oracle: "cross-encoding", Key: c.name + "->ttlv:not-accepted", Detail: fmt.Sprintf("binary re-encoding of an accepted %s input is rejected: %v %s", c.name, errb, pb), Line: line})
					}
				}
			}
		}
	}
	ctx.Add(line, outcome, true, "")
	ctx.Res.Count("text.dec." + c.name + "." + origin + "." + outcome)
}

var xmlAttrRe = regexp.MustCompile(`(type|value|tag)="([^"]*)"`)

// mutateXML returns lexical mutations of a valid XML document.
func mutateXML(r *rng.R, doc []byte) [][]byte {
	var out [][]byte
	locs := xmlAttrRe.FindAllSubmatchIndex(doc, -1)
	alt := []string{"", "0", "-1", "0x", "0xZZ", "0x80000000", "0xFFFFFFFF", "4294967296", "true", "TRUE", "1", "Foo", "Integer", "Structure", "TextString", "ByteString", "BigInteger", "Interval", "DateTime", "Boolean", "Enumeration", "LongInteger", "A", "ABC", "zz", " ", "1 2", "Sign|Verify", "Sign Verify", "2024-01-01T00:00:00Z", "9223372036854775808", "-9223372036854775809", "0x0000000000000001", "0x00"}
	for k := 0; k < 8 && len(locs) > 0; k++ {
		l := rng.Pick(r, locs)
		m := append([]byte{}, doc[:l[4]]...)
		m = append(m, rng.Pick(r, alt)...)
		m = append(m, doc[l[5]:]...)
		out = append(out, m)
	}
	// drop an attribute entirely
	for k := 0; k < 2 && len(locs) > 0; k++ {
		l := rng.Pick(r, locs)
		m := append([]byte{}, doc[:l[0]]...)
		m = append(m, doc[l[1]:]...)
		out = append(out, m)
	}
	// rename an element
	if i := bytes.Index(doc, []byte("<")); i >= 0 {
		names := regexp.MustCompile(`<([A-Za-z][A-Za-z0-9_]*)`).FindAllSubmatchIndex(doc, -1)
		if len(names) > 0 {
			l := rng.Pick(r, names)
			m := append([]byte{}, doc[:l[2]]...)
			m = append(m, rng.Pick(r, []string{"Foo", "TTLV", "Operation", "BatchItem", "x"})...)
			m = append(m, doc[l[3]:]...)
			out = append(out, m)
		}
	}
	if len(doc) > 0 {
		out = append(out, doc[:r.Intn(len(doc))])
	}
	out = append(out, []byte{}, []byte("<"), []byte("<a/>"), []byte(`<RequestMessage></RequestMessage>`), []byte(`<RequestMessage type="Foo"/>`), []byte(`<TTLV tag="0x420078" type="Integer" value="1"/>`))
	return out
}

// mutateJSON mutates the parsed tree of a valid JSON document.
func mutateJSON(r *rng.R, doc []byte) [][]byte {
	var out [][]byte
	var tree any
	d := json.NewDecoder(bytes.NewReader(doc))
	d.UseNumber()
	if err := d.Decode(&tree); err != nil {
		return nil
	}
	alts := []any{nil, true, json.Number("1"), json.Number("-1"), json.Number("1.5"), json.Number("1e400"), json.Number("4294967296"), json.Number("-9223372036854775809"), "", "0x", "0xZZ", "0x80000000", "Foo", "1", []any{}, []any{json.Number("1")}, []any{"a"}, map[string]any{}, "Integer", "Structure", "Interval", "DateTime", "BigInteger", "2024-01-01T00:00:00Z", "0x0000000000000001"}
	// collect paths to every object
	var objs []map[string]any
	var walk func(v any)
	walk = func(v any) {
		switch x := v.(type) {
		case map[string]any:
			objs = append(objs, x)
			for _, c := range x {
				walk(c)
			}
		case []any:
			for _, c := range x {
				walk(c)
			}
		}
	}
	walk(tree)
	for k := 0; k < 10 && len(objs) > 0; k++ {
		o := rng.Pick(r, objs)
		key := rng.Pick(r, []string{"tag", "type", "value"})
		old, had := o[key]
		switch r.Intn(4) {
		case 0:
			delete(o, key)
		default:
			o[key] = rng.Pick(r, alts)
		}
		if b, err := json.Marshal(tree); err == nil {
			out = append(out, b)
		}
		if had {
			o[key] = old
		} else {
			delete(o, key)
		}
	}
	if len(doc) > 0 {
		out = append(out, doc[:r.Intn(len(doc))])
	}
	out = append(out, []byte{}, []byte("null"), []byte("1"), []byte(`"x"`), []byte("[]"), []byte("[1]"), []byte("{}"), []byte(`{"tag":"RequestMessage","value":[1]}`), []byte(`{"tag":"RequestMessage","value":[null]}`), []byte(`{"tag":"RequestMessage","type":"Foo","value":[]}`), []byte(`{"tag":1,"type":2,"value":3}`))
	return out
}

var injectedChildRe = regexp.MustCompile(` ?\(S 5505025 \(S 5505026 \(I 5505027 1\)\) \([A-Z] [0-9]+ [^()]*\)\)`)

var injectedLeafRe = regexp.MustCompile(` ?\(I 5505028 2\)`)

var (
	xmlCloseRe = regexp.MustCompile(`</[A-Za-z][A-Za-z0-9_]*>\s*`)
	xmlLeafRe  = regexp.MustCompile(`^<[A-Za-z][A-Za-z0-9_]*( [a-z]+="[^"]*")*/>`)
)

// smuggleXML inserts, at the end of some structure, an UNKNOWN structure element whose nested content ends with a
// copy of the element that follows the structure. A decoder that respects structure extents ignores the unknown
// element entirely, so the decoded value must not change.
func smuggleXML(r *rng.R, doc []byte) [][]byte {
	var out [][]byte
	locs := xmlCloseRe.FindAllIndex(doc, -1)
	for k := 0; k < 6 && len(locs) > 0; k++ {
		l := rng.Pick(r, locs)
		follow := xmlLeafRe.Find(doc[l[1]:])
		if follow == nil {
			continue
		}
		inj := `<TTLV tag="0x540001"><TTLV tag="0x540002"><TTLV tag="0x540003" type="Integer" value="1"/></TTLV>` + string(follow) + `</TTLV>`
		// the unknown structure alone, or among other unknown elements: a reader that skips only ONE element its
		// caller left unread (or only leaves, or only the first) hands the content of the next one to the parent
		const leaf = `<TTLV tag="0x540004" type="Integer" value="2"/>`
		switch k % 4 {
		case 1:
			inj = leaf + inj
		case 2:
			inj = leaf + leaf + inj
		case 3:
			inj = leaf + inj + leaf
		}
		m := append([]byte{}, doc[:l[0]]...)
		m = append(m, inj...)
		m = append(m, doc[l[0]:]...)
		out = append(out, m)
	}
	return out
}

// textSmuggleCase: metamorphic C02 oracle for XML structure extents.
func textSmuggleCase(ctx *Ctx, tg planTarget, doc, injected []byte) {
	line := fmt.Sprintf("#text.dec xml %d %s", tg.dyn, hexUp(injected))
	s := getSchema()
	dec := func(b []byte) string {
		v := reflect.New(tg.ty.Elem())
		err, p := guard("UnmarshalXML", func() error { return ttlv.UnmarshalXML(b, v.Interface()) })
		if p != "" {
			return "panic"
		}
		if err != nil {
			return "err"
		}
		r, _ := s.Render(v, s.Dyns[tg.dyn].Kind)
		return "ok " + r
	}
	want, got := dec(doc), dec(injected)
	// inside generically decoded (opaque) content the injected element is legitimately kept as a child: drop it
	got = injectedChildRe.ReplaceAllString(got, "")
	got = injectedLeafRe.ReplaceAllString(got, "")
	if want != got {
		ctx.Res.Violate(report.Violation{Property: "C02", Oracle: "structure-extent", Key: "xml:nested-content-leaks-into-parent", Detail: "an unknown nested structure changes the decoded value: " + firstDiff(want, got), Line: line})
	}
	ctx.Add(line, strings.SplitN(got, " ", 2)[0], true, "")
	ctx.Res.Count("text.smuggle." + strings.SplitN(got, " ", 2)[0])
}

func init() {
	register(&Engine{
		Name: "text",
		Rule: "request/response messages from the schema-directed populator restricted to text representable in XML/JSON and dates in years 1..9999 (all fill levels, versions 1.0-1.4), encoded to XML and JSON by the library, judged by encoding/xml and encoding/json, decoded back and compared through their binary TTLV; lexical mutations of those documents (attribute values/types/tags replaced by alternative and malformed forms, attributes dropped, JSON value kinds swapped, truncation) decoded into the typed targets; distinct = distinct line; nontrivial = all",
		Run:  runText,
	})
}

func runText(ctx *Ctx) {
	// pin what the engine assumes (dates are compared through binary TTLV, i.e. as instants, but the documents are not
	// to depend on the machine's zone); the zone oracle lives in the lex engine
	savedLocal := time.Local
	time.Local = time.UTC
	defer func() { time.Local = savedLocal }()
	s := getSchema()
	r := ctx.R
	reqT := planTarget{s.Roots["RequestMessage"], reflect.TypeFor[*kmip.RequestMessage](), 0}
	respT := planTarget{s.Roots["ResponseMessage"], reflect.TypeFor[*kmip.ResponseMessage](), 0}
	if len(ctx.Replay) > 0 {
		for _, l := range ctx.Replay {
			f := strings.SplitN(l, " ", 4)
			if len(f) != 4 || f[0] != "#text.dec" {
				continue
			}
			tg := reqT
			if f[2] == fmt.Sprint(respT.dyn) {
				tg = respT
			}
			for _, c := range textCodecs {
				if c.name == f[1] {
					if b, err := hexDecode(f[3]); err == nil {
						textDecodeCase(ctx, c, tg, b, "replay")
					}
				}
			}
		}
		return
	}
	n := ctx.N(400, 12000)
	for i := 0; i < n; i++ {
		tg := reqT
		if i%2 == 1 {
			tg = respT
		}
		// XML-representable text for both codecs; every fourth message carries control characters for JSON only
		mode, codecs := 2, textCodecs
		if i%4 == 3 {
			mode, codecs = 1, textCodecs[1:]
		}
		p := &popCfg{r: r, s: s, fill: i % 3, textMode: mode, respectGating: true}
		if i%3 == 2 {
			// text over the whole alphabet of the format, now and then long (buffer growth / aliasing in the writers)
			long := i%60 == 59
			p.strGen = func() string {
				n := r.Intn(14)
				if long && r.Chance(1, 6) {
					n = rng.Pick(r, []int{500, 4096, 5000, 65536, 70000})
					ctx.Res.Count("text.long-string")
				}
				ctx.Res.Count("text.wide-alphabet")
				return string(lexGenText(r, mode, n))
			}
		}
		x := reflect.New(tg.ty.Elem())
		p.populate(x.Elem())
		textRoundTrip(ctx, s, tg, x, codecs)
		if i%2 == 0 {
			for _, c := range codecs {
				doc, pn := guard("Marshal", func() []byte { return c.marshal(x.Interface()) })
				if pn != "" || !utf8.Valid(doc) {
					continue
				}
				var muts [][]byte
				if c.name == "xml" {
					muts = mutateXML(r, doc)
				} else {
					muts = mutateJSON(r, doc)
				}
				for _, m := range muts {
					textDecodeCase(ctx, c, tg, m, "mutated")
				}
				if c.name == "xml" {
					for _, m := range smuggleXML(r, doc) {
						textSmuggleCase(ctx, tg, doc, m)
					}
				}
			}
		}
	}
}

func hexDecode(s string) ([]byte, error) {
	if s == "-" {
		return nil, nil
	}
	return hexDecodeString(s)
}
