/-
  Certificate obligations, parts 32..39 of 64 of the `current` client system (kernel evaluation; 8 modules
  so that lake checks them in parallel; small parts keep the kernel's memory small).
  Assembled in `Lemmas/CliCert.lean`.
-/
import KmipModel.Model.CliConn
import KmipModel.Gen.CertCliConn
namespace Kmip.CliCert
open Kmip.CliLts Kmip.CliConn Kmip.Gen.CertCliConn

theorem cuClosed32 : partClosed (sys current) codec certCurrent cuP32 = true := by decide +kernel
theorem cuSafe32 : partSafe codec (badPartial current) cuP32 = true := by decide +kernel
theorem cuClosed33 : partClosed (sys current) codec certCurrent cuP33 = true := by decide +kernel
theorem cuSafe33 : partSafe codec (badPartial current) cuP33 = true := by decide +kernel
theorem cuClosed34 : partClosed (sys current) codec certCurrent cuP34 = true := by decide +kernel
theorem cuSafe34 : partSafe codec (badPartial current) cuP34 = true := by decide +kernel
theorem cuClosed35 : partClosed (sys current) codec certCurrent cuP35 = true := by decide +kernel
theorem cuSafe35 : partSafe codec (badPartial current) cuP35 = true := by decide +kernel
theorem cuClosed36 : partClosed (sys current) codec certCurrent cuP36 = true := by decide +kernel
theorem cuSafe36 : partSafe codec (badPartial current) cuP36 = true := by decide +kernel
theorem cuClosed37 : partClosed (sys current) codec certCurrent cuP37 = true := by decide +kernel
theorem cuSafe37 : partSafe codec (badPartial current) cuP37 = true := by decide +kernel
theorem cuClosed38 : partClosed (sys current) codec certCurrent cuP38 = true := by decide +kernel
theorem cuSafe38 : partSafe codec (badPartial current) cuP38 = true := by decide +kernel
theorem cuClosed39 : partClosed (sys current) codec certCurrent cuP39 = true := by decide +kernel
theorem cuSafe39 : partSafe codec (badPartial current) cuP39 = true := by decide +kernel

end Kmip.CliCert
