package main

import (
	"bytes"
	"errors"
	"fmt"
	"io"
	"log/slog"
	"os"
	"os/exec"
	"path/filepath"
	"regexp"
	"runtime"
	"strings"
	"time"

	"github.com/ovh/kmip-go/kmipserver"
	"github.com/ovh/kmip-go/ttlv"

	"verifharness/internal/model"
	"verifharness/internal/report"
	"verifharness/internal/rng"
	sr "verifharness/internal/streamrun"
	"verifharness/internal/tree"
)

type readEv = sr.ReadEv

// what the generator knows about a case (nil in replay: only the input-independent oracles run).
type streamExpect struct {
	msgs      []*tree.Item // the complete messages at the front of the wire
	lens      []int
	clean     bool   // every read delivers >= 1 byte and only frame-completing reads carry an error: every complete message must be delivered
	truncated bool   // the wire ends inside a message
	tooBig    bool   // what follows msgs is a header announcing more than max
	announced uint64 // the announced padded size of that header (8 + padded length)
	implOnly  bool   // zero-length reads, or errors on reads that do not complete a frame: the property does not pin whether such a call fails or carries on (io.ReadFull would carry on), only that nothing wrong is delivered or consumed — checked by the oracles, not compared with the model
	class     string
}

func c07(ctx *Ctx, oracle, key, detail, line string) {
	ctx.Res.Violate(report.Violation{Property: "C07", Oracle: oracle, Key: key, Detail: detail, Line: line})
}

// bytes a rejecting Recv may allocate: its 512-byte buffer, the error value, the decode target. Far below
// any announced size the bounded-buffering cases use (>= 64 KiB above the limit).
const rejectAllocBudget = 16 << 10

// streamCase runs Recv repeatedly over the scheduled transport, checks the property on what the real code
// did, and registers the canonical outcome for comparison with the model.
func streamCase(ctx *Ctx, max int, wire []byte, sched []readEv, exp *streamExpect) (line, impl string) {
	if exp != nil && exp.tooBig && exp.announced > 1<<26 && ctx.Res.Distribution["stream.reject.allocated"] >= 3 {
		// the code under test allocates what oversized headers announce (already reported, with inputs):
		// do not make it allocate gigabytes a few hundred times more
		ctx.Res.Count("stream.skipped-after-allocation-violations")
		return "", ""
	}
	ctx.current = sr.Line(max, 0, wire, sched)
	measure := exp != nil && exp.tooBig
	var recvs []sr.Recv
	var more bool
	var tr *sr.Transport
	_, p := guard("Recv", func() int {
		recvs, more, tr = sr.Run(max, wire, sched, sr.Options{MeasureAlloc: measure})
		return 0
	})
	line = sr.LineC(max, sr.C0s(recvs), wire, sched)
	if exp != nil && exp.implOnly {
		line = "#" + line
	}
	if p != "" { // cannot happen: Run recovers; kept so that a harness bug is not mistaken for a pass
		ctx.Res.Fail("stream: harness panic: " + p)
		return line, ""
	}
	got := 0
	for i := range recvs {
		r := &recvs[i]
		switch r.Kind {
		case "panic":
			c07(ctx, "no-panic", "stream:panic "+panicKey(r.Panic), "Recv panicked: "+r.Panic, line)
			// Recv decodes what it framed: a panic is a decoder robustness failure as well
			ctx.Res.Violate(report.Violation{Property: "C02", Oracle: "no-panic", Key: "stream:panic " + panicKey(r.Panic), Detail: r.Panic, Line: line})
		case "m":
			if exp != nil && got < len(exp.msgs) {
				it, cerr := fromValue(r.Value)
				if cerr != nil || !tree.Equal(it, exp.msgs[got]) {
					c07(ctx, "message-content", "stream:wrong-message", fmt.Sprintf("Recv #%d returned a different message than sent", got), line)
				}
				if r.Consumed != exp.lens[got] {
					c07(ctx, "exact-consumption", "stream:consumed-wrong-count", fmt.Sprintf("Recv #%d consumed %d bytes for a %d byte message", got, r.Consumed, exp.lens[got]), line)
				}
			} else if exp != nil {
				what := "the stream holds no further complete message"
				if exp.tooBig {
					what = fmt.Sprintf("the next header announces %d bytes with max=%d", exp.announced, max)
				}
				c07(ctx, "no-message-from-partial", "stream:message-from-incomplete-data", "Recv returned a message although "+what, line)
			}
			got++
		case "err":
			if exp != nil && got < len(exp.msgs) {
				// the failing call was working on message #got: it must not have touched the following one
				if r.Consumed > exp.lens[got] {
					c07(ctx, "exact-consumption", "stream:error-consumed-next-message", fmt.Sprintf("failing Recv #%d consumed %d bytes, the message has %d", got, r.Consumed, exp.lens[got]), line)
				}
			}
			if exp != nil && exp.tooBig && got == len(exp.msgs) {
				// "rejected without buffering the announced amount"
				if r.Consumed > 8 {
					c07(ctx, "bounded-buffering", "stream:too-big-buffered", fmt.Sprintf("header announcing %d bytes (max=%d) rejected only after consuming %d bytes", exp.announced, max, r.Consumed), line)
				}
				if exp.clean && max >= 8 && r.Consumed != 8 {
					c07(ctx, "bounded-buffering", "stream:too-big-not-after-header", fmt.Sprintf("header announcing %d bytes (max=%d): the rejecting call consumed %d bytes, expected exactly the header", exp.announced, max, r.Consumed), line)
				}
				if r.RealCap != r.C0 {
					c07(ctx, "bounded-buffering", "stream:too-big-buffer-grown", fmt.Sprintf("header announcing %d bytes (max=%d): receive buffer grown from %d to %d bytes before the rejection", exp.announced, max, r.C0, r.RealCap), line)
				}
				if measure && r.Alloc > rejectAllocBudget && exp.announced > 4*rejectAllocBudget {
					c07(ctx, "bounded-buffering", "stream:too-big-allocated", fmt.Sprintf("header announcing %d bytes (max=%d): the rejecting Recv allocated %d bytes", exp.announced, max, r.Alloc), line)
					ctx.Res.Count("stream.reject.allocated")
				}
				ctx.Res.Count("stream.reject.measured")
			}
		}
		// the model's `cap` is the capacity REQUESTED; the real one may be rounded up by Grow, never by much
		if r.Reads > 0 && (r.RealCap < r.ReqCap || r.MaxCap > 2*r.ReqCap+8192) {
			c07(ctx, "bounded-buffering", "stream:capacity-not-proportional", fmt.Sprintf("receive buffer capacity %d (largest %d) for a requested size of %d", r.RealCap, r.MaxCap, r.ReqCap), line)
		}
		if max > 0 && r.MaxCap > 2*maxInt(r.C0, max)+8192 {
			c07(ctx, "bounded-buffering", "stream:capacity-exceeds-max", fmt.Sprintf("receive buffer capacity %d with max=%d", r.MaxCap, max), line)
		}
	}
	if max > 0 && tr.MaxReq > max && tr.MaxReq > 8 {
		c07(ctx, "bounded-buffering", "stream:read-request-exceeds-max", fmt.Sprintf("a Read of %d bytes was requested with max=%d", tr.MaxReq, max), line)
	}
	final := "more"
	if !more && len(recvs) > 0 {
		final = recvs[len(recvs)-1].Kind
	}
	if exp != nil && exp.clean && got < len(exp.msgs) {
		c07(ctx, "all-delivered", "stream:message-lost", fmt.Sprintf("only %d of %d complete messages were delivered (%s)", got, len(exp.msgs), final), line)
	}
	impl = sr.Render(recvs, more, tr.Pos)
	ctx.Add(line, impl, len(wire) > 8, "C07")
	ctx.Res.Count("stream.final=" + final)
	ctx.Res.Count(fmt.Sprintf("stream.msgs=%d", min(got, 5)))
	if exp != nil && exp.class != "" {
		ctx.Res.Count("stream.class=" + exp.class)
	}
	for i := range recvs {
		if recvs[i].RealCap != recvs[i].C0 {
			ctx.Res.Count("stream.buffer-grown")
			break
		}
	}
	return line, impl
}

// anyWireOracle states theorem recvC_any_wire on the real code, for a wire about which nothing is assumed.
func anyWireOracle(ctx *Ctx, max int, wire []byte, sched []readEv) {
	var recvs []sr.Recv
	ctx.current = sr.Line(max, 0, wire, sched)
	guard("Recv", func() int {
		recvs, _, _ = sr.Run(max, wire, sched, sr.Options{})
		return 0
	})
	line := sr.LineC(max, sr.C0s(recvs), wire, sched)
	start := 0
	for i, rc := range recvs {
		if rc.Kind == "panic" {
			break // reported by streamCase
		}
		left := wire[min(start, len(wire)):]
		if len(left) >= 8 {
			frame := int(paddedNeed(uint32(left[4])<<24 | uint32(left[5])<<16 | uint32(left[6])<<8 | uint32(left[7])))
			if rc.Consumed > frame {
				c07(ctx, "exact-consumption", "stream:any-wire-consumed-beyond-frame", fmt.Sprintf("Recv #%d (%s) consumed %d bytes, its header announces a frame of %d", i, rc.Kind, rc.Consumed, frame), line)
			}
			if rc.Kind == "m" && rc.Consumed != frame {
				c07(ctx, "exact-consumption", "stream:any-wire-message-not-one-frame", fmt.Sprintf("Recv #%d returned a message having consumed %d bytes, its header announces a frame of %d", i, rc.Consumed, frame), line)
			}
			if rc.Kind == "m" && max > 0 && rc.Consumed > max {
				c07(ctx, "limit", "stream:any-wire-message-above-limit", fmt.Sprintf("Recv #%d returned a message of %d bytes with max=%d", i, rc.Consumed, max), line)
			}
		} else if rc.Kind == "m" {
			c07(ctx, "no-message-from-partial", "stream:message-from-incomplete-data", fmt.Sprintf("Recv #%d returned a message from %d remaining bytes", i, len(left)), line)
		}
		start += rc.Consumed
	}
}

func maxInt(a, b int) int {
	if a > b {
		return a
	}
	return b
}

func init() {
	register(&Engine{
		Name: "stream",
		Rule: "sequences of 1..4 generic TTLV messages (written by Stream.Send or by the independent encoder) on a scripted transport x read schedules (1-byte reads, random chunk sizes, boundary-spanning chunks, data returned together with an error on the frame-completing read of any message, zero-length reads and errors at random points [impl-only: safety oracles], error-free exhausted schedule) x truncation at random offsets x max in {<0, 0, server limit (probed on a real kmipserver), largest message, small} x announced lengths around the max and up to 2^32-1 (allocation measured) x sequences of 2..17 messages on ONE stream whose sizes grow, shrink, alternate, repeat or jump around the points where the receive buffer has to grow (the initial 512 bytes, the allocator's size classes up to 64 KiB and +-8/16 bytes around them, page-granular sizes up to the server limit): all ordered pairs of such sizes, shaped sequences of 3..17, medium and small messages after a very large one, each under one of seven clean chunkings (whole reads, 1-byte, small / large random chunks, a fixed record size, header split + body, error on the completing read) and one of four limits x wires about which nothing is assumed (random bytes, plausible headers with too few / too many bytes, valid messages followed by junk, one damaged header or body byte; with a limit whenever a frame start announces more than 1 MiB) compared call by call with the model and judged by theorem recvC_any_wire read on the real code (a call never consumes beyond the frame its own header announces, a returned message has consumed exactly that frame and is not above the limit) x the same lines on a GOARCH=386 build; distinct = distinct line; nontrivial = wire longer than one header",
		Run:  runStream,
	})
}

func hdrAnnouncing(l uint32) []byte {
	return []byte{0x42, 0x00, 0x01, 0x08, byte(l >> 24), byte(l >> 16), byte(l >> 8), byte(l)}
}

func paddedNeed(l uint32) uint64 { return 8 + (uint64(l)+7)/8*8 }

// sendWire writes the messages through Stream.Send ("messages written to a TTLV stream") and checks that
// each Send issued exactly the bytes of the message.
func sendWire(ctx *Ctx, msgs []*tree.Item) []byte {
	tr := &sr.Transport{}
	st := ttlv.NewStream(tr, 0)
	var wire []byte
	for i, m := range msgs {
		v := toValue(m)
		before := len(tr.Written)
		err, p := guard("Send", func() error { return st.Send(&v) })
		var out []byte
		for _, w := range tr.Written[before:] {
			out = append(out, w...)
		}
		// the sender side of the model (theorems send_is_one_frame / stream_transports_items): what Send
		// wrote is what the model's writer `enc` gives for this item
		if p == "" && err == nil {
			ctx.Add("wire.enc "+m.Render(), "ok "+hexUp(out), m.Size() > 1, "C07")
		}
		if p != "" || err != nil || !bytes.Equal(out, m.Encode()) {
			c07(ctx, "send-bytes", "stream:send-wrong-bytes", fmt.Sprintf("Send #%d: panic=%q err=%v wrote %d bytes, the message encodes to %d", i, p, err, len(out), len(m.Encode())), "# stream.send "+hexUp(m.Encode()))
			out = m.Encode()
		}
		wire = append(wire, out...)
	}
	ctx.Res.Count("stream.wire-by-Send")
	return wire
}

func runStream(ctx *Ctx) {
	slog.SetDefault(slog.New(slog.NewTextHandler(io.Discard, nil)))
	if len(ctx.Replay) > 0 {
		var lines, impls []string
		for _, l := range ctx.Replay {
			if max, _, wire, sched, ok := sr.ParseLine(l); ok {
				line, impl := streamCase(ctx, max, wire, sched, nil)
				lines, impls = append(lines, strings.TrimPrefix(line, "#")), append(impls, impl)
			}
		}
		arch32(ctx, lines, impls)
		return
	}
	r := ctx.R
	opts := tree.GenOpts{MaxDepth: 3, MaxChildren: 4, MaxData: 30, MaxBigBits: 128}
	// every stream.recv line is answered from the line alone: the lines may be spread over several model processes
	model.Workers = max(1, min(6, runtime.NumCPU()/2))

	// the limit the server configures (kmipserver/conn.go), observed on a real server
	srvMax := probeServerLimit(ctx)

	var lines32 []string
	var impl32 []string
	run := func(max int, wire []byte, sched []readEv, exp *streamExpect) {
		line, impl := streamCase(ctx, max, wire, sched, exp)
		if len(wire) <= 1<<16 && impl != "" {
			lines32 = append(lines32, strings.TrimPrefix(line, "#"))
			impl32 = append(impl32, impl)
		}
	}

	n := ctx.N(1200, 40000)
	for i := 0; i < n; i++ {
		nm := 1 + r.Intn(4)
		exp := &streamExpect{clean: true}
		for j := 0; j < nm; j++ {
			t := tree.Gen(r, opts, 0)
			if i%20 == 7 && j == i/20%nm { // a message bigger than the initial buffer, at any position
				t = &tree.Item{Kind: tree.KBytes, Tag: 0x420001, Data: r.Bytes(500 + r.Intn(3000))}
			}
			exp.msgs = append(exp.msgs, t)
			exp.lens = append(exp.lens, len(t.Encode()))
		}
		var wire []byte
		if r.Chance(1, 4) {
			wire = sendWire(ctx, exp.msgs)
		} else {
			for _, m := range exp.msgs {
				wire = append(wire, m.Encode()...)
			}
		}
		largest := 0
		for _, l := range exp.lens {
			largest = maxInt(largest, l)
		}
		max := 0
		switch r.Intn(6) {
		case 0:
			max = srvMax
		case 1: // exactly the largest message
			max = largest
		case 2: // what the client passes: no limit
			max = -1
		case 3:
			max = -1 - r.Intn(1<<20)
		}
		// schedule
		var sched []readEv
		switch k := r.Intn(8); k {
		case 0: // exhausted schedule: every read returns all that is requested
			exp.class = "sched-none"
		case 1: // 1-byte reads
			exp.class = "sched-1byte"
			for k := 0; k < len(wire); k++ {
				sched = append(sched, readEv{K: 1})
			}
		case 2, 3: // random chunks
			exp.class = "sched-chunks"
			for k := 0; k < len(wire); k++ {
				sched = append(sched, readEv{K: 1 + r.Intn(24)})
			}
		case 4: // last bytes of the wire delivered together with an error (io.EOF-like)
			exp.class = "sched-eof-last"
			for j, l := range exp.lens { // header, then the whole body; the very last read carries the error
				last := j == nm-1
				if l == 8 {
					sched = append(sched, readEv{K: 8, WithErr: last})
					continue
				}
				sched = append(sched, readEv{K: 8}, readEv{K: 1 << 20, WithErr: last})
			}
		case 5: // the read that completes message j (any j, possibly several) carries an error
			exp.class = "sched-err-on-completion"
			flagged := map[int]bool{r.Intn(nm): true}
			if r.Bool() {
				flagged[r.Intn(nm)] = true
			}
			for j, l := range exp.lens {
				// header in 1..3 reads, body in 0..3 reads; the last read of the frame is flagged
				var ks []int
				left := 8
				for left > 0 {
					k := 1 + r.Intn(left)
					ks = append(ks, k)
					left -= k
				}
				left = l - 8
				for left > 0 {
					k := 1 + r.Intn(left)
					if r.Bool() {
						k = left
					}
					ks = append(ks, k)
					left -= k
				}
				for x, k := range ks {
					last := x == len(ks)-1
					if last && r.Bool() {
						k += r.Intn(1 << 16) // asks for more than the frame needs: capped by the request
					}
					sched = append(sched, readEv{K: k, WithErr: last && flagged[j]})
				}
			}
		case 6: // errors at random points
			exp.class = "sched-random-errors"
			exp.clean = false
			exp.implOnly = true
			for k := 0; k < len(wire)/4+2; k++ {
				e := readEv{K: 1 + r.Intn(16)}
				if r.Chance(1, 12) {
					e.WithErr = true
				}
				sched = append(sched, e)
			}
		case 7: // zero-length reads (with and without error) at random points
			exp.class = "sched-zero-reads"
			exp.clean = false
			exp.implOnly = true
			z := 0
			for k := 0; k < len(wire)/4+2; k++ {
				e := readEv{K: 1 + r.Intn(16)}
				if r.Chance(1, 8) {
					e.K = 0
					e.WithErr = r.Chance(1, 3)
					z++
				}
				sched = append(sched, e)
			}
			if z == 0 {
				sched[r.Intn(len(sched))].K = 0
			}
		}
		// variations of the wire
		switch r.Intn(5) {
		case 0: // truncate inside the last message
			last := exp.lens[nm-1]
			cut := len(wire) - last + r.Intn(last)
			wire = wire[:cut]
			exp.msgs, exp.lens = exp.msgs[:nm-1], exp.lens[:nm-1]
			exp.truncated = true
		case 1: // followed by an oversized announcement, close to the limit or far above it
			if max > 0 {
				var l uint32
				switch r.Intn(3) {
				case 0:
					l = uint32(max - 8 + 1 + r.Intn(16))
				case 1:
					l = uint32(max) + uint32(r.Intn(1<<26))
				default:
					l = rng.Pick(r, hugeLens)
				}
				if paddedNeed(l) > uint64(max) {
					wire = append(wire, hdrAnnouncing(l)...)
					wire = append(wire, r.Bytes(64)...)
					exp.tooBig, exp.announced = true, paddedNeed(l)
				}
			}
		}
		run(max, wire, sched, exp)
	}

	// ANY wire (theorem recvC_any_wire): garbage, half frames, lying headers, valid messages with a damaged
	// header, valid messages followed by junk — no expectation about what is delivered, only (a) the model's
	// answer call by call (outcome, transport position, requested capacity) and (b) the theorem read on the
	// real code: a call never consumes more than the frame its own header announces, a call that returns a
	// message has consumed exactly that frame, and no message above the limit is returned.
	nAny := ctx.N(600, 12000)
	for i := 0; i < nAny; i++ {
		var wire []byte
		switch r.Intn(5) {
		case 0: // random bytes
			wire = r.Bytes(r.Intn(72))
		case 1: // a plausible header with a small random length, followed by too few / enough / too many bytes
			l := r.Intn(40)
			wire = []byte{0x42, 0x00, byte(r.Intn(256)), byte(1 + r.Intn(10)), 0, 0, 0, byte(l)}
			wire = append(wire, r.Bytes(r.Intn(64))...)
		case 2: // valid messages followed by junk
			for j := r.Intn(3); j >= 0; j-- {
				wire = append(wire, tree.Gen(r, opts, 0).Encode()...)
			}
			wire = append(wire, r.Bytes(1+r.Intn(24))...)
		case 3: // a valid message with one damaged header byte (tag, type or length), then another message
			wire = tree.Gen(r, opts, 0).Encode()
			wire[r.Intn(8)] ^= byte(1 << r.Intn(8))
			wire = append(wire, tree.Gen(r, opts, 0).Encode()...)
		default: // a valid message whose body is damaged (decoding fails after correct framing), then another
			wire = tree.Gen(r, opts, 0).Encode()
			if len(wire) > 8 {
				wire[8+r.Intn(len(wire)-8)] ^= byte(1 << r.Intn(8))
			}
			wire = append(wire, tree.Gen(r, opts, 0).Encode()...)
		}
		max := []int{-1, 0, 8, 24, 64, 200, srvMax}[r.Intn(7)]
		var sched []readEv
		switch r.Intn(3) {
		case 1:
			for k := 0; k < len(wire); k++ {
				sched = append(sched, readEv{K: 1})
			}
		case 2:
			for k := 0; k < len(wire); k++ {
				sched = append(sched, readEv{K: 1 + r.Intn(24)})
			}
		}
		// without a limit Recv allocates whatever a header announces (by design; the property speaks about a
		// CONFIGURED maximum): a wire on which some frame start announces more than 1 MiB gets the server's limit
		for pos := 0; pos+8 <= len(wire) && max <= 0; {
			need := paddedNeed(uint32(wire[pos+4])<<24 | uint32(wire[pos+5])<<16 | uint32(wire[pos+6])<<8 | uint32(wire[pos+7]))
			if need > 1<<20 {
				max = srvMax
			}
			pos += int(need)
		}
		anyWireOracle(ctx, max, wire, sched)
		run(max, wire, sched, nil)
		ctx.Res.Count("stream.class=any-wire")
	}

	// announcements far above the limit: 2^31 and 2^32 boundaries, after 0..2 valid messages, every
	// schedule class; the rejecting call must consume 8 bytes, keep its buffer and allocate next to nothing.
	limits := []int{srvMax, 1 << 20, 65536, 512, 24, 8} // a limit below the header size rejects everything; when exactly is not pinned
	for _, max := range limits {
		for _, l := range hugeLens {
			if paddedNeed(l) <= uint64(max) {
				continue
			}
			for variant := 0; variant < ctx.N(3, 8); variant++ {
				exp := &streamExpect{clean: true, tooBig: true, announced: paddedNeed(l), class: "huge-announcement"}
				var wire []byte
				for j := 0; j < variant%3; j++ {
					t := tree.Gen(r, opts, 0)
					if len(t.Encode()) > max {
						break
					}
					exp.msgs = append(exp.msgs, t)
					exp.lens = append(exp.lens, len(t.Encode()))
					wire = append(wire, t.Encode()...)
				}
				wire = append(wire, hdrAnnouncing(l)...)
				wire = append(wire, r.Bytes(8*r.Intn(9))...)
				var sched []readEv
				switch variant % 4 {
				case 1:
					for k := 0; k < len(wire); k++ {
						sched = append(sched, readEv{K: 1})
					}
				case 2:
					for k := 0; k < len(wire); k++ {
						sched = append(sched, readEv{K: 1 + r.Intn(12)})
					}
				case 3:
					sched = []readEv{{K: 4}, {K: 1 << 30}, {K: 1 << 30}, {K: 1 << 30}}
				}
				run(max, wire, sched, exp)
			}
		}
	}
	// without a limit a large announcement is followed: the buffer grows for it (that is what "no limit"
	// means) and the truncated stream ends in an error
	for _, max := range []int{0, -1} {
		for _, l := range []uint32{4096, 1 << 16, 1<<20 + 8, 1 << 22} {
			exp := &streamExpect{clean: true, truncated: true, class: "nolimit-large-truncated"}
			wire := append(hdrAnnouncing(l), r.Bytes(64)...)
			run(max, wire, nil, exp)
		}
	}

	// large messages: buffer growth far beyond the initial capacity, up to the server's limit
	sizes := []int{513, 4096, 65536, 73720, 73729, 100000, 300000}
	if ctx.Thor {
		sizes = append(sizes, 600000, srvMax-8, srvMax)
	}
	for _, sz := range sizes {
		big := &tree.Item{Kind: tree.KBytes, Tag: 0x420001, Data: r.Bytes(sz - 8)} // encodes to sz bytes when sz%8 == 0
		small := tree.Gen(r, opts, 0)
		bl, sl := len(big.Encode()), len(small.Encode())
		wire := append(big.Encode(), small.Encode()...)
		for _, max := range []int{0, -1, srvMax, bl} {
			if max > 0 && (bl > max || sl > max) {
				continue
			}
			if !ctx.Thor && sz > 1<<16 && (max == -1 || max == bl) { // keep the quick tier's volume down
				continue
			}
			exp := func(class string) *streamExpect {
				return &streamExpect{clean: true, msgs: []*tree.Item{big, small}, lens: []int{bl, sl}, class: class}
			}
			run(max, wire, nil, exp("large"))
			run(max, wire, []readEv{{K: 8}, {K: 1000}, {K: 65536}, {K: 7}, {K: 1 << 20}, {K: 1 << 20}, {K: 1 << 20}, {K: 1 << 20}, {K: 1 << 20}}, exp("large"))
			// the read completing the large (grown-buffer) message carries an error; so does the one completing the small one
			run(max, wire, []readEv{{K: 8}, {K: bl / 2}, {K: 1 << 30, WithErr: true}, {K: 8}, {K: 1 << 30, WithErr: true}}, exp("large-err-on-completion"))
			run(max, wire, []readEv{{K: 3}, {K: 5}, {K: 1 << 30, WithErr: true}, {K: 1 << 30, WithErr: sl == 8}, {K: 1 << 30, WithErr: true}}, exp("large-err-on-completion"))
		}
	}
	// sequences of messages of growing / shrinking / alternating sizes on one stream (stream_seq.go)
	streamSizeSequences(ctx, srvMax, run)

	// announced lengths around the limit, exhaustively near the boundary
	// (limits that are not a multiple of 8 as well: the limit applies to the padded size of the message, so with
	// max = 1001 a value of 993 bytes — 8 + 993 = 1001, but 1008 bytes on the wire — is over the limit)
	for _, max := range []int{16, 24, 512, 520, 1024, srvMax, 13, 21, 515, 1001, 1029, srvMax - 3} {
		for l := max - 24; l <= max+8; l++ {
			if l < 0 || (max > 1<<16 && !ctx.Thor && l < max-9 && l != max-16) {
				continue
			}
			body := (l + 7) / 8 * 8
			exp := &streamExpect{class: "boundary"}
			var wire []byte
			if 8+body > max {
				exp.tooBig, exp.clean, exp.announced = true, true, uint64(8+body)
				wire = append(hdrAnnouncing(uint32(l)), make([]byte, min(body, 4096))...)
			} else {
				wire = append(hdrAnnouncing(uint32(l)), make([]byte, body)...)
			}
			wire = append(wire, tree.Gen(r, opts, 0).Encode()...)
			if !exp.tooBig {
				exp = nil // an all-zero byte string body: accepted, decoded by the generic decoder; the model says what follows
			}
			run(max, wire, nil, exp)
		}
	}
	// class floors: a generator change that silently stops producing a class is a harness error
	for _, c := range []string{"stream.class=huge-announcement", "stream.class=sched-err-on-completion", "stream.class=sched-zero-reads", "stream.class=large-err-on-completion", "stream.reject.measured", "stream.wire-by-Send", "stream.buffer-grown",
		"stream.class=seq-pair", "stream.class=seq-increasing", "stream.class=seq-decreasing", "stream.class=seq-alternating", "stream.class=seq-sawtooth", "stream.class=seq-repeated", "stream.class=seq-around-edges", "stream.class=seq-after-huge",
		"stream.seq.growths=2", "stream.seq.growths=3", "stream.seq.growths=4", "stream.seq.sched=1byte", "stream.seq.sched=err-on-completion"} {
		if ctx.Res.Distribution[c] < 10 {
			ctx.Res.Fail(fmt.Sprintf("stream: input class %s has only %d cases", c, ctx.Res.Distribution[c]))
		}
	}

	arch32(ctx, lines32, impl32)
}

// announced lengths at the edges of 31/32-bit arithmetic (padded sizes 2^31-8 … 2^32).
var hugeLens = []uint32{
	1 << 24, 1 << 26, 0x7FFFFFE8, 0x7FFFFFF0, 0x7FFFFFF1, 0x7FFFFFF7, 0x7FFFFFF8, 0x7FFFFFF9, 0x7FFFFFFF,
	0x80000000, 0x80000001, 0x80000008, 0xC0000000, 0xFFFFFFF0, 0xFFFFFFF1, 0xFFFFFFF7, 0xFFFFFFF8, 0xFFFFFFF9, 0xFFFFFFFE, 0xFFFFFFFF,
}

// ---- the server's limit -----------------------------------------------------------------------------------

// probeServerLimit finds, on a real kmipserver over an in-memory connection (nothing is buffered: a Write
// returns how many bytes the peer consumed), the largest announced message size the server accepts
// (kmipserver/conn.go passes it to ttlv.NewStream). A header announcing `need` bytes is written followed by at
// most 4 KiB of the body: a server that accepts the header consumes all of it (and waits for the rest); a server
// that rejects it answers with an error response and closes, having consumed the header and at most one more
// 8-byte "frame" of the filler. No large body is ever sent, so probing costs the same whatever the limit is.
func probeServerLimit(ctx *Ctx) int {
	const fallback = 1 << 20
	const ceiling = 64 << 20
	l := newMemListener()
	srv := kmipserver.NewServer(l, kmipserver.NewBatchExecutor())
	go func() { _ = srv.Serve() }()
	defer func() {
		done := make(chan struct{})
		go func() { _ = srv.Shutdown(); close(done) }()
		select {
		case <-done:
		case <-time.After(10 * time.Second):
			ctx.Res.Fail("stream: probe server did not shut down")
		}
	}()
	id := 0
	accepts := func(need int) (bool, error) {
		id++
		c, err := l.dial(id, 5*time.Second)
		if err != nil {
			return false, err
		}
		defer c.Close()
		payload := append(hdrAnnouncing(uint32(need-8)), make([]byte, min(need-8, 4096))...)
		go func() { _, _ = io.Copy(io.Discard, c) }() // let the server write its answer
		wrote := make(chan int, 1)
		go func() { n, _ := c.Write(payload); wrote <- n }()
		select {
		case n := <-wrote:
			if n == len(payload) {
				return true, nil
			}
			if n > 16 {
				return false, fmt.Errorf("a server announcing %d bytes consumed %d of %d bytes and closed", need, n, len(payload))
			}
			return false, nil
		case <-time.After(20 * time.Second):
			return false, errors.New("the server neither consumed the data nor closed the connection")
		}
	}
	fail := func(err error) int {
		ctx.Res.Fail("stream: probing the server limit: " + err.Error())
		return fallback
	}
	if ok, err := accepts(ceiling + 8); err != nil {
		return fail(err)
	} else if ok {
		c07(ctx, "server-limit", "stream:server-without-limit", fmt.Sprintf("a kmipserver connection accepts a header announcing a %d byte message and starts buffering it: no effective size limit is configured (kmipserver/conn.go)", ceiling+8), "# stream.server-limit")
		return fallback
	}
	if ok, err := accepts(32); err != nil {
		return fail(err)
	} else if !ok {
		c07(ctx, "server-limit", "stream:server-rejects-everything", "a kmipserver connection rejects a header announcing a 32 byte message", "# stream.server-limit")
		return fallback
	}
	lo, hi := 32, ceiling+8 // lo accepted, hi rejected, both multiples of 8
	for hi-lo > 8 {
		mid := (lo + (hi-lo)/2) / 8 * 8
		ok, err := accepts(mid)
		if err != nil {
			return fail(err)
		}
		if ok {
			lo = mid
		} else {
			hi = mid
		}
	}
	ctx.Res.Count(fmt.Sprintf("stream.server-limit=%d", lo))
	return lo
}

// ---- 32-bit build ---------------------------------------------------------------------------------------------

var capsRe = regexp.MustCompile(`:\d+`)

// arch32 evaluates the same lines on the library built for GOARCH=386 (int is 32 bits wide: the announced
// length is an unsigned 32-bit value) and requires the same answers. Skipped, and counted as such, where a
// 386 binary cannot be built or executed.
func arch32(ctx *Ctx, lines, impls []string) {
	if os.Getenv("VERIF_STREAM_NO32") != "" || len(lines) == 0 {
		ctx.Res.Count("stream.arch32=disabled")
		return
	}
	bin := filepath.Join(os.TempDir(), fmt.Sprintf("stream32-%d", os.Getpid()))
	defer os.Remove(bin)
	build := exec.Command("go", "build", "-tags", "verif", "-o", bin, "./cmd/stream32")
	build.Env = append(os.Environ(), "GOARCH=386", "GOOS=linux", "CGO_ENABLED=0")
	if _, err := os.Stat("cmd/stream32"); err != nil {
		if exe, e2 := os.Executable(); e2 == nil { // .work/bin*/harness -> <verif>/go
			build.Dir = filepath.Join(filepath.Dir(exe), "..", "..", "go")
		}
	}
	if out, err := build.CombinedOutput(); err != nil {
		ctx.Res.Count("stream.arch32=unavailable(build)")
		fmt.Fprintf(os.Stderr, "stream: GOARCH=386 build unavailable: %v: %s\n", err, truncate(string(out), 400))
		return
	}
	cmd := exec.Command(bin)
	cmd.Stdin = strings.NewReader(strings.Join(lines, "\n") + "\n")
	var stderr bytes.Buffer
	cmd.Stderr = &stderr
	out, err := cmd.Output()
	answers := strings.Split(strings.TrimRight(string(out), "\n"), "\n")
	if err != nil && len(out) == 0 {
		var ee *exec.ExitError
		if !errors.As(err, &ee) { // could not be started: no 32-bit execution support on this machine
			ctx.Res.Count("stream.arch32=unavailable(exec)")
			fmt.Fprintf(os.Stderr, "stream: GOARCH=386 binary cannot be executed: %v\n", err)
			return
		}
	}
	for i, line := range lines {
		if i >= len(answers) || answers[i] == "" {
			c07(ctx, "arch32", "stream:32bit-crash", "the GOARCH=386 build did not answer (crashed): "+truncate(stderr.String(), 300), line)
			break
		}
		a, c0s32 := answers[i], ""
		if k := strings.LastIndex(a, " c0="); k >= 0 {
			a, c0s32 = a[:k], a[k+4:]
		}
		ctx.Res.Count("stream.arch32.cases")
		if a == impls[i] {
			continue
		}
		// The capacity a call starts with is the implementation's choice and may depend on what the process did
		// before (buffers taken from a pool): where the two builds were observed to start their calls with
		// different capacities, only outcomes and positions are comparable.
		if f := strings.Fields(line); len(f) > 2 && c0s32 != "" && f[2] != c0s32 && capsRe.ReplaceAllString(a, "") == capsRe.ReplaceAllString(impls[i], "") {
			ctx.Res.Count("stream.arch32.capacities-not-comparable")
			continue
		}
		key := "stream:32bit-differs"
		if strings.Contains(a, "panic@") {
			key = "stream:32bit-panic"
		}
		c07(ctx, "arch32", key, fmt.Sprintf("on a GOARCH=386 build the same input gives %q, on this build %q", a, impls[i]), line)
	}
}
