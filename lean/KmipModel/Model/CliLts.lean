/-
  Transition systems with kernel-checked inductive-invariant certificates (client side; core only).

  A system is an initial state and a finite-branching successor function. A *certificate* is a set `R`
  of state codes (`Nat`), given as a list of binary search trees (`Forest`). The untrusted driver
  computes the reachable set by BFS and prints it; the kernel re-checks, by evaluation
  (`decide +kernel`, one obligation per part), that
    * the code of the initial state is in `R`,
    * for every code `c` in `R`, every successor of `decode c` has its code in `R`,
    * every state `t` met this way is within the range of the codec (`wf t`), where
      `decode (code t) = t` is a proved theorem.
  `cert_sound` then gives, by induction over `Reachable` (any number of steps, any interleaving of
  the modelled steps): every reachable state is `decode c` for some `c ∈ R`; and `safe_of_cert`: a
  boolean predicate that is false on every `decode c`, `c ∈ R`, is false on every reachable state.

  This file is deliberately self-contained (the server side has its own copy of these ~100 lines).
-/
namespace Kmip.CliLts

structure Sys (σ : Type) where
  init : σ
  step : σ → List σ

inductive Reachable {σ : Type} (S : Sys σ) : σ → Prop where
  | init : Reachable S S.init
  | step {s t : σ} : Reachable S s → t ∈ S.step s → Reachable S t

/-- a set of state codes as a binary search tree. The emitted certificates split it into
    sub-definitions of at most 63 nodes each (large literals do not elaborate). -/
inductive Tree where
  | leaf
  | node (l : Tree) (k : Nat) (r : Tree)

/-- search-tree membership (structural recursion; reduces in the kernel, `Nat.blt` on literals is
    evaluated natively). No ordering invariant is needed for soundness: `mem` only ever answers `true`
    on a key that is in the tree. -/
def Tree.mem : Tree → Nat → Bool
  | .leaf, _ => false
  | .node l k r, x => bif Nat.blt x k then l.mem x else bif Nat.blt k x then r.mem x else true

def Tree.all (p : Nat → Bool) : Tree → Bool
  | .leaf => true
  | .node l k r => l.all p && (p k && r.all p)

def Tree.size : Tree → Nat
  | .leaf => 0
  | .node l _ r => l.size + 1 + r.size

theorem Tree.all_mem {p : Nat → Bool} : ∀ {t : Tree} {x : Nat},
    t.all p = true → t.mem x = true → p x = true
  | .leaf, _, _, hm => by simp [Tree.mem] at hm
  | .node l k r, x, ha, hm => by
    simp only [Tree.all, Bool.and_eq_true] at ha
    unfold Tree.mem at hm
    cases h1 : Nat.blt x k with
    | true => rw [h1, cond_true] at hm; exact Tree.all_mem ha.1 hm
    | false =>
      rw [h1, cond_false] at hm
      cases h2 : Nat.blt k x with
      | true => rw [h2, cond_true] at hm; exact Tree.all_mem ha.2.2 hm
      | false =>
        have e1 : ¬ x < k := fun hh => by rw [← Nat.blt_eq, h1] at hh; cases hh
        have e2 : ¬ k < x := fun hh => by rw [← Nat.blt_eq, h2] at hh; cases hh
        have : x = k := by omega
        rw [this]; exact ha.2.1

/-- a certificate: the sorted codes cut into consecutive parts, each a search tree, with an exclusive
    upper bound per part (so that the closure check can be split into one obligation per part and
    the parts checked by the kernel in parallel, in separate modules). -/
abbrev Forest := List (Nat × Tree)

def Forest.mem : Forest → Nat → Bool
  | [], _ => false
  | (b, t) :: rest, x => bif Nat.blt x b then t.mem x else Forest.mem rest x

theorem Forest.all_mem {p : Nat → Bool} : ∀ {F : Forest} {x : Nat},
    (∀ q ∈ F, q.2.all p = true) → F.mem x = true → p x = true
  | [], _, _, hm => by simp [Forest.mem] at hm
  | (b, t) :: rest, x, ha, hm => by
    unfold Forest.mem at hm
    cases h1 : Nat.blt x b with
    | true => rw [h1, cond_true] at hm; exact Tree.all_mem (ha (b, t) (List.mem_cons_self ..)) hm
    | false =>
      rw [h1, cond_false] at hm
      exact Forest.all_mem (fun q hq => ha q (List.mem_cons_of_mem _ hq)) hm

/-- states packed into `Nat` codes. `wf` is a cheap boolean range check under which the round trip
    `decode (code s) = s` has been PROVED; the certificate check evaluates `wf` on every state it
    meets (so the round trip is available exactly where the induction needs it, and the kernel never
    has to compare two large structures). -/
structure Codec (σ : Type) where
  code : σ → Nat
  decode : Nat → σ
  wf : σ → Bool
  roundtrip : ∀ s, wf s = true → decode (code s) = s

variable {σ : Type}

/-- the code of `t` is in the certificate and `t` is within the range of the codec. -/
def okCode (C : Codec σ) (F : Forest) (t : σ) : Bool :=
  F.mem (C.code t) && C.wf t

theorem okCode_spec {C : Codec σ} {F : Forest} {t : σ} (h : okCode C F t = true) :
    F.mem (C.code t) = true ∧ C.decode (C.code t) = t := by
  simp only [okCode, Bool.and_eq_true] at h
  exact ⟨h.1, C.roundtrip _ h.2⟩

/-- every successor of every state of the part `P` is in the certificate `F`. -/
def partClosed (S : Sys σ) (C : Codec σ) (F : Forest) (P : Tree) : Bool :=
  P.all fun c => (S.step (C.decode c)).all (okCode C F)

/-- `bad` is false on every state of the part. -/
def partSafe (C : Codec σ) (bad : σ → Bool) (P : Tree) : Bool :=
  P.all fun c => !bad (C.decode c)

/-- the certificate contains the initial state and is closed under the successor function. -/
def closedUnder (S : Sys σ) (C : Codec σ) (F : Forest) : Prop :=
  okCode C F S.init = true ∧ ∀ q ∈ F, partClosed S C F q.2 = true

/-- `bad` is false on every state of the certificate. -/
def safeOn (C : Codec σ) (bad : σ → Bool) (F : Forest) : Prop :=
  ∀ q ∈ F, partSafe C bad q.2 = true

theorem cert_sound {S : Sys σ} {C : Codec σ} {F : Forest} (h : closedUnder S C F)
    {s : σ} (hs : Reachable S s) : F.mem (C.code s) = true ∧ C.decode (C.code s) = s := by
  induction hs with
  | init => exact okCode_spec h.1
  | step _ ht ih =>
    have h2 := Forest.all_mem h.2 ih.1
    rw [ih.2, List.all_eq_true] at h2
    exact okCode_spec (h2 _ ht)

theorem safe_of_cert {S : Sys σ} {C : Codec σ} {F : Forest} {bad : σ → Bool}
    (h : closedUnder S C F) (hb : safeOn C bad F)
    {s : σ} (hs : Reachable S s) : bad s = false := by
  have ⟨hm, hd⟩ := cert_sound h hs
  have := Forest.all_mem hb hm
  rw [hd] at this
  simpa using this

/-! ### concrete traces (witnesses that a state IS reachable) -/

/-- follow a list of successor indices. -/
def runTrace (S : Sys σ) : List Nat → σ → Option σ
  | [], s => some s
  | i :: rest, s =>
    match (S.step s)[i]? with
    | some t => runTrace S rest t
    | none => none

theorem reachable_of_runTrace {S : Sys σ} : ∀ (tr : List Nat) {s t : σ},
    Reachable S s → runTrace S tr s = some t → Reachable S t
  | [], _, _, hs, h => by
    simp only [runTrace, Option.some.injEq] at h
    exact h ▸ hs
  | i :: rest, s, t, hs, h => by
    unfold runTrace at h
    cases hi : (S.step s)[i]? with
    | none => rw [hi] at h; cases h
    | some u =>
      rw [hi] at h
      exact reachable_of_runTrace rest (Reachable.step hs (List.mem_of_getElem? hi)) h

theorem reachable_of_trace {S : Sys σ} (tr : List Nat) {t : σ}
    (h : runTrace S tr S.init = some t) : Reachable S t :=
  reachable_of_runTrace tr Reachable.init h

/-- the state a trace leads to (the initial state if the trace is not a path). -/
def endOf (S : Sys σ) (tr : List Nat) : σ := (runTrace S tr S.init).getD S.init

theorem reachable_endOf {S : Sys σ} (tr : List Nat) (h : (runTrace S tr S.init).isSome = true) :
    Reachable S (endOf S tr) := by
  unfold endOf
  cases hr : runTrace S tr S.init with
  | none => rw [hr] at h; cases h
  | some t => exact reachable_of_trace tr hr

end Kmip.CliLts
