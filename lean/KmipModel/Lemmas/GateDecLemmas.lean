/-
  C05, decoding side: for a schema whose version-gated fields are all OPTIONAL on the wire (`omitempty`, pointer
  or slice — a decidable fact of the regenerated schema), the typed decoder NEVER depends on the version
  annotations: decoding with the library's schema = decoding with the schema stripped of every annotation
  (in which every element exists at every version). Hence later-version elements present on the wire are always
  accepted and returned, whatever version the header announces, at any depth.
-/
import KmipModel.Lemmas.GateLemmas
namespace Kmip

def StructDef.ungate (d : StructDef) : StructDef := { d with fields := d.fields.map Field.ungate }

/-- the schema without any version annotation. -/
def Schema.ungated (S : Schema) : Schema := { S with structs := S.structs.map StructDef.ungate }

/-- the field is not version-gated, or it is optional on the wire: `omitempty`, a pointer or a slice. -/
def Field.gateOptional (f : Field) : Bool :=
  f.vrange.isNone || f.omitempty || (match f.kind with | .ptr _ => true | .slice _ => true | _ => false)

/-- **decidable**: every version-gated field is optional on the wire. -/
def Schema.gatedOptional (S : Schema) : Bool :=
  S.structs.all fun d => d.fields.all Field.gateOptional

theorem Schema.ungated_structDef (S : Schema) (id : Nat) :
    S.ungated.structDef id = (S.structDef id).ungate := by
  unfold Schema.structDef Schema.ungated
  simp only [List.getD_eq_getElem?_getD, List.getElem?_map]
  cases S.structs[id]? with
  | none => rfl
  | some d => rfl

theorem ungate_getD_kind (fields : List Field) (i : Nat) :
    ((fields.map Field.ungate).getD i { tag := 0, kind := .unsupported }).kind
      = (fields.getD i { tag := 0, kind := .unsupported }).kind := by
  simp only [List.getD_eq_getElem?_getD, List.getElem?_map]
  cases fields[i]? with
  | none => rfl
  | some f => rfl

theorem customFieldKinds_ungated (S : Schema) (code : Nat) :
    customFieldKinds S.ungated code = customFieldKinds S code := by
  unfold customFieldKinds Schema.ungated
  dsimp only
  rw [List.find?_map]
  have hfun : ((fun d : StructDef => d.custom == code) ∘ StructDef.ungate)
      = (fun d : StructDef => d.custom == code) := by
    funext d; rfl
  rw [hfun]
  cases S.structs.find? (fun d => d.custom == code) with
  | none => rfl
  | some d =>
    simp only [Option.map_some]
    unfold StructDef.ungate
    simp only [List.map_map]
    rfl

theorem attributeId_ungated (S : Schema) : attributeId S.ungated = attributeId S := by
  unfold attributeId Schema.ungated
  dsimp only
  rw [findIdx?_map_congr StructDef.ungate _ (fun d => d.custom == Cust.attr)]
  intro a; rfl

mutual
  theorem zeroOf_ungated (S : Schema) : ∀ (fuel : Nat) (k : Kind), zeroOf S.ungated fuel k = zeroOf S fuel k
    | 0, _ => by rw [zeroOf, zeroOf]
    | fuel + 1, k => by
      rw [zeroOf.eq_def, zeroOf.eq_def]
      dsimp only
      cases k <;> try rfl
      rename_i id
      dsimp only
      rw [Schema.ungated_structDef]
      unfold StructDef.ungate
      dsimp only
      rw [zeroFields_ungated S fuel (S.structDef id).fields]
  theorem zeroFields_ungated (S : Schema) : ∀ (fuel : Nat) (fs : List Field),
      zeroFields S.ungated fuel (fs.map Field.ungate) = zeroFields S fuel fs
    | _, [] => by rw [List.map_nil, zeroFields, zeroFields]
    | fuel, f :: fs => by
      rw [List.map_cons, zeroFields, zeroFields, zeroFields_ungated S fuel fs]
      show zeroOf S.ungated fuel f.kind :: _ = _
      rw [zeroOf_ungated S fuel f.kind]
end

/-! absent elements -/

def Res.notOk {α : Type} (a : Res α) : Prop := ∀ r, a ≠ .ok r

theorem Res.notOk_bind {α β : Type} {a : Res α} (f : α → Res β) (h : a.notOk) : (a >>= f).notOk := by
  intro r hr
  obtain ⟨x, hx, _⟩ := Res.bind_eq_ok hr
  exact h x hx

theorem Res.notOk_err {α : Type} (e : Err) : (Res.err e : Res α).notOk := fun _ h => nomatch h
theorem Res.notOk_panic {α : Type} (m : String) : (Res.panic m : Res α).notOk := fun _ h => nomatch h

theorem Cur.expect_absent {c : Cur} {tag : Nat} (h : c.tag ≠ tag) (ty : Nat) : (c.expect ty tag).notOk := by
  unfold Cur.expect
  unfold Cur.tag at h
  cases hi : c.items with
  | nil => exact Res.notOk_err _
  | cons it rest =>
    rw [hi] at h
    dsimp only at h ⊢
    rw [if_pos h]
    exact Res.notOk_err _

theorem Cur.fixed_absent {α : Type} {c : Cur} {tag : Nat} (h : c.tag ≠ tag) (ty w : Nat)
    (conv : Bytes → Res α) : (c.fixed ty tag w conv).notOk := by
  unfold Cur.fixed
  exact Res.notOk_bind _ (Cur.expect_absent h ty)

theorem Cur.struct_absent {α : Type} {c : Cur} {tag : Nat} (h : c.tag ≠ tag) (f : Cur → Res α) :
    (c.struct tag f).notOk := by
  unfold Cur.struct
  exact Res.notOk_bind _ (Cur.expect_absent h 1)

theorem decodeValue_absent {c : Cur} {tag : Nat} (h : c.tag ≠ tag) (fuel : Nat) :
    (decodeValue fuel c tag).notOk := by
  cases fuel with
  | zero => rw [decodeValue]; exact Res.notOk_err _
  | succ n =>
    rw [decodeValue]
    split
    all_goals first
      | exact Res.notOk_err _
      | exact Res.notOk_bind _ (Cur.fixed_absent h _ _ _)
      | exact Res.notOk_bind _ (Cur.struct_absent h _)
      | (refine Res.notOk_bind _ ?_
         first
          | (unfold Cur.bigInteger; exact Res.notOk_bind _ (Cur.expect_absent h 4))
          | (unfold Cur.byteString; exact Res.notOk_bind _ (Cur.expect_absent h 8))
          | (unfold Cur.textString; exact Res.notOk_bind _ (Cur.expect_absent h 7)))

theorem decCustom_absent (S : Schema) {c : Cur} {tag : Nat} (h : c.tag ≠ tag) (fuel code id : Nat)
    (ver : Option Ver) : (decCustom S fuel code id tag c ver).notOk := by
  cases fuel with
  | zero => rw [decCustom]; exact Res.notOk_err _
  | succ m =>
    intro r hr
    rw [decCustom.eq_def] at hr
    dsimp only at hr
    by_cases hc : code = Cust.unknownPayload
    · rw [if_pos hc] at hr
      exact Res.notOk_bind _ (Cur.struct_absent h _) r hr
    · rw [if_neg hc] at hr
      exact Res.notOk_bind _ (Cur.expect_absent h 1) r hr

theorem decStruct_absent (S : Schema) {c : Cur} {tag : Nat} (h : c.tag ≠ tag) (fuel : Nat)
    (fields : List Field) (ver : Option Ver) : (decStruct S fuel fields tag c ver).notOk := by
  cases fuel with
  | zero => rw [decStruct]; exact Res.notOk_err _
  | succ m =>
    rw [decStruct]
    exact Res.notOk_bind _ (Cur.expect_absent h 1)

/-- the kind's decoder on an ABSENT element (the current tag is another one) succeeds only by returning the
    zero value — a nil pointer or an empty slice — without consuming anything. -/
theorem decK_absent (S : Schema) {c : Cur} {tag : Nat} (h : c.tag ≠ tag) (fuel : Nat) (k : Kind)
    (ver : Option Ver) (r : Val × DecSt) (hr : decK S fuel k tag c ver = .ok r) :
    r = (zeroOf S fuel k, c, ver) := by
  cases fuel with
  | zero => rw [decK] at hr; exact nomatch hr
  | succ n =>
    cases k
    all_goals rw [decK] at hr
    all_goals first
      | contradiction
      | exact absurd hr (Res.notOk_bind _ (Cur.fixed_absent h _ _ _) r)
      | skip
    case text =>
      exact absurd hr (Res.notOk_bind _ (by unfold Cur.textString; exact Res.notOk_bind _ (Cur.expect_absent h 7)) r)
    case bytes =>
      exact absurd hr (Res.notOk_bind _ (by unfold Cur.byteString; exact Res.notOk_bind _ (Cur.expect_absent h 8)) r)
    case big =>
      exact absurd hr (Res.notOk_bind _ (by unfold Cur.bigInteger; exact Res.notOk_bind _ (Cur.expect_absent h 4)) r)
    case any => exact absurd hr (Res.notOk_bind _ (decodeValue_absent h _) r)
    case anyStruct => exact absurd hr (Res.notOk_bind _ (Cur.struct_absent h _) r)
    case ptr k' =>
      rw [if_pos h] at hr
      cases hr
      rw [zeroOf]
    case slice k' =>
      obtain ⟨⟨xs, st⟩, h1, h2⟩ := Res.bind_eq_ok hr
      cases h2
      cases n with
      | zero => rw [decList] at h1; exact nomatch h1
      | succ m =>
        rw [decList, if_pos h] at h1
        cases h1
        rw [zeroOf]
    case struct id =>
      exfalso
      split at hr
      · exact decCustom_absent S h _ _ _ _ r hr
      · exact decStruct_absent S h _ _ _ r hr

/-! the induction -/

/-- `a ⊑ b`: whenever `a` succeeds, `b` succeeds with the same result. -/
def Res.le {α : Type} (a b : Res α) : Prop := ∀ r, a = .ok r → b = .ok r

theorem Res.le_refl {α : Type} (a : Res α) : Res.le a a := fun _ h => h

theorem Res.bind_le {α β : Type} {a a' : Res α} {f f' : α → Res β} (h1 : Res.le a a')
    (h2 : ∀ x, Res.le (f x) (f' x)) : Res.le (a >>= f) (a' >>= f') := by
  intro r h
  obtain ⟨x, hx, hf⟩ := Res.bind_eq_ok h
  exact Res.bind_ok_of (h1 x hx) (h2 x _ hf)

theorem Res.ite_le {α : Type} {c : Prop} [Decidable c] {a a' b b' : Res α}
    (h1 : c → Res.le a a') (h2 : ¬c → Res.le b b') :
    Res.le (if c then a else b) (if c then a' else b') := by
  split
  · exact h1 ‹_›
  · exact h2 ‹_›

open Lean Elab Tactic Meta in
/-- close a `Res.le` goal with a local hypothesis whose conclusion is `Res.le` (reducible unification). -/
elab "le_hyp" : tactic => withMainContext do
  let g ← getMainGoal
  for ld in (← getLCtx) do
    if ld.isImplementationDetail then continue
    let ty ← instantiateMVars ld.type
    if ty.getForallBody.isAppOf ``Res.le then
      let s ← saveState
      try
        let gs ← withReducible (g.apply ld.toExpr)
        for g' in gs do
          unless (← g'.isAssigned) do throwError "open goal"
        replaceMainGoal []
        return
      catch _ => s.restore
  throwError "le_hyp: no hypothesis applies"

macro "le_step" : tactic => `(tactic| with_reducible first
  | exact Res.le_refl _
  | le_hyp
  | refine Res.bind_le ?_ (fun _ => ?_)
  | refine Res.ite_le (fun _ => ?_) (fun _ => ?_)
  | split)
macro "le_auto" : tactic => `(tactic| repeat (any_goals le_step))

theorem Schema.ungated_dyn (S : Schema) (d : Nat) : S.ungated.dyn d = S.dyn d := rfl
theorem Schema.ungated_payloadDyn (S : Schema) (op : Nat) (r : Bool) :
    S.ungated.payloadDyn op r = S.payloadDyn op r := rfl
theorem Schema.ungated_attrDyn (S : Schema) (n : Bytes) : S.ungated.attrDyn n = S.attrDyn n := rfl
theorem Schema.ungated_objectDyn (S : Schema) (ot : Nat) : S.ungated.objectDyn ot = S.objectDyn ot := rfl
theorem importObjectType_ungated (S : Schema) (attrs : Val) :
    importObjectType S.ungated attrs = importObjectType S attrs := rfl
theorem StructDef.ungate_fields (d : StructDef) : d.ungate.fields = d.fields.map Field.ungate := rfl

structure DecLenient (S : Schema) (fuel : Nat) : Prop where
  decK : ∀ k tag c ver, Res.le (decK S.ungated fuel k tag c ver) (decK S fuel k tag c ver)
  decStruct : ∀ fields tag c ver,
    Res.le (decStruct S.ungated fuel (fields.map Field.ungate) tag c ver) (decStruct S fuel fields tag c ver)
  decList : ∀ k tag c ver, Res.le (decList S.ungated fuel k tag c ver) (decList S fuel k tag c ver)
  decFields : ∀ fields c ver,
    Res.le (decFields S.ungated fuel (fields.map Field.ungate) c ver) (decFields S fuel fields c ver)
  decOpt : ∀ k tag c ver, Res.le (decOpt S.ungated fuel k tag c ver) (decOpt S fuel k tag c ver)
  decDyn : ∀ d tag c ver, Res.le (decDyn S.ungated fuel d tag c ver) (decDyn S fuel d tag c ver)
  decCustom : ∀ code id tag c ver,
    Res.le (decCustom S.ungated fuel code id tag c ver) (decCustom S fuel code id tag c ver)
  decKeyValue : ∀ fmt c ver, Res.le (decKeyValue S.ungated fuel fmt c ver) (decKeyValue S fuel fmt c ver)

theorem decLenient_succ (S : Schema) (fuel : Nat) (ih : DecLenient S fuel) :
    DecLenient S (fuel + 1) := by
  have ihK := ih.decK
  have ihS := ih.decStruct
  have ihL := ih.decList
  have ihF := ih.decFields
  have ihO := ih.decOpt
  have ihD := ih.decDyn
  have ihC := ih.decCustom
  have ihV := ih.decKeyValue
  constructor
  · -- decK
    intro k tag c ver
    cases k
    all_goals rw [decK, decK]
    all_goals try simp only [Schema.ungated_structDef]
    case struct id =>
      show Res.le (if (S.structDef id).decCustom = true
          then decCustom S.ungated fuel (S.structDef id).custom id tag c ver
          else decStruct S.ungated fuel ((S.structDef id).fields.map Field.ungate) tag c ver) _
      le_auto
    all_goals le_auto
  · -- decStruct
    intro fields tag c ver
    rw [decStruct, decStruct]
    le_auto
  · -- decList
    intro k tag c ver
    rw [decList, decList]
    le_auto
  · -- decFields
    intro fields c ver
    cases fields with
    | nil => rw [List.map_nil, decFields.eq_def, decFields.eq_def]; exact Res.le_refl _
    | cons f fs =>
      rw [List.map_cons, decFields, decFields]
      have e1 : f.ungate.dynTag = f.dynTag := rfl
      have e2 : f.ungate.vrange = none := rfl
      have e3 : f.ungate.omitempty = f.omitempty := rfl
      have e4 : f.ungate.tag = f.tag := rfl
      have e5 : f.ungate.kind = f.kind := rfl
      have e6 : f.ungate.setVersion = f.setVersion := rfl
      simp only [e1, e2, e3, e4, e5, e6, zeroOf_ungated, Bool.false_or]
      by_cases hd : f.dynTag = true
      · simp only [hd, if_true]; exact Res.le_refl _
      · simp only [hd, if_false, Bool.false_eq_true]
        by_cases he : (f.omitempty && decide (c.tag ≠ f.tag)) = true
        · -- skipped as an empty optional field on both sides
          simp only [he, Bool.or_true, if_true]
          le_auto
        · simp only [he, Bool.or_false, if_false, Bool.false_eq_true]
          -- the annotation-free decoder runs the kind's decoder; the library's may skip instead
          cases hr : f.vrange with
          | none => simp only [Bool.false_eq_true, if_false]; le_auto
          | some r =>
            dsimp only
            by_cases hskip : (!versionIn ver r && decide (c.tag ≠ f.tag)) = true
            · -- out of range and absent: the library returns the zero value without consuming anything; the
              -- annotation-free decoder succeeds on an absent element only with that same result
              rw [if_pos hskip]
              simp only [Bool.and_eq_true, decide_eq_true_eq] at hskip
              refine Res.bind_le ?_ (fun _ => by le_auto)
              intro r0 h0
              rw [decK_absent S.ungated hskip.2 fuel f.kind ver r0 h0, zeroOf_ungated]
            · rw [if_neg hskip]
              le_auto
  · -- decOpt
    intro k tag c ver
    rw [decOpt, decOpt]
    simp only [zeroOf_ungated]
    le_auto
  · -- decDyn
    intro d tag c ver
    rw [decDyn, decDyn]
    simp only [Schema.ungated_dyn]
    le_auto
  · -- decCustom
    intro code id tag c ver
    rw [decCustom, decCustom]
    simp only [Schema.ungated_structDef, StructDef.ungate_fields, ungate_getD_kind, customFieldKinds_ungated,
      Schema.ungated_payloadDyn, Schema.ungated_attrDyn, Schema.ungated_objectDyn, importObjectType_ungated]
    le_auto
  · -- decKeyValue
    intro fmt c ver
    rw [decKeyValue, decKeyValue]
    simp only [customFieldKinds_ungated, attributeId_ungated]
    le_auto

theorem decLenient_zero (S : Schema) : DecLenient S 0 := by
  constructor
  · intro k tag c ver; rw [decK]; exact fun _ h => nomatch h
  · intro fs tag c ver; rw [decStruct]; exact fun _ h => nomatch h
  · intro k tag c ver; rw [decList]; exact fun _ h => nomatch h
  · intro fs c ver; rw [decFields]; exact fun _ h => nomatch h
  · intro k tag c ver; rw [decOpt]; exact fun _ h => nomatch h
  · intro d tag c ver; rw [decDyn]; exact fun _ h => nomatch h
  · intro code id tag c ver; rw [decCustom]; exact fun _ h => nomatch h
  · intro fmt c ver; rw [decKeyValue]; exact fun _ h => nomatch h

theorem decLenient (S : Schema) : ∀ fuel, DecLenient S fuel
  | 0 => decLenient_zero S
  | fuel + 1 => decLenient_succ S fuel (decLenient S fuel)

/-- **end to end**: whatever the annotation-free decoder (every element exists at every version) accepts, the
    library's decoder accepts too and returns the same value — whatever version the header announces. -/
theorem unmarshalWith_lenient (S : Schema) (F d tag : Nat) (bs : Bytes) (v : Val)
    (h : unmarshalWith S.ungated F d tag bs = .ok v) : unmarshalWith S F d tag bs = .ok v := by
  unfold unmarshalWith at h ⊢
  simp only [Schema.ungated_dyn] at h
  obtain ⟨c, hc, h⟩ := Res.bind_eq_ok h
  obtain ⟨⟨x, st⟩, hx, h⟩ := Res.bind_eq_ok h
  exact Res.bind_ok_of hc (Res.bind_ok_of ((decLenient S _).decK _ _ _ _ _ hx) h)

theorem unmarshal_lenient (S : Schema) (d tag : Nat) (bs : Bytes) (v : Val)
    (h : unmarshal S.ungated d tag bs = .ok v) : unmarshal S d tag bs = .ok v := by
  unfold unmarshal at h ⊢
  by_cases hd : S.dyns.length ≤ d
  · have hd' : S.ungated.dyns.length ≤ d := hd
    rw [if_pos hd'] at h
    exact nomatch h
  · have hd' : ¬ S.ungated.dyns.length ≤ d := hd
    rw [if_neg hd'] at h
    rw [if_neg hd]
    exact unmarshalWith_lenient S _ d tag bs v h

end Kmip
