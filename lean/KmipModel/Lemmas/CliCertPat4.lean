/-
  Certificate obligations, parts 32..39 of 64 of the `patched` client system (kernel evaluation; 8 modules
  so that lake checks them in parallel; small parts keep the kernel's memory small).
  Assembled in `Lemmas/CliCert.lean`.
-/
import KmipModel.Model.CliConn
import KmipModel.Gen.CertCliConn
namespace Kmip.CliCert
open Kmip.CliLts Kmip.CliConn Kmip.Gen.CertCliConn

theorem paClosed32 : partClosed (sys patched) codec certPatched paP32 = true := by decide +kernel
theorem paSafe32 : partSafe codec (badFull patched) paP32 = true := by decide +kernel
theorem paClosed33 : partClosed (sys patched) codec certPatched paP33 = true := by decide +kernel
theorem paSafe33 : partSafe codec (badFull patched) paP33 = true := by decide +kernel
theorem paClosed34 : partClosed (sys patched) codec certPatched paP34 = true := by decide +kernel
theorem paSafe34 : partSafe codec (badFull patched) paP34 = true := by decide +kernel
theorem paClosed35 : partClosed (sys patched) codec certPatched paP35 = true := by decide +kernel
theorem paSafe35 : partSafe codec (badFull patched) paP35 = true := by decide +kernel
theorem paClosed36 : partClosed (sys patched) codec certPatched paP36 = true := by decide +kernel
theorem paSafe36 : partSafe codec (badFull patched) paP36 = true := by decide +kernel
theorem paClosed37 : partClosed (sys patched) codec certPatched paP37 = true := by decide +kernel
theorem paSafe37 : partSafe codec (badFull patched) paP37 = true := by decide +kernel
theorem paClosed38 : partClosed (sys patched) codec certPatched paP38 = true := by decide +kernel
theorem paSafe38 : partSafe codec (badFull patched) paP38 = true := by decide +kernel
theorem paClosed39 : partClosed (sys patched) codec certPatched paP39 = true := by decide +kernel
theorem paSafe39 : partSafe codec (badFull patched) paP39 = true := by decide +kernel

end Kmip.CliCert
