/-
  Lemmas for C20 about the version cell (on top of the field-loop lemmas of `PlanLemmas`):
  a value that begins with its own set-version field — a Request/ResponseMessage, through its header —
  is encoded identically from every incoming cell.
-/
import KmipModel.Lemmas.PlanLemmas
import KmipModel.Lemmas.CacheLemmas
namespace Kmip.Cache
open Kmip

/-- the items of a result (the cell dropped). -/
def items : Res EncSt → Res (List Item)
  | .ok (i, _) => .ok i
  | .err e => .err e
  | .panic m => .panic m

/-- values of kind `k` are encoded in the same way — items AND outgoing cell — from every incoming cell. -/
def CellIndep (S : Schema) (k : Kind) : Prop :=
  ∀ fuel tag v c1 c2, encK S fuel k tag v c1 = encK S fuel k tag v c2

/-- the same for the items only (a nil pointer writes nothing and hands the incoming cell on). -/
def CellIndepItems (S : Schema) (k : Kind) : Prop :=
  ∀ fuel tag v c1 c2, items (encK S fuel k tag v c1) = items (encK S fuel k tag v c2)

theorem encFields_setVersion_first (S : Schema) (fuel : Nat) (f : Field) (fs : List Field)
    (vs : List Val) (c1 c2 : Option Ver) (h : f.setVersion = true) :
    encFields S fuel (f :: fs) vs c1 = encFields S fuel (f :: fs) vs c2 := by
  cases fuel with
  | zero => simp [encFields]
  | succ n =>
    cases vs with
    | nil => simp [encFields]
    | cons v vs =>
      rw [encFields_cons, encFields_cons]
      have h1 : fieldCell f v c1 = fieldCell f v c2 := by unfold fieldCell; rw [h]; rfl
      rw [h1]

theorem encFields_plain_first (S : Schema) (fuel : Nat) (f : Field) (fs : List Field)
    (vs : List Val) (c1 c2 : Option Ver) (hsv : f.setVersion = false) (hr : f.vrange = none)
    (ho : f.omitempty = false) (hk : CellIndep S f.kind) :
    encFields S fuel (f :: fs) vs c1 = encFields S fuel (f :: fs) vs c2 := by
  cases fuel with
  | zero => simp [encFields]
  | succ n =>
    cases vs with
    | nil => simp [encFields]
    | cons v vs =>
      rw [encFields_cons, encFields_cons]
      have hc : ∀ c, fieldCell f v c = c := by intro c; unfold fieldCell; rw [hsv]; rfl
      have hs : ∀ c, (fieldOutOfRange f c || (f.omitempty && v.isZero)) = false := by
        intro c; unfold fieldOutOfRange; rw [hr, ho]; rfl
      rw [hc, hc, hs, hs]
      simp only [Bool.false_eq_true, if_false]
      rw [hk n (fieldTag S f v) v c1 c2]

theorem cellIndep_struct (S : Schema) (id : Nat) (hd : (S.structDef id).encCustom = false)
    (h : ∀ fuel vs c1 c2, encFields S fuel (S.structDef id).fields vs c1
      = encFields S fuel (S.structDef id).fields vs c2) :
    CellIndep S (.struct id) := by
  intro fuel tag v c1 c2
  cases fuel with
  | zero => simp [encK]
  | succ n =>
    cases v <;> try (simp [encK])
    rename_i vs
    simp only [hd, Bool.false_eq_true, if_false]
    rw [h n vs c1 c2]

theorem cellIndepItems_ptr (S : Schema) (k : Kind) (h : CellIndep S k) : CellIndepItems S (.ptr k) := by
  intro fuel tag v c1 c2
  cases fuel with
  | zero => simp [encK]
  | succ n =>
    cases v <;> try (simp [encK, items])
    rename_i o
    cases o with
    | none => simp [encK]
    | some x => simp only [encK]; rw [h n tag x c1 c2]

theorem cellIndepItems_of (S : Schema) (k : Kind) (h : CellIndep S k) : CellIndepItems S k := by
  intro fuel tag v c1 c2; rw [h fuel tag v c1 c2]

/-- **decidable**: struct `id` is encoded reflectively and its first field is a set-version field. -/
def startsWithSetVersion (S : Schema) (id : Nat) : Bool :=
  !(S.structDef id).encCustom &&
    match (S.structDef id).fields with
    | f :: _ => f.setVersion
    | [] => false

/-- **decidable**: struct `id` is encoded reflectively and its first field is an unconditional field holding
    a struct that starts with a set-version field (a message: `[header, …]`). -/
def startsWithHeader (S : Schema) (id : Nat) : Bool :=
  !(S.structDef id).encCustom &&
    match (S.structDef id).fields with
    | f :: _ =>
      !f.setVersion && f.vrange.isNone && !f.omitempty &&
        (match f.kind with
         | .struct h => startsWithSetVersion S h
         | _ => false)
    | [] => false

/-- **decidable**: the kind of a message as the library passes it around (`*RequestMessage`, or the struct). -/
def messageKind (S : Schema) : Kind → Bool
  | .ptr (.struct id) => startsWithHeader S id
  | .struct id => startsWithHeader S id
  | _ => false

theorem startsWithSetVersion_sound (S : Schema) (id : Nat) (h : startsWithSetVersion S id = true) :
    CellIndep S (.struct id) := by
  unfold startsWithSetVersion at h
  simp only [Bool.and_eq_true, Bool.not_eq_true'] at h
  obtain ⟨hd, hf⟩ := h
  refine cellIndep_struct S id hd ?_
  intro fuel vs c1 c2
  split at hf
  · rename_i f fs hfields
    rw [hfields]
    exact encFields_setVersion_first S fuel f fs vs c1 c2 hf
  · exact nomatch hf

theorem startsWithHeader_sound (S : Schema) (id : Nat) (h : startsWithHeader S id = true) :
    CellIndep S (.struct id) := by
  unfold startsWithHeader at h
  simp only [Bool.and_eq_true, Bool.not_eq_true'] at h
  obtain ⟨hd, hf⟩ := h
  refine cellIndep_struct S id hd ?_
  intro fuel vs c1 c2
  split at hf
  · rename_i f fs hfields
    rw [hfields]
    simp only [Bool.and_eq_true, Bool.not_eq_true', Option.isNone_iff_eq_none] at hf
    obtain ⟨⟨⟨h1, h2⟩, h3⟩, h4⟩ := hf
    split at h4
    · rename_i hid hkind
      exact encFields_plain_first S fuel f fs vs c1 c2 h1 h2 h3
        (by rw [hkind]; exact startsWithSetVersion_sound S hid h4)
    · exact nomatch h4
  · exact nomatch hf

theorem messageKind_sound (S : Schema) (k : Kind) (h : messageKind S k = true) : CellIndepItems S k := by
  unfold messageKind at h
  split at h
  · exact cellIndepItems_ptr S _ (startsWithHeader_sound S _ h)
  · exact cellIndepItems_of S _ (startsWithHeader_sound S _ h)
  · exact nomatch h

/-- a message is encoded identically whatever version an earlier message left in the encoder. -/
theorem encodeFrom_message (S : Schema) (m : Msg) (h : messageKind S (S.dyn m.d).kind = true)
    (c1 c2 : Option Ver) : items (encodeFrom S m c1) = items (encodeFrom S m c2) :=
  messageKind_sound S _ h encFuel _ m.v c1 c2

end Kmip.Cache
