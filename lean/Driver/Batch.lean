/-
  Driver handlers `batch.exec` and `place.run` (models: `Kmip.Batch`, `Kmip.Placeholder`).

  ENCODING (ASCII, one line).
    request   := <vers> ' ' <routes> ' ' <ver> ' ' <opt> ' ' <count> ' ' <items>
    vers      := <ver> {',' <ver>}              argument list of SetSupportedProtocolVersions
               | '=' <ver> {',' <ver>}          executor left at its default; the list is what the harness read
                                                 off the real executor (DiscoverVersions) on this run
               | '-'                             (legacy; not produced by the harness) default, from the model's fallback copy
    ver       := <int> '.' <int>                 major.minor
    routes    := '-' | <nat> {',' <nat>}         operation codes registered with Route
    opt       := <nat>                           BatchErrorContinuationOption (0 = absent)
    count     := <int>                           header BatchCount
    items     := '-' | <item> {',' <item>}
    item      := <op> ':' <id> ':' <ext> ':' <kind> ':' <acts> ':' <out>
      op   := <nat>                              Operation
      id   := '-' | <nat> | 'x' <hex>            UniqueBatchItemID (absent or empty | 4 bytes big endian | any bytes)
      ext  := 'n' | 'o' | 'c'                    no MessageExtension | non-critical | critical
      kind := 'u' | 'd' | 'a' | 'q' | 'g'        UnknownPayload | DiscoverVersionsRequestPayload | registered typed
                                                 payloads (Activate, Query, Get request payloads)
      acts := '-' | <act> {'.' <act>}            placeholder accesses of the handler
      act  := 'r' | 'c' | 's' <nat>              read | clear | set (0 = "", n = "id-n")
      out  := 'ok' | 'e' <nat> | 'x' | 'P' <nat> | 'p'
              success | kmipserver.Error{reason} | plain error | panic(kmipserver.Error) | panic(other)

    batch.exec <request>
      → ok <ver> <count> <ritems> calls=<calls> obs=<obs>
        ritems := '-' | <ritem> {',' <ritem>}    ritem := <op> ':' <id> ':' ('S' | 'F')   (result reasons are not part of
                                                 the answer: C09 does not speak about them)
        calls  := '-' | <nat> {'.' <nat>}        item indices whose handler ran, in order
        obs    := '-' | <idx> ':' <val> {'.' …}  values read by the handlers, in order

    batch.mw <chain> <request>      the loop around a batch-item middleware chain (model: `Batch.loopG`)
        chain := <stage> {',' <stage>}           in registration order (outermost first)
        stage := 'T' | ('M' | 'R' | 'E' | 'P' | 'Q' | 'F' | 'G' | 'N' | 'K' | 'D') [<idx> {'.' <idx>}]
                 T transparent; for the items listed: M answers success whatever the rest of the chain returned,
                 R refuses without calling next (returns (nil, err)), E calls next and returns its item with an error,
                 P panics without calling next, Q calls next and then panics (a panic unwinds through the stages
                 around it — M cannot mask it — to the last-resort recovery of executeItemWithMiddleware: the item
                 is answered failed echoing operation and id, the placeholder is cleared); after calling next:
                 F marks the item it got OperationFailed ITSELF and returns it with an error, G marks it failed and
                 returns NO error (`handleBatchItemError` does not run: the placeholder stays as the handler left
                 it), N returns (nil, err), K returns (nil, nil) (turned into an error by
                 `executeItemWithMiddleware`); D returns a fresh item marked failed with an error WITHOUT calling next
      → ok <ver> <count> <ritems> entered=<calls>     entered: the items handed to the chain, in order
    place.mw <chain> <request>      → ok obs=<obs>    what the handlers read with that item chain installed (a masked
                                    returned error leaves the placeholder alone; refusal, failure and panic clear it)

    place.run <mode> <request> {' | ' <request>}
        mode := 'seq' | 'nest' | 'par' | 'il:' <rid> {'.' <rid>}
      Request i of the scenario is request id i. `il` lists who performs its next *scheduled* step
      (the call of HandleRequest, or a handler access); the library's own steps (start of the core
      handler, `Clear`s) are attached to the preceding step of their request. Parent contexts as the
      harness makes them: `seq` one connection context for all; `nest` request i+1 inside the
      context of request i's handlers; `par` connection i/3; `il` connection i%2. `seq`/`nest`/
      `par`: the model runs them one after the other (by theorem C15.noninterference every merge
      gives the same answer). Evaluated with `Impl.go`.
      → ok <robs> {' | ' <robs>}
        robs := <obs> '~' <vals>     obs as above from `Batch.execFull` (the request alone);
                                     vals := '-' | <val> {'.' <val>} what request i observes in the
                                     world run (`Placeholder.runWorld` on the merge), '!' = panic

    place.world <impl> <mode> <call> {' | ' <call>}
        impl  := ('F' | 'R' | 'G') <reset> <atEntry> <atCore>    each '0' | '1'; e.g. F011 = Impl.go (the
                 code of today), F010 = Impl.entryOnly (before 4b5c841); the harness probes the real code
        mode  := 'seq' | 'par' | 'il:' <rid> {'.' <rid>}     (`par`: free-running goroutines; the model
                 runs the calls in sequence — every merge gives the same answer when allocation is fresh)
        call  := <parent> {' > ' <run>}          one call of HandleRequest and the runs of the core
        parent:= 'c' <nat> | 'i' <rid>           connection context | inside request rid's handlers
        run   := <wraps> ' ! ' <request>         wraps := number of contexts the middleware derives
      `il`: scheduled steps are the call of HandleRequest, every invocation of `next` by the message
      middleware (the derivations of contexts before it are attached to the PRECEDING scheduled step)
      and every handler access.
      → ok <vals> {' | ' <vals>}                 what call i observes in the world run under <impl>

    place.impl go                → ok <impl>              the parameters of `Placeholder.Impl.go` (what the model
                                                          says the code of today is; the harness answers with
                                                          what it probed on the real code)
    place.obs <request>          → ok obs=<obs>           what the handlers of the request alone read
    place.resolve <ph> <reqId>   → ok <val> | err         `GetIdOrPlaceholder` (0 = "")
-/
import Driver.Common
import KmipModel.Model.Batch
open Kmip Kmip.Batch Kmip.Placeholder

namespace Driver

private def parseList {α} (s : String) (sep : String) (f : String → Option α) : Option (List α) :=
  if s = "-" then some [] else (s.splitOn sep).mapM f

private def parseVer (s : String) : Option Ver :=
  match s.splitOn "." with
  | [a, b] => do let x ← a.toInt?; let y ← b.toInt?; pure (x, y)
  | _ => none

private def parseAct (s : String) : Option PAct :=
  if s = "r" then some .read
  else if s = "c" then some .clear
  else if s.startsWith "s" then (s.drop 1).toString.toNat?.map .set
  else none

private def parseOut (s : String) : Option Outcome :=
  if s = "ok" then some .success
  else if s = "x" then some .plainErr
  else if s = "p" then some .panicOther
  else if s.startsWith "e" then (s.drop 1).toString.toNat?.map .typedErr
  else if s.startsWith "P" then (s.drop 1).toString.toNat?.map .panicTyped
  else none

/-- ids that are not 4 bytes long: `0x01 ‖ bytes` read big endian, shifted beyond the 32-bit range of the
    4-byte ids (injective, and disjoint from them). -/
private def codeId (bs : List UInt8) : Nat := beVal (1 :: bs) * 2 ^ 32

private def parseItem (s : String) : Option Batch.Item :=
  match s.splitOn ":" with
  | [op, id, ext, kind, acts, out] => do
    let op ← op.toNat?
    let id ← if id = "-" then some none
      else if id.startsWith "x" then (bytesOfHex (id.drop 1).toString).map (fun bs => some (codeId bs))
      else id.toNat?.map some
    let ext ← match ext with
      | "n" => some none | "o" => some (some false) | "c" => some (some true) | _ => none
    let disc ← match kind with
      | "u" | "a" | "q" | "g" => some false | "d" => some true | _ => none
    let acts ← parseList acts "." parseAct
    let out ← parseOut out
    pure { op := op, id := id, ext := ext, discover := disc, acts := acts, out := out }
  | _ => none

def parseRequest (s : String) : Option (Srv × Req) :=
  match s.splitOn " " with
  | [vers, routes, ver, opt, count, items] => do
    let vers ← parseList (if vers.startsWith "=" then (vers.drop 1).toString else vers) "," parseVer
    let routes ← parseList routes "," String.toNat?
    let ver ← parseVer ver
    let opt ← opt.toNat?
    let count ← count.toInt?
    let items ← parseList items "," parseItem
    pure ({ supported := vers, routes := routes },
          { ver := ver, opt := opt, count := count, items := items })
  | _ => none

private def joinOr (sep : String) (xs : List String) : String :=
  if xs.isEmpty then "-" else sep.intercalate xs

private def renderId : Option Nat → String
  | none => "-"
  | some n =>
    if n < 2 ^ 32 then toString n
    else "x" ++ hexOfBytes ((natToBytesBE (n / 2 ^ 32)).drop 1)

private def renderRItem (r : RItem) : String :=
  toString r.op ++ ":" ++ renderId r.id ++ ":" ++
    (if r.failed then "F" else "S")

private def renderObs (obs : List (Nat × Val)) : String :=
  joinOr "." (obs.map fun (i, v) => toString i ++ ":" ++ toString v)

def renderOut (o : Out) : String :=
  "ok " ++ toString o.resp.ver.1 ++ "." ++ toString o.resp.ver.2 ++ " " ++ toString o.resp.count
    ++ " " ++ joinOr "," (o.resp.items.map renderRItem)
    ++ " calls=" ++ joinOr "." (o.calls.map toString)
    ++ " obs=" ++ renderObs o.obs

structure MwStage where
  kind : Char
  set : List Nat

private def parseStage (s : String) : Option MwStage :=
  match s.toList with
  | [] => none
  | k :: rest =>
    if "TMREPQFGNKD".toList.contains k then
      if rest.isEmpty then some { kind := k, set := [] }
      else ((String.ofList rest).splitOn ".").mapM String.toNat? |>.map fun l => { kind := k, set := l }
    else none

/-- what comes out of the item chain for one item, BEFORE `executeItemWithMiddleware` finishes it. -/
private structure ChainOut where
  ri : RItem
  ph : Val
  err : Bool          -- a non-nil error accompanies the item (`handleBatchItemError` is still to come)
  unw : Bool          -- a panic is unwinding: no stage around can mask or rewrite the outcome
  obs : List Val      -- what the handler read

/-- the item chain on item `i`: `executeItem` (which returns a handler's error WITHOUT touching the item or
    the placeholder, but fails the item and clears the placeholder itself when the handler panics) wrapped in
    the stages. A masking stage that swallows a returned error therefore leaves the placeholder as the
    handler left it. -/
private def chainRaw (srv : Srv) (chain : List MwStage) (i : Nat) (ph : Val) (it : Batch.Item) : ChainOut :=
  let echo (f : Bool) : RItem := { op := it.op, id := it.id, failed := f, reason := 0 }
  let rec go : List MwStage → ChainOut
    | [] =>
      let x := executeItem srv ph it
      { ri := x.1.ri, ph := x.1.ph, err := x.2.isSome, unw := false, obs := x.1.obs }
    | st :: rest =>
      if st.set.contains i then
        if st.kind = 'R' then { ri := echo false, ph := ph, err := true, unw := false, obs := [] }
        else if st.kind = 'P' then { ri := echo true, ph := 0, err := false, unw := true, obs := [] }
        else if st.kind = 'D' then { ri := echo true, ph := ph, err := true, unw := false, obs := [] }
        else
          let x := go rest
          if x.unw then x
          else if st.kind = 'M' then
            (if x.err || x.ri.failed then { x with ri := echo false, err := false } else x)
          else if st.kind = 'E' then { x with err := true }
          else if st.kind = 'Q' then { x with ri := echo true, ph := 0, unw := true }
          else if st.kind = 'F' then { x with ri := echo true, err := true }
          else if st.kind = 'G' then { x with ri := echo true, err := false }
          else if st.kind = 'N' ∨ st.kind = 'K' then { x with ri := echo false, err := true }
          else x
      else go rest
  go chain

/-- `executeItemWithMiddleware` with the chain installed, as an item executor for `loopG`: an unwinding
    panic is caught by the last-resort recovery, a returned error by `handleBatchItemError`; both fail the
    item and clear the placeholder. Second component: what the handler read. -/
private def chainItemObs (srv : Srv) (chain : List MwStage) (i : Nat) (ph : Val) (it : Batch.Item) :
    GItemOut × List Val :=
  let x := chainRaw srv chain i ph it
  if x.unw || x.err then ({ ri := { x.ri with failed := true }, ph := 0 }, x.obs)
  else ({ ri := x.ri, ph := x.ph }, x.obs)

private def chainItem (srv : Srv) (chain : List MwStage) (i : Nat) (ph : Val) (it : Batch.Item) : GItemOut :=
  (chainItemObs srv chain i ph it).1

/-- the loop of `loopG` again, collecting what the handlers read (item index, value). -/
private def mwObs (f : Nat → Val → Batch.Item → GItemOut × List Val) (stop : Bool) :
    List Batch.Item → Nat → Bool → Val → List (Nat × Val)
  | [], _, _, _ => []
  | it :: rest, i, stopped, ph =>
    if stopped then mwObs f stop rest (i + 1) true ph
    else
      let o := f i ph it
      o.2.map (fun v => (i, v)) ++ mwObs f stop rest (i + 1) (o.1.ri.failed && stop) o.1.ph

/-- `place.mw`: what the handlers read with the item chain installed. -/
def mwPlace (chain : List MwStage) (srv : Srv) (req : Req) : String :=
  if Accepted srv req then
    "ok obs=" ++ renderObs (mwObs (chainItemObs srv chain) (req.opt == optStop) req.items 0 false 0)
  else "ok obs=-"

def mwRun (chain : List MwStage) (srv : Srv) (req : Req) : String :=
  if Accepted srv req then
    let (items, entered) := loopG (chainItem srv chain) (req.opt == optStop) req.items 0 false 0
    "ok " ++ toString req.ver.1 ++ "." ++ toString req.ver.2 ++ " " ++ toString req.count
      ++ " " ++ joinOr "," (items.map renderRItem) ++ " entered=" ++ joinOr "." (entered.map toString)
  else
    let o := execFull srv req
    "ok " ++ toString o.resp.ver.1 ++ "." ++ toString o.resp.ver.2 ++ " " ++ toString o.resp.count
      ++ " " ++ joinOr "," (o.resp.items.map renderRItem) ++ " entered=-"

/-- the steps of a request, each marked with whether the harness schedules it (`true`: handler
    access) or it is performed by the library (`false`: the `Clear` of `handleBatchItemError`). -/
private def markedLoop (srv : Srv) (stop : Bool) : List Batch.Item → Bool → List (PAct × Bool)
  | [], _ => []
  | it :: rest, stopped =>
    if stopped then markedLoop srv stop rest true
    else
      (if dispatched srv it then it.acts.map (·, true) else [])
        ++ (if fails srv it then [(PAct.clear, false)] else [])
        ++ markedLoop srv stop rest (fails srv it && stop)

private def markedSteps (srv : Srv) (req : Req) : List (PAct × Bool) :=
  if Accepted srv req then markedLoop srv (req.opt == optStop) req.items false
  else [(.clear, false)]

/-- expand a schedule over scheduled steps into one over all steps: after a scheduled step of
    request `r` come the library steps that follow it. `rem[r]` = marks of the steps still to run
    (the head is always a scheduled step). -/
private def expandSched : List Nat → List (List Bool) → List Nat
  | [], _ => []
  | r :: rs, rem =>
    match rem[r]? with
    | some (_ :: tl) =>
      let lib := tl.takeWhile (· == false)
      List.replicate (1 + lib.length) r ++ expandSched rs (rem.set r (tl.drop lib.length))
    | _ => expandSched rs rem

private def renderWorldObs (os : List Obs) : String :=
  joinOr "." (os.map fun | .val v => toString v | .panic => "!")

/-- the parent context the harness gives request `i` in `mode`. -/
private def parentFor (mode : String) (i : Nat) : Parent :=
  if mode = "nest" then (if i = 0 then .conn 0 else .inside (i - 1))
  else if mode = "par" then .conn (i / 3)
  else if mode = "seq" then .conn 0
  else .conn (i % 2)

def placeRun (mode : String) (reqs : List (Srv × Req)) : Option String := do
  let marked := reqs.map fun (srv, req) => markedSteps srv req
  -- the marked view and `Batch.steps` are the same sequence
  if marked.map (·.map (·.1)) ≠ reqs.map (fun (srv, req) => steps srv req) then none
  let idx := List.range reqs.length
  let progs := (idx.zip reqs).map fun (i, (srv, req)) => prog1 (parentFor mode i) (steps srv req)
  let sched ←
    if mode = "seq" ∨ mode = "par" ∨ mode = "nest" then some []
    else if mode.startsWith "il:" then
      (parseList (mode.drop 3).toString "." String.toNat?).map fun rs =>
        -- `enter` is scheduled, the `core` step that follows it is the library's
        expandSched rs (marked.map fun m => true :: false :: m.map (·.2))
    else none
  let (_, log) := runWorld Impl.go World.init (mergeBy sched progs)
  let parts := (idx.zip reqs).map fun (i, (srv, req)) =>
    renderObs (execFull srv req).obs ++ "~" ++ renderWorldObs (obsOf i log)
  pure ("ok " ++ " | ".intercalate parts)

private def parseImpl (s : String) : Option Impl :=
  match s.toList with
  | [a, r, e, c] => do
    let alloc ← match a with
      | 'F' => some Alloc.fresh | 'R' => some Alloc.reuse | 'G' => some Alloc.global | _ => none
    let bit : Char → Option Bool := fun ch => if ch = '1' then some true else if ch = '0' then some false else none
    pure { alloc := alloc, reset := ← bit r, atEntry := ← bit e, atCore := ← bit c }
  | _ => none

private def renderImpl (i : Impl) : String :=
  let bit (b : Bool) : String := if b then "1" else "0"
  (match i.alloc with | .fresh => "F" | .reuse => "R" | .global => "G")
    ++ bit i.reset ++ bit i.atEntry ++ bit i.atCore

private def parseParent (s : String) : Option Parent :=
  if s.startsWith "c" then (s.drop 1).toString.toNat?.map .conn
  else if s.startsWith "i" then (s.drop 1).toString.toNat?.map .inside
  else none

/-- one call: the parent, and per run (number of derived contexts, request). -/
private def parseCall (s : String) : Option (Parent × List (Nat × Srv × Req)) :=
  match s.splitOn " > " with
  | [] => none
  | p :: runs => do
    let p ← parseParent p.trimAscii.toString
    let runs ← runs.mapM fun r =>
      match r.splitOn " ! " with
      | [w, q] => do
        let w ← w.trimAscii.toString.toNat?
        let (srv, req) ← parseRequest q.trimAscii.toString
        pure (w, srv, req)
      | _ => none
    pure (p, runs)

/-- the steps of a call marked scheduled / library: `enter` is scheduled; of each run the `core`
    step is scheduled and the `wrap`s before it are attached to the preceding scheduled step. -/
private def markedCall (c : Parent × List (Nat × Srv × Req)) : List (GStep × Bool) :=
  (GStep.enter c.1, true) :: (c.2.map fun (w, srv, req) =>
    (List.range w).map (fun k => (GStep.wrap k, false)) ++
      (GStep.core, true) :: (markedSteps srv req).map fun (a, m) => (GStep.act a, m)).flatten

def placeWorld (impl : Impl) (mode : String) (calls : List (Parent × List (Nat × Srv × Req))) :
    Option String := do
  let marked := calls.map markedCall
  let progs := calls.map fun c => prog c.1 (c.2.map fun (w, srv, req) => ⟨List.range w, steps srv req⟩)
  if marked.map (·.map (·.1)) ≠ progs then none
  let sched ←
    if mode = "seq" ∨ mode = "par" then some []
    else if mode.startsWith "il:" then
      (parseList (mode.drop 3).toString "." String.toNat?).map fun rs =>
        expandSched rs (marked.map fun m => m.map (·.2))
    else none
  let (_, log) := runWorld impl World.init (mergeBy sched progs)
  let parts := (List.range calls.length).map fun i => renderWorldObs (obsOf i log)
  pure ("ok " ++ " | ".intercalate parts)

def handleBatch (cmd arg : String) : Option String :=
  match cmd with
  | "batch.exec" => some <|
    match parseRequest arg with
    | some (srv, req) => renderOut (execFull srv req)
    | none => "bad-op"
  | "batch.mw" => some <|
    let (ch, rest) := splitCmd arg
    match (ch.splitOn ",").mapM parseStage, parseRequest rest with
    | some chain, some (srv, req) => mwRun chain srv req
    | _, _ => "bad-op"
  | "place.mw" => some <|
    let (ch, rest) := splitCmd arg
    match (ch.splitOn ",").mapM parseStage, parseRequest rest with
    | some chain, some (srv, req) => mwPlace chain srv req
    | _, _ => "bad-op"
  | "place.obs" => some <|
    match parseRequest arg with
    | some (srv, req) => "ok obs=" ++ renderObs (execFull srv req).obs
    | none => "bad-op"
  | "place.run" => some <|
    let (mode, rest) := splitCmd arg
    match (rest.splitOn " | ").mapM parseRequest with
    | some reqs => (placeRun mode reqs).getD "bad-op"
    | none => "bad-op"
  | "place.world" => some <|
    let (impl, rest) := splitCmd arg
    let (mode, rest) := splitCmd rest
    match parseImpl impl, (rest.splitOn " | ").mapM parseCall with
    | some impl, some calls => (placeWorld impl mode calls).getD "bad-op"
    | _, _ => "bad-op"
  | "place.impl" => some ("ok " ++ renderImpl Impl.go)
  | "place.resolve" => some <|
    match arg.splitOn " " with
    | [a, b] =>
      match a.toNat?, b.toNat? with
      | some ph, some id =>
        match resolve ph id with
        | some v => "ok " ++ toString v
        | none => "err"
      | _, _ => "bad-op"
    | _ => "bad-op"
  | _ => none

end Driver
