#!/bin/sh
# setup_cmd: build everything from files on disk (offline): Go harness + extractor (against /repo, -tags verif),
# regenerated Lean tables, the Lean model, every claimed property's proof module, and the model driver.
set -e
cd "$(dirname "$0")/.."
export GOFLAGS=-mod=mod GOPROXY=off
mkdir -p .work/bin .work/out evidence replays
cp /repo/go.sum go/go.sum
(cd go && go build -tags verif -o ../.work/bin/harness ./cmd/harness && go build -tags verif -o ../.work/bin/extract ./cmd/extract)
.work/bin/extract -out lean/KmipModel/Gen
rm -f .work/bin/stamp
MODS=$(python3 -c "
import sys; sys.path.insert(0,'bin')
from props import PROPS
print(' '.join('KmipModel.Props.'+p for p in sorted(PROPS)))")
(cd lean && lake build kmip-model $MODS)
echo setup-ok
