/-
  Scenario-restricted runs of `CliConn` (correspondence with the harness, command `lts.member`).

  The harness drives the real client through a scripted scenario and observes a canonical outcome;
  the model explores ALL interleavings of `CliConn`'s processes under the same script and answers
  whether the observed outcome is one of the possible terminal outcomes (impl ⊆ model).

    scenario := phase {';' phase}
    phase    := acts ['/' faults]
    acts     := { 'p' | 'n' | 'x' | 'k' | 'K' } n (first phase only): the version negotiation of `DialContext` — the
                                              dial has been made and its connection installed, then a call
                                              like p;
                                              p: a call that is never cancelled; x: a call whose context MAY be
                                              cancelled at any step; all calls of a phase are issued
                                              concurrently (any order); k: `Close()` at any time during the
                                              phase; K: `Close()` after every call of the phase has returned
    faults   := { 'e' | 'r' | 'w' | 'f' | 'd' } each letter: the injector MAY fail, once, during this phase:
                                              a read with EOF/closed (e), a read with a reset (r), a write
                                              with closed-pipe (w), a write with another error (f), a dial (d)
    outcome  := phaseOut {';' phaseOut} '|d' (<dials> | '*')
    phaseOut := okP '.' errP '.' okX '.' errX   calls of each kind that returned a response / an error
    dials    := number of dial attempts in the whole scenario ('*': not observed — the harness reports it only
                where the property speaks about dialing: closed clients, failed dials)
  A scenario may start with the header `b<n>;`: the retry budget OBSERVED on the real code (re-transmissions
  after the first); the run then uses `{ p with retries := n }`, so the outcome sets are those of a client
  with the budget the code really has (and `lts.budget` separately compares it with `current.retries`).
  A phase ends when all its calls have returned and its `Close()` (if any) has returned. The server
  answers every request after an arbitrary delay.
-/
import KmipModel.Model.CliConn
namespace Kmip.CliScenario
open Kmip.CliConn

structure Phase where
  plain : Nat
  canc : Nat
  close : Nat          -- 0 none, 1 concurrent, 2 after the calls
  fE : Nat
  fR : Nat
  fW : Nat
  fF : Nat
  fD : Nat
  neg : Bool := false  -- the phase's first call is `DialContext`'s negotiation (a fresh connection exists)
  deriving Repr, Inhabited

abbrev Scen := List Phase

structure SSt where
  st : St
  ph : Nat
  remP : Nat
  remX : Nat
  cur : Nat            -- kind of the running call: 0 none, 1 plain, 2 cancellable
  fE : Nat
  fR : Nat
  fW : Nat
  fF : Nat
  fD : Nat
  okP : Nat
  errP : Nat
  okX : Nat
  errX : Nat
  outs : List Nat      -- finished phases, 4 numbers each (reversed)
  dials : Nat
  deriving Repr, Inhabited

def load (sc : Scen) (i : Nat) (s : SSt) : SSt :=
  match sc[i]? with
  | some ph => { s with ph := i, remP := ph.plain, remX := ph.canc, cur := 0, fE := ph.fE, fR := ph.fR,
                        fW := ph.fW, fF := ph.fF, fD := ph.fD, okP := 0, errP := 0, okX := 0, errX := 0 }
  | none => { s with ph := i, remP := 0, remX := 0, cur := 0, fE := 0, fR := 0, fW := 0, fF := 0, fD := 0,
                     okP := 0, errP := 0, okX := 0, errX := 0 }

def init (sc : Scen) : SSt :=
  let neg := (sc.head?.map (·.neg)).getD false
  load sc 0 { st := if neg then freshConn CliConn.init else CliConn.init, ph := 0, remP := 0, remX := 0, cur := 0,
              fE := 0, fR := 0, fW := 0, fF := 0,
              fD := 0, okP := 0, errP := 0, okX := 0, errX := 0, outs := [], dials := if neg then 1 else 0 }

/-- lift an inner step, observing returns and dials. -/
def observe (s : SSt) (t : St) : SSt :=
  let s1 :=
    if (s.st.kp == .retOk || s.st.kp == .retErr) && t.kp == .idle then
      let ok := s.st.kp == .retOk
      if s.cur = 1 then { s with cur := 0, okP := s.okP + ok.toNat, errP := s.errP + (!ok).toNat }
      else { s with cur := 0, okX := s.okX + ok.toNat, errX := s.errX + (!ok).toNat }
    else s
  let s2 := if s.st.kp == .rc5 && t.kp != .rc5 then { s1 with dials := s1.dials + 1 } else s1
  { s2 with st := t }

def step (p : Params) (sc : Scen) (s : SSt) : List SSt :=
  match sc[s.ph]? with
  | none => []
  | some ph =>
    let i := s.st
    let callsDone := s.remP = 0 ∧ s.remX = 0 ∧ i.kp = .idle
    ((stepInt p i).map (observe s))
    -- calls
    ++ (if s.remP > 0 then (envStart p i).map fun t => { observe s t with remP := s.remP - 1, cur := 1 } else [])
    ++ (if s.remX > 0 then (envStart p i).map fun t => { observe s t with remX := s.remX - 1, cur := 2 } else [])
    ++ (if s.cur = 2 then (envCancel i).map (observe s) else [])
    -- Close
    ++ (if ph.close = 1 ∨ (ph.close = 2 ∧ callsDone) then (envClose p i).map (observe s) else [])
    -- server
    ++ (envAnswer i).map (observe s) ++ (envWritten i).map (observe s)
    -- faults
    ++ (if s.fE > 0 then (envReadFault i 1).map fun t => { observe s t with fE := s.fE - 1 } else [])
    ++ (if s.fR > 0 then (envReadFault i 2).map fun t => { observe s t with fR := s.fR - 1 } else [])
    ++ (if s.fW > 0 then (envWriteFault p i 1).map fun t => { observe s t with fW := s.fW - 1 } else [])
    ++ (if s.fF > 0 then (envWriteFault p i 2).map fun t => { observe s t with fF := s.fF - 1 } else [])
    ++ (if s.fD > 0 then (envDialFail i).map fun t => { observe s t with fD := s.fD - 1 } else [])
    -- end of phase
    ++ (if callsDone ∧ (ph.close = 0 ∨ i.cp = .cDone) then
          [load sc (s.ph + 1) { s with outs := s.errX :: s.okX :: s.errP :: s.okP :: s.outs }]
        else [])

/-- the outcome of a finished run: the per-phase numbers in order, then the dial count. -/
def terminal (sc : Scen) (s : SSt) : Option (List Nat) :=
  if s.ph ≥ sc.length then some (s.outs.reverse ++ [s.dials]) else none

def code (s : SSt) : Nat :=
  let small := pack [(s.ph, 16), (s.remP, 8), (s.remX, 8), (s.cur, 3), (s.fE, 8), (s.fR, 8), (s.fW, 8),
    (s.fF, 8), (s.fD, 8), (s.okP, 8), (s.errP, 8), (s.okX, 8), (s.errX, 8), (s.dials, 64)]
  let outs := s.outs.foldl (fun acc x => acc * 8 + x + 1) 0
  (outs * 2 ^ 64 + small) * 2 ^ 80 + CliConn.code s.st

/-! ### parsing / rendering (driver only; not used by any theorem) -/

def count (cs : List Char) (c : Char) : Nat := (cs.filter (· == c)).length

def parsePhase (s : String) : Option Phase :=
  let (a, f) := match s.splitOn "/" with
    | [a] => (a, "")
    | [a, f] => (a, f)
    | _ => ("?", "")
  let ac := a.toList
  let fc := f.toList
  if ac.all (fun c => c == 'p' || c == 'n' || c == 'x' || c == 'k' || c == 'K') ∧
     fc.all (fun c => c == 'e' || c == 'r' || c == 'w' || c == 'f' || c == 'd') ∧ !ac.isEmpty then
    some { plain := count ac 'p' + count ac 'n', canc := count ac 'x', neg := ac.contains 'n',
           close := if ac.contains 'k' then 1 else if ac.contains 'K' then 2 else 0,
           fE := count fc 'e', fR := count fc 'r', fW := count fc 'w', fF := count fc 'f', fD := count fc 'd' }
  else none

def parse (s : String) : Option Scen := (s.splitOn ";").mapM parsePhase

/-- `b<n>;<scenario>`: the observed retry budget and the scenario (`none` budget: no header). -/
def parseWithBudget (s : String) : Option (Option Nat × Scen) :=
  match s.splitOn ";" with
  | hd :: rest =>
    if hd.startsWith "b" ∧ !rest.isEmpty then
      match (hd.drop 1).toString.toNat?, rest.mapM parsePhase with
      | some b, some sc => some (some b, sc)
      | _, _ => none
    else (parse s).map fun sc => (none, sc)
  | [] => none

/-- the per-phase numbers and the dial count (`none` = `*`, any). -/
def parseOutcome (s : String) : Option (List Nat × Option Nat) :=
  match s.splitOn "|d" with
  | [a, d] => do
    let ps ← (a.splitOn ";").mapM fun ph => (ph.splitOn ".").mapM String.toNat?
    if !ps.all (·.length == 4) then none
    else if d == "*" then some (ps.flatten, none)
    else do
      let d ← d.toNat?
      some (ps.flatten, some d)
  | _ => none

def renderOutcome (o : List Nat) : String :=
  let rec go : List Nat → List String
    | a :: b :: c :: d :: rest@(_ :: _) => s!"{a}.{b}.{c}.{d}" :: go rest
    | _ => []
  ";".intercalate (go o) ++ "|d" ++ toString (o.getLast?.getD 0)

end Kmip.CliScenario
