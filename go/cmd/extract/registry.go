package main

import (
	"bytes"
	"fmt"
	"os"
	"path/filepath"
	"sort"

	"github.com/ovh/kmip-go/ttlv"

	// The harness binary also links the client and the server packages: link them here too, so that a
	// registration done in one of their init functions is in the regenerated tables as well (the live dump of
	// the harness and Gen.Registry must describe the same process-wide registries).
	_ "github.com/ovh/kmip-go/kmipclient"
	_ "github.com/ovh/kmip-go/kmipserver"
)

// Generated module KmipModel.Gen.Registry (namespace Kmip.Gen) and the pinned reference
// KmipModel.Pinned.Registry (namespace Kmip.Pinned) share this emitter.

type entry struct {
	Num  uint64
	Name string
}

type enumTab struct {
	Tag     uint64
	ByValue []entry // enumNames[tag]      value -> name
	ByName  []entry // enumsByName[tag]    name  -> value
}

type maskTab struct {
	Tag    uint64
	Names  []string // bitmaskNames[tag]   position i <-> flag 1<<i
	ByName []entry  // bitmaskByName[tag]  name -> flag (uint32 bit pattern of the int32)
}

type regData struct {
	Tags       []entry // tagNames   value -> name
	TagsByName []entry // tagByName  name  -> value
	Enums      []enumTab
	Masks      []maskTab
	TypeTags   []entry // tagByType: Go type string -> tag   (Gen only)
	EnumTypes  []entry // enums:     Go type string -> tag   (Gen only)
	MaskTypes  []entry // bitmasks:  Go type string -> tag   (Gen only)
}

func named(l []ttlv.VerifNamed, what string, mask32 bool) ([]entry, error) {
	res := make([]entry, 0, len(l))
	for _, n := range l {
		v := n.Value
		if mask32 {
			v = int64(uint32(int32(v))) // flags are int32 in Go; the tables carry the 32-bit pattern
		}
		if v < 0 {
			return nil, fmt.Errorf("%s: negative number %d for %q", what, n.Value, n.Name)
		}
		res = append(res, entry{uint64(v), n.Name})
	}
	return res, nil
}

// liveRegistry snapshots the process-wide registries of the library (after all init functions).
func liveRegistry() (regData, error) {
	d := ttlv.VerifDumpRegistry()
	var r regData
	var err error
	if r.Tags, err = named(d.Tags, "tagNames", false); err != nil {
		return r, err
	}
	if r.TagsByName, err = named(d.TagsByName, "tagByName", false); err != nil {
		return r, err
	}
	if r.TypeTags, err = named(d.TypeTags, "tagByType", false); err != nil {
		return r, err
	}
	if r.EnumTypes, err = named(d.EnumTypes, "enums", false); err != nil {
		return r, err
	}
	if r.MaskTypes, err = named(d.BitmaskTypes, "bitmasks", false); err != nil {
		return r, err
	}
	for _, e := range d.Enums {
		t := enumTab{Tag: uint64(e.Tag)}
		if t.ByValue, err = named(e.ByValue, "enumNames", false); err != nil {
			return r, err
		}
		if t.ByName, err = named(e.ByName, "enumsByName", false); err != nil {
			return r, err
		}
		r.Enums = append(r.Enums, t)
	}
	for _, m := range d.Bitmasks {
		t := maskTab{Tag: uint64(m.Tag), Names: append([]string(nil), m.Names...)}
		if t.ByName, err = named(m.ByName, "bitmaskByName", true); err != nil {
			return r, err
		}
		r.Masks = append(r.Masks, t)
	}
	r.sort()
	return r, nil
}

// sort puts every table in its canonical order (by number, then by name) so that output is deterministic.
func (r *regData) sort() {
	by := func(l []entry) {
		sort.Slice(l, func(i, j int) bool {
			if l[i].Num != l[j].Num {
				return l[i].Num < l[j].Num
			}
			return l[i].Name < l[j].Name
		})
	}
	by(r.Tags)
	by(r.TagsByName)
	by(r.TypeTags)
	by(r.EnumTypes)
	by(r.MaskTypes)
	for i := range r.Enums {
		by(r.Enums[i].ByValue)
		by(r.Enums[i].ByName)
	}
	for i := range r.Masks {
		by(r.Masks[i].ByName)
	}
	sort.Slice(r.Enums, func(i, j int) bool { return r.Enums[i].Tag < r.Enums[j].Tag })
	sort.Slice(r.Masks, func(i, j int) bool { return r.Masks[i].Tag < r.Masks[j].Tag })
}

func (r *regData) tagName(tag uint64) string {
	for _, e := range r.Tags {
		if e.Num == tag {
			return e.Name
		}
	}
	return fmt.Sprintf("0x%06X", tag)
}

const pairTy = "List (Nat × Nat)"

func byNumElems(l []entry, width int) []elem {
	res := make([]elem, len(l))
	for i, e := range l {
		res[i] = pairNumName(e.Num, width, e.Name)
	}
	return res
}

func byNameElems(l []entry, width int) []elem {
	res := make([]elem, len(l))
	for i, e := range l {
		res[i] = pairNameNum(e.Name, e.Num, width)
	}
	return res
}

// renderRegistry renders a registry module. The Go-type tables ttlv.enums / ttlv.bitmasks (WHICH table a typed
// value is written and read with) are part of both modules; ttlv.tagByType (the default tag of a type) is
// Gen only: Props/C17 ties it to the two others (`typesWF`), so the pin needs no copy of it.
func renderRegistry(header, namespace string, r regData, withTypeTags bool) []byte {
	var w bytes.Buffer
	w.WriteString(header)
	fmt.Fprintf(&w, "namespace %s\n\n", namespace)

	nEnumVals := 0
	for _, e := range r.Enums {
		nEnumVals += len(e.ByValue)
	}
	nFlags := 0
	for _, m := range r.Masks {
		nFlags += len(m.Names)
	}
	fmt.Fprintf(&w, "/-! sizes: %d tags (%d names), %d enumerations with %d values, %d bit masks with %d flags.\n", len(r.Tags), len(r.TagsByName), len(r.Enums), nEnumVals, len(r.Masks), nFlags)
	w.WriteString("    A name is packed as the base-256 number `0x01 <UTF-8 bytes>` (see `Kmip.Reg.pack`). -/\n\n")

	emitList(&w, fmt.Sprintf("ttlv.tagNames: tag number ↦ name (%d entries).", len(r.Tags)), "tagNames", pairTy, byNumElems(r.Tags, 6))
	emitList(&w, fmt.Sprintf("ttlv.tagByName: name ↦ tag number (%d entries).", len(r.TagsByName)), "tagByName", pairTy, byNameElems(r.TagsByName, 6))

	var idx []elem
	for _, e := range r.Enums {
		tn := r.tagName(e.Tag)
		bv := fmt.Sprintf("enum_%06X_byValue", e.Tag)
		bn := fmt.Sprintf("enum_%06X_byName", e.Tag)
		emitList(&w, fmt.Sprintf("enumeration %s (tag 0x%06X): value ↦ name (%d entries).", tn, e.Tag, len(e.ByValue)), bv, pairTy, byNumElems(e.ByValue, 8))
		emitList(&w, fmt.Sprintf("enumeration %s (tag 0x%06X): name ↦ value (%d entries).", tn, e.Tag, len(e.ByName)), bn, pairTy, byNameElems(e.ByName, 8))
		idx = append(idx, elem{fmt.Sprintf("(0x%06X, %s, %s)", e.Tag, bv, bn), tn})
	}
	emitList(&w, "every registered enumeration: (tag, value ↦ name, name ↦ value).", "enums", "List (Nat × List (Nat × Nat) × List (Nat × Nat))", idx)

	idx = nil
	for _, m := range r.Masks {
		tn := r.tagName(m.Tag)
		ns := fmt.Sprintf("mask_%06X_names", m.Tag)
		bn := fmt.Sprintf("mask_%06X_byName", m.Tag)
		var es []elem
		for i, n := range m.Names {
			es = append(es, elem{leanName(n), fmt.Sprintf("bit %d = 0x%08X %q", i, uint64(1)<<uint(i), n)})
		}
		emitList(&w, fmt.Sprintf("bit mask %s (tag 0x%06X): flag names in bit order, position i ↔ 1 <<< i (%d flags).", tn, m.Tag, len(m.Names)), ns, "List Nat", es)
		emitList(&w, fmt.Sprintf("bit mask %s (tag 0x%06X): name ↦ flag (%d entries).", tn, m.Tag, len(m.ByName)), bn, pairTy, byNameElems(m.ByName, 8))
		idx = append(idx, elem{fmt.Sprintf("(0x%06X, %s, %s)", m.Tag, ns, bn), tn})
	}
	emitList(&w, "every registered bit mask: (tag, flag names in bit order, name ↦ flag).", "masks", "List (Nat × List Nat × List (Nat × Nat))", idx)

	if withTypeTags {
		emitList(&w, "ttlv.tagByType: Go type (packed `reflect.Type.String()`) ↦ default tag.", "typeTags", pairTy, byNameElems(r.TypeTags, 6))
	}
	emitList(&w, "ttlv.enums: Go enumeration type ↦ tag.", "enumTypes", pairTy, byNameElems(r.EnumTypes, 6))
	emitList(&w, "ttlv.bitmasks: Go bit-mask type ↦ tag.", "maskTypes", pairTy, byNameElems(r.MaskTypes, 6))
	fmt.Fprintf(&w, "end %s\n", namespace)
	return w.Bytes()
}

const genHeader = `/-
  GENERATED by /verif/go/cmd/extract from the live registries of github.com/ovh/kmip-go
  (ttlv.VerifDumpRegistry() after every init function ran). DO NOT EDIT: regenerated on every check.
  The forward and the reverse Go maps are dumped SEPARATELY (tagNames / tagByName, enumNames /
  enumsByName, bitmaskNames / bitmaskByName): a duplicate registration makes them differ.
-/
`

// writeRegistry writes <outDir>/Registry.lean (module KmipModel.Gen.Registry).
func writeRegistry(outDir string) (bool, error) {
	r, err := liveRegistry()
	if err != nil {
		return false, err
	}
	return writeIfChanged(filepath.Join(outDir, "Registry.lean"), renderRegistry(genHeader, "Kmip.Gen", r, true))
}

const pinHeader = `/-
  PINNED reference registry of KMIP 1.0 – 1.4 (tags, enumerations with their values, bit masks with their
  flags) in the representation of KmipModel.Gen.Registry. TRUSTED, HAND-MAINTAINED DATA.
  FRESHLY WRITTEN by ` + "`extract -pin`" + ` FROM THE CURRENT GO TREE AND NOT YET REVIEWED: review it against the KMIP
  specification and with ` + "`extract -vectors <testdata> -pinned <this file>`" + `, then replace this header by a
  description of the review (see the history of lean/KmipModel/Pinned/Registry.lean for the reviewed pin).
-/
`

// writePin writes the pinned registry (same representation, namespace Kmip.Pinned, without ttlv.tagByType).
func writePin(path string, force bool) error {
	if _, err := os.Stat(path); err == nil && !force {
		return fmt.Errorf("%s exists: the pin is hand-maintained, use -force to overwrite and review the diff", path)
	}
	r, err := liveRegistry()
	if err != nil {
		return err
	}
	_, err = writeIfChanged(path, renderRegistry(pinHeader, "Kmip.Pinned", r, false))
	return err
}
