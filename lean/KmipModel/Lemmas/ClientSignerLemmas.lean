/-
  Lemmas about `Model/ClientSigner.lean` (the `Signer` / `Sign` composite helper).
-/
import KmipModel.Model.ClientSigner
import KmipModel.Lemmas.ClientRespLemmas
namespace Kmip.Signer
open Kmip.Resp

/-- the value of the attribute has the Go type belonging to its name (what the wire decoder guarantees). -/
def Attr.typed : Attr → Bool
  | .objectType v => v.isSome
  | .alg v => v.isSome
  | .link v => v.isSome
  | .mask v => v.isSome
  | .other => true

/-- every attribute of every answer is typed: the script is one a server can put on the wire. -/
def WireTyped (script : List Answer) : Prop := ∀ a ∈ script, ∀ x ∈ a.attrs, x.typed = true

/-- a response `exec` accepts for operation `op`: one successful item with the response payload of `op`. -/
def Accepted (op : Nat) (a : Answer) : Prop :=
  ∃ bi, a.rt = .msg 1 [bi] ∧ bi.status = statusSuccess ∧ bi.payload = some (.resp op)

theorem SRes.bind_ok {α β : Type} (r : SRes α) (f : α → SRes β) (b : β) (h : r.bind f = .ok b) :
    ∃ a, r = .ok a ∧ f a = .ok b := by
  cases r with
  | ok a => exact ⟨a, rfl, h⟩
  | err e => simp [SRes.bind] at h
  | panic => simp [SRes.bind] at h

theorem SRes.bind_panic {α β : Type} (r : SRes α) (f : α → SRes β) (h : r.bind f = .panic) :
    r = .panic ∨ ∃ a, r = .ok a ∧ f a = .panic := by
  cases r with
  | ok a => exact .inr ⟨a, rfl, h⟩
  | err e => simp [SRes.bind] at h
  | panic => exact .inl rfl

/-! ### the attribute loop -/

theorem attrLoop_ne_panic (v : Variant) (expOT expMask : Nat) :
    ∀ (attrs : List Attr) (st : LoopSt), (v.checkedAttrs = true ∨ ∀ x ∈ attrs, x.typed = true) →
      attrLoop v expOT expMask attrs st ≠ .panic := by
  intro attrs
  induction attrs with
  | nil => intro st _; simp [attrLoop]
  | cons x rest ih =>
    intro st h
    have hrest : v.checkedAttrs = true ∨ ∀ y ∈ rest, y.typed = true := by
      rcases h with h | h
      · exact .inl h
      · exact .inr fun y hy => h y (List.mem_cons_of_mem _ hy)
    have hx : v.checkedAttrs = true ∨ x.typed = true := by
      rcases h with h | h
      · exact .inl h
      · exact .inr (h x (List.mem_cons_self ..))
    have hbad : ∀ {α : Type}, v.checkedAttrs = true → (badValue v : SRes α) ≠ .panic := by
      intro α hc; simp [badValue, hc]
    cases x with
    | other => simpa [attrLoop] using ih st hrest
    | objectType o =>
      cases o with
      | none =>
        rcases hx with hc | ht
        · simpa [attrLoop] using hbad hc
        · simp [Attr.typed] at ht
      | some ot =>
        simp only [attrLoop]
        split
        · simp
        · exact ih st hrest
    | alg o =>
      cases o with
      | none =>
        rcases hx with hc | ht
        · simpa [attrLoop] using hbad hc
        · simp [Attr.typed] at ht
      | some a =>
        simp only [attrLoop]
        split
        · simp
        · split
          · exact ih _ hrest
          · split
            · simp
            · exact ih st hrest
    | link o =>
      cases o with
      | none =>
        rcases hx with hc | ht
        · simpa [attrLoop] using hbad hc
        · simp [Attr.typed] at ht
      | some p =>
        obtain ⟨lt, hasId⟩ := p
        simp only [attrLoop]
        split
        · exact ih _ hrest
        · exact ih st hrest
    | mask o =>
      cases o with
      | none =>
        rcases hx with hc | ht
        · simpa [attrLoop] using hbad hc
        · simp [Attr.typed] at ht
      | some m =>
        simp only [attrLoop]
        split
        · simp
        · exact ih st hrest

/-- the unchecked loop panics on the first untyped value it reaches: the witness shape. -/
theorem attrLoop_untyped_head (expOT expMask : Nat) (rest : List Attr) (st : LoopSt) :
    attrLoop unchecked expOT expMask (.alg none :: rest) st = .panic := by
  simp [attrLoop, badValue, unchecked]

/-! ### one GetAttributes exchange -/

theorem nextAnswer_cons (a : Answer) (rest : List Answer) : nextAnswer (a :: rest) = (a, rest) := rfl

theorem nextAnswer_eq (script : List Answer) :
    (script = [] ∧ nextAnswer script = ({ rt := .fail }, [])) ∨
    ∃ a rest, script = a :: rest ∧ nextAnswer script = (a, rest) := by
  cases script with
  | nil => exact .inl ⟨rfl, rfl⟩
  | cons a rest => exact .inr ⟨a, rest, rfl, rfl⟩

theorem exec_fail (t : Tables) (op : Nat) : exec t op true .fail = .err .transport := by
  simp [exec, request, batchOpt]

theorem wireTyped_tail {a : Answer} {rest : List Answer} (h : WireTyped (a :: rest)) : WireTyped rest :=
  fun b hb => h b (List.mem_cons_of_mem _ hb)

theorem verifyKey_ne_panic (v : Variant) (t : Tables) (expOT expMask alg : Nat) (script : List Answer)
    (h : v.checkedAttrs = true ∨ WireTyped script) : verifyKey v t expOT expMask alg script ≠ .panic := by
  unfold verifyKey
  rcases nextAnswer_eq script with ⟨_, hn⟩ | ⟨a, rest, hs, hn⟩
  · rw [hn]; simp [exec_fail]
  · rw [hn]
    simp only
    cases he : exec t opGetAttributes true a.rt with
    | panic => exact absurd he (exec_ne_panic t _ _ _)
    | err e => simp
    | ok p =>
      simp only
      have hl : attrLoop v expOT expMask a.attrs { alg := alg, linked := false } ≠ .panic := by
        apply attrLoop_ne_panic
        rcases h with h | h
        · exact .inl h
        · exact .inr (h a (by rw [hs]; exact List.mem_cons_self ..))
      intro hp
      rcases SRes.bind_panic _ _ hp with h1 | ⟨_, _, h2⟩
      · exact hl h1
      · cases h2

/-- a successful `verifyKey` consumed exactly one answer, and it was an accepted GetAttributes response. -/
theorem verifyKey_ok (v : Variant) (t : Tables) (expOT expMask alg : Nat) (script : List Answer)
    (st : LoopSt) (rest : List Answer) (h : verifyKey v t expOT expMask alg script = .ok (st, rest)) :
    ∃ a, script = a :: rest ∧ Accepted opGetAttributes a := by
  unfold verifyKey at h
  rcases nextAnswer_eq script with ⟨_, hn⟩ | ⟨a, rest', hs, hn⟩
  · rw [hn] at h; simp [exec_fail] at h
  · rw [hn] at h
    simp only at h
    cases he : exec t opGetAttributes true a.rt with
    | panic => rw [he] at h; cases h
    | err e => rw [he] at h; cases h
    | ok p =>
      rw [he] at h
      simp only at h
      obtain ⟨st', _, h2⟩ := SRes.bind_ok _ _ _ h
      simp only [SRes.ok.injEq, Prod.mk.injEq] at h2
      obtain ⟨_, hr⟩ := h2
      subst hr
      obtain ⟨_, _, bi, hrt, hst, hp⟩ := (exec_ok_iff t _ _ _ p).1 he
      exact ⟨a, hs, bi, hrt, hst, hp⟩

theorem wireTyped_of_suffix {a : Answer} {script rest : List Answer} (hs : script = a :: rest)
    (h : WireTyped script) : WireTyped rest := by
  subst hs; exact wireTyped_tail h

/-- a failed item as first answer: the error of the exchange, carrying the item. -/
theorem verifyKey_failed (v : Variant) (t : Tables) (expOT expMask alg : Nat) (a : Answer) (rest : List Answer)
    (bi : Item) (hrt : a.rt = .msg 1 [bi]) (hs : bi.status ≠ statusSuccess) :
    verifyKey v t expOT expMask alg (a :: rest) =
      .err (.exec (.item (enumStr t.ops bi.op) (enumStr t.status bi.status) (enumStr t.reasons bi.reason) bi.msg)) := by
  unfold verifyKey
  rw [nextAnswer_cons]
  simp only
  rw [hrt, exec_err_of_request _ _ _ _ (request_failed t opGetAttributes bi hs)]

/-! ### `Signer` -/

theorem signer_ne_panic (v : Variant) (t : Tables) (priv pub : Bool) (script : List Answer)
    (h : v.checkedAttrs = true ∨ WireTyped script) : signer v t priv pub script ≠ .panic := by
  unfold signer
  split
  · simp
  · intro hp
    rcases SRes.bind_panic _ _ hp with h1 | ⟨⟨pubKnown, alg, rest⟩, h1, h2⟩
    · -- first step
      cases priv with
      | false => simp at h1
      | true =>
        simp only [if_true] at h1
        rcases SRes.bind_panic _ _ h1 with h3 | ⟨_, _, h4⟩
        · exact verifyKey_ne_panic v t _ _ _ script h h3
        · cases h4
    · -- `rest` is a suffix of the script, hence still wire typed
      have hrest : v.checkedAttrs = true ∨ WireTyped rest := by
        rcases h with h | h
        · exact .inl h
        · refine .inr ?_
          cases priv with
          | false =>
            simp only [Bool.false_eq_true, if_false, SRes.ok.injEq, Prod.mk.injEq] at h1
            rw [← h1.2.2]; exact h
          | true =>
            simp only [if_true] at h1
            obtain ⟨⟨st, r⟩, hv, hr⟩ := SRes.bind_ok _ _ _ h1
            simp only [SRes.ok.injEq, Prod.mk.injEq] at hr
            obtain ⟨a, hs, _⟩ := verifyKey_ok v t _ _ _ script st r hv
            rw [← hr.2.2]
            exact wireTyped_of_suffix hs h
      simp only at h2
      split at h2
      · cases h2
      · rcases SRes.bind_panic _ _ h2 with h3 | ⟨⟨st, rest2⟩, h3, h4⟩
        · exact verifyKey_ne_panic v t _ _ _ rest hrest h3
        · have hrest2 : v.checkedAttrs = true ∨ WireTyped rest2 := by
            rcases hrest with h | h
            · exact .inl h
            · obtain ⟨a, hs, _⟩ := verifyKey_ok v t _ _ _ rest st rest2 h3
              exact .inr (wireTyped_of_suffix hs h)
          simp only at h4
          rcases SRes.bind_panic _ _ h4 with h5 | ⟨⟨alg3, rest3⟩, _, h6⟩
          · cases priv with
            | true => simp at h5
            | false =>
              simp only [Bool.false_eq_true, if_false] at h5
              split at h5
              · cases h5
              · rcases SRes.bind_panic _ _ h5 with h7 | ⟨_, _, h8⟩
                · exact verifyKey_ne_panic v t _ _ _ rest2 hrest2 h7
                · cases h8
          · simp only at h6
            cases he : exec t opGet true (nextAnswer rest3).1.rt with
            | panic => exact absurd he (exec_ne_panic t _ _ _)
            | err e => rw [he] at h6; cases h6
            | ok p =>
              rw [he] at h6
              simp only at h6
              split at h6
              · cases h6
              · split at h6 <;> cases h6

/-- `Signer` succeeds only when every exchange it made was accepted: two GetAttributes responses
    followed by one Get response, each a single successful item carrying the response payload of the
    requested operation; and the public key material could be parsed. With the checked variant the key kind
    also agrees with the algorithm announced by the attributes. -/
theorem signer_ok (v : Variant) (t : Tables) (priv pub : Bool) (script : List Answer) (s : SignerVal)
    (rest : List Answer) (h : signer v t priv pub script = .ok (s, rest)) :
    ∃ gas g, script = gas ++ g :: rest ∧ gas.length = 2 ∧
      (∀ a ∈ gas, Accepted opGetAttributes a) ∧ Accepted opGet g ∧ g.key = some s.key ∧
      (v.checkedKey = true → keyMatches s.alg s.key = true) := by
  unfold signer at h
  split at h
  · cases h
  · obtain ⟨⟨pubKnown, alg, rest1⟩, h1, h2⟩ := SRes.bind_ok _ _ _ h
    simp only at h2
    split at h2
    · cases h2
    · obtain ⟨⟨st, rest2⟩, h3, h4⟩ := SRes.bind_ok _ _ _ h2
      simp only at h4
      obtain ⟨⟨alg3, rest3⟩, h5, h6⟩ := SRes.bind_ok _ _ _ h4
      simp only at h6
      -- the Get exchange
      obtain ⟨a2, hs2, hacc2⟩ := verifyKey_ok v t _ _ _ rest1 st rest2 h3
      have hget : ∃ g, rest3 = g :: rest ∧ Accepted opGet g ∧ g.key = some s.key ∧ s.alg = alg3 ∧
          (v.checkedKey = true → keyMatches s.alg s.key = true) := by
        rcases nextAnswer_eq rest3 with ⟨_, hn⟩ | ⟨g, r, hs, hn⟩
        · rw [hn] at h6; simp [exec_fail] at h6
        · rw [hn] at h6
          simp only at h6
          cases he : exec t opGet true g.rt with
          | panic => rw [he] at h6; cases h6
          | err e => rw [he] at h6; cases h6
          | ok p =>
            rw [he] at h6
            simp only at h6
            obtain ⟨_, _, bi, hrt, hst, hp⟩ := (exec_ok_iff t _ _ _ p).1 he
            cases hk : g.key with
            | none => rw [hk] at h6; cases h6
            | some k =>
              rw [hk] at h6
              simp only at h6
              split at h6
              · cases h6
              · rename_i hcond
                simp only [SRes.ok.injEq, Prod.mk.injEq] at h6
                obtain ⟨hsv, hr⟩ := h6
                subst hr
                refine ⟨g, hs, ⟨bi, hrt, hst, hp⟩, ?_, ?_, ?_⟩
                · rw [← hsv]; exact hk
                · rw [← hsv]
                · intro hc
                  rw [← hsv]
                  simp only [hc, Bool.true_and, Bool.not_eq_true', Bool.not_eq_false] at hcond
                  simpa using hcond
      obtain ⟨g, hs3, haccg, hkey, _, hmatch⟩ := hget
      -- the GetAttributes exchanges, by cases on which ids were given
      cases priv with
      | true =>
        simp only [if_true] at h1 h5
        obtain ⟨⟨st1, r1⟩, hv1, hr1⟩ := SRes.bind_ok _ _ _ h1
        simp only [SRes.ok.injEq, Prod.mk.injEq] at hr1 h5
        obtain ⟨a1, hs1, hacc1⟩ := verifyKey_ok v t _ _ _ script st1 r1 hv1
        refine ⟨[a1, a2], g, ?_, rfl, ?_, haccg, hkey, hmatch⟩
        · rw [hs1, hr1.2.2, hs2, h5.2, hs3]; rfl
        · intro a ha
          simp only [List.mem_cons, List.not_mem_nil, or_false] at ha
          rcases ha with rfl | rfl
          · exact hacc1
          · exact hacc2
      | false =>
        simp only [Bool.false_eq_true, if_false, SRes.ok.injEq, Prod.mk.injEq] at h1
        simp only [Bool.false_eq_true, if_false] at h5
        split at h5
        · cases h5
        · obtain ⟨⟨st3, r3⟩, hv3, hr3⟩ := SRes.bind_ok _ _ _ h5
          simp only [SRes.ok.injEq, Prod.mk.injEq] at hr3
          obtain ⟨a3, hs3', hacc3⟩ := verifyKey_ok v t _ _ _ rest2 st3 r3 hv3
          refine ⟨[a2, a3], g, ?_, rfl, ?_, haccg, hkey, hmatch⟩
          · rw [h1.2.2, hs2, hs3', hr3.2, hs3]; rfl
          · intro a ha
            simp only [List.mem_cons, List.not_mem_nil, or_false] at ha
            rcases ha with rfl | rfl
            · exact hacc2
            · exact hacc3

/-! ### `Sign` -/

/-- `Sign` panics exactly when: nothing checks the key, the preliminary checks pass, the Sign exchange is
    accepted, the attributes said EC / ECDSA, and the key material is not an ECDSA key. -/
theorem sign_panic_iff (v : Variant) (t : Tables) (s : SignerVal) (o : SignOpts) (script : List Answer) :
    sign v t s o script = .panic ↔
      (v.checkedKey = false ∧ signPre s.alg o = true ∧ Accepted opSign (nextAnswer script).1 ∧
        (s.alg = algEC ∨ s.alg = algECDSA) ∧ ∀ n, s.key ≠ .ecdsa n) := by
  unfold sign
  constructor
  · intro h
    split at h
    · cases h
    · rename_i hpre
      simp only at h
      cases he : exec t opSign true (nextAnswer script).1.rt with
      | panic => exact absurd he (exec_ne_panic t _ _ _)
      | err e => rw [he] at h; cases h
      | ok p =>
        rw [he] at h
        simp only at h
        obtain ⟨_, _, bi, hrt, hst, hp⟩ := (exec_ok_iff t _ _ _ p).1 he
        split at h
        · rename_i halg
          split at h
          · cases h
          · rename_i hk
            split at h
            · cases h
            · rename_i hc
              refine ⟨by simpa using hc, by simpa using hpre, ⟨bi, hrt, hst, hp⟩, halg, ?_⟩
              intro n hn
              exact hk n hn
        · cases h
  · intro ⟨hc, hpre, ⟨bi, hrt, hst, hp⟩, halg, hk⟩
    have he : exec t opSign true (nextAnswer script).1.rt = .ok (.resp opSign) :=
      (exec_ok_iff t _ _ _ _).2 ⟨rfl, rfl, bi, hrt, hst, hp⟩
    simp only [hpre, Bool.not_true, Bool.false_eq_true, if_false, he, halg, if_true]
    cases hkey : s.key with
    | ecdsa n => exact absurd hkey (hk n)
    | rsa => simp [hc]
    | other => simp [hc]

theorem sign_ne_panic_of_checked (v : Variant) (t : Tables) (s : SignerVal) (o : SignOpts) (script : List Answer)
    (h : v.checkedKey = true) : sign v t s o script ≠ .panic := by
  intro hp
  have := ((sign_panic_iff v t s o script).1 hp).1
  rw [h] at this
  cases this

/-- a successful signature comes from an accepted Sign response. -/
theorem sign_ok (v : Variant) (t : Tables) (s : SignerVal) (o : SignOpts) (script : List Answer) (c : Bool)
    (h : sign v t s o script = .ok c) :
    signPre s.alg o = true ∧ Accepted opSign (nextAnswer script).1 := by
  unfold sign at h
  split at h
  · cases h
  · rename_i hpre
    simp only at h
    cases he : exec t opSign true (nextAnswer script).1.rt with
    | panic => rw [he] at h; cases h
    | err e => rw [he] at h; cases h
    | ok p =>
      obtain ⟨_, _, bi, hrt, hst, hp⟩ := (exec_ok_iff t _ _ _ p).1 he
      exact ⟨by simpa using hpre, bi, hrt, hst, hp⟩

/-- a failed item in answer to the Sign request: the error of the exchange, carrying the item. -/
theorem sign_failed (v : Variant) (t : Tables) (s : SignerVal) (o : SignOpts) (a : Answer) (rest : List Answer)
    (bi : Item) (hpre : signPre s.alg o = true) (hrt : a.rt = .msg 1 [bi]) (hs : bi.status ≠ statusSuccess) :
    sign v t s o (a :: rest) =
      .err (.exec (.item (enumStr t.ops bi.op) (enumStr t.status bi.status) (enumStr t.reasons bi.reason) bi.msg)) := by
  unfold sign
  simp only [hpre, Bool.not_true, Bool.false_eq_true, if_false, nextAnswer_cons]
  rw [hrt, exec_err_of_request _ _ _ _ (request_failed t opSign bi hs)]

end Kmip.Signer
