/-
  C02 — decoders never panic, hang, over-read or mutate on arbitrary input (binary generic layer).

  The model keeps the Go panic primitives visible (`goU32`, `goU64`, `goIndex`, `goBytesToBigInt`
  return `.panic` on short input), so "never panics" is a theorem about the guards of the reader.
  All functions are total (fuel-bounded) and pure, so they neither hang nor mutate their input; the
  extent theorems say that the raw items are taken from inside the input and do not overlap.
-/
import KmipModel.Lemmas.ReaderLemmas
import KmipModel.Lemmas.PlanLemmas
import KmipModel.Gen.Schema
import KmipModel.Props.C03
namespace Kmip.C02
open Kmip

/-- 1a. no getter of the binary reader panics, for any cursor and any expected tag: the length
    guard (`assertLen` / the empty check) precedes the panicking primitive. -/
theorem getters_no_panic (c : Cur) (tag : Nat) :
    (∀ msg, c.integer tag ≠ .panic msg) ∧ (∀ msg, c.longInteger tag ≠ .panic msg) ∧
    (∀ msg, c.enum tag ≠ .panic msg) ∧ (∀ msg, c.bool tag ≠ .panic msg) ∧
    (∀ msg, c.dateTime tag ≠ .panic msg) ∧ (∀ msg, c.interval tag ≠ .panic msg) ∧
    (∀ msg, c.bigInteger tag ≠ .panic msg) ∧ (∀ msg, c.textString tag ≠ .panic msg) ∧
    (∀ msg, c.byteString tag ≠ .panic msg) :=
  ⟨Cur.integer_noPanic c tag, Cur.longInteger_noPanic c tag, Cur.enum_noPanic c tag,
    Cur.bool_noPanic c tag, Cur.dateTime_noPanic c tag, Cur.interval_noPanic c tag,
    Cur.bigInteger_noPanic c tag, Cur.textString_noPanic c tag, Cur.byteString_noPanic c tag⟩

/-- 1b. `Struct(tag, f)` does not panic if the callback does not. -/
theorem struct_no_panic {α : Type} (c : Cur) (tag : Nat) (f : Cur → Res α)
    (hf : ∀ inner msg, f inner ≠ .panic msg) : ∀ msg, c.struct tag f ≠ .panic msg :=
  Cur.struct_noPanic c tag f hf

/-- 1c. the generic value decoder and the structure loop never panic, for any fuel, cursor, tag. -/
theorem decodeValue_no_panic (fuel : Nat) (c : Cur) (tag : Nat) :
    ∀ msg, decodeValue fuel c tag ≠ .panic msg :=
  (decode_noPanic fuel).1 c tag

theorem decodeFields_no_panic (fuel : Nat) (c : Cur) : ∀ msg, decodeFields fuel c ≠ .panic msg :=
  (decode_noPanic fuel).2 c

/-- 1. `UnmarshalTTLV(bs, &ttlv.Value{})` never panics — for every byte string. -/
theorem unmarshalValue_no_panic (bs : Bytes) : ∀ msg, unmarshalValue bs ≠ .panic msg :=
  unmarshalValue_noPanic bs

/-- 2. values are taken from inside the input only: the value of every raw item is a contiguous
    part of the input, after at least the 8 bytes of its header and followed by at least its
    padding. -/
theorem rawParse_within (fuel : Nat) (bs : Bytes) :
    ∀ it ∈ (rawParse fuel bs).1, ∃ pre post, bs = pre ++ it.val ++ post ∧ 8 ≤ pre.length ∧
      padForLen it.val.length 8 ≤ post.length :=
  fun it h => rawParse_within_aux fuel bs it h

/-- 2'. the same in terms of `List.IsInfix` and lengths. -/
theorem rawParse_infix (fuel : Nat) (bs : Bytes) :
    ∀ it ∈ (rawParse fuel bs).1, it.val <:+: bs ∧ 8 + paddedLen it.val.length ≤ bs.length := by
  intro it h
  obtain ⟨pre, post, e, h1, h2⟩ := rawParse_within fuel bs it h
  refine ⟨⟨pre, post, e.symm⟩, ?_⟩
  have := congrArg List.length e
  simp only [List.length_append] at this
  unfold paddedLen
  omega

/-- 3. the items (header + padded value each) fit side by side into the input: no overlap, no
    over-read. -/
theorem rawParse_extent (fuel : Nat) (bs : Bytes) :
    ((rawParse fuel bs).1.map fun it => 8 + paddedLen it.val.length).sum ≤ bs.length :=
  rawParse_extent_aux fuel bs

/-- 4. the library's generic decoder reads back every in-range encoding (`InRange` already demands
    a non-zero tag at every node, so no separate "no zero tag" predicate is needed). -/
theorem unmarshal_enc (t : Item) (h : t.InRange) : unmarshalValue (enc t) = .ok t :=
  unmarshalValue_enc t h

/-- 4'. generalised to any sufficient fuel and any following siblings. -/
theorem decodeValue_enc (t : Item) (h : t.InRange) (fuel : Nat) (hf : t.size ≤ fuel)
    (rs : List RawItem) :
    decodeValue fuel { items := t.raw :: rs, tail := none } t.tag
      = .ok (t, { items := rs, tail := none }) :=
  decodeValue_enc_aux t h fuel hf rs

theorem rawParse_encList_eq (ts : List Item) (h : Item.AllInRange ts) (fuel : Nat)
    (hf : ts.length ≤ fuel) : rawParse fuel (encList ts) = (ts.map Item.raw, none) :=
  rawParse_encList ts h fuel hf

/-! ### non-vacuity -/

theorem sample_inRange : C03.sample.InRange := by
  have e1 : (encodeBig (-128)).length = 8 := by
    rw [encodeBig_neg _ (by decide)]
    simp [negBody, negPad, natToBytesBE, negEncLE, padForLen]
  have e2 : (encodeBig 18446744073709551616).length = 16 := by
    rw [encodeBig_pos _ (by decide)]
    simp [posPad, natToBytesBE, padForLen]
  simp [C03.sample, Item.InRange, Item.AllInRange, inInt, enc, encList, hdr, e1, e2, padForLen]

example : unmarshalValue (enc C03.sample) = .ok C03.sample := unmarshal_enc _ sample_inRange

set_option maxRecDepth 8192 in
/-- an Integer item announcing 2 value bytes: rejected by the length guard, `goU32` is not reached. -/
example : unmarshalValue [0x42, 0, 0x0A, 2, 0, 0, 0, 2, 0, 0, 0, 0, 0, 0, 0, 0] = .err .badLength := by
  rfl

set_option maxRecDepth 8192 in
/-- an empty BigInteger: rejected before `bytesToBigInt` indexes `v[0]`. -/
example : unmarshalValue [0x42, 0, 0x0A, 4, 0, 0, 0, 0] = .err .badLength := by rfl

/-- the panicking primitives do panic on the inputs the guards exclude. -/
example : goU32 [0, 0] = .panic "index out of range [3]" := rfl
example : goBytesToBigInt [] = .panic "index out of range [0] with length 0" := rfl

/-! ## The typed layer (`ttlv.Unmarshal` into the message types: reflective decoder + hand-written decoders)

`Schema.decodeSafe` (Lemmas/PlanLemmas.lean) is a decidable check of the schema regenerated from the Go
types: every reflectively decoded struct has only fields of decodable kinds (no interface, no `int8`/`int16`,
no unsupported type — recursively through pointers and slices) and no untagged interface field; every
struct with a hand-written decoder names one of the decoders that exist and the declared kinds of the
fields that decoder reads are decodable; every type that can sit behind an interface is decodable; every
dyn id produced by the operation / object / attribute tables is a valid index. -/

/-- 5. none of the eight mutually recursive typed decoders panics — any fuel, any cursor (so: any bytes,
    well-formed or not), any version cell. -/
theorem typed_decoders_no_panic (S : Schema) (h : S.decodeSafe = true) (fuel : Nat) :
    (∀ k tag c ver, Kind.leafSafe k = true → ∀ msg, decK S fuel k tag c ver ≠ .panic msg) ∧
    (∀ fields tag c ver, List.all fields Field.decSafe = true →
      ∀ msg, decStruct S fuel fields tag c ver ≠ .panic msg) ∧
    (∀ k tag c ver, Kind.leafSafe k = true → ∀ msg, decList S fuel k tag c ver ≠ .panic msg) ∧
    (∀ fields c ver, List.all fields Field.decSafe = true →
      ∀ msg, decFields S fuel fields c ver ≠ .panic msg) ∧
    (∀ k tag c ver, Kind.leafSafe k = true → ∀ msg, decOpt S fuel k tag c ver ≠ .panic msg) ∧
    (∀ d tag c ver, d < S.dyns.length → ∀ msg, decDyn S fuel d tag c ver ≠ .panic msg) ∧
    (∀ code id tag c ver, customSafe S (S.structDef id).fields code = true →
      ∀ msg, decCustom S fuel code id tag c ver ≠ .panic msg) ∧
    (∀ fmt c ver, unionSafe S Cust.keyMaterial 8 = true →
      ∀ msg, decKeyValue S fuel fmt c ver ≠ .panic msg) :=
  have t := typedNoPanic S ((S.decodeSafe_iff).1 h) fuel
  ⟨t.decK, t.decStruct, t.decList, t.decFields, t.decOpt, t.decDyn, t.decCustom, t.decKeyValue⟩

/-- 6. `UnmarshalTTLV(bs, new(T))` / `dec.TagAny(tag, new(T))` never panics: for EVERY byte string, every
    tag and every target type id `d` (an id that denotes no type of the schema is an error of the model's
    entry point, not a panic). -/
theorem typed_no_panic (S : Schema) (h : S.decodeSafe = true) (d tag : Nat) (bs : Bytes) :
    ∀ msg, unmarshal S d tag bs ≠ .panic msg :=
  unmarshal_noPanic S h d tag bs

/-- 6'. the same, fully quantified (formerly false of the model because `Schema.dyn` totalises an
    out-of-range type id to the kind `.unsupported`; `unmarshal` now rejects such ids). -/
theorem typed_no_panic_full :
    ∀ (S : Schema), S.decodeSafe = true → ∀ (d tag : Nat) (bs : Bytes) (msg : String),
      unmarshal S d tag bs ≠ .panic msg :=
  fun S h d tag bs msg => typed_no_panic S h d tag bs msg

/-- smallest safe schema: one dynamic type, `ttlv.Value`. -/
def tiny : Schema where
  structs := []
  dyns := [{ defTag := 0x420001, kind := .any }]
  ops := []
  objects := []
  attrs := []
  unknownPayloadDyn := 0
  valueDyn := 0

/-- a type id outside the schema: an error, not a panic (`tiny` is safe: the hypothesis is satisfiable). -/
example : tiny.decodeSafe = true ∧
    (unmarshal tiny 1 0 [0x42, 0, 1, 2, 0, 0, 0, 4, 0, 0, 0, 7, 0, 0, 0, 0]).isErr = true := by
  decide +kernel

/-- 7. the schema extracted from the current Go types satisfies the condition (re-checked by the kernel
    every time `Gen/Schema.lean` is regenerated). -/
theorem gen_schema_decodeSafe : Gen.schema.decodeSafe = true := by decide +kernel

/-- 8. hence decoding arbitrary bytes into any of the library's message / payload / object / attribute
    types never panics. -/
theorem gen_typed_no_panic (d tag : Nat) (bs : Bytes) :
    ∀ msg, unmarshal Gen.schema d tag bs ≠ .panic msg :=
  typed_no_panic Gen.schema gen_schema_decodeSafe d tag bs

/-! ### non-vacuity (typed layer) -/

/-- 95 target types. -/
example : Gen.requestMessageDyn < Gen.schema.dyns.length ∧ Gen.schema.dyns.length = 95 := by
  decide +kernel

/-- the condition is not vacuous: it rejects a schema with a reflectively decoded interface field… -/
def unsafeSchema : Schema where
  structs := [{ fields := [{ tag := 0x420002, kind := .iface }] }]
  dyns := [{ defTag := 0x420001, kind := .struct 0 }]
  ops := []
  objects := []
  attrs := []
  unknownPayloadDyn := 0
  valueDyn := 0
example : unsafeSchema.decodeSafe = false := by decide +kernel
/-- …and on that schema the typed decoder does panic (structure 0x420001 containing an Integer 0x420002). -/
example : (unmarshal unsafeSchema 0 0
    [0x42, 0, 1, 1, 0, 0, 0, 16, 0x42, 0, 2, 2, 0, 0, 0, 4, 0, 0, 0, 7, 0, 0, 0, 0]).isPanic = true := by
  decide +kernel

/-- a truncated RequestMessage (header announces 16 bytes, 8 follow) is an error, not a panic. -/
example : (unmarshal Gen.schema Gen.requestMessageDyn 0
    [0x42, 0, 0x78, 1, 0, 0, 0, 16, 0x42, 0, 0x77, 1, 0, 0, 0, 0]).isErr = true := by decide +kernel

end Kmip.C02
