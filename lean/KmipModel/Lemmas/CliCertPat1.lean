/-
  Certificate obligations, parts 8..15 of 64 of the `patched` client system (kernel evaluation; 8 modules
  so that lake checks them in parallel; small parts keep the kernel's memory small).
  Assembled in `Lemmas/CliCert.lean`.
-/
import KmipModel.Model.CliConn
import KmipModel.Gen.CertCliConn
namespace Kmip.CliCert
open Kmip.CliLts Kmip.CliConn Kmip.Gen.CertCliConn

theorem paClosed8 : partClosed (sys patched) codec certPatched paP8 = true := by decide +kernel
theorem paSafe8 : partSafe codec (badFull patched) paP8 = true := by decide +kernel
theorem paClosed9 : partClosed (sys patched) codec certPatched paP9 = true := by decide +kernel
theorem paSafe9 : partSafe codec (badFull patched) paP9 = true := by decide +kernel
theorem paClosed10 : partClosed (sys patched) codec certPatched paP10 = true := by decide +kernel
theorem paSafe10 : partSafe codec (badFull patched) paP10 = true := by decide +kernel
theorem paClosed11 : partClosed (sys patched) codec certPatched paP11 = true := by decide +kernel
theorem paSafe11 : partSafe codec (badFull patched) paP11 = true := by decide +kernel
theorem paClosed12 : partClosed (sys patched) codec certPatched paP12 = true := by decide +kernel
theorem paSafe12 : partSafe codec (badFull patched) paP12 = true := by decide +kernel
theorem paClosed13 : partClosed (sys patched) codec certPatched paP13 = true := by decide +kernel
theorem paSafe13 : partSafe codec (badFull patched) paP13 = true := by decide +kernel
theorem paClosed14 : partClosed (sys patched) codec certPatched paP14 = true := by decide +kernel
theorem paSafe14 : partSafe codec (badFull patched) paP14 = true := by decide +kernel
theorem paClosed15 : partClosed (sys patched) codec certPatched paP15 = true := by decide +kernel
theorem paSafe15 : partSafe codec (badFull patched) paP15 = true := by decide +kernel

end Kmip.CliCert
