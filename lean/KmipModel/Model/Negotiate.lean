/-
  Protocol version negotiation — model of
    kmipclient/client.go   `WithKmipVersions`, `EnforceVersion`, `DialContext`, `negotiateVersion`,
                           `BatchOpt` (header construction), `CloneCtx`
    kmipserver/router.go   `SetSupportedProtocolVersions`, `handleRequest` (header version check, which
                           runs BEFORE the items are dispatched), `handleDiscover`
    requests.go            `NewRequestMessage`
    ttlv/version.go        `CompareVersions`

  Versions are arbitrary (major, minor) integer pairs ordered lexicographically. The server is data
  (`ServerBehaviour`): either the library's own `BatchExecutor` configured with some list, or any
  round trip result whatsoever (`scripted`), so "any server answer" is a quantified argument.

  `slices.SortFunc` (an unstable pattern-defeating quicksort) is modelled by insertion sort; this is
  sound because `CompareVersions a b = 0` only for equal structs, so the descending arrangement of a
  multiset of versions is unique (`Lemmas/NegoLemmas.sortDesc_unique`).
-/
import KmipModel.Model.ClientResp
namespace Kmip.Nego
open Kmip.Resp

abbrev Version := Ver

/-- `ttlv.CompareVersions(a, b) < 0`. -/
def vlt (a b : Version) : Prop := a.1 < b.1 ∨ (a.1 = b.1 ∧ a.2 < b.2)

instance (a b : Version) : Decidable (vlt a b) := by unfold vlt; exact inferInstance

def v10 : Version := (1, 0)
def v11 : Version := (1, 1)
def v12 : Version := (1, 2)
def v13 : Version := (1, 3)
def v14 : Version := (1, 4)

/-- `supportedVersions` (client) and `defaultSupportedVersion` (server): the same literal. -/
def defaultVersions : List Version := [v14, v13, v12, v11, v10]

/-- insertion into a descending list. -/
def insertDesc (x : Version) : List Version → List Version
  | [] => [x]
  | y :: ys => if vlt x y then y :: insertDesc x ys else x :: y :: ys

/-- `slices.SortFunc(l, func(a, b) int { return CompareVersions(b, a) })`. -/
def sortDesc : List Version → List Version
  | [] => []
  | x :: xs => insertDesc x (sortDesc xs)

/-- `slices.Compact`: consecutive runs of equal elements are replaced by one copy. -/
def compact : List Version → List Version
  | [] => []
  | [x] => [x]
  | x :: y :: rest => if x = y then compact (y :: rest) else x :: compact (y :: rest)

/-- one `WithKmipVersions(vs...)` option applied to the options' current list. -/
def withKmipVersions (cur vs : List Version) : List Version :=
  compact (sortDesc (cur ++ vs))

/-- The client's options relevant to negotiation: the successive `WithKmipVersions` calls and the
    (last) `EnforceVersion`. -/
structure ClientCfg where
  calls : List (List Version)
  enforce : Option Version
  deriving Repr, Inhabited

/-- `Client.supportedVersions` after `DialContext` applied the options: an empty list is replaced by the
    default one. -/
def clientList (cfg : ClientCfg) : List Version :=
  let l := cfg.calls.foldl withKmipVersions []
  if l.isEmpty then defaultVersions else l

/-- `normaliseClient`: what a single `WithKmipVersions(vs...)` leaves in the client. -/
def normaliseClient (vs : List Version) : List Version :=
  clientList { calls := [vs], enforce := none }

/-- `BatchExecutor.SetSupportedProtocolVersions(vs...)`: no argument ⇒ the default list. -/
def serverSet (vs : List Version) : List Version :=
  compact (sortDesc (if vs.isEmpty then defaultVersions else vs))

/-- `BatchExecutor.handleDiscover`: an empty request list ⇒ all; else the server's versions the request
    lists, in the server's order. -/
def handleDiscover (S req : List Version) : List Version :=
  if req.isEmpty then S else S.filter (fun v => req.contains v)

/-- "Unsupported protocol version" -/
def msgUnsupported : Msg :=
  [85, 110, 115, 117, 112, 112, 111, 114, 116, 101, 100, 32, 112, 114, 111, 116, 111, 99, 111, 108, 32,
   118, 101, 114, 115, 105, 111, 110]

/-- The library server answering a one-item DiscoverVersions request whose header carries `hdr`:
    `handleRequest` first rejects a header version outside its set (message-level error: one item
    without operation, OperationFailed / InvalidMessage); otherwise the item reaches `handleDiscover`.
    (In-process the payload is a `*DiscoverVersionsRequestPayload`; decoded from the wire by the client
    it is the response type registered for DiscoverVersions.) -/
def libraryRespond (S : List Version) (hdr : Version) (req : List Version) : RoundTrip :=
  if hdr ∈ S then
    .msg 1 [{ op := opDiscover, status := statusSuccess, reason := 0, msg := [],
              payload := some (.resp opDiscover), vers := handleDiscover S req }]
  else
    .msg 1 [{ op := 0, status := statusFailed, reason := reasonInvalidMessage, msg := msgUnsupported,
              payload := none }]

/-- What stands at the other end of the connection during `Dial`. -/
inductive ServerBehaviour where
  | library (set : List Version)   -- kmip-go `BatchExecutor` after `SetSupportedProtocolVersions(set...)`
  | scripted (rt : RoundTrip)      -- anything else: the result of the discovery round trip
  deriving Repr, Inhabited

/-- a server answering DiscoverVersions successfully with the list `vs` (any order, any content). -/
def answers (vs : List Version) : RoundTrip :=
  .msg 1 [{ op := opDiscover, status := statusSuccess, reason := 0, msg := [],
            payload := some (.resp opDiscover), vers := vs }]

/-- a server that does not implement DiscoverVersions. -/
def notSupported (op : Nat) (m : Msg) : RoundTrip :=
  .msg 1 [{ op := op, status := statusFailed, reason := reasonNotSupported, msg := m, payload := none }]

/-- the round trip result of the discovery request (header version `hdr`, listing `req`). -/
def respond : ServerBehaviour → Version → List Version → RoundTrip
  | .library set, hdr, req => libraryRespond (serverSet set) hdr req
  | .scripted rt, _, _ => rt

/-- the loop of `negotiateVersion`: keep the highest answered version that the client supports. -/
def pickLoop (C : List Version) : List Version → Option Version → Option Version
  | [], cur => cur
  | v :: rest, cur =>
    if v ∉ C then pickLoop C rest cur
    else
      match cur with
      | none => pickLoop C rest (some v)
      | some c => if vlt c v then pickLoop C rest (some v) else pickLoop C rest (some c)

/-- `negotiateVersion` from `bi := resp.BatchItem[0]` on. -/
def negotiateItem (t : Tables) (C : List Version) (bi : Item) : Res Version :=
  if bi.status = statusFailed ∧ bi.reason = reasonNotSupported then
    if v10 ∈ C then .ok v10 else .err .negoNoCommon
  else
    match bi.err t with
    | some e => .err e
    | none =>
      match bi.payload with
      | some (.resp 0x1E) =>
        match pickLoop C bi.vers none with
        | some v => .ok v
        | none => .err .negoNoCommon
      | _ => .err .negoPayload

/-- `negotiateVersion` once the round trip returned (client list `C`). -/
def negotiate (t : Tables) (C : List Version) : RoundTrip → Res Version
  | .fail => .err .transport
  | .msg h items =>
    if h ≠ 1 ∨ items.length ≠ 1 then .err .negoCount
    else
      match items with
      | [] => .panic                                  -- `resp.BatchItem[0]`
      | bi :: _ => negotiateItem t C bi

/-- `kmipclient.Client` as far as versions are concerned. -/
structure Client where
  version : Version
  supported : List Version
  deriving Repr, DecidableEq, Inhabited

/-- the header version of the discovery request: always 1.1. -/
def discoverHeader : Version := v11

/-- `DialContext`: an enforced version ⇒ no exchange at all. -/
def dial (t : Tables) (cfg : ClientCfg) (sb : ServerBehaviour) : Res Client :=
  match cfg.enforce with
  | some v => .ok { version := v, supported := clientList cfg }
  | none =>
    match negotiate t (clientList cfg) (respond sb discoverHeader (clientList cfg)) with
    | .ok v => .ok { version := v, supported := clientList cfg }
    | .err e => .err e
    | .panic => .panic

/-- outcome of a connection attempt, error details forgotten. -/
inductive Result where
  | ok (v : Version)
  | err
  | panic
  deriving DecidableEq, Repr, Inhabited

/-- the version a client configured with `cfg` adopts against `sb`. -/
def adopt (cfg : ClientCfg) (sb : ServerBehaviour) : Result :=
  match dial stdTables cfg sb with
  | .ok c => .ok c.version
  | .err _ => .err
  | .panic => .panic

/-! ### later requests -/

/-- `kmip.RequestHeader` fields written by the client (`errCont = 0`: option absent). -/
structure ReqHeader where
  version : Version
  batchCount : Nat
  errCont : Nat
  deriving Repr, DecidableEq, Inhabited

/-- `kmip.NewRequestMessage(version, payloads...)` for `n` payloads. -/
def newRequestHeader (v : Version) (n : Nat) : ReqHeader :=
  { version := v, batchCount := n, errCont := 0 }

/-- `BatchOpt`: build the message with `*c.version`, then apply the options; the library's only
    `BatchOption` is `OnBatchErr(o)`, which writes `BatchErrorContinuationOption`. -/
def batchOptHeader (c : Client) (n : Nat) (opts : List Nat) : ReqHeader :=
  opts.foldl (fun h o => { h with errCont := o }) (newRequestHeader c.version n)

/-- `CloneCtx`: a new client with a copy of the version (no negotiation). -/
def clone (c : Client) : Client :=
  { version := c.version, supported := c.supported }

/-- what a program does with a connected client: send batches, or continue with a clone. -/
inductive Call where
  | batch (n : Nat) (opts : List Nat)
  | clone
  deriving Repr, Inhabited

/-- the request headers produced by a sequence of calls. -/
def run : Client → List Call → List ReqHeader
  | _, [] => []
  | c, .batch n opts :: rest => batchOptHeader c n opts :: run c rest
  | c, .clone :: rest => run (clone c) rest

/-! ### `Client.version` as the MUTABLE POINTER it is

  `c.version` is a `*kmip.ProtocolVersion` field: `DialContext` copies the pointer held by the
  `EnforceVersion` option, `negotiateVersion` stores the address of a fresh variable — or, in the 1.0
  fallback, `&kmip.V1_0`, the address of an EXPORTED PACKAGE VARIABLE —, `CloneCtx` allocates a copy,
  `BatchOpt` and `Version()` dereference it, `reconnect` does not touch it. "Every subsequent request carries
  the adopted version" is therefore a statement about a store of version variables and about every
  operation that may run after `Dial`: requests, lost connections followed by reconnection, clones (of
  clones), `Close`, and assignments to `kmip.V1_0` by other code of the program. -/

/-- the store of `kmip.ProtocolVersion` variables; address 0 is the package variable `kmip.V1_0`. -/
structure Store where
  next : Nat
  val : Nat → Version

def addrV10 : Nat := 0

def Store.init : Store := { next := 1, val := fun _ => v10 }

/-- a fresh variable holding `v` (`v := …; &v`). -/
def Store.alloc (s : Store) (v : Version) : Store × Nat :=
  ({ next := s.next + 1, val := fun a => if a = s.next then v else s.val a }, s.next)

def Store.write (s : Store) (a : Nat) (v : Version) : Store :=
  { s with val := fun b => if b = a then v else s.val b }

/-- `kmipclient.Client`: the version POINTER, the configured list, `closed`, and whether the current
    connection is usable. -/
structure MClient where
  ver : Nat
  supported : List Version
  closed : Bool := false
  connUp : Bool := true
  deriving Repr, DecidableEq, Inhabited

/-- `EnforceVersion(v)`: the option captures the address of its parameter. -/
def enforceOption (s : Store) (v : Version) : Store × Nat := s.alloc v

/-- `DialContext` over the store: `enforce` is the pointer held by the `EnforceVersion` option. -/
def dialM (t : Tables) (s : Store) (calls : List (List Version)) (enforce : Option Nat) (sb : ServerBehaviour) :
    Res (Store × MClient) :=
  let C := clientList { calls := calls, enforce := none }
  match enforce with
  | some p => .ok (s, { ver := p, supported := C })                       -- `version: opts.enforceVersion`
  | none =>
    let rt := respond sb discoverHeader C
    match negotiate t C rt with
    | .err e => .err e
    | .panic => .panic
    | .ok v =>
      -- which assignment of `negotiateVersion` ran: `c.version = &kmip.V1_0` or `c.version = version`
      let fallback : Bool := match rt with
        | .msg _ (bi :: _) => bi.status = statusFailed ∧ bi.reason = reasonNotSupported
        | _ => false
      if fallback then .ok (s, { ver := addrV10, supported := C })
      else
        let (s', p) := s.alloc v
        .ok (s', { ver := p, supported := C })

/-- the clients of a program and the store. -/
structure World where
  store : Store
  clients : List MClient

/-- what may happen after `Dial`. -/
inductive Step where
  | request (i : Nat) (n : Nat) (opts : List Nat)   -- client `i`: `BatchOpt` with `n` payloads and these options
  | connLost (i : Nat)                              -- its connection dies (EOF, reset, abandoned call)
  | clone (i : Nat)                                 -- `CloneCtx`: the new client gets the next index
  | close (i : Nat)
  | assignV10 (v : Version)                         -- other code of the program: `kmip.V1_0 = v`
  deriving Repr, Inhabited

def setClient (cs : List MClient) (i : Nat) (c : MClient) : List MClient := cs.set i c

/-- one step: the new world and the request header put on the wire, if any.
    `request`: `doRountrip` refuses a closed client (nothing is sent); a dead connection is replaced
    (`reconnect`: a new connection, NO negotiation) and the message built from `*c.version` is sent. -/
def step (w : World) : Step → World × Option (Nat × ReqHeader)
  | .request i n opts =>
    match w.clients[i]? with
    | none => (w, none)
    | some c =>
      if c.closed then (w, none)
      else
        let hd := batchOptHeader { version := w.store.val c.ver, supported := c.supported } n opts
        ({ w with clients := setClient w.clients i { c with connUp := true } }, some (i, hd))
  | .connLost i =>
    match w.clients[i]? with
    | none => (w, none)
    | some c => ({ w with clients := setClient w.clients i { c with connUp := false } }, none)
  | .clone i =>
    match w.clients[i]? with
    | none => (w, none)
    | some c =>
      -- `version := *c.version; … version: &version` — cloning a closed client is valid
      let (s', p) := w.store.alloc (w.store.val c.ver)
      ({ store := s', clients := w.clients ++ [{ ver := p, supported := c.supported }] }, none)
  | .close i =>
    match w.clients[i]? with
    | none => (w, none)
    | some c => ({ w with clients := setClient w.clients i { c with closed := true } }, none)
  | .assignV10 v => ({ w with store := w.store.write addrV10 v }, none)

/-- the request headers a sequence of steps puts on the wire, each with the index of the sending client. -/
def runM : World → List Step → List (Nat × ReqHeader)
  | _, [] => []
  | w, st :: rest =>
    match step w st with
    | (w', some out) => out :: runM w' rest
    | (w', none) => runM w' rest

def Step.isAssign : Step → Bool
  | .assignV10 _ => true
  | _ => false

end Kmip.Nego
