/-
  Helper definitions and lemmas about the typed codec `KmipModel.Model.Plan`:
  * `Schema.decodeSafe` — the decidable well-formedness check under which the typed decoder never panics,
    and its soundness (`decode_noPanic_typed`, `unmarshal_noPanic`);
  * inversion lemmas for the `Res` monad, used by the C05/C06 property files;
  * the version-cell lemmas of the encoder (C05) and the dispatch lemmas of the hand-written decoders (C06).
  Core Lean only (`Lean.Elab.Tactic` is imported for one small proof-search tactic; nothing here is linked
  into the model executable).
-/
import Lean.Elab.Tactic
import KmipModel.Lemmas.ReaderLemmas
import KmipModel.Model.Plan
namespace Kmip

/-! ### `Res` helpers -/

theorem Res.noPanic_bind' {α β : Type} {x : Res α} {f : α → Res β} (hx : x.NoPanic)
    (hf : ∀ a, (f a).NoPanic) : (x >>= f).NoPanic :=
  Res.noPanic_bind hx (fun a _ => hf a)

theorem Res.bind_eq_ok {α β : Type} {x : Res α} {f : α → Res β} {b : β}
    (h : (x >>= f) = .ok b) : ∃ a, x = .ok a ∧ f a = .ok b := by
  cases x with
  | ok a => exact ⟨a, rfl, h⟩
  | err e => exact nomatch h
  | panic m => exact nomatch h

/-- observers used by the non-vacuity examples (`Res Val` has no decidable equality). -/
def Res.isPanic {α : Type} : Res α → Bool | .panic _ => true | _ => false
def Res.isOk {α : Type} : Res α → Bool | .ok _ => true | _ => false
def Res.isErr {α : Type} : Res α → Bool | .err _ => true | _ => false

theorem Res.isPanic_iff {α : Type} (r : Res α) : r.isPanic = true ↔ ∃ m, r = .panic m := by
  cases r <;> simp [Res.isPanic]

/-! ### C02 (typed layer): the decidable safety condition -/

/-- the kind can be handed to `decK` without reaching one of its panicking branches
    (`.iface`: reflective decode of a nil interface; `.i8`/`.i16`/`.unsupported`: no decoder). -/
def Kind.leafSafe : Kind → Bool
  | .iface | .i8 | .i16 | .unsupported => false
  | .ptr k => k.leafSafe
  | .slice k => k.leafSafe
  | _ => true

/-- a field of a reflectively decoded struct: safe kind, and not an untagged interface. -/
def Field.decSafe (f : Field) : Bool := f.kind.leafSafe && !f.dynTag

/-- `fk i` of `decCustom`: the kind of the i-th declared field (`.unsupported` when there is none). -/
@[reducible] def kindAt (fields : List Field) (i : Nat) : Kind :=
  (fields.getD i { tag := 0, kind := .unsupported }).kind

/-- the first `n` field kinds of the union-like struct with codec `code` exist and are safe. -/
def unionSafe (S : Schema) (code n : Nat) : Bool :=
  (List.range n).all fun i => ((customFieldKinds S code).getD i .unsupported).leafSafe

/-- what the hand-written decoder `code` needs from the declared fields of its struct (and from the
    union structs it decodes into). Codes without a decoder are unsafe (`decCustom` panics on them). -/
def customSafe (S : Schema) (fields : List Field) (code : Nat) : Bool :=
  if code = Cust.unknownPayload then true
  else if code = Cust.requestBatchItem then
    (kindAt fields 0).leafSafe && (kindAt fields 3).leafSafe
  else if code = Cust.responseBatchItem then
    (kindAt fields 0).leafSafe && (kindAt fields 2).leafSafe && (kindAt fields 3).leafSafe &&
      (kindAt fields 7).leafSafe
  else if code = Cust.attr then true
  else if code = Cust.credential then
    (kindAt fields 0).leafSafe && unionSafe S Cust.credentialValue 3
  else if code = Cust.keyBlock then
    (kindAt fields 0).leafSafe && (kindAt fields 1).leafSafe && (kindAt fields 3).leafSafe &&
      (kindAt fields 4).leafSafe && (kindAt fields 5).leafSafe && unionSafe S Cust.keyMaterial 8
  else if code = Cust.getResponse then (kindAt fields 0).leafSafe
  else if code = Cust.registerRequest then (kindAt fields 0).leafSafe && (kindAt fields 1).leafSafe
  else if code = Cust.exportResponse then (kindAt fields 0).leafSafe && (kindAt fields 2).leafSafe
  else if code = Cust.importRequest then (kindAt fields 2).leafSafe && (kindAt fields 3).leafSafe
  else false

/-- a struct definition is safe to decode: reflectively (all fields safe) or by its hand-written decoder. -/
def StructDef.decSafe (S : Schema) (d : StructDef) : Bool :=
  if d.decCustom then customSafe S d.fields d.custom else d.fields.all Field.decSafe

/-- **the typed decoder's well-formedness condition**: every struct is safe, every type that can sit
    behind an interface has a safe kind, and every dyn id the dispatch tables can produce is a valid
    index into `dyns` (an invalid id would decode as `.unsupported`). -/
def Schema.decodeSafe (S : Schema) : Bool :=
  S.structs.all (StructDef.decSafe S) &&
  S.dyns.all (fun dy => dy.kind.leafSafe) &&
  S.ops.all (fun p => decide (p.2.1 < S.dyns.length) && decide (p.2.2 < S.dyns.length)) &&
  S.objects.all (fun p => decide (p.2 < S.dyns.length)) &&
  S.attrs.all (fun p => decide (p.2 < S.dyns.length)) &&
  decide (S.unknownPayloadDyn < S.dyns.length) && decide (S.valueDyn < S.dyns.length)

/-! ### soundness of `decodeSafe` -/

theorem Kind.leafSafe_ptr {k : Kind} (h : (Kind.ptr k).leafSafe = true) : k.leafSafe = true := by
  rwa [Kind.leafSafe] at h
theorem Kind.leafSafe_slice {k : Kind} (h : (Kind.slice k).leafSafe = true) : k.leafSafe = true := by
  rwa [Kind.leafSafe] at h

theorem unionSafe_getD {S : Schema} {code n : Nat} (h : unionSafe S code n = true) {i : Nat}
    (hi : i < n) : ((customFieldKinds S code).getD i .unsupported).leafSafe = true := by
  unfold unionSafe at h
  rw [List.all_eq_true] at h
  exact h i (List.mem_range.2 hi)

structure Schema.DecodeSafe (S : Schema) : Prop where
  structs : ∀ d ∈ S.structs, StructDef.decSafe S d = true
  dyns : ∀ dy ∈ S.dyns, dy.kind.leafSafe = true
  ops : ∀ p ∈ S.ops, p.2.1 < S.dyns.length ∧ p.2.2 < S.dyns.length
  objects : ∀ p ∈ S.objects, p.2 < S.dyns.length
  attrs : ∀ p ∈ S.attrs, p.2 < S.dyns.length
  unknown : S.unknownPayloadDyn < S.dyns.length
  value : S.valueDyn < S.dyns.length

theorem Schema.decodeSafe_iff (S : Schema) : S.decodeSafe = true ↔ S.DecodeSafe := by
  unfold Schema.decodeSafe
  simp only [Bool.and_eq_true, List.all_eq_true, decide_eq_true_eq]
  constructor
  · rintro ⟨⟨⟨⟨⟨⟨h1, h2⟩, h3⟩, h4⟩, h5⟩, h6⟩, h7⟩
    exact ⟨h1, h2, h3, h4, h5, h6, h7⟩
  · rintro ⟨h1, h2, h3, h4, h5, h6, h7⟩
    exact ⟨⟨⟨⟨⟨⟨h1, h2⟩, h3⟩, h4⟩, h5⟩, h6⟩, h7⟩

theorem Schema.DecodeSafe.structDef {S : Schema} (h : S.DecodeSafe) (id : Nat) :
    StructDef.decSafe S (S.structDef id) = true := by
  unfold Schema.structDef
  rw [List.getD_eq_getElem?_getD]
  cases hg : S.structs[id]? with
  | none => rfl
  | some d => exact h.structs d (List.mem_of_getElem? hg)

theorem Schema.DecodeSafe.dyn {S : Schema} (h : S.DecodeSafe) {d : Nat} (hd : d < S.dyns.length) :
    (S.dyn d).kind.leafSafe = true := by
  unfold Schema.dyn
  rw [List.getD_eq_getElem?_getD, List.getElem?_eq_getElem hd]
  exact h.dyns _ (List.getElem_mem hd)

theorem lookupNat_mem {l : List (Nat × Nat)} {k v : Nat} (h : lookupNat l k = some v) :
    ∃ p ∈ l, p.1 = k ∧ p.2 = v := by
  unfold lookupNat at h
  cases hf : l.find? (fun p => p.1 == k) with
  | none => rw [hf] at h; exact nomatch h
  | some p =>
    rw [hf] at h
    have hp := List.find?_some hf
    refine ⟨p, List.mem_of_find?_eq_some hf, by simpa using hp, ?_⟩
    injection h

theorem Schema.DecodeSafe.payloadDyn {S : Schema} (h : S.DecodeSafe) (op : Nat) (r : Bool) :
    S.payloadDyn op r < S.dyns.length := by
  unfold Schema.payloadDyn
  cases hf : S.ops.find? (fun p => p.1 == op) with
  | none => exact h.unknown
  | some p =>
    obtain ⟨o, rq, rs⟩ := p
    have := h.ops _ (List.mem_of_find?_eq_some hf)
    cases r
    · exact this.1
    · exact this.2

theorem Schema.DecodeSafe.attrDyn {S : Schema} (h : S.DecodeSafe) (name : Bytes) :
    S.attrDyn name < S.dyns.length := by
  unfold Schema.attrDyn
  simp only
  split
  · exact h.value
  · split
    · rename_i d hl
      obtain ⟨p, hp, _, rfl⟩ := lookupNat_mem hl
      exact h.attrs p hp
    · exact h.value

theorem Schema.DecodeSafe.objectDyn {S : Schema} (h : S.DecodeSafe) {ot d : Nat}
    (ho : S.objectDyn ot = some d) : d < S.dyns.length := by
  unfold Schema.objectDyn at ho
  obtain ⟨p, hp, _, rfl⟩ := lookupNat_mem ho
  exact h.objects p hp

open Lean Elab Tactic Meta in
/-- depth-bounded backward search over the local hypotheses (reducible unification only, so that the
    recursive decoders are never unfolded). -/
partial def npSolve (depth : Nat) (g : MVarId) : MetaM Unit := g.withContext do
  try
    withReducible g.assumption
  catch _ =>
    if depth = 0 then throwError "npSolve: depth exhausted"
    for ld in (← getLCtx) do
      if ld.isImplementationDetail then continue
      let s ← saveState
      try
        let gs ← withReducible (g.apply ld.toExpr)
        for g' in gs do
          unless (← g'.isAssigned) do npSolve (depth - 1) g'
        return
      catch _ => s.restore
    throwError "npSolve: no hypothesis applies"

open Lean Elab Tactic Meta in
/-- close a `NoPanic` goal with a local hypothesis whose conclusion is `NoPanic`; its premises are
    searched among the hypotheses (depth 2). -/
elab "np_hyp" : tactic => withMainContext do
  let g ← getMainGoal
  for ld in (← getLCtx) do
    if ld.isImplementationDetail then continue
    let ty ← instantiateMVars ld.type
    if ty.getForallBody.isAppOf ``Res.NoPanic then
      let s ← saveState
      try
        let gs ← withReducible (g.apply ld.toExpr)
        for g' in gs do
          unless (← g'.isAssigned) do npSolve 2 g'
        replaceMainGoal []
        return
      catch _ => s.restore
  throwError "np_hyp: no hypothesis applies"

/-- one step of the syntactic "no panic" search: close a leaf, or peel a bind / match / if. -/
macro "np_step" : tactic => `(tactic| with_reducible first
  | exact Res.noPanic_ok _
  | exact Res.noPanic_err _
  | exact Res.noPanic_pure _
  | exact Cur.integer_noPanic _ _
  | exact Cur.longInteger_noPanic _ _
  | exact Cur.enum_noPanic _ _
  | exact Cur.bool_noPanic _ _
  | exact Cur.dateTime_noPanic _ _
  | exact Cur.interval_noPanic _ _
  | exact Cur.bigInteger_noPanic _ _
  | exact Cur.textString_noPanic _ _
  | exact Cur.byteString_noPanic _ _
  | exact Cur.expect_noPanic _ _ _
  | exact Cur.start_noPanic _
  | exact Cur.next_noPanic _
  | exact (decode_noPanic _).1 _ _
  | exact Cur.struct_noPanic _ _ _ (fun inner => (decode_noPanic _).2 inner)
  | np_hyp
  | refine Res.noPanic_bind' ?_ (fun _ => ?_)
  | split)
macro "np_auto" : tactic => `(tactic| repeat (any_goals np_step))

/-- the statement proved by induction on the fuel: under `DecodeSafe`, none of the eight mutually
    recursive typed decoders panics, on any cursor. -/
structure TypedNoPanic (S : Schema) (fuel : Nat) : Prop where
  decK : ∀ k tag c ver, Kind.leafSafe k = true → (decK S fuel k tag c ver).NoPanic
  decStruct : ∀ fields tag c ver, List.all fields Field.decSafe = true →
    (decStruct S fuel fields tag c ver).NoPanic
  decList : ∀ k tag c ver, Kind.leafSafe k = true → (decList S fuel k tag c ver).NoPanic
  decFields : ∀ fields c ver, List.all fields Field.decSafe = true →
    (decFields S fuel fields c ver).NoPanic
  decOpt : ∀ k tag c ver, Kind.leafSafe k = true → (decOpt S fuel k tag c ver).NoPanic
  decDyn : ∀ d tag c ver, d < S.dyns.length → (decDyn S fuel d tag c ver).NoPanic
  decCustom : ∀ code id tag c ver, customSafe S (S.structDef id).fields code = true →
    (decCustom S fuel code id tag c ver).NoPanic
  decKeyValue : ∀ fmt c ver, unionSafe S Cust.keyMaterial 8 = true →
    (decKeyValue S fuel fmt c ver).NoPanic

theorem typedNoPanic_zero (S : Schema) : TypedNoPanic S 0 := by
  constructor
  · intro k tag c ver _; rw [decK]; exact Res.noPanic_err _
  · intro fs tag c ver _; rw [decStruct]; exact Res.noPanic_err _
  · intro k tag c ver _; rw [decList]; exact Res.noPanic_err _
  · intro fs c ver _; rw [decFields]; exact Res.noPanic_err _
  · intro k tag c ver _; rw [decOpt]; exact Res.noPanic_err _
  · intro d tag c ver _; rw [decDyn]; exact Res.noPanic_err _
  · intro code id tag c ver _; rw [decCustom]; exact Res.noPanic_err _
  · intro fmt c ver _; rw [decKeyValue]; exact Res.noPanic_err _

theorem typedNoPanic_succ (S : Schema) (hS : S.DecodeSafe) (fuel : Nat) (ih : TypedNoPanic S fuel) :
    TypedNoPanic S (fuel + 1) := by
  have ihK := ih.decK
  have ihS := ih.decStruct
  have ihL := ih.decList
  have ihF := ih.decFields
  have ihO := ih.decOpt
  have ihD := ih.decDyn
  have ihC := ih.decCustom
  have ihV := ih.decKeyValue
  have sBytes : Kind.leafSafe .bytes = true := rfl
  have sText : Kind.leafSafe .text = true := rfl
  have sBool : Kind.leafSafe .bool = true := rfl
  have sAttrs : ∀ i, Kind.leafSafe (.slice (.struct i)) = true := fun _ => rfl
  constructor
  · -- decK
    intro k tag c ver hk
    cases k
    all_goals first | exact absurd hk (by decide) | skip
    all_goals rw [decK]
    case ptr k => have := Kind.leafSafe_ptr hk; np_auto
    case slice k => have := Kind.leafSafe_slice hk; np_auto
    case struct id =>
      have hd := hS.structDef id
      unfold StructDef.decSafe at hd
      split
      · rename_i hc; rw [if_pos hc] at hd; exact ihC _ _ _ _ _ hd
      · rename_i hc; rw [if_neg hc] at hd; exact ihS _ _ _ _ hd
    all_goals np_auto
  · -- decStruct
    intro fields tag c ver hf
    rw [decStruct]
    np_auto
  · -- decList
    intro k tag c ver hk
    rw [decList]
    np_auto
  · -- decFields
    intro fields c ver hf
    cases fields with
    | nil => rw [decFields]; exact Res.noPanic_ok _; exact fun h => nomatch h
    | cons f fs =>
      rw [decFields]
      rw [List.all_cons, Bool.and_eq_true] at hf
      obtain ⟨h1, h2⟩ := hf
      unfold Field.decSafe at h1
      rw [Bool.and_eq_true] at h1
      have hdt : f.dynTag = false := by simpa using h1.2
      have hk := h1.1
      rw [hdt, if_neg (by decide)]
      np_auto
  · -- decOpt
    intro k tag c ver hk
    rw [decOpt]
    np_auto
  · -- decDyn
    intro d tag c ver hd
    rw [decDyn]
    have hk := hS.dyn hd
    have hptr : ∀ k', (S.dyn d).kind = .ptr k' → Kind.leafSafe k' = true :=
      fun k' h => Kind.leafSafe_ptr (h ▸ hk)
    np_auto
  · -- decCustom
    intro code id tag c ver hc
    rw [decCustom]
    unfold customSafe at hc
    by_cases h1 : code = Cust.unknownPayload
    · rw [if_pos h1]; np_auto
    rw [if_neg h1]
    rw [if_neg h1] at hc
    refine Res.noPanic_bind' (Cur.expect_noPanic _ _ _) (fun it => ?_)
    refine Res.noPanic_bind' (Cur.start_noPanic _) (fun c0 => ?_)
    refine Res.noPanic_bind' ?_ (fun _ => by np_auto)
    have hpd := hS.payloadDyn
    have had := hS.attrDyn
    have hod : ∀ ot d, S.objectDyn ot = some d → d < S.dyns.length := fun _ _ h => hS.objectDyn h
    by_cases h2 : code = Cust.requestBatchItem
    · rw [if_pos h2]
      rw [if_pos h2] at hc
      simp only [Bool.and_eq_true] at hc
      obtain ⟨k0, k3⟩ := hc
      np_auto
    rw [if_neg h2]
    rw [if_neg h2] at hc
    by_cases h3 : code = Cust.responseBatchItem
    · rw [if_pos h3]
      rw [if_pos h3] at hc
      simp only [Bool.and_eq_true] at hc
      obtain ⟨⟨⟨k0, k2⟩, k3⟩, k7⟩ := hc
      np_auto
    rw [if_neg h3]
    rw [if_neg h3] at hc
    by_cases h4 : code = Cust.attr
    · rw [if_pos h4]
      np_auto
    rw [if_neg h4]
    rw [if_neg h4] at hc
    by_cases h5 : code = Cust.credential
    · rw [if_pos h5]
      rw [if_pos h5] at hc
      simp only [Bool.and_eq_true] at hc
      obtain ⟨k0, ku⟩ := hc
      np_auto
      dsimp only
      split
      · rename_i ht
        have := unionSafe_getD ku (i := (Val.asInt ‹Val›).toNat - 1) (by omega)
        np_auto
      · np_auto
    rw [if_neg h5]
    rw [if_neg h5] at hc
    by_cases h6 : code = Cust.keyBlock
    · rw [if_pos h6]
      rw [if_pos h6] at hc
      simp only [Bool.and_eq_true] at hc
      obtain ⟨⟨⟨⟨⟨k0, k1⟩, k3⟩, k4⟩, k5⟩, ku⟩ := hc
      np_auto
    rw [if_neg h6]
    rw [if_neg h6] at hc
    by_cases h7 : code = Cust.getResponse
    · rw [if_pos h7]
      rw [if_pos h7] at hc
      np_auto
    rw [if_neg h7]
    rw [if_neg h7] at hc
    by_cases h8 : code = Cust.registerRequest
    · rw [if_pos h8]
      rw [if_pos h8] at hc
      simp only [Bool.and_eq_true] at hc
      obtain ⟨k0, k1⟩ := hc
      np_auto
    rw [if_neg h8]
    rw [if_neg h8] at hc
    by_cases h9 : code = Cust.exportResponse
    · rw [if_pos h9]
      rw [if_pos h9] at hc
      simp only [Bool.and_eq_true] at hc
      obtain ⟨k0, k2⟩ := hc
      np_auto
    rw [if_neg h9]
    rw [if_neg h9] at hc
    by_cases h10 : code = Cust.importRequest
    · rw [if_pos h10]
      rw [if_pos h10] at hc
      simp only [Bool.and_eq_true] at hc
      obtain ⟨k2, k3⟩ := hc
      np_auto
    rw [if_neg h10] at hc
    exact absurd hc (by decide)
  · -- decKeyValue
    intro fmt c ver ku
    rw [decKeyValue]
    have u0 := unionSafe_getD ku (i := 0) (by omega)
    have u1 := unionSafe_getD ku (i := 1) (by omega)
    have u2 := unionSafe_getD ku (i := 2) (by omega)
    have u3 := unionSafe_getD ku (i := 3) (by omega)
    have u4 := unionSafe_getD ku (i := 4) (by omega)
    have u5 := unionSafe_getD ku (i := 5) (by omega)
    have u6 := unionSafe_getD ku (i := 6) (by omega)
    have u7 := unionSafe_getD ku (i := 7) (by omega)
    np_auto

theorem typedNoPanic (S : Schema) (hS : S.DecodeSafe) : ∀ fuel, TypedNoPanic S fuel
  | 0 => typedNoPanic_zero S
  | fuel + 1 => typedNoPanic_succ S hS fuel (typedNoPanic S hS fuel)

theorem unmarshal_noPanic (S : Schema) (h : S.decodeSafe = true) (d tag : Nat) (bs : Bytes) :
    (unmarshal S d tag bs).NoPanic := by
  unfold unmarshal
  by_cases hr : S.dyns.length ≤ d
  · rw [if_pos hr]; exact Res.noPanic_err _
  · rw [if_neg hr]
    generalize decFuel bs.length = F
    unfold unmarshalWith
    have hd : d < S.dyns.length := by omega
    have hS := (S.decodeSafe_iff).1 h
    have hk := hS.dyn hd
    have hptr : ∀ k', (S.dyn d).kind = .ptr k' → Kind.leafSafe k' = true :=
      fun k' h => Kind.leafSafe_ptr (h ▸ hk)
    have ihK := (typedNoPanic S hS F).decK
    np_auto

/-! ### C05: the encoder's field loop, the version cell -/

theorem Res.bind_pure_nil {x : Res EncSt} :
    (x >>= fun p => match p with | (b, v) => (pure (([] : List Item) ++ b, v) : Res EncSt)) = x := by
  cases x with
  | ok a => obtain ⟨b, v⟩ := a; rfl
  | err e => rfl
  | panic m => rfl

/-- the tag under which a field is written (`dynTag`: the dynamic type's default tag). -/
def fieldTag (S : Schema) (f : Field) (v : Val) : Nat :=
  if f.dynTag then (match v with | .iface (some (d, _)) => (S.dyn d).defTag | _ => 0) else f.tag

/-- the version cell a field is gated with: its own value for a set-version field, else the incoming cell. -/
def fieldCell (f : Field) (v : Val) (cell : Option Ver) : Option Ver :=
  if f.setVersion then some v.asVer else cell

/-- the field is skipped by the version wrapper. -/
def fieldOutOfRange (f : Field) (cell : Option Ver) : Bool :=
  match f.vrange with
  | some r => !(versionIn cell r)
  | none => false

theorem Res.ok_bind_pure_nil (cellv : Option Ver) (x : Res EncSt) :
    (do let __x ← (Res.ok (([] : List Item), cellv) : Res EncSt)
        let __x_1 ← x
        (pure (__x.fst ++ __x_1.fst, __x_1.snd) : Res EncSt)) = x := by
  cases x with
  | ok a => rfl
  | err e => rfl
  | panic m => rfl

theorem encFields_cons (S : Schema) (fuel : Nat) (f : Field) (fs : List Field) (v : Val)
    (vs : List Val) (cell : Option Ver) :
    encFields S (fuel + 1) (f :: fs) (v :: vs) cell =
      if (fieldOutOfRange f (fieldCell f v cell) || (f.omitempty && v.isZero)) = true then
        encFields S fuel fs vs (fieldCell f v cell)
      else (do
        let (a, ver2) ← encK S fuel f.kind (fieldTag S f v) v (fieldCell f v cell)
        let (b, ver3) ← encFields S fuel fs vs ver2
        pure (a ++ b, ver3)) := by
  rw [encFields.eq_def]
  dsimp only
  unfold fieldOutOfRange fieldCell fieldTag
  cases hr : f.vrange <;> dsimp only <;>
    exact ite_congr rfl (fun _ => Res.ok_bind_pure_nil _ _) (fun _ => rfl)

theorem decFields_present (S : Schema) (fuel : Nat) (f : Field) (fs : List Field) (c : Cur)
    (ver : Option Ver) (ht : c.tag = f.tag) (hd : f.dynTag = false) :
    decFields S (fuel + 1) (f :: fs) c ver = (do
      let (v, c1, ver1) ← decK S fuel f.kind f.tag c ver
      let ver2 := if f.setVersion then some v.asVer else ver1
      let (vs, st) ← decFields S fuel fs c1 ver2
      pure (v :: vs, st)) := by
  rw [decFields.eq_def]
  dsimp only
  cases hr : f.vrange <;> simp [ht, hd] <;> rfl

mutual
  /-- every interface value inside `v` holds a dynamic type accepted by `A`. -/
  def Val.dynsOk (A : Nat → Bool) : Val → Bool
    | .struct fs => Val.dynsOkL A fs
    | .ptr (some x) => x.dynsOk A
    | .list xs => Val.dynsOkL A xs
    | .iface (some (d, x)) => A d && x.dynsOk A
    | _ => true
  def Val.dynsOkL (A : Nat → Bool) : List Val → Bool
    | [] => true
    | v :: vs => v.dynsOk A && Val.dynsOkL A vs
end

mutual
  /-- no set-version field is reachable from kind `k` through struct fields, pointers, slices and the
      hand-written encoders (interfaces are accounted for on the value side, see `Val.dynsOk`). -/
  def svFreeK (S : Schema) : Nat → Kind → Bool
    | 0, _ => false
    | n + 1, k =>
      match k with
      | .ptr k' => svFreeK S n k'
      | .slice k' => svFreeK S n k'
      | .struct id =>
        let d := S.structDef id
        if d.encCustom then
          if d.custom = Cust.requestBatchItem ∨ d.custom = Cust.responseBatchItem then
            svFreeK S n (.struct (msgExtId S))
          else if d.custom = Cust.credentialValue ∨ d.custom = Cust.keyValue ∨ d.custom = Cust.keyMaterial then
            svFreeKs S n (customFieldKinds S d.custom)
          else true
        else svFreeFields S n d.fields
      | _ => true
  def svFreeFields (S : Schema) : Nat → List Field → Bool
    | 0, _ => false
    | _, [] => true
    | n + 1, f :: fs => !f.setVersion && svFreeK S n f.kind && svFreeFields S n fs
  def svFreeKs (S : Schema) : Nat → List Kind → Bool
    | 0, _ => false
    | _, [] => true
    | n + 1, k :: ks => svFreeK S n k && svFreeKs S n ks
end


def SvFreeK (S : Schema) (k : Kind) : Prop := ∃ n, svFreeK S n k = true
def SvFreeFields (S : Schema) (fs : List Field) : Prop := ∃ n, svFreeFields S n fs = true
def SvFreeKs (S : Schema) (ks : List Kind) : Prop := ∃ n, svFreeKs S n ks = true
/-- what `svFreeK` demands of a struct with a hand-written encoder. -/
def SvFreeCustom (S : Schema) (code : Nat) : Prop :=
  (code = Cust.requestBatchItem ∨ code = Cust.responseBatchItem → SvFreeK S (.struct (msgExtId S))) ∧
  (code = Cust.credentialValue ∨ code = Cust.keyValue ∨ code = Cust.keyMaterial →
    SvFreeKs S (customFieldKinds S code))

theorem SvFreeK.ptr {S : Schema} {k : Kind} (h : SvFreeK S (.ptr k)) : SvFreeK S k := by
  obtain ⟨n, h⟩ := h
  cases n with
  | zero => rw [svFreeK] at h; exact nomatch h
  | succ n => rw [svFreeK] at h; exact ⟨n, h⟩

theorem SvFreeK.slice {S : Schema} {k : Kind} (h : SvFreeK S (.slice k)) : SvFreeK S k := by
  obtain ⟨n, h⟩ := h
  cases n with
  | zero => rw [svFreeK] at h; exact nomatch h
  | succ n => rw [svFreeK] at h; exact ⟨n, h⟩

theorem SvFreeK.of_ptr {S : Schema} {k : Kind} (h : SvFreeK S k) : SvFreeK S (.ptr k) := by
  obtain ⟨n, h⟩ := h
  exact ⟨n + 1, by rw [svFreeK]; exact h⟩

theorem SvFreeK.iface (S : Schema) : SvFreeK S .iface := ⟨1, rfl⟩

theorem SvFreeK.struct {S : Schema} {id : Nat} (h : SvFreeK S (.struct id)) :
    ((S.structDef id).encCustom = true → SvFreeCustom S (S.structDef id).custom) ∧
    ((S.structDef id).encCustom = false → SvFreeFields S (S.structDef id).fields) := by
  obtain ⟨n, h⟩ := h
  cases n with
  | zero => rw [svFreeK] at h; exact nomatch h
  | succ n =>
    rw [svFreeK] at h
    constructor
    · intro hc
      rw [if_pos hc] at h
      constructor
      · intro h1; rw [if_pos h1] at h; exact ⟨n, h⟩
      · intro h2
        have h1 : ¬((S.structDef id).custom = Cust.requestBatchItem ∨
            (S.structDef id).custom = Cust.responseBatchItem) := by
          intro h1
          rcases h1 with h1 | h1 <;> rw [h1] at h2 <;> exact absurd h2 (by decide)
        rw [if_neg h1, if_pos h2] at h; exact ⟨n, h⟩
    · intro hc
      rw [if_neg (by simp [hc])] at h
      exact ⟨n, h⟩

theorem SvFreeFields.cons {S : Schema} {f : Field} {fs : List Field} (h : SvFreeFields S (f :: fs)) :
    f.setVersion = false ∧ SvFreeK S f.kind ∧ SvFreeFields S fs := by
  obtain ⟨n, h⟩ := h
  cases n with
  | zero => rw [svFreeFields] at h; exact nomatch h
  | succ n =>
    rw [svFreeFields] at h
    simp only [Bool.and_eq_true, Bool.not_eq_true'] at h
    exact ⟨h.1.1, ⟨n, h.1.2⟩, ⟨n, h.2⟩⟩

theorem SvFreeKs.cons {S : Schema} {k : Kind} {ks : List Kind} (h : SvFreeKs S (k :: ks)) :
    SvFreeK S k ∧ SvFreeKs S ks := by
  obtain ⟨n, h⟩ := h
  cases n with
  | zero => rw [svFreeKs] at h; exact nomatch h
  | succ n =>
    rw [svFreeKs] at h
    simp only [Bool.and_eq_true] at h
    exact ⟨⟨n, h.1⟩, ⟨n, h.2⟩⟩

theorem Val.dynsOk_field {A : Nat → Bool} {fs : List Val} (h : Val.dynsOkL A fs = true) :
    ∀ i, (fs.getD i (.int 0)).dynsOk A = true := by
  induction fs with
  | nil => intro i; simp [Val.dynsOk]
  | cons v vs ih =>
    rw [Val.dynsOkL, Bool.and_eq_true] at h
    intro i
    cases i with
    | zero => exact h.1
    | succ i => simpa using ih h.2 i

/-- the statement proved by induction on the fuel: encoding a value whose kind reaches no set-version
    field (and whose interface values hold only such kinds) returns the version cell it was given. -/
structure CellStable (S : Schema) (A : Nat → Bool) (fuel : Nat) : Prop where
  encK : ∀ k tag v cell items cell', SvFreeK S k → Val.dynsOk A v = true →
    encK S fuel k tag v cell = .ok (items, cell') → cell' = cell
  encSlice : ∀ k tag xs cell items cell', SvFreeK S k → Val.dynsOkL A xs = true →
    encSlice S fuel k tag xs cell = .ok (items, cell') → cell' = cell
  encFields : ∀ fields vs cell items cell', SvFreeFields S fields → Val.dynsOkL A vs = true →
    encFields S fuel fields vs cell = .ok (items, cell') → cell' = cell
  encCustom : ∀ code tag v cell items cell', SvFreeCustom S code → Val.dynsOk A v = true →
    encCustom S fuel code tag v cell = .ok (items, cell') → cell' = cell
  encSameTag : ∀ kinds tag xs cell items cell', SvFreeKs S kinds → Val.dynsOkL A xs = true →
    encSameTag S fuel kinds tag xs cell = .ok (items, cell') → cell' = cell

theorem cellStable_zero (S : Schema) (A : Nat → Bool) : CellStable S A 0 := by
  constructor
  · intro k tag v cell items cell' _ _ h; rw [encK] at h; exact nomatch h
  · intro k tag xs cell items cell' _ _ h; rw [encSlice] at h; exact nomatch h
  · intro fs vs cell items cell' _ _ h; rw [encFields] at h; exact nomatch h
  · intro code tag v cell items cell' _ _ h; rw [encCustom] at h; exact nomatch h
  · intro ks tag xs cell items cell' _ _ h; rw [encSameTag] at h; exact nomatch h

theorem cellStable_succ (S : Schema) (A : Nat → Bool)
    (hA : ∀ d, A d = true → SvFreeK S (S.dyn d).kind) (fuel : Nat) (ih : CellStable S A fuel) :
    CellStable S A (fuel + 1) := by
  constructor
  · -- encK
    intro k tag v cell items cell' hk hv h
    rw [encK.eq_def] at h
    dsimp only at h
    split at h
    all_goals first | (cases h; done) | (cases h; rfl) | skip
    · -- interval
      split at h
      · cases h
      · cases h; rfl
    · -- ptr
      rw [Val.dynsOk] at hv
      exact ih.encK _ _ _ _ _ _ hk.ptr hv h
    · -- slice
      rw [Val.dynsOk] at hv
      exact ih.encSlice _ _ _ _ _ _ hk.slice hv h
    · -- iface
      rw [Val.dynsOk, Bool.and_eq_true] at hv
      exact ih.encK _ _ _ _ _ _ (hA _ hv.1) hv.2 h
    · -- struct
      rw [Val.dynsOk] at hv
      have hs := hk.struct
      split at h
      · rename_i hc
        exact ih.encCustom _ _ _ _ _ _ (hs.1 hc) (by rw [Val.dynsOk]; exact hv) h
      · rename_i hc
        obtain ⟨⟨a, c1⟩, h1, h2⟩ := Res.bind_eq_ok h
        cases h2
        exact ih.encFields _ _ _ _ _ (hs.2 (by simpa using hc)) hv h1
  · -- encSlice
    intro k tag xs cell items cell' hk hv h
    cases xs with
    | nil => rw [encSlice] at h; cases h; rfl; exact fun h => nomatch h
    | cons x xs =>
      rw [encSlice] at h
      rw [Val.dynsOkL, Bool.and_eq_true] at hv
      obtain ⟨⟨a, c1⟩, h1, h2⟩ := Res.bind_eq_ok h
      obtain ⟨⟨b, c2⟩, h3, h4⟩ := Res.bind_eq_ok h2
      cases h4
      have e1 := ih.encK _ _ _ _ _ _ hk hv.1 h1
      have e2 := ih.encSlice _ _ _ _ _ _ hk hv.2 h3
      rw [e2, e1]
  · -- encFields
    intro fields vs cell items cell' hf hv h
    cases fields with
    | nil => rw [encFields] at h; cases h; rfl; exact fun h => nomatch h
    | cons f fs =>
      cases vs with
      | nil => rw [encFields] at h; cases h; exact fun h => nomatch h
      | cons v vs =>
        rw [encFields_cons] at h
        obtain ⟨hsv, hk, hfs⟩ := hf.cons
        rw [Val.dynsOkL, Bool.and_eq_true] at hv
        have hcell : fieldCell f v cell = cell := by unfold fieldCell; rw [hsv]; rfl
        rw [hcell] at h
        split at h
        · exact ih.encFields _ _ _ _ _ hfs hv.2 h
        · obtain ⟨⟨a, c1⟩, h1, h2⟩ := Res.bind_eq_ok h
          obtain ⟨⟨b, c2⟩, h3, h4⟩ := Res.bind_eq_ok h2
          cases h4
          have e1 := ih.encK _ _ _ _ _ _ hk hv.1 h1
          have e2 := ih.encFields _ _ _ _ _ hfs hv.2 h3
          rw [e2, e1]
  · -- encCustom
    intro code tag v cell items cell' hc hv h
    rw [encCustom.eq_def] at h
    dsimp only at h
    have hf : ∀ i, (v.field i).dynsOk A = true := by
      intro i
      cases v with
      | struct fs => rw [Val.dynsOk] at hv; exact Val.dynsOk_field hv i
      | _ => rfl
    split at h
    · rename_i h1
      obtain ⟨⟨a, c1⟩, e1, h⟩ := Res.bind_eq_ok h
      obtain ⟨⟨b, c2⟩, e2, h⟩ := Res.bind_eq_ok h
      cases h
      have r1 := ih.encK _ _ _ _ _ _ (SvFreeK.iface S) (hf 2) e1
      have r2 := ih.encK _ _ _ _ _ _ (hc.1 (Or.inl h1)).of_ptr (hf 3) e2
      rw [r2, r1]
    · split at h
      · rename_i h2
        obtain ⟨⟨a, c1⟩, e1, h⟩ := Res.bind_eq_ok h
        obtain ⟨⟨b, c2⟩, e2, h⟩ := Res.bind_eq_ok h
        cases h
        have r1 := ih.encK _ _ _ _ _ _ (SvFreeK.iface S) (hf 6) e1
        have r2 := ih.encK _ _ _ _ _ _ (hc.1 (Or.inr h2)).of_ptr (hf 7) e2
        rw [r2, r1]
      · split at h
        · split at h
          · cases h; rfl
          · cases h
        · split at h
          · rename_i h4
            split at h
            · rw [Val.dynsOk] at hv
              exact ih.encSameTag _ _ _ _ _ _ (hc.2 h4) hv h
            · cases h
          · cases h
  · -- encSameTag
    intro kinds tag xs cell items cell' hk hv h
    cases kinds with
    | nil => rw [encSameTag] at h; cases h; rfl; exact fun h => nomatch h
    | cons k ks =>
      cases xs with
      | nil => rw [encSameTag] at h; cases h; rfl; exact fun h => nomatch h
      | cons x xs =>
        rw [encSameTag] at h
        rw [Val.dynsOkL, Bool.and_eq_true] at hv
        obtain ⟨hk1, hk2⟩ := hk.cons
        obtain ⟨⟨a, c1⟩, h1, h2⟩ := Res.bind_eq_ok h
        obtain ⟨⟨b, c2⟩, h3, h4⟩ := Res.bind_eq_ok h2
        cases h4
        have e1 := ih.encK _ _ _ _ _ _ hk1 hv.1 h1
        have e2 := ih.encSameTag _ _ _ _ _ _ hk2 hv.2 h3
        rw [e2, e1]

theorem cellStable (S : Schema) (A : Nat → Bool)
    (hA : ∀ d, A d = true → SvFreeK S (S.dyn d).kind) : ∀ fuel, CellStable S A fuel
  | 0 => cellStable_zero S A
  | fuel + 1 => cellStable_succ S A hA fuel (cellStable S A hA fuel)

/-- the dynamic types that may sit behind an interface without disturbing the version cell. -/
def Schema.svFreeDyn (S : Schema) (N d : Nat) : Bool := svFreeK S N (S.dyn d).kind

theorem Schema.svFreeDyn_sound (S : Schema) (N : Nat) :
    ∀ d, S.svFreeDyn N d = true → SvFreeK S (S.dyn d).kind := fun _ h => ⟨N, h⟩

/-- a header-shaped field list: the first field sets the version, nothing else does. -/
theorem encFields_header_cell (S : Schema) (A : Nat → Bool)
    (hA : ∀ d, A d = true → SvFreeK S (S.dyn d).kind) (fuel : Nat) (f : Field) (fs : List Field)
    (v : Val) (vs : List Val) (cell : Option Ver) (items : List Item) (cell' : Option Ver)
    (hsv : f.setVersion = true) (hk : SvFreeK S f.kind) (hfs : SvFreeFields S fs)
    (hv : Val.dynsOkL A (v :: vs) = true)
    (h : encFields S fuel (f :: fs) (v :: vs) cell = .ok (items, cell')) :
    cell' = some v.asVer := by
  cases fuel with
  | zero => rw [encFields] at h; exact nomatch h
  | succ fuel =>
    have st := cellStable S A hA fuel
    rw [encFields_cons] at h
    rw [Val.dynsOkL, Bool.and_eq_true] at hv
    have hcell : fieldCell f v cell = some v.asVer := by unfold fieldCell; rw [hsv]; rfl
    rw [hcell] at h
    split at h
    · exact st.encFields _ _ _ _ _ hfs hv.2 h
    · obtain ⟨⟨a, c1⟩, h1, h2⟩ := Res.bind_eq_ok h
      obtain ⟨⟨b, c2⟩, h3, h4⟩ := Res.bind_eq_ok h2
      cases h4
      have e1 := st.encK _ _ _ _ _ _ hk hv.1 h1
      have e2 := st.encFields _ _ _ _ _ hfs hv.2 h3
      rw [e2, e1]

namespace T
def requestHeader := 0x420077
def responseHeader := 0x42007A
def requestMessage := 0x420078
def responseMessage := 0x42007B
end T

/-- **decidable**: the only structs with a set-version field are the two message headers (recognised by
    their default tag); there it is the FIRST field, its own kind (ProtocolVersion) and all the other header
    fields reach no further set-version field (checked with fuel `N`). -/
def Schema.noNestedSetVersion (S : Schema) (N : Nat) : Bool :=
  S.structs.all fun d =>
    if d.defTag = T.requestHeader ∨ d.defTag = T.responseHeader then
      match d.fields with
      | f :: fs => f.setVersion && svFreeK S N f.kind && svFreeFields S N fs
      | [] => false
    else d.fields.all (fun f => !f.setVersion)

/-- **decidable**: every struct tagged RequestMessage / ResponseMessage is `[header, batch items]` where the
    header field is a plain (unconditional) struct field whose struct is header-tagged, and the batch item
    kind reaches no set-version field. -/
def Schema.messageShape (S : Schema) (N : Nat) : Bool :=
  S.structs.all fun d =>
    if d.defTag = T.requestMessage ∨ d.defTag = T.responseMessage then
      match d.fields with
      | [fh, fb] =>
        !fh.setVersion && !fb.setVersion && fh.vrange.isNone && !fh.omitempty && !fh.dynTag &&
        svFreeK S N fb.kind &&
        (match fh.kind with
         | .struct h =>
           (decide ((S.structDef h).defTag = T.requestHeader) ||
             decide ((S.structDef h).defTag = T.responseHeader)) && !(S.structDef h).encCustom
         | _ => false)
      | _ => false
    else true

/-- **decidable**: every dynamic type other than the two messages themselves can sit behind an interface
    without disturbing the version cell. -/
def Schema.dynsSvFree (S : Schema) (N : Nat) : Bool :=
  (List.range S.dyns.length).all fun d =>
    decide ((S.dyn d).defTag = T.requestMessage) || decide ((S.dyn d).defTag = T.responseMessage) ||
      S.svFreeDyn N d

theorem Schema.structDef_mem_or_default (S : Schema) (id : Nat) :
    S.structDef id ∈ S.structs ∨ S.structDef id = { fields := [] } := by
  unfold Schema.structDef
  rw [List.getD_eq_getElem?_getD]
  cases hg : S.structs[id]? with
  | none => right; rfl
  | some d => left; exact List.mem_of_getElem? hg

theorem message_encode_cell (S : Schema) (N : Nat) (hH : S.noNestedSetVersion N = true)
    (hM : S.messageShape N = true) (A : Nat → Bool)
    (hA : ∀ d, A d = true → SvFreeK S (S.dyn d).kind)
    (d : StructDef) (hd : d ∈ S.structs)
    (htag : d.defTag = T.requestMessage ∨ d.defTag = T.responseMessage)
    (fuel : Nat) (pv : Val) (hs : List Val) (bv : Val) (cell : Option Ver) (items : List Item)
    (cell' : Option Ver) (hv : Val.dynsOkL A [.struct (pv :: hs), bv] = true)
    (h : encFields S (fuel + 2) d.fields [.struct (pv :: hs), bv] cell = .ok (items, cell')) :
    ∃ fh fb hitems b, d.fields = [fh, fb] ∧
      encK S (fuel + 1) fh.kind fh.tag (.struct (pv :: hs)) cell
        = .ok ([.struct fh.tag hitems], some pv.asVer) ∧
      encFields S (fuel + 1) [fb] [bv] (some pv.asVer) = .ok (b, some pv.asVer) ∧
      items = .struct fh.tag hitems :: b ∧ cell' = some pv.asVer := by
  have hm := List.all_eq_true.1 hM d hd
  rw [if_pos htag] at hm
  split at hm
  · rename_i fh fb hfields
    simp only [Bool.and_eq_true, Bool.not_eq_true', Option.isNone_iff_eq_none] at hm
    obtain ⟨⟨⟨⟨⟨⟨m1, m2⟩, m3⟩, m4⟩, m5⟩, m6⟩, m7⟩ := hm
    split at m7
    · rename_i hid hkind
      simp only [Bool.and_eq_true, Bool.or_eq_true, decide_eq_true_eq, Bool.not_eq_true'] at m7
      obtain ⟨m7, m8⟩ := m7
      refine ⟨fh, fb, ?_⟩
      rw [hfields] at h
      rw [Val.dynsOkL, Val.dynsOkL, Bool.and_eq_true, Bool.and_eq_true, Val.dynsOk] at hv
      obtain ⟨hv1, hv2, _⟩ := hv
      -- the header field is emitted unconditionally, with the incoming cell
      have hskip : (fieldOutOfRange fh (fieldCell fh (.struct (pv :: hs)) cell) ||
          (fh.omitempty && (Val.struct (pv :: hs)).isZero)) = false := by
        unfold fieldOutOfRange; rw [m3, m4]; rfl
      have hcell : fieldCell fh (.struct (pv :: hs)) cell = cell := by
        unfold fieldCell; rw [m1]; rfl
      have htg : fieldTag S fh (.struct (pv :: hs)) = fh.tag := by
        unfold fieldTag; rw [m5]; rfl
      rw [encFields_cons, hskip, hcell, htg] at h
      simp only [Bool.false_eq_true, if_false] at h
      obtain ⟨⟨a, c1⟩, h1, h2⟩ := Res.bind_eq_ok h
      obtain ⟨⟨b, c2⟩, h3, h4⟩ := Res.bind_eq_ok h2
      cases h4
      -- inside the header: the cell becomes the header's ProtocolVersion
      have h1' := h1
      rw [hkind, encK.eq_def] at h1'
      simp only [m8, Bool.false_eq_true, if_false] at h1'
      obtain ⟨⟨hi, c0⟩, e1, e2⟩ := Res.bind_eq_ok h1'
      cases e2
      have hhd : S.structDef hid ∈ S.structs := by
        rcases S.structDef_mem_or_default hid with hmem | hdef
        · exact hmem
        · rw [hdef] at m7; exact absurd m7 (by decide)
      have hh := List.all_eq_true.1 hH _ hhd
      rw [if_pos m7] at hh
      split at hh
      · rename_i f fs hhf
        simp only [Bool.and_eq_true] at hh
        rw [hhf] at e1
        have hc1 : c0 = some pv.asVer :=
          encFields_header_cell S A hA _ f fs pv hs cell hi c0 hh.1.1 ⟨N, hh.1.2⟩ ⟨N, hh.2⟩ hv1 e1
        subst hc1
        -- the batch items: a kind that reaches no set-version field
        have hN : N ≠ 0 := by
          intro h0; rw [h0, svFreeK] at m6; exact nomatch m6
        obtain ⟨n, rfl⟩ := Nat.exists_eq_succ_of_ne_zero hN
        have hfb : SvFreeFields S [fb] :=
          ⟨n + 2, by rw [svFreeFields, m2, m6, svFreeFields]; rfl; exact fun h => nomatch h⟩
        have hc2 := (cellStable S A hA _).encFields _ _ _ _ _ hfb
          (by rw [Val.dynsOkL, Val.dynsOkL, hv2]; rfl) h3
        subst hc2
        exact ⟨hi, b, hfields, h1, h3, rfl, rfl⟩
      · exact nomatch hh
    · exact nomatch m7
  · exact nomatch hm

/-! ### C05: the pinned introduction table -/

/-- stable keys of a struct: its default tag, and `1000000 + 2·op + response` for every operation whose
    registered request / response payload type it is. -/
def structKeys (S : Schema) (id : Nat) : List Nat :=
  let isMe (dynId : Nat) : Bool :=
    (S.dyn dynId).kind == .ptr (.struct id) || (S.dyn dynId).kind == .struct id
  (if (S.structDef id).defTag = 0 then [] else [(S.structDef id).defTag]) ++
  S.ops.flatMap fun p =>
    (if isMe p.2.1 then [1000000 + 2 * p.1] else []) ++
    (if isMe p.2.2 then [1000000 + 2 * p.1 + 1] else [])

/-- the pinned-table rows a field stands for (key 0 = "a gated field in a struct without a stable key" or
    "a range that is not of the form `vM.m..`": such rows never occur in a pinned table). -/
def fieldGates (keys : List Nat) (f : Field) : List (Nat × Nat × Nat × Nat) :=
  match f.vrange with
  | none => []
  | some r =>
    match r.start, r.stop with
    | some (M, m), none => (if keys.isEmpty then [0] else keys).map fun k => (k, f.tag, M, m)
    | _, _ => [(0, f.tag, 0, 0)]

/-- ALL fields of the schema that carry a version range, as keyed rows. -/
def Schema.gated (S : Schema) : List (Nat × Nat × Nat × Nat) :=
  (List.range S.structs.length).flatMap fun id =>
    (S.structDef id).fields.flatMap (fieldGates (structKeys S id))

/-- the version annotations of the code are exactly the pinned table: both inclusions, same number of rows,
    no key-0 row in the table. -/
def gatingMatches (P : List (Nat × Nat × Nat × Nat)) (S : Schema) : Bool :=
  S.gated.all (fun q => P.contains q) && P.all (fun q => S.gated.contains q) &&
  S.gated.length == P.length && P.all (fun q => q.1 != 0)

theorem gatingMatches_code_in_table (P : List (Nat × Nat × Nat × Nat)) (S : Schema)
    (h : gatingMatches P S = true) (id : Nat) (hid : id < S.structs.length) (f : Field)
    (hf : f ∈ (S.structDef id).fields) (r : VRange) (hr : f.vrange = some r) :
    r.stop = none ∧ ∃ M m, r.start = some (M, m) ∧ structKeys S id ≠ [] ∧
      ∀ k ∈ structKeys S id, (k, f.tag, M, m) ∈ P := by
  unfold gatingMatches at h
  simp only [Bool.and_eq_true, List.all_eq_true, List.contains_iff_mem, bne_iff_ne] at h
  obtain ⟨⟨⟨h1, _⟩, _⟩, h4⟩ := h
  have hmem : ∀ q ∈ fieldGates (structKeys S id) f, q ∈ P := by
    intro q hq
    apply h1
    unfold Schema.gated
    rw [List.mem_flatMap]
    refine ⟨id, List.mem_range.2 hid, ?_⟩
    rw [List.mem_flatMap]
    exact ⟨f, hf, hq⟩
  unfold fieldGates at hmem
  rw [hr] at hmem
  obtain ⟨st, sp⟩ := r
  cases st with
  | none =>
    have := h4 _ (hmem (0, f.tag, 0, 0) (by simp))
    exact absurd rfl this
  | some Mm =>
    obtain ⟨M, m⟩ := Mm
    cases sp with
    | some e =>
      have := h4 _ (hmem (0, f.tag, 0, 0) (by simp))
      exact absurd rfl this
    | none =>
      refine ⟨rfl, M, m, rfl, ?_, ?_⟩
      · intro he
        have := h4 _ (hmem (0, f.tag, M, m) (by simp [he]))
        exact absurd rfl this
      · intro k hk
        apply hmem
        have hne : (structKeys S id).isEmpty = false := by
          cases hs : structKeys S id with
          | nil => rw [hs] at hk; exact nomatch hk
          | cons a l => rfl
        simp only [hne, Bool.false_eq_true, if_false, List.mem_map]
        exact ⟨k, hk, rfl⟩

theorem gatingMatches_table_in_code (P : List (Nat × Nat × Nat × Nat)) (S : Schema)
    (h : gatingMatches P S = true) (q : Nat × Nat × Nat × Nat) (hq : q ∈ P) :
    ∃ id, id < S.structs.length ∧ q.1 ∈ structKeys S id ∧ ∃ f ∈ (S.structDef id).fields,
      f.tag = q.2.1 ∧ f.vrange = some { start := some (q.2.2.1, q.2.2.2), stop := none } := by
  unfold gatingMatches at h
  simp only [Bool.and_eq_true, List.all_eq_true, List.contains_iff_mem, bne_iff_ne] at h
  obtain ⟨⟨⟨_, h2⟩, _⟩, h4⟩ := h
  have hg := h2 q hq
  have hq0 := h4 q hq
  unfold Schema.gated at hg
  rw [List.mem_flatMap] at hg
  obtain ⟨id, hid, hg⟩ := hg
  rw [List.mem_flatMap] at hg
  obtain ⟨f, hf, hg⟩ := hg
  refine ⟨id, List.mem_range.1 hid, ?_⟩
  unfold fieldGates at hg
  cases hr : f.vrange with
  | none => rw [hr] at hg; exact nomatch hg
  | some r =>
    rw [hr] at hg
    obtain ⟨st, sp⟩ := r
    cases st with
    | none => simp at hg; rw [hg] at hq0; exact absurd rfl hq0
    | some Mm =>
      obtain ⟨M, m⟩ := Mm
      cases sp with
      | some e => simp at hg; rw [hg] at hq0; exact absurd rfl hq0
      | none =>
        simp only [List.mem_map] at hg
        obtain ⟨k, hk, rfl⟩ := hg
        cases hs : structKeys S id with
        | nil => rw [hs] at hk; simp at hk; rw [hk] at hq0; exact absurd rfl hq0
        | cons a l =>
          rw [hs] at hk
          simp only [List.isEmpty_cons, Bool.false_eq_true, if_false] at hk
          exact ⟨hk, f, hf, rfl, hr⟩

/-! ### C06: dispatch of the hand-written decoders, opaque values -/

theorem decDyn_ok {S : Schema} {fuel d tag : Nat} {c : Cur} {ver : Option Ver} {v : Val} {st : DecSt}
    (h : decDyn S fuel d tag c ver = .ok (v, st)) : ∃ x, v = .iface (some (d, x)) := by
  cases fuel with
  | zero => rw [decDyn] at h; cases h
  | succ n =>
    rw [decDyn] at h
    obtain ⟨⟨x, st'⟩, _, h2⟩ := Res.bind_eq_ok h
    cases h2
    exact ⟨_, rfl⟩

theorem decCustom_requestBatchItem {S : Schema} {fuel id tag : Nat} {c : Cur} {ver : Option Ver}
    {v : Val} {st : DecSt}
    (h : decCustom S (fuel + 1) Cust.requestBatchItem id tag c ver = .ok (v, st)) :
    ∃ op bid x me, v = .struct [op, bid, .iface (some (S.payloadDyn op.asInt.toNat false, x)), me] := by
  rw [decCustom] at h
  rw [if_neg (by decide)] at h
  obtain ⟨it, _, h⟩ := Res.bind_eq_ok h
  obtain ⟨c0, _, h⟩ := Res.bind_eq_ok h
  obtain ⟨⟨v', ver'⟩, hin, h⟩ := Res.bind_eq_ok h
  obtain ⟨c', _, h⟩ := Res.bind_eq_ok h
  cases h
  rw [if_pos rfl] at hin
  obtain ⟨⟨op, c1, v1⟩, _, hin⟩ := Res.bind_eq_ok hin
  obtain ⟨⟨bid, c2, v2⟩, _, hin⟩ := Res.bind_eq_ok hin
  obtain ⟨⟨pl, c3, v3⟩, hpl, hin⟩ := Res.bind_eq_ok hin
  obtain ⟨⟨me, c4, v4⟩, _, hin⟩ := Res.bind_eq_ok hin
  cases hin
  obtain ⟨x, rfl⟩ := decDyn_ok hpl
  exact ⟨op, bid, x, me, rfl⟩

theorem decCustom_responseBatchItem {S : Schema} {fuel id tag : Nat} {c : Cur} {ver : Option Ver}
    {v : Val} {st : DecSt}
    (h : decCustom S (fuel + 1) Cust.responseBatchItem id tag c ver = .ok (v, st)) :
    ∃ op bid rst rs msg acv pl me, v = .struct [op, bid, rst, rs, msg, acv, pl, me] ∧
      (pl = .iface none ∨
        (0 < op.asInt ∧ ∃ x, pl = .iface (some (S.payloadDyn op.asInt.toNat true, x)))) := by
  rw [decCustom] at h
  rw [if_neg (by decide)] at h
  obtain ⟨it, _, h⟩ := Res.bind_eq_ok h
  obtain ⟨c0, _, h⟩ := Res.bind_eq_ok h
  obtain ⟨⟨v', ver'⟩, hin, h⟩ := Res.bind_eq_ok h
  obtain ⟨c', _, h⟩ := Res.bind_eq_ok h
  cases h
  rw [if_neg (by decide), if_pos rfl] at hin
  obtain ⟨⟨op, c1, v1⟩, _, hin⟩ := Res.bind_eq_ok hin
  obtain ⟨⟨bid, c2, v2⟩, _, hin⟩ := Res.bind_eq_ok hin
  obtain ⟨⟨rst, c3, v3⟩, _, hin⟩ := Res.bind_eq_ok hin
  obtain ⟨⟨rs, c4, v4⟩, _, hin⟩ := Res.bind_eq_ok hin
  obtain ⟨⟨msg, c5, v5⟩, _, hin⟩ := Res.bind_eq_ok hin
  obtain ⟨⟨acv, c6, v6⟩, _, hin⟩ := Res.bind_eq_ok hin
  dsimp only at hin
  split at hin
  · rename_i hc
    obtain ⟨⟨pl, c7, v7⟩, hpl, hin⟩ := Res.bind_eq_ok hin
    obtain ⟨⟨me, c8, v8⟩, _, hin⟩ := Res.bind_eq_ok hin
    cases hin
    obtain ⟨x, rfl⟩ := decDyn_ok hpl
    exact ⟨op, bid, rst, rs, msg, acv, _, me, rfl, Or.inr ⟨hc.1, x, rfl⟩⟩
  · obtain ⟨⟨pl, c7, v7⟩, hpl, hin⟩ := Res.bind_eq_ok hin
    obtain ⟨⟨me, c8, v8⟩, _, hin⟩ := Res.bind_eq_ok hin
    cases hin
    cases hpl
    exact ⟨op, bid, rst, rs, msg, acv, _, me, rfl, Or.inl rfl⟩

theorem decCustom_attr {S : Schema} {fuel id tag : Nat} {c : Cur} {ver : Option Ver}
    {v : Val} {st : DecSt}
    (h : decCustom S (fuel + 1) Cust.attr id tag c ver = .ok (v, st)) :
    ∃ name idx x, v = .struct [.text name, idx, .iface (some (S.attrDyn name, x))] := by
  rw [decCustom] at h
  rw [if_neg (by decide)] at h
  obtain ⟨it, _, h⟩ := Res.bind_eq_ok h
  obtain ⟨c0, _, h⟩ := Res.bind_eq_ok h
  obtain ⟨⟨v', ver'⟩, hin, h⟩ := Res.bind_eq_ok h
  obtain ⟨c', _, h⟩ := Res.bind_eq_ok h
  cases h
  rw [if_neg (by decide), if_neg (by decide), if_pos rfl] at hin
  obtain ⟨⟨name, c1⟩, _, hin⟩ := Res.bind_eq_ok hin
  dsimp only at hin
  split at hin
  · obtain ⟨⟨i, c2⟩, _, hin⟩ := Res.bind_eq_ok hin
    obtain ⟨⟨idx, c2', v2⟩, hidx, hin⟩ := Res.bind_eq_ok hin
    obtain ⟨⟨x, c3, v3⟩, hx, hin⟩ := Res.bind_eq_ok hin
    cases hin
    obtain ⟨y, rfl⟩ := decDyn_ok hx
    exact ⟨name, idx, y, rfl⟩
  · obtain ⟨⟨idx, c2', v2⟩, hidx, hin⟩ := Res.bind_eq_ok hin
    obtain ⟨⟨x, c3, v3⟩, hx, hin⟩ := Res.bind_eq_ok hin
    cases hin
    obtain ⟨y, rfl⟩ := decDyn_ok hx
    exact ⟨name, idx, y, rfl⟩

theorem decCustom_getResponse {S : Schema} {fuel id tag : Nat} {c : Cur} {ver : Option Ver}
    {v : Val} {st : DecSt}
    (h : decCustom S (fuel + 1) Cust.getResponse id tag c ver = .ok (v, st)) :
    ∃ ot uid d x, v = .struct [ot, uid, .iface (some (d, x))] ∧
      S.objectDyn ot.asInt.toNat = some d := by
  rw [decCustom] at h
  rw [if_neg (by decide)] at h
  obtain ⟨it, _, h⟩ := Res.bind_eq_ok h
  obtain ⟨c0, _, h⟩ := Res.bind_eq_ok h
  obtain ⟨⟨v', ver'⟩, hin, h⟩ := Res.bind_eq_ok h
  obtain ⟨c', _, h⟩ := Res.bind_eq_ok h
  cases h
  rw [if_neg (by decide), if_neg (by decide), if_neg (by decide), if_neg (by decide),
    if_neg (by decide), if_pos rfl] at hin
  obtain ⟨⟨ot, c1, v1⟩, _, hin⟩ := Res.bind_eq_ok hin
  obtain ⟨⟨uid, c2, v2⟩, _, hin⟩ := Res.bind_eq_ok hin
  dsimp only at hin
  split at hin
  · cases hin
  · rename_i d hd
    obtain ⟨⟨obj, c3, v3⟩, ho, hin⟩ := Res.bind_eq_ok hin
    cases hin
    obtain ⟨x, rfl⟩ := decDyn_ok ho
    exact ⟨ot, uid, d, x, rfl, hd⟩

theorem decCustom_registerRequest {S : Schema} {fuel id tag : Nat} {c : Cur} {ver : Option Ver}
    {v : Val} {st : DecSt}
    (h : decCustom S (fuel + 1) Cust.registerRequest id tag c ver = .ok (v, st)) :
    ∃ ot ta d x, v = .struct [ot, ta, .iface (some (d, x))] ∧
      S.objectDyn ot.asInt.toNat = some d := by
  rw [decCustom] at h
  rw [if_neg (by decide)] at h
  obtain ⟨it, _, h⟩ := Res.bind_eq_ok h
  obtain ⟨c0, _, h⟩ := Res.bind_eq_ok h
  obtain ⟨⟨v', ver'⟩, hin, h⟩ := Res.bind_eq_ok h
  obtain ⟨c', _, h⟩ := Res.bind_eq_ok h
  cases h
  rw [if_neg (by decide), if_neg (by decide), if_neg (by decide), if_neg (by decide),
    if_neg (by decide), if_neg (by decide), if_pos rfl] at hin
  obtain ⟨⟨ot, c1, v1⟩, _, hin⟩ := Res.bind_eq_ok hin
  obtain ⟨⟨ta, c2, v2⟩, _, hin⟩ := Res.bind_eq_ok hin
  dsimp only at hin
  split at hin
  · cases hin
  · rename_i d hd
    obtain ⟨⟨obj, c3, v3⟩, ho, hin⟩ := Res.bind_eq_ok hin
    cases hin
    obtain ⟨x, rfl⟩ := decDyn_ok ho
    exact ⟨ot, ta, d, x, rfl, hd⟩

theorem decCustom_exportResponse {S : Schema} {fuel id tag : Nat} {c : Cur} {ver : Option Ver}
    {v : Val} {st : DecSt}
    (h : decCustom S (fuel + 1) Cust.exportResponse id tag c ver = .ok (v, st)) :
    ∃ ot uid attrs d x, v = .struct [ot, uid, attrs, .iface (some (d, x))] ∧
      S.objectDyn ot.asInt.toNat = some d := by
  rw [decCustom] at h
  rw [if_neg (by decide)] at h
  obtain ⟨it, _, h⟩ := Res.bind_eq_ok h
  obtain ⟨c0, _, h⟩ := Res.bind_eq_ok h
  obtain ⟨⟨v', ver'⟩, hin, h⟩ := Res.bind_eq_ok h
  obtain ⟨c', _, h⟩ := Res.bind_eq_ok h
  cases h
  rw [if_neg (by decide), if_neg (by decide), if_neg (by decide), if_neg (by decide),
    if_neg (by decide), if_neg (by decide), if_neg (by decide), if_pos rfl] at hin
  obtain ⟨⟨ot, c1, v1⟩, _, hin⟩ := Res.bind_eq_ok hin
  obtain ⟨⟨uid, c2, v2⟩, _, hin⟩ := Res.bind_eq_ok hin
  obtain ⟨⟨attrs, c3, v3⟩, _, hin⟩ := Res.bind_eq_ok hin
  dsimp only at hin
  split at hin
  · cases hin
  · rename_i d hd
    obtain ⟨⟨obj, c4, v4⟩, ho, hin⟩ := Res.bind_eq_ok hin
    cases hin
    obtain ⟨x, rfl⟩ := decDyn_ok ho
    exact ⟨ot, uid, attrs, d, x, rfl, hd⟩

theorem decCustom_importRequest {S : Schema} {fuel id tag : Nat} {c : Cur} {ver : Option Ver}
    {v : Val} {st : DecSt}
    (h : decCustom S (fuel + 1) Cust.importRequest id tag c ver = .ok (v, st)) :
    ∃ uid rep kwt attrs ot d x, v = .struct [uid, rep, kwt, attrs, .iface (some (d, x))] ∧
      importObjectType S attrs = some ot ∧ S.objectDyn ot = some d := by
  rw [decCustom] at h
  rw [if_neg (by decide)] at h
  obtain ⟨it, _, h⟩ := Res.bind_eq_ok h
  obtain ⟨c0, _, h⟩ := Res.bind_eq_ok h
  obtain ⟨⟨v', ver'⟩, hin, h⟩ := Res.bind_eq_ok h
  obtain ⟨c', _, h⟩ := Res.bind_eq_ok h
  cases h
  rw [if_neg (by decide), if_neg (by decide), if_neg (by decide), if_neg (by decide),
    if_neg (by decide), if_neg (by decide), if_neg (by decide), if_neg (by decide), if_pos rfl] at hin
  obtain ⟨⟨uid, c1, v1⟩, _, hin⟩ := Res.bind_eq_ok hin
  obtain ⟨⟨rep, c2, v2⟩, _, hin⟩ := Res.bind_eq_ok hin
  obtain ⟨⟨kwt, c3, v3⟩, _, hin⟩ := Res.bind_eq_ok hin
  obtain ⟨⟨attrs, c4, v4⟩, _, hin⟩ := Res.bind_eq_ok hin
  dsimp only at hin
  split at hin
  · cases hin
  · rename_i ot hot
    split at hin
    · cases hin
    · rename_i d hd
      obtain ⟨⟨obj, c5, v5⟩, ho, hin⟩ := Res.bind_eq_ok hin
      cases hin
      obtain ⟨x, rfl⟩ := decDyn_ok ho
      exact ⟨uid, rep, kwt, attrs, ot, d, x, rfl, hot, hd⟩

/-! dispatch tables -/

theorem payloadDyn_of_find {S : Schema} {op o rq rs : Nat}
    (h : S.ops.find? (fun p => p.1 == op) = some (o, rq, rs)) :
    S.payloadDyn op false = rq ∧ S.payloadDyn op true = rs := by
  unfold Schema.payloadDyn
  rw [h]
  exact ⟨rfl, rfl⟩

theorem find?_of_mem_nodup {l : List (Nat × Nat × Nat)} (hn : (l.map (·.1)).Nodup)
    {p : Nat × Nat × Nat} (hp : p ∈ l) : l.find? (fun q => q.1 == p.1) = some p := by
  induction l with
  | nil => exact nomatch hp
  | cons a l ih =>
    rw [List.map_cons, List.nodup_cons] at hn
    rw [List.find?_cons]
    rcases List.mem_cons.1 hp with rfl | hp'
    · simp
    · have hne : a.1 ≠ p.1 := by
        intro he
        exact hn.1 (he ▸ List.mem_map_of_mem (f := (·.1)) hp')
      have hb : (a.1 == p.1) = false := by simpa using hne
      rw [hb]
      exact ih hn.2 hp'

theorem payloadDyn_registered {S : Schema} (hn : (S.ops.map (·.1)).Nodup) {op rq rs : Nat}
    (hp : (op, rq, rs) ∈ S.ops) : S.payloadDyn op false = rq ∧ S.payloadDyn op true = rs :=
  payloadDyn_of_find (find?_of_mem_nodup hn hp)

theorem payloadDyn_unknown {S : Schema} {op : Nat} (h : ∀ p ∈ S.ops, p.1 ≠ op) (r : Bool) :
    S.payloadDyn op r = S.unknownPayloadDyn := by
  unfold Schema.payloadDyn
  have : S.ops.find? (fun p => p.1 == op) = none := by
    rw [List.find?_eq_none]
    intro p hp
    simpa using h p hp
  rw [this]

theorem payloadDyn_cases (S : Schema) (op : Nat) (r : Bool) :
    (∃ rq rs, (op, rq, rs) ∈ S.ops ∧ S.payloadDyn op r = if r then rs else rq) ∨
    ((∀ p ∈ S.ops, p.1 ≠ op) ∧ S.payloadDyn op r = S.unknownPayloadDyn) := by
  cases hf : S.ops.find? (fun p => p.1 == op) with
  | none =>
    right
    rw [List.find?_eq_none] at hf
    have h : ∀ p ∈ S.ops, p.1 ≠ op := fun p hp => by simpa using hf p hp
    exact ⟨h, payloadDyn_unknown h r⟩
  | some p =>
    left
    obtain ⟨o, rq, rs⟩ := p
    have ho : o = op := by simpa using List.find?_some hf
    subst ho
    refine ⟨rq, rs, List.mem_of_find?_eq_some hf, ?_⟩
    unfold Schema.payloadDyn
    rw [hf]

theorem attrDyn_custom {S : Schema} {name : Bytes}
    (h : name.take 2 = [0x78, 0x2D] ∨ name.take 2 = [0x79, 0x2D]) : S.attrDyn name = S.valueDyn := by
  unfold Schema.attrDyn
  have : (name.take 2 == [0x78, 0x2D] || name.take 2 == [0x79, 0x2D]) = true := by
    rcases h with h | h <;> simp [h]
  simp only [this, if_true]

theorem attrDyn_unknown {S : Schema} {name : Bytes}
    (h : ∀ p ∈ S.attrs, p.1 ≠ packName name) : S.attrDyn name = S.valueDyn := by
  unfold Schema.attrDyn
  dsimp only
  split
  · rfl
  · have : lookupNat S.attrs (packName name) = none := by
      unfold lookupNat
      have : S.attrs.find? (fun p => p.1 == packName name) = none := by
        rw [List.find?_eq_none]
        intro p hp
        simpa using h p hp
      rw [this]
    rw [this]

theorem attrDyn_registered {S : Schema} {name : Bytes} {d : Nat}
    (hc : ¬ (name.take 2 = [0x78, 0x2D] ∨ name.take 2 = [0x79, 0x2D]))
    (h : lookupNat S.attrs (packName name) = some d) : S.attrDyn name = d := by
  unfold Schema.attrDyn
  have : (name.take 2 == [0x78, 0x2D] || name.take 2 == [0x79, 0x2D]) = false := by
    simpa using hc
  simp only [this, Bool.false_eq_true, if_false, h]

/-! opaque values -/

theorem Cur.start_enc (t : Item) (h : t.InRange) :
    Cur.start (enc t) = .ok { items := [t.raw], tail := none } := by
  rw [enc_eq_encList]
  exact Cur.start_encList [t] (by rw [Item.AllInRange, Item.AllInRange]; exact ⟨h, trivial⟩)

/-- the UnknownPayload decoder on the cursor over an encoded structure returns its children. -/
theorem decCustom_unknownPayload_enc (S : Schema) (tag : Nat) (its : List Item)
    (h : (Item.struct tag its).InRange) (fuel : Nat) (hf : Item.sizeList its ≤ fuel) (id : Nat)
    (ver : Option Ver) (rs : List RawItem) :
    decCustom S (fuel + 1) Cust.unknownPayload id tag
        { items := (Item.struct tag its).raw :: rs, tail := none } ver
      = .ok (.struct [.anyStruct its], { items := rs, tail := none }, ver) := by
  rw [Item.InRange] at h
  rw [decCustom, if_pos rfl,
    Cur.struct_raw tag its rs h.2.2.2 _ its (decodeFields_enc_aux its h.2.2.2 fuel hf)]
  rfl

theorem encCustom_unknownPayload (S : Schema) (fuel tag : Nat) (its : List Item) (ver : Option Ver) :
    encCustom S (fuel + 1) Cust.unknownPayload tag (.struct [.anyStruct its]) ver
      = .ok ([.struct tag its], ver) := by
  rw [encCustom.eq_def]
  dsimp only
  rw [if_neg (by decide), if_neg (by decide), if_pos rfl]
  rfl

theorem Item.withTag_tag (t : Item) : t.withTag t.tag = t := by
  cases t <;> rfl

/-- `ttlv.Value` (unknown / custom attribute values): decode returns the item, encode under the same tag
    writes it back. -/
theorem decK_any_enc (S : Schema) (t : Item) (h : t.InRange) (fuel : Nat) (hf : t.size ≤ fuel)
    (ver : Option Ver) (rs : List RawItem) :
    decK S (fuel + 1) .any t.tag { items := t.raw :: rs, tail := none } ver
      = .ok (.any (some t), { items := rs, tail := none }, ver) := by
  rw [decK, decodeValue_enc_aux t h fuel hf rs]
  rfl

theorem encK_any (S : Schema) (fuel : Nat) (t : Item) (ver : Option Ver) :
    encK S (fuel + 1) .any t.tag (.any (some t)) ver = .ok ([t], ver) := by
  rw [encK, Item.withTag_tag]

/-- a dyn id denotes the opaque payload type: pointer to a struct whose codecs are the UnknownPayload ones. -/
def Schema.isOpaquePayloadDyn (S : Schema) (d : Nat) : Bool :=
  match (S.dyn d).kind with
  | .ptr (.struct u) =>
    (S.structDef u).decCustom && (S.structDef u).encCustom &&
      decide ((S.structDef u).custom = Cust.unknownPayload)
  | _ => false

theorem Schema.dyn_lt_of_kind {S : Schema} {d : Nat} (h : (S.dyn d).kind ≠ .unsupported) :
    d < S.dyns.length := by
  apply Decidable.byContradiction
  intro hn
  apply h
  unfold Schema.dyn
  rw [List.getD_eq_getElem?_getD, List.getElem?_eq_none (by omega)]
  rfl

theorem unmarshal_opaque_enc (S : Schema) (d : Nat) (hd : S.isOpaquePayloadDyn d = true)
    (tag : Nat) (its : List Item) (h : (Item.struct tag its).InRange) :
    unmarshal S d tag (enc (.struct tag its)) = .ok (.ptr (some (.struct [.anyStruct its]))) := by
  unfold Schema.isOpaquePayloadDyn at hd
  split at hd
  · rename_i u hk
    simp only [Bool.and_eq_true, decide_eq_true_eq] at hd
    obtain ⟨⟨h1, _⟩, h3⟩ := hd
    have htag : tag ≠ 0 := by rw [Item.InRange] at h; omega
    have hsz := size_le_length_aux (.struct tag its)
    rw [Item.size] at hsz
    have hdr : ¬ S.dyns.length ≤ d := by
      have := Schema.dyn_lt_of_kind (S := S) (d := d) (by rw [hk]; exact fun e => nomatch e)
      omega
    obtain ⟨f, hf, hsz'⟩ : ∃ f, decFuel (enc (Item.struct tag its)).length = f + 1 + 1
        ∧ Item.sizeList its ≤ f :=
      ⟨(enc (Item.struct tag its)).length + 2999998, by unfold decFuel; omega, by omega⟩
    unfold unmarshal
    rw [if_neg hdr, hf]
    unfold unmarshalWith
    rw [Cur.start_enc _ h, Res.ok_bind]
    -- NB: the fuel must be opaque here: `simp` unfolds fuel-recursive functions applied to `n + literal`
    generalize f = f0 at hsz' ⊢
    simp only [hk, if_neg htag]
    rw [decK]
    simp only [h1, if_true, h3]
    rw [decCustom_unknownPayload_enc S tag its h f0 hsz']
    rfl
  · exact nomatch hd

theorem marshal_opaque (S : Schema) (d : Nat) (hd : S.isOpaquePayloadDyn d = true)
    (tag : Nat) (its : List Item) (htag : tag ≠ 0) :
    marshal S d tag (.ptr (some (.struct [.anyStruct its]))) = .ok (enc (.struct tag its)) := by
  unfold Schema.isOpaquePayloadDyn at hd
  split at hd
  · rename_i u hk
    simp only [Bool.and_eq_true, decide_eq_true_eq] at hd
    obtain ⟨⟨_, h2⟩, h3⟩ := hd
    unfold marshal
    simp only [if_neg htag, hk]
    rw [show (100000 : Nat) = 99998 + 1 + 1 from rfl, encK, encK]
    simp only [h2, if_true, h3]
    rw [encCustom_unknownPayload]
    simp only [Res.ok_bind, Res.pure_eq, ← enc_eq_encList]
  · exact nomatch hd

end Kmip
