/-
  C08 — the server stays available whatever clients and handlers do.

  The statements are about the MODELLED state machine of one server connection (`Kmip.SrvConn`:
  the goroutines of `kmipserver/conn.go` and the connection loop of `server.go handleConn`, with a
  non-deterministic client, handler and server environment), for executions of ANY length and ANY
  interleaving of the modelled steps, and — by `isolation` — for any number of concurrent
  connections. The Go scheduler, sockets, timers and the actual reclamation of goroutines are not in
  the model: the harness engine `lts.srv` observes them on the real server and checks that what it
  observes is a behaviour of this model.

  Method: `Gen.certSrvConn` is the reachable set computed by the (untrusted) driver; the kernel
  checks that it contains the initial state, is closed under `step`, and contains no bad state
  (`Gen.certSrvConn_ok`, piecewise `decide +kernel`); `Lts.safe_of_cert` (proved once) turns that
  into a statement about every reachable state.
-/
import KmipModel.Model.SrvConn
import KmipModel.Gen.CertSrvConn
import KmipModel.Props.C09
import KmipModel.Lemmas.LtsLemmas
namespace Kmip.C08
open Kmip.Lts Kmip.SrvConn

/-! ### the certificate -/

theorem srvconn_cert :
    closedUnder (sys current) coding Gen.certSrvConn = true ∧
    safeOn coding Gen.certSrvConn (bad current) = true :=
  cert_of_ok (by decide +kernel) Gen.certSrvConn_ok

/-- the certificate contains the initial state and is closed under every step of the model. -/
theorem srvconn_closed : closedUnder (sys current) coding Gen.certSrvConn = true := srvconn_cert.1

/-- no reachable state of a connection is bad — any number of requests, any interleaving, any
    client, any handler outcomes, cancellation of the server's contexts at any time. -/
theorem srvconn_safe : ∀ s, Reachable (sys current) s → bad current s = false :=
  safe_of_cert srvconn_closed srvconn_cert.2

/-! ### the named consequences -/

/-- no Go run-time panic: no send on a closed channel, no close of a closed channel (tx, rx, the
    per-message error channel). -/
theorem no_crash : ∀ s, Reachable (sys current) s →
    s.fault ≠ .sendOnClosed ∧ s.fault ≠ .closeOfClosed := by
  intro s hr
  have h := (bad_parts (srvconn_safe s hr)).1
  cases hf : s.fault <;> simp [crashed, Fault.is, Fault.toNat, hf] at h ⊢

/-- keeps no goroutines, does not deadlock: when the client has gone or the connection context is
    cancelled and one of the three goroutines has not ended, some step of the server itself is
    enabled — with ONE exception, `waitsOnPipelined` (see `C08_full` below). -/
theorem no_stuck : ∀ s, Reachable (sys current) s → stuck current s = true →
    waitsOnPipelined s = true := by
  intro s hr hs
  have h := (bad_parts (srvconn_safe s hr)).2.1
  rw [hs] at h
  simpa using h

/-- once the connection context is cancelled (client gone and noticed, write failure, Shutdown's
    grace timer, …) there is no exception: the connection never gets stuck. -/
theorem no_stuck_after_cancel : ∀ s, Reachable (sys current) s → s.ctxDone = true →
    stuck current s = false := by
  intro s hr hc
  cases hs : stuck current s with
  | false => rfl
  | true =>
    have := no_stuck s hr hs
    simp [waitsOnPipelined, hc] at this

/-- every response written is the answer to the oldest unanswered request (no overtaking, no
    duplicate, no response without request), and whenever the connection is live and idle every
    request read has been answered. -/
theorem answers_in_order : ∀ s, Reachable (sys current) s →
    s.fault ≠ .order ∧ (idleLive s = true → s.fl = .zero) := by
  intro s hr
  have h := (bad_parts (srvconn_safe s hr)).2.2.1
  simp only [misordered, Bool.or_eq_false_iff, Bool.and_eq_false_iff] at h
  constructor
  · intro hf; simp [Fault.is, Fault.toNat, hf] at h
  · intro hi
    rcases h.2 with h2 | h2
    · rw [hi] at h2; cases h2
    · cases hfl : s.fl <;> simp [Cnt.is, Cnt.toNat, hfl] at h2 ⊢

/-- a correctly framed message that cannot be decoded is answered with at most ONE invalid-message
    response (written only after it was produced), and the connection serves nothing after it. -/
theorem invalid_message_answered_once : ∀ s, Reachable (sys current) s →
    s.fault ≠ .invalidTwice ∧ (s.invWr = true → s.invProd = true) ∧
    (s.invProd = true → s.m ≠ .handle ∧ s.m ≠ .handleSlow ∧ s.m ≠ .recvSel ∧ s.m ≠ .recvCheck) := by
  intro s hr
  have h := (bad_parts (srvconn_safe s hr)).2.2.2.1
  simp only [invalidBad, Bool.or_eq_false_iff, Bool.and_eq_false_iff] at h
  refine ⟨?_, ?_, ?_⟩
  · intro hf; simp [Fault.is, Fault.toNat, hf] at h
  · intro hw
    rcases h.1.2 with h2 | h2
    · rw [hw] at h2; cases h2
    · simpa using h2
  · intro hp
    rcases h.2 with h2 | h2
    · rw [hp] at h2; cases h2
    · cases hm : s.m <;> simp [MPc.is, MPc.toNat, hm] at h2 ⊢

/-- per connection: the terminate hook runs at most once, only after a successful connect hook,
    after the last handler; and exactly once when the owner goroutine has ended after a successful
    connect hook (never when the connect hook failed). -/
theorem conn_hooks_paired : ∀ s, Reachable (sys current) s →
    s.fault ≠ .hookTwice ∧ (s.termHook = true → s.hookOk = true) ∧
    (s.m = .ended → s.termHook = s.hookOk) ∧
    (s.termHook = true → s.m ≠ .hook ∧ s.m ≠ .handle ∧ s.m ≠ .handleSlow ∧ s.m ≠ .recvSel) := by
  intro s hr
  have h := (bad_parts (srvconn_safe s hr)).2.2.2.2
  simp only [hookBad, Bool.or_eq_false_iff, Bool.and_eq_false_iff] at h
  refine ⟨?_, ?_, ?_, ?_⟩
  · intro hf; simp [Fault.is, Fault.toNat, hf] at h
  · intro ht
    rcases h.1.1.2 with h2 | h2
    · rw [ht] at h2; cases h2
    · simpa using h2
  · intro hm
    rcases h.1.2 with h2 | h2
    · simp [MPc.is, MPc.toNat, hm] at h2
    · cases ht : s.termHook <;> cases hk : s.hookOk <;> simp [ht, hk] at h2 ⊢
  · intro ht
    rcases h.2 with h2 | h2
    · rw [ht] at h2; cases h2
    · cases hm : s.m <;> simp [MPc.is, MPc.toNat, hm] at h2 ⊢

/-- isolation / any number of connections: in the interleaved product of `n` connections (a step of
    the product is a step of ONE component and leaves the others untouched —
    `Lts.prodStep_isolated`), every component is a reachable state of the single-connection model,
    hence not bad. -/
theorem isolation (n : Nat) : ∀ ss, Reachable (prod (sys current) n) ss →
    ∀ s ∈ ss, bad current s = false :=
  prod_safe (sys current) n (bad current) srvconn_safe

/-! ### the full statement is false of the current code: one exception -/

/-- the property at full strength: NEVER stuck. -/
def C08_full : Prop := ∀ s, Reachable (sys current) s → stuck current s = false

/-- … it does not hold. Connect hook ok; the client pipelines two requests; the handler of the first
    one waits for the cancellation of its context; the reader picks the second request up and
    blocks handing it over (the owner is busy); the client disconnects. Nobody is reading the
    stream any more, so nobody notices: handler, owner, reader and writer stay until the handler
    gives up by itself or the server context is cancelled (Shutdown's grace timer). -/
theorem pipelined_waiting_handler_keeps_goroutines :
    ∃ s, Reachable (sys current) s ∧ (stuck current s && waitsOnPipelined s) = true :=
  exists_reachable_of_follow (sys current) [0, 0, 1, 1, 0, 1, 0, 0, 0, 0] _ (by decide +kernel)

theorem C08_full_false : ¬ C08_full := by
  intro h
  obtain ⟨s, hr, hs⟩ := pipelined_waiting_handler_keeps_goroutines
  rw [h s hr] at hs
  cases hs

/-! ### the repaired defects, exhibited by the same model under the OLD parameters -/

/-- before d24e630 (`terminate` closed the tx channel): a send on the closed channel is reachable.
    The owner has loaded tx and is about to select; the client disconnects; the reader runs
    `terminate` (cancel, close(tx)); the owner's select picks the send case: panic. -/
theorem old_closesTx_crashes :
    ∃ s, Reachable (sys oldClosesTx) s ∧ (s.fault.is .sendOnClosed) = true :=
  exists_reachable_of_follow (sys oldClosesTx) [0, 0, 1, 2, 0, 0, 0, 0, 4, 3, 0, 0, 1, 0] _
    (by decide +kernel)

/-- before 4f747d8 (unbuffered per-message error channel): the writer, whose write failed, blocks
    forever sending the error to an owner that has already left through its cancelled context: the
    writer goroutine is kept (and the connection is never terminated by it). -/
theorem old_unbuffered_errch_leaks :
    ∃ s, Reachable (sys oldUnbuffered) s ∧
      (stuck oldUnbuffered s && !waitsOnPipelined s && s.w.is .errSend) = true :=
  exists_reachable_of_follow (sys oldUnbuffered)
    [0, 0, 1, 2, 0, 0, 0, 1, 0, 3, 0, 0, 0, 0, 0, 0, 0, 0, 0, 0] _ (by decide +kernel)

/-! ### handler outcomes, over the batch model (C09) -/

open Kmip.Batch in
/-- every outcome of an operation handler — success, typed error, plain error, panic with a typed
    error, panic with anything else — yields exactly one response item for its request item, a
    FAILED one unless the handler succeeded, and the loop goes on: every other item is still
    answered with its own result (corollary of `C09.one_item_per_request_item`,
    `C09.continue_semantics`, `C09.itemResult_failed`; under Stop the later items are answered
    "cancelled" instead: `C09.stop_semantics`). `Batch.execFull` is total: a handler panic is a
    value of the model (`Outcome.panicTyped/.panicOther`), recovered in `executeItem`. -/
theorem handler_outcome_is_an_item (srv : Srv) (req : Req) (h : Accepted srv req)
    (hns : req.opt ≠ optStop) (j : Nat) (it : Item) (hj : req.items[j]? = some it)
    (hd : dispatched srv it = true) :
    (execFull srv req).resp.items.length = req.items.length ∧
    (execFull srv req).resp.items[j]? = some (itemResult srv it) ∧
    (it.out ≠ .success → (itemResult srv it).failed = true) ∧
    (∀ k it', k ≠ j → req.items[k]? = some it' →
      (execFull srv req).resp.items[k]? = some (itemResult srv it')) := by
  have hc := (C09.continue_semantics srv req h hns).2
  refine ⟨C09.one_item_per_request_item srv req h, hc j it hj, ?_, fun k it' _ hk => hc k it' hk⟩
  intro hout
  rw [C09.itemResult_failed]
  simp only [dispatched, Bool.and_eq_true, bne_iff_ne, ne_eq] at hd
  exact Or.inr (Or.inl ⟨hd.2, hout⟩)

/-! ### non-vacuity -/

/-- the model does serve: a response has just been written while the NEXT request, pipelined, is
    already held by the reader (so the order bookkeeping of `answers_in_order` is exercised), … -/
example : ∃ s, Reachable (sys current) s ∧ (s.w.is .closeOk && s.r.is .hand && s.fl.is .one) = true :=
  exists_reachable_of_follow (sys current) [0, 0, 1, 2, 0, 0, 0, 0, 0, 0, 0, 0] _ (by decide +kernel)

/-- … and so is a clean end of all three goroutines after an undecodable message was answered with
    the invalid-message response, the terminate hook having run. -/
example : ∃ s, Reachable (sys current) s ∧ (allEnded s && s.termHook && s.invWr) = true :=
  exists_reachable_of_follow (sys current)
    [0, 0, 1, 2, 0, 0, 0, 1, 0, 1, 1, 0, 0, 0, 0, 0, 0, 0, 0, 0] _ (by decide +kernel)

/-- a panicking handler among others (C09's sample batch): item 3 panics, item 4 is still answered. -/
example : (Kmip.Batch.execFull C09.srv0 C09.reqCont).resp.items.length = 5 := by decide

end Kmip.C08
