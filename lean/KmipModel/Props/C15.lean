/-
  C15 — the ID placeholder is scoped to a single request.

  * `Batch.execFull` threads the placeholder exactly as `HandleRequest` does: created `""` by
    `newBatchContext`, accessed by the handlers, cleared by `handleBatchItemError`. `.obs` lists
    what the handlers read, as (item index, value).
  * `Batch.steps srv req` is the sequence of accesses to the holder this causes.
  * `Placeholder.runWorld impl` runs ANY merge of the step sequences of ANY number of calls of
    `HandleRequest` over ONE heap of holders and the contexts through which they are reached
    (connection contexts shared by requests, contexts nested in another request's, contexts derived
    by middlewares). A call causes one RUN of the core handler per invocation of `next` by a
    message middleware. Where a holder comes from (`Alloc`) and when a batch context is made
    (`atEntry`: by `HandleRequest`; `atCore`: by `handleRequest`) are parameters: `Impl.go` is the
    code of today (both, since 4b5c841), `Impl.entryOnly` the code before that repair; the engine
    `placemw` determines them on the real code by probing.
  WHAT IS PROVED (sections 4-6): with fresh allocation the scoping invariants `InvC` / `InvE` hold in
  every reachable world, and
    - `atCore` — THE CODE OF TODAY (`C15_full_go`): every run of every call observes exactly what it
      observes on an empty holder (`C15_full`), whatever all other calls do;
    - the code before 4b5c841 (`atEntry` only): every CALL is isolated from every other call
      (`request_scoped`, hence the full property when no message middleware re-invokes `next`:
      `noninterference`), but the runs of one call share a holder: `C15_full Impl.entryOnly` is
      FALSE (`C15_full_false_entry_only` — this was finding `place:run-not-empty-at-start`);
    - every hypothesis is needed: `reuse_leaks_nested`, `global_leaks_sequential`,
      `global_reset_leaks_interleaved`.
  Values: `0` is the empty string.
-/
import KmipModel.Lemmas.BatchLemmas
namespace Kmip.C15
open Kmip.Batch Kmip.Placeholder

/-- 1. What the handlers of a request read is what its access sequence reads on a holder that is
    `""` when the request starts. -/
theorem obs_eq_solo (srv : Srv) (req : Req) :
    (execFull srv req).obs.map (·.2) = solo (steps srv req) := by
  by_cases h : Accepted srv req
  · rw [execFull_accepted srv req h]
    simp only [steps, h, if_true, solo]
    exact (loop_obs_ph srv _ req.items 0 false 0).1
  · rw [execFull_rejected srv req h]
    simp [steps, h, solo, handleMessageError, runActs, stepCell]

/-- 1'. The placeholder is empty at the start of every request: a read that is preceded, in its
    request, by no `Set` of a non-empty value observes `""` — whatever the request, and (by 4.)
    whatever other requests do before, meanwhile, or on the same connection. -/
theorem starts_empty (pre post : List PAct) (hpre : ∀ v, PAct.set v ∈ pre → v = 0) :
    solo (pre ++ .read :: post) = solo pre ++ 0 :: (runActs 0 post).2 := by
  have h0 : lastWrite 0 pre = 0 := by
    rw [← runActs_fst]
    induction pre with
    | nil => simp [runActs]
    | cons a as ih =>
      have ih' := ih (fun v hv => hpre v (by simp [hv]))
      cases a with
      | read => simpa [runActs, stepCell] using ih'
      | set w =>
        have : w = 0 := hpre w (by simp)
        subst this; simpa [runActs, stepCell] using ih'
      | clear => simpa [runActs, stepCell] using ih'
  simp only [solo, runActs_append, runActs_fst, h0, runActs, stepCell]
  simp

/-- 2. Item `j`, when its handler runs, observes exactly what its accesses observe on a cell
    holding `phBefore j`. -/
theorem item_observes (srv : Srv) (req : Req) (h : Accepted srv req) (j : Nat) (it : Item)
    (hget : req.items[j]? = some it) (hcall : j ∈ (execFull srv req).calls) :
    obsOfItem j (execFull srv req).obs = (runActs (phBefore srv req j) it.acts).2 := by
  rw [execFull_accepted srv req h] at hcall ⊢
  simp only at hcall ⊢
  rw [loop_mem_calls] at hcall
  obtain ⟨j', it', hj, hget', hd, hns⟩ := hcall
  have : j' = j := by omega
  subst this
  rw [hget] at hget'; cases hget'
  have := loop_obs_item srv (req.opt == optStop) req.items 0 false 0 j' it hget
  rw [Nat.zero_add] at this
  rw [this, hns]
  simp only [Bool.false_eq_true, if_false, phBefore, itemSteps, hd, if_true]
  split
  · rw [runActs_clear]
  · simp

/-- 3a. `phBefore` at the first item: empty. -/
theorem phBefore_zero (srv : Srv) (req : Req) : phBefore srv req 0 = 0 := by
  simp [phBefore, loopSteps, lastWrite, writes]

/-- 3b. `phBefore` after item `j` (when the batch has not stopped before `j`): empty if item `j`
    fails (handler error, panic, or refusal); otherwise the last value its handler wrote, or what
    it found when it wrote nothing (or was the built-in DiscoverVersions). So a value set by an
    item is what the following items find, until an item overwrites it or fails. -/
theorem phBefore_succ (srv : Srv) (req : Req) (j : Nat) (it : Item)
    (hget : req.items[j]? = some it)
    (hns : stoppedAt srv (req.opt == optStop) false req.items j = false) :
    phBefore srv req (j + 1) =
      if fails srv it then 0
      else if dispatched srv it then lastWrite (phBefore srv req j) it.acts
      else phBefore srv req j := by
  simp only [phBefore]
  rw [loopSteps_take_succ srv _ req.items false j it hget, hns, lastWrite_append]
  simp only [Bool.false_eq_true, if_false, itemSteps]
  by_cases hf : fails srv it = true
  · simp only [hf, if_true]
    rw [lastWrite_append]
    simp [lastWrite, writes]
  · simp only [hf, if_false, Bool.false_eq_true, List.append_nil]
    by_cases hd : dispatched srv it = true
    · simp [hd]
    · simp [hd, lastWrite, writes]

/-- 3c. In particular: item `j` succeeds and the last thing its handler wrote is `v`; then the
    handler of item `j+1` runs on a placeholder holding `v` — a single read observes `[v]`. -/
theorem set_then_observe (srv : Srv) (req : Req) (h : Accepted srv req) (j : Nat) (a b : Item)
    (v : Val) (ha : req.items[j]? = some a) (hb : req.items[j + 1]? = some b)
    (hca : j ∈ (execFull srv req).calls) (hcb : j + 1 ∈ (execFull srv req).calls)
    (hok : fails srv a = false) (hv : (writes a.acts).getLast? = some v) :
    obsOfItem (j + 1) (execFull srv req).obs = (runActs v b.acts).2 := by
  rw [item_observes srv req h (j + 1) b hb hcb]
  have hcall := hca
  rw [execFull_accepted srv req h, loop_mem_calls] at hcall
  obtain ⟨j', it', hj, hget', hd, hns⟩ := hcall
  have : j' = j := by omega
  subst this
  rw [ha] at hget'; cases hget'
  rw [phBefore_succ srv req j' a ha hns]
  simp [hok, hd, lastWrite, hv]

/-- 3d. … and when item `j` fails, the handler of item `j+1` (if it runs at all) finds `""`. -/
theorem failure_then_observe (srv : Srv) (req : Req) (h : Accepted srv req) (j : Nat) (a b : Item)
    (ha : req.items[j]? = some a) (hb : req.items[j + 1]? = some b)
    (hcb : j + 1 ∈ (execFull srv req).calls) (hfail : fails srv a = true) :
    obsOfItem (j + 1) (execFull srv req).obs = (runActs 0 b.acts).2 := by
  rw [item_observes srv req h (j + 1) b hb hcb]
  have hcall := hcb
  rw [execFull_accepted srv req h, loop_mem_calls] at hcall
  obtain ⟨j', it', hj, hget', hd, hns⟩ := hcall
  have : j' = j + 1 := by omega
  subst this
  have hns' : stoppedAt srv (req.opt == optStop) false req.items j = false := by
    cases hs : stoppedAt srv (req.opt == optStop) false req.items j with
    | false => rfl
    | true =>
      simp only [stoppedAt, Bool.false_or, Bool.and_eq_true] at hs hns
      obtain ⟨h1, h2⟩ := hs
      rw [any_take_iff] at h2
      obtain ⟨k, it, hk, hg, hp⟩ := h2
      have : (req.items.take (j + 1)).any (fails srv) = true :=
        (any_take_iff _ _ _).2 ⟨k, it, by omega, hg, hp⟩
      simp [h1, this] at hns
  rw [phBefore_succ srv req j a ha hns']
  simp [hfail]

/-! ### 4. scoping as an invariant of the world -/

/-- 4a. `atCore`, fresh allocation: in EVERY reachable world — any steps of any requests in any
    order, well-formed or not — the holders the handlers of the requests currently hold are
    allocated and pairwise distinct. -/
theorem scoping_invariant_core (impl : Impl) (hf : impl.alloc = .fresh) (hc : impl.atCore = true)
    (sched : List (Nat × GStep)) : InvC (runWorld impl World.init sched).1 := by
  suffices ∀ w, InvC w → InvC (runWorld impl w sched).1 from this _ InvC_init
  induction sched with
  | nil => intro w h; exact h
  | cons e rest ih =>
    intro w h
    obtain ⟨q, s⟩ := e
    simp only [runWorld]
    exact ih _ (InvC_step impl hf hc w q s h)

/-- 4b. the code before 4b5c841 (`atEntry` only), fresh allocation: in every reachable world the holders
    made by `HandleRequest` are allocated and pairwise distinct, and the context a request's handlers
    hold reaches the holder of their own request — even when it is nested in another request's. -/
theorem scoping_invariant_entry (impl : Impl) (hf : impl.alloc = .fresh) (he : impl.atEntry = true)
    (hc : impl.atCore = false) (sched : List (Nat × GStep)) :
    InvE (runWorld impl World.init sched).1 := by
  suffices ∀ w, InvE w → InvE (runWorld impl w sched).1 from this _ InvE_init
  induction sched with
  | nil => intro w h; exact h
  | cons e rest ih =>
    intro w h
    obtain ⟨q, s⟩ := e
    simp only [runWorld]
    exact ih _ (InvE_step impl hf he hc w q s h)

/-! ### 5. what a request observes -/

/-- THE PROPERTY for an implementation `impl`: in any world — any number of other calls running any
    steps, merged in any way — every run of a call of `HandleRequest` (one run per invocation of
    `next` by a message middleware, on whatever message and derived context) observes exactly what it
    observes on a holder that is empty when the run starts. -/
def C15_full (impl : Impl) : Prop :=
  ∀ (progs : List (List GStep)) (sched : List (Nat × GStep)), Interleaving progs sched →
    ∀ (i : Nat) (p : Parent) (runs : List Run), progs[i]? = some (prog p runs) →
      obsOf i (runWorld impl World.init sched).2 = (soloRuns runs).map Obs.val

/-- 5a. fresh allocation by the core handler gives the full property. -/
theorem C15_full_of_fresh_core (impl : Impl) (hf : impl.alloc = .fresh) (hc : impl.atCore = true) :
    C15_full impl := by
  intro progs sched h i p runs hi
  have hp := proj_of_interleaving h i
  rw [hi] at hp
  simp only [Option.getD_some, prog] at hp
  rw [runWorld_core_start impl hf hc i sched World.init p (runsSteps runs) InvC_init
    (wellStarted_runs _ _) hp, expectCore_runs]

/-- 5b. THE CODE OF TODAY (`Impl.go`: fresh allocation, by `HandleRequest` and by the core handler)
    has the full property. That the real code has these parameters is what engine `placemw` probes
    on every run. -/
theorem C15_full_go : C15_full Impl.go := C15_full_of_fresh_core _ rfl rfl

/-- 5c. THE CODE BEFORE 4b5c841 (batch context made by `HandleRequest` only; also what remains true
    if the core handler's own context were dropped again): a call of `HandleRequest` is isolated from every other call — what it
    observes is what its runs, one after the other ON ONE HOLDER that is empty when the call starts,
    observe; nothing any other call does (before, meanwhile, on the same connection, nested) shows. -/
theorem request_scoped (impl : Impl) (hf : impl.alloc = .fresh) (he : impl.atEntry = true)
    (hc : impl.atCore = false) (progs : List (List GStep)) (sched : List (Nat × GStep))
    (h : Interleaving progs sched) (i : Nat) (p : Parent) (runs : List Run)
    (hi : progs[i]? = some (prog p runs)) :
    obsOf i (runWorld impl World.init sched).2 = (sharedRuns runs).map Obs.val := by
  have hp := proj_of_interleaving h i
  rw [hi] at hp
  simp only [Option.getD_some, prog] at hp
  rw [runWorld_entry_start impl hf he hc i sched World.init p (runsSteps runs) InvE_init
    (wellStarted_runs _ _) hp, expectEntry_runs]
  rfl

/-- 5d. … and that is NOT the full property: a message middleware that calls `next` twice makes the
    second run observe what the first one stored (`[.val 5]` instead of `[.val 0]`). Was confirmed
    on the real code before 4b5c841 (finding `place:run-not-empty-at-start`, repaired by that commit);
    the check reports it again if the core handler stops making its own batch context. -/
theorem C15_full_false_entry_only : ¬ C15_full Impl.entryOnly := by
  intro h
  have := h [prog (.conn 0) [⟨[], [.set 5]⟩, ⟨[], [.read]⟩]] _
    (seqSched_interleaving _ [] (by simp)) 0 (.conn 0) _ rfl
  revert this
  decide

/-- 4. NONINTERFERENCE for calls that cause ONE run (no message middleware re-invokes `next`), for
    every implementation that allocates freshly, at either place: ANY interleaving of ANY number of
    calls with any parents; call `i` observes exactly what it observes alone. -/
theorem noninterference_steps (impl : Impl) (hf : impl.alloc = .fresh)
    (h1 : impl.atEntry = true ∨ impl.atCore = true) (progs : List (Parent × List PAct))
    (sched : List (Nat × GStep)) (h : Interleaving (progs.map fun p => prog1 p.1 p.2) sched)
    (i : Nat) (hi : i < progs.length) :
    obsOf i (runWorld impl World.init sched).2 = (solo progs[i].2).map Obs.val := by
  have hget : (progs.map fun p => prog1 p.1 p.2)[i]? = some (prog progs[i].1 [⟨[], progs[i].2⟩]) := by
    simp [hi, prog1]
  cases hc : impl.atCore with
  | true =>
    rw [C15_full_of_fresh_core impl hf hc _ _ h i _ _ hget]
    simp [soloRuns]
  | false =>
    have he : impl.atEntry = true := by simpa [hc] using h1
    rw [request_scoped impl hf he hc _ _ h i _ _ hget]
    simp [sharedRuns]

/-- 4'. The same for requests processed by the batch executor: under any interleaving, the handlers
    of request `i` read exactly what `execFull` says they read when the request is alone. -/
theorem noninterference (impl : Impl) (hf : impl.alloc = .fresh)
    (h1 : impl.atEntry = true ∨ impl.atCore = true) (reqs : List (Parent × Srv × Req))
    (sched : List (Nat × GStep))
    (h : Interleaving (reqs.map fun p => prog1 p.1 (steps p.2.1 p.2.2)) sched) (i : Nat)
    (hi : i < reqs.length) :
    obsOf i (runWorld impl World.init sched).2 =
      ((execFull reqs[i].2.1 reqs[i].2.2).obs.map (·.2)).map Obs.val := by
  have h' : Interleaving ((reqs.map fun p => (p.1, steps p.2.1 p.2.2)).map
      fun p => prog1 p.1 p.2) sched := by
    simpa [List.map_map, Function.comp_def] using h
  have := noninterference_steps impl hf h1 (reqs.map fun p => (p.1, steps p.2.1 p.2.2)) sched h' i
    (by simpa using hi)
  rw [this, obs_eq_solo]
  simp

/-- 4''. With the core handler allocating (`Impl.go`), also under message middlewares: a call
    whose chain executes the messages `msgs` (a retry: the same message several times; a
    substitution: other messages), each after deriving contexts, observes for each of them exactly
    what `execFull` says — whatever the other calls do. -/
theorem noninterference_runs (impl : Impl) (hf : impl.alloc = .fresh) (hc : impl.atCore = true)
    (progs : List (List GStep)) (sched : List (Nat × GStep)) (h : Interleaving progs sched)
    (i : Nat) (p : Parent) (msgs : List (List Nat × Srv × Req))
    (hi : progs[i]? = some (prog p (msgs.map fun m => ⟨m.1, steps m.2.1 m.2.2⟩))) :
    obsOf i (runWorld impl World.init sched).2 =
      ((msgs.map fun m => (execFull m.2.1 m.2.2).obs.map (·.2)).flatten).map Obs.val := by
  rw [C15_full_of_fresh_core impl hf hc _ _ h i p _ hi]
  simp [soloRuns, List.map_map, Function.comp_def, obs_eq_solo]

/-- 5. Requests one after the other on ONE connection (the same parent context object for all of
    them) are a particular interleaving. -/
theorem sequential (impl : Impl) (hf : impl.alloc = .fresh)
    (h1 : impl.atEntry = true ∨ impl.atCore = true) (reqs : List (Srv × Req)) (i : Nat)
    (hi : i < reqs.length) :
    obsOf i (runWorld impl World.init
      (seqSched 0 (reqs.map fun p => prog1 (.conn 0) (steps p.1 p.2)))).2 =
      ((execFull reqs[i].1 reqs[i].2).obs.map (·.2)).map Obs.val := by
  have := noninterference impl hf h1 (reqs.map fun p => (Parent.conn 0, p.1, p.2)) _
    (by simpa [List.map_map, Function.comp_def] using
      seqSched_interleaving (reqs.map fun p => prog1 (.conn 0) (steps p.1 p.2)) [] (by simp))
    i (by simpa using hi)
  simpa using this

/-- 6. Never a foreign value, for the entry-only code and ANY chain of message middlewares: whatever
    a call observes is `""` or a value that a run OF THE SAME CALL stored. -/
theorem never_foreign (impl : Impl) (hf : impl.alloc = .fresh) (he : impl.atEntry = true)
    (hc : impl.atCore = false) (progs : List (List GStep)) (sched : List (Nat × GStep))
    (h : Interleaving progs sched) (i : Nat) (p : Parent) (runs : List Run)
    (hi : progs[i]? = some (prog p runs)) (o : Obs)
    (ho : o ∈ obsOf i (runWorld impl World.init sched).2) :
    ∃ v, o = .val v ∧ (v = 0 ∨ ∃ rn ∈ runs, PAct.set v ∈ rn.acts) := by
  rw [request_scoped impl hf he hc progs sched h i p runs hi] at ho
  simp only [List.mem_map] at ho
  obtain ⟨v, hv, rfl⟩ := ho
  refine ⟨v, rfl, ?_⟩
  rcases runActs_obs_origin 0 _ v hv with h | h | h
  · exact Or.inl h
  · exact Or.inl h
  · right
    simp only [List.mem_flatten, List.mem_map] at h
    obtain ⟨l, ⟨rn, hrn, rfl⟩, hl⟩ := h
    exact ⟨rn, hrn, hl⟩

/-- 6'. … and with the core handler allocating (the code of today), by the same RUN. -/
theorem never_foreign_run (impl : Impl) (hf : impl.alloc = .fresh) (hc : impl.atCore = true)
    (progs : List (List GStep)) (sched : List (Nat × GStep)) (h : Interleaving progs sched)
    (i : Nat) (p : Parent) (rn : Run) (hi : progs[i]? = some (prog p [rn])) (o : Obs)
    (ho : o ∈ obsOf i (runWorld impl World.init sched).2) :
    ∃ v, o = .val v ∧ (v = 0 ∨ PAct.set v ∈ rn.acts) := by
  rw [C15_full_of_fresh_core impl hf hc progs sched h i p _ hi] at ho
  simp only [soloRuns, List.map_cons, List.map_nil, List.flatten_cons, List.flatten_nil,
    List.append_nil, List.mem_map] at ho
  obtain ⟨v, hv, rfl⟩ := ho
  refine ⟨v, rfl, ?_⟩
  rcases runActs_obs_origin 0 rn.acts v hv with h | h | h
  · exact Or.inl h
  · exact Or.inl h
  · exact Or.inr h

/-! ### 6. every hypothesis is needed: implementations that share -/

/-- holder reused when the parent context already has one (e.g. walking up to a holder attached
    further out): a request nested in another one reads what that one stored. -/
theorem reuse_leaks_nested :
    obsOf 1 (runWorld ⟨.reuse, false, true, false⟩ World.init
      (seqSched 0 [prog1 (.conn 0) [.set 5], prog1 (.inside 0) [.read]])).2 = [.val 5] := by
  decide

/-- one package-level holder: the NEXT request, on another connection, reads the value. -/
theorem global_leaks_sequential :
    obsOf 1 (runWorld ⟨.global, false, true, false⟩ World.init
      (seqSched 0 [prog1 (.conn 0) [.set 5], prog1 (.conn 1) [.read]])).2 = [.val 5] := by
  decide

/-- one holder that is reset by every `newBatchContext` (a pool handing out the same object):
    sequential histories are fine, an interleaving is not — request 0 loses its own value and then
    reads the one of request 1. -/
theorem global_reset_leaks_interleaved :
    obsOf 0 (runWorld ⟨.global, true, true, false⟩ World.init
      (mergeBy [0, 0, 0, 1, 1, 0, 1, 0]
        [prog1 (.conn 0) [.set 5, .read, .read], prog1 (.conn 1) [.set 7]])).2 = [.val 0, .val 7] ∧
    obsOf 1 (runWorld ⟨.global, true, true, false⟩ World.init
      (seqSched 0 [prog1 (.conn 0) [.set 5], prog1 (.conn 1) [.read]])).2 = [.val 0] := by
  decide

/-- no batch context at all: `SetIdPlaceholder` panics (the accessor's documented behaviour). -/
theorem no_context_panics :
    obsOf 0 (runWorld ⟨.fresh, false, false, false⟩ World.init
      (seqSched 0 [prog1 (.conn 0) [.set 5, .read]])).2 = [.panic, .val 0] := by
  decide

/-! ### 7. the accessor `GetIdOrPlaceholder` -/

/-- an explicit identifier wins over the placeholder; -/
theorem resolve_explicit (ph reqId : Val) (h : reqId ≠ 0) : resolve ph reqId = some reqId := by
  simp [resolve, h]

/-- without one, the answer is the placeholder of the holder the context reaches — hence, by the
    theorems above, never a value of another request; -/
theorem resolve_placeholder (ph : Val) (h : ph ≠ 0) : resolve ph 0 = some ph := by
  simp [resolve, h]

/-- and an error when both are empty. -/
theorem resolve_empty : resolve 0 0 = none := by decide

/-! ### non-vacuity -/

def srv0 : Srv := { supported := [], routes := [1] }

def mk (acts : List PAct) (out : Outcome) : Item :=
  { op := 1, id := none, ext := none, discover := false, acts := acts, out := out }

/-- sets 5, reads it in the next item, fails after setting 6, reads again. -/
def itemsA : List Item :=
  [mk [.set 5] .success, mk [.read] .success, mk [.set 6] .plainErr, mk [.read] .success]
def reqA : Req := { ver := (1, 4), opt := 0, count := 4, items := itemsA }

/-- reads, sets 9, reads. -/
def reqB : Req :=
  { ver := (1, 4), opt := 0, count := 1, items := [mk [.read, .set 9, .read] .success] }

example : Accepted srv0 reqA ∧ (execFull srv0 reqA).calls = [0, 1, 2, 3] ∧
    (execFull srv0 reqA).obs = [(1, 5), (3, 0)] := by decide

example : steps srv0 reqA = [.set 5, .read, .set 6, .clear, .read] := by decide

/-- hypotheses of `set_then_observe` (j = 0) and `failure_then_observe` (j = 2) are satisfiable. -/
example : fails srv0 (mk [.set 5] .success) = false ∧
    (writes (mk [.set 5] .success).acts).getLast? = some 5 ∧
    fails srv0 (mk [.set 6] .plainErr) = true := by decide

/-- a genuine interleaving of the two requests ON ONE CONNECTION (B moves between the items of A),
    and what each observes in it. -/
def sched0 : List (Nat × GStep) :=
  mergeBy [0, 0, 0, 1, 1, 1, 0, 1, 0, 0, 1, 0]
    [prog1 (.conn 0) (steps srv0 reqA), prog1 (.conn 0) (steps srv0 reqB)]

example : Interleaving
    ([(Parent.conn 0, srv0, reqA), (Parent.conn 0, srv0, reqB)].map
      fun p => prog1 p.1 (steps p.2.1 p.2.2)) sched0 :=
  mergeBy_interleaving _ _

example : sched0 = [(0, .enter (.conn 0)), (0, .core), (0, .act (.set 5)), (1, .enter (.conn 0)),
    (1, .core), (1, .act .read), (0, .act .read), (1, .act (.set 9)), (0, .act (.set 6)),
    (0, .act .clear), (1, .act .read), (0, .act .read)] := by decide

example : obsOf 0 (runWorld Impl.go World.init sched0).2 = [.val 5, .val 0] ∧
    obsOf 1 (runWorld Impl.go World.init sched0).2 = [.val 0, .val 9] := by decide

/-- request B NESTED in request A's handler context (a forwarding handler) while A goes on: the
    innermost binding shadows A's; A still finds its own holder afterwards. -/
def sched1 : List (Nat × GStep) :=
  mergeBy [0, 0, 0, 1, 1, 1, 1, 0, 1]
    [prog1 (.conn 0) [.set 5, .read], prog1 (.inside 0) [.read, .set 9, .read]]

example : obsOf 0 (runWorld Impl.go World.init sched1).2 = [.val 5] ∧
    obsOf 1 (runWorld Impl.go World.init sched1).2 = [.val 0, .val 9] ∧
    (runWorld Impl.go World.init sched1).1.cur 1
      = some [.batch 3, .batch 2, .batch 1, .batch 0, .other 0] := by decide

/-- the same before 4b5c841 (one batch context per call). -/
example : obsOf 0 (runWorld Impl.entryOnly World.init sched1).2 = [.val 5] ∧
    obsOf 1 (runWorld Impl.entryOnly World.init sched1).2 = [.val 0, .val 9] ∧
    (runWorld Impl.entryOnly World.init sched1).1.cur 1 = some [.batch 1, .batch 0, .other 0] := by
  decide

/-- a call whose message middleware derives a context and retries: two runs of `[read, set 5]`.
    The code of today: both runs read "". Before 4b5c841: the second run read 5. -/
def retry : List GStep := prog (.conn 0) [⟨[], [.read, .set 5]⟩, ⟨[7], [.read, .set 5]⟩]

example : retry = [.enter (.conn 0), .core, .act .read, .act (.set 5), .wrap 7, .core, .act .read,
    .act (.set 5)] := by decide

example : obsOf 0 (runWorld Impl.entryOnly World.init (seqSched 0 [retry])).2 = [.val 0, .val 5] ∧
    obsOf 0 (runWorld Impl.go World.init (seqSched 0 [retry])).2 = [.val 0, .val 0] ∧
    soloRuns [⟨[], [.read, .set 5]⟩, ⟨[7], [.read, .set 5]⟩] = [0, 0] ∧
    sharedRuns [⟨[], [.read, .set 5]⟩, ⟨[7], [.read, .set 5]⟩] = [0, 5] := by decide

/-- the invariants are not vacuous: four holders allocated (two calls, at entry and by the core),
    the handlers of the two requests holding one each. -/
example : (runWorld Impl.go World.init sched1).1.heap.length = 4 ∧
    ((runWorld Impl.go World.init sched1).1.cur 0).bind holder = some 1 ∧
    ((runWorld Impl.go World.init sched1).1.cur 1).bind holder = some 3 := by decide

end Kmip.C15
