/-
  Helper lemmas of C05 (version gating), on top of `PlanLemmas`:
    A. the POSITION-AWARE comparison of the `version=` annotations with the pinned introduction table;
    B. the version-V restriction of a schema and of a value, and the end-to-end statement
       "encoding under the version cell V = encoding, in the restricted schema (which has neither the later
       elements nor any version annotation), of the value stripped of its later elements" — at any depth;
    C. the decoder never consults the version for a schema whose gated fields are all optional.
-/
import KmipModel.Lemmas.PlanLemmas
namespace Kmip

/-! ### A. position-aware pinned rows -/

/-- the fields of a struct, each with its OCCURRENCE number: how many earlier fields of the same struct carry
    the same tag (`seen` = tags of the fields already passed). -/
def withOcc : List Nat → List Field → List (Field × Nat)
  | _, [] => []
  | seen, f :: fs => (f, seen.count f.tag) :: withOcc (f.tag :: seen) fs

theorem withOcc_mem {seen : List Nat} {fields : List Field} {f : Field} {occ : Nat}
    (h : (f, occ) ∈ withOcc seen fields) :
    ∃ pre post, fields = pre ++ f :: post ∧ occ = (pre.map (·.tag) ++ seen).count f.tag := by
  induction fields generalizing seen with
  | nil => exact nomatch h
  | cons g gs ih =>
    rw [withOcc, List.mem_cons] at h
    rcases h with h | h
    · cases h
      exact ⟨[], gs, rfl, rfl⟩
    · obtain ⟨pre, post, he, ho⟩ := ih h
      refine ⟨g :: pre, post, by rw [he]; rfl, ?_⟩
      rw [ho, List.map_cons, List.cons_append, List.count_cons, List.count_append, List.count_append,
        List.count_cons]
      omega

theorem mem_withOcc_of_mem {fields : List Field} {f : Field} (h : f ∈ fields) (seen : List Nat) :
    ∃ occ, (f, occ) ∈ withOcc seen fields := by
  induction fields generalizing seen with
  | nil => exact nomatch h
  | cons g gs ih =>
    rw [withOcc]
    rcases List.mem_cons.1 h with rfl | h
    · exact ⟨_, List.mem_cons_self⟩
    · obtain ⟨occ, ho⟩ := ih h (g.tag :: seen)
      exact ⟨occ, List.mem_cons_of_mem _ ho⟩

theorem mem_of_mem_withOcc {seen : List Nat} {fields : List Field} {f : Field} {occ : Nat}
    (h : (f, occ) ∈ withOcc seen fields) : f ∈ fields := by
  obtain ⟨pre, post, he, _⟩ := withOcc_mem h
  rw [he]
  exact List.mem_append_right _ List.mem_cons_self

/-- the pinned-table rows a field stands for: (key, tag, occurrence, major, minor) for every stable key of its
    struct; key 0 = "a gated field in a struct without a stable key" or "a range that is not of the form
    `vM.m..`" — such rows never occur in a pinned table. -/
def fieldGatesPos (keys : List Nat) (fo : Field × Nat) : List (Nat × Nat × Nat × Nat × Nat) :=
  match fo.1.vrange with
  | none => []
  | some r =>
    match r.start, r.stop with
    | some (M, m), none => (if keys.isEmpty then [0] else keys).map fun k => (k, fo.1.tag, fo.2, M, m)
    | _, _ => [(0, fo.1.tag, fo.2, 0, 0)]

/-- ALL fields of the schema that carry a version range, as keyed, position-aware rows. -/
def Schema.gatedPos (S : Schema) : List (Nat × Nat × Nat × Nat × Nat) :=
  (List.range S.structs.length).flatMap fun id =>
    (withOcc [] (S.structDef id).fields).flatMap (fieldGatesPos (structKeys S id))

/-- the version annotations of the code are exactly the pinned table: both inclusions, same number of rows,
    no key-0 row in the table. -/
def gatingMatchesPos (P : List (Nat × Nat × Nat × Nat × Nat)) (S : Schema) : Bool :=
  S.gatedPos.all (fun q => P.contains q) && P.all (fun q => S.gatedPos.contains q) &&
  S.gatedPos.length == P.length && P.all (fun q => q.1 != 0)

theorem gatingMatchesPos_code_in_table (P : List (Nat × Nat × Nat × Nat × Nat)) (S : Schema)
    (h : gatingMatchesPos P S = true) (id : Nat) (hid : id < S.structs.length) (f : Field) (occ : Nat)
    (hf : (f, occ) ∈ withOcc [] (S.structDef id).fields) (r : VRange) (hr : f.vrange = some r) :
    r.stop = none ∧ ∃ M m, r.start = some (M, m) ∧ structKeys S id ≠ [] ∧
      ∀ k ∈ structKeys S id, (k, f.tag, occ, M, m) ∈ P := by
  unfold gatingMatchesPos at h
  simp only [Bool.and_eq_true, List.all_eq_true, List.contains_iff_mem, bne_iff_ne] at h
  obtain ⟨⟨⟨h1, _⟩, _⟩, h4⟩ := h
  have hmem : ∀ q ∈ fieldGatesPos (structKeys S id) (f, occ), q ∈ P := by
    intro q hq
    apply h1
    unfold Schema.gatedPos
    rw [List.mem_flatMap]
    refine ⟨id, List.mem_range.2 hid, ?_⟩
    rw [List.mem_flatMap]
    exact ⟨(f, occ), hf, hq⟩
  unfold fieldGatesPos at hmem
  dsimp only at hmem
  rw [hr] at hmem
  obtain ⟨st, sp⟩ := r
  cases st with
  | none =>
    have := h4 _ (hmem (0, f.tag, occ, 0, 0) (by simp))
    exact absurd rfl this
  | some Mm =>
    obtain ⟨M, m⟩ := Mm
    cases sp with
    | some e =>
      have := h4 _ (hmem (0, f.tag, occ, 0, 0) (by simp))
      exact absurd rfl this
    | none =>
      refine ⟨rfl, M, m, rfl, ?_, ?_⟩
      · intro he
        have := h4 _ (hmem (0, f.tag, occ, M, m) (by simp [he]))
        exact absurd rfl this
      · intro k hk
        apply hmem
        have hne : (structKeys S id).isEmpty = false := by
          cases hs : structKeys S id with
          | nil => rw [hs] at hk; exact nomatch hk
          | cons a l => rfl
        simp only [hne, Bool.false_eq_true, if_false, List.mem_map]
        exact ⟨k, hk, rfl⟩

theorem gatingMatchesPos_table_in_code (P : List (Nat × Nat × Nat × Nat × Nat)) (S : Schema)
    (h : gatingMatchesPos P S = true) (q : Nat × Nat × Nat × Nat × Nat) (hq : q ∈ P) :
    ∃ id, id < S.structs.length ∧ q.1 ∈ structKeys S id ∧
      ∃ f, (f, q.2.2.1) ∈ withOcc [] (S.structDef id).fields ∧
        f.tag = q.2.1 ∧ f.vrange = some { start := some (q.2.2.2.1, q.2.2.2.2), stop := none } := by
  unfold gatingMatchesPos at h
  simp only [Bool.and_eq_true, List.all_eq_true, List.contains_iff_mem, bne_iff_ne] at h
  obtain ⟨⟨⟨_, h2⟩, _⟩, h4⟩ := h
  have hg := h2 q hq
  have hq0 := h4 q hq
  unfold Schema.gatedPos at hg
  rw [List.mem_flatMap] at hg
  obtain ⟨id, hid, hg⟩ := hg
  rw [List.mem_flatMap] at hg
  obtain ⟨⟨f, occ⟩, hf, hg⟩ := hg
  refine ⟨id, List.mem_range.1 hid, ?_⟩
  unfold fieldGatesPos at hg
  dsimp only at hg
  cases hr : f.vrange with
  | none => rw [hr] at hg; exact nomatch hg
  | some r =>
    rw [hr] at hg
    obtain ⟨st, sp⟩ := r
    cases st with
    | none => simp at hg; rw [hg] at hq0; exact absurd rfl hq0
    | some Mm =>
      obtain ⟨M, m⟩ := Mm
      cases sp with
      | some e => simp at hg; rw [hg] at hq0; exact absurd rfl hq0
      | none =>
        simp only [List.mem_map] at hg
        obtain ⟨k, hk, rfl⟩ := hg
        cases hs : structKeys S id with
        | nil => rw [hs] at hk; simp at hk; rw [hk] at hq0; exact absurd rfl hq0
        | cons a l =>
          rw [hs] at hk
          simp only [List.isEmpty_cons, Bool.false_eq_true, if_false] at hk
          exact ⟨hk, f, hf, rfl, hr⟩

/-! ### B. the version-V restriction -/

/-- the field exists at version `V` (no annotation = exists in every version). -/
def Field.inAt (V : Ver) (f : Field) : Bool :=
  match f.vrange with
  | some r => r.contains V
  | none => true

/-- the same field without its version annotation. -/
def Field.ungate (f : Field) : Field := { f with vrange := none }

/-- a struct as it is at version `V`: the fields that do not exist at `V` are REMOVED and the others lose
    their annotation. Structs with a hand-written encoder are kept as they are: their Go encoder never looks at
    annotations (and `customsUngated` demands that they have none). -/
def StructDef.restrict (V : Ver) (d : StructDef) : StructDef :=
  if d.encCustom then d else { d with fields := (d.fields.filter (Field.inAt V)).map Field.ungate }

/-- the version-`V` schema: same struct ids, dynamic types and dispatch tables; no element introduced after
    `V`; no version annotation left on a reflectively encoded struct. -/
def Schema.restrict (S : Schema) (V : Ver) : Schema :=
  { S with structs := S.structs.map (StructDef.restrict V) }

mutual
  /-- a value stripped of the elements that do not exist at version `V`, following the kind exactly as
      `encK` does (same fuel discipline, so that the two recursions stay aligned). -/
  def rvK (S : Schema) (V : Ver) : Nat → Kind → Val → Val
    | 0, _, v => v
    | fuel + 1, k, v =>
      match k, v with
      | .ptr k', .ptr (some x) => .ptr (some (rvK S V fuel k' x))
      | .slice k', .list xs => .list (rvSlice S V fuel k' xs)
      | .iface, .iface (some (d, x)) => .iface (some (d, rvK S V fuel (S.dyn d).kind x))
      | .struct id, .struct fs =>
        if (S.structDef id).encCustom then rvCustom S V fuel (S.structDef id).custom (.struct fs)
        else .struct (rvFields S V fuel (S.structDef id).fields fs)
      | _, v => v
  def rvSlice (S : Schema) (V : Ver) : Nat → Kind → List Val → List Val
    | 0, _, xs => xs
    | _, _, [] => []
    | fuel + 1, k, x :: xs => rvK S V fuel k x :: rvSlice S V fuel k xs
  /-- the field loop: the value of a field that does not exist at `V` is DROPPED. -/
  def rvFields (S : Schema) (V : Ver) : Nat → List Field → List Val → List Val
    | 0, _, vs => vs
    | _, [], vs => vs
    | _, _ :: _, [] => []
    | fuel + 1, f :: fs, v :: vs =>
      if f.inAt V then rvK S V fuel f.kind v :: rvFields S V fuel fs vs else rvFields S V fuel fs vs
  /-- values of the structs with a hand-written encoder: nothing is dropped at their own level, the parts the
      encoder hands to `encK` are restricted. -/
  def rvCustom (S : Schema) (V : Ver) : Nat → Nat → Val → Val
    | 0, _, v => v
    | fuel + 1, code, v =>
      if code = Cust.requestBatchItem then
        .struct [v.field 0, v.field 1, rvK S V fuel .iface (v.field 2),
                 rvK S V fuel (.ptr (.struct (msgExtId S))) (v.field 3)]
      else if code = Cust.responseBatchItem then
        .struct [v.field 0, v.field 1, v.field 2, v.field 3, v.field 4, v.field 5,
                 rvK S V fuel .iface (v.field 6), rvK S V fuel (.ptr (.struct (msgExtId S))) (v.field 7)]
      else if code = Cust.credentialValue ∨ code = Cust.keyValue ∨ code = Cust.keyMaterial then
        match v with
        | .struct fs => .struct (rvSameTag S V fuel (customFieldKinds S code) fs)
        | _ => v
      else v
  def rvSameTag (S : Schema) (V : Ver) : Nat → List Kind → List Val → List Val
    | 0, _, xs => xs
    | _, [], xs => xs
    | _, _ :: _, [] => []
    | fuel + 1, k :: ks, x :: xs => rvK S V fuel k x :: rvSameTag S V fuel ks xs
end

/-- **decidable**: the structs with a hand-written encoder carry no version annotation (the Go encoder would
    silently ignore it), and the three union-like structs whose field kinds the hand-written encoders read from
    the schema are among them. -/
def Schema.customsUngated (S : Schema) : Bool :=
  S.structs.all fun d =>
    (!d.encCustom || d.fields.all (fun f => f.vrange.isNone)) &&
    (!(d.custom == Cust.credentialValue || d.custom == Cust.keyValue || d.custom == Cust.keyMaterial)
      || d.encCustom)

theorem StructDef.restrict_custom (V : Ver) (d : StructDef) : (d.restrict V).custom = d.custom := by
  unfold StructDef.restrict; split <;> rfl
theorem StructDef.restrict_encCustom (V : Ver) (d : StructDef) : (d.restrict V).encCustom = d.encCustom := by
  unfold StructDef.restrict; split <;> rfl
theorem StructDef.restrict_defTag (V : Ver) (d : StructDef) : (d.restrict V).defTag = d.defTag := by
  unfold StructDef.restrict; split <;> rfl

theorem Schema.restrict_dyn (S : Schema) (V : Ver) (d : Nat) : (S.restrict V).dyn d = S.dyn d := rfl

theorem Schema.restrict_structDef (S : Schema) (V : Ver) (id : Nat) :
    (S.restrict V).structDef id = (S.structDef id).restrict V := by
  unfold Schema.structDef Schema.restrict
  simp only [List.getD_eq_getElem?_getD, List.getElem?_map]
  cases S.structs[id]? with
  | none => rfl
  | some d => rfl

theorem findIdx?_map_congr {α β : Type} (f : α → β) (p : β → Bool) (q : α → Bool)
    (h : ∀ a, p (f a) = q a) (l : List α) : (l.map f).findIdx? p = l.findIdx? q := by
  induction l with
  | nil => rfl
  | cons a l ih =>
    rw [List.map_cons, List.findIdx?_cons, List.findIdx?_cons, h a, ih]

theorem msgExtId_restrict (S : Schema) (V : Ver) : msgExtId (S.restrict V) = msgExtId S := by
  unfold msgExtId Schema.restrict
  dsimp only
  rw [findIdx?_map_congr (StructDef.restrict V) _ (fun d => d.defTag == T.messageExtension)]
  intro a
  rw [StructDef.restrict_defTag]

theorem customFieldKinds_restrict (S : Schema) (V : Ver) (hC : S.customsUngated = true) (code : Nat)
    (hcode : code = Cust.credentialValue ∨ code = Cust.keyValue ∨ code = Cust.keyMaterial) :
    customFieldKinds (S.restrict V) code = customFieldKinds S code := by
  unfold customFieldKinds Schema.restrict
  dsimp only
  rw [List.find?_map]
  have hfun : ((fun d : StructDef => d.custom == code) ∘ StructDef.restrict V)
      = (fun d : StructDef => d.custom == code) := by
    funext d
    simp [Function.comp, StructDef.restrict_custom]
  rw [hfun]
  cases hf : S.structs.find? (fun d => d.custom == code) with
  | none => rfl
  | some d =>
    have hmem := List.mem_of_find?_eq_some hf
    have hc : d.custom = code := by simpa using List.find?_some hf
    unfold Schema.customsUngated at hC
    rw [List.all_eq_true] at hC
    have hd := hC d hmem
    simp only [Bool.and_eq_true, Bool.or_eq_true, Bool.not_eq_true'] at hd
    have henc : d.encCustom = true := by
      rcases hd.2 with h | h
      · exfalso
        rw [hc] at h
        rcases hcode with rfl | rfl | rfl <;> simp [Cust.credentialValue, Cust.keyValue, Cust.keyMaterial] at h
      · exact h
    simp only [Option.map_some]
    unfold StructDef.restrict
    rw [if_pos henc]

/-! fuel: one more unit does not change a successful encoding -/

/-- one more unit of fuel does not change a successful encoding. -/
structure EncMono (S : Schema) (fuel : Nat) : Prop where
  encK : ∀ k tag v c r, encK S fuel k tag v c = .ok r → encK S (fuel + 1) k tag v c = .ok r
  encSlice : ∀ k tag xs c r, encSlice S fuel k tag xs c = .ok r → encSlice S (fuel + 1) k tag xs c = .ok r
  encFields : ∀ fs vs c r, encFields S fuel fs vs c = .ok r → encFields S (fuel + 1) fs vs c = .ok r
  encCustom : ∀ code tag v c r, encCustom S fuel code tag v c = .ok r →
    encCustom S (fuel + 1) code tag v c = .ok r
  encSameTag : ∀ ks tag xs c r, encSameTag S fuel ks tag xs c = .ok r →
    encSameTag S (fuel + 1) ks tag xs c = .ok r

theorem encMono_zero (S : Schema) : EncMono S 0 := by
  constructor
  · intro k tag v c r h; rw [encK] at h; exact nomatch h
  · intro k tag xs c r h; rw [encSlice] at h; exact nomatch h
  · intro fs vs c r h; rw [encFields] at h; exact nomatch h
  · intro code tag v c r h; rw [encCustom] at h; exact nomatch h
  · intro ks tag xs c r h; rw [encSameTag] at h; exact nomatch h

theorem Res.bind_ok_of {α β : Type} {x : Res α} {f : α → Res β} {a : α} {b : β}
    (h1 : x = .ok a) (h2 : f a = .ok b) : (x >>= f) = .ok b := by
  rw [h1]; exact h2

theorem encMono_succ (S : Schema) (fuel : Nat) (ih : EncMono S fuel) : EncMono S (fuel + 1) := by
  constructor
  · intro k tag v c r h
    rw [encK.eq_def] at h ⊢
    dsimp only at h ⊢
    split at h
    all_goals first | exact h | skip
    · exact ih.encK _ _ _ _ _ h
    · exact ih.encSlice _ _ _ _ _ h
    · exact ih.encK _ _ _ _ _ h
    · split at h
      · rename_i hc
        rw [if_pos hc]
        exact ih.encCustom _ _ _ _ _ h
      · rename_i hc
        rw [if_neg hc]
        obtain ⟨⟨a, c1⟩, h1, h2⟩ := Res.bind_eq_ok h
        exact Res.bind_ok_of (ih.encFields _ _ _ _ h1) h2
  · intro k tag xs c r h
    cases xs with
    | nil => rw [encSlice] at h ⊢; exact h; exact fun h => nomatch h; exact fun h => nomatch h
    | cons x xs =>
      rw [encSlice] at h ⊢
      obtain ⟨⟨a, c1⟩, h1, h2⟩ := Res.bind_eq_ok h
      obtain ⟨⟨b, c2⟩, h3, h4⟩ := Res.bind_eq_ok h2
      exact Res.bind_ok_of (ih.encK _ _ _ _ _ h1) (Res.bind_ok_of (ih.encSlice _ _ _ _ _ h3) h4)
  · intro fs vs c r h
    cases fs with
    | nil => rw [encFields] at h ⊢; exact h; exact fun h => nomatch h; exact fun h => nomatch h
    | cons f fs =>
      cases vs with
      | nil => rw [encFields] at h; exact nomatch h; exact fun h => nomatch h
      | cons v vs =>
        rw [encFields_cons] at h ⊢
        split at h
        · rename_i hc
          rw [if_pos hc]
          exact ih.encFields _ _ _ _ h
        · rename_i hc
          rw [if_neg hc]
          obtain ⟨⟨a, c1⟩, h1, h2⟩ := Res.bind_eq_ok h
          obtain ⟨⟨b, c2⟩, h3, h4⟩ := Res.bind_eq_ok h2
          exact Res.bind_ok_of (ih.encK _ _ _ _ _ h1) (Res.bind_ok_of (ih.encFields _ _ _ _ h3) h4)
  · intro code tag v c r h
    rw [encCustom.eq_def] at h ⊢
    dsimp only at h ⊢
    split at h
    · rename_i hc
      rw [if_pos hc]
      obtain ⟨⟨a, c1⟩, h1, h2⟩ := Res.bind_eq_ok h
      obtain ⟨⟨b, c2⟩, h3, h4⟩ := Res.bind_eq_ok h2
      exact Res.bind_ok_of (ih.encK _ _ _ _ _ h1) (Res.bind_ok_of (ih.encK _ _ _ _ _ h3) h4)
    · rename_i hc1
      rw [if_neg hc1]
      split at h
      · rename_i hc
        rw [if_pos hc]
        obtain ⟨⟨a, c1⟩, h1, h2⟩ := Res.bind_eq_ok h
        obtain ⟨⟨b, c2⟩, h3, h4⟩ := Res.bind_eq_ok h2
        exact Res.bind_ok_of (ih.encK _ _ _ _ _ h1) (Res.bind_ok_of (ih.encK _ _ _ _ _ h3) h4)
      · rename_i hc2
        rw [if_neg hc2]
        split at h
        · rename_i hc
          rw [if_pos hc]
          exact h
        · rename_i hc3
          rw [if_neg hc3]
          split at h
          · rename_i hc
            rw [if_pos hc]
            split at h
            · exact ih.encSameTag _ _ _ _ _ h
            · exact nomatch h
          · exact nomatch h
  · intro ks tag xs c r h
    cases ks with
    | nil => rw [encSameTag] at h ⊢; exact h; exact fun h => nomatch h; exact fun h => nomatch h
    | cons k ks =>
      cases xs with
      | nil => rw [encSameTag] at h ⊢; exact h; exact fun h => nomatch h; exact fun h => nomatch h
      | cons x xs =>
        rw [encSameTag] at h ⊢
        obtain ⟨⟨a, c1⟩, h1, h2⟩ := Res.bind_eq_ok h
        obtain ⟨⟨b, c2⟩, h3, h4⟩ := Res.bind_eq_ok h2
        exact Res.bind_ok_of (ih.encK _ _ _ _ _ h1) (Res.bind_ok_of (ih.encSameTag _ _ _ _ _ h3) h4)


theorem encMono (S : Schema) : ∀ fuel, EncMono S fuel
  | 0 => encMono_zero S
  | fuel + 1 => encMono_succ S fuel (encMono S fuel)

theorem encFields_mono_le (S : Schema) {fuel fuel' : Nat} (hle : fuel ≤ fuel') {fs : List Field}
    {vs : List Val} {c : Option Ver} {r : EncSt} (h : encFields S fuel fs vs c = .ok r) :
    encFields S fuel' fs vs c = .ok r := by
  induction hle with
  | refl => exact h
  | step _ ih => exact (encMono S _).encFields _ _ _ _ ih

theorem encK_mono_le (S : Schema) {fuel fuel' : Nat} (hle : fuel ≤ fuel') {k : Kind} {tag : Nat}
    {v : Val} {c : Option Ver} {r : EncSt} (h : encK S fuel k tag v c = .ok r) :
    encK S fuel' k tag v c = .ok r := by
  induction hle with
  | refl => exact h
  | step _ ih => exact (encMono S _).encK _ _ _ _ _ ih

/-! values: what restriction preserves -/

/-- the dynamic type id held by an interface value. -/
def Val.dynId : Val → Option Nat
  | .iface (some (d, _)) => some d
  | _ => none

theorem fieldTag_eq (S : Schema) (f : Field) (v : Val) :
    fieldTag S f v = if f.dynTag then (match v.dynId with | some d => (S.dyn d).defTag | none => 0) else f.tag := by
  unfold fieldTag
  split
  · cases v <;> try rfl
    rename_i o
    cases o with
    | none => rfl
    | some p => rfl
  · rfl

theorem rvCustom_dynId (S : Schema) (V : Ver) (fuel code : Nat) (fs : List Val) :
    (rvCustom S V fuel code (.struct fs)).dynId = none := by
  cases fuel with
  | zero => rw [rvCustom]; rfl
  | succ n =>
    rw [rvCustom.eq_def]
    dsimp only
    repeat' split
    all_goals rfl

theorem rvK_dynId (S : Schema) (V : Ver) (fuel : Nat) (k : Kind) (v : Val) :
    (rvK S V fuel k v).dynId = v.dynId := by
  cases fuel with
  | zero => rw [rvK]
  | succ n =>
    rw [rvK.eq_def]
    dsimp only
    split <;> try rfl
    · split
      · rw [rvCustom_dynId]; rfl
      · rfl

/-- restricting does not change whether a value is the zero value — except for a struct held directly (whose
    zero-ness looks at every field, gated or not). -/
theorem rvK_isZero (S : Schema) (V : Ver) (fuel : Nat) (k : Kind) (v : Val)
    (hk : ∀ id, k ≠ .struct id) : (rvK S V fuel k v).isZero = v.isZero := by
  cases fuel with
  | zero => rw [rvK]
  | succ n =>
    rw [rvK.eq_def]
    dsimp only
    split
    · simp [Val.isZero]
    · rename_i k' xs
      cases xs with
      | nil =>
        have : rvSlice S V n k' [] = [] := by cases n <;> rw [rvSlice.eq_def]
        rw [this]
      | cons x xs =>
        cases n with
        | zero => rw [rvSlice]
        | succ m => rw [rvSlice]; simp [Val.isZero]
    · simp [Val.isZero]
    · rename_i id fs
      exact absurd rfl (hk id)
    · rfl

/-! the induction: encoding under the cell `V` = encoding in the version-`V` schema -/

/-- **decidable**: no `omitempty` field holds a struct directly (for every other kind, being the zero value
    does not depend on the content that restriction removes). -/
def Schema.noOmitemptyStruct (S : Schema) : Bool :=
  S.structs.all fun d => d.fields.all fun f =>
    !f.omitempty || (match f.kind with | .struct _ => false | _ => true)

/-- fields of a reflectively encoded struct that `rvFields` may meet. -/
def FieldsPlain (fs : List Field) : Prop :=
  ∀ f ∈ fs, f.omitempty = true → ∀ id, f.kind ≠ .struct id

structure RestrictOk (S : Schema) (V : Ver) (A : Nat → Bool) (fuel : Nat) : Prop where
  encK : ∀ k tag v r, SvFreeK S k → Val.dynsOk A v = true →
    encK S fuel k tag v (some V) = .ok r →
    encK (S.restrict V) fuel k tag (rvK S V fuel k v) (some V) = .ok r
  encSlice : ∀ k tag xs r, SvFreeK S k → Val.dynsOkL A xs = true →
    encSlice S fuel k tag xs (some V) = .ok r →
    encSlice (S.restrict V) fuel k tag (rvSlice S V fuel k xs) (some V) = .ok r
  encFields : ∀ fields vs r, SvFreeFields S fields → FieldsPlain fields → Val.dynsOkL A vs = true →
    encFields S fuel fields vs (some V) = .ok r →
    encFields (S.restrict V) fuel ((fields.filter (Field.inAt V)).map Field.ungate)
      (rvFields S V fuel fields vs) (some V) = .ok r
  encCustom : ∀ code tag v r, SvFreeCustom S code → Val.dynsOk A v = true →
    encCustom S fuel code tag v (some V) = .ok r →
    encCustom (S.restrict V) fuel code tag (rvCustom S V fuel code v) (some V) = .ok r
  encSameTag : ∀ kinds tag xs r, SvFreeKs S kinds → Val.dynsOkL A xs = true →
    encSameTag S fuel kinds tag xs (some V) = .ok r →
    encSameTag (S.restrict V) fuel kinds tag (rvSameTag S V fuel kinds xs) (some V) = .ok r

theorem restrictOk_zero (S : Schema) (V : Ver) (A : Nat → Bool) : RestrictOk S V A 0 := by
  constructor
  · intro k tag v r _ _ h; rw [encK] at h; exact nomatch h
  · intro k tag xs r _ _ h; rw [encSlice] at h; exact nomatch h
  · intro fs vs r _ _ _ h; rw [encFields] at h; exact nomatch h
  · intro code tag v r _ _ h; rw [encCustom] at h; exact nomatch h
  · intro ks tag xs r _ _ h; rw [encSameTag] at h; exact nomatch h

theorem Schema.structDef_fieldsPlain (S : Schema) (h : S.noOmitemptyStruct = true) (id : Nat) :
    FieldsPlain (S.structDef id).fields := by
  rcases S.structDef_mem_or_default id with hm | hd
  · unfold Schema.noOmitemptyStruct at h
    rw [List.all_eq_true] at h
    have := h _ hm
    rw [List.all_eq_true] at this
    intro f hf ho id' hk
    have := this f hf
    rw [ho, hk] at this
    exact nomatch this
  · rw [hd]; intro f hf; exact nomatch hf

theorem rvCustom_struct (S : Schema) (V : Ver) (fuel code : Nat) (fs : List Val) :
    ∃ fs', rvCustom S V fuel code (.struct fs) = .struct fs' := by
  cases fuel with
  | zero => exact ⟨fs, by rw [rvCustom]⟩
  | succ n =>
    rw [rvCustom.eq_def]
    dsimp only
    repeat' split
    all_goals exact ⟨_, rfl⟩

theorem restrictOk_succ (S : Schema) (V : Ver) (A : Nat → Bool)
    (hA : ∀ d, A d = true → SvFreeK S (S.dyn d).kind) (hC : S.customsUngated = true)
    (hO : S.noOmitemptyStruct = true) (fuel : Nat) (ih : RestrictOk S V A fuel) :
    RestrictOk S V A (fuel + 1) := by
  have st := cellStable S A hA fuel
  constructor
  · -- encK
    intro k tag v r hk hv h
    rw [encK.eq_def] at h
    dsimp only at h
    split at h
    all_goals first | contradiction | skip
    all_goals first | (rw [rvK.eq_def]; dsimp only; rw [encK.eq_def]; dsimp only; exact h) | skip
    · -- ptr
      rw [Val.dynsOk] at hv
      rw [rvK.eq_def]; dsimp only; rw [encK.eq_def]; dsimp only
      exact ih.encK _ _ _ _ hk.ptr hv h
    · -- slice
      rw [Val.dynsOk] at hv
      rw [rvK.eq_def]; dsimp only; rw [encK.eq_def]; dsimp only
      exact ih.encSlice _ _ _ _ hk.slice hv h
    · -- iface
      rw [Val.dynsOk, Bool.and_eq_true] at hv
      rw [rvK.eq_def]; dsimp only; rw [encK.eq_def]; dsimp only
      rw [Schema.restrict_dyn]
      exact ih.encK _ _ _ _ (hA _ hv.1) hv.2 h
    · -- struct
      rename_i id fs
      rw [Val.dynsOk] at hv
      have hs := hk.struct
      rw [rvK.eq_def]; dsimp only
      split at h
      · rename_i hc
        rw [if_pos hc]
        have h' := ih.encCustom _ _ _ _ (hs.1 hc) (by rw [Val.dynsOk]; exact hv) h
        -- the restricted value of a custom struct is a struct or the value itself
        obtain ⟨fs', hfs'⟩ := rvCustom_struct S V fuel (S.structDef id).custom fs
        rw [hfs'] at h' ⊢
        rw [encK.eq_def]; dsimp only
        rw [Schema.restrict_structDef, StructDef.restrict_encCustom, if_pos hc, StructDef.restrict_custom]
        exact h'
      · rename_i hc
        rw [if_neg hc]
        rw [encK.eq_def]; dsimp only
        rw [Schema.restrict_structDef, StructDef.restrict_encCustom, if_neg hc]
        obtain ⟨⟨a, c1⟩, h1, h2⟩ := Res.bind_eq_ok h
        have hc' : (S.structDef id).encCustom = false := by simpa using hc
        have h1' := ih.encFields _ _ _ (hs.2 hc') (S.structDef_fieldsPlain hO id) hv h1
        refine Res.bind_ok_of ?_ h2
        unfold StructDef.restrict
        rw [if_neg hc]
        exact h1'
  · -- encSlice
    intro k tag xs r hk hv h
    cases xs with
    | nil =>
      rw [rvSlice.eq_def]; dsimp only
      rw [encSlice.eq_def] at h ⊢
      exact h
    | cons x xs =>
      rw [rvSlice.eq_def]; dsimp only
      rw [encSlice] at h ⊢
      rw [Val.dynsOkL, Bool.and_eq_true] at hv
      obtain ⟨⟨a, c1⟩, h1, h2⟩ := Res.bind_eq_ok h
      obtain ⟨⟨b, c2⟩, h3, h4⟩ := Res.bind_eq_ok h2
      have e1 := st.encK _ _ _ _ _ _ hk hv.1 h1
      subst e1
      exact Res.bind_ok_of (ih.encK _ _ _ _ hk hv.1 h1) (Res.bind_ok_of (ih.encSlice _ _ _ _ hk hv.2 h3) h4)
  · -- encFields
    intro fields vs r hf hp hv h
    cases fields with
    | nil =>
      rw [encFields.eq_def] at h
      rw [List.filter_nil, List.map_nil, encFields.eq_def]
      exact h
    | cons f fs =>
      cases vs with
      | nil => rw [encFields] at h; contradiction; exact fun h => nomatch h
      | cons v vs =>
        rw [encFields_cons] at h
        obtain ⟨hsv, hk, hfs⟩ := hf.cons
        rw [Val.dynsOkL, Bool.and_eq_true] at hv
        have hp' : FieldsPlain fs := fun g hg => hp g (List.mem_cons_of_mem _ hg)
        have hcell : fieldCell f v (some V) = some V := by unfold fieldCell; rw [hsv]; rfl
        rw [hcell] at h
        rw [rvFields.eq_def]; dsimp only
        by_cases hin : f.inAt V = true
        · -- the field exists at V
          rw [if_pos hin, List.filter_cons_of_pos hin, List.map_cons, encFields_cons]
          have hsv' : f.ungate.setVersion = false := hsv
          have hcell' : ∀ w, fieldCell f.ungate w (some V) = some V := by
            intro w; unfold fieldCell; rw [hsv']; rfl
          have hrange : fieldOutOfRange f (some V) = false := by
            unfold fieldOutOfRange
            unfold Field.inAt at hin
            cases hr : f.vrange with
            | none => rfl
            | some r => rw [hr] at hin; simp [versionIn, hin]
          have hrange' : fieldOutOfRange f.ungate (some V) = false := rfl
          have hz : (f.ungate.omitempty && (rvK S V fuel f.kind v).isZero) = (f.omitempty && v.isZero) := by
            show (f.omitempty && (rvK S V fuel f.kind v).isZero) = (f.omitempty && v.isZero)
            cases ho : f.omitempty with
            | false => rfl
            | true => rw [rvK_isZero S V fuel f.kind v (hp f List.mem_cons_self ho)]
          rw [hcell', hrange', hz]
          rw [hrange] at h
          split at h
          · rename_i hc
            rw [if_pos hc]
            exact ih.encFields _ _ _ hfs hp' hv.2 h
          · rename_i hc
            rw [if_neg hc]
            obtain ⟨⟨a, c1⟩, h1, h2⟩ := Res.bind_eq_ok h
            obtain ⟨⟨b, c2⟩, h3, h4⟩ := Res.bind_eq_ok h2
            have e1 := st.encK _ _ _ _ _ _ hk hv.1 h1
            subst e1
            have htag : fieldTag (S.restrict V) f.ungate (rvK S V fuel f.kind v) = fieldTag S f v := by
              rw [fieldTag_eq, fieldTag_eq, rvK_dynId]
              rfl
            rw [htag]
            exact Res.bind_ok_of (ih.encK _ _ _ _ hk hv.1 h1)
              (Res.bind_ok_of (ih.encFields _ _ _ hfs hp' hv.2 h3) h4)
        · -- the field does not exist at V: nothing is written, and the restricted schema has no such field
          have hin' : f.inAt V = false := by simpa using hin
          rw [if_neg hin, List.filter_cons_of_neg hin]
          have hrange : fieldOutOfRange f (some V) = true := by
            unfold fieldOutOfRange
            unfold Field.inAt at hin'
            cases hr : f.vrange with
            | none => rw [hr] at hin'; exact nomatch hin'
            | some r => rw [hr] at hin'; simp [versionIn, hin']
          rw [hrange] at h
          simp only [Bool.true_or, if_true] at h
          exact (encMono _ fuel).encFields _ _ _ _ (ih.encFields _ _ _ hfs hp' hv.2 h)
  · -- encCustom
    intro code tag v r hc hv h
    rw [encCustom.eq_def] at h
    dsimp only at h
    have hf : ∀ i, (v.field i).dynsOk A = true := by
      intro i
      cases v with
      | struct fs => rw [Val.dynsOk] at hv; exact Val.dynsOk_field hv i
      | _ => rfl
    rw [rvCustom.eq_def]; dsimp only
    split at h
    · rename_i h1
      rw [if_pos h1, encCustom.eq_def]; dsimp only
      rw [if_pos h1]
      obtain ⟨⟨a, c1⟩, e1, h⟩ := Res.bind_eq_ok h
      obtain ⟨⟨b, c2⟩, e2, h⟩ := Res.bind_eq_ok h
      have r1 := st.encK _ _ _ _ _ _ (SvFreeK.iface S) (hf 2) e1
      subst r1
      have q1 := ih.encK _ _ _ _ (SvFreeK.iface S) (hf 2) e1
      have q2 := ih.encK _ _ _ _ (hc.1 (Or.inl h1)).of_ptr (hf 3) e2
      rw [msgExtId_restrict]
      exact Res.bind_ok_of q1 (Res.bind_ok_of q2 h)
    · rename_i h1
      rw [if_neg h1]
      split at h
      · rename_i h2
        rw [if_pos h2, encCustom.eq_def]; dsimp only
        rw [if_neg h1, if_pos h2]
        obtain ⟨⟨a, c1⟩, e1, h⟩ := Res.bind_eq_ok h
        obtain ⟨⟨b, c2⟩, e2, h⟩ := Res.bind_eq_ok h
        have r1 := st.encK _ _ _ _ _ _ (SvFreeK.iface S) (hf 6) e1
        subst r1
        have q1 := ih.encK _ _ _ _ (SvFreeK.iface S) (hf 6) e1
        have q2 := ih.encK _ _ _ _ (hc.1 (Or.inr h2)).of_ptr (hf 7) e2
        rw [msgExtId_restrict]
        exact Res.bind_ok_of q1 (Res.bind_ok_of q2 h)
      · rename_i h2
        rw [if_neg h2]
        split at h
        · rename_i h3
          have h4 : ¬(code = Cust.credentialValue ∨ code = Cust.keyValue ∨ code = Cust.keyMaterial) := by
            rw [h3]; decide
          rw [if_neg h4, encCustom.eq_def]; dsimp only
          rw [if_neg h1, if_neg h2, if_pos h3]
          exact h
        · rename_i h3
          split at h
          · rename_i h4
            rw [if_pos h4]
            split at h
            · rename_i fs
              rw [Val.dynsOk] at hv
              rw [encCustom.eq_def]; dsimp only
              rw [if_neg h1, if_neg h2, if_neg h3, if_pos h4, customFieldKinds_restrict S V hC code h4]
              exact ih.encSameTag _ _ _ _ (hc.2 h4) hv h
            · contradiction
          · contradiction
  · -- encSameTag
    intro kinds tag xs r hk hv h
    cases kinds with
    | nil =>
      rw [rvSameTag.eq_def]; dsimp only
      rw [encSameTag.eq_def] at h ⊢
      exact h
    | cons k ks =>
      cases xs with
      | nil =>
        rw [rvSameTag.eq_def]; dsimp only
        rw [encSameTag.eq_def] at h ⊢
        exact h
      | cons x xs =>
        rw [rvSameTag.eq_def]; dsimp only
        rw [encSameTag] at h ⊢
        rw [Val.dynsOkL, Bool.and_eq_true] at hv
        obtain ⟨hk1, hk2⟩ := hk.cons
        obtain ⟨⟨a, c1⟩, h1, h2⟩ := Res.bind_eq_ok h
        obtain ⟨⟨b, c2⟩, h3, h4⟩ := Res.bind_eq_ok h2
        have e1 := st.encK _ _ _ _ _ _ hk1 hv.1 h1
        subst e1
        exact Res.bind_ok_of (ih.encK _ _ _ _ hk1 hv.1 h1)
          (Res.bind_ok_of (ih.encSameTag _ _ _ _ hk2 hv.2 h3) h4)

theorem restrictOk (S : Schema) (V : Ver) (A : Nat → Bool)
    (hA : ∀ d, A d = true → SvFreeK S (S.dyn d).kind) (hC : S.customsUngated = true)
    (hO : S.noOmitemptyStruct = true) : ∀ fuel, RestrictOk S V A fuel
  | 0 => restrictOk_zero S V A
  | fuel + 1 => restrictOk_succ S V A hA hC hO fuel (restrictOk S V A hA hC hO fuel)

/-! whole messages -/

/-- a header-shaped field list (first field sets the version cell to `V`, its value is untouched by
    restriction, nothing else sets the cell), whatever the incoming cell. -/
theorem restrict_header_fields (S : Schema) (V : Ver) (A : Nat → Bool)
    (hA : ∀ d, A d = true → SvFreeK S (S.dyn d).kind) (hC : S.customsUngated = true)
    (hO : S.noOmitemptyStruct = true) (fuel : Nat) (f0 : Field) (hfs : List Field) (pv : Val)
    (hs : List Val) (cell : Option Ver) (r : EncSt)
    (hsv : f0.setVersion = true) (hnr : f0.vrange = none) (hk : SvFreeK S f0.kind) (hfree : SvFreeFields S hfs)
    (hp : FieldsPlain (f0 :: hfs)) (hV : pv.asVer = V) (hpv : ∀ n, rvK S V n f0.kind pv = pv)
    (hv : Val.dynsOkL A (pv :: hs) = true)
    (h : encFields S fuel (f0 :: hfs) (pv :: hs) cell = .ok r) :
    encFields (S.restrict V) fuel (((f0 :: hfs).filter (Field.inAt V)).map Field.ungate)
      (rvFields S V fuel (f0 :: hfs) (pv :: hs)) cell = .ok r := by
  cases fuel with
  | zero => rw [encFields] at h; contradiction
  | succ fuel =>
    have st := cellStable S A hA fuel
    have ro := restrictOk S V A hA hC hO fuel
    rw [encFields_cons] at h
    rw [Val.dynsOkL, Bool.and_eq_true] at hv
    have hp' : FieldsPlain hfs := fun g hg => hp g (List.mem_cons_of_mem _ hg)
    have hcell : fieldCell f0 pv cell = some V := by unfold fieldCell; rw [hsv, hV]; rfl
    rw [hcell] at h
    rw [rvFields.eq_def]; dsimp only
    by_cases hin : f0.inAt V = true
    · rw [if_pos hin, List.filter_cons_of_pos hin, List.map_cons, encFields_cons, hpv]
      have hsv' : f0.ungate.setVersion = true := hsv
      have hcell' : fieldCell f0.ungate pv cell = some V := by
        unfold fieldCell; rw [hsv', hV]; rfl
      have hrange : fieldOutOfRange f0 (some V) = false := by
        unfold fieldOutOfRange
        unfold Field.inAt at hin
        cases hr : f0.vrange with
        | none => rfl
        | some r => rw [hr] at hin; simp [versionIn, hin]
      have hrange' : fieldOutOfRange f0.ungate (some V) = false := rfl
      have hz : (f0.ungate.omitempty && pv.isZero) = (f0.omitempty && pv.isZero) := rfl
      rw [hcell', hrange', hz]
      rw [hrange] at h
      split at h
      · rename_i hc
        rw [if_pos hc]
        exact ro.encFields _ _ _ hfree hp' hv.2 h
      · rename_i hc
        rw [if_neg hc]
        obtain ⟨⟨a, c1⟩, h1, h2⟩ := Res.bind_eq_ok h
        obtain ⟨⟨b, c2⟩, h3, h4⟩ := Res.bind_eq_ok h2
        have e1 := st.encK _ _ _ _ _ _ hk hv.1 h1
        subst e1
        have htag : fieldTag (S.restrict V) f0.ungate pv = fieldTag S f0 pv := by
          rw [fieldTag_eq, fieldTag_eq]; rfl
        rw [htag]
        have q1 := ro.encK _ _ _ _ hk hv.1 h1
        rw [hpv] at q1
        exact Res.bind_ok_of q1 (Res.bind_ok_of (ro.encFields _ _ _ hfree hp' hv.2 h3) h4)
    · exact absurd (show f0.inAt V = true by unfold Field.inAt; rw [hnr]) hin

/-- **decidable**: in both headers the first field (ProtocolVersion) carries no annotation and is a
    reflectively encoded struct of two plain, unannotated 32-bit integers. -/
def Schema.pvPlain (S : Schema) : Bool :=
  S.structs.all fun d =>
    if d.defTag = T.requestHeader ∨ d.defTag = T.responseHeader then
      match d.fields with
      | f0 :: _ => f0.vrange.isNone && (match f0.kind with
          | .struct p => !(S.structDef p).encCustom && (match (S.structDef p).fields with
              | [a, b] => a.vrange.isNone && b.vrange.isNone && a.kind == .i32 && b.kind == .i32
              | _ => false)
          | _ => false)
      | [] => false
    else true

theorem rvK_i32 (S : Schema) (V : Ver) (n : Nat) (v : Val) : rvK S V n .i32 v = v := by
  cases n with
  | zero => rw [rvK]
  | succ n => rw [rvK.eq_def]

/-- a ProtocolVersion value is untouched by restriction. -/
theorem rvK_pv (S : Schema) (V : Ver) (p : Nat) (a b : Field) (hc : (S.structDef p).encCustom = false)
    (hf : (S.structDef p).fields = [a, b]) (ha : a.vrange = none) (hb : b.vrange = none)
    (hak : a.kind = .i32) (hbk : b.kind = .i32) (M m : Val) (n : Nat) :
    rvK S V n (.struct p) (.struct [M, m]) = .struct [M, m] := by
  have ia : a.inAt V = true := by unfold Field.inAt; rw [ha]
  have ib : b.inAt V = true := by unfold Field.inAt; rw [hb]
  cases n with
  | zero => rw [rvK]
  | succ n =>
    rw [rvK.eq_def]; dsimp only
    rw [hc, hf]
    simp only [Bool.false_eq_true, if_false]
    cases n with
    | zero => rw [rvFields]
    | succ n =>
      rw [rvFields.eq_def]; dsimp only
      rw [if_pos ia, hak, rvK_i32]
      cases n with
      | zero => rw [rvFields]
      | succ n =>
        rw [rvFields.eq_def]; dsimp only
        rw [if_pos ib, hbk, rvK_i32]
        have : rvFields S V n [] [] = [] := by cases n <;> rw [rvFields.eq_def]
        rw [this]


/-- the fields of a Request/ResponseMessage `[header (pv :: …), batch items]`, whatever the incoming cell:
    the encoding is the encoding, in the schema restricted to the header's version, of the restricted value. -/
theorem restrict_message_fields (S : Schema) (N : Nat)
    (hH : S.noNestedSetVersion N = true) (hM : S.messageShape N = true) (hC : S.customsUngated = true)
    (hO : S.noOmitemptyStruct = true) (hP : S.pvPlain = true)
    (d : StructDef) (hd : d ∈ S.structs)
    (htag : d.defTag = T.requestMessage ∨ d.defTag = T.responseMessage)
    (fuel : Nat) (M m : Val) (hs : List Val) (bv : Val) (cell : Option Ver) (r : EncSt)
    (hv : Val.dynsOkL (S.svFreeDyn N) [.struct (.struct [M, m] :: hs), bv] = true)
    (h : encFields S fuel d.fields [.struct (.struct [M, m] :: hs), bv] cell = .ok r) :
    encFields (S.restrict (Val.struct [M, m]).asVer) fuel
      ((d.fields.filter (Field.inAt (Val.struct [M, m]).asVer)).map Field.ungate)
      (rvFields S (Val.struct [M, m]).asVer fuel d.fields [.struct (.struct [M, m] :: hs), bv]) cell
      = .ok r := by
  generalize hVdef : (Val.struct [M, m]).asVer = V
  have hA := S.svFreeDyn_sound N
  have hm := List.all_eq_true.1 hM d hd
  rw [if_pos htag] at hm
  split at hm
  · rename_i fh fb hfields
    simp only [Bool.and_eq_true, Bool.not_eq_true', Option.isNone_iff_eq_none] at hm
    obtain ⟨⟨⟨⟨⟨⟨m1, m2⟩, m3⟩, m4⟩, m5⟩, m6⟩, m7⟩ := hm
    split at m7
    · rename_i hid hkind
      simp only [Bool.and_eq_true, Bool.or_eq_true, decide_eq_true_eq, Bool.not_eq_true'] at m7
      obtain ⟨m7, m8⟩ := m7
      rw [hfields] at h ⊢
      rw [Val.dynsOkL, Val.dynsOkL, Bool.and_eq_true, Bool.and_eq_true, Val.dynsOk] at hv
      obtain ⟨hv1, hv2, _⟩ := hv
      have hhd : S.structDef hid ∈ S.structs := by
        rcases S.structDef_mem_or_default hid with hmem | hdef
        · exact hmem
        · rw [hdef] at m7; exact absurd m7 (by decide)
      -- the header: first field set-version, plain ProtocolVersion
      have hh := List.all_eq_true.1 hH _ hhd
      rw [if_pos m7] at hh
      have hp := List.all_eq_true.1 hP _ hhd
      rw [if_pos m7] at hp
      split at hh
      · rename_i f0 hfs hhf
        simp only [Bool.and_eq_true] at hh
        rw [hhf] at hp
        simp only [Bool.and_eq_true, Option.isNone_iff_eq_none] at hp
        obtain ⟨p1, p2⟩ := hp
        split at p2
        · rename_i pid hpk
          simp only [Bool.and_eq_true, Bool.not_eq_true'] at p2
          obtain ⟨p3, p4⟩ := p2
          split at p4
          · rename_i a b hab
            simp only [Bool.and_eq_true, Option.isNone_iff_eq_none, beq_iff_eq] at p4
            obtain ⟨⟨⟨a1, b1⟩, a2⟩, b2⟩ := p4
            have hpv : ∀ n, rvK S V n f0.kind (.struct [M, m]) = .struct [M, m] := by
              intro n; rw [hpk]; exact rvK_pv S V pid a b p3 hab a1 b1 a2 b2 M m n
            have hN : N ≠ 0 := by
              intro h0; rw [h0, svFreeK] at m6; exact nomatch m6
            obtain ⟨n, rfl⟩ := Nat.exists_eq_succ_of_ne_zero hN
            have hfb : SvFreeFields S [fb] :=
              ⟨n + 2, by rw [svFreeFields, m2, m6, svFreeFields]; rfl; exact fun h => nomatch h⟩
            have hplain := S.structDef_fieldsPlain hO
            have hdplain : FieldsPlain [fh, fb] := by
              intro g hg
              have : FieldsPlain d.fields := by
                unfold Schema.noOmitemptyStruct at hO
                rw [List.all_eq_true] at hO
                have := hO _ hd
                rw [List.all_eq_true] at this
                intro f hf ho id' hk
                have := this f hf
                rw [ho, hk] at this
                exact nomatch this
              rw [hfields] at this
              exact this g hg
            have hfbplain : FieldsPlain [fb] := fun g hg => hdplain g (List.mem_cons_of_mem _ hg)
            cases fuel with
            | zero => rw [encFields] at h; contradiction
            | succ fuel =>
              have hin : fh.inAt V = true := by unfold Field.inAt; rw [m3]
              rw [rvFields.eq_def]; dsimp only
              rw [if_pos hin, List.filter_cons_of_pos hin, List.map_cons]
              rw [encFields_cons] at h ⊢
              have hskip : (fieldOutOfRange fh (fieldCell fh (.struct (.struct [M, m] :: hs)) cell) ||
                  (fh.omitempty && (Val.struct (.struct [M, m] :: hs)).isZero)) = false := by
                unfold fieldOutOfRange; rw [m3, m4]; rfl
              have hcell : fieldCell fh (.struct (.struct [M, m] :: hs)) cell = cell := by
                unfold fieldCell; rw [m1]; rfl
              have htg : fieldTag S fh (.struct (.struct [M, m] :: hs)) = fh.tag := by
                unfold fieldTag; rw [m5]; rfl
              rw [hskip, hcell, htg] at h
              simp only [Bool.false_eq_true, if_false] at h
              obtain ⟨⟨a', c1⟩, h1, h2⟩ := Res.bind_eq_ok h
              obtain ⟨⟨b', c2⟩, h3, h4⟩ := Res.bind_eq_ok h2
              -- R side, same wrappers
              have hskip' : ∀ w, (fieldOutOfRange fh.ungate (fieldCell fh.ungate w cell) ||
                  (fh.ungate.omitempty && w.isZero)) = false := by
                intro w
                have : fh.ungate.omitempty = false := m4
                unfold fieldOutOfRange; rw [this]; rfl
              have hcell' : ∀ w, fieldCell fh.ungate w cell = cell := by
                intro w
                have : fh.ungate.setVersion = false := m1
                unfold fieldCell; rw [this]; rfl
              have htg' : ∀ w, fieldTag (S.restrict V) fh.ungate w = fh.tag := by
                intro w
                have : fh.ungate.dynTag = false := m5
                unfold fieldTag; rw [this]; rfl
              rw [hskip', hcell', htg']
              simp only [Bool.false_eq_true, if_false]
              -- inside the header
              cases fuel with
              | zero => rw [hkind, encK] at h1; contradiction
              | succ fuel =>
                rw [hkind, encK.eq_def] at h1
                simp only [m8, Bool.false_eq_true, if_false] at h1
                obtain ⟨⟨hi, c0⟩, e1, e2⟩ := Res.bind_eq_ok h1
                cases e2
                rw [hhf] at e1
                have hvdef : (Val.struct [M, m]).asVer = V := hVdef
                have hc1 : c0 = some V := by
                  rw [← hvdef]
                  exact encFields_header_cell S _ hA _ f0 hfs _ hs cell hi c0 hh.1.1 ⟨n + 1, hh.1.2⟩
                    ⟨n + 1, hh.2⟩ hv1 e1
                subst hc1
                have hhplain : FieldsPlain (f0 :: hfs) := by rw [← hhf]; exact hplain hid
                have q0 := restrict_header_fields S V _ hA hC hO fuel f0 hfs (.struct [M, m]) hs cell
                  (hi, some V) hh.1.1 p1 ⟨n + 1, hh.1.2⟩ ⟨n + 1, hh.2⟩ hhplain hvdef hpv hv1 e1
                have q1 : encK (S.restrict V) (fuel + 1) fh.ungate.kind fh.tag
                    (rvK S V (fuel + 1) fh.kind (.struct (.struct [M, m] :: hs))) cell
                    = .ok ([.struct fh.tag hi], some V) := by
                  show encK (S.restrict V) (fuel + 1) fh.kind fh.tag _ cell = _
                  rw [hkind, rvK.eq_def]; dsimp only
                  rw [m8]; simp only [Bool.false_eq_true, if_false]
                  rw [encK.eq_def]; dsimp only
                  rw [Schema.restrict_structDef, StructDef.restrict_encCustom, m8]
                  simp only [Bool.false_eq_true, if_false]
                  unfold StructDef.restrict
                  rw [m8]; simp only [Bool.false_eq_true, if_false]
                  rw [hhf, q0]
                  rfl
                have q2 := (restrictOk S V _ hA hC hO (fuel + 1)).encFields [fb] [bv] (b', c2) hfb hfbplain
                  (by rw [Val.dynsOkL, Val.dynsOkL, hv2]; rfl) h3
                exact Res.bind_ok_of q1 (Res.bind_ok_of q2 h4)
          · exact nomatch p4
        · exact nomatch p2
      · exact nomatch hh
    · exact nomatch m7
  · exact nomatch hm

/-- **decidable**: dyn id `dyn` is a pointer to a reflectively encoded struct tagged Request/ResponseMessage. -/
def Schema.isMessageDyn (S : Schema) (dyn : Nat) : Bool :=
  match (S.dyn dyn).kind with
  | .ptr (.struct mid) =>
    decide (mid < S.structs.length) && !(S.structDef mid).encCustom &&
      (decide ((S.structDef mid).defTag = T.requestMessage) ||
        decide ((S.structDef mid).defTag = T.responseMessage))
  | _ => false

/-- the protocol version announced by a message value `&Message{Header{ProtocolVersion{M, m}, …}, …}`. -/
def Val.messageVersion : Val → Ver
  | .ptr (some (.struct (.struct (pv :: _) :: _))) => pv.asVer
  | _ => (0, 0)

/-- a message value stripped of every element that does not exist at version `V` (at any depth). -/
def restrictMessage (S : Schema) (V : Ver) (dyn : Nat) (v : Val) : Val :=
  rvK S V 100000 (S.dyn dyn).kind v

/-- **end to end**: marshalling a message with the library's schema (annotations, shared version cell set by
    the header) gives the same bytes as marshalling, with the schema RESTRICTED to the header's version — which
    has none of the later elements and no annotation at all —, the message stripped of its later elements. -/
theorem marshal_eq_marshal_restricted (S : Schema) (N : Nat)
    (hH : S.noNestedSetVersion N = true) (hM : S.messageShape N = true) (hC : S.customsUngated = true)
    (hO : S.noOmitemptyStruct = true) (hP : S.pvPlain = true)
    (dyn : Nat) (hdyn : S.isMessageDyn dyn = true) (tag : Nat) (M m : Val) (hs : List Val) (bv : Val)
    (hv : Val.dynsOkL (S.svFreeDyn N) [.struct (.struct [M, m] :: hs), bv] = true) (bs : Bytes)
    (h : marshal S dyn tag (.ptr (some (.struct [.struct (.struct [M, m] :: hs), bv]))) = .ok bs) :
    marshal (S.restrict (Val.struct [M, m]).asVer) dyn tag
      (restrictMessage S (Val.struct [M, m]).asVer dyn
        (.ptr (some (.struct [.struct (.struct [M, m] :: hs), bv])))) = .ok bs := by
  unfold Schema.isMessageDyn at hdyn
  split at hdyn
  · rename_i mid hk
    simp only [Bool.and_eq_true, Bool.or_eq_true, decide_eq_true_eq, Bool.not_eq_true'] at hdyn
    obtain ⟨⟨hlt, hnc⟩, htag⟩ := hdyn
    have hmem : S.structDef mid ∈ S.structs := by
      unfold Schema.structDef
      rw [List.getD_eq_getElem?_getD, List.getElem?_eq_getElem hlt]
      exact List.getElem_mem hlt
    unfold restrictMessage
    unfold marshal at h ⊢
    rw [Schema.restrict_dyn]
    simp only [hk] at h ⊢
    obtain ⟨⟨items, c⟩, h1, h2⟩ := Res.bind_eq_ok h
    refine Res.bind_ok_of (a := (items, c)) ?_ h2
    generalize (if tag = 0 then (S.dyn dyn).defTag else tag) = tg at h1 ⊢
    rw [show (100000 : Nat) = 99998 + 1 + 1 from rfl] at h1 ⊢
    rw [encK.eq_def] at h1
    dsimp only at h1
    rw [encK.eq_def] at h1
    simp only [hnc, Bool.false_eq_true, if_false] at h1
    obtain ⟨⟨its, c'⟩, e1, e2⟩ := Res.bind_eq_ok h1
    have q := restrict_message_fields S N hH hM hC hO hP _ hmem htag 99998 M m hs bv none (its, c') hv e1
    rw [rvK.eq_def]; dsimp only
    rw [rvK.eq_def]; dsimp only
    rw [hnc]; simp only [Bool.false_eq_true, if_false]
    rw [encK.eq_def]; dsimp only
    rw [encK.eq_def]; dsimp only
    rw [Schema.restrict_structDef, StructDef.restrict_encCustom, hnc]
    simp only [Bool.false_eq_true, if_false]
    unfold StructDef.restrict
    rw [hnc]; simp only [Bool.false_eq_true, if_false]
    rw [q]
    exact e2
  · exact nomatch hdyn

/-! side conditions on values, meaning of `restrict` -/

mutual
  theorem Val.dynsOk_mono (A B : Nat → Bool) (h : ∀ d, A d = true → B d = true) :
      ∀ v : Val, v.dynsOk A = true → v.dynsOk B = true
    | .struct fs, hv => by
      rw [Val.dynsOk] at hv ⊢; exact Val.dynsOkL_mono A B h fs hv
    | .ptr (some x), hv => by
      rw [Val.dynsOk] at hv ⊢; exact Val.dynsOk_mono A B h x hv
    | .ptr none, _ => rfl
    | .list xs, hv => by
      rw [Val.dynsOk] at hv ⊢; exact Val.dynsOkL_mono A B h xs hv
    | .iface (some (d, x)), hv => by
      rw [Val.dynsOk, Bool.and_eq_true] at hv ⊢
      exact ⟨h d hv.1, Val.dynsOk_mono A B h x hv.2⟩
    | .iface none, _ => rfl
    | .int _, _ => rfl
    | .bool _, _ => rfl
    | .text _, _ => rfl
    | .bytes _, _ => rfl
    | .big _, _ => rfl
    | .any _, _ => rfl
    | .anyStruct _, _ => rfl
  theorem Val.dynsOkL_mono (A B : Nat → Bool) (h : ∀ d, A d = true → B d = true) :
      ∀ vs : List Val, Val.dynsOkL A vs = true → Val.dynsOkL B vs = true
    | [], _ => rfl
    | v :: vs, hv => by
      rw [Val.dynsOkL, Bool.and_eq_true] at hv ⊢
      exact ⟨Val.dynsOk_mono A B h v hv.1, Val.dynsOkL_mono A B h vs hv.2⟩
end

/-- a registered dynamic type other than the two message types. -/
def Schema.payloadLikeDyn (S : Schema) (d : Nat) : Bool :=
  decide (d < S.dyns.length) && !decide ((S.dyn d).defTag = T.requestMessage) &&
    !decide ((S.dyn d).defTag = T.responseMessage)

theorem Schema.payloadLikeDyn_svFree (S : Schema) (N : Nat) (h : S.dynsSvFree N = true) (d : Nat)
    (hd : S.payloadLikeDyn d = true) : S.svFreeDyn N d = true := by
  unfold Schema.payloadLikeDyn at hd
  simp only [Bool.and_eq_true, decide_eq_true_eq, Bool.not_eq_true', decide_eq_false_iff_not] at hd
  unfold Schema.dynsSvFree at h
  rw [List.all_eq_true] at h
  have := h d (List.mem_range.2 hd.1.1)
  simp only [Bool.or_eq_true, decide_eq_true_eq] at this
  rcases this with (h1 | h2) | h3
  · exact absurd h1 hd.1.2
  · exact absurd h2 hd.2
  · exact h3

/-- what `restrict` means: a reflectively encoded struct of the restricted schema has exactly the fields that
    exist at `V`, in the same order, and none of them carries an annotation. -/
theorem Schema.restrict_fields (S : Schema) (V : Ver) (id : Nat) (h : (S.structDef id).encCustom = false) :
    ((S.restrict V).structDef id).fields = ((S.structDef id).fields.filter (Field.inAt V)).map Field.ungate ∧
    ∀ f ∈ ((S.restrict V).structDef id).fields, f.vrange = none := by
  rw [Schema.restrict_structDef]
  unfold StructDef.restrict
  rw [h]
  simp only [Bool.false_eq_true, if_false]
  refine ⟨by trivial, ?_⟩
  intro f hf
  rw [List.mem_map] at hf
  obtain ⟨g, _, rfl⟩ := hf
  rfl

/-! an INDEPENDENT plausibility check of the annotations (and hence of the pinned table, which was first produced
    from them): KMIP numbers its tags and its operation codes chronologically, so the version that created a tag /
    an operation can be read off its number. -/
/-- the KMIP version that CREATED a tag (tags are numbered chronologically). -/
def tagVer (t : Nat) : Ver :=
  if t ≤ 0x4200A1 then (1, 0) else if t ≤ 0x4200B7 then (1, 1) else if t ≤ 0x4200D3 then (1, 2)
  else if t ≤ 0x4200F7 then (1, 3) else (1, 4)
/-- the KMIP version that created an operation code. -/
def opVer (op : Nat) : Ver :=
  if op ≤ 0x1C then (1, 0) else if op ≤ 0x1E then (1, 1) else if op ≤ 0x29 then (1, 2) else (1, 4)
/-- the version that created a structure, from its stable key: payload keys are `1000000 + 2·op + direction`
    (below every tag number), the others are tags. -/
def keyVer (k : Nat) : Ver := if 1000000 ≤ k ∧ k < 0x420000 then opVer ((k - 1000000) / 2) else tagVer k
def verMax (a b : Ver) : Ver := if Ver.lt a b then b else a
/-- fields whose tag is younger than their structure and that carry no range starting at the tag's version or later -/
def lateUngated (S : Schema) : List (Nat × Nat) :=
  (List.range S.structs.length).flatMap fun id =>
    let keys := structKeys S id
    if keys.isEmpty then [] else
    let sv := keys.foldl (fun acc k => verMax acc (keyVer k)) (0, 0)
    (S.structDef id).fields.filterMap fun f =>
      if Ver.lt sv (tagVer f.tag) then
        match f.vrange with
        | some { start := some s, stop := none } => if Ver.lt s (tagVer f.tag) then some (id, f.tag) else none
        | _ => some (id, f.tag)
      else none

end Kmip
