#!/usr/bin/env python3
"""
seed_eval.py <seed-out-dir> [<seed-out-dir> ...]

For each directory produced by a seeding sub-agent (patch.diff, demonstration file, meta.json):
  1. CONFIRM it myself in a scratch worktree of /repo: the patch applies, the library builds, the
     repository's test suite passes with it, the demonstration fails with it and passes without it;
  2. run the property's check against /repo + patch (bin/mutate.sh, go build -overlay: /repo untouched);
  3. store the result under /verif/seeded/<property>-<n>/ (patch.diff, demo, meta.json with what was run
     and whether the check caught it) — only when step 1 confirmed the change.
The scratch worktree and its build output are removed afterwards.
"""
import glob
import json
import os
import shutil
import subprocess
import sys
import tempfile

VERIF = os.path.dirname(os.path.dirname(os.path.abspath(__file__)))
ENV = dict(os.environ, GOFLAGS="-mod=mod", GOPROXY="off")
# where the checks are run from: a clean checkout of /verif (so that work in progress in /verif does not interfere)
EVALROOT = os.environ.get("SEED_EVAL_ROOT", VERIF)


def sh(cmd, cwd=None, timeout=1800):
    p = subprocess.run(cmd, cwd=cwd, env=ENV, shell=isinstance(cmd, str), stdout=subprocess.PIPE,
                       stderr=subprocess.STDOUT, text=True, timeout=timeout)
    return p.returncode, p.stdout


def evaluate(d):
    meta = json.load(open(os.path.join(d, "meta.json")))
    prop = meta["property"]
    patch = os.path.join(d, "patch.diff")
    demos = [f for f in os.listdir(d) if f.endswith(".go")]
    wt = tempfile.mkdtemp(prefix="seedchk-", dir="/tmp")
    os.rmdir(wt)
    ran = []
    res = {"confirmed": False}
    try:
        rc, out = sh(["git", "-C", "/repo", "worktree", "add", "-q", "--detach", wt, "HEAD"])
        assert rc == 0, out
        demo_rel = meta["demo_path"]
        demo_dir = os.path.dirname(demo_rel)
        # demo without mutant
        for f in demos:
            shutil.copy(os.path.join(d, f), os.path.join(wt, demo_dir, f))
        demo_cmd = meta["demo_cmd"]
        rc0, out0 = sh(demo_cmd, cwd=wt)
        ran.append(f"(clean tree) {demo_cmd} -> exit {rc0}")
        res["demo_passes_without"] = rc0 == 0
        # apply
        rc, out = sh(["git", "apply", patch], cwd=wt)
        ran.append(f"git apply patch.diff -> exit {rc}")
        if rc != 0:
            res["note"] = "patch does not apply to current HEAD: " + out[-300:]
            return prop, meta, res, ran
        rc, out = sh("go build ./... && go vet ./... >/dev/null 2>&1; go build ./...", cwd=wt)
        ran.append(f"go build ./... -> exit {rc}")
        res["builds"] = rc == 0
        rc1, out1 = sh(demo_cmd, cwd=wt)
        ran.append(f"(with mutant) {demo_cmd} -> exit {rc1}")
        res["demo_fails_with"] = rc1 != 0
        # suite with mutant, demo removed
        for f in demos:
            os.remove(os.path.join(wt, demo_dir, f))
        rc2, out2 = sh("go test -count=1 ./...", cwd=wt)
        if rc2 != 0:  # the suite has timing-sensitive client tests: one retry under load
            rc2, out2 = sh("go test -count=1 ./...", cwd=wt)
        ran.append(f"(with mutant) go test -count=1 ./... -> exit {rc2}")
        if rc2 != 0:
            res["suite_output"] = out2[-1500:]
        res["suite_passes_with"] = rc2 == 0
        # does it build with the verif tag (hooks) as well?
        rc3, out3 = sh("go build -tags verif ./...", cwd=wt)
        res["builds_with_hooks"] = rc3 == 0
        res["confirmed"] = bool(res.get("builds") and res.get("demo_fails_with") and res.get("demo_passes_without") and res.get("suite_passes_with"))
        res["demo_output_with_mutant"] = out1[-1200:]
    finally:
        sh(["git", "-C", "/repo", "worktree", "remove", "--force", wt])
        shutil.rmtree(wt, ignore_errors=True)
    return prop, meta, res, ran


def run_check(prop, patch, tier="quick"):
    rc, out = sh(["sh", os.path.join(EVALROOT, "bin", "mutate.sh"), patch, prop, tier], cwd=EVALROOT, timeout=3600)
    lines = [l for l in out.splitlines() if l.startswith("VIOLATION") or l.startswith(prop + " ")]
    caught = any(l.startswith("VIOLATION property=" + prop) for l in lines)
    with_input = caught and not any("no-failing-input-found" in l for l in lines if l.startswith("VIOLATION"))
    replay = None
    for l in lines:
        if l.startswith("VIOLATION"):
            for tok in l.split():
                if tok.startswith("replay="):
                    replay = tok[7:]
    detail = None
    if replay and os.path.exists(os.path.join(EVALROOT, replay)):
        r = json.load(open(os.path.join(EVALROOT, replay)))
        detail = (r.get("violations") or r.get("no_longer_checks") or [None])[0]
    return caught, with_input, lines, detail


def main():
    for d in sys.argv[1:]:
        d = d.rstrip("/")
        prop, meta, res, ran = evaluate(d)
        n = os.path.basename(d)
        if n.isdigit() and os.environ.get("SEED_OFFSET"):  # later seeding rounds: /k -> Cxx-(k+offset)
            n = str(int(n) + int(os.environ["SEED_OFFSET"]))
        out = os.path.join(VERIF, "seeded", f"{prop}-{n}")
        print(f"== {d}: confirmed={res['confirmed']} {res.get('note','')}")
        if not res["confirmed"]:
            print("   ", res)
            continue
        caught, with_input, lines, detail = run_check(prop, os.path.join(d, "patch.diff"))
        tier = "quick"
        if not caught:
            caught, with_input, lines, detail = run_check(prop, os.path.join(d, "patch.diff"), "thorough")
            tier = "thorough"
        os.makedirs(out, exist_ok=True)
        shutil.copy(os.path.join(d, "patch.diff"), os.path.join(out, "patch.diff"))
        for f in os.listdir(d):
            if f.endswith(".go"):
                shutil.copy(os.path.join(d, f), os.path.join(out, f + ".txt"))  # .txt: not compiled by anything here
        m = {
            "property": prop,
            "title": meta.get("title"),
            "what_it_breaks": meta.get("what_it_breaks"),
            "needs_to_manifest": meta.get("needs_to_manifest"),
            "demo_path": meta.get("demo_path"), "demo_cmd": meta.get("demo_cmd"),
            "confirmed_by_me": res, "what_i_ran": ran + [f"sh bin/mutate.sh patch.diff {prop} {tier}"],
            "check_caught_it": caught, "with_failing_input": with_input, "tier_needed": tier,
            "check_output": lines, "first_violation": detail,
        }
        json.dump(m, open(os.path.join(out, "meta.json"), "w"), indent=1)
        print(f"   check {prop} {tier}: caught={caught} with_input={with_input}")
        for l in lines:
            print("     ", l[:200])


if __name__ == "__main__":
    main()
