// Package schema derives, by reflection over the library's Go types, the wire schema the codec plans
// follow: per struct type the ordered fields with resolved numeric tag, wire kind, omitempty, version
// range, set-version and custom-codec markers. The wire kind is derived by this package's OWN table
// (mirroring, not calling, ttlv.encodeFunc/decodeFunc); struct tags are parsed both by the library's
// own parser (hook ttlv.VerifGetFieldInfo) and by an independent parser here, and the two must agree.
package schema

import (
	"fmt"
	"math/big"
	"reflect"
	"sort"
	"strconv"
	"strings"
	"time"

	kmip "github.com/ovh/kmip-go"
	_ "github.com/ovh/kmip-go/payloads"
	"github.com/ovh/kmip-go/ttlv"
)

type Kind struct {
	K    string `json:"k"`              // i8 i16 i32 u8 u16 u32 u64 i64 bool text bytes date interval big enum mask struct ptr slice iface any anystruct unsupported
	Tag  int    `json:"tag,omitempty"`  // enum / mask: the type's own tag
	Ref  int    `json:"ref,omitempty"`  // struct: id
	Elem *Kind  `json:"elem,omitempty"` // ptr, slice
	Why  string `json:"why,omitempty"`  // unsupported: reason
}

type Field struct {
	GoName     string `json:"go_name"`
	Tag        int    `json:"tag"`
	DynTag     bool   `json:"dyn_tag,omitempty"` // untagged interface field: tag of the dynamic type
	Kind       Kind   `json:"kind"`
	Omitempty  bool   `json:"omitempty,omitempty"`
	SetVersion bool   `json:"set_version,omitempty"`
	HasRange   bool   `json:"has_range,omitempty"`
	HasStart   bool   `json:"has_start,omitempty"`
	StartMajor int    `json:"start_major,omitempty"`
	StartMinor int    `json:"start_minor,omitempty"`
	HasEnd     bool   `json:"has_end,omitempty"`
	EndMajor   int    `json:"end_major,omitempty"`
	EndMinor   int    `json:"end_minor,omitempty"`
}

type StructDef struct {
	ID        int     `json:"id"`
	GoName    string  `json:"go_name"` // pkg.Type, informational (never part of a proof obligation)
	DefTag    int     `json:"def_tag"` // default tag of the type (0 if none)
	Fields    []Field `json:"fields"`
	EncCustom bool    `json:"enc_custom,omitempty"` // T or *T implements ttlv.TagEncodable
	DecCustom bool    `json:"dec_custom,omitempty"` // T or *T implements ttlv.TagDecodable
	Custom    string  `json:"custom,omitempty"`     // stable name of the hand-written codec, "" if reflective
}

// DynKind is a kind that can appear behind an interface (payloads, objects, attribute values).
type DynKind struct {
	ID     int    `json:"id"`
	GoType string `json:"go_type"`
	DefTag int    `json:"def_tag"`
	Kind   Kind   `json:"kind"`
}

type OpEntry struct {
	Op       uint32 `json:"op"`
	ReqDyn   int    `json:"req_dyn"`
	RespDyn  int    `json:"resp_dyn"`
	ReqOp    uint32 `json:"req_op"`  // Operation() reported by a fresh request payload
	RespOp   uint32 `json:"resp_op"` // Operation() reported by a fresh response payload
	ReqName  string `json:"req_name"`
	RespName string `json:"resp_name"`
}

type ObjEntry struct {
	ObjectType uint32 `json:"object_type"`
	Dyn        int    `json:"dyn"`
	Reported   uint32 `json:"reported"` // ObjectType() of a fresh instance
}

type AttrEntry struct {
	Name string `json:"name"`
	Dyn  int    `json:"dyn"`
}

type Schema struct {
	Structs  []StructDef    `json:"structs"`
	Dyns     []DynKind      `json:"dyns"`
	Ops      []OpEntry      `json:"ops"`
	Objects  []ObjEntry     `json:"objects"`
	Attrs    []AttrEntry    `json:"attrs"`
	AllAttrs []string       `json:"all_attrs"`
	Roots    map[string]int `json:"roots"` // "RequestMessage" / "ResponseMessage" -> dyn id
	Problems []string       `json:"problems"`

	structIDs map[reflect.Type]int
	dynIDs    map[reflect.Type]int
}

var (
	tTagEnc   = reflect.TypeFor[ttlv.TagEncodable]()
	tTagDec   = reflect.TypeFor[ttlv.TagDecodable]()
	tDuration = reflect.TypeFor[time.Duration]()
	tTime     = reflect.TypeFor[time.Time]()
	tBigInt   = reflect.TypeFor[big.Int]()
	tValue    = reflect.TypeFor[ttlv.Value]()
	tStruct   = reflect.TypeFor[ttlv.Struct]()
)

// customNames: the hand-written codecs the Lean model knows (Model/Custom.lean), by Go type.
var customNames = map[string]string{
	"kmip.RequestBatchItem":           "RequestBatchItem",
	"kmip.ResponseBatchItem":          "ResponseBatchItem",
	"kmip.CredentialValue":            "CredentialValue",
	"kmip.Credential":                 "Credential",
	"kmip.UnknownPayload":             "UnknownPayload",
	"kmip.Attribute":                  "Attribute",
	"kmip.KeyBlock":                   "KeyBlock",
	"kmip.KeyValue":                   "KeyValue",
	"kmip.KeyMaterial":                "KeyMaterial",
	"payloads.GetResponsePayload":     "GetResponsePayload",
	"payloads.RegisterRequestPayload": "RegisterRequestPayload",
	"payloads.ImportRequestPayload":   "ImportRequestPayload",
	"payloads.ExportResponsePayload":  "ExportResponsePayload",
}

func implEnc(t reflect.Type) bool {
	return t.Implements(tTagEnc) || reflect.PointerTo(t).Implements(tTagEnc)
}
func implDec(t reflect.Type) bool {
	return (t.Kind() != reflect.Interface && t.Implements(tTagDec)) || reflect.PointerTo(t).Implements(tTagDec)
}

func (s *Schema) problem(format string, a ...any) {
	s.Problems = append(s.Problems, fmt.Sprintf(format, a...))
}

// KindOf classifies a Go type the way the codec plans do (own table).
func (s *Schema) KindOf(t reflect.Type) Kind {
	switch t {
	case tValue:
		return Kind{K: "any"}
	case tStruct:
		return Kind{K: "anystruct"}
	}
	if t.Kind() == reflect.Pointer {
		e := t
		for e.Kind() == reflect.Pointer {
			e = e.Elem()
		}
		ek := s.KindOf(e)
		return Kind{K: "ptr", Elem: &ek}
	}
	if t.Kind() == reflect.Struct && t != tTime && t != tBigInt {
		return Kind{K: "struct", Ref: s.structID(t)}
	}
	if ttlv.VerifIsEnum(t) {
		tag, _ := ttlv.VerifTagForType(t)
		if t.Kind() != reflect.Uint32 {
			s.problem("enum type %s is not uint32", t)
		}
		return Kind{K: "enum", Tag: tag}
	}
	if ttlv.VerifIsBitmask(t) {
		tag, _ := ttlv.VerifTagForType(t)
		if t.Kind() != reflect.Int32 {
			s.problem("bitmask type %s is not int32", t)
		}
		return Kind{K: "mask", Tag: tag}
	}
	switch t {
	case tDuration:
		return Kind{K: "interval"}
	case tTime:
		return Kind{K: "date"}
	case tBigInt:
		return Kind{K: "big"}
	}
	if implEnc(t) || implDec(t) {
		return Kind{K: "unsupported", Why: "custom codec on non-struct type " + t.String()}
	}
	switch t.Kind() {
	case reflect.Uint8:
		return Kind{K: "u8"}
	case reflect.Uint16:
		return Kind{K: "u16"}
	case reflect.Uint32:
		return Kind{K: "u32"}
	case reflect.Uint64:
		return Kind{K: "u64"}
	case reflect.Int8:
		return Kind{K: "i8"}
	case reflect.Int16:
		return Kind{K: "i16"}
	case reflect.Int32:
		return Kind{K: "i32"}
	case reflect.Int64:
		return Kind{K: "i64"}
	case reflect.Bool:
		return Kind{K: "bool"}
	case reflect.String:
		return Kind{K: "text"}
	case reflect.Slice:
		if t.Elem().Kind() == reflect.Uint8 {
			return Kind{K: "bytes"}
		}
		ek := s.KindOf(t.Elem())
		return Kind{K: "slice", Elem: &ek}
	case reflect.Interface:
		return Kind{K: "iface"}
	}
	return Kind{K: "unsupported", Why: t.String()}
}

func typeName(t reflect.Type) string {
	p := t.PkgPath()
	if i := strings.LastIndex(p, "/"); i >= 0 {
		p = p[i+1:]
	}
	if p == "kmip-go" {
		p = "kmip"
	}
	return p + "." + t.Name()
}

// independent struct-tag parser (must agree with the library's getFieldInfo/getFieldTag).
type ownInfo struct {
	skip, omitempty, setVersion, hasRange, hasStart, hasEnd bool
	name                                                    string
	sMaj, sMin, eMaj, eMin                                  int
}

func parseVer(s string) (int, int, bool) {
	s = strings.TrimPrefix(s, "v")
	a, b, ok := strings.Cut(s, ".")
	if !ok {
		return 0, 0, false
	}
	x, e1 := strconv.Atoi(a)
	y, e2 := strconv.Atoi(b)
	return x, y, e1 == nil && e2 == nil
}

func ownParse(tag string) (ownInfo, error) {
	parts := strings.Split(tag, ",")
	o := ownInfo{name: parts[0]}
	if o.name == "-" {
		o.skip = true
		return o, nil
	}
	for _, p := range parts[1:] {
		switch {
		case p == "omitempty":
			o.omitempty = true
		case p == "set-version":
			o.setVersion = true
		case strings.HasPrefix(p, "version="):
			r := strings.TrimPrefix(p, "version=")
			o.hasRange = true
			if a, b, ok := strings.Cut(r, ".."); ok {
				if a != "" {
					var ok2 bool
					o.sMaj, o.sMin, ok2 = parseVer(a)
					o.hasStart = true
					if !ok2 {
						return o, fmt.Errorf("bad version %q", a)
					}
				}
				if b != "" {
					var ok2 bool
					o.eMaj, o.eMin, ok2 = parseVer(b)
					o.hasEnd = true
					if !ok2 {
						return o, fmt.Errorf("bad version %q", b)
					}
				}
			} else {
				var ok2 bool
				o.sMaj, o.sMin, ok2 = parseVer(r)
				o.eMaj, o.eMin = o.sMaj, o.sMin
				o.hasStart, o.hasEnd = true, true
				if !ok2 {
					return o, fmt.Errorf("bad version %q", r)
				}
			}
		default:
			return o, fmt.Errorf("unknown sub-tag %q", p)
		}
	}
	return o, nil
}

func (s *Schema) structID(t reflect.Type) int {
	if id, ok := s.structIDs[t]; ok {
		return id
	}
	id := len(s.Structs)
	s.structIDs[t] = id
	s.Structs = append(s.Structs, StructDef{ID: id, GoName: typeName(t)})
	def := StructDef{ID: id, GoName: typeName(t), EncCustom: implEnc(t), DecCustom: implDec(t)}
	if tg, ok := ttlv.VerifTagForType(t); ok {
		def.DefTag = tg
	}
	if def.EncCustom || def.DecCustom {
		def.Custom = customNames[def.GoName]
		if def.Custom == "" {
			s.problem("struct %s has a hand-written codec unknown to the model", def.GoName)
			def.Custom = "?" + def.GoName
		}
	}
	for i := 0; i < t.NumField(); i++ {
		f := t.Field(i)
		if !f.IsExported() {
			continue
		}
		raw, _ := f.Tag.Lookup("ttlv")
		own, err := ownParse(raw)
		if err != nil {
			s.problem("%s.%s: %v", def.GoName, f.Name, err)
		}
		var lib ttlv.VerifFieldInfo
		func() {
			defer func() {
				if r := recover(); r != nil {
					s.problem("%s.%s: library tag parser panicked: %v", def.GoName, f.Name, r)
				}
			}()
			lib = ttlv.VerifGetFieldInfo(f)
		}()
		if own.skip != lib.Skip || own.omitempty != lib.Omitempty || own.setVersion != lib.SetVersion || own.hasRange != lib.HasRange ||
			own.hasStart != lib.HasStart || own.hasEnd != lib.HasEnd || own.sMaj != lib.StartMajor || own.sMin != lib.StartMinor || own.eMaj != lib.EndMajor || own.eMin != lib.EndMinor {
			s.problem("%s.%s: independent struct-tag parser disagrees with the library's (%q)", def.GoName, f.Name, raw)
		}
		if lib.Skip {
			continue
		}
		fd := Field{GoName: f.Name, Tag: lib.Tag, Kind: s.KindOf(f.Type), Omitempty: lib.Omitempty, SetVersion: lib.SetVersion,
			HasRange: lib.HasRange, HasStart: lib.HasStart, StartMajor: lib.StartMajor, StartMinor: lib.StartMinor,
			HasEnd: lib.HasEnd, EndMajor: lib.EndMajor, EndMinor: lib.EndMinor}
		if lib.Tag == 0 {
			if f.Type.Kind() == reflect.Interface {
				fd.DynTag = true
			} else if !def.EncCustom {
				s.problem("%s.%s: no tag resolved for a non-interface field of a reflectively coded struct", def.GoName, f.Name)
			}
		}
		def.Fields = append(def.Fields, fd)
	}
	s.Structs[id] = def
	return id
}

// DynID registers a Go type that can sit behind an interface and returns its id.
func (s *Schema) DynID(t reflect.Type) int {
	if id, ok := s.dynIDs[t]; ok {
		return id
	}
	id := len(s.Dyns)
	s.dynIDs[t] = id
	s.Dyns = append(s.Dyns, DynKind{})
	d := DynKind{ID: id, GoType: t.String(), Kind: s.KindOf(t)}
	if tg, ok := ttlv.VerifTagForType(t); ok {
		d.DefTag = tg
	}
	s.Dyns[id] = d
	return id
}

// LookupDyn returns the id of a registered dynamic type.
func (s *Schema) LookupDyn(t reflect.Type) (int, bool) {
	id, ok := s.dynIDs[t]
	return id, ok
}

// StructIDOf returns the id of a walked struct type.
func (s *Schema) StructIDOf(t reflect.Type) (int, bool) {
	id, ok := s.structIDs[t]
	return id, ok
}

// Build walks everything reachable from the message roots and the dispatch tables.
func Build() *Schema {
	s := &Schema{structIDs: map[reflect.Type]int{}, dynIDs: map[reflect.Type]int{}, Roots: map[string]int{}}
	s.Roots["RequestMessage"] = s.DynID(reflect.TypeFor[*kmip.RequestMessage]())
	s.Roots["ResponseMessage"] = s.DynID(reflect.TypeFor[*kmip.ResponseMessage]())
	s.Roots["Value"] = s.DynID(tValue)
	for _, op := range kmip.VerifDumpOperations() {
		e := OpEntry{Op: uint32(op.Operation), ReqName: op.Request.String(), RespName: op.Response.String()}
		e.ReqDyn = s.DynID(reflect.PointerTo(op.Request))
		e.RespDyn = s.DynID(reflect.PointerTo(op.Response))
		func() {
			defer func() {
				if r := recover(); r != nil {
					s.problem("operation %d: payload factory panicked: %v", op.Operation, r)
				}
			}()
			e.ReqOp = uint32(kmip.VerifNewRequestPayload(op.Operation).Operation())
			e.RespOp = uint32(kmip.VerifNewResponsePayload(op.Operation).Operation())
			if reflect.TypeOf(kmip.VerifNewRequestPayload(op.Operation)) != reflect.PointerTo(op.Request) {
				s.problem("operation %d: request factory returns %T", op.Operation, kmip.VerifNewRequestPayload(op.Operation))
			}
			if reflect.TypeOf(kmip.VerifNewResponsePayload(op.Operation)) != reflect.PointerTo(op.Response) {
				s.problem("operation %d: response factory returns %T", op.Operation, kmip.VerifNewResponsePayload(op.Operation))
			}
		}()
		s.Ops = append(s.Ops, e)
	}
	s.DynID(reflect.TypeFor[*kmip.UnknownPayload]())
	for ot := uint32(0); ot < 64; ot++ {
		obj, err := kmip.NewObjectForType(kmip.ObjectType(ot))
		if err != nil {
			continue
		}
		s.Objects = append(s.Objects, ObjEntry{ObjectType: ot, Dyn: s.DynID(reflect.TypeOf(obj)), Reported: uint32(obj.ObjectType())})
	}
	for _, a := range kmip.VerifDumpAttrTypes() {
		s.Attrs = append(s.Attrs, AttrEntry{Name: string(a.Name), Dyn: s.DynID(a.Type)})
	}
	for _, n := range kmip.AllAttributeNames {
		s.AllAttrs = append(s.AllAttrs, string(n))
	}
	sort.Strings(s.Problems)
	return s
}
