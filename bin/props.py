"""Per-property configuration of bin/check.py: engines, proof module, level, required theorems."""

HOOK_COMMITS = ["cec8f7c"]

NOT_CLAIMED = {}

PROPS = {
    "C03": {
        "level": "proof",
        "level_text": "Lean 4 theorems over the byte-level model of ttlvWriter: for every in-range generic TTLV tree (any depth, any sibling count, any big integer) the encoding is 8-aligned, big integers are minimal 8-aligned two's complement, and an independent strict specification parser reads the encoding back to the same tree; the model is tied to the code by byte-for-byte differential runs on generated trees, and the spec parser to an independent Go parser.",
        "level_note": "Trusted: Lean kernel; the model enc/bigIntToBytes (validated against ttlv.MarshalTTLV on every run by the wire/big engines); math/big modelled; the harness's independent writer/parser. Lengths >= 2^32 are outside the theorem (the 32-bit length field wraps).",
        "technique": "Lean 4 proof (structural induction over nested TTLV trees, two's-complement carry-loop invariants) + differential correspondence",
        "engines": ["wire", "big"],
        "required_theorems": [
            "padForLen_spec", "encodeBig_twos", "encodeBig_shape", "bytesToBigInt_eq_twos",
            "bytesToBigInt_encodeBig", "enc_len8", "specParse_enc", "specParseList_enc",
            "specDecode_enc", "encodeBig_minimal",
        ],
        "assumptions": [
            "math/big.Int.Bytes/SetBytes/Neg/Sign behave as documented (modelled by natToBytesBE / beVal)",
            "the Lean model `enc` is the behaviour of ttlv.MarshalTTLV on ttlv.Value trees: checked on this run by the `wire`/`big` engines (equality of bytes for every generated tree)",
            "the Lean specification parser agrees with the harness's independent Go parser (engine line `wire.spec`)",
        ],
    },
}
