/-
  C18 (typed layer) — the ten hand-written decoders, assembled: `CustStep`.
-/
import KmipModel.Lemmas.PlanFixpoint5
import KmipModel.Lemmas.PlanFixpointCust1
import KmipModel.Lemmas.PlanFixpointCust2
import KmipModel.Lemmas.PlanFixpointCust3
namespace Kmip

theorem custStep (S : Schema) (N : Nat) (hU : S.unambiguous = true) (hX : FixOK S N) : CustStep S := by
  intro fd hK hD id tag c ver v c' ver' hdc hshape _ htag h hfd hg
  have hpay := hX.pay id
  simp only [Schema.payloadOK, hdc, Bool.true_and, Bool.and_eq_true, Bool.or_eq_true,
    Bool.not_eq_true', beq_eq_false_iff_ne, ne_eq, beq_iff_eq] at hpay
  by_cases h1 : (S.structDef id).custom = Cust.requestBatchItem
  · rw [h1] at h
    exact fcust_request S N hU hX fd hK hD id tag c ver v c' ver' hdc h1 hshape htag
      (hpay.1.resolve_left (fun hne => hne h1)) h hfd hg
  by_cases h2 : (S.structDef id).custom = Cust.responseBatchItem
  · rw [h2] at h
    exact fcust_response S N hU hX fd hK hD id tag c ver v c' ver' hdc h2 hshape htag
      (hpay.2.resolve_left (fun hne => hne h2)) h hfd hg
  by_cases h3 : (S.structDef id).custom = Cust.unknownPayload
  · rw [h3] at h
    exact fcust_unknown S N hU hX fd hK hD id tag c ver v c' ver' hdc h3 hshape htag h hfd hg
  by_cases h4 : (S.structDef id).custom = Cust.attr
  · rw [h4] at h
    exact fcust_attr S N hU hX fd hK hD id tag c ver v c' ver' hdc h4 hshape htag h hfd hg
  by_cases h5 : (S.structDef id).custom = Cust.credential
  · rw [h5] at h
    exact fcust_credential S N hU hX fd hK hD id tag c ver v c' ver' hdc h5 hshape htag h hfd hg
  by_cases h6 : (S.structDef id).custom = Cust.keyBlock
  · rw [h6] at h
    exact fcust_keyBlock S N hU hX fd hK hD id tag c ver v c' ver' hdc h6 hshape htag h hfd hg
  by_cases h7 : (S.structDef id).custom = Cust.getResponse
  · rw [h7] at h
    exact fcust_get S N hU hX fd hK hD id tag c ver v c' ver' hdc h7 hshape htag h hfd hg
  by_cases h8 : (S.structDef id).custom = Cust.registerRequest
  · rw [h8] at h
    exact fcust_register S N hU hX fd hK hD id tag c ver v c' ver' hdc h8 hshape htag h hfd hg
  by_cases h9 : (S.structDef id).custom = Cust.exportResponse
  · rw [h9] at h
    exact fcust_export S N hU hX fd hK hD id tag c ver v c' ver' hdc h9 hshape htag h hfd hg
  by_cases h10 : (S.structDef id).custom = Cust.importRequest
  · rw [h10] at h
    exact fcust_import S N hU hX fd hK hD id tag c ver v c' ver' hdc h10 hshape htag h hfd hg
  · exfalso
    unfold Schema.customShapeOK at hshape
    simp only [h1, h2, h3, h4, h5, h6, h7, h8, h9, h10, if_false] at hshape
    contradiction

end Kmip
