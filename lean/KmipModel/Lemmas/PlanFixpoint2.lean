/-
  C18 (typed layer) — stage 1: what the decoder returns for the leaf kinds is conforming (ranges of
  the wire integers), `ttlv.Value`/`ttlv.Struct`, pointers and slices.
-/
import KmipModel.Lemmas.PlanFixpoint
namespace Kmip

/-! ## Inversion of the scalar getters -/

theorem Cur.integer_inv {c c' : Cur} {tag : Nat} {x : Int} (h : c.integer tag = .ok (x, c')) :
    inInt 32 x := by
  unfold Cur.integer at h
  obtain ⟨it, rs, _, _, _, _, _, hconv⟩ := Cur.fixed_inv h
  obtain ⟨n, hn, hv⟩ := Res.bind_eq_ok hconv
  simp only [Res.pure_eq, Res.ok.injEq] at hv
  subst hv
  exact signedOfNat_inInt32 n (goU32_lt hn)

theorem Cur.longInteger_inv {c c' : Cur} {tag : Nat} {x : Int} (h : c.longInteger tag = .ok (x, c')) :
    inInt 64 x := by
  unfold Cur.longInteger at h
  obtain ⟨it, rs, _, _, _, _, _, hconv⟩ := Cur.fixed_inv h
  obtain ⟨n, hn, hv⟩ := Res.bind_eq_ok hconv
  simp only [Res.pure_eq, Res.ok.injEq] at hv
  subst hv
  exact signedOfNat_inInt64 n (goU64_lt hn)

theorem Cur.dateTime_inv {c c' : Cur} {tag : Nat} {x : Int} (h : c.dateTime tag = .ok (x, c')) :
    inInt 64 x := by
  unfold Cur.dateTime at h
  obtain ⟨it, rs, _, _, _, _, _, hconv⟩ := Cur.fixed_inv h
  obtain ⟨n, hn, hv⟩ := Res.bind_eq_ok hconv
  simp only [Res.pure_eq, Res.ok.injEq] at hv
  subst hv
  exact signedOfNat_inInt64 n (goU64_lt hn)

theorem Cur.enum_inv {c c' : Cur} {tag : Nat} {x : Nat} (h : c.enum tag = .ok (x, c')) :
    x < 2 ^ 32 := by
  unfold Cur.enum at h
  obtain ⟨it, rs, _, _, _, _, _, hconv⟩ := Cur.fixed_inv h
  exact goU32_lt hconv

theorem Cur.interval_inv {c c' : Cur} {tag : Nat} {x : Nat} (h : c.interval tag = .ok (x, c')) :
    x < 2 ^ 32 := by
  unfold Cur.interval at h
  obtain ⟨it, rs, _, _, _, _, _, hconv⟩ := Cur.fixed_inv h
  exact goU32_lt hconv

theorem isU32_cast {n : Nat} (h : n < 2 ^ 32) : isU32 (n : Int) = true := by
  rw [isU32_iff]; omega

/-! ## Scalars: the decoded value is conforming and already normal -/

theorem dec_scalar (S : Schema) (fd : Nat) (k : Kind) (hk : k.scalar = true) (hn : k.noNarrow = true)
    (tag : Nat) (c : Cur) (ver : Option Ver) (v : Val) (c' : Cur) (ver' : Option Ver)
    (h : decK S fd k tag c ver = .ok (v, c', ver')) :
    ver' = ver ∧ ∀ n w0, normK S (n + 1) k tag v w0 = some (v, w0) := by
  cases fd with
  | zero => rw [decK_zero] at h; contradiction
  | succ fd =>
    cases k <;> simp only [Kind.scalar] at hk <;> try contradiction
    all_goals (simp only [Kind.noNarrow] at hn; try contradiction)
    all_goals (simp only [decK] at h; obtain ⟨⟨x, c1⟩, h1, h2⟩ := Res.bind_eq_ok h)
    all_goals (simp only [Res.pure_eq, Res.ok.injEq, Prod.mk.injEq] at h2)
    all_goals (obtain ⟨rfl, rfl, rfl⟩ := h2)
    all_goals (refine ⟨rfl, fun n w0 => ?_⟩)
    case i32 => simp only [normK, if_pos (Cur.integer_inv h1)]
    case mask t => simp only [normK, if_pos (Cur.integer_inv h1)]
    case i64 => simp only [normK, if_pos (Cur.longInteger_inv h1)]
    case date => simp only [normK, if_pos (Cur.dateTime_inv h1)]
    case enum t => simp only [normK, isU32_cast (Cur.enum_inv h1), if_true]
    case interval => simp only [normK, isU32_cast (Cur.interval_inv h1), if_true]
    case bool => simp only [normK]
    case text => simp only [normK]
    case bytes => simp only [normK, Option.getD_some]
    case big => simp only [normK]

theorem obsRel_scalar (S : Schema) {k : Kind} (hk : k.scalar = true) (v w' : Val) : obsRel S k v w' := by
  cases k <;> simp only [Kind.scalar] at hk <;> first | contradiction | (unfold obsRel; trivial)

theorem plainKind_not_scalar {S : Schema} {k : Kind} (hk : k.scalar = true) : S.plainKind k = false := by
  cases k <;> simp only [Kind.scalar] at hk <;> first | contradiction | rfl

/-- the `FK` conclusion for a scalar kind, with the twin equal to the decoded value. -/
theorem fk_scalar (S : Schema) (fd : Nat) (k : Kind) (hk : k.scalar = true) (hn : k.noNarrow = true)
    (tag : Nat) (c : Cur) (ver : Option Ver) (v : Val) (c' : Cur) (ver' : Option Ver)
    (h : decK S fd k tag c ver = .ok (v, c', ver')) (n : Nat) (hd : v.edepth ≤ n) :
    ver' = ver ∧ ∃ it, normK S n k tag v ver = some (v, ver)
      ∧ encK S n k tag v ver = .ok ([it], ver) ∧ it.tag = tag
      ∧ (∀ w0, normK S n k tag v w0 = some (v, w0)) ∧ (∀ w0, encK S n k tag v w0 = .ok ([it], w0)) := by
  obtain ⟨rfl, hnorm⟩ := dec_scalar S fd k hk hn tag c ver v c' ver' h
  obtain ⟨m, rfl⟩ : ∃ m, n = m + 1 := ⟨n - 1, by have := Val.edepth_pos v; omega⟩
  obtain ⟨_, it, he, ht, _, _, _, _, _, hew, _⟩ := scalar_rt S m k hk tag v v ver' ver' (hnorm m ver')
  exact ⟨rfl, it, hnorm m ver', he, ht, fun w0 => hnorm m w0, hew⟩

theorem fk_of_scalar (S : Schema) (fd : Nat) (k : Kind) (hk : k.scalar = true) (hn : k.noNarrow = true)
    (tag : Nat) (c : Cur) (ver : Option Ver) (v : Val) (c' : Cur) (ver' : Option Ver)
    (h : decK S fd k tag c ver = .ok (v, c', ver')) (n : Nat) (hd : v.edepth ≤ n) :
    ∃ w w' items, normK S n k tag w ver = some (w', ver')
      ∧ encK S n k tag v ver = .ok (items, ver') ∧ encK S n k tag w ver = .ok (items, ver')
      ∧ Rel S k v w w' := by
  obtain ⟨rfl, it, hnm, he, _, _, _⟩ := fk_scalar S fd k hk hn tag c ver v c' ver' h n hd
  exact ⟨v, v, [it], hnm, he, he,
    ⟨fun _ => rfl, rfl, obsRel_scalar S hk v v⟩⟩

/-! ## `ttlv.Value`, `ttlv.Struct` -/

theorem decodeValue_tag : ∀ (fuel : Nat) (c : Cur) (tag : Nat) (t : Item) (c' : Cur),
    decodeValue fuel c tag = .ok (t, c') → t.tag = tag := by
  intro fuel c tag t c' h
  cases fuel with
  | zero => rw [decodeValue] at h; cases h
  | succ fuel =>
    rw [decodeValue] at h
    split at h
    all_goals first
      | (obtain ⟨⟨x, c1⟩, _, h2⟩ := Res.bind_eq_ok h
         simp only [Res.pure_eq, Res.ok.injEq, Prod.mk.injEq] at h2
         obtain ⟨rfl, _⟩ := h2
         rfl)
      | cases h

theorem fk_any (S : Schema) (fd : Nat) (tag : Nat) (c : Cur) (ver : Option Ver) (v : Val) (c' : Cur)
    (ver' : Option Ver) (h : decK S fd .any tag c ver = .ok (v, c', ver')) (n : Nat) (hd : v.edepth ≤ n) :
    ∃ w w' items, normK S n .any tag w ver = some (w', ver')
      ∧ encK S n .any tag v ver = .ok (items, ver') ∧ encK S n .any tag w ver = .ok (items, ver')
      ∧ Rel S .any v w w' := by
  cases fd with
  | zero => rw [decK_zero] at h; contradiction
  | succ fd =>
    simp only [decK] at h
    obtain ⟨⟨it, c1⟩, h1, h2⟩ := Res.bind_eq_ok h
    simp only [Res.pure_eq, Res.ok.injEq, Prod.mk.injEq] at h2
    obtain ⟨rfl, rfl, rfl⟩ := h2
    obtain ⟨m, rfl⟩ : ∃ m, n = m + 1 := ⟨n - 1, by have := Val.edepth_pos (.any (some it)); omega⟩
    have ht := decodeValue_tag fd c tag it c1 h1
    refine ⟨.any (some it), .any (some it), [it.withTag tag], ?_, encK_any .., encK_any ..,
      ⟨fun _ => rfl, rfl, by unfold obsRel; trivial⟩⟩
    rw [normK_any]; simp only [ht, if_true]

theorem fk_anyStruct (S : Schema) (fd : Nat) (tag : Nat) (c : Cur) (ver : Option Ver) (v : Val) (c' : Cur)
    (ver' : Option Ver) (h : decK S fd .anyStruct tag c ver = .ok (v, c', ver')) (n : Nat)
    (hd : v.edepth ≤ n) :
    ∃ w w' items, normK S n .anyStruct tag w ver = some (w', ver')
      ∧ encK S n .anyStruct tag v ver = .ok (items, ver') ∧ encK S n .anyStruct tag w ver = .ok (items, ver')
      ∧ Rel S .anyStruct v w w' := by
  cases fd with
  | zero => rw [decK_zero] at h; contradiction
  | succ fd =>
    simp only [decK] at h
    obtain ⟨⟨its, c1⟩, h1, h2⟩ := Res.bind_eq_ok h
    simp only [Res.pure_eq, Res.ok.injEq, Prod.mk.injEq] at h2
    obtain ⟨rfl, rfl, rfl⟩ := h2
    obtain ⟨m, rfl⟩ : ∃ m, n = m + 1 := ⟨n - 1, by have := Val.edepth_pos (.anyStruct its); omega⟩
    exact ⟨.anyStruct its, .anyStruct its, [.struct tag its], by rw [normK_anyStruct], encK_anyStruct ..,
      encK_anyStruct .., ⟨fun _ => rfl, rfl, by unfold obsRel; trivial⟩⟩

/-! ## Kinds: small facts -/

theorem definite_cases {k : Kind} (h : k.definite = true) :
    k.scalar = true ∨ k = .any ∨ k = .anyStruct ∨ ∃ id, k = .struct id := by
  cases k <;> simp_all [Kind.definite, Kind.scalar]

theorem definite_shapeOK {k : Kind} (h : k.definite = true) : k.shapeOK = true := by
  cases k <;> simp_all [Kind.definite, Kind.scalar, Kind.shapeOK]

theorem definite_base {k : Kind} (h : k.definite = true) : k.base = k := by
  cases k <;> simp_all [Kind.definite, Kind.scalar, Kind.base]

theorem decodable_of_ptr {S : Schema} {k : Kind} (hd : k.definite = true)
    (h : S.decodable (.ptr k) = true) : S.decodable k = true := by
  unfold Schema.decodable at h ⊢
  rw [definite_base hd]; exact h

theorem decodable_of_slice {S : Schema} {k : Kind} (hd : k.definite = true)
    (h : S.decodable (.slice k) = true) : S.decodable k = true := by
  unfold Schema.decodable at h ⊢
  rw [definite_base hd]; exact h

/-! ## Pointers -/

theorem fk_ptr (S : Schema) (fd : Nat) (hK : FK S fd) (k' : Kind) (hdef : k'.definite = true)
    (hdec : S.decodable k' = true) (hnn : k'.noNarrow = true)
    (tag : Nat) (htg : S.kindTagOK k' tag = true) (c : Cur) (ver : Option Ver) (v : Val) (c' : Cur) (ver' : Option Ver)
    (h : decK S (fd + 1) (.ptr k') tag c ver = .ok (v, c', ver')) (hfd : v.edepth ≤ fd + 1)
    (hg : goodU S (.ptr k') v = true) (n : Nat) (hd : v.edepth ≤ n) :
    ∃ w w' items, normK S n (.ptr k') tag w ver = some (w', ver')
      ∧ encK S n (.ptr k') tag v ver = .ok (items, ver') ∧ encK S n (.ptr k') tag w ver = .ok (items, ver')
      ∧ Rel S (.ptr k') v w w' := by
  simp only [decK] at h
  split at h
  · simp only [Res.ok.injEq, Prod.mk.injEq] at h
    obtain ⟨rfl, rfl, rfl⟩ := h
    obtain ⟨m, rfl⟩ : ∃ m, n = m + 1 := ⟨n - 1, by have := Val.edepth_pos (.ptr none); omega⟩
    exact ⟨.ptr none, .ptr none, [], by rw [normK_ptr], encK_ptr_none .., encK_ptr_none ..,
      ⟨fun _ => rfl, rfl, by unfold obsRel; trivial⟩⟩
  · obtain ⟨⟨x, c1, ver1⟩, h1, h2⟩ := Res.bind_eq_ok h
    simp only [Res.pure_eq, Res.ok.injEq, Prod.mk.injEq] at h2
    obtain ⟨rfl, rfl, rfl⟩ := h2
    obtain ⟨m, rfl⟩ : ∃ m, n = m + 1 := ⟨n - 1, by have := Val.edepth_pos (.ptr (some x)); omega⟩
    have hx : x.edepth ≤ m := by rw [Val.edepth] at hd; omega
    have hxf : x.edepth ≤ fd := by rw [Val.edepth] at hfd; omega
    have hgx : goodU S k' x = true := by simpa [goodU] using hg
    obtain ⟨wx, wx', items, hnm, he, hew, hrel⟩ :=
      hK k' tag c ver x _ _ hdec (definite_shapeOK hdef) hnn htg h1 hxf hgx m hx
    refine ⟨.ptr (some wx), .ptr (some wx'), items, ?_, ?_, ?_,
      ⟨fun _ => rfl, rfl, by unfold obsRel; trivial⟩⟩
    · rw [normK_ptr]; simp only [hdef, if_true, hnm]
    · rw [encK_ptr_some]; exact he
    · rw [encK_ptr_some]; exact hew

/-! ## Slices -/

theorem flist_succ (S : Schema) (fd : Nat) (hK : FK S fd) (hL : FList S fd) : FList S (fd + 1) := by
  intro k tag c ver vs c' ver' hdec hdef hnn htg h hfd hg n hd
  rw [decList] at h
  split at h
  · simp only [Res.ok.injEq, Prod.mk.injEq] at h
    obtain ⟨rfl, rfl, rfl⟩ := h
    obtain ⟨m, rfl⟩ : ∃ m, n = m + 1 := ⟨n - 1, by have := Val.edepthList_pos []; omega⟩
    exact ⟨[], [], [], normSlice_nil .., encSlice_nil .., encSlice_nil .., rfl, fun _ _ _ => rfl⟩
  · obtain ⟨⟨x, c1, ver1⟩, h1, h2⟩ := Res.bind_eq_ok h
    obtain ⟨⟨xs, c2, ver2⟩, h3, h4⟩ := Res.bind_eq_ok h2
    simp only [Res.pure_eq, Res.ok.injEq, Prod.mk.injEq] at h4
    obtain ⟨rfl, rfl, rfl⟩ := h4
    obtain ⟨m, rfl⟩ : ∃ m, n = m + 1 := ⟨n - 1, by have := Val.edepthList_pos (x :: xs); omega⟩
    rw [Val.edepthList] at hd hfd
    have hx : x.edepth ≤ m := by omega
    have hxs : Val.edepthList xs ≤ m := by omega
    simp only [goodAll, Bool.and_eq_true] at hg
    obtain ⟨wx, wx', a, hnm, he, hew, hrel⟩ :=
      hK k tag c ver x c1 ver1 hdec (definite_shapeOK hdef) hnn htg h1 (by omega) hg.1 m hx
    obtain ⟨ws, ws', b, hnm2, he2, hew2, hlen, hobs⟩ :=
      hL k tag c1 ver1 xs c2 ver2 hdec hdef hnn htg h3 (by omega) hg.2 m hxs
    refine ⟨wx :: ws, wx' :: ws', a ++ b, ?_, ?_, ?_, by simp [hlen], ?_⟩
    · rw [normSlice_cons]; simp only [hnm, hnm2]
    · rw [encSlice_cons]; simp only [he, Res.ok_bind, he2, Res.pure_eq]
    · rw [encSlice_cons]; simp only [hew, Res.ok_bind, hew2, Res.pure_eq]
    · intro id hid hattr
      subst hid
      have h1 := hrel.obs
      unfold obsRel at h1
      simp only [List.map_cons, h1 hattr, hobs id rfl hattr]

theorem flist_zero (S : Schema) : FList S 0 := by
  intro k tag c ver vs c' ver' _ _ _ _ h
  rw [decList] at h; cases h

theorem fk_slice (S : Schema) (fd : Nat) (hL : FList S fd) (k' : Kind) (hdef : k'.definite = true)
    (hdec : S.decodable k' = true) (hnn : k'.noNarrow = true)
    (tag : Nat) (htg : S.kindTagOK k' tag = true) (c : Cur) (ver : Option Ver) (v : Val) (c' : Cur) (ver' : Option Ver)
    (h : decK S (fd + 1) (.slice k') tag c ver = .ok (v, c', ver')) (hfd : v.edepth ≤ fd + 1)
    (hg : goodU S (.slice k') v = true) (n : Nat) (hd : v.edepth ≤ n) :
    ∃ w w' items, normK S n (.slice k') tag w ver = some (w', ver')
      ∧ encK S n (.slice k') tag v ver = .ok (items, ver') ∧ encK S n (.slice k') tag w ver = .ok (items, ver')
      ∧ Rel S (.slice k') v w w' := by
  simp only [decK] at h
  obtain ⟨⟨xs, c1, ver1⟩, h1, h2⟩ := Res.bind_eq_ok h
  simp only [Res.pure_eq, Res.ok.injEq, Prod.mk.injEq] at h2
  obtain ⟨rfl, rfl, rfl⟩ := h2
  obtain ⟨m, rfl⟩ : ∃ m, n = m + 1 := ⟨n - 1, by have := Val.edepth_pos (.list xs); omega⟩
  have hx : Val.edepthList xs ≤ m := by rw [Val.edepth] at hd; omega
  have hxf : Val.edepthList xs ≤ fd := by rw [Val.edepth] at hfd; omega
  have hgx : goodAll S k' xs = true := by simpa [goodU] using hg
  obtain ⟨ws, ws', items, hnm, he, hew, hlen, hobs⟩ :=
    hL k' tag c ver xs _ _ hdec hdef hnn htg h1 hxf hgx m hx
  refine ⟨.list ws, .list ws', items, ?_, ?_, ?_, ⟨fun _ => ?_, rfl, ?_⟩⟩
  · rw [normK_slice]; simp only [hdef, if_true, hnm]
  · rw [encK_slice]; exact he
  · rw [encK_slice]; exact hew
  · simp only [Val.isZero]
    cases ws <;> cases xs <;> simp_all
  · cases k' with
    | struct id =>
      unfold obsRel
      intro hattr
      exact ⟨xs, ws', rfl, rfl, hobs id rfl hattr⟩
    | _ => unfold obsRel; trivial

end Kmip
