/-
  Helper lemmas about `KmipModel.Model.Lex` (property C04, also C18): the `strconv` / `encoding/hex`
  numeral round trips, the per-scalar lexical round trips of both text back ends, the element layer, and
  the tree-level round trips `xDecodeValue_write` / `jDecodeValue_write`.
-/
import KmipModel.Model.Lex
import KmipModel.Lemmas.ReaderLemmas
import KmipModel.Lemmas.RegistryLemmas
import KmipModel.Lemmas.BigIntLemmas
namespace Kmip.Lex
open Kmip Kmip.Reg

/-! ## 0. `bigIntToBytes(v, padding)` for every padding
    (the statements of `Kmip.Key.twos_bigBytes` … in `Lemmas/KeyAccessLemmas.lean`, repeated for this
    model's own `bigBytes` so that C04 does not depend on the C14 files) -/

theorem byte_of_nibbles (b : UInt8) : (b.toNat / 16 * 16 + b.toNat % 16).toUInt8 = b := by
  have e : b.toNat / 16 * 16 + b.toNat % 16 = b.toNat := by omega
  rw [e, ← UInt8.toNat_inj]
  simp

def effPad (p : Nat) : Nat := if p < 1 then 1 else p

theorem effPad_pos (p : Nat) : 0 < effPad p := by unfold effPad; split <;> omega

def posPadG (p : Nat) (mag : Bytes) : Nat :=
  if ¬ mag.headD 0 < 0x80 ∧ padForLen mag.length (effPad p) = 0 then effPad p
  else padForLen mag.length (effPad p)

def negPadG (p : Nat) (b : Bytes) : Nat :=
  if b.headD 0 < 0x80 ∧ padForLen b.length (effPad p) = 0 then effPad p
  else padForLen b.length (effPad p)

theorem bigBytes_zero (p : Nat) : bigBytes 0 p = List.replicate (effPad p) 0 := by
  simp [bigBytes, bigIntToBytes, effPad]

theorem bigBytes_pos (v : Int) (p : Nat) (h : 0 < v) :
    bigBytes v p = List.replicate (posPadG p (natToBytesBE v.natAbs)) 0 ++ natToBytesBE v.natAbs := by
  have h1 : ¬ v < 0 := by omega
  have h2 : ¬ v = 0 := by omega
  have e : ((0 : UInt8) &&& 1) = 0 := by decide
  simp only [bigBytes, bigIntToBytes, h1, h2, if_false, posPadG, effPad, e]
  simp only [ne_eq, UInt8.topbit_zero_iff]
  simp

theorem bigBytes_neg (v : Int) (p : Nat) (h : v < 0) :
    bigBytes v p = List.replicate (negPadG p (negBody v)) 0xFF ++ negBody v := by
  have e : ((0xFF : UInt8) &&& 1) = 1 := by decide
  have e2 : ∀ x : UInt8, (¬ ((x >>> 7) &&& 1 = 1)) ↔ x < 0x80 := by
    intro x; rw [UInt8.topbit_one_iff]; exact Decidable.not_not
  simp only [bigBytes, bigIntToBytes, h, if_true, negPadG, effPad, e]
  simp only [e2, ← negBody.eq_1, negBody_length]

theorem posPadG_head (p : Nat) (mag : Bytes) : 0 < posPadG p mag ∨ mag.headD 0 < 0x80 := by
  unfold posPadG
  by_cases h : mag.headD 0 < 0x80
  · exact Or.inr h
  · left
    have := effPad_pos p
    by_cases hp : padForLen mag.length (effPad p) = 0
    · rw [if_pos ⟨h, hp⟩]; exact this
    · rw [if_neg (fun hc => hp hc.2)]; omega

theorem negPadG_head (p : Nat) (b : Bytes) : 0 < negPadG p b ∨ ¬ b.headD 0 < 0x80 := by
  unfold negPadG
  by_cases h : b.headD 0 < 0x80
  · left
    have := effPad_pos p
    by_cases hp : padForLen b.length (effPad p) = 0
    · rw [if_pos ⟨h, hp⟩]; exact this
    · rw [if_neg (fun hc => hp hc.2)]; omega
  · exact Or.inr h

/-- for every padding the written bytes are a two's complement encoding of the value. -/
theorem twos_bigBytes (v : Int) (p : Nat) : twos (bigBytes v p) = v := by
  rcases Int.lt_trichotomy v 0 with h | h | h
  · rw [bigBytes_neg v p h, twos_pad_ff _ _ (negBody_ne_nil v h) (negPadG_head _ _), negBody_length]
    have hn : v.natAbs ≠ 0 := by omega
    have := beVal_negEnc (natToBytesBE v.natAbs) (by rw [beVal_natToBytesBE]; exact hn)
    rw [beVal_natToBytesBE] at this
    unfold negBody
    omega
  · subst h
    rw [bigBytes_zero]
    have := twos_pad_zero (effPad p) [] (Or.inl (effPad_pos p))
    simpa using this
  · rw [bigBytes_pos v p h, twos_pad_zero _ _ (posPadG_head _ _), beVal_natToBytesBE]
    omega

theorem bigBytes_ne_nil (v : Int) (p : Nat) : bigBytes v p ≠ [] := by
  rcases Int.lt_trichotomy v 0 with h | h | h
  · rw [bigBytes_neg v p h]
    have := negBody_ne_nil v h
    simp [this]
  · subst h
    rw [bigBytes_zero]
    have := effPad_pos p
    intro e
    have := congrArg List.length e
    simp at this
    omega
  · rw [bigBytes_pos v p h]
    have := natToBytesBE_ne_nil (n := v.natAbs) (by omega)
    simp [this]

theorem encodeBig_eq_bigBytes (v : Int) : encodeBig v = bigBytes v 8 := rfl

theorem bytesToBigInt_bigBytes (v : Int) (p : Nat) : bytesToBigInt (bigBytes v p) = v := by
  rw [bytesToBigInt_eq_twos_aux _ (bigBytes_ne_nil v p), twos_bigBytes]

/-! ## 1. decimal numerals -/

theorem natDigits_acc (f n : Nat) (acc : Str) : natDigits f n acc = natDigits f n [] ++ acc := by
  induction f generalizing n acc with
  | zero => simp [natDigits]
  | succ f ih =>
    simp only [natDigits]
    by_cases h : n < 10
    · simp [h]
    · simp only [h, if_false]
      rw [ih (n / 10) ((48 + n % 10) :: acc), ih (n / 10) [48 + n % 10]]
      simp

theorem digitVal_dec {d : Nat} (h : d < 10) : digitVal (48 + d) = some d := by
  have : ∀ d, d < 10 → digitVal (48 + d) = some d := by decide
  exact this d h

theorem parseDigits_dec_single {d : Nat} (h : d < 10) (a : Nat) :
    parseDigits 10 [48 + d] a = some (a * 10 + d) := by
  simp [parseDigits, digitVal_dec h, h]

/-- the digit loop reads back what `natDigits` wrote (enough fuel: `n < 2 ^ f`). -/
theorem parseDigits_natDigits (f : Nat) : ∀ n, n < 2 ^ f → parseDigits 10 (natDigits f n []) 0 = some n := by
  induction f with
  | zero => intro n h; have : n = 0 := by simpa using h
            subst this; simp [natDigits, parseDigits]
  | succ f ih =>
    intro n h
    simp only [natDigits]
    by_cases h10 : n < 10
    · simp only [h10, if_true]
      have := parseDigits_dec_single h10 0
      simpa using this
    · simp only [h10, if_false]
      rw [natDigits_acc, Reg.parseDigits_append]
      have hlt : n / 10 < 2 ^ f := by
        have : n < 2 * 2 ^ f := by rw [Nat.pow_succ] at h; omega
        omega
      rw [ih _ hlt]
      simp only
      rw [parseDigits_dec_single (Nat.mod_lt _ (by decide))]
      congr 1; omega

theorem natDigits_range (f : Nat) : ∀ n acc, (∀ c ∈ acc, 48 ≤ c ∧ c ≤ 57) →
    ∀ c ∈ natDigits f n acc, 48 ≤ c ∧ c ≤ 57 := by
  induction f with
  | zero => intro n acc h; simpa [natDigits] using h
  | succ f ih =>
    intro n acc h
    simp only [natDigits]
    by_cases h10 : n < 10
    · simp only [h10, if_true]
      intro c hc
      rcases List.mem_cons.mp hc with rfl | hc
      · omega
      · exact h c hc
    · simp only [h10, if_false]
      apply ih
      intro c hc
      rcases List.mem_cons.mp hc with rfl | hc
      · have := Nat.mod_lt n (show 0 < 10 by decide); omega
      · exact h c hc

theorem natDigits_ne_nil (f n : Nat) (acc : Str) : natDigits (f + 1) n acc ≠ [] := by
  induction f generalizing n acc with
  | zero =>
    simp only [natDigits]
    by_cases h : n < 10 <;> simp [h, natDigits]
  | succ f ih =>
    rw [natDigits]
    by_cases h : n < 10
    · simp [h]
    · simp only [h, if_false]; exact ih _ _

theorem lt_two_pow_log2_succ (n : Nat) : n < 2 ^ (n.log2 + 1) := by
  by_cases h : n = 0
  · subst h; decide
  · exact (Nat.log2_lt h).mp (Nat.lt_succ_self _)

theorem parseDigits_utoa (n : Nat) : parseDigits 10 (utoa n) 0 = some n :=
  parseDigits_natDigits _ n (lt_two_pow_log2_succ n)

theorem utoa_range (n : Nat) : ∀ c ∈ utoa n, 48 ≤ c ∧ c ≤ 57 :=
  natDigits_range _ n [] (by simp)

theorem utoa_ne_nil (n : Nat) : utoa n ≠ [] := natDigits_ne_nil _ n []

/-- a text all of whose characters are decimal digits is not of the `0x…` form. -/
theorem no0x_of_digits {s : Str} (h : ∀ c ∈ s, 48 ≤ c ∧ c ≤ 57) : ∀ rest, s ≠ 48 :: 120 :: rest := by
  intro rest e
  have := h 120 (by rw [e]; simp)
  omega

theorem parseUint_utoa {bits n : Nat} (h : n < 2 ^ bits) : parseUint 10 bits (utoa n) = some n := by
  unfold parseUint
  cases hx : utoa n with
  | nil => exact absurd hx (utoa_ne_nil n)
  | cons c cs =>
    have := parseDigits_utoa n
    rw [hx] at this
    simp only [this, h, if_true]

theorem parseInt_utoa {bits n : Nat} (h : n < 2 ^ (bits - 1)) :
    parseInt 10 bits (utoa n) = some (n : Int) := by
  unfold parseInt
  cases hx : utoa n with
  | nil => exact absurd hx (utoa_ne_nil n)
  | cons c cs =>
    have hc := utoa_range n c (by rw [hx]; exact List.mem_cons_self)
    have h43 : (c == 43) = false := by simp; omega
    have h45 : (c == 45) = false := by simp; omega
    have hp := parseDigits_utoa n
    rw [hx] at hp
    simp only [h43, h45, Bool.or_self, Bool.false_eq_true, if_false, hp, h, if_true]

theorem parseInt_neg_utoa {bits n : Nat} (h : n ≤ 2 ^ (bits - 1)) :
    parseInt 10 bits (45 :: utoa n) = some (-(n : Int)) := by
  unfold parseInt
  cases hx : utoa n with
  | nil => exact absurd hx (utoa_ne_nil n)
  | cons c cs =>
    have hp := parseDigits_utoa n
    rw [hx] at hp
    simp [hp, h]

/-- `ParseInt(Itoa(v), 10, bits) = v` for every `v` of the signed `bits`-bit range. -/
theorem parseInt_itoa {bits : Nat} {v : Int} (hlo : -((2 ^ (bits - 1) : Nat) : Int) ≤ v)
    (hhi : v < ((2 ^ (bits - 1) : Nat) : Int)) : parseInt 10 bits (itoa v) = some v := by
  unfold itoa
  by_cases hneg : v < 0
  · simp only [hneg, if_true]
    have : v.natAbs ≤ 2 ^ (bits - 1) := by omega
    rw [parseInt_neg_utoa this]
    congr 1; omega
  · simp only [hneg, if_false]
    have : v.natAbs < 2 ^ (bits - 1) := by omega
    rw [parseInt_utoa this]
    congr 1; omega

theorem itoa_no0x (v : Int) : ∀ rest, itoa v ≠ 48 :: 120 :: rest := by
  unfold itoa
  by_cases hneg : v < 0
  · simp only [hneg, if_true]; intro rest e; simp at e
  · simp only [hneg, if_false]; exact no0x_of_digits (utoa_range _)

theorem goParseInt_of_no0x {bits : Nat} {s : Str} (h : ∀ rest, s ≠ 48 :: 120 :: rest) :
    goParseInt bits s = parseInt 10 bits s := by
  unfold goParseInt
  split
  · exact absurd rfl (h _)
  · rfl

theorem goParseUint_of_no0x {bits : Nat} {s : Str} (h : ∀ rest, s ≠ 48 :: 120 :: rest) :
    goParseUint bits s = parseUint 10 bits s := by
  unfold goParseUint
  split
  · exact absurd rfl (h _)
  · rfl

theorem goParseInt_itoa {bits : Nat} {v : Int} (hlo : -((2 ^ (bits - 1) : Nat) : Int) ≤ v)
    (hhi : v < ((2 ^ (bits - 1) : Nat) : Int)) : goParseInt bits (itoa v) = some v := by
  rw [goParseInt_of_no0x (itoa_no0x v), parseInt_itoa hlo hhi]

theorem goParseUint_utoa {bits n : Nat} (h : n < 2 ^ bits) : goParseUint bits (utoa n) = some n := by
  rw [goParseUint_of_no0x (no0x_of_digits (utoa_range n)), parseUint_utoa h]

/-! ## 2. hexadecimal -/

theorem digitVal_hexDigitLo : ∀ d, d < 16 → digitVal (hexDigitLo d) = some d := by decide

theorem parseDigits_hexFixedLo (k v acc : Nat) :
    parseDigits 16 (hexFixedLo k v) acc = some (acc * 16 ^ k + v % 16 ^ k) := by
  induction k generalizing v acc with
  | zero => simp [hexFixedLo, parseDigits, Nat.mod_one]
  | succ k ih =>
    have hd : v % 16 < 16 := Nat.mod_lt _ (by decide)
    simp only [hexFixedLo]
    rw [Reg.parseDigits_append, ih]
    simp only [parseDigits, digitVal_hexDigitLo _ hd, hd, if_true]
    congr 1
    rw [Nat.pow_succ, hexStep_aux]

theorem hexFixedLo_length (k v : Nat) : (hexFixedLo k v).length = k := by
  induction k generalizing v with
  | zero => simp [hexFixedLo]
  | succ k ih => simp [hexFixedLo, ih]

/-- `ParseUint(fmt("%016x", u), 16, 64) = u` for every 64-bit pattern. -/
theorem parseUint_hex16Lo {u : Nat} (hu : u < 2 ^ 64) : parseUint 16 64 (hexFixedLo 16 u) = some u := by
  have h16 : u < 16 ^ 16 := by simpa using hu
  have hp := parseDigits_hexFixedLo 16 u 0
  rw [Nat.mod_eq_of_lt h16, Nat.zero_mul, Nat.zero_add] at hp
  unfold parseUint
  cases hx : hexFixedLo 16 u with
  | nil =>
    have := hexFixedLo_length 16 u
    rw [hx] at this; simp at this
  | cons c cs =>
    rw [hx] at hp
    simp only [hp, hu, if_true]

theorem nibble_hexDigit : ∀ d, d < 16 → nibble (Reg.hexDigit d) = some d := by decide
theorem nibble_hexDigitLo : ∀ d, d < 16 → nibble (hexDigitLo d) = some d := by decide

theorem hexDec_hexUp (bs : Bytes) : hexDec (hexUp bs) = some bs := by
  induction bs with
  | nil => rfl
  | cons b bs ih =>
    have h1 : b.toNat / 16 < 16 := by have := b.toNat_lt; omega
    have h2 : b.toNat % 16 < 16 := Nat.mod_lt _ (by decide)
    simp only [hexUp, hexDec, nibble_hexDigit _ h1, nibble_hexDigit _ h2, ih, byte_of_nibbles]

theorem hexDec_hexLo (bs : Bytes) : hexDec (hexLo bs) = some bs := by
  induction bs with
  | nil => rfl
  | cons b bs ih =>
    have h1 : b.toNat / 16 < 16 := by have := b.toNat_lt; omega
    have h2 : b.toNat % 16 < 16 := Nat.mod_lt _ (by decide)
    simp only [hexLo, hexDec, nibble_hexDigitLo _ h1, nibble_hexDigitLo _ h2, ih, byte_of_nibbles]

theorem bigOfHex_of_dec {s : Str} {bs : Bytes} (h : hexDec s = some bs) (hne : bs ≠ []) :
    bigOfHex s = .ok (bytesToBigInt bs) := by
  unfold bigOfHex
  rw [h]
  cases bs with
  | nil => exact absurd rfl hne
  | cons b r => rfl

theorem bytesOfStr_strOfBytes (bs : Bytes) : bytesOfStr (strOfBytes bs) = bs := by
  induction bs with
  | nil => rfl
  | cons b bs ih =>
    simp only [strOfBytes, bytesOfStr, List.map_cons, List.map_map] at ih ⊢
    rw [ih]
    congr 1
    exact UInt8.toNat_inj.mp (by simp)

theorem parseBool_formatBool (b : Bool) : parseBool (formatBool b) = some b := by
  cases b <;> decide

/-! ## 3. hypotheses on the parameters -/

/-- what the theorems assume of the registries — the C17 conditions, discharged for the generated
    registry by `Kmip.C17.tags_bijective`, `tags_clean`, `enums_bijective`, `masks_ok`. -/
structure Tables.WF (T : Tables) : Prop where
  newTags : T.oldTags = false
  tags : bijective T.tagNames T.tagByName = true
  tagsClean : cleanNames T.tagNames = true
  enums : ∀ e ∈ T.enums, bijective e.2.1 e.2.2 = true ∧ cleanNames e.2.1 = true
  masks : ∀ m ∈ T.masks, MaskOk m.2.1 m.2.2

/-- what the theorems assume of `time.Format / time.Parse(time.RFC3339)` and of the readers' year test:
    an instant whose local year is within 0..9999 (`inYears`) is formatted to a text that parses back to
    it and that does not begin with `0x` (it begins with the four digits of the year); the years 1..9999
    of the property (UTC seconds `minEpoch … maxEpoch`) pass the test. -/
structure Rfc3339.Lawful (R : Rfc3339) : Prop where
  roundtrip : ∀ s, R.inYears s = true → R.parse (R.format s) = some s
  no0x : ∀ s, R.inYears s = true → ∀ rest, R.format s ≠ 48 :: 120 :: rest
  years : ∀ s, minEpoch ≤ s → s ≤ maxEpoch → R.inYears s = true

theorem Tables.WF.enum (h : T.WF) (g : Int) :
    bijective (enumByV T g) (enumByN T g) = true ∧ cleanNames (enumByV T g) = true := by
  unfold enumByV enumByN
  by_cases hg : g < 0
  · simp only [hg, if_true]; exact ⟨rfl, rfl⟩
  · simp only [hg, if_false]
    exact enum_forall (P := fun bv bn => bijective bv bn = true ∧ cleanNames bv = true) ⟨rfl, rfl⟩
      h.enums _

theorem maskOk_nil : MaskOk [] [] := ⟨fun j hj => by simp at hj, fun j hj => by simp at hj⟩

theorem Tables.WF.mask (h : T.WF) (g : Int) : MaskOk (maskNs T g) (maskByN T g) := by
  unfold maskNs maskByN
  by_cases hg : g < 0
  · simp only [hg, if_true]; exact maskOk_nil
  · simp only [hg, if_false]
    exact mask_forall (P := fun ns bn => MaskOk ns bn) maskOk_nil h.masks _

/-! ## 4. per-scalar round trips, XML -/

theorem int32Ok_iff {v : Int} : int32Ok v = true ↔ -2147483648 ≤ v ∧ v ≤ 2147483647 := by
  simp [int32Ok]
theorem int64Ok_iff {v : Int} : int64Ok v = true ↔ -9223372036854775808 ≤ v ∧ v ≤ 9223372036854775807 := by
  simp [int64Ok]

theorem goParseInt32_itoa {v : Int} (h : int32Ok v = true) : goParseInt 32 (itoa v) = some v := by
  have ⟨h1, h2⟩ := int32Ok_iff.mp h
  exact goParseInt_itoa (bits := 32) (by simp; omega) (by simp; omega)

theorem goParseInt64_itoa {v : Int} (h : int64Ok v = true) : goParseInt 64 (itoa v) = some v := by
  have ⟨h1, h2⟩ := int64Ok_iff.mp h
  exact goParseInt_itoa (bits := 64) (by simp; omega) (by simp; omega)

theorem toInt32_id {v : Int} (h : int32Ok v = true) : toInt32 v = v := by
  have ⟨h1, h2⟩ := int32Ok_iff.mp h
  exact signed_unsigned32 v h1 (by omega)

/-- Integer, every int32. -/
theorem xInteger_itoa {v : Int} (h : int32Ok v = true) : xInteger (itoa v) = .ok v := by
  unfold xInteger
  rw [goParseInt32_itoa h]; dsimp only; rw [toInt32_id h]

/-- LongInteger, every int64. -/
theorem xLong_itoa {v : Int} (h : int64Ok v = true) : xLong (itoa v) = .ok v := by
  unfold xLong
  rw [goParseInt64_itoa h]; rfl

/-- BigInteger, every integer. -/
theorem bigOfHex_xml (v : Int) : bigOfHex (hexUp (bigBytes v 1)) = .ok v := by
  rw [bigOfHex_of_dec (hexDec_hexUp _) (bigBytes_ne_nil v 1), bytesToBigInt_bigBytes]

/-- Enumeration, every uint32, any tables satisfying the C17 conditions. -/
theorem xEnum_text {byValue byName : Table} (hb : bijective byValue byName = true)
    (hc : cleanNames byValue = true) {v : Nat} (hv : v < 2 ^ 32) :
    xEnum byName (enumToText byValue v) = .ok v := by
  unfold xEnum
  rw [enumReader_roundtrip hb hc hv]; rfl

theorem xBool_format (b : Bool) : xBool (formatBool b) = .ok b := by
  unfold xBool; rw [parseBool_formatBool]; rfl

theorem xText_str (s : Bytes) : xText (strOfBytes s) = .ok s := by
  unfold xText; rw [bytesOfStr_strOfBytes]

theorem xBytes_hex (s : Bytes) : xBytes (hexUp s) = .ok s := by
  unfold xBytes; rw [hexDec_hexUp]; rfl

theorem xDate_format {R : Rfc3339} (hR : R.Lawful) {s : Int} (h : R.inYears s = true) :
    xDate R (R.format s) = .ok s := by
  unfold xDate; rw [hR.roundtrip s h]; simp [h]

/-- Interval, every uint32. -/
theorem xInterval_utoa {n : Nat} (h : n < 2 ^ 32) : xInterval (utoa n) = .ok n := by
  unfold xInterval; rw [goParseUint_utoa h]; rfl

/-- bit masks, every int32. -/
theorem xMask_text {names : List Nat} {byName : Table} (ok : MaskOk names byName) {v : Int}
    (h : int32Ok v = true) :
    xMask byName (maskToText names [32] (unsignedOfInt 32 v)) = .ok v := by
  have ⟨h1, h2⟩ := int32Ok_iff.mp h
  unfold xMask
  rw [Reg.maskXml_roundtrip ok (unsignedOfInt32_lt v)]; dsimp only
  rw [signed_unsigned32 v h1 (by omega)]

/-! ## 5. per-scalar round trips, JSON -/

theorem int64OfNum_ok {v : Int} (h : int64Ok v = true) : int64OfNum v true = some v := by
  have ⟨h1, h2⟩ := int64Ok_iff.mp h
  simp [int64OfNum, h1, h2]

theorem int64Ok_of_int32 {v : Int} (h : int32Ok v = true) : int64Ok v = true := by
  have ⟨h1, h2⟩ := int32Ok_iff.mp h
  exact int64Ok_iff.mpr ⟨by omega, by omega⟩

theorem jInteger_num {v : Int} (h : int32Ok v = true) : jInteger (some (.num v true)) = .ok v := by
  have ⟨h1, h2⟩ := int32Ok_iff.mp h
  simp [jInteger, int64OfNum_ok (int64Ok_of_int32 h), inRange, h1, h2, ofOpt]

/-- the writer emits a number exactly below the threshold … -/
theorem jsonValue_long_num {T : Tables} {R : Rfc3339} {t v : Int} (h : -maxJsonInt < v ∧ v < maxJsonInt) :
    jsonValue T R (.long t v) = .num v true := by
  have : ¬ (v ≥ maxJsonInt ∨ v ≤ -maxJsonInt) := by omega
  simp [jsonValue, this]

/-- … and the hexadecimal string of the 64-bit pattern from the threshold on. -/
theorem jsonValue_long_hex {T : Tables} {R : Rfc3339} {t v : Int} (h : v ≥ maxJsonInt ∨ v ≤ -maxJsonInt) :
    jsonValue T R (.long t v) = .str (48 :: 120 :: hexFixedLo 16 (unsignedOfInt 64 v)) := by
  simp [jsonValue, h]

/-- LongInteger, every int64, both sides of ±2^52. -/
theorem jLong_value {T : Tables} {R : Rfc3339} {t v : Int} (h : int64Ok v = true) :
    jLong (some (jsonValue T R (.long t v))) = .ok v := by
  have ⟨h1, h2⟩ := int64Ok_iff.mp h
  by_cases hth : v ≥ maxJsonInt ∨ v ≤ -maxJsonInt
  · rw [jsonValue_long_hex hth]
    simp only [jLong, goParseInt, parseUint_hex16Lo (unsignedOfInt64_lt v), Option.map_some, ofOpt]
    rw [signed_unsigned64 v h1 (by omega)]
  · rw [jsonValue_long_num (by omega)]
    simp [jLong, int64OfNum_ok h, ofOpt]

/-- BigInteger, every integer. -/
theorem jBig_value {T : Tables} {R : Rfc3339} {t v : Int} :
    jBig (some (jsonValue T R (.big t v))) = .ok v := by
  by_cases hth : v ≥ maxJsonInt ∨ v ≤ -maxJsonInt
  · have : jsonValue T R (.big t v) = .str (48 :: 120 :: hexLo (bigBytes v 8)) := by
      simp [jsonValue, hth]
    rw [this]
    simp only [jBig]
    rw [bigOfHex_of_dec (hexDec_hexLo _) (bigBytes_ne_nil v 8), bytesToBigInt_bigBytes]
  · have : jsonValue T R (.big t v) = .num v true := by simp [jsonValue, hth]
    rw [this]
    have h64 : int64Ok v = true := by
      unfold maxJsonInt at hth
      exact int64Ok_iff.mpr ⟨by omega, by omega⟩
    simp [jBig, int64OfNum_ok h64, ofOpt]

theorem jEnum_text {byValue byName : Table} (hb : bijective byValue byName = true)
    (hc : cleanNames byValue = true) {v : Nat} (hv : v < 2 ^ 32) :
    jEnum byName (some (.str (enumToText byValue v))) = .ok v := by
  simp [jEnum, enumReader_roundtrip hb hc hv, ofOpt]

theorem jText_str (s : Bytes) : jText (some (.str (strOfBytes s))) = .ok s := by
  simp [jText, bytesOfStr_strOfBytes]

theorem jBytes_hex (s : Bytes) : jBytes (some (.str (hexUp s))) = .ok s := by
  simp [jBytes, hexDec_hexUp, ofOpt]

theorem jDate_format {R : Rfc3339} (hR : R.Lawful) {s : Int} (h : R.inYears s = true) :
    jDate R (some (.str (R.format s))) = .ok s := by
  have hno := hR.no0x s h
  unfold jDate
  split
  · rename_i h' e; injection e with e; injection e with e; exact absurd e (hno _)
  · rename_i s' e; injection e with e; injection e with e; subst e
    exact xDate_format hR h
  · rename_i hx hy; exact absurd rfl (hy _)

theorem jInterval_num {n : Nat} (h : n < 2 ^ 32) : jInterval (some (.num (n : Int) true)) = .ok n := by
  have h64 : int64Ok (n : Int) = true := int64Ok_iff.mpr ⟨by omega, by omega⟩
  have : (0 : Int) ≤ n ∧ (n : Int) ≤ 4294967295 := by omega
  simp [jInterval, int64OfNum_ok h64, inRange, this, ofOpt]

theorem jMask_text {names : List Nat} {byName : Table} (ok : MaskOk names byName) {v : Int}
    (h : int32Ok v = true) :
    jMask byName (some (.str (maskToText names [124] (unsignedOfInt 32 v)))) = .ok v := by
  have ⟨h1, h2⟩ := int32Ok_iff.mp h
  simp only [jMask]
  rw [Reg.maskJson_roundtrip ok (unsignedOfInt32_lt v)]
  simp only [Option.map_some, ofOpt]
  rw [signed_unsigned32 v h1 (by omega)]

/-! ## 6. the representable domain -/

theorem tagOk_iff {t : Int} : tagOk t = true ↔ 0 < t ∧ t < 16777216 := by simp [tagOk]

/-- … or 0: what `Tag()` answers for an element without a usable tag; the generic decoder accepts it at
    the ROOT only (inside a structure a child whose tag reads 0 ends the loop). -/
def tagOk0 (t : Int) : Bool := decide (0 ≤ t) && decide (t < 16777216)

theorem tagOk0_iff {t : Int} : tagOk0 t = true ↔ 0 ≤ t ∧ t < 16777216 := by simp [tagOk0]

def rootTagOk (top : Bool) (t : Int) : Bool := if top then tagOk0 t else tagOk t

theorem tagOk0_of_root {top : Bool} {t : Int} (h : rootTagOk top t = true) : tagOk0 t = true := by
  cases top
  · have := tagOk_iff.mp (by simpa [rootTagOk] using h)
    exact tagOk0_iff.mpr ⟨by omega, this.2⟩
  · simpa [rootTagOk] using h

mutual
  /-- the domain of the round-trip theorems, as an explicit decidable predicate: tags in `(0, 2^24)` (the
      root's may be 0 when `top`); Go ranges of the scalar types; dates the readers' year test accepts
      (`R.inYears`: years 0..9999, which contain the years 1..9999 of the property); the annotations
      of enumeration and bit-mask nodes are what the reader is told (`H`) AT THEIR POSITION; an Integer
      node is not read as a mask at its position. (Text strings are arbitrary byte sequences at this layer:
      which of them survive the escaper / tokeniser pair of the standard library is outside the model.) -/
  def XItem.representableG (top : Bool) (R : Rfc3339) (H : Hints) : XItem → Bool
    | .struct t cs => rootTagOk top t && XItem.representableList R H.child cs
    | .int t v => rootTagOk top t && int32Ok v && decide ((H [] t).mask = none)
    | .mask t m v => rootTagOk top t && int32Ok v && decide ((H [] t).mask = some m)
    | .long t v => rootTagOk top t && int64Ok v
    | .big t _ => rootTagOk top t
    | .enum t e v => rootTagOk top t && decide (v < 4294967296) && decide ((H [] t).enumTag = e)
    | .bool t _ => rootTagOk top t
    | .text t _ => rootTagOk top t
    | .bytes t _ => rootTagOk top t
    | .date t v => rootTagOk top t && R.inYears v
    | .interval t v => rootTagOk top t && decide (v < 4294967296)
  def XItem.representableList (R : Rfc3339) (Hs : Nat → Hints) : List XItem → Bool
    | [] => true
    | x :: xs => x.representableG false R (Hs 0) && XItem.representableList R (hintsTail Hs) xs
end

/-- every tag, the root's included, is a KMIP tag. -/
def XItem.representable (R : Rfc3339) (H : Hints) (t : XItem) : Bool := t.representableG false R H
/-- the root's tag may be 0 (an accepted top-level element without a usable tag). -/
def XItem.representable0 (R : Rfc3339) (H : Hints) (t : XItem) : Bool := t.representableG true R H

def XItem.Representable (R : Rfc3339) (H : Hints) (t : XItem) : Prop := t.representable R H = true
def XItem.Representable0 (R : Rfc3339) (H : Hints) (t : XItem) : Prop := t.representable0 R H = true

theorem XItem.rootTagOk_of_rep {top : Bool} {R : Rfc3339} {H : Hints} {t : XItem}
    (h : t.representableG top R H = true) : rootTagOk top t.tag = true := by
  cases t <;> simp only [XItem.representableG, Bool.and_eq_true] at h <;> simp only [XItem.tag] <;>
    first | exact h.1 | exact h.1.1 | exact h.1.1.1 | exact h

theorem XItem.tagOk_of_rep {top : Bool} {R : Rfc3339} {H : Hints} {t : XItem}
    (h : t.representableG top R H = true) : tagOk0 t.tag = true :=
  tagOk0_of_root (XItem.rootTagOk_of_rep h)

theorem XItem.tagPos_of_rep {R : Rfc3339} {H : Hints} {t : XItem}
    (h : t.representableG false R H = true) : 0 < t.tag :=
  (tagOk_iff.mp (by simpa [rootTagOk] using XItem.rootTagOk_of_rep h)).1

/-- a representable tree is in particular representable as a root. -/
theorem XItem.rep0_of_rep {R : Rfc3339} {H : Hints} : ∀ {t : XItem},
    t.representableG false R H = true → t.representableG true R H = true := by
  intro t h
  have h0 : rootTagOk true t.tag = true := by
    simpa [rootTagOk] using XItem.tagOk_of_rep h
  cases t <;> simp only [XItem.representableG, Bool.and_eq_true, XItem.tag] at h h0 ⊢ <;>
    first
    | exact ⟨⟨h0, h.1.2⟩, h.2⟩
    | exact ⟨h0, h.2⟩
    | exact h0

/-! ## 7. XML: elements and the cursor -/

/-- the cursor `Next` leaves on a token stream (for a reader that may advance). -/
def after : List Tok → XCur
  | [] => ⟨none, [], false⟩
  | .start n a :: r => ⟨some (n, a), r, false⟩
  | .stop :: r => ⟨none, r, false⟩

theorem next_noskip {c : XCur} (h : c.ty = 0 ∨ (c.ty = 1 ∧ c.entered = true))
    (hne : c.rest ≠ [] ∨ c.elem.isSome = true) : c.next = .ok (after c.rest) := by
  unfold XCur.next
  have : (c.ty != 0 && (c.ty != 1 || !c.entered)) = false := by
    rcases h with h | ⟨h, he⟩ <;> simp [h, *]
  rw [this]
  simp only [Bool.false_eq_true, if_false, Res.ok_bind]
  cases hr : c.rest with
  | nil =>
    rcases hne with hne | hne
    · exact absurd hr hne
    · simp [hne, after]
  | cons t r => cases t <;> simp [after]

theorem next_scalar {c : XCur} (h0 : c.ty ≠ 0) (h1 : c.ty ≠ 1) (he : c.elem.isSome = true) {rest : List Tok}
    (hr : c.rest = .stop :: rest) : c.next = .ok (after rest) := by
  unfold XCur.next
  have : (c.ty != 0 && (c.ty != 1 || !c.entered)) = true := by simp [h0, h1]
  rw [this, hr]
  simp only [if_true, skip, Res.ok_bind]
  cases rest with
  | nil => simp [he, after]
  | cons t r => cases t <;> simp [after]

theorem typeFromName_typeName : ∀ ty, ty < 11 → 1 ≤ ty → typeFromName (typeName ty) = some ty := by decide

theorem sTag_ne_sType : (sTag == sType) = false := by decide
theorem sTag_ne_sValue : (sTag == sValue) = false := by decide
theorem sType_ne_sValue : (sType == sValue) = false := by decide
theorem sType_ne_sTag : (sType == sTag) = false := by decide
theorem sValue_ne_sTag : (sValue == sTag) = false := by decide
theorem sValue_ne_sType : (sValue == sType) = false := by decide

theorem pack_sTTLV : pack sTTLV = 0x0154544C56 := by decide

theorem uintOf_nonneg {t : Int} (h0 : 0 ≤ t) (h1 : t < 16777216) : uintOf t = t.toNat := by
  unfold uintOf; omega

/-- name and attributes of a start element, as two cases. -/
theorem xmlStart_cases (T : Tables) (hT : T.WF) (ty : Nat) {tag : Int} (htag : tagOk0 tag = true)
    (val : Option Str) :
    (lookup tag.toNat T.tagNames = none ∧
      xmlStart T ty tag val = (sTTLV, (sTag, hex0x 6 tag.toNat) :: (tyAttrs ty ++ valAttrs val))) ∨
    (∃ n, lookup tag.toNat T.tagNames = some n ∧ CleanFacts n ∧
      xmlStart T ty tag val = (unpack n, tyAttrs ty ++ valAttrs val)) := by
  have ⟨h0, h1⟩ := tagOk0_iff.mp htag
  have hneg : ¬ tag < 0 := by omega
  simp only [xmlStart, tagNameOf, hneg, if_false, uintOf_nonneg h0 h1]
  cases hl : lookup tag.toNat T.tagNames with
  | none => left; exact ⟨rfl, rfl⟩
  | some n =>
    right
    have f := cleanName_facts (cleanNames_lookup hT.tagsClean hl)
    refine ⟨n, rfl, f, ?_⟩
    simp only [clean_ne_empty f, Bool.false_eq_true, if_false]

theorem unpack_ne_TTLV {n : Nat} (f : CleanFacts n) : (unpack n != sTTLV) = true := by
  simp only [bne_iff_ne, ne_eq]
  intro e
  have := f.valid
  rw [e, pack_sTTLV] at this
  exact f.notTTLV this.symm

/-- `Tag()` of a written start element is the tag. -/
theorem tag_xmlStart (T : Tables) (hT : T.WF) (ty : Nat) {tag : Int} (htag : tagOk0 tag = true)
    (val : Option Str) (r : List Tok) (b : Bool := false) :
    XCur.tag T ⟨some (xmlStart T ty tag val), r, b⟩ = tag := by
  have ⟨h0, h1⟩ := tagOk0_iff.mp htag
  have h24 : tag.toNat < 2 ^ 24 := by simp; omega
  have hrt := tag_roundtrip hT.tags hT.tagsClean h24
  have hnat : ((tag.toNat : Nat) : Int) = tag := by omega
  rcases xmlStart_cases T hT ty htag val with ⟨hl, e⟩ | ⟨n, hl, f, e⟩
  · rw [e]
    simp only [XCur.tag, Tables.tagOfText, hT.newTags, XCur.rawTag, bne_self_eq_false, Bool.false_eq_true,
      if_false, attr, BEq.rfl, if_true, Option.getD_some]
    simp only [tagToText, hl] at hrt
    rw [hrt, hnat]
  · rw [e]
    simp only [XCur.tag, Tables.tagOfText, hT.newTags, XCur.rawTag, unpack_ne_TTLV f, if_true,
      Bool.false_eq_true, if_false]
    simp only [tagToText, hl] at hrt
    rw [hrt, hnat]

theorem attr_sType_tyval (ty : Nat) (val : Option Str) :
    attr sType (tyAttrs ty ++ valAttrs val) = if ty == 1 then none else some (typeName ty) := by
  unfold tyAttrs
  by_cases h : (ty == 1) = true
  · simp only [h, if_true, List.nil_append]
    cases val <;> simp [valAttrs, attr, sValue_ne_sType]
  · simp only [h, Bool.false_eq_true, if_false]
    simp [attr]

/-- `Type()` of a written start element is the announced type. -/
theorem ty_xmlStart (T : Tables) (hT : T.WF) {ty : Nat} (hty1 : 1 ≤ ty) (hty : ty < 11) {tag : Int}
    (htag : tagOk0 tag = true) (val : Option Str) (r : List Tok) (b : Bool := false) :
    XCur.ty ⟨some (xmlStart T ty tag val), r, b⟩ = ty := by
  have hfin : (match (if ty == 1 then none else some (typeName ty) : Option Str) with
      | some s => (typeFromName s).getD typeInvalid
      | none => 1) = ty := by
    by_cases h : (ty == 1) = true
    · simp only [h, if_true]; exact (beq_iff_eq.mp h).symm
    · simp only [h, Bool.false_eq_true, if_false, typeFromName_typeName ty hty hty1, Option.getD_some]
  rcases xmlStart_cases T hT ty htag val with ⟨_, e⟩ | ⟨n, _, _, e⟩
  · rw [e]
    simp only [XCur.ty, attr, sTag_ne_sType, Bool.false_eq_true, if_false]
    rw [attr_sType_tyval]; exact hfin
  · rw [e]
    simp only [XCur.ty]
    rw [attr_sType_tyval]; exact hfin

/-- the `value` attribute of a written scalar element. -/
theorem value_xmlStart (T : Tables) (hT : T.WF) {ty : Nat} {tag : Int} (htag : tagOk0 tag = true) (v : Str) :
    attr sValue (xmlStart T ty tag (some v)).2 = some v := by
  have hval : attr sValue (tyAttrs ty ++ valAttrs (some v)) = some v := by
    unfold tyAttrs valAttrs
    by_cases h : (ty == 1) = true
    · simp [h, attr]
    · simp [h, attr, sType_ne_sValue]
  rcases xmlStart_cases T hT ty htag (some v) with ⟨_, e⟩ | ⟨n, _, _, e⟩
  · rw [e]; simp only [attr, sTag_ne_sValue, Bool.false_eq_true, if_false]; exact hval
  · rw [e]; exact hval

/-- every scalar getter on the element it wrote. -/
theorem scalar_xmlStart {α : Type} (T : Tables) (hT : T.WF) {ty : Nat} (hty2 : 2 ≤ ty) (hty : ty < 11)
    {tag : Int} (htag : tagOk0 tag = true) (val : Str) (conv : Str → Res α) {v : α}
    (hconv : conv val = .ok v) (rest : List Tok) :
    XCur.scalar T ⟨some (xmlStart T ty tag (some val)), .stop :: rest, false⟩ ty tag conv =
      .ok (v, after rest) := by
  have htg := tag_xmlStart T hT ty htag (some val) (.stop :: rest)
  have hty' := ty_xmlStart T hT (by omega) hty htag (some val) (.stop :: rest)
  have hv := value_xmlStart T hT (ty := ty) htag val
  have hn : XCur.next ⟨some (xmlStart T ty tag (some val)), .stop :: rest, false⟩ = .ok (after rest) :=
    next_scalar (by rw [hty']; omega) (by rw [hty']; omega) rfl rfl
  unfold XCur.scalar
  simp only [htg, hty', ne_eq, not_true_eq_false, if_false, hv, Option.getD_some, hconv, hn,
    Res.ok_bind, Res.pure_eq]

/-! ## 8. XML: trees -/

theorem toks_xmlScalar (T : Tables) (ty : Nat) (tag : Int) (val : Str) (rest : List Tok) :
    after ((xmlScalar T ty tag val).toks ++ rest) =
      ⟨some (xmlStart T ty tag (some val)), .stop :: rest, false⟩ := by
  simp [xmlScalar, XElem.toks, XElem.toksList, after]

theorem drain_none (f : Nat) (r : List Tok) : drain (f + 1) ⟨none, r, false⟩ = .ok ⟨none, r, false⟩ := rfl

theorem tag_after_stop (T : Tables) (rest : List Tok) : XCur.tag T (after (.stop :: rest)) = 0 := by
  cases T.oldTags <;> simp [after, XCur.tag, Tables.tagOfText, XCur.rawTag, tagFromText, tagFromTextOld]

section
variable {T : Tables} (hT : T.WF) {R : Rfc3339} (hR : R.Lawful) {top : Bool}
include hT hR

/-- the generic decoder on a scalar element written by the XML writer. -/
theorem xDecodeValue_scalar {H : Hints} (t : XItem) (hns : t.ty ≠ 1) (f : Nat) (rest : List Tok)
    (hr : t.representableG top R H = true) :
    xDecodeValue T R H (f + 1) ⟨some (xmlStart T t.ty t.tag (some (xmlValue T R t))), .stop :: rest, false⟩ t.tag =
      .ok (t, after rest) := by
  have htag := XItem.tagOk_of_rep hr
  cases t with
  | struct tag cs => exact absurd rfl hns
  | int tag v =>
    simp only [XItem.representableG, Bool.and_eq_true, decide_eq_true_eq] at hr
    simp only [XItem.ty, XItem.tag] at htag ⊢
    rw [xDecodeValue, ty_xmlStart T hT (by decide) (by decide) htag]
    simp only [hr.2, xmlValue]
    rw [scalar_xmlStart T hT (ty := 2) (by decide) (by decide) htag _ xInteger (xInteger_itoa hr.1.2) rest]
    rfl
  | mask tag m v =>
    simp only [XItem.representableG, Bool.and_eq_true, decide_eq_true_eq] at hr
    simp only [XItem.ty, XItem.tag] at htag ⊢
    rw [xDecodeValue, ty_xmlStart T hT (by decide) (by decide) htag]
    simp only [hr.2, xmlValue]
    rw [scalar_xmlStart T hT (ty := 2) (by decide) (by decide) htag _ _ (xMask_text (hT.mask _) hr.1.2) rest]
    rfl
  | long tag v =>
    simp only [XItem.representableG, Bool.and_eq_true] at hr
    simp only [XItem.ty, XItem.tag] at htag ⊢
    rw [xDecodeValue, ty_xmlStart T hT (by decide) (by decide) htag]
    simp only [xmlValue]
    rw [scalar_xmlStart T hT (ty := 3) (by decide) (by decide) htag _ xLong (xLong_itoa hr.2) rest]
    rfl
  | big tag v =>
    simp only [XItem.ty, XItem.tag] at htag ⊢
    rw [xDecodeValue, ty_xmlStart T hT (by decide) (by decide) htag]
    simp only [xmlValue]
    rw [scalar_xmlStart T hT (ty := 4) (by decide) (by decide) htag _ bigOfHex (bigOfHex_xml v) rest]
    rfl
  | enum tag e v =>
    simp only [XItem.representableG, Bool.and_eq_true, decide_eq_true_eq] at hr
    simp only [XItem.ty, XItem.tag] at htag ⊢
    rw [xDecodeValue, ty_xmlStart T hT (by decide) (by decide) htag]
    simp only [hr.2, xmlValue]
    rw [scalar_xmlStart T hT (ty := 5) (by decide) (by decide) htag _ _
      (xEnum_text (hT.enum _).1 (hT.enum _).2 (by simpa using hr.1.2)) rest]
    rfl
  | bool tag b =>
    simp only [XItem.ty, XItem.tag] at htag ⊢
    rw [xDecodeValue, ty_xmlStart T hT (by decide) (by decide) htag]
    simp only [xmlValue]
    rw [scalar_xmlStart T hT (ty := 6) (by decide) (by decide) htag _ xBool (xBool_format b) rest]
    rfl
  | text tag s =>
    simp only [XItem.ty, XItem.tag] at htag ⊢
    rw [xDecodeValue, ty_xmlStart T hT (by decide) (by decide) htag]
    simp only [xmlValue]
    rw [scalar_xmlStart T hT (ty := 7) (by decide) (by decide) htag _ xText (xText_str s) rest]
    rfl
  | bytes tag s =>
    simp only [XItem.ty, XItem.tag] at htag ⊢
    rw [xDecodeValue, ty_xmlStart T hT (by decide) (by decide) htag]
    simp only [xmlValue]
    rw [scalar_xmlStart T hT (ty := 8) (by decide) (by decide) htag _ xBytes (xBytes_hex s) rest]
    rfl
  | date tag v =>
    simp only [XItem.representableG, Bool.and_eq_true, decide_eq_true_eq] at hr
    simp only [XItem.ty, XItem.tag] at htag ⊢
    rw [xDecodeValue, ty_xmlStart T hT (by decide) (by decide) htag]
    simp only [xmlValue]
    rw [scalar_xmlStart T hT (ty := 9) (by decide) (by decide) htag _ (xDate R) (xDate_format hR hr.2) rest]
    rfl
  | interval tag v =>
    simp only [XItem.representableG, Bool.and_eq_true, decide_eq_true_eq] at hr
    simp only [XItem.ty, XItem.tag] at htag ⊢
    rw [xDecodeValue, ty_xmlStart T hT (by decide) (by decide) htag]
    simp only [xmlValue]
    rw [scalar_xmlStart T hT (ty := 10) (by decide) (by decide) htag _ xInterval (xInterval_utoa (by simpa using hr.2)) rest]
    rfl

mutual
  /-- the generic decoder reads back every representable tree the XML writer wrote, whatever follows it
      in the token stream, with any fuel `≥ size`. -/
  theorem xDecodeValue_write : ∀ (t : XItem) (H : Hints) (top : Bool) (fuel : Nat) (rest : List Tok), t.size ≤ fuel →
      t.representableG top R H = true →
      xDecodeValue T R H fuel (after ((xmlWrite T R t).toks ++ rest)) t.tag = .ok (t, after rest)
    | .struct tag cs, H, top, fuel, rest, hf, hr => by
      obtain ⟨f, rfl⟩ : ∃ f, fuel = f + 1 := ⟨fuel - 1, by simp [XItem.size] at hf; omega⟩
      simp only [XItem.representableG, Bool.and_eq_true] at hr
      have htag := tagOk0_of_root hr.1
      have hsz : XItem.sizeList cs ≤ f := by simp [XItem.size] at hf; omega
      have hc : after ((xmlWrite T R (.struct tag cs)).toks ++ rest) =
          ⟨some (xmlStart T 1 tag none), XElem.toksList (xmlWriteList T R cs) ++ .stop :: rest, false⟩ := by
        simp [xmlWrite, XElem.toks, after]
      rw [hc, xDecodeValue, ty_xmlStart T hT (by decide) (by decide) htag]
      simp only [XItem.tag, tag_xmlStart T hT 1 htag, ne_eq, not_true_eq_false, if_false]
      have hn1 : XCur.next ⟨none, XElem.toksList (xmlWriteList T R cs) ++ .stop :: rest, false⟩ =
          .ok (after (XElem.toksList (xmlWriteList T R cs) ++ .stop :: rest)) :=
        next_noskip (Or.inl rfl) (Or.inl (by simp))
      rw [hn1]
      simp only [Res.ok_bind]
      rw [xDecodeFields_write cs H.child f rest hsz hr.2]
      simp only [Res.ok_bind]
      rw [drain_none]
      simp only [Res.ok_bind]
      have hn2 : XCur.next ⟨some (xmlStart T 1 tag none), rest, true⟩ = .ok (after rest) :=
        next_noskip (Or.inr ⟨ty_xmlStart T hT (by decide) (by decide) htag none rest true, rfl⟩) (Or.inr rfl)
      rw [hn2]
      rfl
    | .int tag v, H, top, fuel, rest, hf, hr => by
      obtain ⟨f, rfl⟩ : ∃ f, fuel = f + 1 := ⟨fuel - 1, by simp [XItem.size] at hf; omega⟩
      simp only [xmlWrite, toks_xmlScalar]
      exact xDecodeValue_scalar hT hR (.int tag v) (by simp [XItem.ty]) f rest hr
    | .mask tag m v, H, top, fuel, rest, hf, hr => by
      obtain ⟨f, rfl⟩ : ∃ f, fuel = f + 1 := ⟨fuel - 1, by simp [XItem.size] at hf; omega⟩
      simp only [xmlWrite, toks_xmlScalar]
      exact xDecodeValue_scalar hT hR (.mask tag m v) (by simp [XItem.ty]) f rest hr
    | .long tag v, H, top, fuel, rest, hf, hr => by
      obtain ⟨f, rfl⟩ : ∃ f, fuel = f + 1 := ⟨fuel - 1, by simp [XItem.size] at hf; omega⟩
      simp only [xmlWrite, toks_xmlScalar]
      exact xDecodeValue_scalar hT hR (.long tag v) (by simp [XItem.ty]) f rest hr
    | .big tag v, H, top, fuel, rest, hf, hr => by
      obtain ⟨f, rfl⟩ : ∃ f, fuel = f + 1 := ⟨fuel - 1, by simp [XItem.size] at hf; omega⟩
      simp only [xmlWrite, toks_xmlScalar]
      exact xDecodeValue_scalar hT hR (.big tag v) (by simp [XItem.ty]) f rest hr
    | .enum tag e v, H, top, fuel, rest, hf, hr => by
      obtain ⟨f, rfl⟩ : ∃ f, fuel = f + 1 := ⟨fuel - 1, by simp [XItem.size] at hf; omega⟩
      simp only [xmlWrite, toks_xmlScalar]
      exact xDecodeValue_scalar hT hR (.enum tag e v) (by simp [XItem.ty]) f rest hr
    | .bool tag b, H, top, fuel, rest, hf, hr => by
      obtain ⟨f, rfl⟩ : ∃ f, fuel = f + 1 := ⟨fuel - 1, by simp [XItem.size] at hf; omega⟩
      simp only [xmlWrite, toks_xmlScalar]
      exact xDecodeValue_scalar hT hR (.bool tag b) (by simp [XItem.ty]) f rest hr
    | .text tag s, H, top, fuel, rest, hf, hr => by
      obtain ⟨f, rfl⟩ : ∃ f, fuel = f + 1 := ⟨fuel - 1, by simp [XItem.size] at hf; omega⟩
      simp only [xmlWrite, toks_xmlScalar]
      exact xDecodeValue_scalar hT hR (.text tag s) (by simp [XItem.ty]) f rest hr
    | .bytes tag s, H, top, fuel, rest, hf, hr => by
      obtain ⟨f, rfl⟩ : ∃ f, fuel = f + 1 := ⟨fuel - 1, by simp [XItem.size] at hf; omega⟩
      simp only [xmlWrite, toks_xmlScalar]
      exact xDecodeValue_scalar hT hR (.bytes tag s) (by simp [XItem.ty]) f rest hr
    | .date tag v, H, top, fuel, rest, hf, hr => by
      obtain ⟨f, rfl⟩ : ∃ f, fuel = f + 1 := ⟨fuel - 1, by simp [XItem.size] at hf; omega⟩
      simp only [xmlWrite, toks_xmlScalar]
      exact xDecodeValue_scalar hT hR (.date tag v) (by simp [XItem.ty]) f rest hr
    | .interval tag v, H, top, fuel, rest, hf, hr => by
      obtain ⟨f, rfl⟩ : ∃ f, fuel = f + 1 := ⟨fuel - 1, by simp [XItem.size] at hf; omega⟩
      simp only [xmlWrite, toks_xmlScalar]
      exact xDecodeValue_scalar hT hR (.interval tag v) (by simp [XItem.ty]) f rest hr
  /-- … and the field loop reads back every list of children up to the end tag of their parent. -/
  theorem xDecodeFields_write : ∀ (cs : List XItem) (Hs : Nat → Hints) (fuel : Nat) (rest : List Tok),
      XItem.sizeList cs ≤ fuel → XItem.representableList R Hs cs = true →
      xDecodeFields T R Hs fuel (after (XElem.toksList (xmlWriteList T R cs) ++ .stop :: rest)) =
        .ok (cs, ⟨none, rest, false⟩)
    | [], Hs, fuel, rest, hf, _ => by
      obtain ⟨f, rfl⟩ : ∃ f, fuel = f + 1 := ⟨fuel - 1, by simp [XItem.sizeList] at hf; omega⟩
      simp only [xmlWriteList, XElem.toksList, List.nil_append]
      rw [xDecodeFields, tag_after_stop T]
      simp [after]
    | c :: cs, Hs, fuel, rest, hf, hr => by
      obtain ⟨f, rfl⟩ : ∃ f, fuel = f + 1 := ⟨fuel - 1, by simp [XItem.sizeList] at hf; omega⟩
      simp only [XItem.representableList, Bool.and_eq_true] at hr
      have h1 : c.size ≤ f := by simp [XItem.sizeList] at hf; omega
      have h2 : XItem.sizeList cs ≤ f := by simp [XItem.sizeList] at hf; omega
      have hv := xDecodeValue_write c (Hs 0) false f (XElem.toksList (xmlWriteList T R cs) ++ .stop :: rest) h1 hr.1
      have htag := XItem.tagPos_of_rep hr.1
      -- the cursor is on the start element of `c`: its tag is `c.tag ≠ 0`
      have hcur : XCur.tag T (after ((xmlWrite T R c).toks ++
          (XElem.toksList (xmlWriteList T R cs) ++ .stop :: rest))) = c.tag := by
        cases c <;>
          simp only [xmlWrite, toks_xmlScalar, XElem.toks, after, List.cons_append, XItem.tag] <;>
          exact tag_xmlStart T hT _ (XItem.tagOk_of_rep hr.1) _ _
      simp only [xmlWriteList, XElem.toksList, List.append_assoc]
      rw [xDecodeFields, hcur]
      have hne : ¬ c.tag = 0 := by omega
      simp only [hne, if_false]
      rw [hv]
      simp only [Res.ok_bind]
      rw [xDecodeFields_write cs (hintsTail Hs) f rest h2 hr.2]
      rfl
end

omit hR in
theorem tag_after_write {H : Hints} (t : XItem) (hr : t.representableG top R H = true) (rest : List Tok) :
    XCur.tag T (after ((xmlWrite T R t).toks ++ rest)) = t.tag := by
  cases t <;>
    simp only [xmlWrite, toks_xmlScalar, XElem.toks, after, List.cons_append, XItem.tag] <;>
    exact tag_xmlStart T hT _ (XItem.tagOk_of_rep hr) _ _

end

mutual
  theorem size_le_toks (T : Tables) (R : Rfc3339) : ∀ t : XItem, t.size + 1 ≤ 2 * (xmlWrite T R t).toks.length
    | .struct tag cs => by
      have := sizeList_le_toks T R cs
      simp [xmlWrite, XElem.toks, XItem.size]; omega
    | .int .. | .mask .. | .long .. | .big .. | .enum .. | .bool .. | .text .. | .bytes .. | .date ..
    | .interval .. => by simp [xmlWrite, xmlScalar, XElem.toks, XElem.toksList, XItem.size]
  theorem sizeList_le_toks (T : Tables) (R : Rfc3339) : ∀ cs : List XItem,
      XItem.sizeList cs ≤ 2 * (XElem.toksList (xmlWriteList T R cs)).length + 1
    | [] => by simp [XItem.sizeList, xmlWriteList, XElem.toksList]
    | c :: cs => by
      have h1 := size_le_toks T R c
      have h2 := sizeList_le_toks T R cs
      simp [XItem.sizeList, xmlWriteList, XElem.toksList]; omega
end

theorem toks_ne_nil (e : XElem) : e.toks ≠ [] := by cases e; simp [XElem.toks]

/-- XML: the reader reads back every representable tree the writer wrote. -/
theorem xmlRead_write {T : Tables} (hT : T.WF) {R : Rfc3339} (hR : R.Lawful) {H : Hints} {top : Bool}
    (t : XItem)
    (hr : t.representableG top R H = true) : xmlRead T R H (xmlWrite T R t) = .ok t := by
  unfold xmlRead xmlReadToks
  have hn : XCur.next ⟨none, (xmlWrite T R t).toks, false⟩ = .ok (after (xmlWrite T R t).toks) :=
    next_noskip (Or.inl rfl) (Or.inl (toks_ne_nil _))
  rw [hn]
  simp only [Res.ok_bind]
  have ht := tag_after_write hT (R := R) t hr []
  have hv := xDecodeValue_write hT hR t H top (2 * (xmlWrite T R t).toks.length + 2) []
    (by have := size_le_toks T R t; omega) hr
  rw [List.append_nil] at ht hv
  rw [ht, hv]
  rfl

/-! ## 9. JSON: elements -/

theorem typeName_nonempty : ∀ ty, ty < 11 → 1 ≤ ty → (typeName ty).isEmpty = false := by decide

theorem tagString_nonneg (T : Tables) {tag : Int} (htag : tagOk0 tag = true) :
    tagString T tag = tagToText T.tagNames tag.toNat := by
  have ⟨h0, h1⟩ := tagOk0_iff.mp htag
  have hneg : ¬ tag < 0 := by omega
  simp only [tagString, tagNameOf, hneg, if_false, tagToText, uintOf_nonneg h0 h1]
  cases lookup tag.toNat T.tagNames <;> rfl

def tyFields (ty : Nat) : List (Str × JVal) := if ty == 1 then [] else [(sType, .str (typeName ty))]

theorem jsonElem_eq (T : Tables) (ty : Nat) (tag : Int) (v : JVal) :
    jsonElem T ty tag v = .obj ((sTag, .str (tagString T tag)) :: (tyFields ty ++ [(sValue, v)])) := rfl

theorem get_sTag (T : Tables) (ty : Nat) (tag : Int) (v : JVal) (more : List JVal) :
    JCur.get ⟨jsonElem T ty tag v :: more⟩ sTag = some (.str (tagString T tag)) := by
  rw [jsonElem_eq]
  unfold tyFields
  by_cases h : (ty == 1) = true <;>
    simp [h, JCur.get, fieldOf, sType_ne_sTag, sValue_ne_sTag]

theorem get_sType (T : Tables) (ty : Nat) (tag : Int) (v : JVal) (more : List JVal) :
    JCur.get ⟨jsonElem T ty tag v :: more⟩ sType =
      if ty == 1 then none else some (.str (typeName ty)) := by
  rw [jsonElem_eq]
  unfold tyFields
  by_cases h : (ty == 1) = true <;>
    simp [h, JCur.get, fieldOf, sTag_ne_sType, sValue_ne_sType]

theorem get_sValue (T : Tables) (ty : Nat) (tag : Int) (v : JVal) (more : List JVal) :
    JCur.get ⟨jsonElem T ty tag v :: more⟩ sValue = some v := by
  rw [jsonElem_eq]
  unfold tyFields
  by_cases h : (ty == 1) = true <;>
    simp [h, JCur.get, fieldOf]

theorem jtag_jsonElem (T : Tables) (hT : T.WF) (ty : Nat) {tag : Int} (htag : tagOk0 tag = true) (v : JVal)
    (more : List JVal) : JCur.tag T ⟨jsonElem T ty tag v :: more⟩ = tag := by
  have ⟨h0, h1⟩ := tagOk0_iff.mp htag
  have h24 : tag.toNat < 2 ^ 24 := by simp; omega
  have hnat : ((tag.toNat : Nat) : Int) = tag := by omega
  unfold JCur.tag
  rw [get_sTag]
  simp only [Tables.tagOfText, hT.newTags, Bool.false_eq_true, if_false, tagString_nonneg T htag,
    tag_roundtrip hT.tags hT.tagsClean h24, hnat]

theorem jty_jsonElem (T : Tables) {ty : Nat} (hty1 : 1 ≤ ty) (hty : ty < 11) (tag : Int) (v : JVal)
    (more : List JVal) : JCur.ty ⟨jsonElem T ty tag v :: more⟩ = ty := by
  unfold JCur.ty
  rw [get_sType]
  by_cases h : (ty == 1) = true
  · simp only [h, if_true]; exact (beq_iff_eq.mp h).symm
  · simp only [h, Bool.false_eq_true, if_false, typeName_nonempty ty hty hty1,
      typeFromName_typeName ty hty hty1, Option.getD_some]

/-- every JSON scalar getter on the element it wrote. -/
theorem scalar_jsonElem {α : Type} (T : Tables) (hT : T.WF) {ty : Nat} (hty1 : 1 ≤ ty) (hty : ty < 11)
    {tag : Int} (htag : tagOk0 tag = true) (val : JVal) (conv : Option JVal → Res α) {v : α}
    (hconv : conv (some val) = .ok v) (more : List JVal) :
    JCur.scalar T ⟨jsonElem T ty tag val :: more⟩ ty tag conv = .ok (v, ⟨more⟩) := by
  unfold JCur.scalar
  simp only [jtag_jsonElem T hT ty htag, jty_jsonElem T hty1 hty, ne_eq, not_true_eq_false, if_false,
    get_sValue, hconv, Res.ok_bind, Res.pure_eq, JCur.next, List.tail_cons]

/-! ## 10. JSON: trees -/

section
variable {T : Tables} (hT : T.WF) {R : Rfc3339} (hR : R.Lawful) {top : Bool}
include hT hR

theorem jDecodeValue_scalar {H : Hints} (t : XItem) (hns : t.ty ≠ 1) (f : Nat) (more : List JVal)
    (hr : t.representableG top R H = true) :
    jDecodeValue T R H (f + 1) ⟨jsonElem T t.ty t.tag (jsonValue T R t) :: more⟩ t.tag =
      .ok (t, ⟨more⟩) := by
  have htag := XItem.tagOk_of_rep hr
  cases t with
  | struct tag cs => exact absurd rfl hns
  | int tag v =>
    simp only [XItem.representableG, Bool.and_eq_true, decide_eq_true_eq] at hr
    simp only [XItem.ty, XItem.tag] at htag ⊢
    rw [jDecodeValue, jty_jsonElem T (by decide) (by decide)]
    simp only [hr.2, jsonValue]
    rw [scalar_jsonElem T hT (ty := 2) (by decide) (by decide) htag _ jInteger (jInteger_num hr.1.2) more]
    rfl
  | mask tag m v =>
    simp only [XItem.representableG, Bool.and_eq_true, decide_eq_true_eq] at hr
    simp only [XItem.ty, XItem.tag] at htag ⊢
    rw [jDecodeValue, jty_jsonElem T (by decide) (by decide)]
    simp only [hr.2, jsonValue]
    rw [scalar_jsonElem T hT (ty := 2) (by decide) (by decide) htag _ _ (jMask_text (hT.mask _) hr.1.2) more]
    rfl
  | long tag v =>
    simp only [XItem.representableG, Bool.and_eq_true] at hr
    simp only [XItem.ty, XItem.tag] at htag ⊢
    rw [jDecodeValue, jty_jsonElem T (by decide) (by decide)]
    simp only []
    rw [scalar_jsonElem T hT (ty := 3) (by decide) (by decide) htag _ jLong (jLong_value hr.2) more]
    rfl
  | big tag v =>
    simp only [XItem.ty, XItem.tag] at htag ⊢
    rw [jDecodeValue, jty_jsonElem T (by decide) (by decide)]
    simp only []
    rw [scalar_jsonElem T hT (ty := 4) (by decide) (by decide) htag _ jBig jBig_value more]
    rfl
  | enum tag e v =>
    simp only [XItem.representableG, Bool.and_eq_true, decide_eq_true_eq] at hr
    simp only [XItem.ty, XItem.tag] at htag ⊢
    rw [jDecodeValue, jty_jsonElem T (by decide) (by decide)]
    simp only [hr.2, jsonValue]
    rw [scalar_jsonElem T hT (ty := 5) (by decide) (by decide) htag _ _
      (jEnum_text (hT.enum _).1 (hT.enum _).2 (by simpa using hr.1.2)) more]
    rfl
  | bool tag b =>
    simp only [XItem.ty, XItem.tag] at htag ⊢
    rw [jDecodeValue, jty_jsonElem T (by decide) (by decide)]
    simp only [jsonValue]
    rw [scalar_jsonElem T hT (ty := 6) (by decide) (by decide) htag _ jBool (v := b) rfl more]
    rfl
  | text tag s =>
    simp only [XItem.ty, XItem.tag] at htag ⊢
    rw [jDecodeValue, jty_jsonElem T (by decide) (by decide)]
    simp only [jsonValue]
    rw [scalar_jsonElem T hT (ty := 7) (by decide) (by decide) htag _ jText (jText_str s) more]
    rfl
  | bytes tag s =>
    simp only [XItem.ty, XItem.tag] at htag ⊢
    rw [jDecodeValue, jty_jsonElem T (by decide) (by decide)]
    simp only [jsonValue]
    rw [scalar_jsonElem T hT (ty := 8) (by decide) (by decide) htag _ jBytes (jBytes_hex s) more]
    rfl
  | date tag v =>
    simp only [XItem.representableG, Bool.and_eq_true, decide_eq_true_eq] at hr
    simp only [XItem.ty, XItem.tag] at htag ⊢
    rw [jDecodeValue, jty_jsonElem T (by decide) (by decide)]
    simp only [jsonValue]
    rw [scalar_jsonElem T hT (ty := 9) (by decide) (by decide) htag _ (jDate R)
      (jDate_format hR hr.2) more]
    rfl
  | interval tag v =>
    simp only [XItem.representableG, Bool.and_eq_true, decide_eq_true_eq] at hr
    simp only [XItem.ty, XItem.tag] at htag ⊢
    rw [jDecodeValue, jty_jsonElem T (by decide) (by decide)]
    simp only [jsonValue]
    rw [scalar_jsonElem T hT (ty := 10) (by decide) (by decide) htag _ jInterval
      (jInterval_num (by simpa using hr.2)) more]
    rfl

mutual
  theorem jDecodeValue_write : ∀ (t : XItem) (H : Hints) (top : Bool) (fuel : Nat) (more : List JVal), t.size ≤ fuel →
      t.representableG top R H = true →
      jDecodeValue T R H fuel ⟨jsonWrite T R t :: more⟩ t.tag = .ok (t, ⟨more⟩)
    | .struct tag cs, H, top, fuel, more, hf, hr => by
      obtain ⟨f, rfl⟩ : ∃ f, fuel = f + 1 := ⟨fuel - 1, by simp [XItem.size] at hf; omega⟩
      simp only [XItem.representableG, Bool.and_eq_true] at hr
      have htag := tagOk0_of_root hr.1
      have hsz : XItem.sizeList cs ≤ f := by simp [XItem.size] at hf; omega
      simp only [jsonWrite, XItem.tag]
      rw [jDecodeValue, jty_jsonElem T (by decide) (by decide)]
      simp only [jtag_jsonElem T hT 1 htag, ne_eq, not_true_eq_false, if_false, get_sValue]
      rw [jDecodeFields_write cs H.child f hsz hr.2]
      rfl
    | .int tag v, H, top, fuel, more, hf, hr => by
      obtain ⟨f, rfl⟩ : ∃ f, fuel = f + 1 := ⟨fuel - 1, by simp [XItem.size] at hf; omega⟩
      exact jDecodeValue_scalar hT hR (.int tag v) (by simp [XItem.ty]) f more hr
    | .mask tag m v, H, top, fuel, more, hf, hr => by
      obtain ⟨f, rfl⟩ : ∃ f, fuel = f + 1 := ⟨fuel - 1, by simp [XItem.size] at hf; omega⟩
      exact jDecodeValue_scalar hT hR (.mask tag m v) (by simp [XItem.ty]) f more hr
    | .long tag v, H, top, fuel, more, hf, hr => by
      obtain ⟨f, rfl⟩ : ∃ f, fuel = f + 1 := ⟨fuel - 1, by simp [XItem.size] at hf; omega⟩
      exact jDecodeValue_scalar hT hR (.long tag v) (by simp [XItem.ty]) f more hr
    | .big tag v, H, top, fuel, more, hf, hr => by
      obtain ⟨f, rfl⟩ : ∃ f, fuel = f + 1 := ⟨fuel - 1, by simp [XItem.size] at hf; omega⟩
      exact jDecodeValue_scalar hT hR (.big tag v) (by simp [XItem.ty]) f more hr
    | .enum tag e v, H, top, fuel, more, hf, hr => by
      obtain ⟨f, rfl⟩ : ∃ f, fuel = f + 1 := ⟨fuel - 1, by simp [XItem.size] at hf; omega⟩
      exact jDecodeValue_scalar hT hR (.enum tag e v) (by simp [XItem.ty]) f more hr
    | .bool tag b, H, top, fuel, more, hf, hr => by
      obtain ⟨f, rfl⟩ : ∃ f, fuel = f + 1 := ⟨fuel - 1, by simp [XItem.size] at hf; omega⟩
      exact jDecodeValue_scalar hT hR (.bool tag b) (by simp [XItem.ty]) f more hr
    | .text tag s, H, top, fuel, more, hf, hr => by
      obtain ⟨f, rfl⟩ : ∃ f, fuel = f + 1 := ⟨fuel - 1, by simp [XItem.size] at hf; omega⟩
      exact jDecodeValue_scalar hT hR (.text tag s) (by simp [XItem.ty]) f more hr
    | .bytes tag s, H, top, fuel, more, hf, hr => by
      obtain ⟨f, rfl⟩ : ∃ f, fuel = f + 1 := ⟨fuel - 1, by simp [XItem.size] at hf; omega⟩
      exact jDecodeValue_scalar hT hR (.bytes tag s) (by simp [XItem.ty]) f more hr
    | .date tag v, H, top, fuel, more, hf, hr => by
      obtain ⟨f, rfl⟩ : ∃ f, fuel = f + 1 := ⟨fuel - 1, by simp [XItem.size] at hf; omega⟩
      exact jDecodeValue_scalar hT hR (.date tag v) (by simp [XItem.ty]) f more hr
    | .interval tag v, H, top, fuel, more, hf, hr => by
      obtain ⟨f, rfl⟩ : ∃ f, fuel = f + 1 := ⟨fuel - 1, by simp [XItem.size] at hf; omega⟩
      exact jDecodeValue_scalar hT hR (.interval tag v) (by simp [XItem.ty]) f more hr
  theorem jDecodeFields_write : ∀ (cs : List XItem) (Hs : Nat → Hints) (fuel : Nat), XItem.sizeList cs ≤ fuel →
      XItem.representableList R Hs cs = true →
      jDecodeFields T R Hs fuel ⟨jsonWriteList T R cs⟩ = .ok cs
    | [], Hs, fuel, hf, _ => by
      obtain ⟨f, rfl⟩ : ∃ f, fuel = f + 1 := ⟨fuel - 1, by simp [XItem.sizeList] at hf; omega⟩
      simp [jsonWriteList, jDecodeFields, JCur.tag, JCur.get]
    | c :: cs, Hs, fuel, hf, hr => by
      obtain ⟨f, rfl⟩ : ∃ f, fuel = f + 1 := ⟨fuel - 1, by simp [XItem.sizeList] at hf; omega⟩
      simp only [XItem.representableList, Bool.and_eq_true] at hr
      have h1 : c.size ≤ f := by simp [XItem.sizeList] at hf; omega
      have h2 : XItem.sizeList cs ≤ f := by simp [XItem.sizeList] at hf; omega
      have hv := jDecodeValue_write c (Hs 0) false f (jsonWriteList T R cs) h1 hr.1
      have htag := XItem.tagPos_of_rep hr.1
      have hcur : JCur.tag T ⟨jsonWrite T R c :: jsonWriteList T R cs⟩ = c.tag := by
        cases c <;> simp only [jsonWrite, XItem.tag] <;>
          exact jtag_jsonElem T hT _ (XItem.tagOk_of_rep hr.1) _ _
      simp only [jsonWriteList]
      rw [jDecodeFields, hcur]
      have hne : ¬ c.tag = 0 := by omega
      simp only [hne, if_false]
      rw [hv]
      simp only [Res.ok_bind]
      rw [jDecodeFields_write cs (hintsTail Hs) f h2 hr.2]
      rfl
end

omit hR in
theorem jtag_write {H : Hints} (t : XItem) (hr : t.representableG top R H = true) (more : List JVal) :
    JCur.tag T ⟨jsonWrite T R t :: more⟩ = t.tag := by
  cases t <;> simp only [jsonWrite, XItem.tag] <;>
    exact jtag_jsonElem T hT _ (XItem.tagOk_of_rep hr) _ _

end

theorem jsize_pos (j : JVal) : 1 ≤ j.size := by cases j <;> simp [JVal.size] <;> omega

mutual
  theorem size_le_jsize (T : Tables) (R : Rfc3339) : ∀ t : XItem, t.size + 1 ≤ 2 * (jsonWrite T R t).size
    | .struct tag cs => by
      have := sizeList_le_jsize T R cs
      simp [jsonWrite, jsonElem, JVal.size, JVal.sizeFields, JVal.sizeField, XItem.size]; omega
    | .int tag v => by
      have := jsize_pos (jsonWrite T R (.int tag v))
      simp [XItem.size]; omega
    | .mask tag m v => by
      have := jsize_pos (jsonWrite T R (.mask tag m v))
      simp [XItem.size]; omega
    | .long tag v => by
      have := jsize_pos (jsonWrite T R (.long tag v))
      simp [XItem.size]; omega
    | .big tag v => by
      have := jsize_pos (jsonWrite T R (.big tag v))
      simp [XItem.size]; omega
    | .enum tag e v => by
      have := jsize_pos (jsonWrite T R (.enum tag e v))
      simp [XItem.size]; omega
    | .bool tag b => by
      have := jsize_pos (jsonWrite T R (.bool tag b))
      simp [XItem.size]; omega
    | .text tag s => by
      have := jsize_pos (jsonWrite T R (.text tag s))
      simp [XItem.size]; omega
    | .bytes tag s => by
      have := jsize_pos (jsonWrite T R (.bytes tag s))
      simp [XItem.size]; omega
    | .date tag v => by
      have := jsize_pos (jsonWrite T R (.date tag v))
      simp [XItem.size]; omega
    | .interval tag v => by
      have := jsize_pos (jsonWrite T R (.interval tag v))
      simp [XItem.size]; omega
  theorem sizeList_le_jsize (T : Tables) (R : Rfc3339) : ∀ cs : List XItem,
      XItem.sizeList cs ≤ 2 * JVal.sizeList (jsonWriteList T R cs) + 1
    | [] => by simp [XItem.sizeList, jsonWriteList, JVal.sizeList]
    | c :: cs => by
      have h1 := size_le_jsize T R c
      have h2 := sizeList_le_jsize T R cs
      simp [XItem.sizeList, jsonWriteList, JVal.sizeList]; omega
end

/-- JSON: the reader reads back every representable tree the writer wrote. -/
theorem jsonRead_write {T : Tables} (hT : T.WF) {R : Rfc3339} (hR : R.Lawful) {H : Hints} {top : Bool}
    (t : XItem)
    (hr : t.representableG top R H = true) : jsonRead T R H (jsonWrite T R t) = .ok t := by
  unfold jsonRead
  simp only [jtag_write hT (R := R) t hr []]
  rw [jDecodeValue_write hT hR t H top _ [] (by have := size_le_jsize T R t; omega) hr]
  rfl


/-! ## 11. what the readers return is normalised (towards C18: alternative lexical forms on input) -/

/-- values of the name ↦ number tables fit 32 bits (they are Go `uint32` / `int32` map values). -/
structure Tables.Bounded (T : Tables) : Prop where
  newTags : T.oldTags = false
  tagVals : ∀ p ∈ T.tagByName, p.2 < 2 ^ 24
  enumVals : ∀ e ∈ T.enums, ∀ p ∈ e.2.2, p.2 < 2 ^ 32
  maskVals : ∀ m ∈ T.masks, ∀ p ∈ m.2.2, p.2 < 2 ^ 32

mutual
  /-- every value is in the range of its Go type and every annotation is the reader's hint at that
      position. -/
  def XItem.normal (H : Hints) : XItem → Bool
    | .struct _ cs => XItem.normalList H.child cs
    | .int t v => int32Ok v && decide ((H [] t).mask = none)
    | .mask t m v => int32Ok v && decide ((H [] t).mask = some m)
    | .long _ v => int64Ok v
    | .enum t e v => decide (v < 4294967296) && decide ((H [] t).enumTag = e)
    | .interval _ v => decide (v < 4294967296)
    | _ => true
  def XItem.normalList (Hs : Nat → Hints) : List XItem → Bool
    | [] => true
    | x :: xs => x.normal (Hs 0) && XItem.normalList (hintsTail Hs) xs
end

mutual
  /-- every tag is a 24-bit KMIP tag (the root's may be 0 when `top`), every date passes the year test. -/
  def XItem.inDomainG (top : Bool) (R : Rfc3339) : XItem → Bool
    | .struct t cs => rootTagOk top t && XItem.inDomainList R cs
    | .date t v => rootTagOk top t && R.inYears v
    | x => rootTagOk top x.tag
  def XItem.inDomainList (R : Rfc3339) : List XItem → Bool
    | [] => true
    | x :: xs => x.inDomainG false R && XItem.inDomainList R xs
end

mutual
  theorem rep_of_normal (R : Rfc3339) (top : Bool) : ∀ (t : XItem) (H : Hints), t.normal H = true →
      t.inDomainG top R = true → t.representableG top R H = true
    | .struct t cs, H, hn, hd => by
      simp only [XItem.normal] at hn
      simp only [XItem.inDomainG, Bool.and_eq_true] at hd
      simp only [XItem.representableG, Bool.and_eq_true]
      exact ⟨hd.1, repList_of_normal R cs H.child hn hd.2⟩
    | .int t v, H, hn, hd => by
      simp only [XItem.normal, Bool.and_eq_true] at hn
      simp only [XItem.inDomainG, XItem.tag] at hd
      simp only [XItem.representableG, Bool.and_eq_true]; exact ⟨⟨hd, hn.1⟩, hn.2⟩
    | .mask t m v, H, hn, hd => by
      simp only [XItem.normal, Bool.and_eq_true] at hn
      simp only [XItem.inDomainG, XItem.tag] at hd
      simp only [XItem.representableG, Bool.and_eq_true]; exact ⟨⟨hd, hn.1⟩, hn.2⟩
    | .long t v, H, hn, hd => by
      simp only [XItem.normal] at hn
      simp only [XItem.inDomainG, XItem.tag] at hd
      simp only [XItem.representableG, Bool.and_eq_true]; exact ⟨hd, hn⟩
    | .big t v, H, _, hd => by
      simp only [XItem.inDomainG, XItem.tag] at hd
      simp only [XItem.representableG]; exact hd
    | .enum t e v, H, hn, hd => by
      simp only [XItem.normal, Bool.and_eq_true] at hn
      simp only [XItem.inDomainG, XItem.tag] at hd
      simp only [XItem.representableG, Bool.and_eq_true]; exact ⟨⟨hd, hn.1⟩, hn.2⟩
    | .bool t b, H, _, hd => by
      simp only [XItem.inDomainG, XItem.tag] at hd
      simp only [XItem.representableG]; exact hd
    | .text t s, H, _, hd => by
      simp only [XItem.inDomainG, XItem.tag] at hd
      simp only [XItem.representableG]; exact hd
    | .bytes t s, H, _, hd => by
      simp only [XItem.inDomainG, XItem.tag] at hd
      simp only [XItem.representableG]; exact hd
    | .date t v, H, _, hd => by
      simp only [XItem.inDomainG] at hd
      simp only [XItem.representableG]; exact hd
    | .interval t v, H, hn, hd => by
      simp only [XItem.normal] at hn
      simp only [XItem.inDomainG, XItem.tag] at hd
      simp only [XItem.representableG, Bool.and_eq_true]; exact ⟨hd, hn⟩
  theorem repList_of_normal (R : Rfc3339) : ∀ (cs : List XItem) (Hs : Nat → Hints), XItem.normalList Hs cs = true →
      XItem.inDomainList R cs = true → XItem.representableList R Hs cs = true
    | [], _, _, _ => rfl
    | c :: cs, Hs, hn, hd => by
      simp only [XItem.normalList, Bool.and_eq_true] at hn
      simp only [XItem.inDomainList, Bool.and_eq_true] at hd
      simp only [XItem.representableList, Bool.and_eq_true]
      exact ⟨rep_of_normal R false c (Hs 0) hn.1 hd.1, repList_of_normal R cs (hintsTail Hs) hn.2 hd.2⟩
end

/-- a root-domain tree whose root tag is not 0 is in the strict domain. -/
theorem inDomain_strict {R : Rfc3339} {t : XItem} (h : t.inDomainG true R = true) (hne : t.tag ≠ 0) :
    t.inDomainG false R = true := by
  have key : ∀ x : Int, tagOk0 x = true → x ≠ 0 → tagOk x = true := by
    intro x hx h0
    have := tagOk0_iff.mp hx
    exact tagOk_iff.mpr ⟨by omega, this.2⟩
  cases t <;> simp only [XItem.inDomainG, XItem.tag, rootTagOk, if_true, Bool.and_eq_true,
    Bool.false_eq_true, if_false] at h hne ⊢ <;>
    first
    | exact ⟨key _ h.1 hne, h.2⟩
    | exact key _ h hne

theorem bind_eq_ok {α β : Type} {x : Res α} {f : α → Res β} {b : β} (h : (x >>= f) = .ok b) :
    ∃ a, x = .ok a ∧ f a = .ok b := by
  cases x with
  | ok a => exact ⟨a, rfl, h⟩
  | err e => cases h
  | panic m => cases h

theorem ofOpt_eq_ok {α : Type} {o : Option α} {a : α} (h : ofOpt o = .ok a) : o = some a := by
  cases o with
  | none => cases h
  | some x => simp only [ofOpt, Res.ok.injEq] at h; rw [h]

/-! ### ranges of the numeral parsers -/

theorem parseUint_lt {base bits : Nat} {s : Str} {n : Nat} (h : parseUint base bits s = some n) :
    n < 2 ^ bits := by
  unfold parseUint at h
  split at h
  · cases h
  · split at h
    · split at h
      · simp only [Option.some.injEq] at h; omega
      · cases h
    · cases h

theorem parseInt_range {bits : Nat} {s : Str} {v : Int} (h : parseInt 10 bits s = some v) :
    -((2 ^ (bits - 1) : Nat) : Int) ≤ v ∧ v < ((2 ^ (bits - 1) : Nat) : Int) := by
  unfold parseInt at h
  have hpos : 0 < 2 ^ (bits - 1) := Nat.two_pow_pos _
  generalize 2 ^ (bits - 1) = B at h hpos ⊢
  split at h
  · cases h
  · dsimp only at h
    split at h
    · cases h
    · split at h
      · split at h
        · split at h
          · simp only [Option.some.injEq] at h; omega
          · cases h
        · split at h
          · simp only [Option.some.injEq] at h; omega
          · cases h
      · cases h

theorem signedOfNat64_range {n : Nat} (h : n < 2 ^ 64) : int64Ok (signedOfNat 64 n) = true := by
  apply int64Ok_iff.mpr
  unfold signedOfNat
  have e1 : (2 : Nat) ^ (64 - 1) = 9223372036854775808 := by decide
  have e2 : (2 : Nat) ^ 64 = 18446744073709551616 := by decide
  rw [e2] at h
  split <;> rename_i hh <;> rw [e1] at hh <;> (try rw [e2]) <;> omega

theorem signedOfNat32_range {n : Nat} (h : n < 2 ^ 32) : int32Ok (signedOfNat 32 n) = true := by
  apply int32Ok_iff.mpr
  unfold signedOfNat
  have e1 : (2 : Nat) ^ (32 - 1) = 2147483648 := by decide
  have e2 : (2 : Nat) ^ 32 = 4294967296 := by decide
  rw [e2] at h
  split <;> rename_i hh <;> rw [e1] at hh <;> (try rw [e2]) <;> omega

theorem goParseInt64_range {s : Str} {v : Int} (h : goParseInt 64 s = some v) : int64Ok v = true := by
  unfold goParseInt at h
  split at h
  · rename_i rest
    cases hp : parseUint 16 64 rest with
    | none => rw [hp] at h; cases h
    | some n =>
      rw [hp] at h
      simp only [Option.map_some, Option.some.injEq] at h
      rw [← h]; exact signedOfNat64_range (parseUint_lt hp)
  · have := parseInt_range h
    simp at this
    exact int64Ok_iff.mpr ⟨by omega, by omega⟩

theorem goParseUint32_lt {s : Str} {n : Nat} (h : goParseUint 32 s = some n) : n < 2 ^ 32 := by
  unfold goParseUint at h
  split at h <;> exact parseUint_lt h

theorem toInt32_range (p : Int) : int32Ok (toInt32 p) = true :=
  signedOfNat32_range (unsignedOfInt32_lt p)

theorem toU32_lt (i : Int) : toU32 i < 2 ^ 32 := by
  unfold toU32; omega

theorem lookup_bound {t : Table} (hb : ∀ p ∈ t, p.2 < 2 ^ 32) {k v : Nat} (h : lookup k t = some v) :
    v < 2 ^ 32 := hb (k, v) (lookup_mem h)

theorem enumReader_lt {byName : Table} (hb : ∀ p ∈ byName, p.2 < 2 ^ 32) {s : Str} {v : Nat}
    (h : enumFromTextReader byName s = some v) : v < 2 ^ 32 := by
  unfold enumFromTextReader at h
  split at h
  · exact parseUint_lt h
  · split at h
    · rename_i n hn
      simp only [Option.some.injEq] at h; subst h; exact parseUint_lt hn
    · exact lookup_bound hb h

theorem maskPart_lt {byName : Table} (hb : ∀ p ∈ byName, p.2 < 2 ^ 32) {tf : Bool} {p : Str} {v : Nat}
    (h : maskPart tf byName p = some v) : v < 2 ^ 32 := by
  unfold maskPart at h
  split at h
  · exact parseUint_lt h
  · split at h
    · simp only [Option.some.injEq] at h; subst h; exact toU32_lt _
    · exact lookup_bound hb h

theorem maskFold_lt {byName : Table} (hb : ∀ p ∈ byName, p.2 < 2 ^ 32) {tf : Bool} :
    ∀ (ps : List Str) (acc v : Nat), acc < 2 ^ 32 → maskFold tf byName ps acc = some v → v < 2 ^ 32
  | [], acc, v, ha, h => by simp only [maskFold, Option.some.injEq] at h; omega
  | p :: ps, acc, v, ha, h => by
    simp only [maskFold] at h
    split at h
    · rename_i b hb'
      exact maskFold_lt hb ps _ v (Nat.or_lt_two_pow ha (maskPart_lt hb hb')) h
    · cases h

theorem Tables.Bounded.enum (h : T.Bounded) (g : Int) : ∀ p ∈ enumByN T g, p.2 < 2 ^ 32 := by
  unfold enumByN
  by_cases hg : g < 0
  · simp [hg]
  · simp only [hg, if_false]
    have := enum_forall (ix := T.enums) (P := fun _ bn => ∀ p ∈ bn, p.2 < 2 ^ 32) (by simp) h.enumVals g.toNat
    exact this

theorem Tables.Bounded.mask (h : T.Bounded) (g : Int) : ∀ p ∈ maskByN T g, p.2 < 2 ^ 32 := by
  unfold maskByN
  by_cases hg : g < 0
  · simp [hg]
  · simp only [hg, if_false]
    have := mask_forall (ix := T.masks) (P := fun _ bn => ∀ p ∈ bn, p.2 < 2 ^ 32) (by simp) h.maskVals g.toNat
    exact this

/-! ### XML conversions return in-range values -/

theorem xInteger_range {s : Str} {v : Int} (h : xInteger s = .ok v) : int32Ok v = true := by
  unfold xInteger at h
  split at h
  · simp only [Res.ok.injEq] at h; subst h; exact toInt32_range _
  · cases h

theorem xLong_range {s : Str} {v : Int} (h : xLong s = .ok v) : int64Ok v = true :=
  goParseInt64_range (ofOpt_eq_ok h)

theorem xEnum_range {byName : Table} (hb : ∀ p ∈ byName, p.2 < 2 ^ 32) {s : Str} {v : Nat}
    (h : xEnum byName s = .ok v) : v < 2 ^ 32 :=
  enumReader_lt hb (ofOpt_eq_ok h)

theorem xInterval_range {s : Str} {v : Nat} (h : xInterval s = .ok v) : v < 2 ^ 32 :=
  goParseUint32_lt (ofOpt_eq_ok h)

theorem xMask_range {byName : Table} (hb : ∀ p ∈ byName, p.2 < 2 ^ 32) {s : Str} {v : Int}
    (h : xMask byName s = .ok v) : int32Ok v = true := by
  unfold xMask at h
  split at h
  · rename_i p hp
    simp only [Res.ok.injEq] at h; subst h
    exact signedOfNat32_range (maskFold_lt hb _ 0 p (by decide) hp)
  · cases h

theorem scalar_inv {α : Type} {T : Tables} {c c' : XCur} {ty : Nat} {tag : Int} {conv : Str → Res α} {v : α}
    (h : c.scalar T ty tag conv = .ok (v, c')) : ∃ s, conv s = .ok v ∧ c.tag T = tag := by
  unfold XCur.scalar at h
  split at h
  · cases h
  · split at h
    · cases h
    · split at h
      · cases h
      · obtain ⟨v', h1, h2⟩ := bind_eq_ok h
        obtain ⟨c'', _, h3⟩ := bind_eq_ok h2
        simp only [Res.pure_eq, Res.ok.injEq, Prod.mk.injEq] at h3
        rename_i htag _ _
        exact ⟨_, h3.1 ▸ h1, Decidable.of_not_not htag⟩

/-- whatever document the XML reader accepts, the tree it returns is normalised. -/
theorem xDecode_normal {T : Tables} (hB : T.Bounded) {R : Rfc3339} : ∀ fuel : Nat,
    (∀ H c tag t c', xDecodeValue T R H fuel c tag = .ok (t, c') → t.normal H = true) ∧
    (∀ Hs c ts c', xDecodeFields T R Hs fuel c = .ok (ts, c') → XItem.normalList Hs ts = true) := by
  intro fuel
  induction fuel with
  | zero =>
    constructor
    · intro H c tag t c' h; simp [xDecodeValue] at h
    · intro Hs c ts c' h; simp [xDecodeFields] at h
  | succ fuel ih =>
    constructor
    · intro H c tag t c' h
      rw [xDecodeValue] at h
      split at h
      · -- Integer / mask
        split at h
        · obtain ⟨⟨v, c1⟩, h1, h2⟩ := bind_eq_ok h
          simp only [Res.pure_eq, Res.ok.injEq, Prod.mk.injEq] at h2
          obtain ⟨rfl, rfl⟩ := h2
          obtain ⟨s, hs, -⟩ := scalar_inv h1
          rename_i hm
          simp [XItem.normal, xInteger_range hs, hm]
        · obtain ⟨⟨v, c1⟩, h1, h2⟩ := bind_eq_ok h
          simp only [Res.pure_eq, Res.ok.injEq, Prod.mk.injEq] at h2
          obtain ⟨rfl, rfl⟩ := h2
          obtain ⟨s, hs, -⟩ := scalar_inv h1
          rename_i m hm
          simp [XItem.normal, xMask_range (hB.mask _) hs, hm]
      · obtain ⟨⟨v, c1⟩, h1, h2⟩ := bind_eq_ok h
        simp only [Res.pure_eq, Res.ok.injEq, Prod.mk.injEq] at h2
        obtain ⟨rfl, rfl⟩ := h2
        obtain ⟨s, hs, -⟩ := scalar_inv h1
        simp [XItem.normal, xLong_range hs]
      · obtain ⟨⟨v, c1⟩, h1, h2⟩ := bind_eq_ok h
        simp only [Res.pure_eq, Res.ok.injEq, Prod.mk.injEq] at h2
        obtain ⟨rfl, rfl⟩ := h2
        simp [XItem.normal]
      · obtain ⟨⟨v, c1⟩, h1, h2⟩ := bind_eq_ok h
        simp only [Res.pure_eq, Res.ok.injEq, Prod.mk.injEq] at h2
        obtain ⟨rfl, rfl⟩ := h2
        simp [XItem.normal]
      · obtain ⟨⟨v, c1⟩, h1, h2⟩ := bind_eq_ok h
        simp only [Res.pure_eq, Res.ok.injEq, Prod.mk.injEq] at h2
        obtain ⟨rfl, rfl⟩ := h2
        simp [XItem.normal]
      · obtain ⟨⟨v, c1⟩, h1, h2⟩ := bind_eq_ok h
        simp only [Res.pure_eq, Res.ok.injEq, Prod.mk.injEq] at h2
        obtain ⟨rfl, rfl⟩ := h2
        simp [XItem.normal]
      · obtain ⟨⟨v, c1⟩, h1, h2⟩ := bind_eq_ok h
        simp only [Res.pure_eq, Res.ok.injEq, Prod.mk.injEq] at h2
        obtain ⟨rfl, rfl⟩ := h2
        obtain ⟨s, hs, -⟩ := scalar_inv h1
        have := xEnum_range (hB.enum _) hs
        simp only [XItem.normal, Bool.and_eq_true, decide_eq_true_eq]
        exact ⟨by simpa using this, trivial⟩
      · obtain ⟨⟨v, c1⟩, h1, h2⟩ := bind_eq_ok h
        simp only [Res.pure_eq, Res.ok.injEq, Prod.mk.injEq] at h2
        obtain ⟨rfl, rfl⟩ := h2
        obtain ⟨s, hs, -⟩ := scalar_inv h1
        have := xInterval_range hs
        simp only [XItem.normal, decide_eq_true_eq]
        simpa using this
      · obtain ⟨⟨v, c1⟩, h1, h2⟩ := bind_eq_ok h
        simp only [Res.pure_eq, Res.ok.injEq, Prod.mk.injEq] at h2
        obtain ⟨rfl, rfl⟩ := h2
        simp [XItem.normal]
      · -- Structure
        split at h
        · cases h
        · split at h
          · cases h
          · obtain ⟨sub, _, h⟩ := bind_eq_ok h
            obtain ⟨⟨cs, sub'⟩, h2, h⟩ := bind_eq_ok h
            obtain ⟨sub'', _, h⟩ := bind_eq_ok h
            obtain ⟨c1, _, h⟩ := bind_eq_ok h
            simp only [Res.pure_eq, Res.ok.injEq, Prod.mk.injEq] at h
            obtain ⟨rfl, rfl⟩ := h
            simp only [XItem.normal]
            exact ih.2 _ _ _ _ h2
      · cases h
    · intro Hs c ts c' h
      rw [xDecodeFields] at h
      split at h
      · simp only [Res.ok.injEq, Prod.mk.injEq] at h
        obtain ⟨rfl, rfl⟩ := h
        rfl
      · obtain ⟨⟨it, c1⟩, h1, h⟩ := bind_eq_ok h
        obtain ⟨⟨rest, c2⟩, h2, h⟩ := bind_eq_ok h
        simp only [Res.pure_eq, Res.ok.injEq, Prod.mk.injEq] at h
        obtain ⟨rfl, rfl⟩ := h
        simp only [XItem.normalList, Bool.and_eq_true]
        exact ⟨ih.1 _ _ _ _ _ h1, ih.2 _ _ _ _ h2⟩

theorem xmlReadToks_normal {T : Tables} (hB : T.Bounded) {R : Rfc3339} {H : Hints} {toks : List Tok}
    {t : XItem} (h : xmlReadToks T R H toks = .ok t) : t.normal H = true := by
  unfold xmlReadToks at h
  obtain ⟨c, _, h⟩ := bind_eq_ok h
  obtain ⟨⟨it, c'⟩, h1, h⟩ := bind_eq_ok h
  simp only [Res.pure_eq, Res.ok.injEq] at h
  subst h
  exact (xDecode_normal hB _).1 _ _ _ _ _ h1

/-! ### JSON conversions return in-range values -/

theorem inRange_some {lo hi v w : Int} (h : inRange lo hi v = some w) : w = v ∧ lo ≤ v ∧ v ≤ hi := by
  unfold inRange at h
  split at h
  · simp only [Option.some.injEq] at h; exact ⟨h.symm, ‹_›⟩
  · cases h

theorem bind_inRange {o : Option Int} {lo hi w : Int} (h : o.bind (inRange lo hi) = some w) :
    lo ≤ w ∧ w ≤ hi := by
  cases o with
  | none => cases h
  | some x =>
    have := inRange_some (show inRange lo hi x = some w from h)
    omega

theorem int64OfNum_range {v w : Int} {il : Bool} (h : int64OfNum v il = some w) : int64Ok w = true := by
  unfold int64OfNum at h
  split at h
  · rename_i hc
    simp only [Option.some.injEq] at h; subst h
    simp only [Bool.and_eq_true, decide_eq_true_eq] at hc
    exact int64Ok_iff.mpr ⟨hc.1.2, hc.2⟩
  · cases h

theorem jInteger_range {j : Option JVal} {v : Int} (h : jInteger j = .ok v) : int32Ok v = true := by
  unfold jInteger at h
  split at h
  · exact int32Ok_iff.mpr (bind_inRange (ofOpt_eq_ok h))
  · exact int32Ok_iff.mpr (bind_inRange (ofOpt_eq_ok h))
  · cases h

theorem jLong_range {j : Option JVal} {v : Int} (h : jLong j = .ok v) : int64Ok v = true := by
  unfold jLong at h
  split at h
  · exact int64OfNum_range (ofOpt_eq_ok h)
  · exact goParseInt64_range (ofOpt_eq_ok h)
  · cases h

theorem map_toNat_lt {o : Option Int} {n : Nat} (h : (o.bind (inRange 0 4294967295)).map Int.toNat = some n) :
    n < 2 ^ 32 := by
  cases hb : o.bind (inRange 0 4294967295) with
  | none => rw [hb] at h; cases h
  | some w =>
    rw [hb] at h
    simp only [Option.map_some, Option.some.injEq] at h
    have := bind_inRange hb
    simp; omega

theorem jEnum_range {byName : Table} (hb : ∀ p ∈ byName, p.2 < 2 ^ 32) {j : Option JVal} {v : Nat}
    (h : jEnum byName j = .ok v) : v < 2 ^ 32 := by
  unfold jEnum at h
  split at h
  · exact map_toNat_lt (ofOpt_eq_ok h)
  · exact enumReader_lt hb (ofOpt_eq_ok h)
  · cases h

theorem jInterval_range {j : Option JVal} {v : Nat} (h : jInterval j = .ok v) : v < 2 ^ 32 := by
  unfold jInterval at h
  split at h
  · exact map_toNat_lt (ofOpt_eq_ok h)
  · exact goParseUint32_lt (ofOpt_eq_ok h)
  · cases h

theorem jMask_range {byName : Table} (hb : ∀ p ∈ byName, p.2 < 2 ^ 32) {j : Option JVal} {v : Int}
    (h : jMask byName j = .ok v) : int32Ok v = true := by
  unfold jMask at h
  split at h
  · exact int32Ok_iff.mpr (bind_inRange (ofOpt_eq_ok h))
  · rename_i s
    have h' := ofOpt_eq_ok h
    cases hm : maskFromTextJson byName s with
    | none => rw [hm] at h'; cases h'
    | some p =>
      rw [hm] at h'
      simp only [Option.map_some, Option.some.injEq] at h'
      subst h'
      exact signedOfNat32_range (maskFold_lt hb _ 0 p (by decide) hm)
  · cases h

theorem jscalar_inv {α : Type} {T : Tables} {c c' : JCur} {ty : Nat} {tag : Int}
    {conv : Option JVal → Res α} {v : α} (h : c.scalar T ty tag conv = .ok (v, c')) :
    ∃ j, conv j = .ok v ∧ c.tag T = tag := by
  unfold JCur.scalar at h
  split at h
  · cases h
  · split at h
    · cases h
    · split at h
      · cases h
      · obtain ⟨v', h1, h2⟩ := bind_eq_ok h
        simp only [Res.pure_eq, Res.ok.injEq, Prod.mk.injEq] at h2
        rename_i htag _
        exact ⟨_, h2.1 ▸ h1, Decidable.of_not_not htag⟩

/-- whatever document the JSON reader accepts, the tree it returns is normalised. -/
theorem jDecode_normal {T : Tables} (hB : T.Bounded) {R : Rfc3339} : ∀ fuel : Nat,
    (∀ H c tag t c', jDecodeValue T R H fuel c tag = .ok (t, c') → t.normal H = true) ∧
    (∀ Hs c ts, jDecodeFields T R Hs fuel c = .ok ts → XItem.normalList Hs ts = true) := by
  intro fuel
  induction fuel with
  | zero =>
    constructor
    · intro H c tag t c' h; simp [jDecodeValue] at h
    · intro Hs c ts h; simp [jDecodeFields] at h
  | succ fuel ih =>
    constructor
    · intro H c tag t c' h
      rw [jDecodeValue] at h
      split at h
      · split at h
        · obtain ⟨⟨v, c1⟩, h1, h2⟩ := bind_eq_ok h
          simp only [Res.pure_eq, Res.ok.injEq, Prod.mk.injEq] at h2
          obtain ⟨rfl, rfl⟩ := h2
          obtain ⟨s, hs, -⟩ := jscalar_inv h1
          rename_i hm
          simp [XItem.normal, jInteger_range hs, hm]
        · obtain ⟨⟨v, c1⟩, h1, h2⟩ := bind_eq_ok h
          simp only [Res.pure_eq, Res.ok.injEq, Prod.mk.injEq] at h2
          obtain ⟨rfl, rfl⟩ := h2
          obtain ⟨s, hs, -⟩ := jscalar_inv h1
          rename_i m hm
          simp [XItem.normal, jMask_range (hB.mask _) hs, hm]
      · obtain ⟨⟨v, c1⟩, h1, h2⟩ := bind_eq_ok h
        simp only [Res.pure_eq, Res.ok.injEq, Prod.mk.injEq] at h2
        obtain ⟨rfl, rfl⟩ := h2
        obtain ⟨s, hs, -⟩ := jscalar_inv h1
        simp [XItem.normal, jLong_range hs]
      · obtain ⟨⟨v, c1⟩, h1, h2⟩ := bind_eq_ok h
        simp only [Res.pure_eq, Res.ok.injEq, Prod.mk.injEq] at h2
        obtain ⟨rfl, rfl⟩ := h2
        simp [XItem.normal]
      · obtain ⟨⟨v, c1⟩, h1, h2⟩ := bind_eq_ok h
        simp only [Res.pure_eq, Res.ok.injEq, Prod.mk.injEq] at h2
        obtain ⟨rfl, rfl⟩ := h2
        simp [XItem.normal]
      · obtain ⟨⟨v, c1⟩, h1, h2⟩ := bind_eq_ok h
        simp only [Res.pure_eq, Res.ok.injEq, Prod.mk.injEq] at h2
        obtain ⟨rfl, rfl⟩ := h2
        simp [XItem.normal]
      · obtain ⟨⟨v, c1⟩, h1, h2⟩ := bind_eq_ok h
        simp only [Res.pure_eq, Res.ok.injEq, Prod.mk.injEq] at h2
        obtain ⟨rfl, rfl⟩ := h2
        simp [XItem.normal]
      · obtain ⟨⟨v, c1⟩, h1, h2⟩ := bind_eq_ok h
        simp only [Res.pure_eq, Res.ok.injEq, Prod.mk.injEq] at h2
        obtain ⟨rfl, rfl⟩ := h2
        obtain ⟨s, hs, -⟩ := jscalar_inv h1
        have := jEnum_range (hB.enum _) hs
        simp only [XItem.normal, Bool.and_eq_true, decide_eq_true_eq]
        exact ⟨by simpa using this, trivial⟩
      · obtain ⟨⟨v, c1⟩, h1, h2⟩ := bind_eq_ok h
        simp only [Res.pure_eq, Res.ok.injEq, Prod.mk.injEq] at h2
        obtain ⟨rfl, rfl⟩ := h2
        obtain ⟨s, hs, -⟩ := jscalar_inv h1
        have := jInterval_range hs
        simp only [XItem.normal, decide_eq_true_eq]
        simpa using this
      · obtain ⟨⟨v, c1⟩, h1, h2⟩ := bind_eq_ok h
        simp only [Res.pure_eq, Res.ok.injEq, Prod.mk.injEq] at h2
        obtain ⟨rfl, rfl⟩ := h2
        simp [XItem.normal]
      · split at h
        · cases h
        · split at h
          · cases h
          · split at h
            · obtain ⟨cs, h2, h⟩ := bind_eq_ok h
              simp only [Res.pure_eq, Res.ok.injEq, Prod.mk.injEq] at h
              obtain ⟨rfl, rfl⟩ := h
              simp only [XItem.normal]
              exact ih.2 _ _ _ h2
            · cases h
      · cases h
    · intro Hs c ts h
      rw [jDecodeFields] at h
      split at h
      · simp only [Res.ok.injEq] at h
        subst h
        rfl
      · obtain ⟨⟨it, c1⟩, h1, h⟩ := bind_eq_ok h
        obtain ⟨rest, h2, h⟩ := bind_eq_ok h
        simp only [Res.pure_eq, Res.ok.injEq] at h
        subst h
        simp only [XItem.normalList, Bool.and_eq_true]
        exact ⟨ih.1 _ _ _ _ _ h1, ih.2 _ _ _ h2⟩

theorem jsonRead_normal {T : Tables} (hB : T.Bounded) {R : Rfc3339} {H : Hints} {j : JVal}
    {t : XItem} (h : jsonRead T R H j = .ok t) : t.normal H = true := by
  unfold jsonRead at h
  obtain ⟨⟨it, c'⟩, h1, h⟩ := bind_eq_ok h
  simp only [Res.pure_eq, Res.ok.injEq] at h
  subst h
  exact (jDecode_normal hB _).1 _ _ _ _ _ h1



/-! ## 12. … and lies in the domain: tags are KMIP tags (0 at the root only), dates pass the year test -/

theorem tagOfText_ok {T : Tables} (hB : T.Bounded) (s : Str) : tagOk0 (T.tagOfText s) = true := by
  apply tagOk0_iff.mpr
  simp only [Tables.tagOfText, hB.newTags, Bool.false_eq_true, if_false]
  unfold tagFromText
  split
  · omega
  · split
    · rename_i n hn
      have := parseUint_lt hn
      simp at this; omega
    · omega
  · split
    · rename_i t ht
      have := hB.tagVals _ (lookup_mem ht)
      simp at this; omega
    · omega

theorem xDate_inYears {R : Rfc3339} {s : Str} {v : Int} (h : xDate R s = .ok v) : R.inYears v = true := by
  unfold xDate at h
  split at h
  · split at h
    · rename_i hy
      simp only [Res.ok.injEq] at h; subst h; exact hy
    · cases h
  · cases h

theorem jDate_inYears {R : Rfc3339} (hR : R.Lawful) {j : Option JVal} {v : Int} (h : jDate R j = .ok v) :
    R.inYears v = true := by
  unfold jDate at h
  split at h
  · split at h
    · cases h
    · dsimp only at h
      split at h
      · cases h
      · split at h
        · cases h
        · rename_i h0 h1
          simp only [Res.ok.injEq] at h; subst h
          exact hR.years _ (by unfold minEpoch; omega) (by omega)
  · exact xDate_inYears h
  · cases h

/-- the XML reader: tags and dates of what it returns. -/
theorem xDecode_domain {T : Tables} (hB : T.Bounded) {R : Rfc3339} : ∀ fuel : Nat,
    (∀ H c tag t c', xDecodeValue T R H fuel c tag = .ok (t, c') → t.inDomainG true R = true ∧ t.tag = tag) ∧
    (∀ Hs c ts c', xDecodeFields T R Hs fuel c = .ok (ts, c') → XItem.inDomainList R ts = true) := by
  intro fuel
  induction fuel with
  | zero =>
    constructor
    · intro H c tag t c' h; simp [xDecodeValue] at h
    · intro Hs c ts c' h; simp [xDecodeFields] at h
  | succ fuel ih =>
    constructor
    · intro H c tag t c' h
      have hk : ∀ c : XCur, rootTagOk true (c.tag T) = true := fun c => by
        simpa [rootTagOk, XCur.tag] using tagOfText_ok hB c.rawTag
      rw [xDecodeValue] at h
      split at h
      · split at h <;>
        · obtain ⟨⟨v, c1⟩, h1, h2⟩ := bind_eq_ok h
          simp only [Res.pure_eq, Res.ok.injEq, Prod.mk.injEq] at h2
          obtain ⟨rfl, rfl⟩ := h2
          obtain ⟨s, -, rfl⟩ := scalar_inv h1
          exact ⟨by simp only [XItem.inDomainG, XItem.tag]; exact hk c, rfl⟩
      all_goals try
        (obtain ⟨⟨v, c1⟩, h1, h2⟩ := bind_eq_ok h
         simp only [Res.pure_eq, Res.ok.injEq, Prod.mk.injEq] at h2
         obtain ⟨rfl, rfl⟩ := h2
         obtain ⟨s, hs, rfl⟩ := scalar_inv h1
         first
          | exact ⟨by simp only [XItem.inDomainG, XItem.tag]; exact hk c, rfl⟩
          | exact ⟨by simp only [XItem.inDomainG, Bool.and_eq_true]; exact ⟨hk c, xDate_inYears hs⟩, rfl⟩)
      · -- Structure
        split at h
        · cases h
        · split at h
          · cases h
          · rename_i htag
            have htag' : c.tag T = tag := Decidable.of_not_not htag
            obtain ⟨sub, _, h⟩ := bind_eq_ok h
            obtain ⟨⟨cs, sub'⟩, h2, h⟩ := bind_eq_ok h
            obtain ⟨sub'', _, h⟩ := bind_eq_ok h
            obtain ⟨c1, _, h⟩ := bind_eq_ok h
            simp only [Res.pure_eq, Res.ok.injEq, Prod.mk.injEq] at h
            obtain ⟨rfl, rfl⟩ := h
            subst htag'
            exact ⟨by simp only [XItem.inDomainG, Bool.and_eq_true]; exact ⟨hk c, ih.2 _ _ _ _ h2⟩, rfl⟩
      · cases h
    · intro Hs c ts c' h
      rw [xDecodeFields] at h
      split at h
      · simp only [Res.ok.injEq, Prod.mk.injEq] at h
        obtain ⟨rfl, rfl⟩ := h
        rfl
      · rename_i hne
        obtain ⟨⟨it, c1⟩, h1, h⟩ := bind_eq_ok h
        obtain ⟨⟨rest, c2⟩, h2, h⟩ := bind_eq_ok h
        simp only [Res.pure_eq, Res.ok.injEq, Prod.mk.injEq] at h
        obtain ⟨rfl, rfl⟩ := h
        have ⟨hd, ht⟩ := ih.1 _ _ _ _ _ h1
        simp only [XItem.inDomainList, Bool.and_eq_true]
        exact ⟨inDomain_strict hd (by rw [ht]; exact hne), ih.2 _ _ _ _ h2⟩

/-- the JSON reader: tags and dates of what it returns. -/
theorem jDecode_domain {T : Tables} (hB : T.Bounded) {R : Rfc3339} (hR : R.Lawful) : ∀ fuel : Nat,
    (∀ H c tag t c', jDecodeValue T R H fuel c tag = .ok (t, c') → t.inDomainG true R = true ∧ t.tag = tag) ∧
    (∀ Hs c ts, jDecodeFields T R Hs fuel c = .ok ts → XItem.inDomainList R ts = true) := by
  intro fuel
  induction fuel with
  | zero =>
    constructor
    · intro H c tag t c' h; simp [jDecodeValue] at h
    · intro Hs c ts h; simp [jDecodeFields] at h
  | succ fuel ih =>
    constructor
    · intro H c tag t c' h
      have hk : ∀ c : JCur, rootTagOk true (c.tag T) = true := fun c => by
        have h0 : tagOk0 (0 : Int) = true := by decide
        unfold JCur.tag
        split
        · simpa [rootTagOk] using tagOfText_ok hB _
        · simpa [rootTagOk] using h0
      rw [jDecodeValue] at h
      split at h
      · split at h <;>
        · obtain ⟨⟨v, c1⟩, h1, h2⟩ := bind_eq_ok h
          simp only [Res.pure_eq, Res.ok.injEq, Prod.mk.injEq] at h2
          obtain ⟨rfl, rfl⟩ := h2
          obtain ⟨s, -, rfl⟩ := jscalar_inv h1
          exact ⟨by simp only [XItem.inDomainG, XItem.tag]; exact hk c, rfl⟩
      all_goals try
        (obtain ⟨⟨v, c1⟩, h1, h2⟩ := bind_eq_ok h
         simp only [Res.pure_eq, Res.ok.injEq, Prod.mk.injEq] at h2
         obtain ⟨rfl, rfl⟩ := h2
         obtain ⟨s, hs, rfl⟩ := jscalar_inv h1
         first
          | exact ⟨by simp only [XItem.inDomainG, XItem.tag]; exact hk c, rfl⟩
          | exact ⟨by simp only [XItem.inDomainG, Bool.and_eq_true]; exact ⟨hk c, jDate_inYears hR hs⟩, rfl⟩)
      · split at h
        · cases h
        · split at h
          · cases h
          · rename_i htag
            have htag' : c.tag T = tag := Decidable.of_not_not htag
            split at h
            · obtain ⟨cs, h2, h⟩ := bind_eq_ok h
              simp only [Res.pure_eq, Res.ok.injEq, Prod.mk.injEq] at h
              obtain ⟨rfl, rfl⟩ := h
              subst htag'
              exact ⟨by simp only [XItem.inDomainG, Bool.and_eq_true]; exact ⟨hk c, ih.2 _ _ _ h2⟩, rfl⟩
            · cases h
      · cases h
    · intro Hs c ts h
      rw [jDecodeFields] at h
      split at h
      · simp only [Res.ok.injEq] at h
        subst h
        rfl
      · rename_i hne
        obtain ⟨⟨it, c1⟩, h1, h⟩ := bind_eq_ok h
        obtain ⟨rest, h2, h⟩ := bind_eq_ok h
        simp only [Res.pure_eq, Res.ok.injEq] at h
        subst h
        have ⟨hd, ht⟩ := ih.1 _ _ _ _ _ h1
        simp only [XItem.inDomainList, Bool.and_eq_true]
        exact ⟨inDomain_strict hd (by rw [ht]; exact hne), ih.2 _ _ _ h2⟩

/-- whatever the XML reader accepts, it returns a tree of the (root) representable domain. -/
theorem xmlReadToks_rep {T : Tables} (hB : T.Bounded) {R : Rfc3339} {H : Hints} {toks : List Tok}
    {t : XItem} (h : xmlReadToks T R H toks = .ok t) : t.representableG true R H = true := by
  have hn := xmlReadToks_normal hB h
  unfold xmlReadToks at h
  obtain ⟨c, _, h⟩ := bind_eq_ok h
  obtain ⟨⟨it, c'⟩, h1, h⟩ := bind_eq_ok h
  simp only [Res.pure_eq, Res.ok.injEq] at h
  subst h
  exact rep_of_normal R true _ H hn ((xDecode_domain hB _).1 _ _ _ _ _ h1).1

theorem jsonRead_rep {T : Tables} (hB : T.Bounded) {R : Rfc3339} (hR : R.Lawful) {H : Hints} {j : JVal}
    {t : XItem} (h : jsonRead T R H j = .ok t) : t.representableG true R H = true := by
  have hn := jsonRead_normal hB h
  unfold jsonRead at h
  obtain ⟨⟨it, c'⟩, h1, h⟩ := bind_eq_ok h
  simp only [Res.pure_eq, Res.ok.injEq] at h
  subst h
  exact rep_of_normal R true _ H hn ((jDecode_domain hB hR _).1 _ _ _ _ _ h1).1

/-! ## 13. every annotated tree is representable for SOME reader: the one told, position by position, what
    the writer was told

`Representable R H t` ties the annotations of `t` to the hints `H`.  For hints that look at the tag only
(`Hints.ofTag`) this excludes every message in which two elements with one tag carry different
enumeration / mask types — e.g. two `AttributeValue`s, a Cryptographic Algorithm and a Cryptographic Usage
Mask.  With positional hints nothing is excluded: `t.hints` reads the annotations off the tree, and every
tree whose values are in range, whose tags are KMIP tags and whose dates pass the year test is representable
for it (`rep_hints`).  So the round-trip theorems cover EVERY such annotated tree, for the reader that makes
at each position the choice the writer made there. -/

mutual
  /-- the hints a reader needs for `t`: at each position, the annotation the writer was given there. -/
  def XItem.hints : XItem → Hints
    | .struct _ cs => fun p tag =>
      match p with
      | [] => {}
      | i :: q => XItem.hintsList cs i q tag
    | .mask _ m _ => fun p _ =>
      match p with
      | [] => { mask := some m }
      | _ :: _ => {}
    | .enum _ e _ => fun p _ =>
      match p with
      | [] => { enumTag := e }
      | _ :: _ => {}
    | .int .. | .long .. | .big .. | .bool .. | .text .. | .bytes .. | .date .. | .interval .. => fun _ _ => {}
  def XItem.hintsList : List XItem → Nat → Hints
    | [], _ => noHints
    | x :: xs, i =>
      match i with
      | 0 => x.hints
      | k + 1 => XItem.hintsList xs k
end

mutual
  /-- every value is in the range of its Go type (no condition on annotations). -/
  def XItem.valuesOk : XItem → Bool
    | .struct _ cs => XItem.valuesOkList cs
    | .int _ v => int32Ok v
    | .mask _ _ v => int32Ok v
    | .long _ v => int64Ok v
    | .enum _ _ v => decide (v < 4294967296)
    | .interval _ v => decide (v < 4294967296)
    | _ => true
  def XItem.valuesOkList : List XItem → Bool
    | [] => true
    | x :: xs => x.valuesOk && XItem.valuesOkList xs
end

theorem hints_child (t : Int) (cs : List XItem) : (XItem.struct t cs).hints.child = XItem.hintsList cs := by
  funext i q tag
  simp [Hints.child, XItem.hints]

theorem hintsList_zero (x : XItem) (xs : List XItem) : XItem.hintsList (x :: xs) 0 = x.hints := by
  simp [XItem.hintsList]

theorem hintsList_tail (x : XItem) (xs : List XItem) :
    hintsTail (XItem.hintsList (x :: xs)) = XItem.hintsList xs := by
  funext k
  simp [hintsTail, XItem.hintsList]

mutual
  theorem normal_hints : ∀ t : XItem, t.valuesOk = true → t.normal t.hints = true
    | .struct t cs, h => by
      simp only [XItem.valuesOk] at h
      simp only [XItem.normal, hints_child]
      exact normalList_hints cs h
    | .int t v, h => by simp only [XItem.valuesOk] at h; simp [XItem.normal, XItem.hints, h]
    | .mask t m v, h => by simp only [XItem.valuesOk] at h; simp [XItem.normal, XItem.hints, h]
    | .long t v, h => by simp only [XItem.valuesOk] at h; simp [XItem.normal, h]
    | .big .., _ => by simp [XItem.normal]
    | .enum t e v, h => by
      simp only [XItem.valuesOk, decide_eq_true_eq] at h
      simp [XItem.normal, XItem.hints, h]
    | .bool .., _ => by simp [XItem.normal]
    | .text .., _ => by simp [XItem.normal]
    | .bytes .., _ => by simp [XItem.normal]
    | .date .., _ => by simp [XItem.normal]
    | .interval t v, h => by
      simp only [XItem.valuesOk, decide_eq_true_eq] at h
      simp [XItem.normal, h]
  theorem normalList_hints : ∀ cs : List XItem, XItem.valuesOkList cs = true →
      XItem.normalList (XItem.hintsList cs) cs = true
    | [], _ => rfl
    | c :: cs, h => by
      simp only [XItem.valuesOkList, Bool.and_eq_true] at h
      simp only [XItem.normalList, Bool.and_eq_true, hintsList_zero, hintsList_tail]
      exact ⟨normal_hints c h.1, normalList_hints cs h.2⟩
end

/-- every tree with in-range values, KMIP tags and dates within the year test is representable for the
    hints read off its own annotations. -/
theorem rep_hints (R : Rfc3339) (top : Bool) (t : XItem) (hv : t.valuesOk = true)
    (hd : t.inDomainG top R = true) : t.representableG top R t.hints = true :=
  rep_of_normal R top t t.hints (normal_hints t hv) hd

/-- conversely the value and domain conditions are all that `Representable` asks besides the hints. -/
theorem valuesOk_of_normal : ∀ (t : XItem) (H : Hints), t.normal H = true → t.valuesOk = true := by
  intro t
  induction t using XItem.rec (motive_2 := fun cs => ∀ Hs : Nat → Hints, XItem.normalList Hs cs = true →
      XItem.valuesOkList cs = true) with
  | struct t cs ih => intro H h; simp only [XItem.normal] at h; simp only [XItem.valuesOk]; exact ih _ h
  | int t v => intro H h; simp only [XItem.normal, Bool.and_eq_true] at h; simp [XItem.valuesOk, h.1]
  | mask t m v => intro H h; simp only [XItem.normal, Bool.and_eq_true] at h; simp [XItem.valuesOk, h.1]
  | long t v => intro H h; simp only [XItem.normal] at h; simp [XItem.valuesOk, h]
  | big => intro H _; simp [XItem.valuesOk]
  | enum t e v => intro H h; simp only [XItem.normal, Bool.and_eq_true] at h; simp only [XItem.valuesOk]; exact h.1
  | bool => intro H _; simp [XItem.valuesOk]
  | text => intro H _; simp [XItem.valuesOk]
  | bytes => intro H _; simp [XItem.valuesOk]
  | date => intro H _; simp [XItem.valuesOk]
  | interval t v => intro H h; simp only [XItem.normal] at h; simp only [XItem.valuesOk]; exact h
  | nil => rfl
  | cons c cs ih1 ih2 =>
    rename_i Hs h
    simp only [XItem.normalList, Bool.and_eq_true] at h
    simp only [XItem.valuesOkList, Bool.and_eq_true]
    exact ⟨ih1 _ h.1, ih2 _ h.2⟩

end Kmip.Lex
