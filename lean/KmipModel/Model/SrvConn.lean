/-
  SrvConn — one server connection as a transition system: `kmipserver/conn.go` (newConn, terminate,
  checkAvailable, readloop, writeloop, send, recv) and the connection part of `server.go handleConn`
  (connect hook, request loop, deferred terminate hook / stream.Close / wg.Done), as of the CURRENT
  code (tx channel swapped for nil but never closed, per-message error channel of capacity 1) — with ONE
  exception: the owner's deferred `stream.Close()` is modelled as `terminate` only. The `c.loops.Wait()`
  that conn.Close makes since /repo aa935a6 (wait for readloop and writeloop before `wg.Done`) is NOT in
  this model; it is a state of the C16 model (`Model/Server.lean`, `closeWaits`). The model therefore
  over-approximates the current owner (it also allows `m = ended` with reader / writer alive); that the
  owner cannot hang in that wait is argued (after terminate neither loop can block) and observed by the
  engines, not proved here.

  Three processes with explicit program counters: owner `M` (the handleConn goroutine), reader `R`
  (readloop), writer `W` (writeloop). Unbuffered channel operations are rendezvous (ONE joint step),
  `select` is a non-deterministic choice among the ready cases, `terminate` is THREE atomic steps
  (closed.Swap / cancel / tx swap + stream close) because the other goroutines run between them.

  The environment is non-deterministic inside `stepL`:
    client    sends a request (`readGood`), a correctly framed but undecodable message (`readBad`:
              `ttlv.IsErrEncoding`, including "message too big"), a message that is not a request
              (`readSkip`), any number of them and at any time (pipelining = the reader picks the next
              one up while the owner is busy); reads a response (`wOk`) or not; half-closes or
              closes (`cliGone`: the reader gets EOF — garbage / truncated bytes followed by the end
              of the stream are the same event for the server: a non-encoding error of `Recv`) at
              ANY point. Bytes may still be readable / writable after the peer has gone (half-close,
              kernel socket buffers): reads stay possible until the local close, and a write to a
              gone peer may succeed or fail — which covers every transport.
    handler   returns a response (`hRet`: success, typed error, plain error and recovered panic are
              all "a response message is returned" for the connection — that the item is a FAILED
              item is `Kmip.C08.handler_outcome_is_an_item` over the batch model), or blocks until
              the connection context is cancelled (`hSlow` then `hRet` once `ctxDone`).
    server    cancels the receive context (`recvCancel`, Shutdown: the `<-ctx.Done()` case of `recv`
              may be taken at any time — the flag itself is not stored, which only adds behaviours)
              or the server context (`srvCancel`: the connection context is a child, so this IS
              `ctxDone := true`).

  Message contents are abstracted (data independence: no control decision of conn.go/handleConn
  depends on the content of a decodable request). The symmetry used: only the RELATIVE position of
  a request among those in flight matters. At most two decodable requests are in flight between
  `Recv` and `Send` (one held by R, one owned by M then W); `fl` counts them and each carries one
  bit, "is not the oldest in flight". A response written for a request that is not the oldest in
  flight (overtaking), or with nothing in flight (duplicate / response without request) raises
  `Fault.order`; when the connection is live and idle `fl` must be 0 (nothing unanswered). The number
  of requests on a connection is therefore UNBOUNDED in this model.

  `Params` keeps the two repaired defects switchable: `closesTx` (terminate closes the tx channel)
  and `errChCap` (capacity of the per-message error channel).
-/
import KmipModel.Model.Lts
namespace Kmip.SrvConn
open Kmip.Lts

structure Params where
  closesTx : Bool
  errChCap : Nat
  deriving Repr, DecidableEq

/-- the code at /repo HEAD (up to the wait of `conn.Close` for both loops, aa935a6, which this model does
    not contain: see the header). -/
def current : Params := { closesTx := false, errChCap := 1 }
/-- before d24e630. -/
def oldClosesTx : Params := { closesTx := true, errChCap := 1 }
/-- before 4f747d8. -/
def oldUnbuffered : Params := { closesTx := false, errChCap := 0 }

/-- owner: handleConn after newConn. `[y:…]` = verif yield point reached when the pc is entered. -/
inductive MPc where
  | hook        -- srv.connectHook(ctx)
  | recvCheck   -- recv: checkAvailable
  | recvSel     -- recv: select { <-rx | <-recvCtx.Done | <-c.ctx.Done }
  | handle      -- srv.handleRequest running
  | handleSlow  -- … a handler that waits for ctx.Done()
  | ctxCheck    -- [y:srv.beforeSend] if ctx.Err() != nil
  | sendCheck   -- send: checkAvailable
  | loadTx      -- tx := c.tx.Load(); errCh := make(chan error, cap)
  | sendSel     -- [y:srv.send.loaded] select { tx <- msg | <-c.ctx.Done }, tx = the channel
  | sendSelNil  -- … tx = the nil channel (loaded after terminate swapped it)
  | waitErr     -- select { <-errCh | <-c.ctx.Done }
  | t1 | t2 | t3  -- terminate called from recv/send ([y:srv.terminate.afterCancel] at t3)
  | dfr         -- loop left: deferred srv.terminateHook (only if the connect hook succeeded)
  | c1 | c2 | c3  -- deferred stream.Close() = terminate
  | wgDone      -- deferred srv.wg.Done()
  | ended
  deriving DecidableEq, Repr, Inhabited

inductive RPc where
  | check       -- for !c.closed.Load()
  | recv        -- c.stream.Recv(&msg)
  | hand        -- [y:srv.read.beforeRx] select { rx <- resp | <-c.ctx.Done }, a decoded request
  | handBad     -- … an encoding error
  | t1 | t2 | t3
  | closeRx     -- deferred close(c.rx); `ended` ⇔ rx is closed
  | ended
  deriving DecidableEq, Repr, Inhabited

inductive WPc where
  | check       -- for !c.closed.Load()
  | sel         -- select { req, ok := <-tx | <-c.ctx.Done }
  | io          -- c.stream.Send(req.msg)
  | closeOk     -- close(req.err) after a successful write
  | errSend     -- [y:srv.write.beforeErr] req.err <- err
  | errClose    -- close(req.err)
  | t1 | t2 | t3
  | ended
  deriving DecidableEq, Repr, Inhabited

/-- what must never happen. The first two are Go run-time panics (they kill the process); the
    others are raised by the ghost bookkeeping. A faulted state has no successor. -/
inductive Fault where
  | none
  | sendOnClosed    -- send on a closed channel
  | closeOfClosed   -- close of a closed channel
  | order           -- a response that is not the answer to the oldest unanswered request
  | invalidTwice    -- a second invalid-message response
  | hookTwice       -- the terminate hook runs a second time
  deriving DecidableEq, Repr, Inhabited

/-- 0, 1, 2 (number of decodable requests in flight). -/
inductive Cnt where
  | zero | one | two
  deriving DecidableEq, Repr, Inhabited

structure State where
  m : MPc
  r : RPc
  w : WPc
  cliGone : Bool       -- the client has half-closed / closed / its byte stream ended
  fault : Fault
  closed : Bool        -- c.closed
  ctxDone : Bool       -- c.ctx cancelled (by terminate, or through the server context)
  torn : Bool          -- terminate's last step done: c.tx holds nil (the old code also closed the
                       -- channel: `txClosed`), the stream is closed by the server
  errVal : Bool        -- the current message's error channel holds a value
  errClosed : Bool     -- … is closed
  hookOk : Bool        -- the connect hook succeeded (terminate hook registered)
  fl : Cnt             -- ghost: decodable requests read and not yet answered
  rPos : Bool          -- ghost: the request R holds is not the oldest in flight
  pPos : Bool          -- ghost: the request M (then W) owns is not the oldest in flight
  invProd : Bool       -- ghost: the invalid-message response has been produced (M leaves the loop
                       --        after sending it: `invProd` is also "break after send")
  invWr : Bool         -- ghost: … has been written
  termHook : Bool      -- ghost: the terminate hook has run
  deriving DecidableEq, Repr, Inhabited

def init : State :=
  { m := .hook, r := .check, w := .check, cliGone := false, fault := .none, closed := false,
    ctxDone := false, torn := false, errVal := false, errClosed := false, hookOk := false,
    fl := .zero, rPos := false, pPos := false, invProd := false, invWr := false, termHook := false }

/-! ### numbering of the enumerations (used by the coding and by the fast equality tests) -/

def MPc.toNat : MPc → Nat
  | .hook => 0 | .recvCheck => 1 | .recvSel => 2 | .handle => 3 | .handleSlow => 4 | .ctxCheck => 5
  | .sendCheck => 6 | .loadTx => 7 | .sendSel => 8 | .waitErr => 9 | .t1 => 10 | .t2 => 11
  | .t3 => 12 | .dfr => 13 | .c1 => 14 | .c2 => 15 | .c3 => 16 | .wgDone => 17 | .ended => 18
  | .sendSelNil => 19
def MPc.ofN : Nat → MPc
  | 0 => .hook | 1 => .recvCheck | 2 => .recvSel | 3 => .handle | 4 => .handleSlow | 5 => .ctxCheck
  | 6 => .sendCheck | 7 => .loadTx | 8 => .sendSel | 9 => .waitErr | 10 => .t1 | 11 => .t2
  | 12 => .t3 | 13 => .dfr | 14 => .c1 | 15 => .c2 | 16 => .c3 | 17 => .wgDone | 18 => .ended
  | _ => .sendSelNil
def RPc.toNat : RPc → Nat
  | .check => 0 | .recv => 1 | .hand => 2 | .t1 => 3 | .t2 => 4 | .t3 => 5 | .closeRx => 6 | .ended => 7
  | .handBad => 8
def RPc.ofN : Nat → RPc
  | 0 => .check | 1 => .recv | 2 => .hand | 3 => .t1 | 4 => .t2 | 5 => .t3 | 6 => .closeRx | 7 => .ended
  | _ => .handBad
def WPc.toNat : WPc → Nat
  | .check => 0 | .sel => 1 | .io => 2 | .closeOk => 3 | .errSend => 4 | .errClose => 5 | .t1 => 6
  | .t2 => 7 | .t3 => 8 | .ended => 9
def WPc.ofN : Nat → WPc
  | 0 => .check | 1 => .sel | 2 => .io | 3 => .closeOk | 4 => .errSend | 5 => .errClose | 6 => .t1
  | 7 => .t2 | 8 => .t3 | _ => .ended
def Fault.toNat : Fault → Nat
  | .none => 0 | .sendOnClosed => 1 | .closeOfClosed => 2 | .order => 3 | .invalidTwice => 4
  | .hookTwice => 5
def Fault.ofN : Nat → Fault
  | 0 => .none | 1 => .sendOnClosed | 2 => .closeOfClosed | 3 => .order | 4 => .invalidTwice
  | _ => .hookTwice
def Cnt.toNat : Cnt → Nat | .zero => 0 | .one => 1 | .two => 2
def Cnt.ofN : Nat → Cnt | 0 => .zero | 1 => .one | _ => .two
def bToNat : Bool → Nat | true => 1 | false => 0
def bOfNat : Nat → Bool | 0 => false | _ => true

theorem MPc.ofN_toNat (x : MPc) : MPc.ofN x.toNat = x := by cases x <;> rfl
theorem RPc.ofN_toNat (x : RPc) : RPc.ofN x.toNat = x := by cases x <;> rfl
theorem WPc.ofN_toNat (x : WPc) : WPc.ofN x.toNat = x := by cases x <;> rfl
theorem Fault.ofN_toNat (x : Fault) : Fault.ofN x.toNat = x := by cases x <;> rfl
theorem Cnt.ofN_toNat (x : Cnt) : Cnt.ofN x.toNat = x := by cases x <;> rfl
theorem bOfNat_bToNat (b : Bool) : bOfNat (bToNat b) = b := by cases b <;> rfl
theorem MPc.toNat_lt (x : MPc) : x.toNat < 20 := by cases x <;> decide
theorem RPc.toNat_lt (x : RPc) : x.toNat < 9 := by cases x <;> decide
theorem WPc.toNat_lt (x : WPc) : x.toNat < 10 := by cases x <;> decide
theorem Fault.toNat_lt (x : Fault) : x.toNat < 6 := by cases x <;> decide
theorem Cnt.toNat_lt (x : Cnt) : x.toNat < 3 := by cases x <;> decide
theorem bToNat_lt (b : Bool) : bToNat b < 2 := by cases b <;> decide


/-- equality tests written with `Nat.beq` on the constructor numbers: the kernel evaluates them in
    a few steps (the derived `DecidableEq` instances carry proofs and are much slower there). -/
def MPc.is (a b : MPc) : Bool := Nat.beq a.toNat b.toNat
def RPc.is (a b : RPc) : Bool := Nat.beq a.toNat b.toNat
def WPc.is (a b : WPc) : Bool := Nat.beq a.toNat b.toNat
def Fault.is (a b : Fault) : Bool := Nat.beq a.toNat b.toNat
def Cnt.is (a b : Cnt) : Bool := Nat.beq a.toNat b.toNat

inductive Ev where
  | m | r | w                         -- internal step of M / R / W (rendezvous: the receiver's side)
  | hookOk | hookFail                 -- outcome of the connect hook
  | hRet | hSlow                      -- the handler returns / settles to wait for cancellation
  | readGood | readBad | readSkip     -- Recv returns a message the client sent        (needs the client)
  | readErr                           -- Recv returns a non-encoding error
  | wOk                               -- Send returns nil                              (needs the client)
  | wFail                             -- Send returns an error
  | recvCancel                        -- recv's `<-ctx.Done()` case (receive context cancelled)
  | cliGone | srvCancel               -- pure environment events
  deriving DecidableEq, Repr, Inhabited

/-- events that need an action of the client or of the rest of the server: a connection whose only
    enabled events are of this kind is WAITING, not stuck. -/
def Ev.isEnv : Ev → Bool
  | .readGood | .readBad | .readSkip | .wOk | .cliGone | .recvCancel | .srvCancel => true
  | _ => false

/-! ### field updates
  One small definition per field (and one per program counter value below): the kernel instantiates
  the body of a definition each time it unfolds it, so small bodies keep the certificate check fast. -/

def State.setM (s : State) (x : MPc) : State := { s with m := x }
def State.setR (s : State) (x : RPc) : State := { s with r := x }
def State.setW (s : State) (x : WPc) : State := { s with w := x }
def State.setCliGone (s : State) (x : Bool) : State := { s with cliGone := x }
def State.setFault (s : State) (x : Fault) : State := { s with fault := x }
def State.setClosed (s : State) (x : Bool) : State := { s with closed := x }
def State.setCtxDone (s : State) (x : Bool) : State := { s with ctxDone := x }
def State.setTorn (s : State) (x : Bool) : State := { s with torn := x }
def State.setErrVal (s : State) (x : Bool) : State := { s with errVal := x }
def State.setErrClosed (s : State) (x : Bool) : State := { s with errClosed := x }
def State.setHookOk (s : State) (x : Bool) : State := { s with hookOk := x }
def State.setFl (s : State) (x : Cnt) : State := { s with fl := x }
def State.setRPos (s : State) (x : Bool) : State := { s with rPos := x }
def State.setPPos (s : State) (x : Bool) : State := { s with pPos := x }
def State.setInvProd (s : State) (x : Bool) : State := { s with invProd := x }
def State.setInvWr (s : State) (x : Bool) : State := { s with invWr := x }
def State.setTermHook (s : State) (x : Bool) : State := { s with termHook := x }

/-- `checkAvailable` fails. (Two atomic loads of monotone flags: one atomic step is exact.) -/
def unavailable (s : State) : Bool := s.closed || s.ctxDone

/-- the tx channel object is closed (old code only). -/
def txClosed (p : Params) (s : State) : Bool := p.closesTx && s.torn

/-- rx is closed ⇔ the reader has ended (`defer close(c.rx)` is its last action). -/
def rxClosed (s : State) : Bool := s.r.is .ended

/-- terminate, step 3: swap tx for nil (the old code also closed it), close the stream. -/
def term3 (p : Params) (s : State) : State :=
  bif p.closesTx && s.torn then s.setFault .closeOfClosed else s.setTorn true

def closeErrCh (s : State) : State :=
  bif s.errClosed then s.setFault .closeOfClosed else s.setErrClosed true

/-! ### owner M -/

def mHook (s : State) : List (Ev × State) :=
  [(.hookOk, (s.setHookOk true).setM .recvCheck), (.hookFail, s.setM .c1)]

def mRecvCheck (s : State) : List (Ev × State) :=
  [(.m, s.setM (bif unavailable s then .dfr else .recvSel))]

/-- the rendezvous on rx (R is at `hand` / `handBad`): a request starts its handler; an encoding
    error produces the invalid-message response, to be sent, after which the loop is left. -/
def mTake (s : State) : List (Ev × State) :=
  bif s.r.is .hand then [(.m, (((s.setM .handle).setPPos s.rPos).setRPos false).setR .check)]
  else bif s.r.is .handBad then
    [(.m, bif s.invProd then s.setFault .invalidTwice
          else ((s.setM .sendCheck).setInvProd true).setR .check)]
  else []

def mRecvSel (s : State) : List (Ev × State) :=
  mTake s ++
  (bif rxClosed s then [(Ev.m, s.setM .dfr)] else []) ++
  [(Ev.recvCancel, s.setM .t1)] ++
  (bif s.ctxDone then [(Ev.m, s.setM .t1)] else [])

def mHandle (s : State) : List (Ev × State) :=
  [(.hRet, s.setM .ctxCheck), (.hSlow, s.setM .handleSlow)]

def mHandleSlow (s : State) : List (Ev × State) :=
  bif s.ctxDone then [(.hRet, s.setM .ctxCheck)] else []

def mCtxCheck (s : State) : List (Ev × State) :=
  [(.m, s.setM (bif s.ctxDone then .dfr else .sendCheck))]

def mSendCheck (s : State) : List (Ev × State) :=
  [(.m, s.setM (bif unavailable s then .dfr else .loadTx))]

def mLoadTx (s : State) : List (Ev × State) :=
  [(.m, ((s.setM (bif s.torn then .sendSelNil else .sendSel)).setErrVal false).setErrClosed false)]

/-- the `<-c.ctx.Done()` case of send's outer select: close(errCh), terminate. -/
def mSendAbort (s : State) : List (Ev × State) :=
  bif s.ctxDone then [(.m, (closeErrCh s).setM .t1)] else []

def mSendSel (p : Params) (s : State) : List (Ev × State) :=
  (bif txClosed p s then [(Ev.m, s.setFault .sendOnClosed)] else []) ++
  (bif !txClosed p s && s.w.is .sel then [(Ev.m, (s.setM .waitErr).setW .io)] else []) ++
  mSendAbort s

def mWaitErr (s : State) : List (Ev × State) :=
  (bif s.errVal then [(Ev.m, (s.setErrVal false).setM .dfr)] else []) ++
  (bif !s.errVal && s.errClosed then
    [(Ev.m, (s.setErrClosed false).setM (bif s.invProd then .dfr else .recvCheck))]
   else []) ++
  (bif s.ctxDone then [(Ev.m, s.setM .t1)] else [])

/-- the deferred terminate hook (registered only after a successful connect hook). -/
def mDfr (s : State) : List (Ev × State) :=
  [(.m, bif !s.hookOk then s.setM .c1
        else bif s.termHook then s.setFault .hookTwice
        else (s.setTermHook true).setM .c1)]

def stepM (p : Params) (s : State) : List (Ev × State) :=
  match s.m with
  | .hook => mHook s
  | .recvCheck => mRecvCheck s
  | .recvSel => mRecvSel s
  | .handle => mHandle s
  | .handleSlow => mHandleSlow s
  | .ctxCheck => mCtxCheck s
  | .sendCheck => mSendCheck s
  | .loadTx => mLoadTx s
  | .sendSel => mSendSel p s
  | .sendSelNil => mSendAbort s
  | .waitErr => mWaitErr s
  | .t1 => [(.m, bif s.closed then s.setM .dfr else (s.setClosed true).setM .t2)]
  | .t2 => [(.m, (s.setCtxDone true).setM .t3)]
  | .t3 => [(.m, (term3 p s).setM .dfr)]
  | .dfr => mDfr s
  | .c1 => [(.m, bif s.closed then s.setM .wgDone else (s.setClosed true).setM .c2)]
  | .c2 => [(.m, (s.setCtxDone true).setM .c3)]
  | .c3 => [(.m, (term3 p s).setM .wgDone)]
  | .wgDone => [(.m, s.setM .ended)]
  | .ended => []

/-! ### reader R -/

def Cnt.inc : Cnt → Cnt
  | .zero => .one
  | _ => .two

def Cnt.dec : Cnt → Cnt
  | .two => .one
  | _ => .zero

/-- `Recv` returns: a message the client sent (while the stream is not closed by the server), or a
    non-encoding error (the stream is closed by the server, or the client has gone). -/
def rRecv (s : State) : List (Ev × State) :=
  (bif !s.torn then
    [(Ev.readGood, bif s.fl.is .two then s.setFault .order
                   else ((s.setR .hand).setRPos (!(s.fl.is .zero))).setFl s.fl.inc),
     (Ev.readBad, s.setR .handBad),
     (Ev.readSkip, s.setR .check)]
   else []) ++
  (bif s.torn || s.cliGone then [(Ev.readErr, s.setR .t1)] else [])

def stepR (p : Params) (s : State) : List (Ev × State) :=
  match s.r with
  | .check => [(.r, s.setR (bif s.closed then .closeRx else .recv))]
  | .recv => rRecv s
  | .hand => bif s.ctxDone then [(.r, (s.setR .closeRx).setRPos false)] else []
  | .handBad => bif s.ctxDone then [(.r, s.setR .closeRx)] else []
  | .t1 => [(.r, bif s.closed then s.setR .closeRx else (s.setClosed true).setR .t2)]
  | .t2 => [(.r, (s.setCtxDone true).setR .t3)]
  | .t3 => [(.r, (term3 p s).setR .closeRx)]
  | .closeRx => [(.r, s.setR .ended)]
  | .ended => []

/-! ### writer W -/

/-- the bookkeeping of a successful write. -/
def written (s : State) : State :=
  bif s.invProd then
    (bif s.invWr then s.setFault .invalidTwice else (s.setW .closeOk).setInvWr true)
  else bif s.pPos || s.fl.is .zero then s.setFault .order
  else (((s.setW .closeOk).setPPos false).setRPos false).setFl s.fl.dec

def wIo (s : State) : List (Ev × State) :=
  (bif !s.torn then [(Ev.wOk, written s)] else []) ++
  (bif s.torn || s.cliGone then [(Ev.wFail, (s.setW .errSend).setPPos false)] else [])

/-- `req.err <- err`. Buffered: immediate. Unbuffered (old): a rendezvous with M waiting in
    `waitErr`, otherwise blocked. -/
def wErrSend (p : Params) (s : State) : List (Ev × State) :=
  bif s.errClosed then [(.w, s.setFault .sendOnClosed)]
  else bif Nat.blt 0 p.errChCap then
    (bif s.errVal then [] else [(.w, (s.setErrVal true).setW .errClose)])
  else
    (bif s.m.is .waitErr then [(.w, (s.setW .errClose).setM .dfr)] else [])

def wSel (p : Params) (s : State) : List (Ev × State) :=
  (bif txClosed p s then [(Ev.w, s.setW .ended)] else []) ++
  (bif s.ctxDone then [(Ev.w, s.setW .ended)] else [])

def stepW (p : Params) (s : State) : List (Ev × State) :=
  match s.w with
  | .check => [(.w, s.setW (bif s.closed then .ended else .sel))]
  | .sel => wSel p s
  | .io => wIo s
  | .closeOk => [(.w, (closeErrCh s).setW .check)]
  | .errSend => wErrSend p s
  | .errClose => [(.w, (closeErrCh s).setW .t1)]
  | .t1 => [(.w, bif s.closed then s.setW .ended else (s.setClosed true).setW .t2)]
  | .t2 => [(.w, (s.setCtxDone true).setW .t3)]
  | .t3 => [(.w, (term3 p s).setW .ended)]
  | .ended => []

def stepEnv (s : State) : List (Ev × State) :=
  (bif !s.cliGone then [(Ev.cliGone, s.setCliGone true)] else []) ++
  (bif !s.ctxDone then [(Ev.srvCancel, s.setCtxDone true)] else [])

/-- labelled successors. A faulted state has none (a panic takes the whole process down). -/
def stepL (p : Params) (s : State) : List (Ev × State) :=
  bif !(s.fault.is .none) then [] else stepM p s ++ stepR p s ++ stepW p s ++ stepEnv s

def sys (p : Params) : Sys State := { init := init, step := fun s => (stepL p s).map (·.2) }

/-! ### predicates -/

def allEnded (s : State) : Bool := s.m.is .ended && s.r.is .ended && s.w.is .ended

/-- a Go run-time panic. -/
def crashed (s : State) : Bool := s.fault.is .sendOnClosed || s.fault.is .closeOfClosed

/-- the peer has gone or the connection context is cancelled, a goroutine has not ended, and
    nothing the server itself can do is enabled: the remaining goroutines are kept forever. -/
def stuck (p : Params) (s : State) : Bool :=
  (s.cliGone || s.ctxDone) && !allEnded s && s.fault.is .none &&
    ((stepL p s).all (fun e => e.1.isEnv))

/-- the one shape in which the CURRENT code does keep the goroutines of a connection whose client
    has gone: the handler waits for the cancellation of its context while the reader, holding a
    pipelined message it cannot deliver, is not reading and therefore never sees the end of the
    stream. Only the handler returning by itself or the server context (Shutdown) ends it. -/
def waitsOnPipelined (s : State) : Bool :=
  s.m.is .handleSlow && (s.r.is .hand || s.r.is .handBad) && !s.ctxDone

/-- the connection is live and idle: the owner waits for the next request, the reader holds none. -/
def idleLive (s : State) : Bool :=
  s.m.is .recvSel && !(s.r.is .hand) && !(s.r.is .handBad) && !s.closed && !s.ctxDone

/-- responses are not the in-order, one-for-one image of the decodable requests read. -/
def misordered (s : State) : Bool :=
  s.fault.is .order || (idleLive s && !(s.fl.is .zero))

/-- the invalid-message response: a second one, one written that was never produced, or the
    connection goes on serving after it. -/
def invalidBad (s : State) : Bool :=
  s.fault.is .invalidTwice || (s.invWr && !s.invProd) ||
  (s.invProd && (s.m.is .handle || s.m.is .handleSlow || s.m.is .recvSel || s.m.is .recvCheck))

/-- terminate hook: twice, without a successful connect hook, not exactly once when the owner has
    ended after a successful connect hook, or before a handler / the connect hook. -/
def hookBad (s : State) : Bool :=
  s.fault.is .hookTwice || (s.termHook && !s.hookOk) ||
  (s.m.is .ended && (s.termHook ^^ s.hookOk)) ||
  (s.termHook && (s.m.is .handle || s.m.is .handleSlow || s.m.is .hook || s.m.is .recvSel))

/-! ### a ranking function: the server's own steps cannot go on for ever
  Every step that is NOT an action of the environment (client, caller of Shutdown) strictly decreases
  `rank`: without new input a connection performs at most `rank s` (≤ 275) further steps. Together
  with `stuck` (nothing but the environment can move, yet not all ended) this is what "does not
  deadlock, keeps no goroutines" means for the model: after the peer has gone the three goroutines
  END (within `rank` steps), they do not merely "always have a step". The rank is a sum of per-process
  progress measures; the only loop of the owner (waitErr → recvCheck) is paid for by the error
  channel's `closed` flag, which only a completed write (an action involving the client) sets. -/

def MPc.rank : MPc → Nat
  | .ended => 0 | .wgDone => 1 | .c3 => 2 | .c2 => 3 | .c1 => 4 | .dfr => 5 | .t3 => 6 | .t2 => 7
  | .t1 => 8 | .waitErr => 100 | .sendSel => 101 | .sendSelNil => 101 | .loadTx => 102
  | .sendCheck => 103 | .ctxCheck => 104 | .handleSlow => 105 | .handle => 106 | .recvSel => 107
  | .recvCheck => 108 | .hook => 109

def RPc.rank : RPc → Nat
  | .ended => 0 | .closeRx => 1 | .t3 => 2 | .t2 => 3 | .t1 => 4 | .recv => 5 | .check => 6
  | .hand => 7 | .handBad => 7

def WPc.rank : WPc → Nat
  | .ended => 0 | .t3 => 1 | .t2 => 2 | .t1 => 3 | .errClose => 54 | .errSend => 55 | .io => 56
  | .sel => 57 | .check => 58 | .closeOk => 109

def rank (s : State) : Nat :=
  Nat.add (Nat.add s.m.rank s.r.rank) (Nat.add s.w.rank (bif s.errClosed then 50 else 0))

/-- every enabled step that is not the environment's strictly decreases the rank. -/
def rankOk (p : Params) (s : State) : Bool :=
  (stepL p s).all (fun e => e.1.isEnv || Nat.blt (rank e.2) (rank s))

/-- nothing the server itself can do is enabled. -/
def quiet (p : Params) (s : State) : Bool := (stepL p s).all (fun e => e.1.isEnv)

/-- the connection is live (client there, context not cancelled, not closed), the server has nothing
    left to do by itself, a decodable request is still unanswered — and the server is NOT waiting for
    the client to take a response (`w = io`) nor for a handler that waits for its context. -/
def unansweredBad (p : Params) (s : State) : Bool :=
  quiet p s && !s.cliGone && !s.ctxDone && !s.closed && !(s.fl.is .zero) &&
  !(s.w.is .io) && !(s.m.is .handleSlow)

/-- live, quiet, an undecodable message has been taken by the owner, and the invalid-message
    response is neither written nor being written. -/
def invalidUnansweredBad (p : Params) (s : State) : Bool :=
  quiet p s && !s.cliGone && !s.ctxDone && !s.closed && s.invProd && !s.invWr && !(s.w.is .io)

def bad (p : Params) (s : State) : Bool :=
  crashed s || (stuck p s && !waitsOnPipelined s) || misordered s || invalidBad s || hookBad s ||
  !(rankOk p s) || unansweredBad p s || invalidUnansweredBad p s

/-! ### coding -/

/-- the digits of a state with their radices. -/
def digits (s : State) : List (Nat × Nat) :=
  [(s.m.toNat, 20), (s.r.toNat, 9), (s.w.toNat, 10), (bToNat s.cliGone, 2), (s.fault.toNat, 6),
   (bToNat s.closed, 2), (bToNat s.ctxDone, 2), (bToNat s.torn, 2), (bToNat s.errVal, 2),
   (bToNat s.errClosed, 2), (bToNat s.hookOk, 2), (s.fl.toNat, 3), (bToNat s.rPos, 2),
   (bToNat s.pPos, 2), (bToNat s.invProd, 2), (bToNat s.invWr, 2), (bToNat s.termHook, 2)]

def radices : List Nat := [20, 9, 10, 2, 6, 2, 2, 2, 2, 2, 2, 3, 2, 2, 2, 2, 2]

def ofDigits : List Nat → State
  | [a0, a1, a2, a3, a4, a5, a6, a7, a8, a9, a10, a11, a12, a13, a14, a15, a16] =>
    { m := .ofN a0, r := .ofN a1, w := .ofN a2, cliGone := bOfNat a3, fault := .ofN a4,
      closed := bOfNat a5, ctxDone := bOfNat a6, torn := bOfNat a7, errVal := bOfNat a8,
      errClosed := bOfNat a9, hookOk := bOfNat a10, fl := .ofN a11, rPos := bOfNat a12,
      pPos := bOfNat a13, invProd := bOfNat a14, invWr := bOfNat a15, termHook := bOfNat a16 }
  | _ => init

/-- the code: `pack (digits s)` (see `code_eq`), written out with the primitives the kernel
    evaluates natively. -/
def code (s : State) : Nat :=
  Nat.add s.m.toNat (Nat.mul 20 (Nat.add s.r.toNat (Nat.mul 9 (Nat.add s.w.toNat (Nat.mul 10
  (Nat.add (bToNat s.cliGone) (Nat.mul 2 (Nat.add s.fault.toNat (Nat.mul 6
  (Nat.add (bToNat s.closed) (Nat.mul 2 (Nat.add (bToNat s.ctxDone) (Nat.mul 2
  (Nat.add (bToNat s.torn) (Nat.mul 2 (Nat.add (bToNat s.errVal) (Nat.mul 2
  (Nat.add (bToNat s.errClosed) (Nat.mul 2 (Nat.add (bToNat s.hookOk) (Nat.mul 2
  (Nat.add s.fl.toNat (Nat.mul 3 (Nat.add (bToNat s.rPos) (Nat.mul 2
  (Nat.add (bToNat s.pPos) (Nat.mul 2 (Nat.add (bToNat s.invProd) (Nat.mul 2
  (Nat.add (bToNat s.invWr) (Nat.mul 2 (bToNat s.termHook))))))))))))))))))))))))))))))))

theorem code_eq (s : State) : code s = pack (digits s) := rfl
/-- digit `k` of `n` is `n / Wₖ % rₖ` (`decode_eq`: this is `ofDigits (unpack radices n)`). -/
def decode (n : Nat) : State :=
  { m := .ofN (Nat.mod (Nat.div n 1) 20),
    r := .ofN (Nat.mod (Nat.div n 20) 9),
    w := .ofN (Nat.mod (Nat.div n 180) 10),
    cliGone := bOfNat (Nat.mod (Nat.div n 1800) 2),
    fault := .ofN (Nat.mod (Nat.div n 3600) 6),
    closed := bOfNat (Nat.mod (Nat.div n 21600) 2),
    ctxDone := bOfNat (Nat.mod (Nat.div n 43200) 2),
    torn := bOfNat (Nat.mod (Nat.div n 86400) 2),
    errVal := bOfNat (Nat.mod (Nat.div n 172800) 2),
    errClosed := bOfNat (Nat.mod (Nat.div n 345600) 2),
    hookOk := bOfNat (Nat.mod (Nat.div n 691200) 2),
    fl := .ofN (Nat.mod (Nat.div n 1382400) 3),
    rPos := bOfNat (Nat.mod (Nat.div n 4147200) 2),
    pPos := bOfNat (Nat.mod (Nat.div n 8294400) 2),
    invProd := bOfNat (Nat.mod (Nat.div n 16588800) 2),
    invWr := bOfNat (Nat.mod (Nat.div n 33177600) 2),
    termHook := bOfNat (Nat.mod (Nat.div n 66355200) 2) }

theorem decode_eq (n : Nat) : decode n = ofDigits (unpack radices n) := by
  have h := unpackW_eq radices 1 n
  rw [Nat.div_one] at h
  rw [← h]
  rfl

theorem digits_radices (s : State) : (digits s).map (·.2) = radices := rfl

theorem digits_lt (s : State) : ∀ d ∈ digits s, d.1 < d.2 := by
  simp [digits, MPc.toNat_lt, RPc.toNat_lt, WPc.toNat_lt, Fault.toNat_lt, Cnt.toNat_lt, bToNat_lt]

theorem decode_code (s : State) : decode (code s) = s := by
  rw [code_eq, decode_eq]
  rw [← digits_radices s, unpack_pack _ (digits_lt s)]
  cases s
  simp only [digits, List.map_cons, List.map_nil, ofDigits, MPc.ofN_toNat, RPc.ofN_toNat,
    WPc.ofN_toNat, Fault.ofN_toNat, Cnt.ofN_toNat, bOfNat_bToNat]

def coding : Coding State := { code := code, decode := decode, decode_code := decode_code }

end Kmip.SrvConn
