/-
  C18 (typed layer) — the hand-written codecs whose ENCODER is hand-written too (UnknownPayload,
  RequestBatchItem, ResponseBatchItem): whatever the decoder accepts has a conforming twin that the
  encoder cannot tell from it.
-/
import KmipModel.Lemmas.PlanFixpointQuiet
import KmipModel.Lemmas.PlanFixpoint2
namespace Kmip
set_option linter.unusedVariables false

/-! ## Small steps shared by the batch items -/

theorem fxa_not_attr (S : Schema) (id code : Nat) (hcode : (S.structDef id).custom = code)
    (hne : code ≠ Cust.attr) (v w' : Val) : obsRel S (.struct id) v w' := by
  unfold obsRel
  intro ha
  exact absurd (hcode ▸ ha.2) hne

/-- a mandatory enumeration. -/
theorem fxa_enum (S : Schema) (fd t tag : Nat) (c : Cur) (ver : Option Ver) (v : Val) (c' : Cur)
    (ver' : Option Ver) (h : decK S fd (.enum t) tag c ver = .ok (v, c', ver')) :
    ∃ x : Nat, v = .int x ∧ x < 2 ^ 32 ∧ ver' = ver ∧ 1 ≤ fd := by
  cases fd with
  | zero => rw [decK_zero] at h; contradiction
  | succ fd =>
    simp only [decK] at h
    obtain ⟨⟨x, c1⟩, h1, h2⟩ := Res.bind_eq_ok h
    simp only [Res.pure_eq, Res.ok.injEq, Prod.mk.injEq] at h2
    obtain ⟨rfl, rfl, rfl⟩ := h2
    exact ⟨x, rfl, Cur.enum_inv h1, rfl, by omega⟩

/-- an optional enumeration (`d.Opt`): absent = 0. -/
theorem fxa_optEnum (S : Schema) (f t tag : Nat) (c : Cur) (ver : Option Ver) (v : Val) (c' : Cur)
    (ver' : Option Ver) (h : decOpt S (f + 2) (.enum t) tag c ver = .ok (v, c', ver')) :
    ∃ x : Nat, v = .int x ∧ x < 2 ^ 32 ∧ ver' = ver := by
  rw [decOpt_succ] at h
  split at h
  · obtain ⟨x, hx, hlt, hv, _⟩ := fxa_enum S _ t tag c ver v c' ver' h
    exact ⟨x, hx, hlt, hv⟩
  · simp only [Res.ok.injEq, Prod.mk.injEq] at h
    obtain ⟨rfl, rfl, rfl⟩ := h
    exact ⟨0, by rw [zeroOf]; rfl, by decide, rfl⟩

/-- an optional byte string (`d.Opt`): absent = nil. -/
theorem fxa_optBytes (S : Schema) (f tag : Nat) (c : Cur) (ver : Option Ver) (v : Val) (c' : Cur)
    (ver' : Option Ver) (h : decOpt S (f + 2) .bytes tag c ver = .ok (v, c', ver')) :
    ∃ b, v = .bytes b ∧ ver' = ver := by
  rw [decOpt_succ] at h
  split at h
  · simp only [decK] at h
    obtain ⟨⟨x, c1⟩, h1, h2⟩ := Res.bind_eq_ok h
    simp only [Res.pure_eq, Res.ok.injEq, Prod.mk.injEq] at h2
    obtain ⟨rfl, rfl, rfl⟩ := h2
    exact ⟨some x, rfl, rfl⟩
  · simp only [Res.ok.injEq, Prod.mk.injEq] at h
    obtain ⟨rfl, rfl, rfl⟩ := h
    exact ⟨none, by rw [zeroOf], rfl⟩

/-- an optional text string (`d.Opt`): absent = "". -/
theorem fxa_optText (S : Schema) (f tag : Nat) (c : Cur) (ver : Option Ver) (v : Val) (c' : Cur)
    (ver' : Option Ver) (h : decOpt S (f + 2) .text tag c ver = .ok (v, c', ver')) :
    ∃ s, v = .text s ∧ ver' = ver := by
  rw [decOpt_succ] at h
  split at h
  · simp only [decK] at h
    obtain ⟨⟨x, c1⟩, h1, h2⟩ := Res.bind_eq_ok h
    simp only [Res.pure_eq, Res.ok.injEq, Prod.mk.injEq] at h2
    obtain ⟨rfl, rfl, rfl⟩ := h2
    exact ⟨x, rfl, rfl⟩
  · simp only [Res.ok.injEq, Prod.mk.injEq] at h
    obtain ⟨rfl, rfl, rfl⟩ := h
    exact ⟨[], by rw [zeroOf], rfl⟩

/-- the optional MessageExtension pointer. -/
theorem fxa_msgExt (S : Schema) (N : Nat) (hX : FixOK S N) (f : Nat) (hK : FK S (f + 1))
    (hsd : S.decodable (.ptr (.struct (msgExtId S))) = true)
    (c : Cur) (ver : Option Ver) (v : Val) (c' : Cur) (ver' : Option Ver)
    (h : decOpt S (f + 2) (.ptr (.struct (msgExtId S))) T.messageExtension c ver = .ok (v, c', ver'))
    (hdep : v.edepth ≤ f + 1) (hg : goodU S (.ptr (.struct (msgExtId S))) v = true) :
    ∀ n, v.edepth ≤ n → ∃ w w' items,
      normK S n (.ptr (.struct (msgExtId S))) T.messageExtension w ver = some (w', ver')
      ∧ encK S n (.ptr (.struct (msgExtId S))) T.messageExtension v ver = .ok (items, ver')
      ∧ encK S n (.ptr (.struct (msgExtId S))) T.messageExtension w ver = .ok (items, ver') := by
  intro n hn
  rw [decOpt_ptr_eq] at h
  have htg : S.kindTagOK (.ptr (.struct (msgExtId S))) T.messageExtension = true :=
    kindTagOK_of_zero (k := .ptr (.struct (msgExtId S))) hX.msgExt T.messageExtension
  obtain ⟨w, w', items, h1, h2, h3, _⟩ := hK _ _ c ver v c' ver' hsd rfl rfl htg h hdep hg n hn
  exact ⟨w, w', items, h1, h2, h3⟩

/-! ## `goodU` of the members of a struct that is not union-like -/

theorem fxa_goodU_unsupported (S : Schema) (v : Val) : goodU S .unsupported v = true := by
  cases v <;> simp [goodU]

theorem fxa_goodL_get (S : Schema) : ∀ (ks : List Kind) (vs : List Val) (i : Nat),
    goodL S ks vs = true → goodU S (ks.getD i .unsupported) (vs.getD i (.int 0)) = true
  | [], vs, i, _ => by
    simp only [List.getD_nil]; exact fxa_goodU_unsupported S _
  | k :: ks, [], i, _ => by
    simp only [List.getD_nil]
    cases (k :: ks).getD i .unsupported <;> simp [goodU]
  | k :: ks, v :: vs, 0, h => by
    simp only [goodL, Bool.and_eq_true] at h
    exact h.1
  | k :: ks, v :: vs, i + 1, h => by
    simp only [goodL, Bool.and_eq_true] at h
    simp only [List.getD_cons_succ]
    exact fxa_goodL_get S ks vs i h.2

theorem fxa_getD_map_kind (fs : List Field) (i : Nat) :
    (fs.map (·.kind)).getD i .unsupported = (fs.getD i fieldDflt).kind := by
  induction fs generalizing i with
  | nil => rfl
  | cons f fs ih =>
    cases i with
    | zero => rfl
    | succ i => simp only [List.map_cons, List.getD_cons_succ]; exact ih i

theorem fxa_good_member (S : Schema) (id code : Nat) (hc : (S.structDef id).custom = code)
    (h1 : code ≠ Cust.credentialValue) (h2 : code ≠ Cust.keyValue) (h3 : code ≠ Cust.keyMaterial)
    (fs : List Val) (hg : goodU S (.struct id) (.struct fs) = true) (i : Nat) :
    goodU S ((S.structDef id).fields.getD i fieldDflt).kind (fs.getD i (.int 0)) = true := by
  simp only [goodU, hc] at hg
  have hcond : ((S.structDef id).encCustom && (code == Cust.credentialValue || code == Cust.keyValue
      || code == Cust.keyMaterial)) = false := by
    simp [h1, h2, h3]
  rw [hcond] at hg
  simp only [Bool.false_eq_true, if_false] at hg
  rw [← fxa_getD_map_kind]
  exact fxa_goodL_get S _ _ i hg

/-! ## UnknownPayload -/

theorem fcust_unknown (S : Schema) (N : Nat) (hU : S.unambiguous = true) (hX : FixOK S N) (fd : Nat)
    (hK : ∀ m, m ≤ fd → FK S m) (hD : ∀ m, m ≤ fd → FDyn S m)
    (id tag : Nat) (c : Cur) (ver : Option Ver) (v : Val) (c' : Cur) (ver' : Option Ver)
    (hdc : (S.structDef id).decCustom = true) (hcode : (S.structDef id).custom = Cust.unknownPayload)
    (hshape : S.customShapeOK (S.structDef id) = true)
    (htag : S.kindTagOK (.struct id) tag = true)
    (h : decCustom S (fd + 1) Cust.unknownPayload id tag c ver = .ok (v, c', ver'))
    (hfd : v.edepth ≤ fd + 2) (hg : goodU S (.struct id) v = true) :
    ∀ n, v.edepth ≤ n → ∃ w w' items, normK S n (.struct id) tag w ver = some (w', ver')
      ∧ encK S n (.struct id) tag v ver = .ok (items, ver') ∧ encK S n (.struct id) tag w ver = .ok (items, ver')
      ∧ intView w' = none ∧ obsRel S (.struct id) v w' := by
  intro n hn
  have henc : (S.structDef id).encCustom = true := by
    unfold Schema.customShapeOK at hshape
    rw [hcode] at hshape
    rw [if_neg (by decide), if_neg (by decide), if_pos rfl] at hshape
    exact hshape
  rw [decCustom_unknown] at h
  obtain ⟨⟨its, c1⟩, _, h⟩ := Res.bind_eq_ok h
  simp only [Res.pure_eq, Res.ok.injEq, Prod.mk.injEq] at h
  obtain ⟨rfl, rfl, rfl⟩ := h
  simp only [Val.edepth, Val.edepthList] at hn
  obtain ⟨m, rfl⟩ : ∃ m, n = m + 2 := ⟨n - 2, by omega⟩
  refine ⟨.struct [.anyStruct its], .struct [.anyStruct its], [.struct tag its], ?_, ?_, ?_, rfl,
    fxa_not_attr S id _ hcode (by decide) _ _⟩
  · rw [normK_struct]; simp only [henc, if_true, hcode]; rw [normCustom_unknown]
  · rw [encK_struct]; simp only [henc, if_true, hcode]; rw [encCustom_unknown]; rfl
  · rw [encK_struct]; simp only [henc, if_true, hcode]; rw [encCustom_unknown]; rfl


/-! ## RequestBatchItem -/

theorem fxa_request_shape (S : Schema) (id : Nat)
    (hcode : (S.structDef id).custom = Cust.requestBatchItem)
    (hshape : S.customShapeOK (S.structDef id) = true) :
    (S.structDef id).encCustom = true
      ∧ ((S.structDef id).fields.getD 0 fieldDflt).kind.isEnum = true
      ∧ ((S.structDef id).fields.getD 3 fieldDflt).kind = .ptr (.struct (msgExtId S))
      ∧ S.decodable (.ptr (.struct (msgExtId S))) = true := by
  unfold Schema.customShapeOK at hshape
  simp only [hcode, if_true, Bool.and_eq_true, beq_iff_eq] at hshape
  exact ⟨hshape.1.1.1, hshape.1.1.2, hshape.1.2, hshape.2⟩

theorem fcust_request (S : Schema) (N : Nat) (hU : S.unambiguous = true) (hX : FixOK S N) (fd : Nat)
    (hK : ∀ m, m ≤ fd → FK S m) (hD : ∀ m, m ≤ fd → FDyn S m)
    (id tag : Nat) (c : Cur) (ver : Option Ver) (v : Val) (c' : Cur) (ver' : Option Ver)
    (hdc : (S.structDef id).decCustom = true) (hcode : (S.structDef id).custom = Cust.requestBatchItem)
    (hshape : S.customShapeOK (S.structDef id) = true)
    (htag : S.kindTagOK (.struct id) tag = true)
    (hplk : ((S.structDef id).fields.getD 2 fieldDflt).kind = .iface)
    (h : decCustom S (fd + 1) Cust.requestBatchItem id tag c ver = .ok (v, c', ver'))
    (hfd : v.edepth ≤ fd + 2) (hg : goodU S (.struct id) v = true) :
    ∀ n, v.edepth ≤ n → ∃ w w' items, normK S n (.struct id) tag w ver = some (w', ver')
      ∧ encK S n (.struct id) tag v ver = .ok (items, ver') ∧ encK S n (.struct id) tag w ver = .ok (items, ver')
      ∧ intView w' = none ∧ obsRel S (.struct id) v w' := by
  intro n hn
  obtain ⟨henc, hs0, hs3, hsd⟩ := fxa_request_shape S id hcode hshape
  obtain ⟨t, ht⟩ := isEnum_iff hs0
  rw [decCustom_request] at h
  obtain ⟨it, _, h1⟩ := Res.bind_eq_ok h
  obtain ⟨c0, _, h2⟩ := Res.bind_eq_ok h1
  obtain ⟨⟨w, w'⟩, hb, h3⟩ := Res.bind_eq_ok h2
  obtain ⟨cn, _, h4⟩ := Res.bind_eq_ok h3
  clear h h1 h2 h3
  simp only [Res.pure_eq, Res.ok.injEq, Prod.mk.injEq] at h4
  obtain ⟨rfl, rfl, rfl⟩ := h4
  obtain ⟨⟨op, d1, v1⟩, e1, hb1⟩ := Res.bind_eq_ok hb
  obtain ⟨⟨bid, d2, v2⟩, e2, hb2⟩ := Res.bind_eq_ok hb1
  obtain ⟨⟨pl, d3, v3⟩, e3, hb3⟩ := Res.bind_eq_ok hb2
  obtain ⟨⟨me, d4, v4⟩, e4, hb4⟩ := Res.bind_eq_ok hb3
  clear hb hb1 hb2 hb3
  simp only [Res.pure_eq, Res.ok.injEq, Prod.mk.injEq] at hb4
  obtain ⟨rfl, rfl⟩ := hb4
  have hgm := fxa_good_member S id _ hcode (by decide) (by decide) (by decide) _ hg
  have hgpl := hgm 2
  have hgme := hgm 3
  rw [hplk] at hgpl
  rw [hs3] at hgme
  simp only [List.getD_cons_succ, List.getD_cons_zero] at hgpl hgme
  clear hgm hg
  have hdpl : pl.edepth ≤ fd := by simp only [Val.edepth, Val.edepthList] at hfd; omega
  have hdme : me.edepth + 1 ≤ fd := by simp only [Val.edepth, Val.edepthList] at hfd; omega
  obtain ⟨f, rfl⟩ : ∃ f, fd = f + 2 := ⟨fd - 2, by have := Val.edepth_pos me; omega⟩
  clear hfd
  -- members
  rw [ht] at e1
  obtain ⟨x, rfl, hx, rfl, _⟩ := fxa_enum S _ t _ _ _ _ _ _ e1
  obtain ⟨b, rfl, rfl⟩ := fxa_optBytes S f _ _ _ _ _ _ e2
  obtain ⟨px, rfl, hdok, hpl⟩ := hD (f + 2) (Nat.le_refl _) _ _ _ _ _ _ _ (payloadDyn_mem_ctx S _ _) e3 hdpl hgpl
  rw [hs3] at e4
  have hme := fxa_msgExt S N hX f (hK (f + 1) (by omega)) hsd _ _ _ _ _ e4 (by omega) hgme
  -- fuel
  simp only [Val.edepth, Val.edepthList] at hn
  obtain ⟨m, rfl⟩ : ∃ m, n = m + 3 := ⟨n - 3, by omega⟩
  obtain ⟨wx, wx', plI, hpn, hpe, hpe', hwok, _⟩ := hpl m (by omega)
  obtain ⟨wme, wme', meI, hmn, hmee, hmee'⟩ := hme (m + 1) (by omega)
  rw [if_neg (by decide)] at hpn hpe hpe'
  simp only [Val.asInt, Int.toNat_natCast] at hpn hpe hpe' hwok hdok
  have hxu : isU32 (x : Int) = true := isU32_cast hx
  refine ⟨.struct [.int x, .bytes b, .iface (some (S.payloadDyn x false, wx)), wme],
    .struct [.int x, .bytes (normBid b), .iface (some (S.payloadDyn x false, wx')), wme'],
    [.struct tag ([Item.enum T.operation x] ++ bidItems T.uniqueBatchItemID (.bytes b) ++ plI ++ meI)],
    ?_, ?_, ?_, rfl, fxa_not_attr S id _ hcode (by decide) _ _⟩
  · rw [normK_struct]; simp only [henc, if_true, hcode]
    rw [normCustom_request]
    simp only [hxu, Int.toNat_natCast, beq_self_eq_true, Bool.and_self, if_true]
    rw [normK_iface]
    simp only [hwok, if_true, hpn, hmn]
  · rw [encK_struct]; simp only [henc, if_true, hcode]
    rw [encCustom_request]
    simp only [Val.field, List.getD_cons_succ, List.getD_cons_zero, Val.asInt, Int.toNat_natCast]
    rw [encK_iface_some, hpe]
    simp only [Res.ok_bind, hmee, Res.pure_eq]
  · rw [encK_struct]; simp only [henc, if_true, hcode]
    rw [encCustom_request]
    simp only [Val.field, List.getD_cons_succ, List.getD_cons_zero, Val.asInt, Int.toNat_natCast]
    rw [encK_iface_some, hpe']
    simp only [Res.ok_bind, hmee', Res.pure_eq]

/-! ## ResponseBatchItem -/

theorem fxa_response_shape (S : Schema) (id : Nat)
    (hcode : (S.structDef id).custom = Cust.responseBatchItem)
    (hshape : S.customShapeOK (S.structDef id) = true) :
    (S.structDef id).encCustom = true
      ∧ ((S.structDef id).fields.getD 0 fieldDflt).kind.isEnum = true
      ∧ ((S.structDef id).fields.getD 2 fieldDflt).kind.isEnum = true
      ∧ ((S.structDef id).fields.getD 3 fieldDflt).kind.isEnum = true
      ∧ ((S.structDef id).fields.getD 7 fieldDflt).kind = .ptr (.struct (msgExtId S))
      ∧ S.decodable (.ptr (.struct (msgExtId S))) = true := by
  unfold Schema.customShapeOK at hshape
  have hne : ¬ Cust.responseBatchItem = Cust.requestBatchItem := by decide
  simp only [hcode, hne, if_false, if_true, Bool.and_eq_true, beq_iff_eq] at hshape
  exact ⟨hshape.1.1.1.1.1, hshape.1.1.1.1.2, hshape.1.1.1.2, hshape.1.1.2, hshape.1.2, hshape.2⟩

/-- the hand-written encoder of ResponseBatchItem forces the tag. -/
theorem fxa_response_tag (S : Schema) (id tag : Nat) (henc : (S.structDef id).encCustom = true)
    (hcode : (S.structDef id).custom = Cust.responseBatchItem)
    (htag : S.kindTagOK (.struct id) tag = true) : tag = T.batchItem := by
  unfold Schema.kindTagOK at htag
  simp only [Kind.base, henc, hcode, beq_self_eq_true, Bool.and_self, Bool.not_true, Bool.false_or,
    beq_iff_eq] at htag
  exact htag

/-- assembling the twin of a decoded ResponseBatchItem from the twins of its payload and extension. -/
theorem fxa_response_core (S : Schema) (id : Nat) (henc : (S.structDef id).encCustom = true)
    (hcode : (S.structDef id).custom = Cust.responseBatchItem)
    (x0 x2 x3 : Nat) (h0 : x0 < 2 ^ 32) (h2 : x2 < 2 ^ 32) (h3 : x3 < 2 ^ 32)
    (b : Option Bytes) (s : Bytes) (a : Option Bytes) (pl wpl wpl' : Val) (plI : List Item)
    (me wme wme' : Val) (meI : List Item) (ver ver1 ver2 : Option Ver) (m : Nat)
    (hok : respPlOk S (x0 : Int) wpl = true)
    (hpn : normK S (m + 1) .iface T.responsePayload wpl ver = some (wpl', ver1))
    (hpe : encK S (m + 1) .iface T.responsePayload pl ver = .ok (plI, ver1))
    (hpe' : encK S (m + 1) .iface T.responsePayload wpl ver = .ok (plI, ver1))
    (hmn : normK S (m + 1) (.ptr (.struct (msgExtId S))) T.messageExtension wme ver1 = some (wme', ver2))
    (hme : encK S (m + 1) (.ptr (.struct (msgExtId S))) T.messageExtension me ver1 = .ok (meI, ver2))
    (hme' : encK S (m + 1) (.ptr (.struct (msgExtId S))) T.messageExtension wme ver1 = .ok (meI, ver2)) :
    ∃ w w' items, normK S (m + 3) (.struct id) T.batchItem w ver = some (w', ver2)
      ∧ encK S (m + 3) (.struct id) T.batchItem
          (.struct [.int x0, .bytes b, .int x2, .int x3, .text s, .bytes a, pl, me]) ver = .ok (items, ver2)
      ∧ encK S (m + 3) (.struct id) T.batchItem w ver = .ok (items, ver2)
      ∧ intView w' = none := by
  refine ⟨.struct [.int x0, .bytes b, .int x2, .int x3, .text s, .bytes a, wpl, wme],
    .struct [.int x0, .bytes (normBid b), .int x2, .int x3, .text s, .bytes (normBid a), wpl', wme'],
    [.struct T.batchItem ((if x0 ≠ 0 then [Item.enum T.operation x0] else [])
      ++ bidItems T.uniqueBatchItemID (.bytes b) ++ [Item.enum T.resultStatus x2]
      ++ (if x2 = 1 ∨ x3 ≠ 0 then [Item.enum T.resultReason x3] else [])
      ++ textItems T.resultMessage (.text s) ++ bidItems T.asyncCorrelationValue (.bytes a) ++ plI ++ meI)],
    ?_, ?_, ?_, rfl⟩
  · rw [normK_struct]; simp only [henc, if_true, hcode]
    rw [normCustom_response']
    simp only [isU32_cast h0, isU32_cast h2, isU32_cast h3, hok, decide_true, Bool.and_self, if_true,
      hpn, hmn]
  · rw [encK_struct]; simp only [henc, if_true, hcode]
    rw [encCustom_response]
    simp only [Val.field, List.getD_cons_succ, List.getD_cons_zero, Val.asInt, Int.toNat_natCast,
      hpe, Res.ok_bind, hme, Res.pure_eq]
  · rw [encK_struct]; simp only [henc, if_true, hcode]
    rw [encCustom_response]
    simp only [Val.field, List.getD_cons_succ, List.getD_cons_zero, Val.asInt, Int.toNat_natCast,
      hpe', Res.ok_bind, hme', Res.pure_eq]

/-- the six leading members of a ResponseBatchItem. -/
theorem fxa_response_members (S : Schema) (f t0 t2 t3 g1 g2 g3 g4 g5 g6 : Nat) (c0 : Cur) (ver : Option Ver)
    (op bid st rs msg acv : Val) (d1 d2 d3 d4 d5 d6 : Cur) (v1 v2 v3 v4 v5 v6 : Option Ver)
    (e1 : decOpt S (f + 2) (.enum t0) g1 c0 ver = .ok (op, d1, v1))
    (e2 : decOpt S (f + 2) .bytes g2 d1 v1 = .ok (bid, d2, v2))
    (e3 : decK S (f + 2) (.enum t2) g3 d2 v2 = .ok (st, d3, v3))
    (e4 : decOpt S (f + 2) (.enum t3) g4 d3 v3 = .ok (rs, d4, v4))
    (e5 : decOpt S (f + 2) .text g5 d4 v4 = .ok (msg, d5, v5))
    (e6 : decOpt S (f + 2) .bytes g6 d5 v5 = .ok (acv, d6, v6)) :
    ∃ (x0 x2 x3 : Nat) (b : Option Bytes) (s : Bytes) (a : Option Bytes),
      op = .int x0 ∧ x0 < 2 ^ 32 ∧ bid = .bytes b ∧ st = .int x2 ∧ x2 < 2 ^ 32 ∧ rs = .int x3 ∧ x3 < 2 ^ 32
      ∧ msg = .text s ∧ acv = .bytes a ∧ v6 = ver := by
  obtain ⟨x0, rfl, hx0, rfl⟩ := fxa_optEnum S f t0 _ _ _ _ _ _ e1
  obtain ⟨b, rfl, rfl⟩ := fxa_optBytes S f _ _ _ _ _ _ e2
  obtain ⟨x2, rfl, hx2, rfl, _⟩ := fxa_enum S _ t2 _ _ _ _ _ _ e3
  obtain ⟨x3, rfl, hx3, rfl⟩ := fxa_optEnum S f t3 _ _ _ _ _ _ e4
  obtain ⟨s, rfl, rfl⟩ := fxa_optText S f _ _ _ _ _ _ e5
  obtain ⟨a, rfl, rfl⟩ := fxa_optBytes S f _ _ _ _ _ _ e6
  exact ⟨x0, x2, x3, b, s, a, rfl, hx0, rfl, rfl, hx2, rfl, hx3, rfl, rfl, rfl⟩

/-- NB `hfd` is needed: with one unit of fuel every `d.Opt` of the decoder takes `zeroOf S 0 k = .int 0`
    (whatever the kind), the only mandatory member is a scalar, and the result is not a value of the struct. -/
theorem fcust_response (S : Schema) (N : Nat) (hU : S.unambiguous = true) (hX : FixOK S N) (fd : Nat)
    (hK : ∀ m, m ≤ fd → FK S m) (hD : ∀ m, m ≤ fd → FDyn S m)
    (id tag : Nat) (c : Cur) (ver : Option Ver) (v : Val) (c' : Cur) (ver' : Option Ver)
    (hdc : (S.structDef id).decCustom = true) (hcode : (S.structDef id).custom = Cust.responseBatchItem)
    (hshape : S.customShapeOK (S.structDef id) = true)
    (htag : S.kindTagOK (.struct id) tag = true)
    (hplk : ((S.structDef id).fields.getD 6 fieldDflt).kind = .iface)
    (h : decCustom S (fd + 1) Cust.responseBatchItem id tag c ver = .ok (v, c', ver'))
    (hfd : v.edepth ≤ fd + 2) (hg : goodU S (.struct id) v = true) :
    ∀ n, v.edepth ≤ n → ∃ w w' items, normK S n (.struct id) tag w ver = some (w', ver')
      ∧ encK S n (.struct id) tag v ver = .ok (items, ver') ∧ encK S n (.struct id) tag w ver = .ok (items, ver')
      ∧ intView w' = none ∧ obsRel S (.struct id) v w' := by
  intro n hn
  obtain ⟨henc, hs0, hs2, hs3, hs7, hsd⟩ := fxa_response_shape S id hcode hshape
  obtain ⟨t0, ht0⟩ := isEnum_iff hs0
  obtain ⟨t2, ht2⟩ := isEnum_iff hs2
  obtain ⟨t3, ht3⟩ := isEnum_iff hs3
  have htb := fxa_response_tag S id tag henc hcode htag
  subst htb
  rw [decCustom_response] at h
  obtain ⟨it, _, h1⟩ := Res.bind_eq_ok h
  obtain ⟨c0, _, h2⟩ := Res.bind_eq_ok h1
  obtain ⟨⟨w, w'⟩, hb, h3⟩ := Res.bind_eq_ok h2
  obtain ⟨cn, _, h4⟩ := Res.bind_eq_ok h3
  clear h h1 h2 h3
  simp only [Res.pure_eq, Res.ok.injEq, Prod.mk.injEq] at h4
  obtain ⟨rfl, rfl, rfl⟩ := h4
  obtain ⟨⟨op, d1, v1⟩, e1, hb1⟩ := Res.bind_eq_ok hb
  obtain ⟨⟨bid, d2, v2⟩, e2, hb2⟩ := Res.bind_eq_ok hb1
  obtain ⟨⟨st, d3, v3⟩, e3, hb3⟩ := Res.bind_eq_ok hb2
  obtain ⟨⟨rs, d4, v4⟩, e4, hb4⟩ := Res.bind_eq_ok hb3
  obtain ⟨⟨msg, d5, v5⟩, e5, hb5⟩ := Res.bind_eq_ok hb4
  obtain ⟨⟨acv, d6, v6⟩, e6, hb6⟩ := Res.bind_eq_ok hb5
  clear hb hb1 hb2 hb3 hb4 hb5
  rw [ht0] at e1
  rw [ht2] at e3
  rw [ht3] at e4
  rw [hs7] at hb6
  have hobs : ∀ v w', obsRel S (.struct id) v w' := fxa_not_attr S id _ hcode (by decide)
  dsimp only at hb6
  split at hb6
  · rename_i hcond
    obtain ⟨⟨pl, d7, v7⟩, e7, hb7⟩ := Res.bind_eq_ok hb6
    obtain ⟨⟨me, d8, v8⟩, e8, hb8⟩ := Res.bind_eq_ok hb7
    clear hb6 hb7
    simp only [Res.pure_eq, Res.ok.injEq, Prod.mk.injEq] at hb8
    obtain ⟨rfl, rfl⟩ := hb8
    have hgm := fxa_good_member S id _ hcode (by decide) (by decide) (by decide) _ hg
    have hgpl := hgm 6
    have hgme := hgm 7
    rw [hplk] at hgpl
    rw [hs7] at hgme
    simp only [List.getD_cons_succ, List.getD_cons_zero] at hgpl hgme
    clear hgm hg
    have hdpl : pl.edepth ≤ fd := by simp only [Val.edepth, Val.edepthList] at hfd; omega
    have hdme : me.edepth + 1 ≤ fd := by simp only [Val.edepth, Val.edepthList] at hfd; omega
    obtain ⟨f, rfl⟩ : ∃ f, fd = f + 2 := ⟨fd - 2, by have := Val.edepth_pos me; omega⟩
    clear hfd
    obtain ⟨x0, x2, x3, b, s, a, rfl, hx0, rfl, rfl, hx2, rfl, hx3, rfl, rfl, rfl⟩ :=
      fxa_response_members S f t0 t2 t3 _ _ _ _ _ _ _ _ _ _ _ _ _ _ _ _ _ _ _ _ _ _ _ _ _ _ e1 e2 e3 e4 e5 e6
    clear e1 e2 e3 e4 e5 e6
    obtain ⟨px, rfl, hdok, hpl⟩ :=
      hD (f + 2) (Nat.le_refl _) _ _ _ _ _ _ _ (payloadDyn_mem_ctx S _ _) e7 hdpl hgpl
    dsimp only at e8
    have hme := fxa_msgExt S N hX f (hK (f + 1) (by omega)) hsd _ _ _ _ _ e8 (by omega) hgme
    simp only [Val.edepth, Val.edepthList] at hn
    obtain ⟨m, rfl⟩ : ∃ m, n = m + 3 := ⟨n - 3, by omega⟩
    obtain ⟨wx, wx', plI, hpn, hpe, hpe', hwok, _⟩ := hpl m (by omega)
    obtain ⟨wme, wme', meI, hmn, hmee, hmee'⟩ := hme (m + 1) (by omega)
    rw [if_neg (by decide)] at hpn hpe hpe'
    simp only [Val.asInt, Int.toNat_natCast] at hpn hpe hpe' hwok hdok hcond
    obtain ⟨w, w', items, r1, r2, r3, r4⟩ := fxa_response_core S id henc hcode x0 x2 x3 hx0 hx2 hx3 b s a
      (.iface (some (S.payloadDyn x0 true, px))) (.iface (some (S.payloadDyn x0 true, wx)))
      (.iface (some (S.payloadDyn x0 true, wx'))) plI me wme wme' meI v6 v7 v8 m
      (by simp only [respPlOk, Int.toNat_natCast, beq_self_eq_true, Bool.and_true, decide_eq_true_eq]
          exact hcond.1)
      (by rw [normK_iface]; simp only [hwok, if_true, hpn])
      (by rw [encK_iface_some]; exact hpe) (by rw [encK_iface_some]; exact hpe') hmn hmee hmee'
    exact ⟨w, w', items, r1, r2, r3, r4, hobs _ _⟩
  · obtain ⟨⟨pl, d7, v7⟩, e7, hb7⟩ := Res.bind_eq_ok hb6
    obtain ⟨⟨me, d8, v8⟩, e8, hb8⟩ := Res.bind_eq_ok hb7
    clear hb6 hb7
    simp only [Res.ok.injEq, Prod.mk.injEq] at e7
    obtain ⟨rfl, rfl, rfl⟩ := e7
    simp only [Res.pure_eq, Res.ok.injEq, Prod.mk.injEq] at hb8
    obtain ⟨rfl, rfl⟩ := hb8
    have hgme := fxa_good_member S id _ hcode (by decide) (by decide) (by decide) _ hg 7
    rw [hs7] at hgme
    simp only [List.getD_cons_succ, List.getD_cons_zero] at hgme
    clear hg
    have hdme : me.edepth + 1 ≤ fd := by simp only [Val.edepth, Val.edepthList] at hfd; omega
    obtain ⟨f, rfl⟩ : ∃ f, fd = f + 2 := ⟨fd - 2, by have := Val.edepth_pos me; omega⟩
    clear hfd
    obtain ⟨x0, x2, x3, b, s, a, rfl, hx0, rfl, rfl, hx2, rfl, hx3, rfl, rfl, rfl⟩ :=
      fxa_response_members S f t0 t2 t3 _ _ _ _ _ _ _ _ _ _ _ _ _ _ _ _ _ _ _ _ _ _ _ _ _ _ e1 e2 e3 e4 e5 e6
    clear e1 e2 e3 e4 e5 e6
    have hme := fxa_msgExt S N hX f (hK (f + 1) (by omega)) hsd _ _ _ _ _ e8 (by omega) hgme
    simp only [Val.edepth, Val.edepthList] at hn
    obtain ⟨m, rfl⟩ : ∃ m, n = m + 3 := ⟨n - 3, by omega⟩
    obtain ⟨wme, wme', meI, hmn, hmee, hmee'⟩ := hme (m + 1) (by omega)
    obtain ⟨w, w', items, r1, r2, r3, r4⟩ := fxa_response_core S id henc hcode x0 x2 x3 hx0 hx2 hx3 b s a
      (.iface none) (.iface none) (.iface none) [] me wme wme' meI v6 v6 v8 m rfl
      (by rw [normK_iface]) (by rw [encK_iface_none]) (by rw [encK_iface_none]) hmn hmee hmee'
    exact ⟨w, w', items, r1, r2, r3, r4, hobs _ _⟩

end Kmip
