/-
  Driver handlers of the typed codec over the regenerated schema:
    plan.enc <dyn id> <tag> <val>     →  ok <hex of the binary TTLV> | err | panic <msg>     (tag 0 = the type's default tag)
    plan.dec <dyn id> <tag> <hex>     →  ok <val> | err | panic <msg>
    plan.conforms <dyn id> <tag> <val> →  ok 1 | ok 0 wf=<b> inrange=<b>   (the hypothesis `Conforms` of the C01 theorems,
                                          evaluated: `normTop … isSome` and `Item.AllInRange` of the encoder's items)
  and of the PINNED reference tables the Go oracles of C05 / C06 work with (single source: the Lean files
  `Pinned/Introduced.lean`, `Pinned/AttrSpec.lean`, the very definitions the theorems speak about):
    gate.pinned                       →  ok key:tag:occ:major:minor …        (decimal, one token per row)
    c06.attrspec                      →  ok name:type:reftag …               (decimal, packed name)
-/
import Driver.Common
import KmipModel.Model.ValSyntax
import KmipModel.Gen.Schema
import KmipModel.Lemmas.PlanRoundtrip
import KmipModel.Lemmas.PlanFixpoint
import KmipModel.Pinned.Introduced
import KmipModel.Pinned.AttrSpec
open Kmip

namespace Driver

mutual
  /-- executable `Item.InRange` (big integers included: the driver is compiled, not kernel-evaluated). -/
  def itemInRangeX : Item → Bool
    | .struct tag cs => decide (0 < tag) && decide (tag < 2 ^ 24) && decide ((encList cs).length < 2 ^ 32)
        && allInRangeX cs
    | .int tag v => decide (0 < tag) && decide (tag < 2 ^ 24) && decide (inInt 32 v)
    | .long tag v => decide (0 < tag) && decide (tag < 2 ^ 24) && decide (inInt 64 v)
    | .big tag v => decide (0 < tag) && decide (tag < 2 ^ 24) && decide ((encodeBig v).length < 2 ^ 32)
    | .enum tag v => decide (0 < tag) && decide (tag < 2 ^ 24) && decide (v < 2 ^ 32)
    | .bool tag _ => decide (0 < tag) && decide (tag < 2 ^ 24)
    | .text tag s => decide (0 < tag) && decide (tag < 2 ^ 24) && decide (s.length < 2 ^ 32)
    | .bytes tag s => decide (0 < tag) && decide (tag < 2 ^ 24) && decide (s.length < 2 ^ 32)
    | .date tag v => decide (0 < tag) && decide (tag < 2 ^ 24) && decide (inInt 64 v)
    | .interval tag v => decide (0 < tag) && decide (tag < 2 ^ 24) && decide (v < 2 ^ 32)
  def allInRangeX : List Item → Bool
    | [] => true
    | x :: xs => itemInRangeX x && allInRangeX xs
end

/-- the two clauses of `Conforms S d tag v`, evaluated. -/
def conformsX (S : Schema) (d tag : Nat) (v : Val) : Bool × Bool :=
  ((normTop S d tag v).isSome,
   match encK S marshalFuel (S.dyn d).kind (topTag S d tag) v none with
   | .ok (items, _) => allInRangeX items
   | _ => false)

def handlePlan (cmd arg : String) : Option String :=
  match cmd with
  | "plan.enc" => some <|
    match arg.splitOn " " with
    | d :: t :: _ =>
      match d.toNat?, t.toNat?, parseValStr ((arg.drop (d.length + t.length + 2)).toString) with
      | some dn, some tg, some v => renderRes (do let bs ← marshal Gen.schema dn tg v; pure (hexOfBytes bs))
      | _, _, _ => "bad-op"
    | _ => "bad-op"
  | "plan.conforms" => some <|
    match arg.splitOn " " with
    | d :: t :: _ =>
      match d.toNat?, t.toNat?, parseValStr ((arg.drop (d.length + t.length + 2)).toString) with
      | some dn, some tg, some v =>
        let (wf, ir) := conformsX Gen.schema dn tg v
        if wf && ir then "ok 1" else s!"ok 0 wf={wf} inrange={ir}"
      | _, _, _ => "bad-op"
    | _ => "bad-op"
  | "plan.side" => some <|
    -- the side conditions of `C18.typed_reencode_fixpoint_partial` on an input, one flag each (cf. `C18.typedSideB`,
    -- whose range check is conservative on big integers; this one uses the exact executable `InRange`)
    match arg.splitOn " " with
    | [d, t, h] =>
      match d.toNat?, t.toNat?, bytesOfHex h with
      | some dn, some tg, some bs =>
        match unmarshal Gen.schema dn tg bs with
        | .ok v =>
          let k := (Gen.schema.dyn dn).kind
          let fuel := decide (v.edepth ≤ marshalFuel)
          let union := goodU Gen.schema k v
          let tagok := Gen.schema.kindTagOK k (topTag Gen.schema dn tg)
          let range := match encK Gen.schema marshalFuel k (topTag Gen.schema dn tg) v none with
            | .ok (items, _) => allInRangeX items
            | _ => false
          if fuel && union && tagok && range then "ok all-hold"
          else s!"ok not-all fuel={fuel} union={union} tag={tagok} range={range}"
        | _ => "rejected"
      | _, _, _ => "bad-op"
    | _ => "bad-op"
  | "plan.dec" => some <|
    match arg.splitOn " " with
    | [d, t, h] =>
      match d.toNat?, t.toNat?, bytesOfHex h with
      | some dn, some tg, some bs => renderRes (do let v ← unmarshal Gen.schema dn tg bs; pure v.render)
      | _, _, _ => "bad-op"
    | _ => "bad-op"
  | "gate.pinned" => some <|
    "ok " ++ " ".intercalate (Pinned.introduced.map fun (k, t, o, M, m) => s!"{k}:{t}:{o}:{M}:{m}")
  | "c06.attrspec" => some <|
    "ok " ++ " ".intercalate (Pinned.attrSpec.map fun (n, t, r) => s!"{n}:{t}:{r}")
  | _ => none

end Driver
