package tree

import (
	"math/big"

	"verifharness/internal/rng"
)

// GenOpts bounds the random tree generator.
type GenOpts struct {
	MaxDepth    int
	MaxChildren int
	MaxData     int
	MaxBigBits  int
	// TextMode restricts text strings: 0 = arbitrary bytes, 1 = valid UTF-8 (JSON-representable, control
	// characters included), 2 = XML-representable (no C0 controls except tab/LF/CR, no U+FFFE/U+FFFF).
	TextMode int
	// ExtTags: only tags of the vendor extension range 0x540000..0x54FFFF (opaque content that cannot be
	// mistaken for a standard structure by an oracle keyed on standard tags).
	ExtTags bool
}

func genText(r *rng.R, mode, max int) []byte {
	n := r.Intn(max + 1)
	var rs []rune
	for i := 0; i < n; i++ {
		switch r.Intn(8) {
		case 0:
			rs = append(rs, rng.Pick(r, []rune{'<', '>', '&', '"', '\'', '\\', '/', ' ', 'é', 'ß', '€', '漢', '😀', '\t', '\n', '\r'}))
		case 1:
			if mode == 1 {
				rs = append(rs, rune(r.Intn(0x20)), 0x7F)
			} else {
				rs = append(rs, 'x')
			}
		case 2:
			rs = append(rs, rune(0x20+r.Intn(0x5F)))
		default:
			rs = append(rs, rune('a'+r.Intn(26)))
		}
	}
	return []byte(string(rs))
}

var interestingTags = []int{0x420001, 0x420078, 0x42007B, 0x42000D, 0x540001, 0x000001, 0xFFFFFF, 0x420008, 0x42005C}

func genTag(r *rng.R) int {
	switch r.Intn(4) {
	case 0:
		return rng.Pick(r, interestingTags)
	case 1:
		return 0x420000 + 1 + r.Intn(0x124)
	default:
		return 1 + r.Intn(0xFFFFFF)
	}
}

var int32Edges = []int64{0, 1, -1, 127, 128, -128, -129, 255, 256, 32767, -32768, 65535, 2147483647, -2147483648, 2147483646, -2147483647}
var int64Edges = []int64{0, 1, -1, 4294967295, 4294967296, -4294967296, 9223372036854775807, -9223372036854775808, 4503599627370496, -4503599627370496, 4503599627370495, 253402300799, -62135596800}

// GenBig draws big integers biased towards byte and 8-byte boundaries, both signs.
func GenBig(r *rng.R, maxBits int) *big.Int {
	var v *big.Int
	switch r.Intn(5) {
	case 0, 1: // 2^(8k) ± d or 2^(8k-1) ± d
		k := 1 + r.Intn(maxBits/8+1)
		e := uint(8 * k)
		if r.Bool() {
			e--
		}
		v = new(big.Int).Lsh(big.NewInt(1), e)
		v.Add(v, big.NewInt(int64(r.Intn(5)-2)))
	case 2: // small
		v = big.NewInt(int64(r.Intn(70000)) - 300)
	default:
		n := 1 + r.Intn(maxBits/8+1)
		b := r.Bytes(n)
		switch r.Intn(4) {
		case 0:
			b[0] = 0x80
		case 1:
			b[0] = 0xFF
		case 2:
			b[0] = 0x7F
		}
		v = new(big.Int).SetBytes(b)
	}
	if r.Bool() {
		v.Neg(v)
	}
	return v
}

func genData(r *rng.R, max int) []byte {
	var n int
	switch r.Intn(4) {
	case 0:
		n = r.Intn(18) // every length mod 8 around 0..17
	case 1:
		n = 8 * r.Intn(max/8+1)
	default:
		n = r.Intn(max + 1)
	}
	return r.Bytes(n)
}

// Gen draws a random tree.
func Gen(r *rng.R, o GenOpts, depth int) *Item {
	k := Kind(1 + r.Intn(10))
	if depth >= o.MaxDepth && k == KStruct {
		k = KInt
	}
	if depth == 0 && r.Chance(2, 3) {
		k = KStruct
	}
	it := &Item{Kind: k, Tag: genTag(r)}
	if o.ExtTags {
		it.Tag = 0x540000 + 1 + r.Intn(0xFFFE)
	}
	switch k {
	case KStruct:
		n := r.Intn(o.MaxChildren + 1)
		if r.Chance(1, 4) {
			n = r.Intn(3)
		}
		for i := 0; i < n; i++ {
			it.Children = append(it.Children, Gen(r, o, depth+1))
		}
	case KInt:
		if r.Bool() {
			it.Int = rng.Pick(r, int32Edges)
		} else {
			it.Int = int64(int32(r.U64()))
		}
	case KLong, KDate:
		if r.Bool() {
			it.Int = rng.Pick(r, int64Edges)
		} else {
			it.Int = int64(r.U64()) >> uint(r.Intn(64))
		}
		if k == KDate && o.TextMode > 0 {
			// dates within years 1..9999 (RFC 3339 representable)
			it.Int = -62135596800 + int64(r.U64()%315537897600)
		}
	case KBig:
		it.Big = GenBig(r, o.MaxBigBits)
	case KEnum, KInterval:
		if r.Bool() {
			it.Int = int64(uint32(rng.Pick(r, int32Edges)))
		} else {
			it.Int = int64(uint32(r.U64()) >> uint(r.Intn(32)))
		}
	case KBool:
		it.Bool = r.Bool()
	case KText, KBytes:
		it.Data = genData(r, o.MaxData)
		if k == KText && o.TextMode > 0 {
			it.Data = genText(r, o.TextMode, min(o.MaxData, 16))
		}
	}
	return it
}

// Size counts nodes.
func (it *Item) Size() int {
	n := 1
	for _, c := range it.Children {
		n += c.Size()
	}
	return n
}

// Depth of the tree.
func (it *Item) Depth() int {
	d := 0
	for _, c := range it.Children {
		if x := c.Depth(); x > d {
			d = x
		}
	}
	return d + 1
}
