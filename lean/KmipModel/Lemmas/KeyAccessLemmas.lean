/-
  Helper lemmas about `KmipModel.Model.KeyAccess` (property C14): hex and decimal round trips, the
  two's complement value of `bigIntToBytes(v, padding)` for every padding, transport of big integers
  and byte strings in the three encodings, absence of panics in every accessor, the laws of the toy
  standard library.  Core Lean only.
-/
import KmipModel.Lemmas.BigIntLemmas
import KmipModel.Lemmas.ReaderLemmas
import KmipModel.Model.KeyAccess
namespace Kmip.Key
open Kmip

/-! ### hex digits -/

theorem nibVal_nibUp_fin : ∀ n : Fin 16, nibVal (nibUp n.val) = some n.val := by decide
theorem nibVal_nibLo_fin : ∀ n : Fin 16, nibVal (nibLo n.val) = some n.val := by decide

theorem nibVal_nibUp {n : Nat} (h : n < 16) : nibVal (nibUp n) = some n := nibVal_nibUp_fin ⟨n, h⟩
theorem nibVal_nibLo {n : Nat} (h : n < 16) : nibVal (nibLo n) = some n := nibVal_nibLo_fin ⟨n, h⟩

theorem byte_of_nibbles (b : UInt8) : (b.toNat / 16 * 16 + b.toNat % 16).toUInt8 = b := by
  have e : b.toNat / 16 * 16 + b.toNat % 16 = b.toNat := by omega
  rw [e, ← UInt8.toNat_inj]
  simp

theorem hexDecode_hexUpper (bs : Bytes) : hexDecode (hexUpper bs) = some bs := by
  induction bs with
  | nil => rfl
  | cons b bs ih =>
    have hb := b.toNat_lt
    have h1 : b.toNat / 16 < 16 := by omega
    have h2 : b.toNat % 16 < 16 := by omega
    simp only [hexUpper, hexDecode, nibVal_nibUp h1, nibVal_nibUp h2, ih, byte_of_nibbles]

theorem hexDecode_hexLower (bs : Bytes) : hexDecode (hexLower bs) = some bs := by
  induction bs with
  | nil => rfl
  | cons b bs ih =>
    have hb := b.toNat_lt
    have h1 : b.toNat / 16 < 16 := by omega
    have h2 : b.toNat % 16 < 16 := by omega
    simp only [hexLower, hexDecode, nibVal_nibLo h1, nibVal_nibLo h2, ih, byte_of_nibbles]

/-! ### `bigIntToBytes(v, padding)` for every padding -/

/-- the padding actually used: `if padding < 1 { padding = 1 }`. -/
def effPad (p : Nat) : Nat := if p < 1 then 1 else p

theorem effPad_pos (p : Nat) : 0 < effPad p := by unfold effPad; split <;> omega

def posPadG (p : Nat) (mag : Bytes) : Nat :=
  if ¬ mag.headD 0 < 0x80 ∧ padForLen mag.length (effPad p) = 0 then effPad p
  else padForLen mag.length (effPad p)

def negPadG (p : Nat) (b : Bytes) : Nat :=
  if b.headD 0 < 0x80 ∧ padForLen b.length (effPad p) = 0 then effPad p
  else padForLen b.length (effPad p)

theorem bigBytes_zero (p : Nat) : bigBytes 0 p = List.replicate (effPad p) 0 := by
  simp [bigBytes, bigIntToBytes, effPad]

theorem bigBytes_pos (v : Int) (p : Nat) (h : 0 < v) :
    bigBytes v p = List.replicate (posPadG p (natToBytesBE v.natAbs)) 0 ++ natToBytesBE v.natAbs := by
  have h1 : ¬ v < 0 := by omega
  have h2 : ¬ v = 0 := by omega
  have e : ((0 : UInt8) &&& 1) = 0 := by decide
  simp only [bigBytes, bigIntToBytes, h1, h2, if_false, posPadG, effPad, e]
  simp only [ne_eq, UInt8.topbit_zero_iff]
  simp

theorem bigBytes_neg (v : Int) (p : Nat) (h : v < 0) :
    bigBytes v p = List.replicate (negPadG p (negBody v)) 0xFF ++ negBody v := by
  have e : ((0xFF : UInt8) &&& 1) = 1 := by decide
  have e2 : ∀ x : UInt8, (¬ ((x >>> 7) &&& 1 = 1)) ↔ x < 0x80 := by
    intro x; rw [UInt8.topbit_one_iff]; exact Decidable.not_not
  simp only [bigBytes, bigIntToBytes, h, if_true, negPadG, effPad, e]
  simp only [e2, ← negBody.eq_1, negBody_length]

theorem posPadG_head (p : Nat) (mag : Bytes) : 0 < posPadG p mag ∨ mag.headD 0 < 0x80 := by
  unfold posPadG
  by_cases h : mag.headD 0 < 0x80
  · exact Or.inr h
  · left
    have := effPad_pos p
    by_cases hp : padForLen mag.length (effPad p) = 0
    · rw [if_pos ⟨h, hp⟩]; exact this
    · rw [if_neg (fun hc => hp hc.2)]; omega

theorem negPadG_head (p : Nat) (b : Bytes) : 0 < negPadG p b ∨ ¬ b.headD 0 < 0x80 := by
  unfold negPadG
  by_cases h : b.headD 0 < 0x80
  · left
    have := effPad_pos p
    by_cases hp : padForLen b.length (effPad p) = 0
    · rw [if_pos ⟨h, hp⟩]; exact this
    · rw [if_neg (fun hc => hp hc.2)]; omega
  · exact Or.inr h

/-- for every padding the written bytes are a two's complement encoding of the value. -/
theorem twos_bigBytes (v : Int) (p : Nat) : twos (bigBytes v p) = v := by
  rcases Int.lt_trichotomy v 0 with h | h | h
  · rw [bigBytes_neg v p h, twos_pad_ff _ _ (negBody_ne_nil v h) (negPadG_head _ _), negBody_length]
    have hn : v.natAbs ≠ 0 := by omega
    have := beVal_negEnc (natToBytesBE v.natAbs) (by rw [beVal_natToBytesBE]; exact hn)
    rw [beVal_natToBytesBE] at this
    unfold negBody
    omega
  · subst h
    rw [bigBytes_zero]
    have := twos_pad_zero (effPad p) [] (Or.inl (effPad_pos p))
    simpa using this
  · rw [bigBytes_pos v p h, twos_pad_zero _ _ (posPadG_head _ _), beVal_natToBytesBE]
    omega

theorem bigBytes_ne_nil (v : Int) (p : Nat) : bigBytes v p ≠ [] := by
  rcases Int.lt_trichotomy v 0 with h | h | h
  · rw [bigBytes_neg v p h]
    have := negBody_ne_nil v h
    simp [this]
  · subst h
    rw [bigBytes_zero]
    have := effPad_pos p
    intro e
    have := congrArg List.length e
    simp at this
    omega
  · rw [bigBytes_pos v p h]
    have := natToBytesBE_ne_nil (n := v.natAbs) (by omega)
    simp [this]

theorem encodeBig_eq_bigBytes (v : Int) : encodeBig v = bigBytes v 8 := rfl

theorem bytesToBigInt_bigBytes (v : Int) (p : Nat) : bytesToBigInt (bigBytes v p) = v := by
  rw [bytesToBigInt_eq_twos_aux _ (bigBytes_ne_nil v p), twos_bigBytes]

/-! ### XML big integers -/

theorem xmlBigRead_of_decode {t bs : Bytes} (h : hexDecode t = some bs) (hne : bs ≠ []) :
    xmlBigRead t = .ok (bytesToBigInt bs) := by
  unfold xmlBigRead
  rw [h]
  cases bs with
  | nil => exact absurd rfl hne
  | cons b tl => rfl

theorem xmlBig_roundtrip (v : Int) : xmlBigRead (xmlBigWrite v) = .ok v := by
  rw [xmlBigWrite, xmlBigRead_of_decode (hexDecode_hexUpper _) (bigBytes_ne_nil v 1),
    bytesToBigInt_bigBytes]

/-! ### decimal numbers -/

theorem digit_val_fin : ∀ k : Fin 10, (48 : UInt8) ≤ (48 + k.val).toUInt8 ∧ (48 + k.val).toUInt8 ≤ 57 ∧
    (48 + k.val).toUInt8.toNat - 48 = k.val := by decide

theorem digit_val {k : Nat} (h : k < 10) : (48 : UInt8) ≤ (48 + k).toUInt8 ∧ (48 + k).toUInt8 ≤ 57 ∧
    (48 + k).toUInt8.toNat - 48 = k := digit_val_fin ⟨k, h⟩

theorem parseDigits_append (a b : Bytes) (acc : Nat) :
    parseDigits (a ++ b) acc = (parseDigits a acc).bind (parseDigits b) := by
  induction a generalizing acc with
  | nil => rfl
  | cons c cs ih =>
    simp only [List.cons_append, parseDigits]
    split
    · exact ih _
    · rfl

theorem parseDigits_single {k : Nat} (h : k < 10) (acc : Nat) :
    parseDigits [(48 + k).toUInt8] acc = some (acc * 10 + k) := by
  obtain ⟨h1, h2, h3⟩ := digit_val h
  simp only [parseDigits]
  rw [if_pos ⟨h1, h2⟩, h3]

theorem parseDigits_decDigits (n : Nat) : parseDigits (decDigits n) 0 = some n := by
  induction n using Nat.strongRecOn with
  | _ n ih =>
    rw [decDigits]
    by_cases h : n < 10
    · rw [dif_pos h, parseDigits_single h]; simp
    · rw [dif_neg h, parseDigits_append, ih (n / 10) (by omega)]
      have hm : n % 10 < 10 := by omega
      simp only [Option.bind_some, parseDigits_single hm]
      congr 1
      omega

theorem decDigits_ne_nil (n : Nat) : decDigits n ≠ [] := by
  rw [decDigits]
  split <;> simp

/-- the first character of a decimal number is a digit (neither `-` nor `+`). -/
theorem decDigits_head (n : Nat) : ∃ c rest, decDigits n = c :: rest ∧ (48 : UInt8) ≤ c ∧ c ≤ 57 := by
  induction n using Nat.strongRecOn with
  | _ n ih =>
    rw [decDigits]
    by_cases h : n < 10
    · rw [dif_pos h]
      exact ⟨_, [], rfl, (digit_val h).1, (digit_val h).2.1⟩
    · rw [dif_neg h]
      obtain ⟨c, rest, e, h1, h2⟩ := ih (n / 10) (by omega)
      exact ⟨c, rest ++ [(48 + n % 10).toUInt8], by rw [e]; rfl, h1, h2⟩

theorem parseInt64_decText (v : Int) (h1 : -9223372036854775808 ≤ v) (h2 : v ≤ 9223372036854775807) :
    parseInt64 (decText v) = some v := by
  obtain ⟨c, rest, e, hc1, hc2⟩ := decDigits_head v.natAbs
  have hc45 : c ≠ 45 := by intro h; subst h; revert hc1; decide
  have hc43 : c ≠ 43 := by intro h; subst h; revert hc1; decide
  have hp := parseDigits_decDigits v.natAbs
  have hne := decDigits_ne_nil v.natAbs
  unfold decText
  by_cases hv : v < 0
  · rw [if_pos hv]
    simp only [parseInt64, List.head?_cons, List.tail_cons, true_or, if_true, hne, if_false, hp,
      decide_true]
    have : (-(v.natAbs : Int)) = v := by omega
    simp only [this]
    rw [if_pos ⟨h1, h2⟩]
  · rw [if_neg hv]
    rw [e] at hp hne ⊢
    have e45 : ¬ (some c = some (45 : UInt8)) := by simpa using hc45
    have e43 : ¬ (some c = some (43 : UInt8)) := by simpa using hc43
    simp only [parseInt64, List.head?_cons, e45, e43, or_self, if_false, hne, hp, decide_false]
    have : ((v.natAbs : Nat) : Int) = v := by omega
    simp only [this, Bool.false_eq_true, if_false]
    rw [if_pos ⟨h1, h2⟩]

/-! ### JSON big integers -/

theorem jsonBigRead_hex {h bs : Bytes} (hd : hexDecode h = some bs) (hne : bs ≠ []) :
    jsonBigRead (.str (48 :: 120 :: h)) = .ok (bytesToBigInt bs) := by
  cases bs with
  | nil => exact absurd rfl hne
  | cons b tl => simp only [jsonBigRead, hd]

theorem jsonBig_roundtrip (v : Int) : jsonBigRead (jsonBigWrite v) = .ok v := by
  unfold jsonBigWrite
  by_cases h : v ≥ maxJsonInt ∨ v ≤ -maxJsonInt
  · rw [if_pos h, jsonBigRead_hex (hexDecode_hexLower _) (bigBytes_ne_nil v 8), bytesToBigInt_bigBytes]
  · rw [if_neg h]
    unfold maxJsonInt at h
    have := parseInt64_decText v (by omega) (by omega)
    simp [jsonBigRead, this]

/-! ### transport of a value in each encoding -/

theorem ttlvBigRead_encodeBig (v : Int) : ttlvBigRead (encodeBig v) = .ok v := by
  unfold ttlvBigRead
  have hne := encodeBig_ne_nil v
  cases h : encodeBig v with
  | nil => exact absurd h hne
  | cons b tl =>
    have := bytesToBigInt_eq_twos_aux _ hne
    rw [twos_encodeBig, h] at this
    simp [this]

theorem bigTransport_ok (enc : Enc) (v : Int) : bigTransport enc v = .ok v := by
  cases enc
  · exact ttlvBigRead_encodeBig v
  · exact xmlBig_roundtrip v
  · exact jsonBig_roundtrip v

theorem textBytes_roundtrip (bs : Bytes) : textBytesRead (textBytesWrite bs) = .ok bs := by
  simp [textBytesRead, textBytesWrite, hexDecode_hexUpper]

theorem bytesTransport_ok (enc : Enc) (bs : Bytes) : bytesTransport enc bs = .ok bs := by
  cases enc
  · rfl
  · exact textBytes_roundtrip bs
  · exact textBytes_roundtrip bs

/-! ### value-level transport is the identity on every object -/

theorem optBig_ok (enc : Enc) (o : Option Int) : optBig enc o = .ok o := by
  cases o <;> simp [optBig, bigTransport_ok]

theorem optBytes_ok (enc : Enc) (o : Option Bytes) : optBytes enc o = .ok o := by
  cases o <;> simp [optBytes, bytesTransport_ok]

theorem optMap_ok {α : Type} (f : α → Res α) (hf : ∀ a, f a = .ok a) (o : Option α) :
    optMap f o = .ok o := by
  cases o <;> simp [optMap, hf]

theorem transportRsaPriv_ok (enc : Enc) (t : RsaPrivT) : transportRsaPriv enc t = .ok t := by
  simp [transportRsaPriv, bigTransport_ok, optBig_ok]

theorem transportRsaPub_ok (enc : Enc) (t : RsaPubT) : transportRsaPub enc t = .ok t := by
  simp [transportRsaPub, bigTransport_ok]

theorem transportEcPriv_ok (enc : Enc) (t : EcPrivT) : transportEcPriv enc t = .ok t := by
  simp [transportEcPriv, bigTransport_ok]

theorem transportEcPub_ok (enc : Enc) (t : EcPubT) : transportEcPub enc t = .ok t := by
  simp [transportEcPub, bytesTransport_ok]

theorem transportMaterial_ok (enc : Enc) (m : Material) : transportMaterial enc m = .ok m := by
  simp [transportMaterial, optBytes_ok, optMap_ok _ (transportRsaPriv_ok enc),
    optMap_ok _ (transportRsaPub_ok enc), optMap_ok _ (transportEcPriv_ok enc),
    optMap_ok _ (transportEcPub_ok enc)]

theorem transportPlain_ok (enc : Enc) (p : Plain) : transportPlain enc p = .ok p := by
  simp [transportPlain, transportMaterial_ok]

theorem transportKeyValue_ok (enc : Enc) (kv : KeyValueV) : transportKeyValue enc kv = .ok kv := by
  simp [transportKeyValue, optBytes_ok, optMap_ok _ (transportPlain_ok enc)]

theorem transportKB_ok (enc : Enc) (kb : KeyBlockV) : transportKB enc kb = .ok kb := by
  simp [transportKB, optMap_ok _ (transportKeyValue_ok enc)]

theorem transportObj_ok (enc : Enc) (o : Obj) : transportObj enc o = .ok o := by
  cases o <;> simp [transportObj, transportKB_ok, bytesTransport_ok]

/-! ### no accessor panics -/

theorem ofOption_noPanic {α : Type} (o : Option α) : (ofOption o).NoPanic := by
  intro m; cases o <;> simp [ofOption]

theorem getMaterial_noPanic (kb : KeyBlockV) : (getMaterial kb).NoPanic := by
  intro m; unfold getMaterial
  split
  · simp
  · split <;> simp

theorem getBytes_noPanic (kb : KeyBlockV) : (getBytes kb).NoPanic := by
  intro m; unfold getBytes
  split
  · split <;> simp
  · simp
  · rename_i h; exact absurd h (getMaterial_noPanic kb _)

theorem getAttributes_noPanic (kb : KeyBlockV) : (getAttributes kb).NoPanic := by
  intro m; unfold getAttributes
  split
  · simp
  · split <;> simp

theorem secretData_noPanic (kb : KeyBlockV) : (secretData kb).NoPanic := by
  intro m; unfold secretData
  split
  · exact getBytes_noPanic kb m
  · simp

theorem symKeyMaterial_noPanic (kb : KeyBlockV) : (symKeyMaterial kb).NoPanic := by
  intro m; unfold symKeyMaterial
  split
  · exact getBytes_noPanic kb m
  · split
    · split
      · split <;> simp
      · simp
      · rename_i h; exact absurd h (getMaterial_noPanic kb _)
    · simp

theorem pubRSA_noPanic (C : CryptoOps) (kb : KeyBlockV) : (pubRSA C kb).NoPanic := by
  intro m; unfold pubRSA
  split
  · split
    · exact ofOption_noPanic _ m
    · simp
    · rename_i h; exact absurd h (getBytes_noPanic kb _)
  · split
    · split
      · split <;> simp
      · simp
      · rename_i h; exact absurd h (getBytes_noPanic kb _)
    · split
      · split
        · split
          · simp
          · split <;> simp
        · simp
        · rename_i h; exact absurd h (getMaterial_noPanic kb _)
      · simp

theorem pubECDSATail_noPanic (C : CryptoOps) (kb : KeyBlockV) (t : EcPubT) :
    (pubECDSATail C kb t).NoPanic := by
  intro m; unfold pubECDSATail
  split
  · simp
  · simp only
    repeat' split
    all_goals first | exact ofOption_noPanic _ m | simp

theorem pubECDSA_noPanic (C : CryptoOps) (kb : KeyBlockV) : (pubECDSA C kb).NoPanic := by
  intro m; unfold pubECDSA
  split
  · split
    · split <;> simp
    · simp
    · rename_i h; exact absurd h (getBytes_noPanic kb _)
  · split
    · split
      · split
        · simp
        · exact pubECDSATail_noPanic C kb _ m
      · simp
      · rename_i h; exact absurd h (getMaterial_noPanic kb _)
    · simp

theorem pubCrypto_noPanic (C : CryptoOps) (kb : KeyBlockV) : (pubCrypto C kb).NoPanic := by
  intro m; unfold pubCrypto
  split
  · split
    · simp
    · simp
    · rename_i h; exact absurd h (pubECDSA_noPanic C kb _)
  · split
    · split
      · simp
      · simp
      · rename_i h; exact absurd h (pubRSA_noPanic C kb _)
    · split
      · split
        · exact ofOption_noPanic _ m
        · simp
        · rename_i h; exact absurd h (getBytes_noPanic kb _)
      · simp

theorem pubPkixPem_noPanic (C : CryptoOps) (kb : KeyBlockV) : (pubPkixPem C kb).NoPanic := by
  intro m; unfold pubPkixPem
  split
  · split <;> simp
  · simp
  · rename_i h; exact absurd h (pubCrypto_noPanic C kb _)

theorem privRSA_noPanic (C : CryptoOps) (kb : KeyBlockV) : (privRSA C kb).NoPanic := by
  intro m; unfold privRSA
  split
  · split
    · exact ofOption_noPanic _ m
    · simp
    · rename_i h; exact absurd h (getBytes_noPanic kb _)
  · split
    · split
      · split <;> simp
      · simp
      · rename_i h; exact absurd h (getBytes_noPanic kb _)
    · split
      · split
        · split
          · simp
          · split
            · simp
            · split
              · simp
              · split
                · simp
                · split <;> simp
        · simp
        · rename_i h; exact absurd h (getMaterial_noPanic kb _)
      · simp

theorem privECDSATail_noPanic (C : CryptoOps) (t : EcPrivT) : (privECDSATail C t).NoPanic := by
  intro m; unfold privECDSATail
  split
  · simp
  · split <;> simp

theorem privECDSA_noPanic (C : CryptoOps) (kb : KeyBlockV) : (privECDSA C kb).NoPanic := by
  intro m; unfold privECDSA
  split
  · split
    · exact ofOption_noPanic _ m
    · simp
    · rename_i h; exact absurd h (getBytes_noPanic kb _)
  · split
    · split
      · split <;> simp
      · simp
      · rename_i h; exact absurd h (getBytes_noPanic kb _)
    · split
      · split
        · split
          · simp
          · exact privECDSATail_noPanic C _ m
        · simp
        · rename_i h; exact absurd h (getMaterial_noPanic kb _)
      · simp

theorem privCrypto_noPanic (C : CryptoOps) (kb : KeyBlockV) : (privCrypto C kb).NoPanic := by
  intro m; unfold privCrypto
  split
  · split
    · simp
    · simp
    · rename_i h; exact absurd h (privECDSA_noPanic C kb _)
  · split
    · split
      · simp
      · simp
      · rename_i h; exact absurd h (privRSA_noPanic C kb _)
    · split
      · split
        · exact ofOption_noPanic _ m
        · simp
        · rename_i h; exact absurd h (getBytes_noPanic kb _)
      · simp

/-- the key `PrivateKey.ECDSA` returns is one `MarshalPKCS8PrivateKey` accepts without panicking: it was
    parsed by the standard library or built from a scalar in `[1, n-1]` (the check of e2e4a08). -/
theorem privECDSA_ok_safe (C : Crypto) (kb : KeyBlockV) (k : C.EcPriv) (m : String)
    (h : privECDSA C.toCryptoOps kb = .ok k) : C.marshalPKCS8 (.ecdsa k) ≠ .panic m := by
  unfold privECDSA at h
  split at h
  · cases hb : getBytes kb with
    | ok raw =>
      rw [hb] at h
      simp only at h
      cases hp : C.parseSEC1 raw with
      | none => rw [hp] at h; cases h
      | some k' =>
        rw [hp] at h
        simp only [ofOption, Res.ok.injEq] at h
        subst h
        exact C.marshalPKCS8_sec1_noPanic raw k' m hp
    | err e => rw [hb] at h; cases h
    | panic m' => rw [hb] at h; cases h
  · split at h
    · cases hb : getBytes kb with
      | ok raw =>
        rw [hb] at h
        simp only at h
        cases hp : C.parsePKCS8 raw with
        | none => rw [hp] at h; cases h
        | some a =>
          rw [hp] at h
          cases a <;> simp at h
          subst h
          exact C.marshalPKCS8_parsed_noPanic raw _ m hp
      | err e => rw [hb] at h; cases h
      | panic m' => rw [hb] at h; cases h
    · split at h
      · cases hm : getMaterial kb with
        | ok mat =>
          rw [hm] at h
          simp only at h
          cases hs : ecPrivSlot kb mat with
          | none => rw [hs] at h; cases h
          | some tkey =>
            rw [hs] at h
            simp only [privECDSATail] at h
            split at h
            · cases h
            · split at h
              · cases h
              · rename_i hc hr
                simp only [Res.ok.injEq] at h
                subst h
                have hc' : curveSupported tkey.curve = true := by simpa using hc
                exact C.marshalPKCS8_built_noPanic tkey.curve tkey.d m hc' (by omega) (by omega)
        | err e => rw [hm] at h; cases h
        | panic m' => rw [hm] at h; cases h
      · cases h

theorem privCrypto_ok_safe (C : Crypto) (kb : KeyBlockV) (k : C.Priv) (m : String)
    (h : privCrypto C.toCryptoOps kb = .ok k) : C.marshalPKCS8 k ≠ .panic m := by
  unfold privCrypto at h
  split at h
  · cases he : privECDSA C.toCryptoOps kb with
    | ok k' =>
      rw [he] at h
      simp only [Res.ok.injEq] at h
      subst h
      exact privECDSA_ok_safe C kb k' m he
    | err e => rw [he] at h; cases h
    | panic m' => rw [he] at h; cases h
  · split at h
    · cases he : privRSA C.toCryptoOps kb with
      | ok k' =>
        rw [he] at h
        simp only [Res.ok.injEq] at h
        subst h
        exact C.marshalPKCS8_rsa_noPanic k' m
      | err e => rw [he] at h; cases h
      | panic m' => rw [he] at h; cases h
    · split at h
      · cases hb : getBytes kb with
        | ok raw =>
          rw [hb] at h
          simp only at h
          cases hp : C.parsePKCS8 raw with
          | none => rw [hp] at h; cases h
          | some a =>
            rw [hp] at h
            simp only [ofOption, Res.ok.injEq] at h
            subst h
            exact C.marshalPKCS8_parsed_noPanic raw a m hp
        | err e => rw [hb] at h; cases h
        | panic m' => rw [hb] at h; cases h
      · cases h

/-- `Pkcs8Pem` can only panic inside `x509.MarshalPKCS8PrivateKey` — and under the laws it does not. -/
theorem privPkcs8Pem_noPanic (C : Crypto) (kb : KeyBlockV) : (privPkcs8Pem C.toCryptoOps kb).NoPanic := by
  intro m; unfold privPkcs8Pem
  cases hk : privCrypto C.toCryptoOps kb with
  | ok k =>
    simp only
    cases hm : C.marshalPKCS8 k with
    | ok der => simp
    | err e => simp
    | panic m' => exact absurd hm (privCrypto_ok_safe C kb k m' hk)
  | err e => simp
  | panic m' => exact absurd hk (privCrypto_noPanic C.toCryptoOps kb _)

theorem privPkcs8Pem_panic_iff (C : CryptoOps) (kb : KeyBlockV) (m : String) :
    privPkcs8Pem C kb = .panic m ↔ ∃ k, privCrypto C kb = .ok k ∧ C.marshalPKCS8 k = .panic m := by
  unfold privPkcs8Pem
  constructor
  · intro h
    cases hk : privCrypto C kb with
    | ok k =>
      rw [hk] at h
      simp only at h
      cases hm : C.marshalPKCS8 k with
      | ok der => rw [hm] at h; cases h
      | err e => rw [hm] at h; cases h
      | panic m' =>
        rw [hm] at h
        simp only [Res.panic.injEq] at h
        subst h
        exact ⟨k, rfl, hm⟩
    | err e => rw [hk] at h; cases h
    | panic m' => exact absurd hk (privCrypto_noPanic C kb _)
  · rintro ⟨k, hk, hm⟩
    rw [hk]
    simp only [hm]

theorem certX509_noPanic (C : CryptoOps) (ty : Nat) (v : Bytes) : (certX509 C ty v).NoPanic := by
  intro m; unfold certX509
  split
  · simp
  · exact ofOption_noPanic _ m

theorem certPem_noPanic (C : CryptoOps) (ty : Nat) (v : Bytes) : (certPem C ty v).NoPanic := by
  intro m; unfold certPem
  split
  · simp
  · simp
  · rename_i h; exact absurd h (certX509_noPanic C ty v _)

theorem getSecret_noPanic (r : GetResp) : (getSecret r).NoPanic := by
  intro m; unfold getSecret
  split
  · simp
  · split
    · exact secretData_noPanic _ m
    · simp

theorem getSymmetricKey_noPanic (r : GetResp) : (getSymmetricKey r).NoPanic := by
  intro m; unfold getSymmetricKey
  split
  · simp
  · split
    · exact symKeyMaterial_noPanic _ m
    · simp

theorem getX509Certificate_noPanic (C : CryptoOps) (r : GetResp) : (getX509Certificate C r).NoPanic := by
  intro m; unfold getX509Certificate
  split
  · simp
  · split
    · exact certX509_noPanic C _ _ m
    · simp

theorem getPemCertificate_noPanic (C : CryptoOps) (r : GetResp) : (getPemCertificate C r).NoPanic := by
  intro m; unfold getPemCertificate
  split
  · simp
  · split
    · exact certPem_noPanic C _ _ m
    · simp

theorem getRsaPrivateKey_noPanic (C : CryptoOps) (r : GetResp) : (getRsaPrivateKey C r).NoPanic := by
  intro m; unfold getRsaPrivateKey
  split
  · simp
  · split
    · exact privRSA_noPanic C _ m
    · simp

theorem getEcdsaPrivateKey_noPanic (C : CryptoOps) (r : GetResp) : (getEcdsaPrivateKey C r).NoPanic := by
  intro m; unfold getEcdsaPrivateKey
  split
  · simp
  · split
    · exact privECDSA_noPanic C _ m
    · simp

theorem getPrivateKey_noPanic (C : CryptoOps) (r : GetResp) : (getPrivateKey C r).NoPanic := by
  intro m; unfold getPrivateKey
  split
  · simp
  · split
    · exact privCrypto_noPanic C _ m
    · simp

theorem getPemPrivateKey_noPanic (C : Crypto) (r : GetResp) :
    (getPemPrivateKey C.toCryptoOps r).NoPanic := by
  intro m; unfold getPemPrivateKey
  split
  · simp
  · split
    · exact privPkcs8Pem_noPanic C _ m
    · simp

theorem getRsaPublicKey_noPanic (C : CryptoOps) (r : GetResp) : (getRsaPublicKey C r).NoPanic := by
  intro m; unfold getRsaPublicKey
  split
  · simp
  · split
    · exact pubRSA_noPanic C _ m
    · simp

theorem getEcdsaPublicKey_noPanic (C : CryptoOps) (r : GetResp) : (getEcdsaPublicKey C r).NoPanic := by
  intro m; unfold getEcdsaPublicKey
  split
  · simp
  · split
    · exact pubECDSA_noPanic C _ m
    · simp

theorem getPublicKey_noPanic (C : CryptoOps) (r : GetResp) : (getPublicKey C r).NoPanic := by
  intro m; unfold getPublicKey
  split
  · simp
  · split
    · exact pubCrypto_noPanic C _ m
    · simp

theorem getPemPublicKey_noPanic (C : CryptoOps) (r : GetResp) : (getPemPublicKey C r).NoPanic := by
  intro m; unfold getPemPublicKey
  split
  · simp
  · split
    · exact pubPkixPem_noPanic C _ m
    · simp

theorem resAs_noPanic {α : Type} (r : Res α) (f : α → Out) (h : r.NoPanic) : (resAs r f).NoPanic := by
  intro m
  cases r with
  | ok a => simp [resAs]
  | err e => simp [resAs]
  | panic m' => exact absurd rfl (h m')

/-- without any law: every accessor except the two PKCS#8 PEM helpers. -/
theorem run_noPanic_ops (C : CryptoOps) (a : Accessor) (ha : a ≠ .privPem ∧ a ≠ .getPemPriv)
    (r : GetResp) : (run C a r).NoPanic := by
  intro m
  have herr : ∀ e : Err, (Res.err e : Res Out) ≠ .panic m := by intro e h; cases h
  cases a <;> simp only [run]
  case kbMaterial => split <;> first | exact resAs_noPanic _ _ (getMaterial_noPanic _) m | exact herr _
  case kbBytes => split <;> first | exact resAs_noPanic _ _ (getBytes_noPanic _) m | exact herr _
  case kbAttrs => split <;> first | exact resAs_noPanic _ _ (getAttributes_noPanic _) m | exact herr _
  case secretData => split <;> first | exact resAs_noPanic _ _ (secretData_noPanic _) m | exact herr _
  case symMaterial => split <;> first | exact resAs_noPanic _ _ (symKeyMaterial_noPanic _) m | exact herr _
  case pubRSA => split <;> first | exact resAs_noPanic _ _ (pubRSA_noPanic C _) m | exact herr _
  case pubECDSA => split <;> first | exact resAs_noPanic _ _ (pubECDSA_noPanic C _) m | exact herr _
  case pubCrypto => split <;> first | exact resAs_noPanic _ _ (pubCrypto_noPanic C _) m | exact herr _
  case pubPem => split <;> first | exact resAs_noPanic _ _ (pubPkixPem_noPanic C _) m | exact herr _
  case privRSA => split <;> first | exact resAs_noPanic _ _ (privRSA_noPanic C _) m | exact herr _
  case privECDSA => split <;> first | exact resAs_noPanic _ _ (privECDSA_noPanic C _) m | exact herr _
  case privCrypto => split <;> first | exact resAs_noPanic _ _ (privCrypto_noPanic C _) m | exact herr _
  case privPem => exact absurd rfl ha.1
  case certX509 => split <;> first | exact resAs_noPanic _ _ (certX509_noPanic C _ _) m | exact herr _
  case certPem => split <;> first | exact resAs_noPanic _ _ (certPem_noPanic C _ _) m | exact herr _
  case getSecret => exact resAs_noPanic _ _ (getSecret_noPanic r) m
  case getSecretString => exact resAs_noPanic _ _ (getSecret_noPanic r) m
  case getSym => exact resAs_noPanic _ _ (getSymmetricKey_noPanic r) m
  case getX509 => exact resAs_noPanic _ _ (getX509Certificate_noPanic C r) m
  case getPemCert => exact resAs_noPanic _ _ (getPemCertificate_noPanic C r) m
  case getRsaPriv => exact resAs_noPanic _ _ (getRsaPrivateKey_noPanic C r) m
  case getEcdsaPriv => exact resAs_noPanic _ _ (getEcdsaPrivateKey_noPanic C r) m
  case getPriv => exact resAs_noPanic _ _ (getPrivateKey_noPanic C r) m
  case getPemPriv => exact absurd rfl ha.2
  case getRsaPub => exact resAs_noPanic _ _ (getRsaPublicKey_noPanic C r) m
  case getEcdsaPub => exact resAs_noPanic _ _ (getEcdsaPublicKey_noPanic C r) m
  case getPub => exact resAs_noPanic _ _ (getPublicKey_noPanic C r) m
  case getPemPub => exact resAs_noPanic _ _ (getPemPublicKey_noPanic C r) m

/-- under the laws of the standard library: every accessor. -/
theorem run_noPanic (C : Crypto) (a : Accessor) (r : GetResp) : (run C.toCryptoOps a r).NoPanic := by
  by_cases ha : a ≠ .privPem ∧ a ≠ .getPemPriv
  · exact run_noPanic_ops C.toCryptoOps a ha r
  · intro m
    have herr : ∀ e : Err, (Res.err e : Res Out) ≠ .panic m := by intro e h; cases h
    have : a = .privPem ∨ a = .getPemPriv := by
      by_cases h1 : a = .privPem
      · exact Or.inl h1
      · by_cases h2 : a = .getPemPriv
        · exact Or.inr h2
        · exact absurd ⟨h1, h2⟩ ha
    rcases this with h | h <;> subst h <;> simp only [run]
    · split <;> first | exact resAs_noPanic _ _ (privPkcs8Pem_noPanic C _) m | exact herr _
    · exact resAs_noPanic _ _ (getPemPrivateKey_noPanic C r) m

/-! ### the toy standard library satisfies the laws -/

namespace Toy

theorem takeNum_of_parseDigits (ds r : Bytes) (acc n : Nat) (h : parseDigits ds acc = some n) :
    takeNum (ds ++ 0 :: r) acc = some (n, r) := by
  induction ds generalizing acc with
  | nil =>
    simp only [parseDigits, Option.some.injEq] at h
    simp [takeNum, h]
  | cons c cs ih =>
    simp only [parseDigits] at h
    split at h
    · rename_i hc
      have hc0 : c ≠ 0 := by
        intro e; subst e; exact absurd hc.1 (by decide)
      simp only [List.cons_append, takeNum, hc0, if_false, hc, and_self, if_true]
      exact ih _ h
    · cases h

theorem takeUn_un (n : Nat) (r : Bytes) : takeUn (un n ++ r) = some (n, r) := by
  unfold takeUn un
  rw [List.append_assoc]
  exact takeNum_of_parseDigits _ r 0 n (parseDigits_decDigits n)

theorem takeUn_un_nil (n : Nat) : takeUn (un n) = some (n, []) := by
  have := takeUn_un n []
  simpa using this

theorem deRsaPriv_ser (k : RsaPriv) : deRsaPriv (serRsaPriv k) = some k := by
  simp [deRsaPriv, serRsaPriv, List.append_assoc, takeUn_un, takeUn_un_nil]

theorem deRsaPub_ser (k : RsaPub) : deRsaPub (serRsaPub k) = some k := by
  simp [deRsaPub, serRsaPub, takeUn_un_nil]

theorem deEcPriv_ser (k : EcPriv) (h : k.d < 256 ^ orderBytes k.crv) : deEcPriv (serEcPriv k) = some k := by
  simp [deEcPriv, serEcPriv, takeUn_un, takeUn_un_nil, k.crv.isLt, h]

theorem deEcPriv_fits (bs : Bytes) (k : EcPriv) (h : deEcPriv bs = some k) : k.d < 256 ^ orderBytes k.crv := by
  unfold deEcPriv at h
  split at h
  · split at h
    · split at h
      · split at h
        · simp only [Option.some.injEq] at h
          subst h
          assumption
        · cases h
      · cases h
    · cases h
  · cases h

theorem marshalPKCS8_ec_fits (k : EcPriv) (m : String) (h : k.d < 256 ^ orderBytes k.crv) :
    marshalPKCS8 (.ecdsa k) ≠ .panic m := by
  have : ¬ k.d ≥ 256 ^ orderBytes k.crv := by omega
  simp [marshalPKCS8, this]

theorem order_fits' (c : Nat) (hc : curveSupported c = true) :
    curveOrder c ≤ ((256 ^ orderBytes (curveIx c) : Nat) : Int) := by
  have hc' : c = 4 ∨ c = 7 ∨ c = 10 ∨ c = 13 := by
    simp [curveSupported] at hc; omega
  rcases hc' with e | e | e | e <;> subst e <;> decide

theorem deEcPub_ser (k : EcPub) : deEcPub (serEcPub k) = some k := by
  simp [deEcPub, serEcPub, List.append_assoc, takeUn_un, takeUn_un_nil, k.crv.isLt]

theorem curve_facts : ∀ i : Fin 4, curveSupported (curveCode i) = true ∧ curveIx (curveCode i) = i ∧
    (curveCode i).toUInt8.toNat = curveCode i := by decide

theorem unpoint_point (f : UInt8) (k : EcPub) : unpoint f (curveCode k.crv) (point f k) = some k := by
  obtain ⟨h1, h2, h3⟩ := curve_facts k.crv
  simp [unpoint, point, h1, h2, h3, takeUn_un, takeUn_un_nil]

theorem parsePKCS8_marshal (k : PrivAny RsaPriv EcPriv) (bs : Bytes) (h : marshalPKCS8 k = .ok bs) :
    parsePKCS8 bs = some k := by
  cases k with
  | rsa k => simp [marshalPKCS8] at h; subst h; simp [parsePKCS8, deRsaPriv_ser]
  | ecdsa k =>
    simp only [marshalPKCS8] at h
    split at h
    · cases h
    · rename_i hd
      simp at h; subst h
      simp [parsePKCS8, deEcPriv_ser k (by omega)]
  | other => simp [marshalPKCS8] at h; subst h; simp [parsePKCS8]

theorem parsePKIX_marshal (k : PubAny RsaPub EcPub) (bs : Bytes) (h : marshalPKIX k = some bs) :
    parsePKIX bs = some k := by
  cases k <;> simp [marshalPKIX] at h <;> subst h <;> simp [parsePKIX, deRsaPub_ser, deEcPub_ser]

/-- the toy library with its laws. -/
def crypto : Crypto where
  toCryptoOps := ops
  parsePKCS1Priv_marshal k := by
    simp only [ops, untag, tagged, if_true, Option.bind_some]; exact deRsaPriv_ser k
  parsePKCS1Pub_marshal k := by
    simp only [ops, untag, tagged, if_true, Option.bind_some]; exact deRsaPub_ser k
  parsePKCS8_marshal := parsePKCS8_marshal
  parseSEC1_marshal k bs h := by
    simp only [ops, marshalSEC1] at h
    split at h
    · cases h
    · rename_i hd
      simp only [Option.some.injEq] at h
      subst h
      simp only [ops, untag, tagged, if_true, Option.bind_some]
      exact deEcPriv_ser k (by omega)
  parsePKIX_marshal := parsePKIX_marshal
  parseCert_raw c := by simp [ops, untag, tagged]
  rsaPrivBuild_parts k p q _ := by
    cases k; simp [ops, rsaPrivBuild, rsaPrivParts]
  rsaPriv_e_int k := by simp [ops, rsaPrivParts]; decide
  rsaPubMk_parts k := by cases k; simp [ops]
  rsaPub_e_int k := by simp [ops]; decide
  ecPrivBuild_parts k _ := by
    cases k with
    | mk crv d => simp [ops, (curve_facts crv).2.1]
  ecUnmarshal_marshal k _ := unpoint_point 4 k
  marshalPKCS8_rsa_noPanic k m := by simp [ops, marshalPKCS8]
  marshalPKCS8_parsed_noPanic bs k m h := by
    cases k with
    | rsa k => simp [ops, marshalPKCS8]
    | other => simp [ops, marshalPKCS8]
    | ecdsa k =>
      apply marshalPKCS8_ec_fits
      simp only [ops, parsePKCS8] at h
      split at h
      · simp at h
      · rename_i r
        cases hd : deEcPriv r with
        | none => simp [hd] at h
        | some k' =>
          simp [hd] at h
          cases h
          exact deEcPriv_fits r _ hd
      · simp at h
      · cases h
  marshalPKCS8_sec1_noPanic bs k m h := by
    apply marshalPKCS8_ec_fits
    simp only [ops] at h
    cases hu : untag 6 bs with
    | none => simp [hu] at h
    | some r =>
      simp [hu] at h
      exact deEcPriv_fits r k h
  marshalPKCS8_built_noPanic c d m hc h0 h1 := by
    apply marshalPKCS8_ec_fits
    show d.natAbs < 256 ^ orderBytes (curveIx c)
    have h1' : d < curveOrder c := h1
    have hfit := order_fits' c hc
    have : ((d.natAbs : Nat) : Int) < ((256 ^ orderBytes (curveIx c) : Nat) : Int) := by omega
    exact Int.ofNat_lt.mp this

end Toy

/-! ### register, then extract -/

theorem toInt64_of_isInt64 {v : Int} (h : isInt64 v = true) : toInt64 v = v := by
  unfold isInt64 at h
  have h' : -9223372036854775808 ≤ v ∧ v ≤ 9223372036854775807 := by simpa using h
  exact signed_unsigned64 v h'.1 (by omega)

theorem RsaParts.eta2 (P : RsaParts) (p q : Int) (hp : P.primes = [p, q]) :
    RsaParts.mk P.n P.e P.d [p, q] P.dp P.dq P.qinv = P := by
  cases P; simp at hp; simp [hp]

theorem rsaPriv_extract (C : Crypto) (kf : Nat) (k : C.RsaPriv) (o : Obj)
    (h : registerRsaPriv C.toCryptoOps kf k = .ok o) :
    getRsaPrivateKey C.toCryptoOps (respOf o) = .ok k := by
  unfold registerRsaPriv at h
  simp only at h
  split at h
  · cases h
  · split at h
    · cases h
      simp [getRsaPrivateKey, respOf, Obj.typeCode, rawKeyBytes, plainKB, privRSA, getBytes, getMaterial,
        ofOption, fPKCS1, C.parsePKCS1Priv_marshal]
    · split at h
      · split at h
        · rename_i der hder
          cases h
          simp [getRsaPrivateKey, respOf, Obj.typeCode, rawKeyBytes, plainKB, privRSA, getBytes, getMaterial,
            fPKCS1, fPKCS8, C.parsePKCS8_marshal _ _ hder]
        · cases h
        · cases h
      · split at h
        · split at h
          · rename_i p q hp
            cases h
            have he := C.rsaPriv_e_int k
            have hparts := RsaParts.eta2 (C.rsaPrivParts k) p q hp
            simp [getRsaPrivateKey, respOf, Obj.typeCode, plainKB, privRSA, getMaterial,
              fPKCS1, fPKCS8, fTransparentRSAPrivateKey, he, toInt64_of_isInt64 he, hparts,
              C.rsaPrivBuild_parts k p q hp]
          · cases h
        · cases h

theorem rsaPub_extract (C : Crypto) (kf : Nat) (k : C.RsaPub) (o : Obj)
    (h : registerRsaPub C.toCryptoOps kf k = .ok o) :
    getRsaPublicKey C.toCryptoOps (respOf o) = .ok k := by
  unfold registerRsaPub at h
  simp only at h
  split at h
  · cases h
  · split at h
    · cases h
      simp [getRsaPublicKey, respOf, Obj.typeCode, rawKeyBytes, plainKB, pubRSA, getBytes, getMaterial,
        ofOption, fPKCS1, C.parsePKCS1Pub_marshal]
    · split at h
      · split at h
        · cases h
        · rename_i der hder
          cases h
          simp [getRsaPublicKey, respOf, Obj.typeCode, rawKeyBytes, plainKB, pubRSA, getBytes, getMaterial,
            fPKCS1, fX509, C.parsePKIX_marshal _ _ hder]
      · split at h
        · cases h
          have he := C.rsaPub_e_int k
          simp [getRsaPublicKey, respOf, Obj.typeCode, plainKB, pubRSA, getMaterial,
            fPKCS1, fX509, fTransparentRSAPublicKey, he, toInt64_of_isInt64 he, C.rsaPubMk_parts]
        · cases h

theorem ecPriv_extract (C : Crypto) (kf : Nat) (ver : Nat × Nat) (k : C.EcPriv) (o : Obj)
    (hr : ecdsaPrivFormat kf = kfTransparent → 0 < C.ecPrivD k ∧ C.ecPrivD k < C.curveOrder (C.ecPrivCurve k))
    (h : registerEcPriv C.toCryptoOps kf ver k = .ok o) :
    getEcdsaPrivateKey C.toCryptoOps (respOf o) = .ok k := by
  unfold registerEcPriv at h
  simp only at h
  split at h
  · cases h
  · rename_i hc
    have hc' : curveSupported (C.ecPrivCurve k) = true := by simpa using hc
    split at h
    · split at h
      · cases h
      · rename_i der hder
        cases h
        simp [getEcdsaPrivateKey, respOf, Obj.typeCode, rawKeyBytes, plainKB, privECDSA, getBytes, getMaterial,
          ofOption, fECPrivateKey, C.parseSEC1_marshal _ _ hder]
    · split at h
      · split at h
        · rename_i der hder
          cases h
          simp [getEcdsaPrivateKey, respOf, Obj.typeCode, rawKeyBytes, plainKB, privECDSA, getBytes,
            getMaterial, fECPrivateKey, fPKCS8, C.parsePKCS8_marshal _ _ hder]
        · cases h
        · cases h
      · split at h
        · rename_i hft
          have hr := hr hft
          split at h
          · cases h
            simp [getEcdsaPrivateKey, respOf, Obj.typeCode, plainKB, privECDSA, getMaterial, ecPrivSlot,
              privECDSATail, fECPrivateKey, fPKCS8, fTransparentECPrivateKey, fTransparentECDSAPrivateKey,
              hc', C.ecPrivBuild_parts k hc', hr]
          · cases h
            simp [getEcdsaPrivateKey, respOf, Obj.typeCode, plainKB, privECDSA, getMaterial, ecPrivSlot,
              privECDSATail, fECPrivateKey, fPKCS8, fTransparentECPrivateKey, fTransparentECDSAPrivateKey,
              hc', C.ecPrivBuild_parts k hc', hr]
        · cases h

/-- a transparent EC private key whose scalar is not in `[1, n-1]` is registered as it is and refused by
    the accessor (e2e4a08). -/
theorem ecPriv_extract_invalid (C : Crypto) (kf : Nat) (ver : Nat × Nat) (k : C.EcPriv) (o : Obj)
    (hf : ecdsaPrivFormat kf = kfTransparent)
    (hr : ¬ (0 < C.ecPrivD k ∧ C.ecPrivD k < C.curveOrder (C.ecPrivCurve k)))
    (h : registerEcPriv C.toCryptoOps kf ver k = .ok o) :
    getEcdsaPrivateKey C.toCryptoOps (respOf o) = .err .range := by
  have hr' : C.ecPrivD k ≤ 0 ∨ C.ecPrivD k ≥ C.curveOrder (C.ecPrivCurve k) := by omega
  unfold registerEcPriv at h
  simp only [hf] at h
  split at h
  · cases h
  · rename_i hc
    have hc' : curveSupported (C.ecPrivCurve k) = true := by simpa using hc
    simp only [kfTransparent, kfSEC1, kfPKCS8] at h
    simp only [show ¬ (1 : Nat) = 16 by decide, show ¬ (1 : Nat) = 4 by decide, if_false, if_true] at h
    split at h
    · cases h
      simp [getEcdsaPrivateKey, respOf, Obj.typeCode, plainKB, privECDSA, getMaterial, ecPrivSlot,
        privECDSATail, fECPrivateKey, fPKCS8, fTransparentECPrivateKey, fTransparentECDSAPrivateKey, hc', hr']
    · cases h
      simp [getEcdsaPrivateKey, respOf, Obj.typeCode, plainKB, privECDSA, getMaterial, ecPrivSlot,
        privECDSATail, fECPrivateKey, fPKCS8, fTransparentECPrivateKey, fTransparentECDSAPrivateKey, hc', hr']

theorem ecPub_extract (C : Crypto) (kf : Nat) (ver : Nat × Nat) (k : C.EcPub) (o : Obj)
    (h : registerEcPub C.toCryptoOps kf ver k = .ok o) :
    getEcdsaPublicKey C.toCryptoOps (respOf o) = .ok k := by
  unfold registerEcPub at h
  simp only at h
  split at h
  · cases h
  · rename_i hc
    have hc' : curveSupported (C.ecPubCurve k) = true := by simpa using hc
    split at h
    · split at h
      · cases h
      · rename_i der hder
        cases h
        simp [getEcdsaPublicKey, respOf, Obj.typeCode, rawKeyBytes, plainKB, pubECDSA, getBytes, getMaterial,
          fX509, C.parsePKIX_marshal _ _ hder]
    · split at h
      · split at h
        · cases h
          simp [getEcdsaPublicKey, respOf, Obj.typeCode, plainKB, pubECDSA, getMaterial, ecPubSlot,
            pubECDSATail, ofOption, fX509, fTransparentECPublicKey, fTransparentECDSAPublicKey,
            hc', C.ecUnmarshal_marshal k hc']
        · cases h
          simp [getEcdsaPublicKey, respOf, Obj.typeCode, plainKB, pubECDSA, getMaterial, ecPubSlot,
            pubECDSATail, ofOption, fX509, fTransparentECPublicKey, fTransparentECDSAPublicKey,
            hc', C.ecUnmarshal_marshal k hc']
      · cases h

theorem sym_extract (kf alg : Nat) (v : Bytes) (o : Obj) (h : registerSym kf alg v = .ok o) :
    getSymmetricKey (respOf o) = .ok v := by
  unfold registerSym at h
  simp only at h
  split at h
  · cases h
  · split at h
    · cases h
      simp [getSymmetricKey, respOf, Obj.typeCode, plainKB, symKeyMaterial, getBytes, getMaterial, fRaw]
    · split at h
      · cases h
        simp [getSymmetricKey, respOf, Obj.typeCode, plainKB, symKeyMaterial, getMaterial, fRaw,
          fTransparentSymmetricKey]
      · cases h

theorem secret_extract (kind : Nat) (v : Bytes) (o : Obj) (h : registerSecret kind v = .ok o) :
    getSecret (respOf o) = .ok v := by
  unfold registerSecret at h
  cases h
  simp [getSecret, respOf, Obj.typeCode, plainKB, secretData, getBytes, getMaterial, fRaw]

/-! ### the `crypto.PrivateKey` / `crypto.PublicKey` accessors agree with the typed ones (any key block) -/

theorem privCrypto_of_privRSA (C : CryptoOps) (kb : KeyBlockV) (k : C.RsaPriv)
    (h : privRSA C kb = .ok k) : privCrypto C kb = .ok (.rsa k) := by
  have h0 := h
  unfold privRSA at h
  unfold privCrypto
  split at h
  · rename_i hf
    simp [hf, fPKCS1, fECPrivateKey, fTransparentECPrivateKey, fTransparentECDSAPrivateKey, h0]
  · split at h
    · rename_i hf
      simp only [hf, fPKCS8, fPKCS1, fECPrivateKey, fTransparentECPrivateKey, fTransparentECDSAPrivateKey,
        fTransparentRSAPrivateKey]
      cases hb : getBytes kb with
      | ok raw =>
        rw [hb] at h
        simp only at h
        cases hp : C.parsePKCS8 raw with
        | none => rw [hp] at h; cases h
        | some a =>
          rw [hp] at h
          cases a <;> simp at h
          subst h
          simp [ofOption, hp]
      | err e => rw [hb] at h; cases h
      | panic m => rw [hb] at h; cases h
    · split at h
      · rename_i hf
        simp [hf, fPKCS1, fECPrivateKey, fTransparentECPrivateKey, fTransparentECDSAPrivateKey,
          fTransparentRSAPrivateKey, h0]
      · cases h

theorem privCrypto_of_privECDSA (C : CryptoOps) (kb : KeyBlockV) (k : C.EcPriv)
    (h : privECDSA C kb = .ok k) : privCrypto C kb = .ok (.ecdsa k) := by
  have h0 := h
  unfold privECDSA at h
  unfold privCrypto
  split at h
  · rename_i hf
    simp [hf, h0]
  · split at h
    · rename_i hf
      simp only [hf, fPKCS8, fPKCS1, fECPrivateKey, fTransparentECPrivateKey, fTransparentECDSAPrivateKey,
        fTransparentRSAPrivateKey]
      cases hb : getBytes kb with
      | ok raw =>
        rw [hb] at h
        simp only at h
        cases hp : C.parsePKCS8 raw with
        | none => rw [hp] at h; cases h
        | some a =>
          rw [hp] at h
          cases a <;> simp at h
          subst h
          simp [ofOption, hp]
      | err e => rw [hb] at h; cases h
      | panic m => rw [hb] at h; cases h
    · split at h
      · rename_i hf
        rcases hf with hf | hf <;> simp [hf, h0]
      · cases h

theorem pubCrypto_of_pubRSA (C : CryptoOps) (kb : KeyBlockV) (k : C.RsaPub)
    (h : pubRSA C kb = .ok k) : pubCrypto C kb = .ok (.rsa k) := by
  have h0 := h
  unfold pubRSA at h
  unfold pubCrypto
  split at h
  · rename_i hf
    simp [hf, fPKCS1, fTransparentECPublicKey, fTransparentECDSAPublicKey, h0]
  · split at h
    · rename_i hf
      simp only [hf, fX509, fPKCS1, fTransparentECPublicKey, fTransparentECDSAPublicKey,
        fTransparentRSAPublicKey]
      cases hb : getBytes kb with
      | ok raw =>
        rw [hb] at h
        simp only at h
        cases hp : C.parsePKIX raw with
        | none => rw [hp] at h; cases h
        | some a =>
          rw [hp] at h
          cases a <;> simp at h
          subst h
          simp [ofOption, hp]
      | err e => rw [hb] at h; cases h
      | panic m => rw [hb] at h; cases h
    · split at h
      · rename_i hf
        simp [hf, fPKCS1, fTransparentECPublicKey, fTransparentECDSAPublicKey, fTransparentRSAPublicKey, h0]
      · cases h

theorem pubCrypto_of_pubECDSA (C : CryptoOps) (kb : KeyBlockV) (k : C.EcPub)
    (h : pubECDSA C kb = .ok k) : pubCrypto C kb = .ok (.ecdsa k) := by
  have h0 := h
  unfold pubECDSA at h
  unfold pubCrypto
  split at h
  · rename_i hf
    simp only [hf, fX509, fPKCS1, fTransparentECPublicKey, fTransparentECDSAPublicKey,
      fTransparentRSAPublicKey]
    cases hb : getBytes kb with
    | ok raw =>
      rw [hb] at h
      simp only at h
      cases hp : C.parsePKIX raw with
      | none => rw [hp] at h; cases h
      | some a =>
        rw [hp] at h
        cases a <;> simp at h
        subst h
        simp [ofOption, hp]
    | err e => rw [hb] at h; cases h
    | panic m => rw [hb] at h; cases h
  · split at h
    · rename_i hf
      rcases hf with hf | hf <;> simp [hf, h0]
    · cases h

/-! ### what the register builders can and cannot do -/

/-- before d693174: a multi-prime RSA key registered in the transparent format loses every prime after the
    second: the key that comes back is rebuilt from `[p, q]` only. -/
theorem rsaPriv_transparent_truncates (C : Crypto) (kf : Nat) (k : C.RsaPriv) (p q : Int) (rest : List Int)
    (hp : (C.rsaPrivParts k).primes = p :: q :: rest)
    (hlen : bitLen (C.rsaPrivParts k).n ≤ maxInt32)
    (hf : rsaPrivFormat kf = kfTransparent) :
    ∃ o, registerRsaPrivOld C.toCryptoOps kf k = .ok o ∧
      getRsaPrivateKey C.toCryptoOps (respOf o) =
        .ok (C.rsaPrivBuild { C.rsaPrivParts k with primes := [p, q] }) := by
  have he := C.rsaPriv_e_int k
  have h1 : ¬ bitLen (C.rsaPrivParts k).n > maxInt32 := by omega
  have hreg : registerRsaPrivOld C.toCryptoOps kf k = .ok (.privateKey (plainKB fTransparentRSAPrivateKey 0 algRSA
      (bitLen (C.rsaPrivParts k).n)
      { rsaPriv := some { modulus := (C.rsaPrivParts k).n, d := some (C.rsaPrivParts k).d,
                          e := some (C.rsaPrivParts k).e, p := some p, q := some q,
                          dp := (C.rsaPrivParts k).dp, dq := (C.rsaPrivParts k).dq,
                          qinv := (C.rsaPrivParts k).qinv } })) := by
    unfold registerRsaPrivOld
    simp only [h1, if_false, hf, hp]
    simp [kfTransparent, kfPKCS1, kfPKCS8]
  refine ⟨_, hreg, ?_⟩
  simp [getRsaPrivateKey, respOf, Obj.typeCode, plainKB, privRSA, getMaterial,
    fPKCS1, fPKCS8, fTransparentRSAPrivateKey, he, toInt64_of_isInt64 he]

theorem rsaPrivFormat_mem (kf : Nat) :
    rsaPrivFormat kf = kfPKCS1 ∨ rsaPrivFormat kf = kfPKCS8 ∨ rsaPrivFormat kf = kfTransparent := by
  unfold rsaPrivFormat
  split
  · exact Or.inl rfl
  · split
    · exact Or.inr (Or.inl rfl)
    · split
      · exact Or.inr (Or.inr rfl)
      · exact Or.inl rfl

theorem rsaPubFormat_mem (kf : Nat) :
    rsaPubFormat kf = kfPKCS1 ∨ rsaPubFormat kf = kfX509 ∨ rsaPubFormat kf = kfTransparent := by
  unfold rsaPubFormat
  split
  · exact Or.inl rfl
  · split
    · exact Or.inr (Or.inl rfl)
    · split
      · exact Or.inr (Or.inr rfl)
      · exact Or.inl rfl

theorem ecdsaPrivFormat_mem (kf : Nat) :
    ecdsaPrivFormat kf = kfSEC1 ∨ ecdsaPrivFormat kf = kfPKCS8 ∨ ecdsaPrivFormat kf = kfTransparent := by
  unfold ecdsaPrivFormat
  split
  · exact Or.inl rfl
  · split
    · exact Or.inr (Or.inl rfl)
    · split
      · exact Or.inr (Or.inr rfl)
      · exact Or.inl rfl

theorem ecdsaPubFormat_mem (kf : Nat) :
    ecdsaPubFormat kf = kfX509 ∨ ecdsaPubFormat kf = kfTransparent := by
  unfold ecdsaPubFormat
  split
  · exact Or.inl rfl
  · split
    · exact Or.inr rfl
    · exact Or.inl rfl

theorem symmetricFormat_mem (kf : Nat) :
    symmetricFormat kf = kfRAW ∨ symmetricFormat kf = kfTransparent := by
  unfold symmetricFormat
  split
  · exact Or.inl rfl
  · split
    · exact Or.inr rfl
    · exact Or.inl rfl

/-- HEAD refuses an RSA private key that has not exactly two primes in the transparent format. -/
theorem registerRsaPriv_refuses (C : CryptoOps) (kf : Nat) (k : C.RsaPriv)
    (hlen : bitLen (C.rsaPrivParts k).n ≤ maxInt32) (hf : rsaPrivFormat kf = kfTransparent)
    (hp : (C.rsaPrivParts k).primes.length ≠ 2) : ∃ e, registerRsaPriv C kf k = .err e := by
  have h1 : ¬ bitLen (C.rsaPrivParts k).n > maxInt32 := by omega
  refine ⟨.other, ?_⟩
  cases hpr : (C.rsaPrivParts k).primes with
  | nil => simp [registerRsaPriv, h1, hf, hpr, kfTransparent, kfPKCS1, kfPKCS8]
  | cons a t =>
    cases t with
    | nil => simp [registerRsaPriv, h1, hf, hpr, kfTransparent, kfPKCS1, kfPKCS8]
    | cons b t' =>
      cases t' with
      | nil => rw [hpr] at hp; simp at hp
      | cons c t'' => simp [registerRsaPriv, h1, hf, hpr, kfTransparent, kfPKCS1, kfPKCS8]

/-- before d693174 the builder panicked on a key with fewer than two primes. -/
theorem registerRsaPrivOld_panics (C : CryptoOps) (kf : Nat) (k : C.RsaPriv)
    (hlen : bitLen (C.rsaPrivParts k).n ≤ maxInt32) (hf : rsaPrivFormat kf = kfTransparent)
    (hp : (C.rsaPrivParts k).primes.length < 2) : ∃ m, registerRsaPrivOld C kf k = .panic m := by
  have h1 : ¬ bitLen (C.rsaPrivParts k).n > maxInt32 := by omega
  refine ⟨"index out of range", ?_⟩
  cases hpr : (C.rsaPrivParts k).primes with
  | nil => simp [registerRsaPrivOld, h1, hf, hpr, kfTransparent, kfPKCS1, kfPKCS8]
  | cons a t =>
    cases t with
    | nil => simp [registerRsaPrivOld, h1, hf, hpr, kfTransparent, kfPKCS1, kfPKCS8]
    | cons b t' => rw [hpr] at hp; simp at hp; omega

/-- a register builder never panics in its own code ("Unexpected key format" is unreachable, the prime
    index is guarded): a panic is one of `x509.MarshalPKCS8PrivateKey` on the caller's key. -/
theorem register_panic_only (C : CryptoOps) (kf : Nat) (ver : Nat × Nat) (key : AnyKey C) (m : String)
    (h : register C kf ver key = .panic m) : ∃ pk, C.marshalPKCS8 pk = .panic m := by
  cases key with
  | rsaPriv k =>
    simp only [register, registerRsaPriv] at h
    split at h
    · cases h
    · split at h
      · cases h
      · split at h
        · split at h
          · cases h
          · cases h
          · rename_i m' hm
            simp only [Res.panic.injEq] at h
            subst h
            exact ⟨_, hm⟩
        · split at h
          · split at h <;> cases h
          · exfalso
            rename_i h1 h2 h3
            rcases rsaPrivFormat_mem kf with h | h | h <;> contradiction
  | rsaPub k =>
    exfalso
    simp only [register, registerRsaPub] at h
    split at h
    · cases h
    · split at h
      · cases h
      · split at h
        · split at h <;> cases h
        · split at h
          · cases h
          · rename_i h1 h2 h3
            rcases rsaPubFormat_mem kf with h | h | h <;> contradiction
  | ecPriv k =>
    simp only [register, registerEcPriv] at h
    split at h
    · cases h
    · split at h
      · split at h <;> cases h
      · split at h
        · split at h
          · cases h
          · cases h
          · rename_i m' hm
            simp only [Res.panic.injEq] at h
            subst h
            exact ⟨_, hm⟩
        · exfalso
          split at h
          · split at h <;> cases h
          · rename_i h1 h2 h3
            rcases ecdsaPrivFormat_mem kf with h | h | h <;> contradiction
  | ecPub k =>
    exfalso
    simp only [register, registerEcPub] at h
    split at h
    · cases h
    · split at h
      · split at h <;> cases h
      · split at h
        · split at h <;> cases h
        · rename_i h1 h2
          rcases ecdsaPubFormat_mem kf with h | h <;> contradiction
  | sym alg v =>
    exfalso
    simp only [register, registerSym] at h
    split at h
    · cases h
    · split at h
      · cases h
      · split at h
        · cases h
        · rename_i h1 h2
          rcases symmetricFormat_mem kf with h | h <;> contradiction
  | secret kind v =>
    simp [register, registerSecret] at h

end Kmip.Key
