package main

// Generic scalar entry points of the codec that no KMIP type reaches (C03: "every binary encoding produced by the
// library"): Encoder.TagAny / Decoder.TagAny on plain Go scalars (byte, int8, int16, int32, int64, bool, string,
// []byte, time.Duration, time.Time, *big.Int) and the reflective codec on a struct with small and unsigned
// integer fields. Stated on the real code: the independent parser reads the values handed in, and the decoder
// returns them.

import (
	"fmt"
	"math/big"
	"time"

	"github.com/ovh/kmip-go/ttlv"

	"verifharness/internal/report"
	"verifharness/internal/tree"
)

// narrowKind: which Go integer type carries a 32-bit integer leaf through TagAny (0 int32, 1 int8, 2 byte, 3 int16).
func narrowKind(t *tree.Item) int {
	v := t.Int
	switch t.Tag % 4 {
	case 1:
		if v >= -128 && v <= 127 {
			return 1
		}
	case 2:
		if v >= 0 && v <= 255 {
			return 2
		}
	case 3:
		if v >= -32768 && v <= 32767 {
			return 3
		}
	}
	return 0
}

// anyEncode writes t through Encoder.TagAny on Go scalars (structures through Encoder.Struct, enumerations
// through Encoder.Enum: TagAny has no generic enumeration type).
func anyEncode(e *ttlv.Encoder, t *tree.Item) {
	switch t.Kind {
	case tree.KStruct:
		e.Struct(t.Tag, func(e *ttlv.Encoder) {
			for _, c := range t.Children {
				anyEncode(e, c)
			}
		})
	case tree.KInt:
		switch narrowKind(t) {
		case 1:
			e.TagAny(t.Tag, int8(t.Int))
		case 2:
			e.TagAny(t.Tag, byte(t.Int))
		case 3:
			e.TagAny(t.Tag, int16(t.Int))
		default:
			e.TagAny(t.Tag, int32(t.Int))
		}
	case tree.KLong:
		e.TagAny(t.Tag, t.Int)
	case tree.KBig:
		e.TagAny(t.Tag, new(big.Int).Set(t.Big))
	case tree.KEnum:
		e.Enum(0, t.Tag, uint32(t.Int))
	case tree.KBool:
		e.TagAny(t.Tag, t.Bool)
	case tree.KText:
		e.TagAny(t.Tag, string(t.Data))
	case tree.KBytes:
		e.TagAny(t.Tag, append([]byte{}, t.Data...))
	case tree.KDate:
		e.TagAny(t.Tag, inZone(time.Unix(t.Int, 0)))
	case tree.KInterval:
		e.TagAny(t.Tag, time.Duration(t.Int)*time.Second)
	}
}

// anyDecode reads the shape of t back through Decoder.TagAny into Go scalars of the same types.
func anyDecode(d *ttlv.Decoder, t *tree.Item) (*tree.Item, error) {
	out := &tree.Item{Kind: t.Kind, Tag: t.Tag}
	var err error
	switch t.Kind {
	case tree.KStruct:
		err = d.Struct(t.Tag, func(d *ttlv.Decoder) error {
			for _, c := range t.Children {
				ci, err := anyDecode(d, c)
				if err != nil {
					return err
				}
				out.Children = append(out.Children, ci)
			}
			if d.Tag() != 0 {
				return fmt.Errorf("items left in structure")
			}
			return nil
		})
	case tree.KInt:
		switch narrowKind(t) {
		case 1:
			var x int8
			err = d.TagAny(t.Tag, &x)
			out.Int = int64(x)
		case 2:
			var x byte
			err = d.TagAny(t.Tag, &x)
			out.Int = int64(x)
		case 3:
			var x int16
			err = d.TagAny(t.Tag, &x)
			out.Int = int64(x)
		default:
			var x int32
			err = d.TagAny(t.Tag, &x)
			out.Int = int64(x)
		}
	case tree.KLong:
		err = d.TagAny(t.Tag, &out.Int)
	case tree.KBig:
		err = d.TagAny(t.Tag, &out.Big)
		if err == nil && out.Big == nil {
			err = fmt.Errorf("nil big integer")
		}
	case tree.KEnum:
		var x uint32
		x, err = d.Enum(0, t.Tag)
		out.Int = int64(x)
	case tree.KBool:
		err = d.TagAny(t.Tag, &out.Bool)
	case tree.KText:
		var x string
		err = d.TagAny(t.Tag, &x)
		out.Data = []byte(x)
	case tree.KBytes:
		err = d.TagAny(t.Tag, &out.Data)
	case tree.KDate:
		var x time.Time
		err = d.TagAny(t.Tag, &x)
		out.Int = x.Unix()
	case tree.KInterval:
		var x time.Duration
		err = d.TagAny(t.Tag, &x)
		out.Int = int64(x / time.Second)
		if err == nil && x%time.Second != 0 {
			err = fmt.Errorf("sub-second interval")
		}
	}
	return out, err
}

// wireAnyCase: C03 on Encoder.TagAny (independent parser reads t) and the way back through Decoder.TagAny.
func wireAnyCase(ctx *Ctx, line string, t *tree.Item) {
	got, p := guard("Encoder.TagAny", func() []byte {
		e := ttlv.NewTTLVEncoder()
		anyEncode(&e, t)
		return append([]byte{}, e.Bytes()...)
	})
	ctx.Res.Count("enc.api.tagany")
	if p != "" {
		ctx.Res.Violate(report.Violation{Property: "C03", Oracle: "encoder-total", Key: "enc:tagany-panic", Detail: "Encoder.TagAny on Go scalars panicked: " + p, Line: line})
		return
	}
	back, err := tree.Decode(got)
	if err != nil {
		ctx.Res.Violate(report.Violation{Property: "C03", Oracle: "independent-parse", Key: "enc:tagany-not-wellformed:" + err.Error(), Detail: "Encoder.TagAny on Go scalars: independent parser rejects library output: " + err.Error() + " bytes=" + hexUp(got[:min(len(got), 256)]), Line: line})
		return
	} else if !tree.Equal(back, t) {
		ctx.Res.Violate(report.Violation{Property: "C03", Oracle: "independent-parse", Key: "enc:tagany-value-differs", Detail: "Encoder.TagAny on Go scalars (byte/int8/int16/int32/int64/bool/string/[]byte/time.Duration/time.Time/*big.Int): independent parser reads " + renderOrErr(back, nil), Line: line})
		return
	}
	type out struct {
		it  *tree.Item
		err error
	}
	r, p := guard("Decoder.TagAny", func() out {
		d, err := ttlv.NewTTLVDecoder(append([]byte{}, got...))
		if err != nil {
			return out{nil, err}
		}
		it, err := anyDecode(&d, t)
		return out{it, err}
	})
	if p != "" || r.err != nil || !tree.Equal(r.it, t) {
		ctx.Res.Violate(report.Violation{Property: "C03", Oracle: "converse", Key: "dec:tagany-differs", Detail: fmt.Sprintf("Decoder.TagAny into Go scalars does not return the values of a well-formed encoding: %s %v %s", p, r.err, renderOrErr(r.it, r.err)), Line: line})
	}
}

// wireProbe: the reflective codec on integer kinds no KMIP structure uses.
type wireProbe struct {
	I8   int8     `ttlv:"0x540001"`
	I16  int16    `ttlv:"0x540002"`
	U8   uint8    `ttlv:"0x540003"`
	U16  uint16   `ttlv:"0x540004"`
	U32  uint32   `ttlv:"0x540005"`
	I32  int32    `ttlv:"0x540006"`
	I64  int64    `ttlv:"0x540007"`
	PI16 *int16   `ttlv:"0x540008"`
	L16  []uint16 `ttlv:"0x540009"`
	OU8  uint8    `ttlv:"0x54000A,omitempty"`
}

func wireProbeCases(ctx *Ctx) {
	i8 := []int8{-128, -1, 0, 1, 127}
	i16 := []int16{-32768, -129, -1, 0, 255, 256, 32767}
	u8 := []uint8{0, 1, 127, 128, 255}
	u16 := []uint16{0, 255, 256, 32767, 32768, 65535}
	u32 := []uint32{0, 1, 65536, 1<<31 - 1, 1 << 31, 1<<32 - 1}
	i32 := []int32{-1 << 31, -1, 0, 1<<31 - 1}
	i64 := []int64{-1 << 63, -1, 0, 1 << 32, 1<<63 - 1}
	for k := 0; k < 42; k++ {
		pr := wireProbe{I8: i8[k%len(i8)], I16: i16[k%len(i16)], U8: u8[k%len(u8)], U16: u16[k%len(u16)], U32: u32[k%len(u32)], I32: i32[k%len(i32)], I64: i64[k%len(i64)], OU8: u8[(k/2)%len(u8)]}
		if k%3 != 0 {
			x := i16[(k+3)%len(i16)]
			pr.PI16 = &x
		}
		for j := 0; j < k%4; j++ {
			pr.L16 = append(pr.L16, u16[(k+j)%len(u16)])
		}
		// the numbers the encoding must carry, in order
		want := []int64{int64(pr.I8), int64(pr.I16), int64(pr.U8), int64(pr.U16), int64(pr.U32), int64(pr.I32), pr.I64}
		if pr.PI16 != nil {
			want = append(want, int64(*pr.PI16))
		}
		for _, x := range pr.L16 {
			want = append(want, int64(x))
		}
		if pr.OU8 != 0 {
			want = append(want, int64(pr.OU8))
		}
		line := fmt.Sprintf("# wire.probe %v (struct 0x540000 of int8,int16,uint8,uint16,uint32,int32,int64,*int16,[]uint16,uint8 omitempty)", want)
		ctx.current = line
		ctx.Res.Count("enc.probe")
		got, p := guard("Encoder.TagAny(struct)", func() []byte {
			e := ttlv.NewTTLVEncoder()
			e.TagAny(0x540000, &pr)
			return append([]byte{}, e.Bytes()...)
		})
		if p != "" {
			ctx.Res.Violate(report.Violation{Property: "C03", Oracle: "encoder-total", Key: "enc:probe-panic", Detail: "encoding a struct of small/unsigned integers panicked: " + p, Line: line})
			continue
		}
		back, err := tree.Decode(got)
		ok := err == nil && back.Kind == tree.KStruct && back.Tag == 0x540000 && len(back.Children) == len(want)
		if ok {
			for i, c := range back.Children {
				// Integer or Long Integer, whichever the library chooses for the Go kind: the NUMBER must be the one handed in
				if (c.Kind != tree.KInt && c.Kind != tree.KLong) || c.Int != want[i] {
					ok = false
				}
			}
		}
		if !ok {
			ctx.Res.Violate(report.Violation{Property: "C03", Oracle: "independent-parse", Key: "enc:probe-value-differs", Detail: fmt.Sprintf("a struct of small/unsigned integers: the independent parser reads %s (%v) instead of the numbers %v", renderOrErr(back, err), err, want), Line: line})
			continue
		}
		var pr2 wireProbe
		_, p = guard("Decoder.TagAny(struct)", func() error {
			d, e := ttlv.NewTTLVDecoder(append([]byte{}, got...))
			if e != nil {
				err = e
				return e
			}
			err = d.TagAny(0x540000, &pr2)
			return err
		})
		if p != "" || err != nil || fmt.Sprint(derefProbe(pr)) != fmt.Sprint(derefProbe(pr2)) {
			ctx.Res.Violate(report.Violation{Property: "C03", Oracle: "converse", Key: "dec:probe-differs", Detail: fmt.Sprintf("decoding the well-formed encoding of a struct of small/unsigned integers gives %v %s %v", derefProbe(pr2), p, err), Line: line})
		}
		ctx.Add(line, "ok", true, "C03")
	}
}

func derefProbe(p wireProbe) []any {
	var pi any
	if p.PI16 != nil {
		pi = *p.PI16
	}
	return []any{p.I8, p.I16, p.U8, p.U16, p.U32, p.I32, p.I64, pi, len(p.L16), fmt.Sprint(p.L16), p.OU8}
}
