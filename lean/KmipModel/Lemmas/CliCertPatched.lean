/-
  The same obligations for the system WITH THE PROPOSED PATCH (`CliConn.patched`: `reconnect` re-checks
  `c.closed` after installing the new connection): the full bad-state predicate, including the goroutine
  leak of a closed client, is unreachable. Not imported by the property files (it is about a patch
  that is not in the code); build with `lake build KmipModel.Lemmas.CliCertPatched`.
-/
import KmipModel.Lemmas.CliCertPat0
import KmipModel.Lemmas.CliCertPat1
import KmipModel.Lemmas.CliCertPat2
import KmipModel.Lemmas.CliCertPat3
import KmipModel.Lemmas.CliCertPat4
import KmipModel.Lemmas.CliCertPat5
import KmipModel.Lemmas.CliCertPat6
import KmipModel.Lemmas.CliCertPat7
namespace Kmip.CliCert
open Kmip.CliLts Kmip.CliConn Kmip.Gen.CertCliConn

/-- the certificate of the `patched` system contains the initial state and is closed under `step`. -/
theorem patched_closed : closedUnder (sys patched) codec certPatched := by
  refine ⟨by decide +kernel, ?_⟩
  intro q hq
  simp only [certPatched, List.mem_cons, List.mem_nil_iff, or_false] at hq
  rcases hq with rfl | rfl | rfl | rfl | rfl | rfl | rfl | rfl | rfl | rfl | rfl | rfl | rfl | rfl | rfl | rfl | rfl | rfl | rfl | rfl | rfl | rfl | rfl | rfl | rfl | rfl | rfl | rfl | rfl | rfl | rfl | rfl | rfl | rfl | rfl | rfl | rfl | rfl | rfl | rfl | rfl | rfl | rfl | rfl | rfl | rfl | rfl | rfl | rfl | rfl | rfl | rfl | rfl | rfl | rfl | rfl | rfl | rfl | rfl | rfl | rfl | rfl | rfl | rfl
  · exact paClosed0
  · exact paClosed1
  · exact paClosed2
  · exact paClosed3
  · exact paClosed4
  · exact paClosed5
  · exact paClosed6
  · exact paClosed7
  · exact paClosed8
  · exact paClosed9
  · exact paClosed10
  · exact paClosed11
  · exact paClosed12
  · exact paClosed13
  · exact paClosed14
  · exact paClosed15
  · exact paClosed16
  · exact paClosed17
  · exact paClosed18
  · exact paClosed19
  · exact paClosed20
  · exact paClosed21
  · exact paClosed22
  · exact paClosed23
  · exact paClosed24
  · exact paClosed25
  · exact paClosed26
  · exact paClosed27
  · exact paClosed28
  · exact paClosed29
  · exact paClosed30
  · exact paClosed31
  · exact paClosed32
  · exact paClosed33
  · exact paClosed34
  · exact paClosed35
  · exact paClosed36
  · exact paClosed37
  · exact paClosed38
  · exact paClosed39
  · exact paClosed40
  · exact paClosed41
  · exact paClosed42
  · exact paClosed43
  · exact paClosed44
  · exact paClosed45
  · exact paClosed46
  · exact paClosed47
  · exact paClosed48
  · exact paClosed49
  · exact paClosed50
  · exact paClosed51
  · exact paClosed52
  · exact paClosed53
  · exact paClosed54
  · exact paClosed55
  · exact paClosed56
  · exact paClosed57
  · exact paClosed58
  · exact paClosed59
  · exact paClosed60
  · exact paClosed61
  · exact paClosed62
  · exact paClosed63

/-- no state of the certificate is bad. -/
theorem patched_safe : safeOn codec (badFull patched) certPatched := by
  intro q hq
  simp only [certPatched, List.mem_cons, List.mem_nil_iff, or_false] at hq
  rcases hq with rfl | rfl | rfl | rfl | rfl | rfl | rfl | rfl | rfl | rfl | rfl | rfl | rfl | rfl | rfl | rfl | rfl | rfl | rfl | rfl | rfl | rfl | rfl | rfl | rfl | rfl | rfl | rfl | rfl | rfl | rfl | rfl | rfl | rfl | rfl | rfl | rfl | rfl | rfl | rfl | rfl | rfl | rfl | rfl | rfl | rfl | rfl | rfl | rfl | rfl | rfl | rfl | rfl | rfl | rfl | rfl | rfl | rfl | rfl | rfl | rfl | rfl | rfl | rfl
  · exact paSafe0
  · exact paSafe1
  · exact paSafe2
  · exact paSafe3
  · exact paSafe4
  · exact paSafe5
  · exact paSafe6
  · exact paSafe7
  · exact paSafe8
  · exact paSafe9
  · exact paSafe10
  · exact paSafe11
  · exact paSafe12
  · exact paSafe13
  · exact paSafe14
  · exact paSafe15
  · exact paSafe16
  · exact paSafe17
  · exact paSafe18
  · exact paSafe19
  · exact paSafe20
  · exact paSafe21
  · exact paSafe22
  · exact paSafe23
  · exact paSafe24
  · exact paSafe25
  · exact paSafe26
  · exact paSafe27
  · exact paSafe28
  · exact paSafe29
  · exact paSafe30
  · exact paSafe31
  · exact paSafe32
  · exact paSafe33
  · exact paSafe34
  · exact paSafe35
  · exact paSafe36
  · exact paSafe37
  · exact paSafe38
  · exact paSafe39
  · exact paSafe40
  · exact paSafe41
  · exact paSafe42
  · exact paSafe43
  · exact paSafe44
  · exact paSafe45
  · exact paSafe46
  · exact paSafe47
  · exact paSafe48
  · exact paSafe49
  · exact paSafe50
  · exact paSafe51
  · exact paSafe52
  · exact paSafe53
  · exact paSafe54
  · exact paSafe55
  · exact paSafe56
  · exact paSafe57
  · exact paSafe58
  · exact paSafe59
  · exact paSafe60
  · exact paSafe61
  · exact paSafe62
  · exact paSafe63

/-- with the patch, none of the bad states (leak of a closed client included) is reachable. -/
theorem patched_safe_all {s : St} (h : Reachable (sys patched) s) : badFull patched s = false :=
  safe_of_cert patched_closed patched_safe h

end Kmip.CliCert
