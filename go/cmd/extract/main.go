// Command extract regenerates the Lean tables under lean/KmipModel/Gen from the CURRENT tree of
// github.com/ovh/kmip-go (built from /repo with -tags verif, so that the read-only hooks exist).
//
//	extract -out <dir>                       write <dir>/Registry.lean (+ future generated modules)
//	extract -pin <file> [-force]             write the pinned reference registry (done ONCE, then reviewed)
//	extract -vectors <dir> -pinned <file>    cross-check the pinned registry against the OASIS XML vectors
//
// One file per generated module: registry.go (Gen.Registry). To add a module write
// `func writeXxx(outDir string) (changed bool, err error)` in its own file using the helpers of emit.go
// and append it to `writers` below.
package main

import (
	"flag"
	"fmt"
	"os"

	// all init() registrations of the library (tags, enums, bit masks, operations, attributes)
	_ "github.com/ovh/kmip-go"
	_ "github.com/ovh/kmip-go/payloads"
)

// writer produces one generated module inside outDir.
type writer struct {
	name string
	run  func(outDir string) (changed bool, err error)
}

// writers is the list of generated modules; add one line per new module.
var writers = []writer{
	{"Registry", writeRegistry},
	{"Schema", writeSchema},
}

func main() {
	out := flag.String("out", "", "output directory of the generated Lean modules (lean/KmipModel/Gen)")
	pin := flag.String("pin", "", "write the pinned reference registry to this file (refuses to overwrite without -force)")
	force := flag.Bool("force", false, "allow -pin to overwrite an existing file")
	vectors := flag.String("vectors", "", "directory of OASIS XML test vectors to cross-check against -pinned")
	pinned := flag.String("pinned", "", "pinned registry file (Lean) for -vectors")
	flag.Parse()

	did := false
	if *pin != "" {
		did = true
		if err := writePin(*pin, *force); err != nil {
			fmt.Fprintln(os.Stderr, "extract: pin:", err)
			os.Exit(1)
		}
	}
	if *vectors != "" {
		did = true
		if *pinned == "" {
			fmt.Fprintln(os.Stderr, "extract: -vectors needs -pinned <file>")
			os.Exit(2)
		}
		ok, err := checkVectors(*vectors, *pinned, os.Stdout)
		if err != nil {
			fmt.Fprintln(os.Stderr, "extract: vectors:", err)
			os.Exit(1)
		}
		if !ok {
			os.Exit(1)
		}
	}
	if *out != "" {
		did = true
		if err := os.MkdirAll(*out, 0o755); err != nil {
			fmt.Fprintln(os.Stderr, "extract:", err)
			os.Exit(1)
		}
		for _, w := range writers {
			changed, err := w.run(*out)
			if err != nil {
				fmt.Fprintf(os.Stderr, "extract: %s: %v\n", w.name, err)
				os.Exit(1)
			}
			state := "unchanged"
			if changed {
				state = "rewritten"
			}
			fmt.Printf("extract: Gen.%s %s\n", w.name, state)
		}
	}
	if !did {
		flag.Usage()
		os.Exit(2)
	}
}
