/-
  C01 — stage 2 (continued): the field loop of reflectively encoded structs with the three
  wrappers (`omitempty`, `version=`, `set-version`) and the shared version cell.
-/
import KmipModel.Lemmas.PlanRoundtrip2
namespace Kmip

/-! ## The wrappers, named -/

/-- the version cell a field is encoded under: `set-version` writes the cell BEFORE encoding. -/
def Field.ver1 (f : Field) (v : Val) (ver : Option Ver) : Option Ver :=
  if f.setVersion then some v.asVer else ver

/-- the encoder skips the field: outside its version range, or zero under `omitempty`. -/
def Field.skip (f : Field) (v : Val) (ver1 : Option Ver) : Bool :=
  (match f.vrange with
   | some r => !(versionIn ver1 r)
   | none => false) || (f.omitempty && v.isZero)

/-- the tag a field is encoded under (`dynTag`: the dynamic type's default tag). -/
def Field.etag (S : Schema) (f : Field) (v : Val) : Nat :=
  if f.dynTag then (match v with | .iface (some (d, _)) => (S.dyn d).defTag | _ => 0) else f.tag

/-- the decoder leaves the field at its zero value. -/
def Field.dskip (f : Field) (c : Cur) (ver : Option Ver) : Bool :=
  (match f.vrange with
   | some r => !(versionIn ver r) && (c.tag ≠ f.tag)
   | none => false) || (f.omitempty && c.tag ≠ f.tag)

theorem normFields_zero (S : Schema) (fs : List Field) (vs : List Val) (ver : Option Ver) :
    normFields S 0 fs vs ver = none := by rw [normFields]

theorem normFields_nil (S : Schema) (n : Nat) (ver : Option Ver) :
    normFields S (n + 1) [] [] ver = some ([], ver) := by simp [normFields]

theorem normFields_nil_cons (S : Schema) (n : Nat) (v : Val) (vs : List Val) (ver : Option Ver) :
    normFields S (n + 1) [] (v :: vs) ver = none := by simp [normFields]

theorem normFields_cons_nil (S : Schema) (n : Nat) (f : Field) (fs : List Field) (ver : Option Ver) :
    normFields S (n + 1) (f :: fs) [] ver = none := by simp [normFields]

theorem normFields_cons (S : Schema) (n : Nat) (f : Field) (fs : List Field) (v : Val) (vs : List Val)
    (ver : Option Ver) :
    normFields S (n + 1) (f :: fs) (v :: vs) ver =
      (if f.skip v (f.ver1 v ver) then
        if isZeroOfKind f.kind v then
          match normFields S n fs vs (f.ver1 v ver) with
          | none => none
          | some (vs', ver3) => some (v :: vs', ver3)
        else none
      else
        match normK S n f.kind (f.etag S v) v (f.ver1 v ver) with
        | none => none
        | some (v', ver2) =>
          match normFields S n fs vs ver2 with
          | none => none
          | some (vs', ver3) => some (v' :: vs', ver3)) := by
  rw [normFields.eq_def]; rfl

theorem Res.ite_bind {α β : Type} (c : Prop) [Decidable c] (x y : Res α) (g : α → Res β) :
    (if c then x >>= g else y >>= g) = ((if c then x else y) >>= g) := by
  split <;> rfl

theorem Res.ite_ite_bind {α β : Type} (c1 c2 : Prop) [Decidable c1] [Decidable c2] (x y z : Res α)
    (g : α → Res β) :
    (if c1 then x >>= g else if c2 then y >>= g else z >>= g)
      = ((if c1 then x else if c2 then y else z) >>= g) := by
  split
  · rfl
  · split <;> rfl

theorem encFields_zero (S : Schema) (fs : List Field) (vs : List Val) (ver : Option Ver) :
    encFields S 0 fs vs ver = .err .other := by rw [encFields]

theorem encFields_nil (S : Schema) (n : Nat) (vs : List Val) (ver : Option Ver) :
    encFields S (n + 1) [] vs ver = .ok ([], ver) := by simp [encFields]

theorem encFields_cons (S : Schema) (n : Nat) (f : Field) (fs : List Field) (v : Val) (vs : List Val)
    (ver : Option Ver) :
    encFields S (n + 1) (f :: fs) (v :: vs) ver = (do
      let (a, ver2) ←
        (if f.skip v (f.ver1 v ver) then (.ok ([], f.ver1 v ver) : Res EncSt)
         else encK S n f.kind (f.etag S v) v (f.ver1 v ver))
      let (b, ver3) ← encFields S n fs vs ver2
      pure (a ++ b, ver3)) := by
  rw [encFields.eq_def]
  exact Res.ite_bind _ _ _ _

theorem decFields_nil (S : Schema) (n : Nat) (c : Cur) (ver : Option Ver) :
    decFields S (n + 1) [] c ver = .ok ([], c, ver) := by simp [decFields]

theorem decFields_cons (S : Schema) (n : Nat) (f : Field) (fs : List Field) (c : Cur)
    (ver : Option Ver) :
    decFields S (n + 1) (f :: fs) c ver = (do
      let (v, c1, ver1) ←
        (if f.dynTag then (.panic "value must be a pointer" : Res (Val × DecSt))
         else if f.dskip c ver then .ok (zeroOf S n f.kind, c, ver)
         else decK S n f.kind f.tag c ver)
      let ver2 := if f.setVersion then some v.asVer else ver1
      let (vs, st) ← decFields S n fs c1 ver2
      pure (v :: vs, st)) := by
  rw [decFields.eq_def]
  exact Res.ite_ite_bind _ _ _ _ _ _


/-! ## Normalisation never turns a populated skippable field into a zero one -/

theorem normSlice_zero (S : Schema) (k : Kind) (tag : Nat) (xs : List Val) (ver : Option Ver) :
    normSlice S 0 k tag xs ver = none := by rw [normSlice]

theorem norm_isZero (S : Schema) (n : Nat) (k : Kind) (tag : Nat) (v : Val) (ver : Option Ver)
    (v' : Val) (w : Option Ver) (hz : k.zeroFaithful = true)
    (h : normK S n k tag v ver = some (v', w)) (hv : v.isZero = false) : v'.isZero = false := by
  cases n with
  | zero => rw [normK_zero] at h; contradiction
  | succ n =>
    by_cases hs : k.scalar = true
    · obtain ⟨_, _, _, _, _, _, _, hzz, _⟩ := scalar_rt S n k hs tag v v' ver w h
      exact hzz hv
    · cases k <;> simp only [Kind.scalar, not_true_eq_false] at hs <;>
        simp only [Kind.zeroFaithful] at hz <;> try contradiction
      case ptr k' =>
        rw [normK_ptr] at h
        split at h
        · simp [Val.isZero] at hv
        · rename_i x
          obtain ⟨_, h⟩ := ite_eq_some h
          cases hx : normK S n k' tag x ver with
          | none => simp only [hx] at h; contradiction
          | some p =>
            obtain ⟨x', w'⟩ := p
            simp only [hx] at h
            obtain ⟨rfl, -⟩ := pair_eq (Option.some.inj h)
            rfl
        · contradiction
      case slice k' =>
        rw [normK_slice] at h
        split at h
        · rename_i xs
          obtain ⟨_, h⟩ := ite_eq_some h
          cases hx : normSlice S n k' tag xs ver with
          | none => simp only [hx] at h; contradiction
          | some p =>
            obtain ⟨xs', w'⟩ := p
            simp only [hx] at h
            obtain ⟨rfl, -⟩ := pair_eq (Option.some.inj h)
            cases xs with
            | nil => simp [Val.isZero] at hv
            | cons x xs =>
              cases n with
              | zero => rw [normSlice_zero] at hx; contradiction
              | succ n =>
                rw [normSlice_cons] at hx
                cases hy : normK S n k' tag x ver with
                | none => simp only [hy] at hx; contradiction
                | some p =>
                  obtain ⟨y, w1⟩ := p
                  simp only [hy] at hx
                  cases hys : normSlice S n k' tag xs w1 with
                  | none => simp only [hys] at hx; contradiction
                  | some p =>
                    obtain ⟨ys, w2⟩ := p
                    simp only [hys] at hx
                    obtain ⟨rfl, -⟩ := pair_eq (Option.some.inj hx)
                    rfl
        · contradiction
      case iface =>
        rw [normK_iface] at h
        split at h
        · simp [Val.isZero] at hv
        · rename_i d x
          obtain ⟨_, h⟩ := ite_eq_some h
          cases hx : normK S n (S.dyn d).kind tag x ver with
          | none => simp only [hx] at h; contradiction
          | some p =>
            obtain ⟨x', w'⟩ := p
            simp only [hx] at h
            obtain ⟨rfl, -⟩ := pair_eq (Option.some.inj h)
            rfl
        · contradiction
      case any =>
        rw [normK_any] at h
        split at h
        · obtain ⟨_, e⟩ := ite_some_eq h
          obtain ⟨rfl, -⟩ := pair_eq e
          rfl
        · contradiction
      case anyStruct =>
        rw [normK_anyStruct] at h
        split at h
        · obtain ⟨rfl, -⟩ := pair_eq (Option.some.inj h)
          exact hv
        · contradiction
      all_goals (rw [normK.eq_def] at h; simp at h)


/-! ## Plain structures (ProtocolVersion): their codec neither reads nor writes the version cell -/

def plainFields (fs : List Field) : Bool :=
  fs.all fun f => f.kind.scalar && !f.omitempty && !f.setVersion && f.vrange.isNone && !f.dynTag

theorem Res.bind_ver_a {α : Type} (r : Res (α × Cur)) (g : α → Val) (w w' : Option Ver) (v : Val) (c1 : Cur)
    (h : (r >>= fun p => (pure (g p.1, p.2, w) : Res (Val × DecSt))) = .ok (v, c1, w')) :
    w' = w ∧ ∀ w0, (r >>= fun p => (pure (g p.1, p.2, w0) : Res (Val × DecSt)))
      = .ok (v, c1, w0) := by
  cases r with
  | ok a =>
    obtain ⟨x, c'⟩ := a
    simp only [Res.ok_bind, Res.pure_eq, Res.ok.injEq, Prod.mk.injEq] at h
    obtain ⟨rfl, rfl, rfl⟩ := h
    exact ⟨rfl, fun w0 => rfl⟩
  | err e => simp only [Res.err_bind] at h; contradiction
  | panic m => simp only [Res.panic_bind] at h; contradiction

theorem Res.bind_ver_b (r : Res (Int × Cur)) (w w' : Option Ver) (v : Val) (c1 : Cur)
    (h : (r >>= fun p =>
        if p.1 < 0 then (.err .range : Res (Val × DecSt)) else pure (.int p.1, p.2, w)) = .ok (v, c1, w')) :
    w' = w ∧ ∀ w0, (r >>= fun p =>
        if p.1 < 0 then (.err .range : Res (Val × DecSt)) else pure (.int p.1, p.2, w0))
      = .ok (v, c1, w0) := by
  cases r with
  | ok a =>
    obtain ⟨x, c'⟩ := a
    simp only [Res.ok_bind] at h ⊢
    split at h
    · contradiction
    · rename_i hx
      simp only [Res.pure_eq, Res.ok.injEq, Prod.mk.injEq] at h
      obtain ⟨rfl, rfl, rfl⟩ := h
      exact ⟨rfl, fun w0 => by simp only [if_neg hx, Res.pure_eq]⟩
  | err e => simp only [Res.err_bind] at h; contradiction
  | panic m => simp only [Res.panic_bind] at h; contradiction

theorem decK_zero (S : Schema) (k : Kind) (tag : Nat) (c : Cur) (w : Option Ver) :
    decK S 0 k tag c w = .err .other := by rw [decK]

theorem decK_scalar_ver (S : Schema) (fd : Nat) (k : Kind) (hk : k.scalar = true) (tag : Nat) (c : Cur)
    (w w' : Option Ver) (v : Val) (c1 : Cur) (h : decK S fd k tag c w = .ok (v, c1, w')) :
    w' = w ∧ ∀ w0, decK S fd k tag c w0 = .ok (v, c1, w0) := by
  cases fd with
  | zero => rw [decK_zero] at h; contradiction
  | succ fd =>
    cases k <;> simp only [Kind.scalar] at hk <;> try contradiction
    all_goals (simp only [decK] at h ⊢)
    all_goals first
      | exact Res.bind_ver_a _ _ _ _ _ _ h
      | exact Res.bind_ver_b _ _ _ _ _ h
      | exact Res.bind_ver_a _ (fun x => Val.bytes (some x)) _ _ _ _ h
      | exact Res.bind_ver_a _ (fun (x : Nat) => Val.int (x : Int)) _ _ _ _ h

theorem decFields_zero (S : Schema) (fs : List Field) (c : Cur) (w : Option Ver) :
    decFields S 0 fs c w = .err .other := by rw [decFields]

theorem decFields_plain_ver (S : Schema) : (fs : List Field) → plainFields fs = true → (fd : Nat) →
    (c : Cur) → (w w' : Option Ver) → (vs : List Val) → (c1 : Cur) →
    decFields S fd fs c w = .ok (vs, c1, w') →
    w' = w ∧ ∀ w0, decFields S fd fs c w0 = .ok (vs, c1, w0)
  | fs, hp, 0, c, w, w', vs, c1, h => by rw [decFields_zero] at h; contradiction
  | [], _, fd + 1, c, w, w', vs, c1, h => by
    rw [decFields_nil] at h
    simp only [Res.ok.injEq, Prod.mk.injEq] at h
    obtain ⟨rfl, rfl, rfl⟩ := h
    exact ⟨rfl, fun w0 => by rw [decFields_nil]⟩
  | f :: fs, hp, fd + 1, c, w, w', vs, c1, h => by
    simp only [plainFields, List.all_cons, Bool.and_eq_true, Bool.not_eq_true', Option.isNone_iff_eq_none] at hp
    obtain ⟨⟨⟨⟨⟨hsc, hom⟩, hsv⟩, hvr⟩, hdt⟩, hrest⟩ := hp
    have hds : ∀ w0, f.dskip c w0 = false := by intro w0; simp [Field.dskip, hvr, hom]
    rw [decFields_cons] at h
    simp only [hdt, hds, hsv, Bool.false_eq_true, if_false] at h
    cases hk : decK S fd f.kind f.tag c w with
    | ok a =>
      obtain ⟨v, c2, w2⟩ := a
      obtain ⟨rfl, hind⟩ := decK_scalar_ver S fd f.kind hsc f.tag c w w2 v c2 hk
      simp only [hk, Res.ok_bind] at h
      cases hr : decFields S fd fs c2 w2 with
      | ok b =>
        obtain ⟨vs1, c3, w3⟩ := b
        obtain ⟨rfl, hind2⟩ := decFields_plain_ver S fs (by simpa [plainFields] using hrest) fd c2 w2 w3 vs1 c3 hr
        simp only [hr, Res.ok_bind, Res.pure_eq, Res.ok.injEq, Prod.mk.injEq] at h
        obtain ⟨rfl, rfl, rfl⟩ := h
        refine ⟨rfl, fun w0 => ?_⟩
        rw [decFields_cons]
        simp only [hdt, hds, hsv, Bool.false_eq_true, if_false, hind w0, Res.ok_bind, hind2 w0, Res.pure_eq]
      | err e => simp only [hr, Res.err_bind] at h; contradiction
      | panic m => simp only [hr, Res.panic_bind] at h; contradiction
    | err e => simp only [hk, Res.err_bind] at h; contradiction
    | panic m => simp only [hk, Res.panic_bind] at h; contradiction


theorem decStruct_succ (S : Schema) (n : Nat) (fields : List Field) (tag : Nat) (c : Cur) (ver : Option Ver) :
    decStruct S (n + 1) fields tag c ver = (do
      let it ← c.expect 1 tag
      let inner ← Cur.start it.val
      let (vs, _, ver') ← decFields S n fields inner ver
      let c' ← c.next
      pure (.struct vs, c', ver')) := by rw [decStruct]

theorem decStruct_zero (S : Schema) (fields : List Field) (tag : Nat) (c : Cur) (ver : Option Ver) :
    decStruct S 0 fields tag c ver = .err .other := by rw [decStruct]

theorem decK_struct (S : Schema) (n id : Nat) (tag : Nat) (c : Cur) (ver : Option Ver) :
    decK S (n + 1) (.struct id) tag c ver =
      (if (S.structDef id).decCustom then decCustom S n (S.structDef id).custom id tag c ver
       else decStruct S n (S.structDef id).fields tag c ver) := by
  simp only [decK]

theorem plainKind_struct {S : Schema} {k : Kind} (h : S.plainKind k = true) :
    ∃ id, k = .struct id ∧ (S.structDef id).encCustom = false ∧ (S.structDef id).decCustom = false
      ∧ plainFields (S.structDef id).fields = true := by
  cases k <;> simp only [Schema.plainKind] at h <;> try contradiction
  rename_i id
  simp only [Bool.and_eq_true, Bool.not_eq_true'] at h
  exact ⟨id, rfl, h.1.1, h.1.2, h.2⟩

theorem decK_plain_ver (S : Schema) (fd : Nat) (k : Kind) (hk : S.plainKind k = true) (tag : Nat) (c : Cur)
    (w w' : Option Ver) (v : Val) (c1 : Cur) (h : decK S fd k tag c w = .ok (v, c1, w')) :
    w' = w ∧ ∀ w0, decK S fd k tag c w0 = .ok (v, c1, w0) := by
  obtain ⟨id, rfl, _, hdc, hpf⟩ := plainKind_struct hk
  cases fd with
  | zero => rw [decK_zero] at h; contradiction
  | succ fd =>
    rw [decK_struct] at h
    simp only [hdc, Bool.false_eq_true, if_false] at h
    cases fd with
    | zero => rw [decStruct_zero] at h; contradiction
    | succ fd =>
      rw [decStruct_succ] at h
      cases h1 : c.expect 1 tag with
      | ok it =>
        simp only [h1, Res.ok_bind] at h
        cases h2 : Cur.start it.val with
        | ok inner =>
          simp only [h2, Res.ok_bind] at h
          cases h3 : decFields S fd (S.structDef id).fields inner w with
          | ok a =>
            obtain ⟨vs, c2, w2⟩ := a
            obtain ⟨rfl, hind⟩ := decFields_plain_ver S _ hpf fd inner w w2 vs c2 h3
            simp only [h3, Res.ok_bind] at h
            cases h4 : c.next with
            | ok c' =>
              simp only [h4, Res.ok_bind, Res.pure_eq, Res.ok.injEq, Prod.mk.injEq] at h
              obtain ⟨rfl, rfl, rfl⟩ := h
              refine ⟨rfl, fun w0 => ?_⟩
              rw [decK_struct]
              simp only [hdc, Bool.false_eq_true, if_false]
              rw [decStruct_succ]
              simp only [h1, h2, hind w0, h4, Res.ok_bind, Res.pure_eq]
            | err e => simp only [h4, Res.err_bind] at h; contradiction
            | panic m => simp only [h4, Res.panic_bind] at h; contradiction
          | err e => simp only [h3, Res.err_bind] at h; contradiction
          | panic m => simp only [h3, Res.panic_bind] at h; contradiction
        | err e => simp only [h2, Res.err_bind] at h; contradiction
        | panic m => simp only [h2, Res.panic_bind] at h; contradiction
      | err e => simp only [h1, Res.err_bind] at h; contradiction
      | panic m => simp only [h1, Res.panic_bind] at h; contradiction

theorem normFields_plain (S : Schema) : (fs : List Field) → plainFields fs = true → (n : Nat) →
    (vs : List Val) → (ver : Option Ver) → (vs' : List Val) → (w : Option Ver) →
    normFields S n fs vs ver = some (vs', w) →
    w = ver ∧ ∀ i, (vs'.getD i (.int 0)).asInt = (vs.getD i (.int 0)).asInt
  | fs, _, 0, vs, ver, vs', w, h => by rw [normFields_zero] at h; contradiction
  | [], _, n + 1, [], ver, vs', w, h => by
    rw [normFields_nil] at h
    obtain ⟨rfl, rfl⟩ := pair_eq (Option.some.inj h)
    exact ⟨rfl, fun i => rfl⟩
  | [], _, n + 1, v :: vs, ver, vs', w, h => by rw [normFields_nil_cons] at h; contradiction
  | f :: fs, _, n + 1, [], ver, vs', w, h => by rw [normFields_cons_nil] at h; contradiction
  | f :: fs, hp, n + 1, v :: vs, ver, vs', w, h => by
    simp only [plainFields, List.all_cons, Bool.and_eq_true, Bool.not_eq_true', Option.isNone_iff_eq_none] at hp
    obtain ⟨⟨⟨⟨⟨hsc, hom⟩, hsv⟩, hvr⟩, hdt⟩, hrest⟩ := hp
    rw [normFields_cons] at h
    have hv1 : f.ver1 v ver = ver := by simp [Field.ver1, hsv]
    have hsk : f.skip v ver = false := by simp [Field.skip, hvr, hom]
    have het : f.etag S v = f.tag := by simp [Field.etag, hdt]
    simp only [hv1, hsk, het, Bool.false_eq_true, if_false] at h
    cases hx : normK S n f.kind f.tag v ver with
    | none => simp only [hx] at h; contradiction
    | some p =>
      obtain ⟨v', w1⟩ := p
      simp only [hx] at h
      cases n with
      | zero => rw [normK_zero] at hx; contradiction
      | succ n =>
        obtain ⟨rfl, _, _, _, _, _, hai, _⟩ := scalar_rt S n f.kind hsc f.tag v v' ver w1 hx
        cases hr : normFields S (n + 1) fs vs w1 with
        | none => simp only [hr] at h; contradiction
        | some q =>
          obtain ⟨vs1, w2⟩ := q
          simp only [hr] at h
          obtain ⟨rfl, rfl⟩ := pair_eq (Option.some.inj h)
          obtain ⟨rfl, hind⟩ := normFields_plain S fs (by simpa [plainFields] using hrest) (n + 1) vs w1 vs1 w2 hr
          refine ⟨rfl, fun i => ?_⟩
          cases i with
          | zero => exact hai
          | succ i => exact hind i

theorem plain_norm (S : Schema) (n : Nat) (k : Kind) (hk : S.plainKind k = true) (tag : Nat) (v : Val)
    (ver : Option Ver) (v' : Val) (w : Option Ver) (h : normK S n k tag v ver = some (v', w)) :
    w = ver ∧ v'.asVer = v.asVer := by
  obtain ⟨id, rfl, hec, hdc, hpf⟩ := plainKind_struct hk
  cases n with
  | zero => rw [normK_zero] at h; contradiction
  | succ n =>
    rw [normK_struct] at h
    split at h
    · rename_i fs
      simp only [hec, hdc, Bool.false_eq_true, if_false, Bool.not_false, Bool.true_or, if_true] at h
      cases hx : normFields S n (S.structDef id).fields fs ver with
      | none => simp only [hx] at h; contradiction
      | some p =>
        obtain ⟨fs', w1⟩ := p
        simp only [hx] at h
        obtain ⟨rfl, rfl⟩ := pair_eq (Option.some.inj h)
        obtain ⟨rfl, hind⟩ := normFields_plain S _ hpf n fs ver fs' w1 hx
        refine ⟨rfl, ?_⟩
        simp only [Val.asVer, Val.field, hind]
    · contradiction


/-! ## The field loop: encoder side (any struct that is encoded reflectively) -/

def PFe (S : Schema) (n : Nat) : Prop :=
  ∀ (fs : List Field) (vs : List Val) (ver : Option Ver) (vs' : List Val) (ver' : Option Ver),
    (∀ f ∈ fs, S.fieldEncOK f = true) → normFields S n fs vs ver = some (vs', ver') →
    ∃ items, encFields S n fs vs ver = .ok (items, ver') ∧ encFields S n fs vs' ver = .ok (items, ver')
      ∧ normFields S n fs vs' ver = some (vs', ver') ∧ vs'.length = fs.length ∧ vs.length = fs.length

theorem etag_norm (S : Schema) (f : Field) (n t : Nat) (v v' : Val) (w w' : Option Ver)
    (h : normK S n .iface t v w = some (v', w')) : f.etag S v' = f.etag S v := by
  cases n with
  | zero => rw [normK_zero] at h; contradiction
  | succ n =>
    rw [normK_iface] at h
    split at h
    · obtain ⟨rfl, -⟩ := pair_eq (Option.some.inj h); rfl
    · rename_i d x
      obtain ⟨_, h⟩ := ite_eq_some h
      cases hx : normK S n (S.dyn d).kind t x w with
      | none => simp only [hx] at h; contradiction
      | some p =>
        obtain ⟨x', w1⟩ := p
        simp only [hx] at h
        obtain ⟨rfl, -⟩ := pair_eq (Option.some.inj h)
        rfl
    · contradiction

theorem pfe_succ (S : Schema) (n : Nat) (hK : PK S n) (hF : PFe S n) : PFe S (n + 1) := by
  intro fs vs ver vs' ver' hok h
  cases fs with
  | nil =>
    cases vs with
    | nil =>
      rw [normFields_nil] at h
      obtain ⟨rfl, rfl⟩ := pair_eq (Option.some.inj h)
      exact ⟨[], by rw [encFields_nil], by rw [encFields_nil], by rw [normFields_nil], rfl, rfl⟩
    | cons v vs => rw [normFields_nil_cons] at h; contradiction
  | cons f fs =>
    cases vs with
    | nil => rw [normFields_cons_nil] at h; contradiction
    | cons v vs =>
      have hf := hok f (List.mem_cons_self ..)
      have hrest : ∀ g ∈ fs, S.fieldEncOK g = true := fun g hg => hok g (List.mem_cons_of_mem _ hg)
      simp only [Schema.fieldEncOK, Bool.and_eq_true, Bool.or_eq_true, Bool.not_eq_true'] at hf
      obtain ⟨⟨hzf, hpl⟩, hdt⟩ := hf
      rw [normFields_cons] at h
      by_cases hs : f.skip v (f.ver1 v ver) = true
      · simp only [hs, if_true] at h
        obtain ⟨hz, h⟩ := ite_eq_some h
        cases hr : normFields S n fs vs (f.ver1 v ver) with
        | none => simp only [hr] at h; contradiction
        | some p =>
          obtain ⟨vs1, w⟩ := p
          simp only [hr] at h
          obtain ⟨rfl, rfl⟩ := pair_eq (Option.some.inj h)
          obtain ⟨b, hb, hb', hbn, hl1, hl2⟩ := hF fs vs _ vs1 w hrest hr
          refine ⟨[] ++ b, ?_, ?_, ?_, by simp [hl1], by simp [hl2]⟩
          · rw [encFields_cons]; simp only [hs, if_true, Res.ok_bind, hb, Res.pure_eq]
          · rw [encFields_cons]; simp only [hs, if_true, Res.ok_bind, hb', Res.pure_eq]
          · rw [normFields_cons]; simp only [hs, if_true, hz, hbn]
      · have hs' : f.skip v (f.ver1 v ver) = false := by simpa using hs
        simp only [hs', Bool.false_eq_true, if_false] at h
        cases hx : normK S n f.kind (f.etag S v) v (f.ver1 v ver) with
        | none => simp only [hx] at h; contradiction
        | some p =>
          obtain ⟨v', w1⟩ := p
          simp only [hx] at h
          cases hr : normFields S n fs vs w1 with
          | none => simp only [hr] at h; contradiction
          | some q =>
            obtain ⟨vs1, w2⟩ := q
            simp only [hr] at h
            obtain ⟨rfl, rfl⟩ := pair_eq (Option.some.inj h)
            obtain ⟨a, ha, ha', han, _⟩ := hK f.kind _ v _ v' w1 hx
            obtain ⟨b, hb, hb', hbn, hl1, hl2⟩ := hF fs vs _ vs1 w2 hrest hr
            -- the normalised value is encoded under the same cell, is not skipped, under the same tag
            have hv1 : f.ver1 v' ver = f.ver1 v ver := by
              unfold Field.ver1
              by_cases hsv : f.setVersion = true
              · simp only [hsv, if_true]
                rcases hpl with hpl | hpl
                · rw [hsv] at hpl; contradiction
                · rw [(plain_norm S n f.kind hpl _ v _ v' w1 hx).2]
              · simp only [hsv, if_false]; rfl
            have hsk : f.skip v' (f.ver1 v ver) = false := by
              unfold Field.skip at hs' ⊢
              simp only [Bool.or_eq_false_iff, Bool.and_eq_false_iff] at hs' ⊢
              refine ⟨hs'.1, ?_⟩
              rcases hs'.2 with h1 | h1
              · exact Or.inl h1
              · rcases hzf with hzf | hzf
                · exact Or.inl hzf
                · exact Or.inr (norm_isZero S n f.kind _ v _ v' w1 hzf hx h1)
            have het : f.etag S v' = f.etag S v := by
              rcases hdt with hdt | hdt
              · simp [Field.etag, hdt]
              · have hk : f.kind = .iface := by simpa using hdt
                rw [hk] at hx
                exact etag_norm S f n _ v v' _ w1 hx
            refine ⟨a ++ b, ?_, ?_, ?_, by simp [hl1], by simp [hl2]⟩
            · rw [encFields_cons]
              simp only [hs', Bool.false_eq_true, if_false, ha, Res.ok_bind, hb, Res.pure_eq]
            · rw [encFields_cons]
              simp only [hv1, hsk, het, Bool.false_eq_true, if_false, ha', Res.ok_bind, hb', Res.pure_eq]
            · rw [normFields_cons]
              simp only [hv1, hsk, het, Bool.false_eq_true, if_false, han, hbn]


/-! ## The field loop: decoder side (structs decoded reflectively) -/

theorem zeroOf_of_isZero (S : Schema) (m : Nat) (k : Kind) (v : Val) (h : isZeroOfKind k v = true) :
    zeroOf S (m + 1) k = v := by
  cases v with
  | int x =>
    have h' : k.intLike = true ∧ x = 0 := by
      cases k <;> simp_all [isZeroOfKind]
    obtain ⟨hk, rfl⟩ := h'
    cases k <;> simp only [Kind.intLike] at hk <;> first | contradiction | rw [zeroOf]
  | bool b => cases k <;> simp_all [isZeroOfKind, zeroOf]
  | text s =>
    cases k <;> simp_all [isZeroOfKind, zeroOf]
  | bytes b => cases k <;> simp_all [isZeroOfKind, zeroOf]
  | big x => cases k <;> simp_all [isZeroOfKind, zeroOf]
  | struct fs => cases k <;> simp_all [isZeroOfKind]
  | ptr o => cases k <;> simp_all [isZeroOfKind, zeroOf]
  | list xs => cases k <;> simp_all [isZeroOfKind, zeroOf]
  | iface o => cases k <;> simp_all [isZeroOfKind, zeroOf]
  | any o => cases k <;> simp_all [isZeroOfKind, zeroOf]
  | anyStruct its => cases k <;> simp_all [isZeroOfKind, zeroOf]


def PFd (S : Schema) (n : Nat) : Prop :=
  ∀ (fs : List Field) (vs : List Val) (ver : Option Ver) (vs' : List Val) (ver' : Option Ver)
    (items : List Item),
    (∀ f ∈ fs, S.fieldOK f = true) → unamb fs = true →
    normFields S n fs vs ver = some (vs', ver') → encFields S n fs vs ver = .ok (items, ver') →
    (htag (items.map Item.raw) = 0 ∨ htag (items.map Item.raw) ∈ firstTags fs)
    ∧ (Item.AllInRange items → ∀ fd, Val.depthList vs ≤ fd →
        decFields S fd fs (Cur.of (items.map Item.raw)) ver = .ok (vs', Cur.of [], ver'))

theorem fieldOK_encOK {S : Schema} {f : Field} (h : S.fieldOK f = true) : S.fieldEncOK f = true := by
  simp only [Schema.fieldOK, Bool.and_eq_true, Bool.or_eq_true, Bool.not_eq_true', decide_eq_true_eq] at h
  simp only [Schema.fieldEncOK, Bool.and_eq_true, Bool.or_eq_true, Bool.not_eq_true']
  obtain ⟨⟨⟨⟨⟨hdt, _⟩, _⟩, _⟩, hz⟩, hsv⟩ := h
  refine ⟨⟨?_, ?_⟩, Or.inl hdt⟩
  · rcases hz with hz | hz
    · simp only [Bool.or_eq_false_iff] at hz; exact Or.inl hz.1
    · exact Or.inr hz
  · rcases hsv with hsv | hsv
    · exact Or.inl hsv
    · exact Or.inr hsv.2

theorem htag_append_cons (it : Item) (a : List Item) (l : List RawItem) :
    htag ((it :: a).map Item.raw ++ l) = it.tag := rfl

theorem not_always_first {f : Field} {fs : List Field} (h : f.always = false) :
    firstTags (f :: fs) = f.tag :: firstTags fs := by
  simp [firstTags, h]

theorem tag_mem_first (f : Field) (fs : List Field) : f.tag ∈ firstTags (f :: fs) := by
  unfold firstTags; split <;> simp

theorem pfd_succ (S : Schema) (n : Nat) (hK : PK S n) (hD : PFd S n) : PFd S (n + 1) := by
  intro fs vs ver vs' ver' items hok hun h he
  cases fs with
  | nil =>
    cases vs with
    | nil =>
      rw [normFields_nil] at h
      rw [encFields_nil] at he
      obtain ⟨rfl, rfl⟩ := pair_eq (Option.some.inj h)
      simp only [Res.ok.injEq, Prod.mk.injEq] at he
      obtain ⟨rfl, -⟩ := he
      refine ⟨Or.inl rfl, fun _ fd hfd => ?_⟩
      obtain ⟨f, rfl, -⟩ := fuel_succ (by have := Val.depthList_pos []; omega : 0 + 1 ≤ fd)
      rw [decFields_nil]; rfl
    | cons v vs => rw [normFields_nil_cons] at h; contradiction
  | cons f fs =>
    cases vs with
    | nil => rw [normFields_cons_nil] at h; contradiction
    | cons v vs =>
      have hf := hok f (List.mem_cons_self ..)
      have hrest : ∀ g ∈ fs, S.fieldOK g = true := fun g hg => hok g (List.mem_cons_of_mem _ hg)
      simp only [Schema.fieldOK, Bool.and_eq_true, Bool.or_eq_true, Bool.not_eq_true',
        decide_eq_true_eq] at hf
      obtain ⟨⟨⟨⟨⟨hdt, htpos⟩, hdec⟩, _⟩, hz⟩, hsv⟩ := hf
      simp only [unamb, Bool.and_eq_true, Bool.or_eq_true, Bool.not_eq_true'] at hun
      obtain ⟨hun1, hun2⟩ := hun
      have het : f.etag S v = f.tag := by simp [Field.etag, hdt]
      -- a field that may be absent or repeated does not share its tag with what can follow
      have hclash : ∀ (b : List Item), f.always = false →
          (htag (b.map Item.raw) = 0 ∨ htag (b.map Item.raw) ∈ firstTags fs) →
          htag (b.map Item.raw) ≠ f.tag := by
        intro b hna hb heq
        rcases hun1 with h1 | h1
        · rw [hna] at h1; contradiction
        · rcases hb with hb | hb
          · omega
          · rw [heq] at hb
            have : (firstTags fs).contains f.tag = true := by simpa using hb
            rw [h1] at this; contradiction
      rw [normFields_cons] at h
      rw [encFields_cons] at he
      by_cases hs : f.skip v (f.ver1 v ver) = true
      · -- skipped field
        have hnsv : f.setVersion = false := by
          rcases hsv with hsv | hsv
          · exact hsv
          · exfalso
            have hvr : f.vrange = none := by simpa using hsv.1.2
            simp [Field.skip, hsv.1.1, hvr] at hs
        have hv1 : f.ver1 v ver = ver := by simp [Field.ver1, hnsv]
        have hna : f.always = false := by
          unfold Field.skip at hs
          unfold Field.always
          cases hvr : f.vrange with
          | none =>
            simp only [hvr, Bool.false_or, Bool.and_eq_true] at hs
            simp [hs.1]
          | some r => simp
        have hs0 : f.skip v ver = true := by rw [hv1] at hs; exact hs
        simp only [hv1, hs0, if_true] at h he
        obtain ⟨hzk, h⟩ := ite_eq_some h
        cases hr : normFields S n fs vs ver with
        | none => simp only [hr] at h; contradiction
        | some p =>
          obtain ⟨vs1, w⟩ := p
          simp only [hr] at h
          obtain ⟨rfl, rfl⟩ := pair_eq (Option.some.inj h)
          simp only [Res.ok_bind] at he
          cases hb : encFields S n fs vs ver with
          | ok q =>
            obtain ⟨b, w2⟩ := q
            simp only [hb, Res.ok_bind, Res.pure_eq, Res.ok.injEq, Prod.mk.injEq, List.nil_append] at he
            obtain ⟨rfl, rfl⟩ := he
            obtain ⟨hhead, hdecb⟩ := hD fs vs ver vs1 w2 b hrest hun2 hr hb
            refine ⟨?_, ?_⟩
            · rw [not_always_first hna]
              rcases hhead with h1 | h1
              · exact Or.inl h1
              · exact Or.inr (List.mem_cons_of_mem _ h1)
            · intro hr' fd hfd
              simp only [Val.depthList] at hfd
              obtain ⟨fd', rfl, hfd'⟩ := fuel_succ hfd
              have hne := hclash b hna hhead
              have hds : f.dskip (Cur.of (b.map Item.raw)) ver = true := by
                unfold Field.dskip
                have hs := hs0
                unfold Field.skip at hs
                simp only [Cur.tag_of, ne_eq, hne, not_false_eq_true, decide_true, Bool.and_true]
                cases hvr : f.vrange with
                | none =>
                  simp only [hvr, Bool.false_or, Bool.and_eq_true] at hs
                  simp [hs.1]
                | some r =>
                  simp only [hvr, Bool.or_eq_true, Bool.and_eq_true, Bool.not_eq_true'] at hs
                  rcases hs with h1 | h1
                  · simp [h1]
                  · simp [h1.1]
              obtain ⟨fd2, rfl, _⟩ := fuel_succ (by have := Val.depthList_pos vs; omega : 0 + 1 ≤ fd')
              rw [decFields_cons]
              simp only [hdt, hds, Bool.false_eq_true, if_false, if_true, Res.ok_bind, hnsv,
                zeroOf_of_isZero S fd2 f.kind v hzk, hdecb hr' (fd2 + 1) (by omega), Res.pure_eq]
          | err e => simp only [hb, Res.err_bind] at he; contradiction
          | panic m => simp only [hb, Res.panic_bind] at he; contradiction
      · -- encoded field
        have hs' : f.skip v (f.ver1 v ver) = false := by simpa using hs
        simp only [hs', Bool.false_eq_true, if_false, het] at h he
        cases hx : normK S n f.kind f.tag v (f.ver1 v ver) with
        | none => simp only [hx] at h; contradiction
        | some p =>
          obtain ⟨v', w1⟩ := p
          simp only [hx] at h
          cases hr : normFields S n fs vs w1 with
          | none => simp only [hr] at h; contradiction
          | some q =>
            obtain ⟨vs1, w2⟩ := q
            simp only [hr] at h
            obtain ⟨rfl, rfl⟩ := pair_eq (Option.some.inj h)
            obtain ⟨a, ha, _, _, hta, hla, hnz, hda⟩ := hK f.kind f.tag v _ v' w1 hx
            simp only [ha, Res.ok_bind] at he
            cases hb : encFields S n fs vs w1 with
            | ok q =>
              obtain ⟨b, w3⟩ := q
              simp only [hb, Res.ok_bind, Res.pure_eq, Res.ok.injEq, Prod.mk.injEq] at he
              obtain ⟨rfl, rfl⟩ := he
              obtain ⟨hhead, hdecb⟩ := hD fs vs w1 vs1 w3 b hrest hun2 hr hb
              have hal : f.always = true → emitsOne f.kind v = true := by
                intro hal
                simp only [Field.always, Bool.and_eq_true] at hal
                simp [emitsOne, hal.2]
              refine ⟨?_, ?_⟩
              · cases a with
                | nil =>
                  have hna : f.always = false := by
                    cases hfa : f.always with
                    | false => rfl
                    | true => have := hla (hal hfa); simp at this
                  rw [not_always_first hna]
                  rcases hhead with h1 | h1
                  · exact Or.inl h1
                  · exact Or.inr (List.mem_cons_of_mem _ h1)
                | cons it a' =>
                  right
                  rw [List.map_append, htag_append_cons, hta it (List.mem_cons_self ..)]
                  exact tag_mem_first f fs
              · intro hr' fd hfd
                simp only [Val.depthList] at hfd
                obtain ⟨fd', rfl, hfd'⟩ := fuel_succ hfd
                have hr2 := (Item.allInRange_append a b).1 hr'
                rw [List.map_append]
                -- the decoder does not skip
                have hds : f.dskip (Cur.of (a.map Item.raw ++ b.map Item.raw)) ver = false := by
                  unfold Field.dskip
                  unfold Field.skip at hs'
                  simp only [Bool.or_eq_false_iff] at hs' ⊢
                  constructor
                  · cases hvr : f.vrange with
                    | none => rfl
                    | some r =>
                      have hnsv : f.setVersion = false := by
                        rcases hsv with h1 | h1
                        · exact h1
                        · rw [hvr] at h1; simp at h1
                      have hv1 : f.ver1 v ver = ver := by simp [Field.ver1, hnsv]
                      rw [hvr, hv1] at hs'
                      simp only [Bool.not_eq_false'] at hs'
                      simp [hs'.1]
                  · cases hom : f.omitempty with
                    | false => rfl
                    | true =>
                      have hvz : v.isZero = false := by
                        have := hs'.2; rw [hom] at this; simpa using this
                      have hzf : f.kind.zeroFaithful = true := by
                        rcases hz with h1 | h1
                        · simp [hom] at h1
                        · exact h1
                      have hane := hnz hzf hvz
                      cases a with
                      | nil => exact absurd rfl hane
                      | cons it a' =>
                        simp only [Cur.tag_of, htag_append_cons,
                          hta it (List.mem_cons_self ..), ne_eq, not_true_eq_false, decide_false,
                          Bool.and_false]
                have hnc : emitsOne f.kind v = true ∨ htag (b.map Item.raw) ≠ f.tag := by
                  cases hfa : f.always with
                  | true => exact Or.inl (hal hfa)
                  | false => exact Or.inr (hclash b hfa hhead)
                have hdk := hda hdec hr2.1 fd' (b.map Item.raw) (by omega) hnc
                rw [decFields_cons]
                simp only [hdt, hds, Bool.false_eq_true, if_false]
                by_cases hsvb : f.setVersion = true
                · -- set-version field: the decoder runs under the OLD cell and then adopts the value
                  have hpl : S.plainKind f.kind = true := by
                    rcases hsv with h1 | h1
                    · rw [hsvb] at h1; contradiction
                    · exact h1.2
                  have hv1 : f.ver1 v ver = some v.asVer := by simp [Field.ver1, hsvb]
                  rw [hv1] at hdk hx
                  obtain ⟨hw1, hind⟩ := decK_plain_ver S fd' f.kind hpl f.tag _ _ _ _ _ hdk
                  have hav := (plain_norm S n f.kind hpl _ v _ v' w1 hx).2
                  subst hw1
                  simp only [hind ver, Res.ok_bind, hsvb, if_true, hav, hdecb hr2.2 fd' (by omega),
                    Res.pure_eq]
                · have hnsv : f.setVersion = false := by simpa using hsvb
                  have hv1 : f.ver1 v ver = ver := by simp [Field.ver1, hnsv]
                  rw [hv1] at hdk
                  simp only [hdk, Res.ok_bind, hnsv, Bool.false_eq_true, if_false,
                    hdecb hr2.2 fd' (by omega), Res.pure_eq]
            | err e => simp only [hb, Res.err_bind] at he; contradiction
            | panic m => simp only [hb, Res.panic_bind] at he; contradiction

end Kmip
