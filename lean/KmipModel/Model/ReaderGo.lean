/-
  L1⁻ — SLICE-LEVEL model of `ttlvReader` (ttlv/encoding_ttlv.go), one definition per Go method, written
  against a model of Go slices in which EVERY index and slice expression can panic, and in which
  re-slicing beyond `len` but within `cap` silently succeeds (and hands out the bytes lying there).

  `Model/Reader.lean` (the reader the rest of the development builds on) totalises the slice expressions
  of the reader into `rawParse` (`List.take` / `List.drop`). This file does not: `buf[8:]`, `buf[4:8]`,
  `buf[8 : 8+len()]`, `buf[8+paddedLen():]`, `v[:len(v):len(v)]`, `buf[0..3]`, `value()[7]`, `Uint32/64`
  and `v[0]` keep their run-time checks, `validate` is a separate function that the other methods do NOT
  re-run, and Go's `int` has a width (`GoCfg.intBits`): `int(uint32)`, `l + pad` and `8 + l` wrap.
  `Lemmas/ReaderGoLemmas.lean` proves that on platforms with `int` of at least 34 bits (and, for the
  `wide` variant of `validate`, on every platform) this reader never panics and computes exactly what
  `Model/Reader.lean` computes — so the abstract reader is a sound abstraction of the slice-level code,
  not a definition that made panics and over-reads inexpressible.

  Core Lean only.
-/
import KmipModel.Model.Reader
namespace Kmip

/-- a Go `[]byte`: the visible part `s[0:len(s)]` and what lies between `len(s)` and `cap(s)` in the
    backing array (reachable by re-slicing, never by indexing). -/
structure GoSlice where
  vis : Bytes
  rest : Bytes := []
  deriving Repr, Inhabited

namespace GoSlice

def len (s : GoSlice) : Nat := s.vis.length
def cap (s : GoSlice) : Nat := s.vis.length + s.rest.length
def all (s : GoSlice) : Bytes := s.vis ++ s.rest

/-- `s[lo:hi]` with Go `int` operands: panics unless `0 ≤ lo ≤ hi ≤ cap(s)` — the upper bound is the
    CAPACITY, so a too large `hi` below `cap` is an over-read, not a panic. -/
def slice (s : GoSlice) (lo hi : Int) : Res GoSlice :=
  if 0 ≤ lo ∧ lo ≤ hi ∧ hi ≤ (s.cap : Int) then
    .ok { vis := (s.all.drop lo.toNat).take (hi.toNat - lo.toNat), rest := s.all.drop hi.toNat }
  else .panic "slice bounds out of range"

/-- `s[lo:]` = `s[lo:len(s)]`. -/
def sliceFrom (s : GoSlice) (lo : Int) : Res GoSlice := s.slice lo s.len

/-- the full slice expression `s[lo:hi:max]`: additionally `hi ≤ max ≤ cap(s)`; the result's capacity
    ends at `max`. -/
def slice3 (s : GoSlice) (lo hi mx : Int) : Res GoSlice :=
  if 0 ≤ lo ∧ lo ≤ hi ∧ hi ≤ mx ∧ mx ≤ (s.cap : Int) then
    .ok { vis := (s.all.drop lo.toNat).take (hi.toNat - lo.toNat),
          rest := (s.all.drop hi.toNat).take (mx.toNat - hi.toNat) }
  else .panic "slice bounds out of range"

/-- `s[i]` for a constant `i`: checked against `len(s)`. -/
def index (s : GoSlice) (i : Nat) : Res UInt8 := goIndex s.vis i

end GoSlice

/-- platform / code variant. `intBits`: width of Go's `int`. `wide = false`: `validate` as it WAS in the
    library before ovh/kmip-go e776a13 (`len(buf[8:]) < dec.paddedLen()` in `int` arithmetic); `wide = true`:
    `validate` comparing the 32-bit length field in 64-bit unsigned arithmetic — the library as it is since
    e776a13 (`uint64(len(dec.buf[8:])) < paddedLen64(dec.declaredLen())`). With a 64-bit `int` the two
    variants compute the same thing (both equal the abstract decoder: `slice_level_refines`,
    `wide_validate_any_platform`). -/
structure GoCfg where
  intBits : Nat
  wide : Bool
  deriving Repr, Inhabited

/-- conversion to / arithmetic in a `w`-bit two's complement `int`: wraps. -/
def wrapInt (w : Nat) (n : Int) : Int :=
  (n + ((2 ^ (w - 1) : Nat) : Int)) % ((2 ^ w : Nat) : Int) - ((2 ^ (w - 1) : Nat) : Int)

/-- `padForLen(l, 8)` on a Go `int` that may be negative: `(8 - l%8) % 8` with truncated division. -/
def goPad8 (l : Int) : Int := Int.tmod (8 - Int.tmod l 8) 8

namespace G

/-- `Tag()`: `[4]byte{0, buf[0], buf[1], buf[2]}`. -/
def tag (b : GoSlice) : Res Nat :=
  if b.len = 0 then .ok 0 else do
    let b0 ← b.index 0
    let b1 ← b.index 1
    let b2 ← b.index 2
    pure (beVal [b0, b1, b2])

/-- `Type()`: `buf[3]`. -/
def type (b : GoSlice) : Res Nat :=
  if b.len = 0 then .ok 0 else do
    let t ← b.index 3
    pure t.toNat

/-- `binary.BigEndian.Uint32(dec.buf[4:8])`. -/
def lenField (b : GoSlice) : Res Nat := do
  let s ← b.slice 4 8
  goU32 s.vis

/-- `len()`: `int(binary.BigEndian.Uint32(dec.buf[4:8]))`. -/
def len (cfg : GoCfg) (b : GoSlice) : Res Int :=
  if b.len = 0 then .ok 0 else do
    let u ← lenField b
    pure (wrapInt cfg.intBits u)

/-- `paddedLen()`: `l + padForLen(l, 8)`. -/
def paddedLen (cfg : GoCfg) (b : GoSlice) : Res Int := do
  let l ← len cfg b
  pure (wrapInt cfg.intBits (l + goPad8 l))

/-- `validate()`. -/
def validate (cfg : GoCfg) (b : GoSlice) : Res Unit :=
  if b.len = 0 then .ok ()
  else if b.len < 8 then .err .shortHeader
  else do
    let tl ← b.sliceFrom 8
    let short ←
      if cfg.wide then do
        let u ← lenField b
        pure (decide (tl.len < (u + 7) / 8 * 8))
      else do
        let pl ← paddedLen cfg b
        pure (decide ((tl.len : Int) < pl))
    if short then .err .shortValue else do
    let ty ← type b
    if ty > 10 ∨ ty = 0 then .err .badType else .ok ()

/-- `newTTLVReader(buf)`. -/
def newReader (cfg : GoCfg) (b : GoSlice) : Res GoSlice := do
  validate cfg b
  pure b

/-- `Next()`: `dec.buf = dec.buf[8+dec.paddedLen():]; return dec.validate()`. -/
def next (cfg : GoCfg) (b : GoSlice) : Res GoSlice := do
  let pl ← paddedLen cfg b
  let b' ← b.sliceFrom (wrapInt cfg.intBits (8 + pl))
  validate cfg b'
  pure b'

/-- `value()`: `dec.buf[8 : 8+dec.len()]`. -/
def value (cfg : GoCfg) (b : GoSlice) : Res GoSlice :=
  if b.len = 0 then .ok { vis := [], rest := [] } else do
    let l ← len cfg b
    b.slice 8 (wrapInt cfg.intBits (8 + l))

/-- `assertType(ty, tag)`. -/
def assertType (b : GoSlice) (ty tag : Nat) : Res Unit :=
  if b.len = 0 then .err .eof else do
    let t ← G.tag b
    if t ≠ tag then .err .tagMismatch else do
    let y ← G.type b
    if y ≠ ty then .err .typeMismatch else .ok ()

/-- `assertLen(n)`. -/
def assertLen (cfg : GoCfg) (b : GoSlice) (n : Nat) : Res Unit := do
  let l ← len cfg b
  if l ≠ (n : Int) then .err .badLength else .ok ()

/-- a fixed-width getter: `assertType; assertLen; conv(dec.value()); Next()`. -/
def fixed {α : Type} (cfg : GoCfg) (b : GoSlice) (ty tag width : Nat) (conv : Bytes → Res α) :
    Res (α × GoSlice) := do
  assertType b ty tag
  assertLen cfg b width
  let v ← value cfg b
  let x ← conv v.vis
  let b' ← next cfg b
  pure (x, b')

def integer (cfg : GoCfg) (b : GoSlice) (tag : Nat) : Res (Int × GoSlice) :=
  fixed cfg b 2 tag 4 fun v => do pure (signedOfNat 32 (← goU32 v))
def longInteger (cfg : GoCfg) (b : GoSlice) (tag : Nat) : Res (Int × GoSlice) :=
  fixed cfg b 3 tag 8 fun v => do pure (signedOfNat 64 (← goU64 v))
def enum (cfg : GoCfg) (b : GoSlice) (tag : Nat) : Res (Nat × GoSlice) :=
  fixed cfg b 5 tag 4 goU32
def bool (cfg : GoCfg) (b : GoSlice) (tag : Nat) : Res (Bool × GoSlice) :=
  fixed cfg b 6 tag 8 fun v => do pure ((← goIndex v 7) != 0)
def dateTime (cfg : GoCfg) (b : GoSlice) (tag : Nat) : Res (Int × GoSlice) :=
  fixed cfg b 9 tag 8 fun v => do pure (signedOfNat 64 (← goU64 v))
def interval (cfg : GoCfg) (b : GoSlice) (tag : Nat) : Res (Nat × GoSlice) :=
  fixed cfg b 10 tag 4 goU32

/-- `BigInteger(tag)`: `v := dec.value(); if len(v) == 0 {error}; bytesToBigInt(v); Next()`. -/
def bigInteger (cfg : GoCfg) (b : GoSlice) (tag : Nat) : Res (Int × GoSlice) := do
  assertType b 4 tag
  let v ← value cfg b
  if v.vis.isEmpty then .err .badLength else do
  let x ← goBytesToBigInt v.vis
  let b' ← next cfg b
  pure (x, b')

/-- `TextString(tag)`: `string(dec.value())` copies `len` bytes. -/
def textString (cfg : GoCfg) (b : GoSlice) (tag : Nat) : Res (Bytes × GoSlice) := do
  assertType b 7 tag
  let v ← value cfg b
  let b' ← next cfg b
  pure (v.vis, b')

/-- `ByteString(tag)`: `slices.Clone(dec.value())` copies `len` bytes. -/
def byteString (cfg : GoCfg) (b : GoSlice) (tag : Nat) : Res (Bytes × GoSlice) := do
  assertType b 8 tag
  let v ← value cfg b
  let b' ← next cfg b
  pure (v.vis, b')

/-- `Struct(tag, f)`: `v := dec.value(); inner, err := newTTLVReader(v[:len(v):len(v)]); f(inner); Next()`. -/
def struct {α : Type} (cfg : GoCfg) (b : GoSlice) (tag : Nat) (f : GoSlice → Res α) :
    Res (α × GoSlice) := do
  assertType b 1 tag
  let v ← value cfg b
  let clipped ← v.slice3 0 v.len v.len
  let inner ← newReader cfg clipped
  let a ← f inner
  let b' ← next cfg b
  pure (a, b')

mutual
  /-- `Value.TagDecodeTTLV(d, tag)` over the slice-level reader. -/
  def decodeValue (cfg : GoCfg) : Nat → GoSlice → Nat → Res (Item × GoSlice)
    | 0, _, _ => .err .other
    | fuel + 1, b, tag => do
      let ty ← type b
      match ty with
      | 2 => do let (v, b') ← integer cfg b tag; pure (.int tag v, b')
      | 3 => do let (v, b') ← longInteger cfg b tag; pure (.long tag v, b')
      | 4 => do let (v, b') ← bigInteger cfg b tag; pure (.big tag v, b')
      | 6 => do let (v, b') ← bool cfg b tag; pure (.bool tag v, b')
      | 8 => do let (v, b') ← byteString cfg b tag; pure (.bytes tag v, b')
      | 9 => do let (v, b') ← dateTime cfg b tag; pure (.date tag v, b')
      | 5 => do let (v, b') ← enum cfg b tag; pure (.enum tag v, b')
      | 10 => do let (v, b') ← interval cfg b tag; pure (.interval tag v, b')
      | 7 => do let (v, b') ← textString cfg b tag; pure (.text tag v, b')
      | 1 => do
        let (cs, b') ← struct cfg b tag (fun inner => decodeFields cfg fuel inner)
        pure (.struct tag cs, b')
      | _ => .err .unsupported
  /-- `Struct.TagDecodeTTLV` loop: `for d.Tag() != 0 { field.DecodeTTLV(d) }`. -/
  def decodeFields (cfg : GoCfg) : Nat → GoSlice → Res (List Item)
    | 0, _ => .err .other
    | fuel + 1, b => do
      let t ← tag b
      if t = 0 then .ok []
      else do
        let (it, b') ← decodeValue cfg fuel b t
        let rest ← decodeFields cfg fuel b'
        pure (it :: rest)
end

/-- `UnmarshalTTLV(data, &ttlv.Value{})` on the slice `data` (any capacity). -/
def unmarshalValue (cfg : GoCfg) (data : GoSlice) : Res Item := do
  let b ← newReader cfg data
  let t ← tag b
  let (it, _) ← decodeValue cfg (data.len + 2) b t
  pure it

end G

/-- the 64-bit platforms the harness runs on, `validate` in `int` arithmetic (the code before e776a13; at 64
    bits extensionally equal to the current code). -/
def GoCfg.amd64 : GoCfg := { intBits := 64, wide := false }
/-- a 32-bit platform (GOARCH=386, arm), the code as it was BEFORE the repair e776a13. -/
def GoCfg.i386 : GoCfg := { intBits := 32, wide := false }

end Kmip
