/-
  Driver handlers of the C20 models (`Kmip.Cache`), over the regenerated schema:

    enc.reuse <op> { ' ; ' <op> }
        op := 'C'                         Clear
            | 'B'                         Bytes
            | 'E' <dyn id> <tag> <val>    encode (Val syntax and tag convention of `plan.enc`)
      one binary encoder (`NewTTLVEncoder`) runs the whole history from new;
      → ok <hex of Bytes() at the end> | panic   (an encode failed since the last Clear: the buffer is junk)

    enc.hist <be> <op> { ' ; ' <op> }
        be := 'ttlv' | 'xml' | 'json' | 'text'
        op := 'C' | 'B'
            | 'E' <dyn id> <tag> <val> [ '!' <cell> <call>… ]     typed encode; after '!': what the call did before
                                                                  it panicked (used only if the model's codec fails)
            | 'W' <call>… [ '!' ]                                 the writer API used directly; '!': then a panic
        call := '{'<tag>  (Struct begins)  |  '}'  (Struct ends)  |  a scalar item in the tree syntax, e.g. (I 5505025 7)
        cell := 'keep' | 'none' | <major>'.'<minor>
      one encoder of that back end runs the whole history from new, on the writer-level model
      (buffer with stale capacity, xml.Encoder state, frames);
      → ok <flags> <out>{','<out>}      flags: one of 1/0 per op (returned normally / panicked);
                                        out: hex of what each `B` returned, in order ('-' = empty; '_' if no B)
      token texts: tag names from the regenerated registry, values of the scalar types the harness uses in
      these lines (Integer, LongInteger, Enumeration, Boolean, ByteString, plain-ASCII TextString, Interval);
      BigInteger / DateTime → `unsupported`.

    cache.run <sched> ' ; ' <req> { ' ; ' <req> }
        sched := '-' | <tid> {',' <tid>}          who moves next (Load / Build / nested call / Store steps);
                                                  afterwards the goroutines are run round-robin to completion
        req   := <tid> <dyn id> <tag> <val>       goroutine <tid> encodes this value (its requests in line order)
      all goroutines start from a cold plan cache; a goroutine encodes with the plan it obtained;
      → ok <tid>:<res>{','<res>} …   res := <hex> | panic | err | wrong-plan        (per goroutine, in order)
-/
import Driver.Common
import KmipModel.Model.Cache
import KmipModel.Model.ValSyntax
import KmipModel.Model.Registry
import KmipModel.Gen.Schema
import KmipModel.Gen.Registry
open Kmip Kmip.Cache

namespace Driver
namespace CacheD

def splitSemi (s : String) : List String :=
  (s.splitOn " ; ").map fun x => x.trimAscii.toString

/-- `<dyn> <tag> <val>` -/
def parseMsg (s : String) : Option Msg :=
  match s.splitOn " " with
  | d :: t :: _ =>
    match d.toNat?, t.toNat?, parseValStr ((s.drop (d.length + t.length + 2)).toString) with
    | some dn, some tg, some v => some { d := dn, tag := tg, v := v }
    | _, _, _ => none
  | _ => none

/-! ### token texts of the XML / JSON / text writers (the `Render` the driver answers with) -/

def str (s : String) : Bytes := s.toUTF8.toList
def ofChars (cs : List Nat) : Bytes := cs.map (·.toUInt8)

def typeName : Nat → String
  | 1 => "Structure" | 2 => "Integer" | 3 => "LongInteger" | 4 => "BigInteger" | 5 => "Enumeration"
  | 6 => "Boolean" | 7 => "TextString" | 8 => "ByteString" | 9 => "DateTime" | 10 => "Interval"
  | _ => "?"

/-- registered with a non-empty name: the XML element is named after the tag. -/
def xmlNamed (t : Nat) : Bool :=
  match Reg.lookup t Gen.tagNames with
  | some n => n != Reg.emptyName
  | none => false

def xmlElemName (t : Nat) : Bytes := if xmlNamed t then ofChars (Reg.tagToTextXml Gen.tagNames t) else str "TTLV"

/-- `<Name` or `<TTLV tag="0x……"` -/
def xmlOpenHead (t : Nat) : Bytes :=
  if xmlNamed t then str "<" ++ xmlElemName t
  else str "<TTLV tag=\"" ++ ofChars (Reg.tagToTextXml Gen.tagNames t) ++ str "\""

def hexUpper (bs : Bytes) : Bytes := str (hexOfBytes bs)

def lowerHexDigit (d : Nat) : UInt8 := (if d < 10 then 48 + d else 87 + d).toUInt8
def hex16Lower (n : Nat) : Bytes := (List.range 16).map fun i => lowerHexDigit ((n >>> (4 * (15 - i))) % 16)

/-- `time.Duration.String()` of a whole number of seconds. -/
def durationString (secs : Nat) : String :=
  let h := secs / 3600
  let m := (secs % 3600) / 60
  let s := secs % 60
  if h > 0 then toString h ++ "h" ++ toString m ++ "m" ++ toString s ++ "s"
  else if m > 0 then toString m ++ "m" ++ toString s ++ "s"
  else toString s ++ "s"

def enumText (tag v : Nat) : Bytes := ofChars (Reg.enumToText (Reg.enumByValue Gen.enums tag) v)

def quoted (b : Bytes) : Bytes := [34] ++ b ++ [34]

/-- value text; `none`: not rendered by this driver. -/
def xmlValue : Item → Option Bytes
  | .int _ v => some (str (toString v))
  | .long _ v => some (str (toString v))
  | .enum t v => some (enumText t v)
  | .bool _ b => some (str (if b then "true" else "false"))
  | .text _ s => some s
  | .bytes _ s => some (hexUpper s)
  | .interval _ v => some (str (toString v))
  | _ => none

def jsonValue : Item → Option Bytes
  | .int _ v => some (str (toString v))
  | .long _ v =>
    if v ≥ 4503599627370496 ∨ v ≤ -4503599627370496 then some (quoted (str "0x" ++ hex16Lower (unsignedOfInt 64 v)))
    else some (str (toString v))
  | .enum t v => some (quoted (enumText t v))
  | .bool _ b => some (str (if b then "true" else "false"))
  | .text _ s => some (quoted s)
  | .bytes _ s => some (quoted (hexUpper s))
  | .interval _ v => some (str (toString v))
  | _ => none

def textValue : Item → Option Bytes
  | .int _ v => some (str (toString v))
  | .long _ v => some (str (toString v))
  | .enum t v => some (enumText t v)
  | .bool _ b => some (str (if b then "true" else "false"))
  | .text _ s => some s
  | .bytes _ s => some (hexUpper s)
  | .interval _ v => some (str (durationString v))
  | _ => none

def supported (it : Item) : Bool := (xmlValue it).isSome

def histR : Render where
  xmlStart t := xmlOpenHead t ++ str ">"
  xmlEnd t := str "</" ++ xmlElemName t ++ str ">"
  xmlLeaf it := xmlOpenHead it.tag ++ str " type=\"" ++ str (typeName it.ty) ++ str "\" value=\""
    ++ (xmlValue it).getD [] ++ str "\">"
  xmlLeafEnd it := str "</" ++ xmlElemName it.tag ++ str ">"
  jsonHead t ty := str "{\"tag\": \"" ++ ofChars (Reg.tagToText Gen.tagNames t)
    ++ (if ty = 1 then [] else str "\", \"type\": \"" ++ str (typeName ty)) ++ str "\", \"value\": "
  jsonVal it := (jsonValue it).getD []
  textHead t ty := ofChars (Reg.tagToText Gen.tagNames t) ++ str " (" ++ str (typeName ty) ++ str "): "
  textVal it := (textValue it).getD []

/-! ### parsing histories -/

def parseBackend : String → Option Backend
  | "ttlv" => some .ttlv | "xml" => some .xml | "json" => some .json | "text" => some .text | _ => none

/-- writer calls from tokens; `none` on a syntax error or an unsupported scalar. -/
partial def parseCalls : List String → Option (List WCall)
  | [] => some []
  | "}" :: rest => (parseCalls rest).map (WCall.close :: ·)
  | toks@("(" :: _) =>
    match parseItem toks with
    | some (it, rest) =>
      match it with
      | .struct .. => none
      | _ => if supported it then (parseCalls rest).map (WCall.leaf it :: ·) else none
    | none => none
  | t :: rest =>
    if t.startsWith "{" then
      match (t.drop 1).toString.toNat? with
      | some tag => (parseCalls rest).map (WCall.open tag :: ·)
      | none => none
    else none

inductive CellSpec where
  | keep | set (c : Option Ver)

def parseCell (s : String) : Option CellSpec :=
  if s = "keep" then some .keep
  else if s = "none" then some (.set none)
  else match s.splitOn "." with
    | [a, b] => match a.toNat?, b.toNat? with
      | some x, some y => some (.set (some (x, y)))
      | _, _ => none
    | _ => none

/-- a parsed operation; the junk cell of an aborted typed encode may refer to the current state. -/
inductive POp where
  | clear | bytes
  | raw (calls : List WCall) (abort : Bool)
  | encode (m : Msg) (cell : CellSpec) (calls : List WCall)

def parseHistOp (s : String) : Option POp :=
  if s = "C" then some .clear
  else if s = "B" then some .bytes
  else if s.startsWith "W" then
    let toks := tokenize (s.drop 1).toString
    let abort := toks.getLast? == some "!"
    let toks := if abort then toks.dropLast else toks
    (parseCalls toks).map fun cs => .raw cs abort
  else if s.startsWith "E " then
    match (s.drop 2).toString.splitOn " ! " with
    | [m] => (parseMsg m).map fun m => .encode m .keep []
    | [m, j] =>
      match tokenize j with
      | c :: toks => do
        let m ← parseMsg m
        let c ← parseCell c
        let cs ← parseCalls toks
        pure (.encode m c cs)
      | [] => none
    | _ => none
  else none

def toOp (st : Encoder) : POp → Op
  | .clear => .clear
  | .bytes => .bytes
  | .raw cs a => .raw cs a
  | .encode m c cs => .encode m { cell := (match c with | .keep => st.cell | .set x => x), calls := cs }

def renderHex (b : Bytes) : String := let h := hexOfBytes b; if h.isEmpty then "-" else h

def encHist (arg : String) : String :=
  match arg.splitOn " " with
  | b :: _ =>
    match parseBackend b with
    | none => "bad-op"
    | some be =>
      match (splitSemi (arg.drop (b.length + 1)).toString).mapM parseHistOp with
      | none => "unsupported"
      | some ops =>
        let r := ops.foldl (fun (acc : Encoder × List Obs) p =>
          let s := stepOp histR Gen.schema acc.1 (toOp acc.1 p)
          (s.1, s.2 :: acc.2)) (fresh be, [])
        let obs := r.2.reverse
        let flags := String.ofList (obs.map fun o => if o.ok then '1' else '0')
        let outs := obs.filterMap fun o => o.out.map renderHex
        "ok " ++ flags ++ " " ++ (if outs.isEmpty then "_" else ",".intercalate outs)
  | [] => "bad-op"

def parseOp (s : String) : Option Op :=
  if s = "C" then some .clear
  else if s = "B" then some .bytes
  else if s.startsWith "E " then (parseMsg (s.drop 2).toString).map fun m => .encode m {}
  else none

/-- run the history; `dirty` = an encode failed since the last Clear. -/
def runHistory (ops : List Op) : Encoder × Bool :=
  ops.foldl (fun (acc : Encoder × Bool) op =>
    let r := stepOp histR Gen.schema acc.1 op
    match op with
    | .clear => (r.1, false)
    | .encode _ _ => (r.1, acc.2 || !r.2.ok)
    | .raw _ _ => (r.1, acc.2 || !r.2.ok)
    | .bytes => (r.1, acc.2)) (fresh .ttlv, false)

def encReuse (arg : String) : String :=
  match (splitSemi arg).mapM parseOp with
  | none => "bad-op"
  | some ops =>
    let r := runHistory ops
    if r.2 then "panic" else "ok " ++ renderHex r.1.buf.vis

def parseSched (s : String) : Option (List Nat) :=
  if s = "-" then some [] else (s.splitOn ",").mapM (·.toNat?)

/-- `<tid> <dyn> <tag> <val>` -/
def parseReq (s : String) : Option (Nat × Msg) :=
  match s.splitOn " " with
  | t :: _ => do
    let tid ← t.toNat?
    let m ← parseMsg (s.drop (t.length + 1)).toString
    pure (tid, m)
  | _ => none

def genB : Builder (List Nat) := schemaBuilder Gen.schema
def genBuild (ty : TypeId) : List Nat := buildFuel genB [] 64 ty

/-- complete by round-robin, checking for termination after every round. -/
def complete (n : Nat) : Nat → State (List Nat) → State (List Nat)
  | 0, s => s
  | fuel + 1, s => if s.done then s else complete n fuel (run genB s (List.range n))

def renderResult (m : Msg) (r : TypeId × List Nat) : String :=
  if r.1 != 2 * m.d || r.2 != genBuild r.1 then "wrong-plan"
  else
    match marshal Gen.schema m.d m.tag m.v with
    | .ok bs => let h := hexOfBytes bs; if h.isEmpty then "-" else h
    | .err _ => "err"
    | .panic _ => "panic"

def cacheRun (arg : String) : String :=
  match splitSemi arg with
  | [] => "bad-op"
  | sch :: rest =>
    match parseSched sch, rest.mapM parseReq with
    | some sched, some reqs =>
      let n := reqs.foldl (fun acc r => max acc (r.1 + 1)) 0
      let perThread : List (List Msg) :=
        (List.range n).map fun t => (reqs.filter (·.1 == t)).map (·.2)
      let s0 : State (List Nat) := init (perThread.map fun ms => ms.map fun m => 2 * m.d)
      let s := complete n 100000 (run genB s0 sched)
      if !s.done then "err"
      else
        let parts := (List.range n).map fun t =>
          let ms := perThread.getD t []
          let res := (s.threads.getD t { stack := [], todo := [], results := [] }).results
          if res.length != ms.length then toString t ++ ":lost"
          else toString t ++ ":" ++ ",".intercalate ((ms.zip res).map fun (m, r) => renderResult m r)
        "ok " ++ " ".intercalate parts
    | _, _ => "bad-op"

end CacheD

def handleCache (cmd arg : String) : Option String :=
  match cmd with
  | "enc.reuse" => some (CacheD.encReuse arg)
  | "enc.hist" => some (CacheD.encHist arg)
  | "cache.run" => some (CacheD.cacheRun arg)
  | _ => none

end Driver
