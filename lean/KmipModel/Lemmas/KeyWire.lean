/-
  C14 × C01: the key objects of `Model/KeyAccess.lean` as values of the generic typed codec (`Model/Plan.lean`,
  schema regenerated from the Go types), so that the STRUCTURE-level binary transport of a key object — which
  TTLV element each Go field becomes, the `KeyMaterial` slot chosen by the key format on decoding, `omitempty`,
  the order of P, Q, PrimeExponentP … — is the C01 round trip and not an assumption.

  * `objVal o`   — the `Val` of the Go object `o` stands for (field by field, in declaration order), and the
                   dynamic type under which the schema knows it (`objDyn`).
  * `valObj d v` — reading a decoded `Val` back (nil and empty byte strings are not distinguished: `KeyBlockV`
                   holds the content).
  * `valObj_of_contentEq` — whatever is equal in content to `objVal o` reads back as `o`; with `C01.norm_content`
                   this gives `valObj (decode (encode (objVal o))) = o` for every `o` whose image conforms to the
                   schema (`Conforms`: the executable well-formedness walk + representable lengths — a hypothesis,
                   discharged by kernel evaluation on instances in `Props/C14.lean`).
  Only the objects the register builders produce are covered: no attributes inside the key value, no key
  wrapping data (`Wireable`).
-/
import KmipModel.Lemmas.KeyAccessLemmas
import KmipModel.Lemmas.PlanRoundtrip18
import KmipModel.Lemmas.BigIntLemmas
import KmipModel.Lemmas.FixpointLemmas
namespace Kmip.Key.Wire
open Kmip Kmip.Key

/-! ## 1. Go object → `Val` -/

def optV {α : Type} (f : α → Val) : Option α → Val
  | none => .ptr none
  | some a => .ptr (some (f a))

def bigV (v : Int) : Val := .big v
def bytesV (b : Bytes) : Val := .bytes (some b)

/-- `TransparentRSAPrivateKey{Modulus big.Int; PrivateExponent, PublicExponent, P, Q, PrimeExponentP,
    PrimeExponentQ, CRTCoefficient *big.Int}`. -/
def rsaPrivVal (t : RsaPrivT) : Val :=
  .struct [.big t.modulus, optV bigV t.d, optV bigV t.e, optV bigV t.p, optV bigV t.q, optV bigV t.dp,
    optV bigV t.dq, optV bigV t.qinv]

def rsaPubVal (t : RsaPubT) : Val := .struct [.big t.modulus, .big t.e]
def ecPrivVal (t : EcPrivT) : Val := .struct [.int t.curve, .big t.d]
def ecPubVal (t : EcPubT) : Val := .struct [.int t.curve, .bytes (some t.q)]
def symVal (b : Bytes) : Val := .struct [.bytes (some b)]

/-- `KeyMaterial`: eight pointer fields in declaration order. -/
def materialVal (m : Material) : Val :=
  .struct [optV bytesV m.bytes, optV symVal m.sym, optV rsaPrivVal m.rsaPriv, optV rsaPubVal m.rsaPub,
    optV ecPrivVal m.ecdsaPriv, optV ecPubVal m.ecdsaPub, optV ecPrivVal m.ecPriv, optV ecPubVal m.ecPub]

/-- `PlainKeyValue{KeyMaterial; Attribute []Attribute}` without attributes. -/
def plainVal (p : Plain) : Val := .struct [materialVal p.material, .list []]

def keyValueVal (kv : KeyValueV) : Val := .struct [optV bytesV kv.wrapped, optV plainVal kv.plain]

/-- `KeyBlock{KeyFormatType, KeyCompressionType, KeyValue *KeyValue, CryptographicAlgorithm,
    CryptographicLength, KeyWrappingData *KeyWrappingData}` without wrapping data. -/
def kbVal (kb : KeyBlockV) : Val :=
  .struct [.int kb.format, .int kb.comp, optV keyValueVal kb.keyValue, .int kb.alg, .int kb.len, .ptr none]

/-- the objects the register builders produce (pointers to structs). -/
def objVal : Obj → Option Val
  | .symmetricKey kb => some (.ptr (some (.struct [kbVal kb])))
  | .publicKey kb => some (.ptr (some (.struct [kbVal kb])))
  | .privateKey kb => some (.ptr (some (.struct [kbVal kb])))
  | .secretData ty kb => some (.ptr (some (.struct [.int ty, kbVal kb])))
  | .certificate ty v => some (.ptr (some (.struct [.int ty, .bytes (some v)])))
  | _ => none

/-- no attributes inside the key value (the builders put none there). -/
def _root_.Kmip.Key.KeyBlockV.Wireable (kb : KeyBlockV) : Prop :=
  ∀ kv, kb.keyValue = some kv → ∀ p, kv.plain = some p → p.attrs = 0

def Wireable : Obj → Prop
  | .symmetricKey kb => KeyBlockV.Wireable kb
  | .publicKey kb => KeyBlockV.Wireable kb
  | .privateKey kb => KeyBlockV.Wireable kb
  | .secretData _ kb => KeyBlockV.Wireable kb
  | _ => True

/-! ## 2. `Val` → Go object -/

def valOpt {α : Type} (f : Val → Option α) : Val → Option (Option α)
  | .ptr none => some none
  | .ptr (some v) => (f v).map some
  | _ => none

def valBig : Val → Option Int
  | .big v => some v
  | _ => none

def valBytes : Val → Option Bytes
  | .bytes b => some (b.getD [])
  | _ => none

def valNat : Val → Option Nat
  | .int v => if 0 ≤ v then some v.toNat else none
  | _ => none

def valRsaPriv : Val → Option RsaPrivT
  | .struct [n, d, e, p, q, dp, dq, qi] => do
    let n ← valBig n
    let d ← valOpt valBig d
    let e ← valOpt valBig e
    let p ← valOpt valBig p
    let q ← valOpt valBig q
    let dp ← valOpt valBig dp
    let dq ← valOpt valBig dq
    let qi ← valOpt valBig qi
    pure { modulus := n, d := d, e := e, p := p, q := q, dp := dp, dq := dq, qinv := qi }
  | _ => none

def valRsaPub : Val → Option RsaPubT
  | .struct [n, e] => do
    let n ← valBig n
    let e ← valBig e
    pure { modulus := n, e := e }
  | _ => none

def valEcPriv : Val → Option EcPrivT
  | .struct [c, d] => do
    let c ← valNat c
    let d ← valBig d
    pure { curve := c, d := d }
  | _ => none

def valEcPub : Val → Option EcPubT
  | .struct [c, q] => do
    let c ← valNat c
    let q ← valBytes q
    pure { curve := c, q := q }
  | _ => none

def valSym : Val → Option Bytes
  | .struct [b] => valBytes b
  | _ => none

def valMaterial : Val → Option Material
  | .struct [b, s, rp, ru, ep, eu, cp, cu] => do
    let b ← valOpt valBytes b
    let s ← valOpt valSym s
    let rp ← valOpt valRsaPriv rp
    let ru ← valOpt valRsaPub ru
    let ep ← valOpt valEcPriv ep
    let eu ← valOpt valEcPub eu
    let cp ← valOpt valEcPriv cp
    let cu ← valOpt valEcPub cu
    pure { bytes := b, sym := s, rsaPriv := rp, rsaPub := ru, ecdsaPriv := ep, ecdsaPub := eu, ecPriv := cp,
           ecPub := cu }
  | _ => none

def valPlain : Val → Option Plain
  | .struct [m, .list []] => do
    let m ← valMaterial m
    pure { material := m, attrs := 0 }
  | _ => none

def valKeyValue : Val → Option KeyValueV
  | .struct [w, p] => do
    let w ← valOpt valBytes w
    let p ← valOpt valPlain p
    pure { wrapped := w, plain := p }
  | _ => none

def valKB : Val → Option KeyBlockV
  | .struct [f, c, kv, a, l, .ptr none] => do
    let f ← valNat f
    let c ← valNat c
    let kv ← valOpt valKeyValue kv
    let a ← valNat a
    let l ← valNat l
    pure { format := f, comp := c, keyValue := kv, alg := a, len := l }
  | _ => none

/-- read an object of type code `ot` back. -/
def valObj (ot : Nat) : Val → Option Obj
  | .ptr (some (.struct [a])) =>
    if ot = 2 then (valKB a).map .symmetricKey
    else if ot = 3 then (valKB a).map .publicKey
    else if ot = 4 then (valKB a).map .privateKey
    else none
  | .ptr (some (.struct [a, b])) =>
    if ot = 7 then do
      let ty ← valNat a
      let kb ← valKB b
      pure (.secretData ty kb)
    else if ot = 1 then do
      let ty ← valNat a
      let v ← valBytes b
      pure (.certificate ty v)
    else none
  | _ => none

/-! ## 3. Inversion of `ContentEq` on the constructors used above -/

theorem ceq_int {a : Int} {v : Val} (h : ContentEq (.int a) v) : v = .int a := by
  cases v <;> simp [ContentEq] at h
  subst h; rfl

theorem ceq_big {a : Int} {v : Val} (h : ContentEq (.big a) v) : v = .big a := by
  cases v <;> simp [ContentEq] at h
  subst h; rfl

theorem ceq_bytes {b : Bytes} {v : Val} (h : ContentEq (.bytes (some b)) v) :
    ∃ b', v = .bytes b' ∧ b'.getD [] = b := by
  cases v <;> simp [ContentEq] at h
  exact ⟨_, rfl, h.symm⟩

theorem ceq_struct {as : List Val} {v : Val} (h : ContentEq (.struct as) v) :
    ∃ bs, v = .struct bs ∧ ContentEqList as bs := by
  cases v <;> simp [ContentEq] at h
  exact ⟨_, rfl, h⟩

theorem ceq_list_nil {v : Val} (h : ContentEq (.list []) v) : v = .list [] := by
  cases v with
  | list xs =>
    cases xs with
    | nil => rfl
    | cons x xs => simp [ContentEq, ContentEqList] at h
  | _ => simp [ContentEq] at h

theorem ceq_ptr_none {v : Val} (h : ContentEq (.ptr none) v) : v = .ptr none := by
  cases v with
  | ptr o =>
    cases o with
    | none => rfl
    | some b => simp [ContentEq] at h
  | _ => simp [ContentEq] at h

theorem ceq_ptr_some {a : Val} {v : Val} (h : ContentEq (.ptr (some a)) v) :
    ∃ b, v = .ptr (some b) ∧ ContentEq a b := by
  cases v with
  | ptr o =>
    cases o with
    | none => simp [ContentEq] at h
    | some b => rw [ContentEq] at h; exact ⟨b, rfl, h⟩
  | _ => simp [ContentEq] at h

theorem ceql_nil {l : List Val} (h : ContentEqList [] l) : l = [] := by
  cases l with
  | nil => rfl
  | cons b bs => simp [ContentEqList] at h

theorem ceql_cons {a : Val} {as l : List Val} (h : ContentEqList (a :: as) l) :
    ∃ b bs, l = b :: bs ∧ ContentEq a b ∧ ContentEqList as bs := by
  cases l with
  | nil => simp [ContentEqList] at h
  | cons b bs => rw [ContentEqList] at h; exact ⟨b, bs, rfl, h.1, h.2⟩

/-! ## 4. Reading back what is equal in content -/

theorem valOpt_of_ceq {α : Type} (f : α → Val) (g : Val → Option α)
    (hfg : ∀ a v, ContentEq (f a) v → g v = some a) (o : Option α) (v : Val)
    (h : ContentEq (optV f o) v) : valOpt g v = some o := by
  cases o with
  | none =>
    have := ceq_ptr_none (v := v) (by simpa [optV] using h)
    subst this; rfl
  | some a =>
    obtain ⟨b, hb, hab⟩ := ceq_ptr_some (a := f a) (v := v) (by simpa [optV] using h)
    subst hb
    simp [valOpt, hfg a b hab]

theorem valBig_of_ceq (a : Int) (v : Val) (h : ContentEq (bigV a) v) : valBig v = some a := by
  have := ceq_big (a := a) (v := v) h
  subst this; rfl

theorem valBytes_of_ceq (b : Bytes) (v : Val) (h : ContentEq (bytesV b) v) : valBytes v = some b := by
  obtain ⟨b', hv, hb⟩ := ceq_bytes (b := b) (v := v) h
  subst hv
  simp [valBytes, hb]

theorem valNat_of_ceq (n : Nat) (v : Val) (h : ContentEq (.int (n : Int)) v) : valNat v = some n := by
  have := ceq_int (a := (n : Int)) (v := v) h
  subst this
  simp [valNat]

theorem valRsaPriv_of_ceq (t : RsaPrivT) (v : Val) (h : ContentEq (rsaPrivVal t) v) :
    valRsaPriv v = some t := by
  obtain ⟨l, hv, hl⟩ := ceq_struct h
  subst hv
  obtain ⟨x0, l0, e0, h0, hl0⟩ := ceql_cons hl; subst e0
  obtain ⟨x1, l1, e1, h1, hl1⟩ := ceql_cons hl0; subst e1
  obtain ⟨x2, l2, e2, h2, hl2⟩ := ceql_cons hl1; subst e2
  obtain ⟨x3, l3, e3, h3, hl3⟩ := ceql_cons hl2; subst e3
  obtain ⟨x4, l4, e4, h4, hl4⟩ := ceql_cons hl3; subst e4
  obtain ⟨x5, l5, e5, h5, hl5⟩ := ceql_cons hl4; subst e5
  obtain ⟨x6, l6, e6, h6, hl6⟩ := ceql_cons hl5; subst e6
  obtain ⟨x7, l7, e7, h7, hl7⟩ := ceql_cons hl6; subst e7
  have := ceql_nil hl7; subst this
  have r0 := valBig_of_ceq _ _ h0
  have r1 := valOpt_of_ceq bigV valBig valBig_of_ceq _ _ h1
  have r2 := valOpt_of_ceq bigV valBig valBig_of_ceq _ _ h2
  have r3 := valOpt_of_ceq bigV valBig valBig_of_ceq _ _ h3
  have r4 := valOpt_of_ceq bigV valBig valBig_of_ceq _ _ h4
  have r5 := valOpt_of_ceq bigV valBig valBig_of_ceq _ _ h5
  have r6 := valOpt_of_ceq bigV valBig valBig_of_ceq _ _ h6
  have r7 := valOpt_of_ceq bigV valBig valBig_of_ceq _ _ h7
  simp [valRsaPriv, r0, r1, r2, r3, r4, r5, r6, r7]

theorem valRsaPub_of_ceq (t : RsaPubT) (v : Val) (h : ContentEq (rsaPubVal t) v) : valRsaPub v = some t := by
  obtain ⟨l, hv, hl⟩ := ceq_struct h
  subst hv
  obtain ⟨x0, l0, e0, h0, hl0⟩ := ceql_cons hl; subst e0
  obtain ⟨x1, l1, e1, h1, hl1⟩ := ceql_cons hl0; subst e1
  have := ceql_nil hl1; subst this
  have r0 := valBig_of_ceq _ _ h0
  have r1 := valBig_of_ceq _ _ h1
  simp [valRsaPub, r0, r1]

theorem valEcPriv_of_ceq (t : EcPrivT) (v : Val) (h : ContentEq (ecPrivVal t) v) : valEcPriv v = some t := by
  obtain ⟨l, hv, hl⟩ := ceq_struct h
  subst hv
  obtain ⟨x0, l0, e0, h0, hl0⟩ := ceql_cons hl; subst e0
  obtain ⟨x1, l1, e1, h1, hl1⟩ := ceql_cons hl0; subst e1
  have := ceql_nil hl1; subst this
  have r0 := valNat_of_ceq _ _ h0
  have r1 := valBig_of_ceq _ _ h1
  simp [valEcPriv, r0, r1]

theorem valEcPub_of_ceq (t : EcPubT) (v : Val) (h : ContentEq (ecPubVal t) v) : valEcPub v = some t := by
  obtain ⟨l, hv, hl⟩ := ceq_struct h
  subst hv
  obtain ⟨x0, l0, e0, h0, hl0⟩ := ceql_cons hl; subst e0
  obtain ⟨x1, l1, e1, h1, hl1⟩ := ceql_cons hl0; subst e1
  have := ceql_nil hl1; subst this
  have r0 := valNat_of_ceq _ _ h0
  have r1 := valBytes_of_ceq _ _ h1
  simp [valEcPub, r0, r1]

theorem valSym_of_ceq (b : Bytes) (v : Val) (h : ContentEq (symVal b) v) : valSym v = some b := by
  obtain ⟨l, hv, hl⟩ := ceq_struct h
  subst hv
  obtain ⟨x0, l0, e0, h0, hl0⟩ := ceql_cons hl; subst e0
  have := ceql_nil hl0; subst this
  have r0 := valBytes_of_ceq _ _ h0
  simp [valSym, r0]

theorem valMaterial_of_ceq (m : Material) (v : Val) (h : ContentEq (materialVal m) v) :
    valMaterial v = some m := by
  obtain ⟨l, hv, hl⟩ := ceq_struct h
  subst hv
  obtain ⟨x0, l0, e0, h0, hl0⟩ := ceql_cons hl; subst e0
  obtain ⟨x1, l1, e1, h1, hl1⟩ := ceql_cons hl0; subst e1
  obtain ⟨x2, l2, e2, h2, hl2⟩ := ceql_cons hl1; subst e2
  obtain ⟨x3, l3, e3, h3, hl3⟩ := ceql_cons hl2; subst e3
  obtain ⟨x4, l4, e4, h4, hl4⟩ := ceql_cons hl3; subst e4
  obtain ⟨x5, l5, e5, h5, hl5⟩ := ceql_cons hl4; subst e5
  obtain ⟨x6, l6, e6, h6, hl6⟩ := ceql_cons hl5; subst e6
  obtain ⟨x7, l7, e7, h7, hl7⟩ := ceql_cons hl6; subst e7
  have := ceql_nil hl7; subst this
  have r0 := valOpt_of_ceq bytesV valBytes valBytes_of_ceq _ _ h0
  have r1 := valOpt_of_ceq symVal valSym valSym_of_ceq _ _ h1
  have r2 := valOpt_of_ceq rsaPrivVal valRsaPriv valRsaPriv_of_ceq _ _ h2
  have r3 := valOpt_of_ceq rsaPubVal valRsaPub valRsaPub_of_ceq _ _ h3
  have r4 := valOpt_of_ceq ecPrivVal valEcPriv valEcPriv_of_ceq _ _ h4
  have r5 := valOpt_of_ceq ecPubVal valEcPub valEcPub_of_ceq _ _ h5
  have r6 := valOpt_of_ceq ecPrivVal valEcPriv valEcPriv_of_ceq _ _ h6
  have r7 := valOpt_of_ceq ecPubVal valEcPub valEcPub_of_ceq _ _ h7
  simp [valMaterial, r0, r1, r2, r3, r4, r5, r6, r7]

theorem valPlain_of_ceq (p : Plain) (hp : p.attrs = 0) (v : Val) (h : ContentEq (plainVal p) v) :
    valPlain v = some p := by
  obtain ⟨l, hv, hl⟩ := ceq_struct h
  subst hv
  obtain ⟨x0, l0, e0, h0, hl0⟩ := ceql_cons hl; subst e0
  obtain ⟨x1, l1, e1, h1, hl1⟩ := ceql_cons hl0; subst e1
  have := ceql_nil hl1; subst this
  have := ceq_list_nil h1; subst this
  have r0 := valMaterial_of_ceq _ _ h0
  cases p with
  | mk material attrs =>
    simp only at hp
    subst hp
    simp [valPlain, r0]

theorem valKeyValue_of_ceq (kv : KeyValueV) (hp : ∀ p, kv.plain = some p → p.attrs = 0) (v : Val)
    (h : ContentEq (keyValueVal kv) v) : valKeyValue v = some kv := by
  obtain ⟨l, hv, hl⟩ := ceq_struct h
  subst hv
  obtain ⟨x0, l0, e0, h0, hl0⟩ := ceql_cons hl; subst e0
  obtain ⟨x1, l1, e1, h1, hl1⟩ := ceql_cons hl0; subst e1
  have := ceql_nil hl1; subst this
  have r0 := valOpt_of_ceq bytesV valBytes valBytes_of_ceq _ _ h0
  have r1 : valOpt valPlain x1 = some kv.plain := by
    cases hpl : kv.plain with
    | none =>
      rw [hpl] at h1
      have := ceq_ptr_none (v := x1) (by simpa [optV] using h1)
      subst this; rfl
    | some p =>
      rw [hpl] at h1
      obtain ⟨b, hb, hab⟩ := ceq_ptr_some (a := plainVal p) (v := x1) (by simpa [optV] using h1)
      subst hb
      simp [valOpt, valPlain_of_ceq p (hp p hpl) b hab]
  cases kv with
  | mk wrapped plain => simp [valKeyValue, r0, r1]

theorem valKB_of_ceq (kb : KeyBlockV) (hw : kb.Wireable) (v : Val) (h : ContentEq (kbVal kb) v) :
    valKB v = some kb := by
  obtain ⟨l, hv, hl⟩ := ceq_struct h
  subst hv
  obtain ⟨x0, l0, e0, h0, hl0⟩ := ceql_cons hl; subst e0
  obtain ⟨x1, l1, e1, h1, hl1⟩ := ceql_cons hl0; subst e1
  obtain ⟨x2, l2, e2, h2, hl2⟩ := ceql_cons hl1; subst e2
  obtain ⟨x3, l3, e3, h3, hl3⟩ := ceql_cons hl2; subst e3
  obtain ⟨x4, l4, e4, h4, hl4⟩ := ceql_cons hl3; subst e4
  obtain ⟨x5, l5, e5, h5, hl5⟩ := ceql_cons hl4; subst e5
  have := ceql_nil hl5; subst this
  have := ceq_ptr_none h5; subst this
  have r0 := valNat_of_ceq _ _ h0
  have r1 := valNat_of_ceq _ _ h1
  have r3 := valNat_of_ceq _ _ h3
  have r4 := valNat_of_ceq _ _ h4
  have r2 : valOpt valKeyValue x2 = some kb.keyValue := by
    cases hkv : kb.keyValue with
    | none =>
      rw [hkv] at h2
      have := ceq_ptr_none (v := x2) (by simpa [optV] using h2)
      subst this; rfl
    | some kv =>
      rw [hkv] at h2
      obtain ⟨b, hb, hab⟩ := ceq_ptr_some (a := keyValueVal kv) (v := x2) (by simpa [optV] using h2)
      subst hb
      simp [valOpt, valKeyValue_of_ceq kv (hw kv hkv) b hab]
  cases kb with
  | mk format comp keyValue alg len => simp [valKB, r0, r1, r2, r3, r4]

/-- whatever is equal in content to the image of a (wireable) object reads back as that object. -/
theorem valObj_of_contentEq (o : Obj) (hw : Wireable o) (v v' : Val) (hv : objVal o = some v)
    (h : ContentEq v v') : valObj o.typeCode v' = some o := by
  cases o with
  | symmetricKey kb =>
    simp only [objVal, Option.some.injEq] at hv; subst hv
    obtain ⟨b, hb, hab⟩ := ceq_ptr_some h; subst hb
    obtain ⟨l, hl, hll⟩ := ceq_struct hab; subst hl
    obtain ⟨x0, l0, e0, h0, hll0⟩ := ceql_cons hll; subst e0
    have := ceql_nil hll0; subst this
    simp [valObj, Obj.typeCode, valKB_of_ceq kb hw x0 h0]
  | publicKey kb =>
    simp only [objVal, Option.some.injEq] at hv; subst hv
    obtain ⟨b, hb, hab⟩ := ceq_ptr_some h; subst hb
    obtain ⟨l, hl, hll⟩ := ceq_struct hab; subst hl
    obtain ⟨x0, l0, e0, h0, hll0⟩ := ceql_cons hll; subst e0
    have := ceql_nil hll0; subst this
    simp [valObj, Obj.typeCode, valKB_of_ceq kb hw x0 h0]
  | privateKey kb =>
    simp only [objVal, Option.some.injEq] at hv; subst hv
    obtain ⟨b, hb, hab⟩ := ceq_ptr_some h; subst hb
    obtain ⟨l, hl, hll⟩ := ceq_struct hab; subst hl
    obtain ⟨x0, l0, e0, h0, hll0⟩ := ceql_cons hll; subst e0
    have := ceql_nil hll0; subst this
    simp [valObj, Obj.typeCode, valKB_of_ceq kb hw x0 h0]
  | secretData ty kb =>
    simp only [objVal, Option.some.injEq] at hv; subst hv
    obtain ⟨b, hb, hab⟩ := ceq_ptr_some h; subst hb
    obtain ⟨l, hl, hll⟩ := ceq_struct hab; subst hl
    obtain ⟨x0, l0, e0, h0, hll0⟩ := ceql_cons hll; subst e0
    obtain ⟨x1, l1, e1, h1, hll1⟩ := ceql_cons hll0; subst e1
    have := ceql_nil hll1; subst this
    simp [valObj, Obj.typeCode, valNat_of_ceq ty x0 h0, valKB_of_ceq kb hw x1 h1]
  | certificate ty val =>
    simp only [objVal, Option.some.injEq] at hv; subst hv
    obtain ⟨b, hb, hab⟩ := ceq_ptr_some h; subst hb
    obtain ⟨l, hl, hll⟩ := ceq_struct hab; subst hl
    obtain ⟨x0, l0, e0, h0, hll0⟩ := ceql_cons hll; subst e0
    obtain ⟨x1, l1, e1, h1, hll1⟩ := ceql_cons hll0; subst e1
    have := ceql_nil hll1; subst this
    simp [valObj, Obj.typeCode, valNat_of_ceq ty x0 h0, valBytes_of_ceq val x1 h1]
  | _ => simp [objVal] at hv

/-- the objects the register builders produce are wireable. -/
theorem plainKB_wireable (format comp alg len : Nat) (m : Material) : (plainKB format comp alg len m).Wireable := by
  intro kv hkv p hp
  simp only [plainKB, Option.some.injEq] at hkv
  subst hkv
  simp only [Option.some.injEq] at hp
  subst hp
  rfl

theorem rawKeyBytes_wireable (priv : Bool) (der : Bytes) (alg bitlen format : Nat) :
    Wireable (rawKeyBytes priv der alg bitlen format) := by
  cases priv
  · show KeyBlockV.Wireable (plainKB _ _ _ _ _); exact plainKB_wireable _ _ _ _ _
  · show KeyBlockV.Wireable (plainKB _ _ _ _ _); exact plainKB_wireable _ _ _ _ _

/-- every object a register builder produces is wireable. -/
theorem registerF_wireable (C : CryptoOps) (f : Nat) (ver : Nat × Nat) (key : AnyKey C) (o : Obj)
    (h : registerF C f ver key = .ok o) : Wireable o := by
  cases key with
  | rsaPriv k =>
    simp only [registerF, registerRsaPrivF] at h
    repeat' split at h
    all_goals
      cases h <;> first | exact rawKeyBytes_wireable _ _ _ _ _ | exact plainKB_wireable _ _ _ _ _
  | rsaPub k =>
    simp only [registerF, registerRsaPubF] at h
    repeat' split at h
    all_goals
      cases h <;> first | exact rawKeyBytes_wireable _ _ _ _ _ | exact plainKB_wireable _ _ _ _ _
  | ecPriv k =>
    simp only [registerF, registerEcPrivF] at h
    repeat' split at h
    all_goals
      cases h <;> first | exact rawKeyBytes_wireable _ _ _ _ _ | exact plainKB_wireable _ _ _ _ _
  | ecPub k =>
    simp only [registerF, registerEcPubF] at h
    repeat' split at h
    all_goals
      cases h <;> first | exact rawKeyBytes_wireable _ _ _ _ _ | exact plainKB_wireable _ _ _ _ _
  | sym alg v =>
    simp only [registerF, registerSymF] at h
    repeat' split at h
    all_goals
      cases h <;> first | exact rawKeyBytes_wireable _ _ _ _ _ | exact plainKB_wireable _ _ _ _ _
  | secret kind v =>
    simp only [registerF, registerSecret, Res.ok.injEq] at h
    subst h
    exact plainKB_wireable _ _ _ _ _

/-! ## 5. `Conforms` by kernel evaluation for values that carry big integers

`conforms_of_checks` (C01) evaluates the length side conditions with `encodeBig`, which rests on the well-founded
`natToBytesBE` and does not reduce in the kernel, so its checker refuses every big integer.  Here the lengths are
bounded from above through `Nat.log2` (which the kernel evaluates), which is all the side conditions need. -/

/-- upper bound of the number of bytes of `encodeBig v`. -/
def bigUB (v : Int) : Nat := Nat.log2 v.natAbs / 8 + 9

theorem natToBytesBE_length_le (n : Nat) : (natToBytesBE n).length ≤ Nat.log2 n / 8 + 1 := by
  by_cases h : n = 0
  · subst h; rw [natToBytesBE_zero]; simp
  · have hl := natToBytesBE_lower h
    have hp : (256 : Nat) ^ ((natToBytesBE n).length - 1) = 2 ^ (8 * ((natToBytesBE n).length - 1)) := by
      rw [show (256 : Nat) = 2 ^ 8 by decide, ← Nat.pow_mul]
    rw [hp] at hl
    have := (Nat.le_log2 h).mpr hl
    omega

theorem padForLen_le (l : Nat) : padForLen l 8 ≤ 8 := by have := padForLen_lt l; omega

theorem encodeBig_length_le (v : Int) : (encodeBig v).length ≤ bigUB v := by
  unfold bigUB
  rcases Int.lt_trichotomy v 0 with h | h | h
  · rw [encodeBig_neg v h]
    have hm := natToBytesBE_length_le v.natAbs
    have hb := negBody_length v
    have hp : negPad (negBody v) ≤ 8 := by
      unfold negPad; split
      · exact Nat.le_refl _
      · exact padForLen_le _
    simp only [List.length_append, List.length_replicate]
    omega
  · subst h; rw [encodeBig_zero]; simp
  · rw [encodeBig_pos v h]
    have hm := natToBytesBE_length_le v.natAbs
    have hp : posPad (natToBytesBE v.natAbs) ≤ 8 := by
      unfold posPad; split
      · exact Nat.le_refl _
      · exact padForLen_le _
    simp only [List.length_append, List.length_replicate]
    omega

mutual
  /-- upper bound of `(enc t).length`, evaluable by the kernel. -/
  def lenUB : Item → Nat
    | .struct _ cs => 15 + lenUBList cs
    | .big _ v => 15 + bigUB v
    | .text _ s => 15 + s.length
    | .bytes _ s => 15 + s.length
    | .int .. => 24
    | .long .. => 24
    | .enum .. => 24
    | .bool .. => 24
    | .date .. => 24
    | .interval .. => 24
  def lenUBList : List Item → Nat
    | [] => 0
    | x :: xs => lenUB x + lenUBList xs
end

theorem paddedLen_le (l : Nat) : paddedLen l ≤ l + 7 := by
  unfold paddedLen; have := padForLen_lt l; omega

mutual
  theorem enc_length_le : (t : Item) → (enc t).length ≤ lenUB t
    | .struct tag cs => by
      have := encList_length_le cs
      have hp := paddedLen_le (encList cs).length
      rw [enc_length_eq, lenUB]; simp only [Item.body]; omega
    | .big tag v => by
      have := encodeBig_length_le v
      have hp := paddedLen_le (encodeBig v).length
      rw [enc_length_eq, lenUB]; simp only [Item.body]; omega
    | .text tag s => by
      have hp := paddedLen_le s.length
      rw [enc_length_eq, lenUB]; simp only [Item.body]; omega
    | .bytes tag s => by
      have hp := paddedLen_le s.length
      rw [enc_length_eq, lenUB]; simp only [Item.body]; omega
    | .int tag v => by rw [enc_length_eq, lenUB]; simp [Item.body, paddedLen, padForLen]
    | .long tag v => by rw [enc_length_eq, lenUB]; simp [Item.body, paddedLen, padForLen]
    | .enum tag v => by rw [enc_length_eq, lenUB]; simp [Item.body, paddedLen, padForLen]
    | .bool tag b => by rw [enc_length_eq, lenUB]; simp [Item.body, paddedLen, padForLen]
    | .date tag v => by rw [enc_length_eq, lenUB]; simp [Item.body, paddedLen, padForLen]
    | .interval tag v => by rw [enc_length_eq, lenUB]; simp [Item.body, paddedLen, padForLen]
  theorem encList_length_le : (ts : List Item) → (encList ts).length ≤ lenUBList ts
    | [] => by simp [encList, lenUBList]
    | x :: xs => by
      have h1 := enc_length_le x
      have h2 := encList_length_le xs
      rw [encList, lenUBList]; simp only [List.length_append]; omega
end

mutual
  /-- the range side conditions, with the lengths replaced by their upper bounds. -/
  def inRangeUB : Item → Bool
    | .struct tag cs => decide (0 < tag) && decide (tag < 2 ^ 24) && decide (lenUBList cs < 2 ^ 32) && allInRangeUB cs
    | .big tag v => decide (0 < tag) && decide (tag < 2 ^ 24) && decide (bigUB v < 2 ^ 32)
    | .int tag v => (Item.int tag v).inRangeB
    | .long tag v => (Item.long tag v).inRangeB
    | .enum tag v => (Item.enum tag v).inRangeB
    | .bool tag b => (Item.bool tag b).inRangeB
    | .text tag s => (Item.text tag s).inRangeB
    | .bytes tag s => (Item.bytes tag s).inRangeB
    | .date tag v => (Item.date tag v).inRangeB
    | .interval tag v => (Item.interval tag v).inRangeB
  def allInRangeUB : List Item → Bool
    | [] => true
    | x :: xs => inRangeUB x && allInRangeUB xs
end

mutual
  theorem inRangeUB_sound : (t : Item) → inRangeUB t = true → t.InRange
    | .struct tag cs, h => by
      simp only [inRangeUB, Bool.and_eq_true, decide_eq_true_eq] at h
      have := encList_length_le cs
      rw [Item.InRange]
      exact ⟨h.1.1.1, h.1.1.2, by omega, allInRangeUB_sound cs h.2⟩
    | .big tag v, h => by
      simp only [inRangeUB, Bool.and_eq_true, decide_eq_true_eq] at h
      have := encodeBig_length_le v
      rw [Item.InRange]
      exact ⟨h.1.1, h.1.2, by omega⟩
    | .int tag v, h => Item.inRangeB_sound _ (by simpa [inRangeUB] using h)
    | .long tag v, h => Item.inRangeB_sound _ (by simpa [inRangeUB] using h)
    | .enum tag v, h => Item.inRangeB_sound _ (by simpa [inRangeUB] using h)
    | .bool tag b, h => Item.inRangeB_sound _ (by simpa [inRangeUB] using h)
    | .text tag s, h => Item.inRangeB_sound _ (by simpa [inRangeUB] using h)
    | .bytes tag s, h => Item.inRangeB_sound _ (by simpa [inRangeUB] using h)
    | .date tag v, h => Item.inRangeB_sound _ (by simpa [inRangeUB] using h)
    | .interval tag v, h => Item.inRangeB_sound _ (by simpa [inRangeUB] using h)
  theorem allInRangeUB_sound : (ts : List Item) → allInRangeUB ts = true → Item.AllInRange ts
    | [], _ => by rw [Item.AllInRange]; trivial
    | x :: xs, h => by
      simp only [allInRangeUB, Bool.and_eq_true] at h
      rw [Item.AllInRange]
      exact ⟨inRangeUB_sound x h.1, allInRangeUB_sound xs h.2⟩
end

/-- the encoder's output satisfies the (bounded) range side conditions. -/
def encOkUB (S : Schema) (d tag : Nat) (v : Val) : Bool :=
  match encK S marshalFuel (S.dyn d).kind (topTag S d tag) v none with
  | .ok (items, _) => allInRangeUB items
  | _ => false

/-- `Conforms` from two executable checks, big integers allowed. -/
theorem conforms_of_checks_big (S : Schema) (d tag : Nat) (v : Val)
    (h1 : (normTop S d tag v).isSome = true) (h2 : encOkUB S d tag v = true) : Conforms S d tag v := by
  unfold encOkUB at h2
  split at h2
  · rename_i items w heq
    refine ⟨h1, ?_⟩
    intro items' ver' he
    rw [heq] at he
    simp only [Res.ok.injEq, Prod.mk.injEq] at he
    rw [← he.1]; exact allInRangeUB_sound items h2
  · contradiction

end Kmip.Key.Wire
