/-
  C06 — payloads, objects and attributes decode to their registered types.

  For every operation code and direction, a batch item decodes to the payload type registered for that
  operation and that payload reports the same operation; managed objects decode to the type named by the
  accompanying object type and standard attributes to their specified value type. Operations and attributes
  unknown to the library are preserved as opaque TTLV that re-encodes byte-identically, and an unknown object
  type yields an error rather than a value of a wrong type.

  In the model a value behind a Go interface is `.iface (some (d, x))`: `d` is the id of its dynamic type in
  `Schema.dyns`. "Decodes to the registered type" is therefore a statement about `d`. The dispatch tables
  (`Gen.ops`, `Gen.objects`, `Gen.attrs`) and what a fresh instance of every registered Go type REPORTS
  (`Gen.opsReported`, `Gen.objectsReported`) are regenerated from the Go code on every run; the obligations
  about them are kernel-evaluated checks.
-/
import KmipModel.Lemmas.PlanLemmas
import KmipModel.Lemmas.DispatchLemmas
import KmipModel.Lemmas.DispatchDepthLemmas
import KmipModel.Gen.Schema
import KmipModel.Pinned.AttrSpec
namespace Kmip.C06
open Kmip

/-! ### 1 — batch items -/

/-- 1a. a request batch item that decodes carries, behind its payload interface, a value of the dynamic
    type `payloadDyn op false` — for EVERY operation code `op` found on the wire (any natural number). -/
theorem request_item_payload_type (S : Schema) (fuel id tag : Nat) (c : Cur) (ver : Option Ver)
    (v : Val) (st : DecSt)
    (h : decCustom S (fuel + 1) Cust.requestBatchItem id tag c ver = .ok (v, st)) :
    ∃ op bid x me, v = .struct [op, bid, .iface (some (S.payloadDyn op.asInt.toNat false, x)), me] :=
  decCustom_requestBatchItem h

/-- 1b. a response batch item that decodes has either no payload or, behind its payload interface, a
    value of the dynamic type `payloadDyn op true`. -/
theorem response_item_payload_type (S : Schema) (fuel id tag : Nat) (c : Cur) (ver : Option Ver)
    (v : Val) (st : DecSt)
    (h : decCustom S (fuel + 1) Cust.responseBatchItem id tag c ver = .ok (v, st)) :
    ∃ op bid rst rs msg acv pl me, v = .struct [op, bid, rst, rs, msg, acv, pl, me] ∧
      (pl = .iface none ∨
        (0 < op.asInt ∧ ∃ x, pl = .iface (some (S.payloadDyn op.asInt.toNat true, x)))) :=
  decCustom_responseBatchItem h

/-! ### 2 — `newRequestPayload` / `newResponsePayload` -/

/-- 2a. a registered operation (codes pairwise distinct) maps to its registered pair. -/
theorem payloadDyn_registered (S : Schema) (hn : (S.ops.map (·.1)).Nodup) (op rq rs : Nat)
    (hp : (op, rq, rs) ∈ S.ops) : S.payloadDyn op false = rq ∧ S.payloadDyn op true = rs :=
  Kmip.payloadDyn_registered hn hp

/-- 2b. every other code maps to the opaque payload type, in both directions. -/
theorem payloadDyn_unknown (S : Schema) (op : Nat) (h : ∀ p ∈ S.ops, p.1 ≠ op) (r : Bool) :
    S.payloadDyn op r = S.unknownPayloadDyn :=
  Kmip.payloadDyn_unknown h r

/-- 2c. there is no third case: all natural numbers are covered. -/
theorem payloadDyn_total (S : Schema) (op : Nat) (r : Bool) :
    (∃ rq rs, (op, rq, rs) ∈ S.ops ∧ S.payloadDyn op r = if r then rs else rq) ∨
    ((∀ p ∈ S.ops, p.1 ≠ op) ∧ S.payloadDyn op r = S.unknownPayloadDyn) :=
  payloadDyn_cases S op r

/-! ### 3 — the tables extracted from the Go code -/

/-- 3a. every registered payload type reports its own operation: the entries of `Gen.opsReported` are
    `(op, request.Operation(), response.Operation())` for exactly the registered codes, in order. -/
theorem gen_ops_report_own_operation :
    Gen.opsReported.all (fun p => p.1 == p.2.1 && p.1 == p.2.2) = true ∧
    Gen.opsReported.map (·.1) = Gen.ops.map (·.1) := by decide +kernel

/-- 3b. operation codes are pairwise distinct. -/
theorem gen_ops_nodup : (Gen.ops.map (·.1)).Nodup := by decide +kernel

/-- 3c. request and response of one operation are different types, and no type serves two operations. -/
theorem gen_ops_types_nodup :
    (Gen.ops.map (·.2.1) ++ Gen.ops.map (·.2.2) ++ [Gen.schema.unknownPayloadDyn]).Nodup := by
  decide +kernel

/-- 3d. every registered object type reports its own object type; the types are pairwise distinct and so
    are the Go types. -/
theorem gen_objects_report_own_type :
    Gen.objectsReported.all (fun p => p.1 == p.2) = true ∧
    Gen.objectsReported.map (·.1) = Gen.objects.map (·.1) := by decide +kernel
theorem gen_objects_nodup :
    (Gen.objects.map (·.1)).Nodup ∧ (Gen.objects.map (·.2)).Nodup := by decide +kernel

/-- 3e. the attribute table covers exactly the library's list of standard attribute names, once each. -/
theorem gen_attrs_cover_all_names :
    Gen.allAttrNames.all (fun n => (Gen.attrs.map (·.1)).contains n) = true ∧
    Gen.attrs.all (fun p => Gen.allAttrNames.contains p.1) = true ∧
    (Gen.attrs.map (·.1)).Nodup ∧ Gen.allAttrNames.Nodup := by decide +kernel

/-- 3e'. **the registered value types are the SPECIFIED ones**: the attribute table regenerated from the Go
    registry equals the pinned table of KMIP 1.4 section 3 — for every name the TTLV item type of the value and,
    for structures / enumerations / bit masks, which one (by its tag) — in both directions, same number of rows.
    Registering Comment as a byte string, PKCS#12 Friendly Name as an integer or Cryptographic Domain Parameters
    as another structure fails here. -/
theorem gen_attrs_match_spec : attrsMatchSpec Pinned.attrSpec Gen.schema = true := by decide +kernel

/-- 3e''. what 3e' means, specification ⇒ code: a standard (non-custom) attribute name listed by the
    specification with TTLV type `t` (and structure / enumeration `r`) decodes to a dynamic type written with
    exactly that type. -/
theorem gen_attribute_has_specified_type (name : Bytes) (t r : Nat)
    (hc : ¬ (name.take 2 = [0x78, 0x2D] ∨ name.take 2 = [0x79, 0x2D]))
    (hq : (packName name, t, r) ∈ Pinned.attrSpec) :
    Gen.schema.dynSpec (Gen.schema.attrDyn name) = (t, r) :=
  attrDyn_has_specified_type _ _ gen_attrs_match_spec name t r hc hq

/-- … and code ⇒ specification: every registered name is a row of the specification. -/
theorem gen_registered_attr_is_specified (p : Nat × Nat) (hp : p ∈ Gen.attrs) :
    (p.1, (Gen.schema.dynSpec p.2).1, (Gen.schema.dynSpec p.2).2) ∈ Pinned.attrSpec :=
  registered_attr_is_specified _ _ gen_attrs_match_spec p hp

/-- 3f. the extractor met no type it could not classify. -/
theorem gen_extraction_clean : Gen.extractionProblems = 0 := by decide

/-- 3g. the fallback types are the opaque ones: the unknown-operation payload is the struct whose codecs
    are the UnknownPayload ones, the unknown-attribute value is `ttlv.Value`. -/
theorem gen_fallbacks_are_opaque :
    Gen.schema.isOpaquePayloadDyn Gen.schema.unknownPayloadDyn = true ∧
    (Gen.schema.dyn Gen.schema.valueDyn).kind = .any := by decide +kernel

/-- 3h. instantiation of 1/2 at the current schema: a decoded request item holds the registered request
    type when the code is one of the 27 registered ones and the opaque type for every other code. -/
theorem gen_request_item_payload (fuel id tag : Nat) (c : Cur) (ver : Option Ver) (v : Val)
    (st : DecSt)
    (h : decCustom Gen.schema (fuel + 1) Cust.requestBatchItem id tag c ver = .ok (v, st)) :
    ∃ op bid d x me, v = .struct [op, bid, .iface (some (d, x)), me] ∧
      ((∃ rs, (op.asInt.toNat, d, rs) ∈ Gen.ops) ∨
       ((∀ p ∈ Gen.ops, p.1 ≠ op.asInt.toNat) ∧ d = Gen.schema.unknownPayloadDyn)) := by
  obtain ⟨op, bid, x, me, rfl⟩ := request_item_payload_type _ _ _ _ _ _ _ _ h
  refine ⟨op, bid, _, x, me, rfl, ?_⟩
  rcases payloadDyn_total Gen.schema op.asInt.toNat false with ⟨rq, rs, hm, he⟩ | ⟨hn, he⟩
  · left; exact ⟨rs, by rw [he]; exact hm⟩
  · right; exact ⟨hn, he⟩

/-- 3i. **the decoders are wired**: in the regenerated schema the BatchItem field of Request/ResponseMessage is
    a slice of the struct decoded by the request / response batch item codec; an interface-typed field occurs
    only in structs decoded by one of the seven dispatching codecs, and each of them decodes some struct.
    (Deleting a `TagDecodeTTLV` method, or adding a struct with a bare `Object` / `OperationPayload` field,
    fails here.) -/
theorem gen_messages_wired :
    Gen.schema.messageWired Gen.requestMessageDyn Cust.requestBatchItem = true ∧
    Gen.schema.messageWired Gen.responseMessageDyn Cust.responseBatchItem = true := by decide +kernel
theorem gen_dispatch_wired : Gen.schema.dispatchWired = true := by decide +kernel

/-- 3j. **composed up to `ttlv.UnmarshalTTLV`**: whatever bytes decode into a RequestMessage, the result is
    `&{header, [items…]}` and EVERY batch item carries, behind its payload interface, the request type
    registered for its operation code — or the opaque type when the code is not registered. -/
theorem gen_unmarshal_request_dispatch (bs : Bytes) (v : Val)
    (h : unmarshal Gen.schema Gen.requestMessageDyn 0 bs = .ok v) :
    ∃ hdr items, v = .ptr (some (.struct [hdr, .list items])) ∧
      ∀ it ∈ items, ∃ op bid d x me, it = .struct [op, bid, .iface (some (d, x)), me] ∧
        d = Gen.schema.payloadDyn op.asInt.toNat false ∧
        ((∃ rs, (op.asInt.toNat, d, rs) ∈ Gen.ops) ∨
         ((∀ p ∈ Gen.ops, p.1 ≠ op.asInt.toNat) ∧ d = Gen.schema.unknownPayloadDyn)) := by
  obtain ⟨hdr, items, rfl, hall⟩ := unmarshal_message_items _ _ _ gen_messages_wired.1 0 bs v h
  refine ⟨hdr, items, rfl, ?_⟩
  intro it hit
  obtain ⟨fuel, id, tg, c, ver, st, hd⟩ := hall it hit
  obtain ⟨op, bid, x, me, rfl⟩ := decCustom_requestBatchItem hd
  refine ⟨op, bid, _, x, me, rfl, rfl, ?_⟩
  rcases payloadDyn_total Gen.schema op.asInt.toNat false with ⟨rq, rs, hm, he⟩ | ⟨hn, he⟩
  · left; exact ⟨rs, by rw [he]; exact hm⟩
  · right; exact ⟨hn, he⟩

/-- 3k. the same for responses: every batch item has no payload, or the response type registered for its
    operation code (the opaque type when the code is not registered). -/
theorem gen_unmarshal_response_dispatch (bs : Bytes) (v : Val)
    (h : unmarshal Gen.schema Gen.responseMessageDyn 0 bs = .ok v) :
    ∃ hdr items, v = .ptr (some (.struct [hdr, .list items])) ∧
      ∀ it ∈ items, ∃ op bid rst rs msg acv pl me, it = .struct [op, bid, rst, rs, msg, acv, pl, me] ∧
        (pl = .iface none ∨ (0 < op.asInt ∧ ∃ d x, pl = .iface (some (d, x)) ∧
          d = Gen.schema.payloadDyn op.asInt.toNat true ∧
          ((∃ rq, (op.asInt.toNat, rq, d) ∈ Gen.ops) ∨
           ((∀ p ∈ Gen.ops, p.1 ≠ op.asInt.toNat) ∧ d = Gen.schema.unknownPayloadDyn)))) := by
  obtain ⟨hdr, items, rfl, hall⟩ := unmarshal_message_items _ _ _ gen_messages_wired.2 0 bs v h
  refine ⟨hdr, items, rfl, ?_⟩
  intro it hit
  obtain ⟨fuel, id, tg, c, ver, st, hd⟩ := hall it hit
  obtain ⟨op, bid, rst, rs, msg, acv, pl, me, rfl, hpl⟩ := decCustom_responseBatchItem hd
  refine ⟨op, bid, rst, rs, msg, acv, pl, me, rfl, ?_⟩
  rcases hpl with hnone | ⟨hpos, x, rfl⟩
  · exact Or.inl hnone
  · refine Or.inr ⟨hpos, _, x, rfl, rfl, ?_⟩
    rcases payloadDyn_total Gen.schema op.asInt.toNat true with ⟨rq, rs', hm, he⟩ | ⟨hn, he⟩
    · left; exact ⟨rq, by rw [he]; exact hm⟩
    · right; exact ⟨hn, he⟩

/-! ### 4 — managed objects -/

/-- 4a. Get response: the object behind the interface has the dynamic type registered for the object type
    found on the wire; an object type without registration cannot yield `ok`. -/
theorem get_response_object_type (S : Schema) (fuel id tag : Nat) (c : Cur) (ver : Option Ver)
    (v : Val) (st : DecSt)
    (h : decCustom S (fuel + 1) Cust.getResponse id tag c ver = .ok (v, st)) :
    ∃ ot uid d x, v = .struct [ot, uid, .iface (some (d, x))] ∧
      S.objectDyn ot.asInt.toNat = some d :=
  decCustom_getResponse h

/-- 4b. Register request. -/
theorem register_request_object_type (S : Schema) (fuel id tag : Nat) (c : Cur) (ver : Option Ver)
    (v : Val) (st : DecSt)
    (h : decCustom S (fuel + 1) Cust.registerRequest id tag c ver = .ok (v, st)) :
    ∃ ot ta d x, v = .struct [ot, ta, .iface (some (d, x))] ∧
      S.objectDyn ot.asInt.toNat = some d :=
  decCustom_registerRequest h

/-- 4c. Export response. -/
theorem export_response_object_type (S : Schema) (fuel id tag : Nat) (c : Cur) (ver : Option Ver)
    (v : Val) (st : DecSt)
    (h : decCustom S (fuel + 1) Cust.exportResponse id tag c ver = .ok (v, st)) :
    ∃ ot uid attrs d x, v = .struct [ot, uid, attrs, .iface (some (d, x))] ∧
      S.objectDyn ot.asInt.toNat = some d :=
  decCustom_exportResponse h

/-- 4d. Import request: the object type is the one carried by the decoded "Object Type" attribute. -/
theorem import_request_object_type (S : Schema) (fuel id tag : Nat) (c : Cur) (ver : Option Ver)
    (v : Val) (st : DecSt)
    (h : decCustom S (fuel + 1) Cust.importRequest id tag c ver = .ok (v, st)) :
    ∃ uid rep kwt attrs ot d x, v = .struct [uid, rep, kwt, attrs, .iface (some (d, x))] ∧
      importObjectType S attrs = some ot ∧ S.objectDyn ot = some d :=
  decCustom_importRequest h

/-- 4e. hence: an unknown object type yields an error or nothing — never a value. (Never a panic either:
    `C02.typed_decoders_no_panic`.) -/
theorem object_unknown_type_errors (S : Schema) (fuel id tag : Nat) (c : Cur) (ver : Option Ver)
    (code : Nat)
    (hcode : code = Cust.getResponse ∨ code = Cust.registerRequest ∨ code = Cust.exportResponse)
    (v : Val) (st : DecSt) (h : decCustom S (fuel + 1) code id tag c ver = .ok (v, st)) :
    ∃ ot, v.field 0 = ot ∧ S.objectDyn ot.asInt.toNat ≠ none := by
  rcases hcode with rfl | rfl | rfl
  · obtain ⟨ot, _, d, _, rfl, hd⟩ := decCustom_getResponse h
    exact ⟨ot, rfl, by rw [hd]; exact fun h => nomatch h⟩
  · obtain ⟨ot, _, d, _, rfl, hd⟩ := decCustom_registerRequest h
    exact ⟨ot, rfl, by rw [hd]; exact fun h => nomatch h⟩
  · obtain ⟨ot, _, _, d, _, rfl, hd⟩ := decCustom_exportResponse h
    exact ⟨ot, rfl, by rw [hd]; exact fun h => nomatch h⟩

/-- 4e'. Import request: without an "Object Type" attribute holding an ObjectType, or with one naming an
    unregistered type, there is no value. -/
theorem import_unknown_type_errors (S : Schema) (fuel id tag : Nat) (c : Cur) (ver : Option Ver)
    (v : Val) (st : DecSt) (h : decCustom S (fuel + 1) Cust.importRequest id tag c ver = .ok (v, st)) :
    ∃ ot, importObjectType S (v.field 3) = some ot ∧ S.objectDyn ot ≠ none := by
  obtain ⟨_, _, _, attrs, ot, d, _, rfl, hot, hd⟩ := decCustom_importRequest h
  exact ⟨ot, hot, by rw [hd]; exact fun h => nomatch h⟩

/-- 4f. `objectDyn` is the table lookup: a hit is a table entry. -/
theorem objectDyn_is_registered (S : Schema) (ot d : Nat) (h : S.objectDyn ot = some d) :
    (ot, d) ∈ S.objects := by
  obtain ⟨p, hp, h1, h2⟩ := lookupNat_mem h
  obtain ⟨a, b⟩ := p
  cases h1; cases h2
  exact hp

/-! ### 5 — attributes -/

/-- 5a. an Attribute that decodes holds, behind its value interface, the dynamic type `attrDyn name` for
    the name found on the wire. -/
theorem attribute_value_type (S : Schema) (fuel id tag : Nat) (c : Cur) (ver : Option Ver) (v : Val)
    (st : DecSt) (h : decCustom S (fuel + 1) Cust.attr id tag c ver = .ok (v, st)) :
    ∃ name idx x, v = .struct [.text name, idx, .iface (some (S.attrDyn name, x))] :=
  decCustom_attr h

/-- 5b. custom attributes (`x-…`, `y-…`) are opaque values. -/
theorem attrDyn_custom (S : Schema) (name : Bytes)
    (h : name.take 2 = [0x78, 0x2D] ∨ name.take 2 = [0x79, 0x2D]) : S.attrDyn name = S.valueDyn :=
  Kmip.attrDyn_custom h

/-- 5c. names that are not in the table are opaque values. -/
theorem attrDyn_unknown (S : Schema) (name : Bytes) (h : ∀ p ∈ S.attrs, p.1 ≠ packName name) :
    S.attrDyn name = S.valueDyn :=
  Kmip.attrDyn_unknown h

/-- 5d. a standard name maps to its table entry. -/
theorem attrDyn_registered (S : Schema) (name : Bytes) (d : Nat)
    (hc : ¬ (name.take 2 = [0x78, 0x2D] ∨ name.take 2 = [0x79, 0x2D]))
    (h : lookupNat S.attrs (packName name) = some d) : S.attrDyn name = d :=
  Kmip.attrDyn_registered hc h

/-! ### 6 — opaque values re-encode byte-identically -/

/-- 6a. the UnknownPayload codec: decoding the encoding of a structure `tag { its }` returns `its`, and
    encoding that value under the same tag gives back the same item, hence the same bytes. -/
theorem unknown_payload_reencode (S : Schema) (tag : Nat) (its : List Item)
    (h : (Item.struct tag its).InRange) (fuel : Nat) (hf : Item.sizeList its ≤ fuel) (id : Nat)
    (ver : Option Ver) :
    ∃ c, Cur.start (enc (.struct tag its)) = .ok c ∧
      decCustom S (fuel + 1) Cust.unknownPayload id tag c ver
        = .ok (.struct [.anyStruct its], { items := [], tail := none }, ver) ∧
      encCustom S 1 Cust.unknownPayload tag (.struct [.anyStruct its]) ver
        = .ok ([.struct tag its], ver) ∧
      encList [.struct tag its] = enc (.struct tag its) :=
  ⟨_, Cur.start_enc _ h, decCustom_unknownPayload_enc S tag its h fuel hf id ver [],
    encCustom_unknownPayload S 0 tag its ver, (enc_eq_encList _).symm⟩

/-- 6b. end to end: unmarshalling ANY in-range structure into the opaque payload type and marshalling the
    result under the same tag returns the input bytes. -/
theorem unknown_payload_roundtrip_bytes (S : Schema) (d : Nat)
    (hd : S.isOpaquePayloadDyn d = true) (tag : Nat) (its : List Item)
    (h : (Item.struct tag its).InRange) :
    ∃ v, unmarshal S d tag (enc (.struct tag its)) = .ok v ∧
      marshal S d tag v = .ok (enc (.struct tag its)) := by
  refine ⟨_, unmarshal_opaque_enc S d hd tag its h, marshal_opaque S d hd tag its ?_⟩
  rw [Item.InRange] at h
  omega

/-- 6c. at the current schema, for the type unknown operations decode to. -/
theorem gen_unknown_payload_roundtrip_bytes (tag : Nat) (its : List Item)
    (h : (Item.struct tag its).InRange) :
    ∃ v, unmarshal Gen.schema Gen.schema.unknownPayloadDyn tag (enc (.struct tag its)) = .ok v ∧
      marshal Gen.schema Gen.schema.unknownPayloadDyn tag v = .ok (enc (.struct tag its)) :=
  unknown_payload_roundtrip_bytes _ _ gen_fallbacks_are_opaque.1 tag its h

/-- 6d. unknown / custom attribute values (`ttlv.Value`): decoding any in-range item returns it, encoding
    it under its tag writes it back unchanged. -/
theorem unknown_attribute_value_reencode (S : Schema) (t : Item) (h : t.InRange) (fuel : Nat)
    (hf : t.size ≤ fuel) (ver : Option Ver) (rs : List RawItem) :
    decK S (fuel + 1) .any t.tag { items := t.raw :: rs, tail := none } ver
        = .ok (.any (some t), { items := rs, tail := none }, ver) ∧
      encK S 1 .any t.tag (.any (some t)) ver = .ok ([t], ver) :=
  ⟨decK_any_enc S t h fuel hf ver rs, encK_any S 0 t ver⟩

/-! ### 7 — every nesting depth -/

/-- 7a. **whatever `unmarshal` accepts is well dispatched at every depth** (any schema, any target type, any
    bytes): the checker `wdTop` walks the decoded value as the eight typed decoders produced it and demands of
    EVERY interface value it meets — the payload of every batch item, the value of every attribute (in payloads,
    template attributes, key values, …), the object of every Get / Register / Import / Export payload — that
    its dynamic type is the one the dispatch tables give for the operation code / attribute name / object type
    found next to it (7b–7d say so for the three kinds of site). The fuel `decFuel bs.length` is the decoder's
    own: the walk goes exactly as deep as the decoder went. -/
theorem decoded_value_well_dispatched (S : Schema) (d tag : Nat) (bs : Bytes) (v : Val)
    (h : unmarshal S d tag bs = .ok v) : wdTop S (decFuel bs.length) d v = true :=
  unmarshal_wd S d tag bs v h

/-- 7b. what the checker demands of a request batch item (positive fuel): the registered request type. -/
theorem checked_request_item (S : Schema) (n id d : Nat) (op bid x me : Val)
    (h : wdCustom S (n + 2) Cust.requestBatchItem id (.struct [op, bid, .iface (some (d, x)), me]) = true) :
    d = S.payloadDyn op.asInt.toNat false :=
  wdCustom_requestItem h

/-- 7c. … of an attribute: the value type registered for its name (with 3e': the specified one). -/
theorem checked_attribute (S : Schema) (n id d : Nat) (name : Bytes) (idx x : Val)
    (h : wdCustom S (n + 2) Cust.attr id (.struct [.text name, idx, .iface (some (d, x))]) = true) :
    d = S.attrDyn name :=
  wdCustom_attr h

/-- 7d. … of a Get response: the object type registered for the object type field. -/
theorem checked_get_response (S : Schema) (n id d : Nat) (ot uid x : Val)
    (h : wdCustom S (n + 2) Cust.getResponse id (.struct [ot, uid, .iface (some (d, x))]) = true) :
    S.objectDyn ot.asInt.toNat = some d :=
  wdCustom_getResponse h

/-- 7e. for the library's messages. -/
theorem gen_decoded_message_well_dispatched (response : Bool) (bs : Bytes) (v : Val)
    (h : unmarshal Gen.schema (if response then Gen.responseMessageDyn else Gen.requestMessageDyn) 0 bs = .ok v) :
    wdTop Gen.schema (decFuel bs.length) (if response then Gen.responseMessageDyn else Gen.requestMessageDyn) v
      = true :=
  unmarshal_wd _ _ _ _ _ h

/-! ### non-vacuity

  No count and no "unused" code is hard-coded: an operation / object type that is NOT registered is computed
  from the regenerated tables, so that a legitimate extension of the library (one more operation, attribute,
  object type) does not break these examples. -/

/-- the tables are not empty. -/
example : Gen.ops.length ≥ 1 ∧ Gen.objects.length ≥ 1 ∧ Gen.attrs.length ≥ 1 ∧
    Pinned.attrSpec.length = Gen.attrs.length := by decide +kernel

/-- an operation code / object type the library does not register (one more than the largest registered). -/
def freshOp : Nat := (Gen.ops.map (·.1)).foldl max 0 + 1
def freshObject : Nat := (Gen.objects.map (·.1)).foldl max 0 + 1

/-- every registered operation maps to its own pair, never to the opaque type; the fresh code, a code beyond
    32 bits and code 0 fall back to the opaque payload in both directions. -/
example : Gen.ops.all (fun p => Gen.schema.payloadDyn p.1 false == p.2.1 &&
      Gen.schema.payloadDyn p.1 true == p.2.2 && p.2.1 != Gen.schema.unknownPayloadDyn &&
      p.2.2 != Gen.schema.unknownPayloadDyn) = true ∧
    Gen.schema.payloadDyn freshOp true = Gen.schema.unknownPayloadDyn ∧
    Gen.schema.payloadDyn freshOp false = Gen.schema.unknownPayloadDyn ∧
    Gen.schema.payloadDyn (2 ^ 32 + 5) false = Gen.schema.unknownPayloadDyn ∧
    Gen.schema.payloadDyn 0 false = Gen.schema.unknownPayloadDyn := by decide +kernel

/-- every registered object type is found, the fresh one and 0 are not. -/
example : Gen.objects.all (fun p => Gen.schema.objectDyn p.1 == some p.2) = true ∧
    Gen.schema.objectDyn freshObject = none ∧ Gen.schema.objectDyn 0 = none := by decide +kernel

/-- "Name" is a standard attribute (a structure), "x-id" and "Nom" are opaque. -/
example : Gen.schema.attrDyn [0x4E, 0x61, 0x6D, 0x65] ≠ Gen.schema.valueDyn ∧
    Gen.schema.attrDyn [0x78, 0x2D, 0x69, 0x64] = Gen.schema.valueDyn ∧
    Gen.schema.attrDyn [0x4E, 0x6F, 0x6D] = Gen.schema.valueDyn := by decide +kernel

/-- 3e'' on concrete names: Comment is a Text String, Cryptographic Usage Mask an Integer holding the
    Cryptographic Usage Mask bits, Name the Name structure; and the comparison with the pinned table does
    detect a changed type (Comment as a Byte String), a dropped and an added row. -/
example : Gen.schema.dynSpec (Gen.schema.attrDyn [0x43, 0x6F, 0x6D, 0x6D, 0x65, 0x6E, 0x74]) = (7, 0) ∧
    Gen.schema.dynSpec (Gen.schema.attrDyn [0x4E, 0x61, 0x6D, 0x65]) = (1, 0x420053) := by decide +kernel
example : attrsMatchSpec (Pinned.attrSpec.map fun q => if q.1 == 0x1436F6D6D656E74 then (q.1, 8, 0) else q)
    Gen.schema = false := by decide +kernel
example : attrsMatchSpec Pinned.attrSpec.tail Gen.schema = false := by decide +kernel
example : attrsMatchSpec ((0x14E6F6D, 7, 0) :: Pinned.attrSpec) Gen.schema = false := by decide +kernel

/-- the codecs the examples below look up do exist in the schema (a missing codec would make the ids below
    default to 0 and the examples fail for a misleading reason). -/
example : (Gen.schema.structs.findIdx? (fun d => d.custom == Cust.requestBatchItem)).isSome = true ∧
    (Gen.schema.structs.findIdx? (fun d => d.custom == Cust.getResponse)).isSome = true := by decide +kernel

/-- a request batch item with the unregistered operation `freshOp` and a payload holding one Integer:
    it decodes (hypothesis of 1a satisfiable), into the opaque type. -/
def unknownOpItem : Bytes :=
  enc (.struct T.batchItem [.enum T.operation freshOp, .struct T.requestPayload [.int 0x420020 7]])

def requestBatchItemId : Nat :=
  (Gen.schema.structs.findIdx? (fun d => d.custom == Cust.requestBatchItem)).getD 0

def decodedUnknownOp : Option (Nat × Nat × Nat × Int) :=
  match (do
      let c ← Cur.start unknownOpItem
      decCustom Gen.schema 64 Cust.requestBatchItem requestBatchItemId T.batchItem c none) with
  | .ok (.struct [.int op, _, .iface (some (d, .ptr (some (.struct [.anyStruct [.int t x]])))), _], _) =>
    some (op.toNat, d, t, x)
  | _ => none

example : decodedUnknownOp = some (freshOp, Gen.schema.unknownPayloadDyn, 0x420020, 7) := by
  decide +kernel

/-- 3j on bytes: a whole RequestMessage (version 1.4, one item with the unregistered operation) decodes through
    `unmarshal` and its item holds the opaque type. -/
def unknownOpMessage : Bytes :=
  enc (.struct 0x420078 [
    .struct 0x420077 [.struct 0x420069 [.int 0x42006A 1, .int 0x42006B 4], .int 0x42000D 1],
    .struct T.batchItem [.enum T.operation freshOp, .struct T.requestPayload [.int 0x420020 7]]])

def decodedMessageDyn : Option (Nat × Nat) :=
  match unmarshal Gen.schema Gen.requestMessageDyn 0 unknownOpMessage with
  | .ok (.ptr (some (.struct [_, .list [.struct [.int op, _, .iface (some (d, _)), _]]]))) => some (op.toNat, d)
  | _ => none

set_option maxRecDepth 100000 in
example : decodedMessageDyn = some (freshOp, Gen.schema.unknownPayloadDyn) := by decide +kernel

/-- 7a is not vacuous: the checker REJECTS values that are not well dispatched — an attribute two levels below
    a batch item (AddAttribute request → Attribute) whose value sits behind the wrong dynamic type, and a batch
    item whose payload has the type of another operation — and accepts the corrected ones. -/
def addAttributeMessage (payloadDyn attrValueDyn : Nat) : Val :=
  .ptr (some (.struct [
    .struct [.struct [.int 1, .int 4], .int 0, .text [], .text [], .ptr none, .ptr none, .list [],
             .ptr none, .int 0, .ptr none, .ptr none, .int 1],
    .list [.struct [.int 0xD, .bytes none,
      .iface (some (payloadDyn, .ptr (some (.struct [.text [0x31],
        .struct [.text [0x43, 0x6F, 0x6D, 0x6D, 0x65, 0x6E, 0x74], .ptr none,
          .iface (some (attrValueDyn, .text [0x68, 0x69]))]])))),
      .ptr none]]]))

example :
    wdTop Gen.schema 64 Gen.requestMessageDyn
      (addAttributeMessage (Gen.schema.payloadDyn 0xD false)
        (Gen.schema.attrDyn [0x43, 0x6F, 0x6D, 0x6D, 0x65, 0x6E, 0x74])) = true ∧
    wdTop Gen.schema 64 Gen.requestMessageDyn
      (addAttributeMessage (Gen.schema.payloadDyn 0xD false) Gen.schema.valueDyn) = false ∧
    wdTop Gen.schema 64 Gen.requestMessageDyn
      (addAttributeMessage (Gen.schema.payloadDyn 0xA false)
        (Gen.schema.attrDyn [0x43, 0x6F, 0x6D, 0x6D, 0x65, 0x6E, 0x74])) = false := by decide +kernel

/-- a Get response announcing the unregistered object type `freshObject` is an error. -/
def getResponseId : Nat :=
  (Gen.schema.structs.findIdx? (fun d => d.custom == Cust.getResponse)).getD 0
def badObjectType : Bytes :=
  enc (.struct T.responsePayload [.enum T.objectType freshObject, .text T.uniqueIdentifier [0x31],
    .struct 0x42008F []])
example : (do
    let c ← Cur.start badObjectType
    decCustom Gen.schema 64 Cust.getResponse getResponseId T.responsePayload c none).isErr = true := by
  decide +kernel

/-- 6a/6b's hypothesis is satisfiable: a payload structure holding an Integer and a Text String is in range. -/
example : (Item.struct T.requestPayload [.int 0x420020 7, .text 0x420094 [0x31]]).InRange := by
  simp [Item.InRange, Item.AllInRange, inInt, enc, encList, hdr, padForLen, T.requestPayload]

end Kmip.C06
