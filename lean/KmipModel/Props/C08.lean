/-
  C08 — the server stays available whatever clients and handlers do.

  The statements are about the MODELLED state machine of one server connection (`Kmip.SrvConn`:
  the goroutines of `kmipserver/conn.go` and the connection loop of `server.go handleConn`, with a
  non-deterministic client, handler and server environment), for executions of ANY length and ANY
  interleaving of the modelled steps, and — by `isolation` — for any number of concurrent
  connections. The Go scheduler, sockets, timers and the actual reclamation of goroutines are not in
  the model: the harness engine `lts.srv` observes them on the real server and checks that what it
  observes is a behaviour of this model.

  Method: `Gen.certSrvConn` is the reachable set computed by the (untrusted) driver; the kernel
  checks that it contains the initial state, is closed under `step`, and contains no bad state
  (`Gen.certSrvConn_ok`, piecewise `decide +kernel`); `Lts.safe_of_cert` (proved once) turns that
  into a statement about every reachable state.
-/
import KmipModel.Model.SrvConn
import KmipModel.Model.Recover
import KmipModel.Gen.CertSrvConn
import KmipModel.Props.C09
import KmipModel.Lemmas.LtsLemmas
namespace Kmip.C08
open Kmip.Lts Kmip.SrvConn

/-! ### the certificate -/

theorem srvconn_cert :
    closedUnder (sys current) coding Gen.certSrvConn = true ∧
    safeOn coding Gen.certSrvConn (bad current) = true :=
  cert_of_ok (by decide +kernel) Gen.certSrvConn_ok

/-- the certificate contains the initial state and is closed under every step of the model. -/
theorem srvconn_closed : closedUnder (sys current) coding Gen.certSrvConn = true := srvconn_cert.1

/-- no reachable state of a connection is bad — any number of requests, any interleaving, any
    client, any handler outcomes, cancellation of the server's contexts at any time. -/
theorem srvconn_safe : ∀ s, Reachable (sys current) s → bad current s = false :=
  safe_of_cert srvconn_closed srvconn_cert.2

/-! ### the named consequences -/

/-- no Go run-time panic: no send on a closed channel, no close of a closed channel (tx, rx, the
    per-message error channel). -/
theorem no_crash : ∀ s, Reachable (sys current) s →
    s.fault ≠ .sendOnClosed ∧ s.fault ≠ .closeOfClosed := by
  intro s hr
  have h := (bad_parts (srvconn_safe s hr)).1
  cases hf : s.fault <;> simp [crashed, Fault.is, Fault.toNat, hf] at h ⊢

/-- keeps no goroutines, does not deadlock: when the client has gone or the connection context is
    cancelled and one of the three goroutines has not ended, some step of the server itself is
    enabled — with ONE exception, `waitsOnPipelined` (see `C08_full` below). -/
theorem no_stuck : ∀ s, Reachable (sys current) s → stuck current s = true →
    waitsOnPipelined s = true := by
  intro s hr hs
  have h := (bad_parts (srvconn_safe s hr)).2.1
  rw [hs] at h
  simpa using h

/-- once the connection context is cancelled (client gone and noticed, write failure, Shutdown's
    grace timer, …) there is no exception: the connection never gets stuck. -/
theorem no_stuck_after_cancel : ∀ s, Reachable (sys current) s → s.ctxDone = true →
    stuck current s = false := by
  intro s hr hc
  cases hs : stuck current s with
  | false => rfl
  | true =>
    have := no_stuck s hr hs
    simp [waitsOnPipelined, hc] at this

/-! ### … and the goroutines do END (termination, not only absence of deadlock)
  `no_stuck` alone would be satisfied by a connection that spins for ever. The steps of the server
  itself (everything except actions of the client and of the caller of Shutdown: `Ev.isEnv`) strictly
  decrease `SrvConn.rank` in every reachable state (checked by the kernel, state by state, as part of
  the certificate), so every run of such steps is finite — at most `rank s ≤ 275` steps — and where it
  stops `no_stuck` applies. What is NOT claimed: a bound in time (the Go scheduler is not modelled),
  nor termination while the environment keeps acting (a client that keeps sending is served for ever;
  the model also lets bytes "in flight" be read after the client has gone, a finite amount in
  reality). -/

/-- the successors by a step of the server itself. -/
def internal (s : State) : List State :=
  ((stepL current s).filter (fun e => !e.1.isEnv)).map (·.2)

theorem internal_subset_step (s t : State) (h : t ∈ internal s) : t ∈ (sys current).step s := by
  simp only [internal, List.mem_map, List.mem_filter] at h
  obtain ⟨e, ⟨he, _⟩, rfl⟩ := h
  exact List.mem_map.mpr ⟨e, he, rfl⟩

/-- every step of the server itself strictly decreases the rank. -/
theorem internal_step_decreases : ∀ s, Reachable (sys current) s → ∀ t ∈ internal s,
    rank t < rank s := by
  intro s hr t ht
  have h := (bad_parts (srvconn_safe s hr)).2.2.2.2.2.1
  simp only [internal, List.mem_map, List.mem_filter] at ht
  obtain ⟨e, ⟨he, henv⟩, rfl⟩ := ht
  have := List.all_eq_true.mp h e he
  cases hv : e.1.isEnv
  · simpa [hv, Nat.blt_eq] using this
  · simp [hv] at henv

theorem rank_le (s : State) : rank s ≤ 275 := by
  have hm : s.m.rank ≤ 109 := by cases s.m <;> decide
  have hr : s.r.rank ≤ 7 := by cases s.r <;> decide
  have hw : s.w.rank ≤ 109 := by cases s.w <;> decide
  have hc : (bif s.errClosed then 50 else 0) ≤ 50 := by cases s.errClosed <;> decide
  simp only [rank, Nat.add_eq]
  omega

/-- no infinite activity without input: a run of steps of the server itself from a reachable state
    has at most `rank s` (≤ 275) steps. -/
theorem internal_runs_bounded : ∀ s, Reachable (sys current) s → ∀ run, Run internal s run →
    run.length ≤ rank s ∧ rank s ≤ 275 := by
  intro s hr run hrun
  refine ⟨?_, rank_le s⟩
  exact run_length_le internal rank (Reachable (sys current))
    (fun a b ha hb => Reachable.step ha (internal_subset_step a b hb))
    (fun a b ha hb => internal_step_decreases a ha b hb) run s hr hrun

/-- where the server's own activity stops after the client has gone or the connection context is
    cancelled, all three goroutines HAVE ended — or it is the recorded exception. With
    `internal_runs_bounded`: a connection whose client has gone ends its goroutines within 275 steps
    of its own, unless the environment (more buffered input, Shutdown) acts in between, and except
    `waitsOnPipelined`. -/
theorem goroutines_end_after_disconnect : ∀ s, Reachable (sys current) s →
    (s.cliGone = true ∨ s.ctxDone = true) → internal s = [] →
    allEnded s = true ∨ waitsOnPipelined s = true := by
  intro s hr hg hq
  cases he : allEnded s with
  | true => exact Or.inl rfl
  | false =>
    refine Or.inr (no_stuck s hr ?_)
    have hp := bad_parts (srvconn_safe s hr)
    have hf : s.fault.is .none = true := by
      have h1 := hp.1
      have h3 := hp.2.2.1
      have h4 := hp.2.2.2.1
      have h5 := hp.2.2.2.2.1
      simp only [crashed, misordered, invalidBad, hookBad, Bool.or_eq_false_iff] at h1 h3 h4 h5
      cases hfl : s.fault <;> simp_all [Fault.is, Fault.toNat]
    have hall : (stepL current s).all (fun e => e.1.isEnv) = true := by
      rw [List.all_eq_true]
      intro e hmem
      cases hv : e.1.isEnv with
      | true => rfl
      | false =>
        have : e.2 ∈ internal s := by
          simp only [internal, List.mem_map, List.mem_filter]
          exact ⟨e, ⟨hmem, by simp [hv]⟩, rfl⟩
        rw [hq] at this
        cases this
    have hg' : (s.cliGone || s.ctxDone) = true := by
      rcases hg with h | h <;> simp [h]
    simp [stuck, hg', he, hf, hall]

/-- every response written is the answer to the oldest unanswered request (no overtaking, no
    duplicate, no response without request), and whenever the connection is live and idle every
    request read has been answered. -/
theorem answers_in_order : ∀ s, Reachable (sys current) s →
    s.fault ≠ .order ∧ (idleLive s = true → s.fl = .zero) := by
  intro s hr
  have h := (bad_parts (srvconn_safe s hr)).2.2.1
  simp only [misordered, Bool.or_eq_false_iff, Bool.and_eq_false_iff] at h
  constructor
  · intro hf; simp [Fault.is, Fault.toNat, hf] at h
  · intro hi
    rcases h.2 with h2 | h2
    · rw [hi] at h2; cases h2
    · cases hfl : s.fl <;> simp [Cnt.is, Cnt.toNat, hfl] at h2 ⊢

/-- … and requests ARE answered: whenever the server has nothing left to do by itself (`quiet`; reached
    within `rank` steps: `internal_runs_bounded`) on a connection that is live — client there,
    context not cancelled, not closed — either every decodable request read has been answered, or the
    writer is in `stream.Send` waiting for the client to take the response, or the handler is one
    that waits for the cancellation of its context. -/
theorem requests_are_answered : ∀ s, Reachable (sys current) s → quiet current s = true →
    s.cliGone = false → s.ctxDone = false → s.closed = false →
    s.fl = .zero ∨ s.w = .io ∨ s.m = .handleSlow := by
  intro s hr hq hg hc hcl
  have h := (bad_parts (srvconn_safe s hr)).2.2.2.2.2.2.1
  simp only [unansweredBad, hq, hg, hc, hcl, Bool.not_false, Bool.true_and, Bool.and_eq_false_iff,
    Bool.not_eq_false'] at h
  rcases h with (h | h) | h
  · left; cases hf : s.fl <;> simp [Cnt.is, Cnt.toNat, hf] at h ⊢
  · right; left; cases hw : s.w <;> simp [WPc.is, WPc.toNat, hw] at h ⊢
  · right; right; cases hm : s.m <;> simp [MPc.is, MPc.toNat, hm] at h ⊢

/-- likewise for a correctly framed message that cannot be decoded: once the owner has taken it, on a
    live and quiet connection the invalid-message response has been written or is in `stream.Send`
    waiting for the client to take it ("at least one"; "at most one" is the next theorem). -/
theorem invalid_message_is_answered : ∀ s, Reachable (sys current) s → quiet current s = true →
    s.cliGone = false → s.ctxDone = false → s.closed = false → s.invProd = true →
    s.invWr = true ∨ s.w = .io := by
  intro s hr hq hg hc hcl hp
  have h := (bad_parts (srvconn_safe s hr)).2.2.2.2.2.2.2
  simp only [invalidUnansweredBad, hq, hg, hc, hcl, hp, Bool.not_false, Bool.true_and,
    Bool.and_eq_false_iff, Bool.not_eq_false'] at h
  rcases h with h | h
  · left; exact h
  · right; cases hw : s.w <;> simp [WPc.is, WPc.toNat, hw] at h ⊢

/-- a correctly framed message that cannot be decoded is answered with at most ONE invalid-message
    response (written only after it was produced), and the connection serves nothing after it. -/
theorem invalid_message_answered_once : ∀ s, Reachable (sys current) s →
    s.fault ≠ .invalidTwice ∧ (s.invWr = true → s.invProd = true) ∧
    (s.invProd = true → s.m ≠ .handle ∧ s.m ≠ .handleSlow ∧ s.m ≠ .recvSel ∧ s.m ≠ .recvCheck) := by
  intro s hr
  have h := (bad_parts (srvconn_safe s hr)).2.2.2.1
  simp only [invalidBad, Bool.or_eq_false_iff, Bool.and_eq_false_iff] at h
  refine ⟨?_, ?_, ?_⟩
  · intro hf; simp [Fault.is, Fault.toNat, hf] at h
  · intro hw
    rcases h.1.2 with h2 | h2
    · rw [hw] at h2; cases h2
    · simpa using h2
  · intro hp
    rcases h.2 with h2 | h2
    · rw [hp] at h2; cases h2
    · cases hm : s.m <;> simp [MPc.is, MPc.toNat, hm] at h2 ⊢

/-- per connection: the terminate hook runs at most once, only after a successful connect hook,
    after the last handler; and exactly once when the owner goroutine has ended after a successful
    connect hook (never when the connect hook failed). -/
theorem conn_hooks_paired : ∀ s, Reachable (sys current) s →
    s.fault ≠ .hookTwice ∧ (s.termHook = true → s.hookOk = true) ∧
    (s.m = .ended → s.termHook = s.hookOk) ∧
    (s.termHook = true → s.m ≠ .hook ∧ s.m ≠ .handle ∧ s.m ≠ .handleSlow ∧ s.m ≠ .recvSel) := by
  intro s hr
  have h := (bad_parts (srvconn_safe s hr)).2.2.2.2.1
  simp only [hookBad, Bool.or_eq_false_iff, Bool.and_eq_false_iff] at h
  refine ⟨?_, ?_, ?_, ?_⟩
  · intro hf; simp [Fault.is, Fault.toNat, hf] at h
  · intro ht
    rcases h.1.1.2 with h2 | h2
    · rw [ht] at h2; cases h2
    · simpa using h2
  · intro hm
    rcases h.1.2 with h2 | h2
    · simp [MPc.is, MPc.toNat, hm] at h2
    · cases ht : s.termHook <;> cases hk : s.hookOk <;> simp [ht, hk] at h2 ⊢
  · intro ht
    rcases h.2 with h2 | h2
    · rw [ht] at h2; cases h2
    · cases hm : s.m <;> simp [MPc.is, MPc.toNat, hm] at h2 ⊢

/-- isolation / any number of connections, safety half: in the interleaved product of `n` connections
    (a step of the product is a step of ONE component and leaves the others untouched —
    `Lts.prodStep_isolated`), every component is a reachable state of the single-connection model,
    hence not bad. NOTE what this is: the product has no variable shared between connections BY
    CONSTRUCTION (the server and receive contexts reach each connection as its own environment
    events); the theorem transfers the per-connection results to any number of connections under
    that modelling assumption. That the real server shares nothing else that a connection can hold
    (a lock around the handler, a worker pool, the accept loop doing per-connection work) is checked
    on the real code by the `iso` and `tls` jobs of `lts.srv`, not proved. -/
theorem isolation (n : Nat) : ∀ ss, Reachable (prod (sys current) n) ss →
    ∀ s ∈ ss, bad current s = false :=
  prod_safe (sys current) n (bad current) srvconn_safe

/-- isolation, progress half: no connection can be BLOCKED by the others — whatever states the other
    connections are in (a handler that never returns, a client that does not read, goroutines kept
    by the open finding), every step a connection could take alone it can take in the product, and it
    changes nothing else. -/
theorem isolation_progress (n : Nat) (ss : List State) (i : Nat) (s t : State)
    (hi : ss[i]? = some s) (ht : t ∈ (sys current).step s) :
    setAt ss i t ∈ (prod (sys current) n).step ss :=
  setAt_mem_prodStep (sys current) ss i s t hi ht

/-- such a situation exists (two connections): the handler of connection 0 waits for a cancellation
    that nobody sends — its client is still there, its context is not cancelled: it will stay so for
    ever — while connection 1 has had its request answered. -/
theorem blocked_connection_and_served_neighbour :
    ∃ ss, Reachable (prod (sys current) 2) ss ∧
      (match ss with
       | [a, b] => a.m.is .handleSlow && !a.ctxDone && !a.cliGone && b.w.is .closeOk && b.fl.is .zero
       | _ => false) = true :=
  exists_reachable_of_follow (prod (sys current) 2)
    [0, 0, 1, 1, 0, 1, 4, 4, 5, 6, 4, 4, 4, 5, 4, 5] _ (by decide +kernel)

/-! ### the full statement is false of the current code: one exception -/

/-- the property at full strength: NEVER stuck. -/
def C08_full : Prop := ∀ s, Reachable (sys current) s → stuck current s = false

/-- … it does not hold. Connect hook ok; the client pipelines two requests; the handler of the first
    one waits for the cancellation of its context; the reader picks the second request up and
    blocks handing it over (the owner is busy); the client disconnects. Nobody is reading the
    stream any more, so nobody notices: handler, owner, reader and writer stay until the handler
    gives up by itself or the server context is cancelled (Shutdown's grace timer). -/
theorem pipelined_waiting_handler_keeps_goroutines :
    ∃ s, Reachable (sys current) s ∧ (stuck current s && waitsOnPipelined s) = true :=
  exists_reachable_of_follow (sys current) [0, 0, 1, 1, 0, 1, 0, 0, 0, 0] _ (by decide +kernel)

theorem C08_full_false : ¬ C08_full := by
  intro h
  obtain ⟨s, hr, hs⟩ := pipelined_waiting_handler_keeps_goroutines
  rw [h s hr] at hs
  cases hs

/-! ### the repaired defects, exhibited by the same model under the OLD parameters -/

/-- before d24e630 (`terminate` closed the tx channel): a send on the closed channel is reachable.
    The owner has loaded tx and is about to select; the client disconnects; the reader runs
    `terminate` (cancel, close(tx)); the owner's select picks the send case: panic. -/
theorem old_closesTx_crashes :
    ∃ s, Reachable (sys oldClosesTx) s ∧ (s.fault.is .sendOnClosed) = true :=
  exists_reachable_of_follow (sys oldClosesTx) [0, 0, 1, 2, 0, 0, 0, 0, 4, 3, 0, 0, 1, 0] _
    (by decide +kernel)

/-- before 4f747d8 (unbuffered per-message error channel): the writer, whose write failed, blocks
    forever sending the error to an owner that has already left through its cancelled context: the
    writer goroutine is kept (and the connection is never terminated by it). -/
theorem old_unbuffered_errch_leaks :
    ∃ s, Reachable (sys oldUnbuffered) s ∧
      (stuck oldUnbuffered s && !waitsOnPipelined s && s.w.is .errSend) = true :=
  exists_reachable_of_follow (sys oldUnbuffered)
    [0, 0, 1, 2, 0, 0, 0, 1, 0, 3, 0, 0, 0, 0, 0, 0, 0, 0, 0, 0] _ (by decide +kernel)

/-! ### handler outcomes, over the batch model (C09) -/

open Kmip.Batch in
/-- every outcome of an operation handler — success, typed error, plain error, panic with a typed
    error, panic with anything else — yields exactly one response item for its request item, a
    FAILED one unless the handler succeeded, and the loop goes on: every other item is still
    answered with its own result (corollary of `C09.one_item_per_request_item`,
    `C09.continue_semantics`, `C09.itemResult_failed`; under Stop the later items are answered
    "cancelled" instead: `C09.stop_semantics`). `Batch.execFull` is total: a handler panic is a
    value of the model (`Outcome.panicTyped/.panicOther`), recovered in `executeItem`. The outcome
    alphabet of the batch model contains only values the server can RENDER; for the others see
    `outcome_is_an_item` below. -/
theorem handler_outcome_is_an_item (srv : Srv) (req : Req) (h : Accepted srv req)
    (hns : req.opt ≠ optStop) (j : Nat) (it : Item) (hj : req.items[j]? = some it)
    (hd : dispatched srv it = true) :
    (execFull srv req).resp.items.length = req.items.length ∧
    (execFull srv req).resp.items[j]? = some (itemResult srv it) ∧
    (it.out ≠ .success → (itemResult srv it).failed = true) ∧
    (∀ k it', k ≠ j → req.items[k]? = some it' →
      (execFull srv req).resp.items[k]? = some (itemResult srv it')) := by
  have hc := (C09.continue_semantics srv req h hns).2
  refine ⟨C09.one_item_per_request_item srv req h, hc j it hj, ?_, fun k it' _ hk => hc k it' hk⟩
  intro hout
  rw [C09.itemResult_failed]
  simp only [dispatched, Bool.and_eq_true, bne_iff_ne, ne_eq] at hd
  exact Or.inr (Or.inl ⟨hd.2, hout⟩)

/-! ### handler outcomes whose RENDERING panics
  `handler_outcome_is_an_item` is about the outcome alphabet of the batch model — success, typed
  error, plain error, panic with a typed error, panic with anything else — all of which are values the
  server can render. The property says "panic with ANY value". `Kmip.Recover` models the step the
  batch model leaves out: rendering an error / a panic value runs its `Error`, `String`, `Unwrap`
  methods — user code — which may panic in turn (a typed nil returned as error is enough). Since
  06bba78 a recover around the whole of `executeItemWithMiddleware` fails the item; before, the
  process died. Exercised on the real server by `lts.srv` and `srv.http` (behaviours `pnilerr`,
  `rnilerr`, `pbadstringer`, `pbaderr`, `pbadunwrap`). -/

/-- the clause at full strength: every outcome of an operation handler becomes one response item. -/
def C08_outcomes_full (p : Recover.Params) : Prop :=
  ∀ o : Recover.Outcome, ∃ failed, Recover.run p o = .item failed

open Kmip.Recover in
/-- every outcome — including errors and panic values whose rendering panics — is answered with one
    item, failed unless the handler succeeded. -/
theorem outcome_is_an_item (o : Recover.Outcome) :
    Recover.run Recover.current o = .item (o != .ok) := by
  cases o with
  | ok => rfl
  | err r => cases r <;> rfl
  | panic r => cases r <;> rfl

theorem outcomes_become_items : C08_outcomes_full Recover.current :=
  fun o => ⟨_, outcome_is_an_item o⟩

open Kmip.Recover in
/-- before 06bba78: an error (or panic value) whose rendering panics killed the process. -/
theorem old_poisoned_outcome_killed_the_process :
    Recover.run Recover.beforeGuard (.err .panics) = .processDies ∧
    Recover.run Recover.beforeGuard (.panic .panics) = .processDies := ⟨rfl, rfl⟩

theorem old_outcomes_full_false : ¬ C08_outcomes_full Recover.beforeGuard := by
  intro h
  obtain ⟨f, hf⟩ := h (.err .panics)
  cases hf

/-! ### non-vacuity -/

/-- the model does serve: a response has just been written while the NEXT request, pipelined, is
    already held by the reader (so the order bookkeeping of `answers_in_order` is exercised), … -/
example : ∃ s, Reachable (sys current) s ∧ (s.w.is .closeOk && s.r.is .hand && s.fl.is .one) = true :=
  exists_reachable_of_follow (sys current) [0, 0, 1, 2, 0, 0, 0, 0, 0, 0, 0, 0] _ (by decide +kernel)

/-- … and so is a clean end of all three goroutines after an undecodable message was answered with
    the invalid-message response, the terminate hook having run. -/
example : ∃ s, Reachable (sys current) s ∧ (allEnded s && s.termHook && s.invWr) = true :=
  exists_reachable_of_follow (sys current)
    [0, 0, 1, 2, 0, 0, 0, 1, 0, 1, 1, 0, 0, 0, 0, 0, 0, 0, 0, 0] _ (by decide +kernel)

/-- a panicking handler among others (C09's sample batch): item 3 panics, item 4 is still answered. -/
example : (Kmip.Batch.execFull C09.srv0 C09.reqCont).resp.items.length = 5 := by decide

end Kmip.C08
