/-
  Certificate obligations, parts 24..31 of 64 of the `current` client system (kernel evaluation; 8 modules
  so that lake checks them in parallel; small parts keep the kernel's memory small).
  Assembled in `Lemmas/CliCert.lean`.
-/
import KmipModel.Model.CliConn
import KmipModel.Gen.CertCliConn
namespace Kmip.CliCert
open Kmip.CliLts Kmip.CliConn Kmip.Gen.CertCliConn

theorem cuClosed24 : partClosed (sys current) codec certCurrent cuP24 = true := by decide +kernel
theorem cuSafe24 : partSafe codec (badPartial current) cuP24 = true := by decide +kernel
theorem cuClosed25 : partClosed (sys current) codec certCurrent cuP25 = true := by decide +kernel
theorem cuSafe25 : partSafe codec (badPartial current) cuP25 = true := by decide +kernel
theorem cuClosed26 : partClosed (sys current) codec certCurrent cuP26 = true := by decide +kernel
theorem cuSafe26 : partSafe codec (badPartial current) cuP26 = true := by decide +kernel
theorem cuClosed27 : partClosed (sys current) codec certCurrent cuP27 = true := by decide +kernel
theorem cuSafe27 : partSafe codec (badPartial current) cuP27 = true := by decide +kernel
theorem cuClosed28 : partClosed (sys current) codec certCurrent cuP28 = true := by decide +kernel
theorem cuSafe28 : partSafe codec (badPartial current) cuP28 = true := by decide +kernel
theorem cuClosed29 : partClosed (sys current) codec certCurrent cuP29 = true := by decide +kernel
theorem cuSafe29 : partSafe codec (badPartial current) cuP29 = true := by decide +kernel
theorem cuClosed30 : partClosed (sys current) codec certCurrent cuP30 = true := by decide +kernel
theorem cuSafe30 : partSafe codec (badPartial current) cuP30 = true := by decide +kernel
theorem cuClosed31 : partClosed (sys current) codec certCurrent cuP31 = true := by decide +kernel
theorem cuSafe31 : partSafe codec (badPartial current) cuP31 = true := by decide +kernel

end Kmip.CliCert
