/-
  C15 — the ID placeholder is scoped to a single request.

  * `Batch.execFull` threads the placeholder exactly as `HandleRequest` does: created `""` by
    `newBatchContext`, accessed by the handlers, cleared by `handleBatchItemError`. `.obs` lists
    what the handlers read, as (item index, value).
  * `Batch.steps srv req` is the sequence of accesses to the holder this causes.
  * `Placeholder.runWorld` runs ANY merge of the step sequences of ANY number of requests over one
    heap of holders; `begin` (= `newBatchContext`) allocates a new holder.
  Values: `0` is the empty string.
-/
import KmipModel.Lemmas.BatchLemmas
namespace Kmip.C15
open Kmip.Batch Kmip.Placeholder

/-- 1. What the handlers of a request read is what its access sequence reads on a holder that is
    `""` when the request starts. -/
theorem obs_eq_solo (srv : Srv) (req : Req) :
    (execFull srv req).obs.map (·.2) = solo (steps srv req) := by
  by_cases h : Accepted srv req
  · rw [execFull_accepted srv req h]
    simp only [steps, h, if_true, solo]
    exact (loop_obs_ph srv _ req.items 0 false 0).1
  · rw [execFull_rejected srv req h]
    simp [steps, h, solo, handleMessageError, runActs, stepCell]

/-- 1'. The placeholder is empty at the start of every request: a read that is preceded, in its
    request, by no `Set` of a non-empty value observes `""` — whatever the request, and (by 4.)
    whatever other requests do before, meanwhile, or on the same connection. -/
theorem starts_empty (pre post : List PAct) (hpre : ∀ v, PAct.set v ∈ pre → v = 0) :
    solo (pre ++ .read :: post) = solo pre ++ 0 :: (runActs 0 post).2 := by
  have h0 : lastWrite 0 pre = 0 := by
    rw [← runActs_fst]
    induction pre with
    | nil => simp [runActs]
    | cons a as ih =>
      have ih' := ih (fun v hv => hpre v (by simp [hv]))
      cases a with
      | read => simpa [runActs, stepCell] using ih'
      | set w =>
        have : w = 0 := hpre w (by simp)
        subst this; simpa [runActs, stepCell] using ih'
      | clear => simpa [runActs, stepCell] using ih'
  simp only [solo, runActs_append, runActs_fst, h0, runActs, stepCell]
  simp

/-- 2. Item `j`, when its handler runs, observes exactly what its accesses observe on a cell
    holding `phBefore j`. -/
theorem item_observes (srv : Srv) (req : Req) (h : Accepted srv req) (j : Nat) (it : Item)
    (hget : req.items[j]? = some it) (hcall : j ∈ (execFull srv req).calls) :
    obsOfItem j (execFull srv req).obs = (runActs (phBefore srv req j) it.acts).2 := by
  rw [execFull_accepted srv req h] at hcall ⊢
  simp only at hcall ⊢
  rw [loop_mem_calls] at hcall
  obtain ⟨j', it', hj, hget', hd, hns⟩ := hcall
  have : j' = j := by omega
  subst this
  rw [hget] at hget'; cases hget'
  have := loop_obs_item srv (req.opt == optStop) req.items 0 false 0 j' it hget
  rw [Nat.zero_add] at this
  rw [this, hns]
  simp only [Bool.false_eq_true, if_false, phBefore, itemSteps, hd, if_true]
  split
  · rw [runActs_clear]
  · simp

/-- 3a. `phBefore` at the first item: empty. -/
theorem phBefore_zero (srv : Srv) (req : Req) : phBefore srv req 0 = 0 := by
  simp [phBefore, loopSteps, lastWrite, writes]

/-- 3b. `phBefore` after item `j` (when the batch has not stopped before `j`): empty if item `j`
    fails (handler error, panic, or refusal); otherwise the last value its handler wrote, or what
    it found when it wrote nothing (or was the built-in DiscoverVersions). So a value set by an
    item is what the following items find, until an item overwrites it or fails. -/
theorem phBefore_succ (srv : Srv) (req : Req) (j : Nat) (it : Item)
    (hget : req.items[j]? = some it)
    (hns : stoppedAt srv (req.opt == optStop) false req.items j = false) :
    phBefore srv req (j + 1) =
      if fails srv it then 0
      else if dispatched srv it then lastWrite (phBefore srv req j) it.acts
      else phBefore srv req j := by
  simp only [phBefore]
  rw [loopSteps_take_succ srv _ req.items false j it hget, hns, lastWrite_append]
  simp only [Bool.false_eq_true, if_false, itemSteps]
  by_cases hf : fails srv it = true
  · simp only [hf, if_true]
    rw [lastWrite_append]
    simp [lastWrite, writes]
  · simp only [hf, if_false, Bool.false_eq_true, List.append_nil]
    by_cases hd : dispatched srv it = true
    · simp [hd]
    · simp [hd, lastWrite, writes]

/-- 3c. In particular: item `j` succeeds and the last thing its handler wrote is `v`; then the
    handler of item `j+1` runs on a placeholder holding `v` — a single read observes `[v]`. -/
theorem set_then_observe (srv : Srv) (req : Req) (h : Accepted srv req) (j : Nat) (a b : Item)
    (v : Val) (ha : req.items[j]? = some a) (hb : req.items[j + 1]? = some b)
    (hca : j ∈ (execFull srv req).calls) (hcb : j + 1 ∈ (execFull srv req).calls)
    (hok : fails srv a = false) (hv : (writes a.acts).getLast? = some v) :
    obsOfItem (j + 1) (execFull srv req).obs = (runActs v b.acts).2 := by
  rw [item_observes srv req h (j + 1) b hb hcb]
  have hcall := hca
  rw [execFull_accepted srv req h, loop_mem_calls] at hcall
  obtain ⟨j', it', hj, hget', hd, hns⟩ := hcall
  have : j' = j := by omega
  subst this
  rw [ha] at hget'; cases hget'
  rw [phBefore_succ srv req j' a ha hns]
  simp [hok, hd, lastWrite, hv]

/-- 3d. … and when item `j` fails, the handler of item `j+1` (if it runs at all) finds `""`. -/
theorem failure_then_observe (srv : Srv) (req : Req) (h : Accepted srv req) (j : Nat) (a b : Item)
    (ha : req.items[j]? = some a) (hb : req.items[j + 1]? = some b)
    (hcb : j + 1 ∈ (execFull srv req).calls) (hfail : fails srv a = true) :
    obsOfItem (j + 1) (execFull srv req).obs = (runActs 0 b.acts).2 := by
  rw [item_observes srv req h (j + 1) b hb hcb]
  have hcall := hcb
  rw [execFull_accepted srv req h, loop_mem_calls] at hcall
  obtain ⟨j', it', hj, hget', hd, hns⟩ := hcall
  have : j' = j + 1 := by omega
  subst this
  have hns' : stoppedAt srv (req.opt == optStop) false req.items j = false := by
    cases hs : stoppedAt srv (req.opt == optStop) false req.items j with
    | false => rfl
    | true =>
      simp only [stoppedAt, Bool.false_or, Bool.and_eq_true] at hs hns
      obtain ⟨h1, h2⟩ := hs
      rw [any_take_iff] at h2
      obtain ⟨k, it, hk, hg, hp⟩ := h2
      have : (req.items.take (j + 1)).any (fails srv) = true :=
        (any_take_iff _ _ _).2 ⟨k, it, by omega, hg, hp⟩
      simp [h1, this] at hns
  rw [phBefore_succ srv req j a ha hns']
  simp [hfail]

/-- 4. NONINTERFERENCE. Any number of requests, each an arbitrary access sequence preceded by the
    creation of its batch context; ANY interleaving `sched` of their steps over one heap: request
    `i` observes exactly what it observes alone. -/
theorem noninterference_steps (progs : List (List PAct)) (sched : List (Nat × GStep))
    (h : Interleaving (progs.map prog) sched) (i : Nat) (hi : i < progs.length) :
    obsOf i (runWorld World.init sched).2 = (solo progs[i]).map Obs.val := by
  apply runWorld_fresh sched World.init i progs[i] Inv_init rfl
  rw [proj_of_interleaving h i]
  simp [hi]

/-- 4'. The same for requests processed by the batch executor: under any interleaving, the handlers
    of request `i` read exactly what `execFull` says they read when the request is alone. -/
theorem noninterference (reqs : List (Srv × Req)) (sched : List (Nat × GStep))
    (h : Interleaving (reqs.map fun p => prog (steps p.1 p.2)) sched) (i : Nat)
    (hi : i < reqs.length) :
    obsOf i (runWorld World.init sched).2 =
      ((execFull reqs[i].1 reqs[i].2).obs.map (·.2)).map Obs.val := by
  have h' : Interleaving ((reqs.map fun p => steps p.1 p.2).map prog) sched := by
    simpa [List.map_map, Function.comp_def] using h
  have := noninterference_steps (reqs.map fun p => steps p.1 p.2) sched h' i (by simpa using hi)
  rw [this, obs_eq_solo]
  simp

/-- 5. Requests one after the other (one connection, or several) are a particular interleaving. -/
theorem sequential (reqs : List (Srv × Req)) (i : Nat) (hi : i < reqs.length) :
    obsOf i (runWorld World.init (seqSched 0 (reqs.map fun p => prog (steps p.1 p.2)))).2 =
      ((execFull reqs[i].1 reqs[i].2).obs.map (·.2)).map Obs.val :=
  noninterference reqs _ (by simpa using seqSched_interleaving _ [] (by simp)) i hi

/-- 6. Never a foreign value: under any interleaving, whatever request `i` observes is `""` or a
    value that request `i` itself stored. -/
theorem never_foreign (progs : List (List PAct)) (sched : List (Nat × GStep))
    (h : Interleaving (progs.map prog) sched) (i : Nat) (hi : i < progs.length) (o : Obs)
    (ho : o ∈ obsOf i (runWorld World.init sched).2) :
    ∃ v, o = .val v ∧ (v = 0 ∨ PAct.set v ∈ progs[i]) := by
  rw [noninterference_steps progs sched h i hi] at ho
  simp only [List.mem_map] at ho
  obtain ⟨v, hv, rfl⟩ := ho
  refine ⟨v, rfl, ?_⟩
  rcases runActs_obs_origin 0 progs[i] v hv with h | h | h
  · exact Or.inl h
  · exact Or.inl h
  · exact Or.inr h

/-! ### non-vacuity -/

def srv0 : Srv := { supported := [], routes := [1] }

def mk (acts : List PAct) (out : Outcome) : Item :=
  { op := 1, id := none, ext := none, discover := false, acts := acts, out := out }

/-- sets 5, reads it in the next item, fails after setting 6, reads again. -/
def itemsA : List Item :=
  [mk [.set 5] .success, mk [.read] .success, mk [.set 6] .plainErr, mk [.read] .success]
def reqA : Req := { ver := (1, 4), opt := 0, count := 4, items := itemsA }

/-- reads, sets 9, reads. -/
def reqB : Req :=
  { ver := (1, 4), opt := 0, count := 1, items := [mk [.read, .set 9, .read] .success] }

example : Accepted srv0 reqA ∧ (execFull srv0 reqA).calls = [0, 1, 2, 3] ∧
    (execFull srv0 reqA).obs = [(1, 5), (3, 0)] := by decide

example : steps srv0 reqA = [.set 5, .read, .set 6, .clear, .read] := by decide

/-- hypotheses of `set_then_observe` (j = 0) and `failure_then_observe` (j = 2) are satisfiable. -/
example : fails srv0 (mk [.set 5] .success) = false ∧
    (writes (mk [.set 5] .success).acts).getLast? = some 5 ∧
    fails srv0 (mk [.set 6] .plainErr) = true := by decide

/-- a genuine interleaving of the two requests (B moves between the items of A), and what each
    observes in it. -/
def sched0 : List (Nat × GStep) :=
  mergeBy [0, 0, 1, 1, 0, 1, 0, 0, 1, 0] [prog (steps srv0 reqA), prog (steps srv0 reqB)]

example : Interleaving ([(srv0, reqA), (srv0, reqB)].map fun p => prog (steps p.1 p.2)) sched0 :=
  mergeBy_interleaving _ _

example : sched0 = [(0, .begin), (0, .act (.set 5)), (1, .begin), (1, .act .read),
    (0, .act .read), (1, .act (.set 9)), (0, .act (.set 6)), (0, .act .clear), (1, .act .read),
    (0, .act .read)] := by decide

example : obsOf 0 (runWorld World.init sched0).2 = [.val 5, .val 0] ∧
    obsOf 1 (runWorld World.init sched0).2 = [.val 0, .val 9] := by decide

end Kmip.C15
