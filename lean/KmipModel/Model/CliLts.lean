/-
  Transition systems with kernel-checked inductive-invariant certificates (client side; core only).

  A system is an initial state and a finite-branching successor function. A *certificate* is a set `R`
  of state codes (`Nat`), given as a binary search tree. The untrusted driver computes the reachable
  set by BFS and prints it; the kernel re-checks, by evaluation (`decide +kernel`), that
    * the code of the initial state is in `R`,
    * for every code `c` in `R`, every successor of `decode c` has its code in `R`,
    * every state `t` met this way satisfies `decode (code t) = t` (so no property of the codec has to
      be proved by hand: the round trip is checked on exactly the states that matter).
  `cert_sound` then gives, by induction over `Reachable` (any number of steps, any interleaving of
  the modelled steps): every reachable state is `decode c` for some `c ∈ R`; and `safe_of_cert`: a
  boolean predicate that is false on every `decode c`, `c ∈ R`, is false on every reachable state.

  This file is deliberately self-contained (the server side has its own copy of these ~100 lines).
-/
namespace Kmip.CliLts

structure Sys (σ : Type) where
  init : σ
  step : σ → List σ

inductive Reachable {σ : Type} (S : Sys σ) : σ → Prop where
  | init : Reachable S S.init
  | step {s t : σ} : Reachable S s → t ∈ S.step s → Reachable S t

/-- a set of state codes as a binary search tree. The emitted certificates split it into
    sub-definitions of at most 63 nodes each (large literals do not elaborate). -/
inductive Tree where
  | leaf
  | node (l : Tree) (k : Nat) (r : Tree)

/-- search-tree membership (structural recursion; reduces in the kernel). No ordering invariant is
    needed for soundness: `mem` only ever answers `true` on a key that is in the tree. -/
def Tree.mem : Tree → Nat → Bool
  | .leaf, _ => false
  | .node l k r, x => if x < k then l.mem x else if k < x then r.mem x else true

def Tree.all (p : Nat → Bool) : Tree → Bool
  | .leaf => true
  | .node l k r => l.all p && (p k && r.all p)

def Tree.size : Tree → Nat
  | .leaf => 0
  | .node l _ r => l.size + 1 + r.size

theorem Tree.all_mem {p : Nat → Bool} : ∀ {t : Tree} {x : Nat},
    t.all p = true → t.mem x = true → p x = true
  | .leaf, _, _, hm => by simp [Tree.mem] at hm
  | .node l k r, x, ha, hm => by
    simp only [Tree.all, Bool.and_eq_true] at ha
    unfold Tree.mem at hm
    by_cases h1 : x < k
    · rw [if_pos h1] at hm; exact Tree.all_mem ha.1 hm
    · rw [if_neg h1] at hm
      by_cases h2 : k < x
      · rw [if_pos h2] at hm; exact Tree.all_mem ha.2.2 hm
      · have : x = k := by omega
        rw [this]; exact ha.2.1

/-- states packed into `Nat` codes. Nothing is assumed about the pair: see `okCode`. -/
structure Codec (σ : Type) where
  code : σ → Nat
  decode : Nat → σ

variable {σ : Type} [DecidableEq σ]

/-- the code of `t` is in the certificate and decodes back to `t`. -/
def okCode (C : Codec σ) (R : Tree) (t : σ) : Bool :=
  R.mem (C.code t) && decide (C.decode (C.code t) = t)

/-- the certificate contains the initial state and is closed under the successor function. -/
def closedUnder (S : Sys σ) (C : Codec σ) (R : Tree) : Bool :=
  okCode C R S.init && R.all fun c => (S.step (C.decode c)).all (okCode C R)

/-- `bad` is false on every state of the certificate. -/
def safeOn (C : Codec σ) (bad : σ → Bool) (R : Tree) : Bool :=
  R.all fun c => !bad (C.decode c)

theorem cert_sound {S : Sys σ} {C : Codec σ} {R : Tree} (h : closedUnder S C R = true)
    {s : σ} (hs : Reachable S s) : R.mem (C.code s) = true ∧ C.decode (C.code s) = s := by
  simp only [closedUnder, Bool.and_eq_true] at h
  induction hs with
  | init =>
    have := h.1
    simp only [okCode, Bool.and_eq_true, decide_eq_true_eq] at this
    exact this
  | step _ ht ih =>
    have h2 := Tree.all_mem h.2 ih.1
    rw [ih.2, List.all_eq_true] at h2
    have := h2 _ ht
    simp only [okCode, Bool.and_eq_true, decide_eq_true_eq] at this
    exact this

theorem safe_of_cert {S : Sys σ} {C : Codec σ} {R : Tree} {bad : σ → Bool}
    (h : closedUnder S C R = true) (hb : safeOn C bad R = true)
    {s : σ} (hs : Reachable S s) : bad s = false := by
  have ⟨hm, hd⟩ := cert_sound h hs
  have := Tree.all_mem hb hm
  rw [hd] at this
  simpa using this

/-! ### concrete traces (witnesses that a state IS reachable) -/

/-- follow a list of successor indices. -/
def runTrace (S : Sys σ) : List Nat → σ → Option σ
  | [], s => some s
  | i :: rest, s =>
    match (S.step s)[i]? with
    | some t => runTrace S rest t
    | none => none

omit [DecidableEq σ] in
theorem reachable_of_runTrace {S : Sys σ} : ∀ (tr : List Nat) {s t : σ},
    Reachable S s → runTrace S tr s = some t → Reachable S t
  | [], _, _, hs, h => by
    simp only [runTrace, Option.some.injEq] at h
    exact h ▸ hs
  | i :: rest, s, t, hs, h => by
    unfold runTrace at h
    cases hi : (S.step s)[i]? with
    | none => rw [hi] at h; cases h
    | some u =>
      rw [hi] at h
      exact reachable_of_runTrace rest (Reachable.step hs (List.mem_of_getElem? hi)) h

omit [DecidableEq σ] in
theorem reachable_of_trace {S : Sys σ} (tr : List Nat) {t : σ}
    (h : runTrace S tr S.init = some t) : Reachable S t :=
  reachable_of_runTrace tr Reachable.init h

end Kmip.CliLts
