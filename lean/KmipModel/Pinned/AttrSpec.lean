/-
  PINNED table for property C06: the value type the KMIP 1.4 specification (section 3, "Attributes") gives to
  each standard attribute. TRUSTED, HAND-MAINTAINED DATA — no check ever regenerates it.
  `Kmip.C06.gen_attrs_match_spec` compares the value types the library registers for the attribute names
  (`attrTypes`, regenerated into KmipModel.Gen.Schema on every run) with it, row for row and in both directions.

  A row is (attribute name, TTLV item type, reference tag):
    * the name is the byte string of the attribute name packed as `packName` does (a leading 1, then the bytes,
      base 256) — the comment gives it in clear;
    * the item type is the TTLV type code of the attribute VALUE: 1 Structure, 2 Integer, 3 Long Integer,
      4 Big Integer, 5 Enumeration, 6 Boolean, 7 Text String, 8 Byte String, 9 Date-Time, 10 Interval;
    * the reference tag names WHICH structure / enumeration / bit mask it is, by the KMIP tag of that structure
      or enumeration (tags.go, pinned separately by C17's registry pin); 0 for the plain types.
  Custom attributes (section 3.39: names starting with `x-` / `y-`) may hold any type and are not rows.

  How it was produced: written by hand from the attribute tables of KMIP 1.4 section 3.1 – 3.51 ("Object",
  "Encoding" columns), one row per section; the packed names were computed mechanically from the clear names.
  SINGLE SOURCE: the Go harness does not carry a copy; its `dispatch` engine asks the compiled model for the
  table (driver command `c06.attrspec`, lean/Driver/Plan.lean).
-/
namespace Kmip.Pinned

def attrSpecChunk0 : List (Nat × Nat × Nat) := [
  (0x1556E69717565204964656E746966696572, 7, 0) /- 3.1 Unique Identifier : Text String -/,
  (0x14E616D65, 1, 0x420053) /- 3.2 Name : Structure Name -/,
  (0x14F626A6563742054797065, 5, 0x420057) /- 3.3 Object Type : Enumeration Object Type -/,
  (0x143727970746F6772617068696320416C676F726974686D, 5, 0x420028) /- 3.4 Cryptographic Algorithm : Enumeration Cryptographic Algorithm -/,
  (0x143727970746F67726170686963204C656E677468, 2, 0) /- 3.5 Cryptographic Length : Integer -/,
  (0x143727970746F6772617068696320506172616D6574657273, 1, 0x42002B) /- 3.6 Cryptographic Parameters : Structure Cryptographic Parameters -/,
  (0x143727970746F6772617068696320446F6D61696E20506172616D6574657273, 1, 0x420029) /- 3.7 Cryptographic Domain Parameters : Structure Cryptographic Domain Parameters -/,
  (0x143657274696669636174652054797065, 5, 0x42001D) /- 3.8 Certificate Type : Enumeration Certificate Type -/,
  (0x14365727469666963617465204C656E677468, 2, 0) /- 3.9 Certificate Length : Integer -/,
  (0x1582E353039204365727469666963617465204964656E746966696572, 1, 0x4200B5) /- 3.10 X.509 Certificate Identifier : Structure X.509 Certificate Identifier -/,
  (0x1582E353039204365727469666963617465205375626A656374, 1, 0x4200B7) /- 3.11 X.509 Certificate Subject : Structure X.509 Certificate Subject -/,
  (0x1582E35303920436572746966696361746520497373756572, 1, 0x4200B6) /- 3.12 X.509 Certificate Issuer : Structure X.509 Certificate Issuer -/,
  (0x14365727469666963617465204964656E746966696572, 1, 0x420014) /- 3.13 Certificate Identifier : Structure Certificate Identifier -/,
  (0x14365727469666963617465205375626A656374, 1, 0x42001A) /- 3.14 Certificate Subject : Structure Certificate Subject -/,
  (0x1436572746966696361746520497373756572, 1, 0x420015) /- 3.15 Certificate Issuer : Structure Certificate Issuer -/,
  (0x14469676974616C205369676E617475726520416C676F726974686D, 5, 0x4200AE) /- 3.16 Digital Signature Algorithm : Enumeration Digital Signature Algorithm -/,
  (0x1446967657374, 1, 0x420034) /- 3.17 Digest : Structure Digest -/,
  (0x14F7065726174696F6E20506F6C696379204E616D65, 7, 0) /- 3.18 Operation Policy Name : Text String -/,
  (0x143727970746F67726170686963205573616765204D61736B, 2, 0x42002C) /- 3.19 Cryptographic Usage Mask : Integer Cryptographic Usage Mask (bit mask) -/,
  (0x14C656173652054696D65, 10, 0) /- 3.20 Lease Time : Interval -/,
  (0x15573616765204C696D697473, 1, 0x420095) /- 3.21 Usage Limits : Structure Usage Limits -/,
  (0x15374617465, 5, 0x42008D) /- 3.22 State : Enumeration State -/,
  (0x1496E697469616C2044617465, 9, 0) /- 3.23 Initial Date : Date-Time -/,
  (0x141637469766174696F6E2044617465, 9, 0) /- 3.24 Activation Date : Date-Time -/,
  (0x150726F636573732053746172742044617465, 9, 0) /- 3.25 Process Start Date : Date-Time -/
]

def attrSpecChunk1 : List (Nat × Nat × Nat) := [
  (0x150726F746563742053746F702044617465, 9, 0) /- 3.26 Protect Stop Date : Date-Time -/,
  (0x1446561637469766174696F6E2044617465, 9, 0) /- 3.27 Deactivation Date : Date-Time -/,
  (0x144657374726F792044617465, 9, 0) /- 3.28 Destroy Date : Date-Time -/,
  (0x1436F6D70726F6D697365204F6363757272656E63652044617465, 9, 0) /- 3.29 Compromise Occurrence Date : Date-Time -/,
  (0x1436F6D70726F6D6973652044617465, 9, 0) /- 3.30 Compromise Date : Date-Time -/,
  (0x15265766F636174696F6E20526561736F6E, 1, 0x420081) /- 3.31 Revocation Reason : Structure Revocation Reason -/,
  (0x1417263686976652044617465, 9, 0) /- 3.32 Archive Date : Date-Time -/,
  (0x14F626A6563742047726F7570, 7, 0) /- 3.33 Object Group : Text String -/,
  (0x14672657368, 6, 0) /- 3.34 Fresh : Boolean -/,
  (0x14C696E6B, 1, 0x42004A) /- 3.35 Link : Structure Link -/,
  (0x14170706C69636174696F6E20537065636966696320496E666F726D6174696F6E, 1, 0x420004) /- 3.36 Application Specific Information : Structure Application Specific Information -/,
  (0x1436F6E7461637420496E666F726D6174696F6E, 7, 0) /- 3.37 Contact Information : Text String -/,
  (0x14C617374204368616E67652044617465, 9, 0) /- 3.38 Last Change Date : Date-Time -/,
  (0x1416C7465726E6174697665204E616D65, 1, 0x4200BF) /- 3.40 Alternative Name : Structure Alternative Name -/,
  (0x14B65792056616C75652050726573656E74, 6, 0) /- 3.41 Key Value Present : Boolean -/,
  (0x14B65792056616C7565204C6F636174696F6E, 1, 0x4200B8) /- 3.42 Key Value Location : Structure Key Value Location -/,
  (0x14F726967696E616C204372656174696F6E2044617465, 9, 0) /- 3.43 Original Creation Date : Date-Time -/,
  (0x152616E646F6D204E756D6265722047656E657261746F72, 1, 0x4200D9) /- 3.44 Random Number Generator : Structure RNG Parameters -/,
  (0x1504B435323313220467269656E646C79204E616D65, 7, 0) /- 3.45 PKCS#12 Friendly Name : Text String -/,
  (0x14465736372697074696F6E, 7, 0) /- 3.46 Description : Text String -/,
  (0x1436F6D6D656E74, 7, 0) /- 3.47 Comment : Text String -/,
  (0x153656E736974697665, 6, 0) /- 3.48 Sensitive : Boolean -/,
  (0x1416C776179732053656E736974697665, 6, 0) /- 3.49 Always Sensitive : Boolean -/,
  (0x14578747261637461626C65, 6, 0) /- 3.50 Extractable : Boolean -/,
  (0x14E65766572204578747261637461626C65, 6, 0) /- 3.51 Never Extractable : Boolean -/
]

/-- (packed attribute name, TTLV type of the value, tag of the structure / enumeration / mask or 0). -/
def attrSpec : List (Nat × Nat × Nat) := attrSpecChunk0 ++ attrSpecChunk1

end Kmip.Pinned
