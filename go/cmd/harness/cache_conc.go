package main

// Engine `cache`, part 3 — concurrent COLD first use, many times per process (property C20).
//
// A process builds the plan of a Go type once, so a child process of the scenarios in cache.go exercises the
// contended first use of each library type once. Here a child manufactures FRESH types with reflect.StructOf
// (unique field names per round: the plan caches have never seen them; nested fresh struct types, pointers and
// slices of them, so that building one plan fetches others) and, for every round, releases K goroutines together
// (spin barrier) that encode and decode values of the new type — and of its nested types directly — for the
// first time. Each round is one cold, contended `encodeFuncFor` / `decodeFuncFor`: hundreds per child, also
// under the race detector, with GOMAXPROCS varied.
//
// Oracles (impl-side, no model): the binary encoding equals the one computed by the harness's independent TTLV
// writer from the value's description; decoding it gives back the value (reflect.DeepEqual) and re-encodes to
// the same bytes; XML / JSON encodings agree between goroutines and with a sequential re-run once the plans are
// warm; nothing panics; the race detector stays silent.
//
// Runtime registration (`register` mode, race build only, INFORMATION not a violation): ttlv.RegisterTag &c. are
// exported and write plain maps; C20 speaks about encode / decode calls, registration is expected to happen
// before (init). The mode calls RegisterTag for new extension tags while the codec runs and records what the
// race detector says (`cache.register-concurrent.*`).

import (
	"bytes"
	"encoding/hex"
	"fmt"
	"math/big"
	"reflect"
	"runtime"
	"strings"
	"sync"
	"sync/atomic"
	"time"

	kmip "github.com/ovh/kmip-go"
	"github.com/ovh/kmip-go/payloads"
	"github.com/ovh/kmip-go/ttlv"

	"verifharness/internal/rng"
	"verifharness/internal/tree"
)

type cacheFreshSpec struct {
	Rounds   int    `json:"rounds"`
	K        int    `json:"k"`
	Procs    int    `json:"procs"`
	Seed     uint64 `json:"seed"`
	Register bool   `json:"register"`
}

type freshDesc struct {
	kind   string // i32 i64 bool str bytes dur struct ptr slice strs
	tag    int
	fields []*freshDesc // struct
	elem   *freshDesc   // ptr / slice: a struct description
	ty     reflect.Type
	// omitempty: the field is tagged `,omitempty`: its zero value is not encoded
	omitempty bool
}

var freshUniq atomic.Int64

const freshTopTag = 0x540000

func freshGenStruct(r *rng.R, depth int) *freshDesc {
	n := 1 + r.Intn(5)
	d := &freshDesc{kind: "struct"}
	uniq := freshUniq.Add(1)
	var sf []reflect.StructField
	for i := 0; i < n; i++ {
		f := &freshDesc{tag: 0x540100 + i*16 + r.Intn(16)} // distinct within the structure
		k := r.Intn(13)
		if depth >= 3 && k >= 10 {
			k = r.Intn(10)
		}
		if k < 10 && r.Chance(1, 3) {
			// the leaf plans the kinds above do not reach (big integers by value and by pointer, date-times, the
			// narrow and unsigned integer kinds): a plan closure that keeps state between calls is racy whatever
			// the leaf type, so every leaf builder of encodeFunc / decodeFunc gets its contended cold rounds
			k = 20 + r.Intn(8)
		}
		switch k {
		case 20:
			f.kind, f.ty = "big", reflect.TypeFor[big.Int]()
		case 21:
			f.kind, f.ty = "bigp", reflect.TypeFor[*big.Int]()
		case 22:
			f.kind, f.ty = "time", reflect.TypeFor[time.Time]()
		case 23:
			f.kind, f.ty = "u8", reflect.TypeFor[uint8]()
		case 24:
			f.kind, f.ty = "u16", reflect.TypeFor[uint16]()
		case 25:
			f.kind, f.ty = "u32", reflect.TypeFor[uint32]()
		case 26:
			f.kind, f.ty = "i8", reflect.TypeFor[int8]()
		case 27:
			f.kind, f.ty = "i16", reflect.TypeFor[int16]()
		case 0:
			f.kind, f.ty = "i32", reflect.TypeFor[int32]()
		case 1:
			f.kind, f.ty = "i64", reflect.TypeFor[int64]()
		case 2:
			f.kind, f.ty = "bool", reflect.TypeFor[bool]()
		case 3:
			f.kind, f.ty = "str", reflect.TypeFor[string]()
		case 4:
			f.kind, f.ty = "bytes", reflect.TypeFor[[]byte]()
		case 5:
			f.kind, f.ty = "dur", reflect.TypeFor[time.Duration]()
		case 6:
			f.kind, f.ty = "strs", reflect.TypeFor[[]string]()
		case 7:
			// library enumeration / mask types: plans that consult the init-time registries when they are built
			f.kind, f.ty = "enum", []reflect.Type{reflect.TypeFor[kmip.ObjectType](), reflect.TypeFor[kmip.CryptographicAlgorithm](), reflect.TypeFor[kmip.State](), reflect.TypeFor[kmip.Operation]()}[r.Intn(4)]
		case 8:
			f.kind, f.ty = "mask", reflect.TypeFor[kmip.CryptographicUsageMask]()
		case 9:
			f.kind, f.ty = "i32", reflect.TypeFor[int32]()
		case 10:
			s := freshGenStruct(r, depth+1)
			f.kind, f.fields, f.ty = "struct", s.fields, s.ty
		case 11:
			s := freshGenStruct(r, depth+1)
			f.kind, f.elem, f.ty = "ptr", s, reflect.PointerTo(s.ty)
		default:
			s := freshGenStruct(r, depth+1)
			f.kind, f.elem, f.ty = "slice", s, reflect.SliceOf(s.ty)
		}
		// the field wrappers of buildStructEncodeFunc / buidStructDecodeFunc: omitempty on scalar kinds (a zero value
		// is then absent from the encoding and decodes to zero), a version range (no version is set on these
		// encoders, so the field is always present: the wrapper closure runs, the result is unchanged)
		opts := ""
		switch f.kind {
		case "i32", "i64", "bool", "str", "dur", "enum", "mask", "u8", "u16", "u32", "i8", "i16":
			if r.Chance(1, 4) {
				f.omitempty = true
				opts += ",omitempty"
			}
		}
		if r.Chance(1, 5) {
			opts += []string{",version=v1.1..", ",version=..v9.9", ",version=v1.0..v9.9"}[r.Intn(3)]
		}
		d.fields = append(d.fields, f)
		sf = append(sf, reflect.StructField{
			Name: fmt.Sprintf("F%dx%d", uniq, i),
			Type: f.ty,
			Tag:  reflect.StructTag(fmt.Sprintf(`ttlv:"0x%06X%s"`, f.tag, opts)),
		})
	}
	d.ty = reflect.StructOf(sf)
	return d
}

// freshValue fills v (of type d.ty) and returns the items it is encoded to under tag d.tag.
func freshValue(r *rng.R, d *freshDesc, tag int, v reflect.Value) []*tree.Item {
	its := freshValue1(r, d, tag, v)
	if d.omitempty && v.IsZero() {
		return nil
	}
	return its
}

func freshBig(r *rng.R) *big.Int {
	b := new(big.Int).SetBytes(r.Bytes(1 + r.Intn(40)))
	if b.Sign() == 0 {
		b.SetInt64(1)
	}
	if r.Chance(1, 4) {
		b.Neg(b)
	}
	return b
}

func freshValue1(r *rng.R, d *freshDesc, tag int, v reflect.Value) []*tree.Item {
	switch d.kind {
	case "big":
		b := freshBig(r)
		v.Set(reflect.ValueOf(*b))
		return []*tree.Item{{Kind: tree.KBig, Tag: tag, Big: new(big.Int).Set(b)}}
	case "bigp":
		if r.Chance(1, 5) {
			return nil
		}
		b := freshBig(r)
		v.Set(reflect.ValueOf(b))
		return []*tree.Item{{Kind: tree.KBig, Tag: tag, Big: new(big.Int).Set(b)}}
	case "time":
		s := int64(r.Intn(1<<31)) + 1
		v.Set(reflect.ValueOf(time.Unix(s, 0)))
		return []*tree.Item{{Kind: tree.KDate, Tag: tag, Int: s}}
	case "u8", "u16":
		x := uint64(r.Intn(1 << 8))
		if d.kind == "u16" {
			x = uint64(r.Intn(1 << 16))
		}
		v.SetUint(x)
		return []*tree.Item{{Kind: tree.KInt, Tag: tag, Int: int64(x)}}
	case "u32":
		x := uint64(uint32(r.U64()))
		v.SetUint(x)
		return []*tree.Item{{Kind: tree.KLong, Tag: tag, Int: int64(x)}}
	case "i8", "i16":
		x := int64(int8(r.U64()))
		if d.kind == "i16" {
			x = int64(int16(r.U64()))
		}
		v.SetInt(x)
		return []*tree.Item{{Kind: tree.KInt, Tag: tag, Int: x}}
	case "i32":
		x := int64(int32(r.U64()))
		v.SetInt(x)
		return []*tree.Item{{Kind: tree.KInt, Tag: tag, Int: x}}
	case "enum":
		x := uint64(1 + r.Intn(9))
		v.SetUint(x)
		return []*tree.Item{{Kind: tree.KEnum, Tag: tag, Int: int64(x)}}
	case "mask":
		x := int64(r.Intn(1 << 20))
		v.SetInt(x)
		return []*tree.Item{{Kind: tree.KInt, Tag: tag, Int: x}}
	case "i64":
		x := int64(r.U64())
		v.SetInt(x)
		return []*tree.Item{{Kind: tree.KLong, Tag: tag, Int: x}}
	case "bool":
		b := r.Bool()
		v.SetBool(b)
		return []*tree.Item{{Kind: tree.KBool, Tag: tag, Bool: b}}
	case "str":
		b := r.Bytes(r.Intn(12))
		for i := range b {
			b[i] = 'a' + b[i]%26
		}
		v.SetString(string(b))
		return []*tree.Item{{Kind: tree.KText, Tag: tag, Data: b}}
	case "bytes":
		b := r.Bytes(1 + r.Intn(20))
		v.SetBytes(b)
		return []*tree.Item{{Kind: tree.KBytes, Tag: tag, Data: b}}
	case "dur":
		s := int64(r.Intn(1 << 20))
		v.SetInt(s * int64(time.Second))
		return []*tree.Item{{Kind: tree.KInterval, Tag: tag, Int: s}}
	case "strs":
		n := r.Intn(3)
		var its []*tree.Item
		if n > 0 {
			sl := reflect.MakeSlice(d.ty, n, n)
			for i := 0; i < n; i++ {
				b := []byte{'s', byte('0' + i)}
				sl.Index(i).SetString(string(b))
				its = append(its, &tree.Item{Kind: tree.KText, Tag: tag, Data: b})
			}
			v.Set(sl)
		}
		return its
	case "struct":
		it := &tree.Item{Kind: tree.KStruct, Tag: tag}
		for i, f := range d.fields {
			it.Children = append(it.Children, freshValue(r, f, f.tag, v.Field(i))...)
		}
		return []*tree.Item{it}
	case "ptr":
		if r.Chance(1, 4) {
			return nil
		}
		p := reflect.New(d.elem.ty)
		its := freshValue(r, d.elem, tag, p.Elem())
		v.Set(p)
		return its
	case "slice":
		n := r.Intn(3)
		var its []*tree.Item
		if n > 0 {
			sl := reflect.MakeSlice(d.ty, n, n)
			for i := 0; i < n; i++ {
				its = append(its, freshValue(r, d.elem, tag, sl.Index(i))...)
			}
			v.Set(sl)
		}
		return its
	}
	return nil
}

// firstNested: a nested struct description and the path (field indexes) to a value of it, if any.
func (d *freshDesc) firstNested() (int, *freshDesc) {
	for i, f := range d.fields {
		if f.kind == "struct" {
			return i, f
		}
	}
	return -1, nil
}

func freshEncode(f string, tag int, v any) (b []byte, panicked string) {
	return guard("fresh-encode", func() []byte {
		enc := newCacheEncoder(f)
		enc.TagAny(tag, v)
		return append([]byte{}, enc.Bytes()...)
	})
}

// cacheFreshRound: one fresh type, K goroutines released together. Returns "ok" or "FAIL <class>: detail".
func cacheFreshRound(r *rng.R, K int, register bool, round int) string {
	d := freshGenStruct(r, 0)
	val := reflect.New(d.ty)
	ni, nd := d.firstNested()
	var innerWant []byte
	top := &tree.Item{Kind: tree.KStruct, Tag: freshTopTag}
	for i, f := range d.fields {
		c := freshValue(r, f, f.tag, val.Elem().Field(i))
		if i == ni {
			innerWant = c[0].Encode() // the nested value's own encoding under its field tag
		}
		top.Children = append(top.Children, c...)
	}
	want := top.Encode()
	type out struct {
		class, detail string
		text          []byte
	}
	outs := make([]out, K)
	var ready atomic.Int32
	var start atomic.Bool
	var wg sync.WaitGroup
	spin := K < runtime.GOMAXPROCS(0)
	for g := 0; g < K; g++ {
		wg.Add(1)
		go func(g int) {
			defer wg.Done()
			ready.Add(1)
			for !start.Load() {
				if !spin {
					runtime.Gosched()
				}
			}
			mode := (g + round) % 5
			if round%3 == 1 {
				// every third round everybody DECODES: the decode plan (a cache of its own) is then built under
				// contention whatever K is, and two decoders of one type run at once (with the modes spread over
				// the goroutines, K < 6 gives at most one decoder per round)
				mode = 1
			}
			switch {
			case mode == 0 || (mode == 4 && nd == nil):
				b, p := freshEncode("ttlv", freshTopTag, val.Elem().Interface())
				if p != "" {
					outs[g] = out{"encode-panics", p, nil}
				} else if !bytes.Equal(b, want) {
					outs[g] = out{"encode-differs", firstDiff(hexOrDash(want), hexOrDash(b)), nil}
				}
			case mode == 1:
				ptr := reflect.New(d.ty)
				_, p := guard("fresh-decode", func() int {
					dec, err := ttlv.NewTTLVDecoder(want)
					if err == nil {
						err = dec.TagAny(freshTopTag, ptr.Interface())
					}
					if err != nil {
						outs[g] = out{"decode-error", err.Error(), nil}
					}
					return 0
				})
				if p != "" {
					outs[g] = out{"decode-panics", p, nil}
				} else if outs[g].class == "" {
					if !reflect.DeepEqual(ptr.Elem().Interface(), val.Elem().Interface()) {
						outs[g] = out{"decode-differs", fmt.Sprintf("decoded %+v, want %+v", ptr.Elem().Interface(), val.Elem().Interface()), nil}
					} else if b, p := freshEncode("ttlv", freshTopTag, ptr.Elem().Interface()); p != "" || !bytes.Equal(b, want) {
						outs[g] = out{"reencode-differs", p + " " + firstDiff(hexOrDash(want), hexOrDash(b)), nil}
					}
				}
			case mode == 2 || mode == 3:
				f := map[int]string{2: "xml", 3: "json"}[mode]
				b, p := freshEncode(f, freshTopTag, val.Elem().Interface())
				if p != "" {
					outs[g] = out{"encode-panics", f + ": " + p, nil}
				} else {
					outs[g].text = append([]byte(f+":"), b...)
				}
			default: // the nested type used directly while the outer plan is being built by others
				b, p := freshEncode("ttlv", nd.tag, val.Elem().Field(ni).Interface())
				if p != "" {
					outs[g] = out{"encode-panics", "nested: " + p, nil}
				} else if innerWant != nil && !bytes.Equal(b, innerWant) {
					outs[g] = out{"encode-differs", "nested: " + firstDiff(hexOrDash(innerWant), hexOrDash(b)), nil}
				}
			}
		}(g)
	}
	for int(ready.Load()) < K {
		runtime.Gosched()
	}
	if register {
		wg.Add(1)
		go func() {
			defer wg.Done()
			n := int(freshUniq.Add(1))
			ttlv.RegisterTag(fmt.Sprintf("VerifExt%d", n), 0x54F000+n%0xFFF)
		}()
	}
	start.Store(true)
	wg.Wait()
	// text encodings: all goroutines agree, and agree with a sequential warm run
	warm := map[string][]byte{}
	for _, f := range []string{"xml", "json"} {
		b, p := freshEncode(f, freshTopTag, val.Elem().Interface())
		if p != "" {
			return "FAIL warm-encode-panics: " + f + ": " + p
		}
		warm[f] = append([]byte(f+":"), b...)
	}
	for g, o := range outs {
		if o.class != "" {
			return fmt.Sprintf("FAIL %s: goroutine %d of %d: %s", o.class, g, K, truncate(o.detail, 300))
		}
		if o.text != nil {
			f := string(o.text[:bytes.IndexByte(o.text, ':')])
			if !bytes.Equal(o.text, warm[f]) {
				return fmt.Sprintf("FAIL encode-differs: goroutine %d of %d: %s under contention differs from the warm sequential encoding: %s", g, K, f, firstDiff(hexOrDash(warm[f]), hexOrDash(o.text)))
			}
		}
	}
	return "ok"
}

func cacheFreshChild(sp cacheFreshSpec) []string {
	if sp.Procs > 0 {
		runtime.GOMAXPROCS(sp.Procs)
	}
	r := rng.New(sp.Seed)
	res := make([]string, sp.Rounds)
	for i := range res {
		res[i] = cacheFreshRound(r, sp.K, sp.Register, i)
	}
	return res
}

// ---- engine side -------------------------------------------------------------------------------------------

func (e *cacheEngine) freshScenarios(raceBin string) {
	ctx := e.ctx
	r := ctx.R
	mk := func(n, rounds int, register bool) []cacheSpec {
		var specs []cacheSpec
		for i := 0; i < n; i++ {
			K := []int{2, 3, 4, 8, 16}[i%5]
			procs := []int{0, 2, 4, 8}[(i/5+i)%4]
			specs = append(specs, cacheSpec{Fresh: &cacheFreshSpec{Rounds: rounds, K: K, Procs: procs, Seed: r.U64(), Register: register}})
		}
		return specs
	}
	eval := func(bin string, specs []cacheSpec, what string, race bool) {
		for i, res := range cacheParallel(bin, specs, 4) {
			sp := specs[i].Fresh
			line := fmt.Sprintf("# cache.fresh %s seed=%d rounds=%d K=%d procs=%d", what, sp.Seed, sp.Rounds, sp.K, sp.Procs)
			if race && strings.Contains(res.stderr, "WARNING: DATA RACE") {
				frame := raceFirstFrame(res.stderr)
				ctx.Add(line, "race", true, "C20")
				e.violate("race-detector", "cache:data-race:"+frame, "the race detector reported (cold first use of fresh types): "+truncate(res.stderr, 1500), line)
				continue
			}
			if e.childFailed(res, what) {
				continue
			}
			bad := 0
			for k, o := range res.out {
				ctx.Res.Count("cache.fresh." + what + ".rounds")
				if o != "ok" {
					bad++
					class := "other"
					if strings.HasPrefix(o, "FAIL ") {
						class = strings.SplitN(strings.TrimPrefix(o, "FAIL "), ":", 2)[0]
					}
					e.violate("cold-first-use", "cache:cold-first-use:"+class,
						fmt.Sprintf("%d goroutines using a type for the first time at once (round %d): %s", sp.K, k, o), line)
				}
			}
			ctx.Add(line, fmt.Sprintf("rounds=%d failed=%d", len(res.out), bad), true, "C20")
		}
	}
	eval(e.bin, mk(ctx.N(5, 40), ctx.N(200, 400), false), "plain", false)
	if raceBin == "" {
		return
	}
	eval(raceBin, mk(ctx.N(5, 30), ctx.N(60, 150), false), "race", true)
	// runtime registration concurrent with codec use: information
	for i, res := range cacheParallel(raceBin, mk(ctx.N(1, 3), 20, true), 2) {
		_ = i
		switch {
		case strings.Contains(res.stderr, "WARNING: DATA RACE") && strings.Contains(res.stderr, "RegisterTag"):
			ctx.Res.Count("cache.register-concurrent.race-reported-in-RegisterTag")
		case strings.Contains(res.stderr, "WARNING: DATA RACE"):
			ctx.Res.Count("cache.register-concurrent.race-reported-elsewhere")
		case strings.Contains(res.stderr, "concurrent map"):
			ctx.Res.Count("cache.register-concurrent.fatal-concurrent-map-access")
		case res.err != nil:
			ctx.Res.Count("cache.register-concurrent.child-failed")
		default:
			ctx.Res.Count("cache.register-concurrent.silent")
		}
	}
}

// ---- literal messages: a child that touches NOTHING of the library before the goroutines start --------------
//
// The scenario children of cache.go build their messages with the schema-directed populator: reading the schema
// calls into the library (struct-tag parsing, tag look-ups by type) before the goroutines are released, so state
// that is filled lazily OUTSIDE the two plan caches would already be warm. Here the messages are Go literals and
// the decoder inputs come from the parent: the first call into the codec happens in all K goroutines at once.

type cacheLiteralSpec struct {
	K      int               `json:"k"`
	Procs  int               `json:"procs"`
	Inputs map[string]string `json:"inputs"` // "<msg>.<fmt>" -> hex of the encoding (decoder inputs)
}

func literalMessages() []any {
	ts := time.Unix(1700000000, 0)
	v := func(maj, min int32) kmip.ProtocolVersion {
		return kmip.ProtocolVersion{ProtocolVersionMajor: maj, ProtocolVersionMinor: min}
	}
	idx := int32(0)
	attrs := []kmip.Attribute{
		{AttributeName: kmip.AttributeNameCryptographicAlgorithm, AttributeValue: kmip.CryptographicAlgorithmAES},
		{AttributeName: kmip.AttributeNameCryptographicLength, AttributeValue: int32(256)},
		{AttributeName: kmip.AttributeNameCryptographicUsageMask, AttributeValue: kmip.CryptographicUsageEncrypt | kmip.CryptographicUsageDecrypt},
		{AttributeName: kmip.AttributeNameName, AttributeIndex: &idx, AttributeValue: kmip.Name{NameValue: "k1", NameType: kmip.NameTypeUninterpretedTextString}},
	}
	req := func(ver kmip.ProtocolVersion, pls ...kmip.OperationPayload) *kmip.RequestMessage {
		m := kmip.NewRequestMessage(ver, pls...)
		m.Header.TimeStamp = &ts
		return &m
	}
	material := []byte{1, 2, 3, 4, 5, 6, 7, 8, 9, 10, 11, 12, 13, 14, 15, 16}
	resp := func(ver kmip.ProtocolVersion, items ...kmip.ResponseBatchItem) *kmip.ResponseMessage {
		return &kmip.ResponseMessage{Header: kmip.ResponseHeader{ProtocolVersion: ver, TimeStamp: ts, BatchCount: int32(len(items))}, BatchItem: items}
	}
	return []any{
		req(v(1, 4), &payloads.CreateRequestPayload{ObjectType: kmip.ObjectTypeSymmetricKey, TemplateAttribute: kmip.TemplateAttribute{Attribute: attrs}}),
		req(v(1, 0), &payloads.GetRequestPayload{UniqueIdentifier: "id-1", KeyWrapType: kmip.KeyWrapType(2)}),
		req(v(1, 2), &payloads.ActivateRequestPayload{UniqueIdentifier: "id-2"}, &payloads.LocateRequestPayload{MaximumItems: 3, OffsetItems: 1, Attribute: attrs[:2]}),
		resp(v(1, 4), kmip.ResponseBatchItem{Operation: kmip.OperationCreate, ResultStatus: kmip.ResultStatusSuccess,
			ResponsePayload: &payloads.CreateResponsePayload{ObjectType: kmip.ObjectTypeSymmetricKey, UniqueIdentifier: "id-1"}}),
		resp(v(1, 3), kmip.ResponseBatchItem{Operation: kmip.OperationGet, ResultStatus: kmip.ResultStatusSuccess,
			ResponsePayload: &payloads.GetResponsePayload{ObjectType: kmip.ObjectTypeSymmetricKey, UniqueIdentifier: "id-1",
				Object: &kmip.SymmetricKey{KeyBlock: kmip.KeyBlock{KeyFormatType: kmip.KeyFormatTypeRaw, CryptographicAlgorithm: kmip.CryptographicAlgorithmAES, CryptographicLength: 128,
					KeyValue: &kmip.KeyValue{Plain: &kmip.PlainKeyValue{KeyMaterial: kmip.KeyMaterial{Bytes: &material}}}}}}}),
		resp(v(1, 1), kmip.ResponseBatchItem{Operation: kmip.OperationDestroy, ResultStatus: kmip.ResultStatusOperationFailed,
			ResultReason: kmip.ResultReasonItemNotFound, ResultMessage: "no such object"}),
		// big integers by value (Modulus, PublicExponent, D) and by pointer (the private RSA numbers), a negative
		// one among them, in two batch items: the big-integer plans and writers under first-call contention
		resp(v(1, 2),
			kmip.ResponseBatchItem{Operation: kmip.OperationGet, ResultStatus: kmip.ResultStatusSuccess,
				ResponsePayload: &payloads.GetResponsePayload{ObjectType: kmip.ObjectTypePublicKey, UniqueIdentifier: "id-3",
					Object: &kmip.PublicKey{KeyBlock: kmip.KeyBlock{KeyFormatType: kmip.KeyFormatTypeTransparentRSAPublicKey, CryptographicAlgorithm: kmip.CryptographicAlgorithmRSA, CryptographicLength: 72,
						KeyValue: &kmip.KeyValue{Plain: &kmip.PlainKeyValue{KeyMaterial: kmip.KeyMaterial{TransparentRSAPublicKey: &kmip.TransparentRSAPublicKey{
							Modulus: *literalBig("80a1b2c3d4e5f60718"), PublicExponent: *big.NewInt(65537)}}}}}}}},
			kmip.ResponseBatchItem{Operation: kmip.OperationGet, ResultStatus: kmip.ResultStatusSuccess,
				ResponsePayload: &payloads.GetResponsePayload{ObjectType: kmip.ObjectTypePrivateKey, UniqueIdentifier: "id-4",
					Object: &kmip.PrivateKey{KeyBlock: kmip.KeyBlock{KeyFormatType: kmip.KeyFormatTypeTransparentRSAPrivateKey, CryptographicAlgorithm: kmip.CryptographicAlgorithmRSA, CryptographicLength: 72,
						KeyValue: &kmip.KeyValue{Plain: &kmip.PlainKeyValue{KeyMaterial: kmip.KeyMaterial{TransparentRSAPrivateKey: &kmip.TransparentRSAPrivateKey{
							Modulus: *literalBig("80a1b2c3d4e5f60718"), PrivateExponent: literalBig("0102030405060708090a0b0c0d0e0f1011"), PublicExponent: big.NewInt(3),
							P: literalBig("ff00000000000001"), Q: new(big.Int).Neg(literalBig("7fffffffffffffffff"))}}}}}}}}),
		req(v(1, 4), &payloads.RegisterRequestPayload{ObjectType: kmip.ObjectTypePrivateKey,
			Object: &kmip.PrivateKey{KeyBlock: kmip.KeyBlock{KeyFormatType: kmip.KeyFormatTypeTransparentECPrivateKey, CryptographicAlgorithm: kmip.CryptographicAlgorithmECDSA, CryptographicLength: 256,
				KeyValue: &kmip.KeyValue{Plain: &kmip.PlainKeyValue{KeyMaterial: kmip.KeyMaterial{TransparentECPrivateKey: &kmip.TransparentECPrivateKey{
					RecommendedCurve: kmip.RecommendedCurveP_256, D: *literalBig("00c0ffee00c0ffee00c0ffee00c0ffee00c0ffee00c0ffee00c0ffee00c0ff")}}}}}}}),
	}
}

func literalBig(h string) *big.Int {
	b, ok := new(big.Int).SetString(h, 16)
	if !ok {
		panic("literalBig: " + h)
	}
	return b
}

type literalOp struct {
	msg int
	dec bool
	f   string
}

func literalOps(n int) []literalOp {
	var ops []literalOp
	for i := 0; i < n; i++ {
		for _, f := range cacheFormats {
			ops = append(ops, literalOp{i, false, f})
		}
		for _, f := range cacheDecFormats {
			ops = append(ops, literalOp{i, true, f})
		}
	}
	return ops
}

func literalExec(msgs []any, op literalOp, inputs map[string]string) string {
	if !op.dec {
		b, p := guard("literal-encode", func() []byte {
			switch op.f {
			case "xml":
				return ttlv.MarshalXML(msgs[op.msg])
			case "json":
				return ttlv.MarshalJSON(msgs[op.msg])
			case "text":
				return ttlv.MarshalText(msgs[op.msg])
			}
			return ttlv.MarshalTTLV(msgs[op.msg])
		})
		if p != "" {
			return "panic"
		}
		return "ok " + hexOrDash(b)
	}
	in, err := hex.DecodeString(inputs[fmt.Sprintf("%d.%s", op.msg, op.f)])
	if err != nil || len(in) == 0 {
		return "no-input"
	}
	type res struct {
		b   []byte
		err error
	}
	r, p := guard("literal-decode", func() res {
		ptr := reflect.New(reflect.TypeOf(msgs[op.msg]).Elem())
		var err error
		switch op.f {
		case "xml":
			err = ttlv.UnmarshalXML(in, ptr.Interface())
		case "json":
			err = ttlv.UnmarshalJSON(in, ptr.Interface())
		default:
			err = ttlv.UnmarshalTTLV(in, ptr.Interface())
		}
		if err != nil {
			return res{err: err}
		}
		return res{b: ttlv.MarshalTTLV(ptr.Interface())}
	})
	if p != "" {
		return "panic"
	}
	if r.err != nil {
		return "err"
	}
	return "ok " + hexOrDash(r.b)
}

// cacheLiteralChild: results[g*len(ops)+j] = what goroutine g obtained for op j.
func cacheLiteralChild(sp cacheLiteralSpec) []string {
	if sp.Procs > 0 {
		runtime.GOMAXPROCS(sp.Procs)
	}
	msgs := literalMessages()
	ops := literalOps(len(msgs))
	res := make([]string, sp.K*len(ops))
	var ready atomic.Int32
	var start atomic.Bool
	var wg sync.WaitGroup
	spin := sp.K < runtime.GOMAXPROCS(0)
	for g := 0; g < sp.K; g++ {
		wg.Add(1)
		go func(g int) {
			defer wg.Done()
			ready.Add(1)
			for !start.Load() {
				if !spin {
					runtime.Gosched()
				}
			}
			// everybody starts somewhere else (every third goroutine at the very same call)
			off := 0
			if g%3 != 0 {
				off = (g * 5) % len(ops)
			}
			for j := range ops {
				k := (j + off) % len(ops)
				res[g*len(ops)+k] = literalExec(msgs, ops[k], sp.Inputs)
			}
		}(g)
	}
	for int(ready.Load()) < sp.K {
		runtime.Gosched()
	}
	start.Store(true)
	wg.Wait()
	return res
}

func (e *cacheEngine) literalScenarios(raceBin string) {
	ctx := e.ctx
	msgs := literalMessages()
	ops := literalOps(len(msgs))
	inputs := map[string]string{}
	for i := range msgs {
		for _, f := range cacheDecFormats {
			if r := literalExec(msgs, literalOp{i, false, f}, nil); strings.HasPrefix(r, "ok ") {
				inputs[fmt.Sprintf("%d.%s", i, f)] = strings.ToLower(strings.TrimPrefix(r, "ok "))
			}
		}
	}
	// reference: this (warm) process, sequentially
	want := make([]string, len(ops))
	for j, op := range ops {
		want[j] = literalExec(msgs, op, inputs)
		ctx.Res.Count("cache.literal.ref." + strings.SplitN(want[j], " ", 2)[0])
		if !strings.HasPrefix(want[j], "ok ") {
			ctx.Res.Fail(fmt.Sprintf("cache: literal message %d: %s.%s gives %s in the reference run", op.msg, map[bool]string{false: "enc", true: "dec"}[op.dec], op.f, want[j]))
		}
	}
	run := func(bin, what string, n int, race bool) {
		var specs []cacheSpec
		for i := 0; i < n; i++ {
			specs = append(specs, cacheSpec{Literal: &cacheLiteralSpec{K: []int{2, 4, 8, 16, 3}[i%5], Procs: []int{0, 4, 2, 8}[i%4], Inputs: inputs}})
		}
		for i, res := range cacheParallel(bin, specs, 4) {
			sp := specs[i].Literal
			line := fmt.Sprintf("# cache.literal %s K=%d procs=%d", what, sp.K, sp.Procs)
			if race && strings.Contains(res.stderr, "WARNING: DATA RACE") {
				ctx.Add(line, "race", true, "C20")
				e.violate("race-detector", "cache:data-race:"+raceFirstFrame(res.stderr), "the race detector reported (first call into the codec from all goroutines at once): "+truncate(res.stderr, 1500), line)
				continue
			}
			if e.childFailed(res, "literal "+what) {
				continue
			}
			bad := 0
			for k, got := range res.out {
				op := ops[k%len(ops)]
				ctx.Res.Count("cache.literal." + what + ".calls")
				if got != want[k%len(ops)] {
					bad++
					dir := map[bool]string{false: "enc", true: "dec"}[op.dec]
					e.violate("cold-first-use", "cache:cold-process-differs:"+dir+"."+op.f,
						fmt.Sprintf("goroutine %d of %d, all making their first call into the codec at once: %s.%s of literal message %d differs from the sequential result: %s", k/len(ops), sp.K, dir, op.f, op.msg, firstDiff(want[k%len(ops)], got)), line)
				}
			}
			ctx.Add(line, fmt.Sprintf("calls=%d differing=%d", len(res.out), bad), true, "C20")
		}
	}
	run(e.bin, "plain", ctx.N(10, 150), false)
	if raceBin != "" {
		run(raceBin, "race", ctx.N(10, 100), true)
	}
}
