/-
  C01 — stage 2: the induction predicates and the non-struct kinds (scalars, ttlv.Value,
  ttlv.Struct, pointers, slices, interfaces).
-/
import KmipModel.Lemmas.PlanRoundtrip
namespace Kmip

/-! ## The induction predicates (one per mutually recursive function of the model) -/

/-- the encoder emits exactly one item: a definite kind, or a non-nil pointer. -/
def emitsOne (k : Kind) (v : Val) : Bool :=
  k.definite || (match k, v with | .ptr _, .ptr (some _) => true | _, _ => false)

/-- what is proved of one `encK` call on a conforming value: it succeeds, the normalised value
    re-encodes to the same items and is a fixed point of the normalisation, every item carries the
    tag, a definite kind emits exactly one item, and `decK` reads the items back. -/
def PK (S : Schema) (n : Nat) : Prop :=
  ∀ (k : Kind) (tag : Nat) (v : Val) (ver : Option Ver) (v' : Val) (ver' : Option Ver),
    normK S n k tag v ver = some (v', ver') →
    ∃ items, encK S n k tag v ver = .ok (items, ver')
      ∧ encK S n k tag v' ver = .ok (items, ver')
      ∧ normK S n k tag v' ver = some (v', ver')
      ∧ (∀ it ∈ items, it.tag = tag)
      ∧ (emitsOne k v = true → items.length = 1)
      ∧ (k.zeroFaithful = true → v.isZero = false → items ≠ [])
      ∧ (S.decodable k = true → Item.AllInRange items → ∀ (fd : Nat) (rs : List RawItem),
          v.depth ≤ fd → (emitsOne k v = true ∨ htag rs ≠ tag) →
          decK S fd k tag (Cur.of (items.map Item.raw ++ rs)) ver = .ok (v', Cur.of rs, ver'))

def PSlice (S : Schema) (n : Nat) : Prop :=
  ∀ (k : Kind) (tag : Nat) (xs : List Val) (ver : Option Ver) (xs' : List Val) (ver' : Option Ver),
    k.definite = true →
    normSlice S n k tag xs ver = some (xs', ver') →
    ∃ items, encSlice S n k tag xs ver = .ok (items, ver')
      ∧ encSlice S n k tag xs' ver = .ok (items, ver')
      ∧ normSlice S n k tag xs' ver = some (xs', ver')
      ∧ (∀ it ∈ items, it.tag = tag)
      ∧ xs'.length = xs.length
      ∧ (xs ≠ [] → items ≠ [])
      ∧ (S.decodable k = true → Item.AllInRange items → ∀ (fd : Nat) (rs : List RawItem),
          Val.depthList xs ≤ fd → htag rs ≠ tag →
          decList S fd k tag (Cur.of (items.map Item.raw ++ rs)) ver = .ok (xs', Cur.of rs, ver'))

theorem htag_single (it : Item) (rs : List RawItem) : htag ([it].map Item.raw ++ rs) = it.tag := rfl

theorem list_len1 {α : Type} {l : List α} (h : l.length = 1) : ∃ a, l = [a] := by
  match l, h with
  | [a], _ => exact ⟨a, rfl⟩

theorem fuel_succ {a fd : Nat} (h : a + 1 ≤ fd) : ∃ f, fd = f + 1 ∧ a ≤ f := ⟨fd - 1, by omega, by omega⟩

theorem Val.depth_pos (v : Val) : 2 ≤ v.depth := by
  cases v with
  | struct fs => simp only [Val.depth]; omega
  | ptr x => cases x <;> simp [Val.depth]
  | list xs => simp only [Val.depth]; omega
  | iface x =>
    cases x with
    | none => simp only [Val.depth]; omega
    | some p => obtain ⟨d, x⟩ := p; simp only [Val.depth]; omega
  | any x => cases x <;> simp [Val.depth]
  | anyStruct its => simp only [Val.depth]; omega
  | int _ => simp [Val.depth]
  | bool _ => simp [Val.depth]
  | text _ => simp [Val.depth]
  | bytes _ => simp [Val.depth]
  | big _ => simp [Val.depth]

theorem Val.depthList_pos (vs : List Val) : 2 ≤ Val.depthList vs := by
  cases vs with
  | nil => simp [Val.depthList]
  | cons x xs => have := Val.depth_pos x; simp only [Val.depthList]; omega

theorem scalar_definite {k : Kind} (h : k.scalar = true) : k.definite = true := by
  cases k <;> simp_all [Kind.scalar, Kind.definite]

/-- PK at a scalar kind. -/
theorem pk_scalar (S : Schema) (n : Nat) (k : Kind) (hk : k.scalar = true) (tag : Nat) (v : Val)
    (ver : Option Ver) (v' : Val) (ver' : Option Ver)
    (h : normK S n k tag v ver = some (v', ver')) :
    ∃ items, encK S n k tag v ver = .ok (items, ver')
      ∧ encK S n k tag v' ver = .ok (items, ver')
      ∧ normK S n k tag v' ver = some (v', ver')
      ∧ (∀ it ∈ items, it.tag = tag)
      ∧ (emitsOne k v = true → items.length = 1)
      ∧ (k.zeroFaithful = true → v.isZero = false → items ≠ [])
      ∧ (S.decodable k = true → Item.AllInRange items → ∀ (fd : Nat) (rs : List RawItem),
          v.depth ≤ fd → (emitsOne k v = true ∨ htag rs ≠ tag) →
          decK S fd k tag (Cur.of (items.map Item.raw ++ rs)) ver = .ok (v', Cur.of rs, ver')) := by
  cases n with
  | zero => simp [normK] at h
  | succ n =>
    obtain ⟨hv, it, he, ht, he', hn', _, _, _, _, hd⟩ := scalar_rt S n k hk tag v v' ver ver' h
    subst hv
    refine ⟨[it], he, he', hn', ?_, fun _ => rfl, fun _ _ => by simp, ?_⟩
    · intro x hx; rw [List.mem_singleton.1 hx]; exact ht
    · intro _ hr fd rs hfd _
      obtain ⟨f, rfl, -⟩ := fuel_succ (by have := Val.depth_pos v; omega : 0 + 1 ≤ fd)
      exact hd ((Item.allInRange_singleton it).1 hr) f rs _


/-! ## Unfolding lemmas (one per clause) -/

theorem normK_zero (S : Schema) (k : Kind) (tag : Nat) (v : Val) (ver : Option Ver) :
    normK S 0 k tag v ver = none := by rw [normK]

theorem normK_any (S : Schema) (n tag : Nat) (v : Val) (ver : Option Ver) :
    normK S (n + 1) .any tag v ver =
      (match v with
       | .any (some it) => if it.tag = tag then some (.any (some it), ver) else none
       | _ => none) := by
  rw [normK.eq_def]; rfl

theorem normK_anyStruct (S : Schema) (n tag : Nat) (v : Val) (ver : Option Ver) :
    normK S (n + 1) .anyStruct tag v ver =
      (match v with | .anyStruct its => some (.anyStruct its, ver) | _ => none) := by
  rw [normK.eq_def]; rfl

theorem normK_ptr (S : Schema) (n tag : Nat) (k' : Kind) (v : Val) (ver : Option Ver) :
    normK S (n + 1) (.ptr k') tag v ver =
        (match v with
         | .ptr none => some (.ptr none, ver)
         | .ptr (some x) =>
           if k'.definite then
             (match normK S n k' tag x ver with
              | some (x', ver') => some (.ptr (some x'), ver')
              | none => none)
           else none
         | _ => none) := by
  rw [normK.eq_def]; rfl

theorem normK_slice (S : Schema) (n tag : Nat) (k' : Kind) (v : Val) (ver : Option Ver) :
    normK S (n + 1) (.slice k') tag v ver =
        (match v with
         | .list xs =>
           if k'.definite then
             (match normSlice S n k' tag xs ver with
              | some (xs', ver') => some (.list xs', ver')
              | none => none)
           else none
         | _ => none) := by
  rw [normK.eq_def]; rfl

theorem normK_iface (S : Schema) (n tag : Nat) (v : Val) (ver : Option Ver) :
    normK S (n + 1) .iface tag v ver =
        (match v with
         | .iface none => some (.iface none, ver)
         | .iface (some (d, x)) =>
           if dynValOk (S.dyn d).kind x then
             (match normK S n (S.dyn d).kind tag x ver with
              | some (x', ver') => some (.iface (some (d, x')), ver')
              | none => none)
           else none
         | _ => none) := by
  rw [normK.eq_def]; rfl

theorem normK_struct (S : Schema) (n tag id : Nat) (v : Val) (ver : Option Ver) :
    normK S (n + 1) (.struct id) tag v ver =
        (match v with
         | .struct fs =>
           if (S.structDef id).encCustom then normCustom S n (S.structDef id).custom tag (.struct fs) ver
           else
             (match normFields S n (S.structDef id).fields fs ver with
              | some (fs', ver') =>
                if !(S.structDef id).decCustom || customOk S (S.structDef id).custom (.struct fs')
                then some (.struct fs', ver')
                else none
              | none => none)
         | _ => none) := by
  rw [normK.eq_def]; rfl

theorem encK_ptr_none (S : Schema) (n tag : Nat) (k' : Kind) (ver : Option Ver) :
    encK S (n + 1) (.ptr k') tag (.ptr none) ver = .ok ([], ver) := by rw [encK]
theorem encK_ptr_some (S : Schema) (n tag : Nat) (k' : Kind) (x : Val) (ver : Option Ver) :
    encK S (n + 1) (.ptr k') tag (.ptr (some x)) ver = encK S n k' tag x ver := by rw [encK]
theorem encK_slice (S : Schema) (n tag : Nat) (k' : Kind) (xs : List Val) (ver : Option Ver) :
    encK S (n + 1) (.slice k') tag (.list xs) ver = encSlice S n k' tag xs ver := by rw [encK]
theorem encK_iface_none (S : Schema) (n tag : Nat) (ver : Option Ver) :
    encK S (n + 1) .iface tag (.iface none) ver = .ok ([], ver) := by rw [encK]
theorem encK_iface_some (S : Schema) (n tag d : Nat) (x : Val) (ver : Option Ver) :
    encK S (n + 1) .iface tag (.iface (some (d, x))) ver = encK S n (S.dyn d).kind tag x ver := by
  rw [encK]
theorem encK_any (S : Schema) (n tag : Nat) (it : Item) (ver : Option Ver) :
    encK S (n + 1) .any tag (.any (some it)) ver = .ok ([it.withTag tag], ver) := by rw [encK]
theorem encK_anyStruct (S : Schema) (n tag : Nat) (its : List Item) (ver : Option Ver) :
    encK S (n + 1) .anyStruct tag (.anyStruct its) ver = .ok ([.struct tag its], ver) := by rw [encK]
theorem encK_struct (S : Schema) (n tag id : Nat) (fs : List Val) (ver : Option Ver) :
    encK S (n + 1) (.struct id) tag (.struct fs) ver =
        (if (S.structDef id).encCustom then encCustom S n (S.structDef id).custom tag (.struct fs) ver
        else do
          let (items, ver') ← encFields S n (S.structDef id).fields fs ver
          pure ([.struct tag items], ver')) := by
  rw [encK]

theorem normSlice_nil (S : Schema) (n tag : Nat) (k : Kind) (ver : Option Ver) :
    normSlice S (n + 1) k tag [] ver = some ([], ver) := by simp [normSlice]
theorem normSlice_cons (S : Schema) (n tag : Nat) (k : Kind) (x : Val) (xs : List Val) (ver : Option Ver) :
    normSlice S (n + 1) k tag (x :: xs) ver =
      (match normK S n k tag x ver with
      | none => none
      | some (x', ver1) =>
        match normSlice S n k tag xs ver1 with
        | none => none
        | some (xs', ver2) => some (x' :: xs', ver2)) := by rw [normSlice]; rfl
theorem encSlice_nil (S : Schema) (n tag : Nat) (k : Kind) (ver : Option Ver) :
    encSlice S (n + 1) k tag [] ver = .ok ([], ver) := by simp [encSlice]
theorem encSlice_cons (S : Schema) (n tag : Nat) (k : Kind) (x : Val) (xs : List Val) (ver : Option Ver) :
    encSlice S (n + 1) k tag (x :: xs) ver = (do
      let (a, ver1) ← encK S n k tag x ver
      let (b, ver2) ← encSlice S n k tag xs ver1
      pure (a ++ b, ver2)) := by rw [encSlice]

theorem opt_match_some {α β : Type} {o : Option α} {f : α → Option β} {b : β}
    (h : (match o with | some a => f a | none => none) = some b) : ∃ a, o = some a ∧ f a = some b := by
  cases o with
  | none => contradiction
  | some a => exact ⟨a, rfl, h⟩

/-- PK at `ttlv.Value`. -/
theorem pk_any (S : Schema) (n : Nat) (tag : Nat) (v : Val)
    (ver : Option Ver) (v' : Val) (ver' : Option Ver)
    (h : normK S (n + 1) .any tag v ver = some (v', ver')) :
    ∃ items, encK S (n + 1) .any tag v ver = .ok (items, ver')
      ∧ encK S (n + 1) .any tag v' ver = .ok (items, ver')
      ∧ normK S (n + 1) .any tag v' ver = some (v', ver')
      ∧ (∀ it ∈ items, it.tag = tag)
      ∧ (items.length = 1)
      ∧ (Item.AllInRange items → ∀ (fd : Nat) (rs : List RawItem),
          v.depth ≤ fd →
          decK S fd .any tag (Cur.of (items.map Item.raw ++ rs)) ver = .ok (v', Cur.of rs, ver')) := by
  rw [normK_any] at h
  split at h <;> try contradiction
  rename_i it
  obtain ⟨ht, e⟩ := ite_some_eq h
  obtain ⟨rfl, rfl⟩ := pair_eq e
  subst ht
  refine ⟨[it], by rw [encK_any, Item.withTag_self], by rw [encK_any, Item.withTag_self],
    by simp only [normK_any, if_pos], ?_, rfl, ?_⟩
  · intro x hx; rw [List.mem_singleton.1 hx]
  · intro hr fd rs hfd
    simp only [Val.depth] at hfd
    obtain ⟨f, rfl, hf⟩ := fuel_succ (by omega : (it.size + 1) + 1 ≤ fd)
    have := decodeValue_enc_aux it ((Item.allInRange_singleton it).1 hr) f (by omega) rs
    simp only [decK, List.map_cons, List.map_nil, List.cons_append, List.nil_append, Cur.of, this,
      Res.ok_bind, Res.pure_eq]

/-- PK at `ttlv.Struct`. -/
theorem pk_anyStruct (S : Schema) (n : Nat) (tag : Nat) (v : Val)
    (ver : Option Ver) (v' : Val) (ver' : Option Ver)
    (h : normK S (n + 1) .anyStruct tag v ver = some (v', ver')) :
    ∃ items, encK S (n + 1) .anyStruct tag v ver = .ok (items, ver')
      ∧ encK S (n + 1) .anyStruct tag v' ver = .ok (items, ver')
      ∧ normK S (n + 1) .anyStruct tag v' ver = some (v', ver')
      ∧ (∀ it ∈ items, it.tag = tag)
      ∧ (items.length = 1)
      ∧ (Item.AllInRange items → ∀ (fd : Nat) (rs : List RawItem),
          v.depth ≤ fd →
          decK S fd .anyStruct tag (Cur.of (items.map Item.raw ++ rs)) ver = .ok (v', Cur.of rs, ver')) := by
  rw [normK_anyStruct] at h
  split at h <;> try contradiction
  rename_i its
  obtain ⟨rfl, rfl⟩ := pair_eq (Option.some.inj h)
  refine ⟨[.struct tag its], by rw [encK_anyStruct], by rw [encK_anyStruct], by simp only [normK_anyStruct], ?_, rfl, ?_⟩
  · intro x hx; rw [List.mem_singleton.1 hx]; rfl
  · intro hr fd rs hfd
    simp only [Val.depth] at hfd
    obtain ⟨f, rfl, hf⟩ := fuel_succ (by omega : (Item.sizeList its + 1) + 1 ≤ fd)
    have hr' := (Item.allInRange_singleton _).1 hr
    rw [Item.InRange] at hr'
    have h1 := decodeFields_enc_aux its hr'.2.2.2 f (by omega)
    have h2 := Cur.struct_raw tag its rs hr'.2.2.2 (fun inner => decodeFields f inner) its h1
    simp only [decK, List.map_cons, List.map_nil, List.cons_append, List.nil_append, Cur.of, h2,
      Res.ok_bind, Res.pure_eq]


theorem ite_eq_some {α : Type} {c : Prop} [Decidable c] {o : Option α} {b : α}
    (h : (if c then o else none) = some b) : c ∧ o = some b := by
  split at h
  · exact ⟨‹c›, h⟩
  · contradiction

theorem decodable_ptr {S : Schema} {k : Kind} (h : S.decodable (.ptr k) = true) (hk : k.definite = true) :
    S.decodable k = true := by
  cases k <;> simp_all [Schema.decodable, Kind.base, Kind.definite, Kind.scalar]

theorem decodable_slice {S : Schema} {k : Kind} (h : S.decodable (.slice k) = true) (hk : k.definite = true) :
    S.decodable k = true := by
  cases k <;> simp_all [Schema.decodable, Kind.base, Kind.definite, Kind.scalar]

/-- PK at a pointer kind, from PK one level down. -/
theorem pk_ptr (S : Schema) (n : Nat) (hK : PK S n) (k' : Kind) (tag : Nat) (v : Val)
    (ver : Option Ver) (v' : Val) (ver' : Option Ver)
    (h : normK S (n + 1) (.ptr k') tag v ver = some (v', ver')) :
    ∃ items, encK S (n + 1) (.ptr k') tag v ver = .ok (items, ver')
      ∧ encK S (n + 1) (.ptr k') tag v' ver = .ok (items, ver')
      ∧ normK S (n + 1) (.ptr k') tag v' ver = some (v', ver')
      ∧ (∀ it ∈ items, it.tag = tag)
      ∧ (emitsOne (.ptr k') v = true → items.length = 1)
      ∧ (S.decodable (.ptr k') = true → Item.AllInRange items → ∀ (fd : Nat) (rs : List RawItem),
          v.depth ≤ fd → (emitsOne (.ptr k') v = true ∨ htag rs ≠ tag) →
          decK S fd (.ptr k') tag (Cur.of (items.map Item.raw ++ rs)) ver = .ok (v', Cur.of rs, ver')) := by
  rw [normK_ptr] at h
  split at h
  · -- nil pointer
    obtain ⟨rfl, rfl⟩ := pair_eq (Option.some.inj h)
    refine ⟨[], by rw [encK_ptr_none], by rw [encK_ptr_none], by rw [normK_ptr], ?_, ?_, ?_⟩
    · intro x hx; cases hx
    · intro h1; simp [emitsOne, Kind.definite, Kind.scalar] at h1
    · intro _ _ fd rs hfd hne
      have hne : htag rs ≠ tag := by
        rcases hne with h1 | h1
        · simp [emitsOne, Kind.definite, Kind.scalar] at h1
        · exact h1
      obtain ⟨f, rfl, -⟩ := fuel_succ (by have := Val.depth_pos (.ptr none); omega : 0 + 1 ≤ fd)
      simp only [decK, List.map_nil, List.nil_append, Cur.tag_of, ne_eq, hne, not_false_eq_true, if_true]
  · rename_i x
    obtain ⟨hdef, h⟩ := ite_eq_some h
    cases hx : normK S n k' tag x ver with
    | none => simp only [hx] at h; contradiction
    | some p =>
    obtain ⟨x', w⟩ := p
    simp only [hx] at h
    obtain ⟨rfl, rfl⟩ := pair_eq (Option.some.inj h)
    obtain ⟨items, he, he', hn', ht, hl, _, hd⟩ := hK k' tag x ver x' w hx
    have hone : emitsOne k' x = true := by simp [emitsOne, hdef]
    refine ⟨items, by rw [encK_ptr_some]; exact he, by rw [encK_ptr_some]; exact he',
      by simp only [normK_ptr, hdef, if_true, hn'], ht, fun _ => hl hone, ?_⟩
    intro hdec hr fd rs hfd _
    simp only [Val.depth] at hfd
    obtain ⟨f, rfl, hf⟩ := fuel_succ (by omega : (x.depth + 1) + 1 ≤ fd)
    obtain ⟨it, rfl⟩ := list_len1 (hl hone)
    have htag : it.tag = tag := ht it (List.mem_singleton.2 rfl)
    have hdk := hd (decodable_ptr hdec hdef) hr f rs (by omega) (Or.inl hone)
    have hct : (Cur.of ([it].map Item.raw ++ rs)).tag = tag := by rw [Cur.tag_of, htag_single, htag]
    simp only [decK, hct, ne_eq, not_true_eq_false, if_false, hdk, Res.ok_bind, Res.pure_eq]
  · contradiction

/-- PSlice one level up. -/
theorem pslice_succ (S : Schema) (n : Nat) (hK : PK S n) (hS : PSlice S n) : PSlice S (n + 1) := by
  intro k tag xs ver xs' ver' hdef h
  cases xs with
  | nil =>
    rw [normSlice_nil] at h
    obtain ⟨rfl, rfl⟩ := pair_eq (Option.some.inj h)
    refine ⟨[], by rw [encSlice_nil], by rw [encSlice_nil], by rw [normSlice_nil], ?_, rfl, ?_, ?_⟩
    · intro x hx; cases hx
    · intro h1; exact absurd rfl h1
    · intro _ _ fd rs hfd hne
      obtain ⟨f, rfl, -⟩ := fuel_succ (by have := Val.depthList_pos []; omega : 0 + 1 ≤ fd)
      simp only [decList, List.map_nil, List.nil_append, Cur.tag_of, ne_eq, hne, not_false_eq_true, if_true]
  | cons x xs =>
    rw [normSlice_cons] at h
    cases hx : normK S n k tag x ver with
    | none => simp only [hx] at h; contradiction
    | some p =>
    obtain ⟨x', ver1⟩ := p
    simp only [hx] at h
    cases hxs : normSlice S n k tag xs ver1 with
    | none => simp only [hxs] at h; contradiction
    | some p =>
    obtain ⟨xs1, ver2⟩ := p
    simp only [hxs] at h
    obtain ⟨rfl, rfl⟩ := pair_eq (Option.some.inj h)
    obtain ⟨a, he, he', hn', ht, hl, _, hd⟩ := hK k tag x ver x' ver1 hx
    obtain ⟨b, hbe, hbe', hbn', hbt, hbl, _, hbd⟩ := hS k tag xs ver1 xs1 ver2 hdef hxs
    have hone : emitsOne k x = true := by simp [emitsOne, hdef]
    refine ⟨a ++ b, ?_, ?_, ?_, ?_, ?_, ?_, ?_⟩
    · simp only [encSlice_cons, he, hbe, Res.ok_bind, Res.pure_eq]
    · simp only [encSlice_cons, he', hbe', Res.ok_bind, Res.pure_eq]
    · simp only [normSlice_cons, hn', hbn']
    · intro it hit
      rcases List.mem_append.1 hit with h1 | h1
      · exact ht it h1
      · exact hbt it h1
    · simp only [List.length_cons, hbl]
    · intro _ hab
      obtain ⟨it, rfl⟩ := list_len1 (hl hone)
      simp at hab
    · intro hdec hr fd rs hfd hne
      simp only [Val.depthList] at hfd
      obtain ⟨f, rfl, hf⟩ := fuel_succ hfd
      obtain ⟨it, rfl⟩ := list_len1 (hl hone)
      have htag : it.tag = tag := ht it (List.mem_singleton.2 rfl)
      have hr2 := (Item.allInRange_append [it] b).1 hr
      have hdk := hd hdec hr2.1 f (b.map Item.raw ++ rs) (by omega) (Or.inl hone)
      have hdl := hbd hdec hr2.2 f rs (by omega) hne
      have hct : (Cur.of (([it] ++ b).map Item.raw ++ rs)).tag = tag := by
        rw [Cur.tag_of]; exact htag
      have hsplit : ([it] ++ b).map Item.raw ++ rs = [it].map Item.raw ++ (b.map Item.raw ++ rs) := by
        simp
      rw [decList]
      simp only [hct, ne_eq, not_true_eq_false, if_false]
      rw [hsplit, hdk]
      simp only [Res.ok_bind, hdl, Res.pure_eq]

/-- PK at a slice kind. -/
theorem pk_slice (S : Schema) (n : Nat) (hS : PSlice S n) (k' : Kind) (tag : Nat) (v : Val)
    (ver : Option Ver) (v' : Val) (ver' : Option Ver)
    (h : normK S (n + 1) (.slice k') tag v ver = some (v', ver')) :
    ∃ items, encK S (n + 1) (.slice k') tag v ver = .ok (items, ver')
      ∧ encK S (n + 1) (.slice k') tag v' ver = .ok (items, ver')
      ∧ normK S (n + 1) (.slice k') tag v' ver = some (v', ver')
      ∧ (∀ it ∈ items, it.tag = tag)
      ∧ (v.isZero = false → items ≠ [])
      ∧ (S.decodable (.slice k') = true → Item.AllInRange items → ∀ (fd : Nat) (rs : List RawItem),
          v.depth ≤ fd → (emitsOne (.slice k') v = true ∨ htag rs ≠ tag) →
          decK S fd (.slice k') tag (Cur.of (items.map Item.raw ++ rs)) ver = .ok (v', Cur.of rs, ver')) := by
  rw [normK_slice] at h
  split at h
  · rename_i xs
    obtain ⟨hdef, h⟩ := ite_eq_some h
    cases hx : normSlice S n k' tag xs ver with
    | none => simp only [hx] at h; contradiction
    | some p =>
    obtain ⟨xs', w⟩ := p
    simp only [hx] at h
    obtain ⟨rfl, rfl⟩ := pair_eq (Option.some.inj h)
    obtain ⟨items, he, he', hn', ht, _, hnz, hd⟩ := hS k' tag xs ver xs' w hdef hx
    refine ⟨items, by rw [encK_slice]; exact he, by rw [encK_slice]; exact he',
      by simp only [normK_slice, hdef, if_true, hn'], ht, ?_, ?_⟩
    · intro hz
      apply hnz
      intro hxs; subst hxs; simp [Val.isZero] at hz
    intro hdec hr fd rs hfd hne
    have hne : htag rs ≠ tag := by
      rcases hne with h1 | h1
      · simp [emitsOne, Kind.definite, Kind.scalar] at h1
      · exact h1
    simp only [Val.depth] at hfd
    obtain ⟨f, rfl, hf⟩ := fuel_succ (by omega : (Val.depthList xs + 1) + 1 ≤ fd)
    have hdl := hd (decodable_slice hdec hdef) hr f rs (by omega) hne
    simp only [decK, hdl, Res.ok_bind, Res.pure_eq]
  · contradiction


/-- what is proved for a non-nil interface value: `decDyn` (the decoder a hand-written codec calls
    after it has chosen the dynamic type `d`) reads it back. -/
def PDyn (S : Schema) (n : Nat) : Prop :=
  ∀ (d tag : Nat) (x : Val) (ver : Option Ver) (v' : Val) (ver' : Option Ver),
    normK S n .iface tag (.iface (some (d, x))) ver = some (v', ver') →
    ∃ x' items, v' = .iface (some (d, x'))
      ∧ encK S n .iface tag (.iface (some (d, x))) ver = .ok (items, ver')
      ∧ encK S n .iface tag v' ver = .ok (items, ver')
      ∧ normK S n .iface tag v' ver = some (v', ver')
      ∧ (∀ it ∈ items, it.tag = tag)
      ∧ items.length = 1
      ∧ (S.dynOK (S.dyn d) = true → Item.AllInRange items →
          ∀ (fd : Nat) (rs : List RawItem) (tag0 : Nat),
          (tag0 = tag ∨ (tag0 = 0 ∧ tag = (S.dyn d).defTag)) → x.depth + 4 ≤ fd →
          decDyn S fd d tag0 (Cur.of (items.map Item.raw ++ rs)) ver = .ok (v', Cur.of rs, ver'))

theorem dynValOk_emitsOne {dk : Kind} {x : Val} (h : dynValOk dk x = true) : emitsOne dk x = true := by
  cases dk <;> simp_all [dynValOk, emitsOne]
  rename_i k
  split at h <;> simp_all

theorem dynValOk_ptr {k : Kind} {x : Val} (h : dynValOk (.ptr k) x = true) : ∃ y, x = .ptr (some y) := by
  simp only [dynValOk] at h
  split at h
  · exact ⟨_, rfl⟩
  · contradiction

theorem dynValOk_norm {S : Schema} {n tag : Nat} {dk : Kind} {x x' : Val} {ver ver' : Option Ver}
    (h : dynValOk dk x = true) (hn : normK S n dk tag x ver = some (x', ver')) :
    dynValOk dk x' = true := by
  cases dk with
  | ptr k =>
    obtain ⟨y, rfl⟩ := dynValOk_ptr h
    cases n with
    | zero => rw [normK_zero] at hn; contradiction
    | succ n =>
      rw [normK_ptr] at hn
      simp only at hn
      obtain ⟨_, hn⟩ := ite_eq_some hn
      cases hx : normK S n k tag y ver with
      | none => simp only [hx] at hn; contradiction
      | some p =>
        obtain ⟨y', w⟩ := p
        simp only [hx] at hn
        obtain ⟨rfl, -⟩ := pair_eq (Option.some.inj hn)
        rfl
  | _ => simpa [dynValOk] using h

theorem Res.bind_ptr_inv {r : Res (Val × DecSt)} {y : Val} {st : DecSt}
    (h : (r >>= fun p => (pure (Val.ptr (some p.1), p.2) : Res (Val × DecSt))) = .ok (Val.ptr (some y), st)) :
    r = .ok (y, st) := by
  cases r with
  | ok a =>
    obtain ⟨a1, a2⟩ := a
    simp only [Res.ok_bind, Res.pure_eq, Res.ok.injEq, Prod.mk.injEq, Val.ptr.injEq, Option.some.injEq] at h
    obtain ⟨rfl, rfl⟩ := h
    rfl
  | err e => simp only [Res.err_bind] at h; contradiction
  | panic m => simp only [Res.panic_bind] at h; contradiction

theorem pdyn_succ (S : Schema) (n : Nat) (hK : PK S n) : PDyn S (n + 1) := by
  intro d tag x ver v' ver' h
  rw [normK_iface] at h
  simp only at h
  obtain ⟨hok, h⟩ := ite_eq_some h
  cases hx : normK S n (S.dyn d).kind tag x ver with
  | none => simp only [hx] at h; contradiction
  | some p =>
  obtain ⟨x', w⟩ := p
  simp only [hx] at h
  obtain ⟨rfl, rfl⟩ := pair_eq (Option.some.inj h)
  obtain ⟨items, he, he', hn', ht, hl, _, hd⟩ := hK (S.dyn d).kind tag x ver x' w hx
  have hone := dynValOk_emitsOne hok
  refine ⟨x', items, rfl, by rw [encK_iface_some]; exact he, by rw [encK_iface_some]; exact he',
    by simp only [normK_iface, dynValOk_norm hok hx, if_true, hn'], ht, hl hone, ?_⟩
  intro hdyn hr fd rs tag0 htag0 hfd
  obtain ⟨f, rfl, hf⟩ := fuel_succ (by omega : (x.depth + 3) + 1 ≤ fd)
  obtain ⟨it, rfl⟩ := list_len1 (hl hone)
  have hit : it.tag = tag := ht it (List.mem_singleton.2 rfl)
  have hpos : 0 < tag := by
    have := (Item.InRange_basic it ((Item.allInRange_singleton it).1 hr)).1
    omega
  have htg : (if tag0 = 0 then (S.dyn d).defTag else tag0) = tag := by
    rcases htag0 with h1 | ⟨h1, h2⟩
    · subst h1; rw [if_neg (by omega)]
    · rw [if_pos h1, h2]
  simp only [Schema.dynOK, Bool.and_eq_true] at hdyn
  rw [decDyn]
  simp only [htg]
  cases hk : (S.dyn d).kind with
  | ptr k' =>
    rw [hk] at hd hok hx hdyn
    have hdk := hd hdyn.2 hr (f + 1) rs (by omega) (Or.inl (by rw [← hk]; exact hone))
    have hct : (Cur.of ([it].map Item.raw ++ rs)).tag = tag := by rw [Cur.tag_of, htag_single, hit]
    simp only [decK, hct, ne_eq, not_true_eq_false, if_false] at hdk
    -- the value is a non-nil pointer
    obtain ⟨y, rfl⟩ := dynValOk_ptr hok
    cases n with
    | zero => rw [normK_zero] at hx; contradiction
    | succ n =>
      rw [normK_ptr] at hx
      simp only at hx
      obtain ⟨_, hx⟩ := ite_eq_some hx
      cases hy : normK S n k' tag y ver with
      | none => simp only [hy] at hx; contradiction
      | some p =>
        obtain ⟨y', w'⟩ := p
        simp only [hy] at hx
        obtain ⟨rfl, rfl⟩ := pair_eq (Option.some.inj hx)
        have := Res.bind_ptr_inv hdk
        simp only [this, Res.ok_bind, Res.pure_eq]
  | _ =>
    rw [hk] at hd hok hx hdyn
    have hdk := hd hdyn.2 hr f rs (by omega) (Or.inl (by rw [← hk]; exact hone))
    simp only [hdk, Res.ok_bind, Res.pure_eq]

/-- PK at the interface kind (encoder side; interfaces are decoded by the hand-written codecs). -/
theorem pk_iface (S : Schema) (n : Nat) (hK : PK S n) (tag : Nat) (v : Val)
    (ver : Option Ver) (v' : Val) (ver' : Option Ver)
    (h : normK S (n + 1) .iface tag v ver = some (v', ver')) :
    ∃ items, encK S (n + 1) .iface tag v ver = .ok (items, ver')
      ∧ encK S (n + 1) .iface tag v' ver = .ok (items, ver')
      ∧ normK S (n + 1) .iface tag v' ver = some (v', ver')
      ∧ (∀ it ∈ items, it.tag = tag) := by
  cases v with
  | iface o =>
    cases o with
    | none =>
      rw [normK_iface] at h
      obtain ⟨rfl, rfl⟩ := pair_eq (Option.some.inj h)
      refine ⟨[], by rw [encK_iface_none], by rw [encK_iface_none], by rw [normK_iface], ?_⟩
      intro x hx; cases hx
    | some p =>
      obtain ⟨d, x⟩ := p
      obtain ⟨x', items, rfl, he, he', hn', ht, _, _⟩ := pdyn_succ S n hK d tag x ver v' ver' h
      exact ⟨items, he, he', hn', ht⟩
  | _ => rw [normK_iface] at h; contradiction

end Kmip
